(* Proofs for C02: the threshold-call model (Model/Threshold.v, Model/Baf.v) against the
   specification objects of Spec/CallThreshold.v. *)
From Coq Require Import Qround Qabs.
From CNV Require Import Base.Prelude Base.Str Gen.CallDefaults Model.Call Model.Threshold Model.Baf
  Spec.CallThreshold Proofs.CallNum Proofs.Call.
From Coq Require Import Lqa.   (* after Prelude: `lra` over Q *)

Local Open Scope Z_scope.

(* ---------------------------------------------------------------- comparisons *)

Lemma Qle_bool_false v t : Qle_bool v t = false <-> (t < v)%Q.
Proof.
  split; intro H.
  - apply Qnot_le_lt. intro L. apply Qle_bool_iff in L. congruence.
  - destruct (Qle_bool v t) eqn:E; [|reflexivity].
    apply Qle_bool_iff in E. exfalso. apply (Qlt_irrefl t). eapply Qlt_le_trans; eassumption.
Qed.

(* ---------------------------------------------------------------- the scan *)

Lemma first_le_bounds v ts : forall i0 i,
  first_le v ts i0 = Some i -> i0 <= i < i0 + Z.of_nat (length ts).
Proof.
  induction ts as [|t rest IH]; intros i0 i H; cbn [first_le] in H; [discriminate|].
  cbn [length]. destruct (Qle_bool v t).
  - injection H as <-. lia.
  - apply IH in H. lia.
Qed.

Lemma first_le_none v ts : forall i0, first_le v ts i0 = None <-> above_all v ts.
Proof.
  unfold above_all. induction ts as [|t rest IH]; intro i0; cbn [first_le].
  - split; [intros _ t [] | reflexivity].
  - destruct (Qle_bool v t) eqn:E.
    + split; [discriminate|]. intro H. exfalso.
      specialize (H t (or_introl eq_refl)). apply Qle_bool_false in H. congruence.
    + rewrite IH. split.
      * intros H u [<- | Hu]; [apply Qle_bool_false; exact E | apply H; exact Hu].
      * intros H u Hu. apply H. right. exact Hu.
Qed.

(* a larger log2 is never found earlier *)
Lemma first_le_mono v v' ts : (v <= v')%Q -> forall i0,
  match first_le v ts i0, first_le v' ts i0 with
  | Some i, Some i' => i <= i'
  | None, Some _ => False
  | _, None => True
  end.
Proof.
  intro Hv. induction ts as [|t rest IH]; intro i0; cbn [first_le]; [exact I|].
  destruct (Qle_bool v t) eqn:E; destruct (Qle_bool v' t) eqn:E'.
  - lia.
  - destruct (first_le v' rest (i0 + 1)) as [i'|] eqn:F; [|exact I].
    apply first_le_bounds in F. lia.
  - exfalso. apply Qle_bool_iff in E'. apply Qle_bool_false in E.
    apply (Qlt_irrefl t). eapply Qlt_le_trans; [exact E|]. eapply Qle_trans; eassumption.
  - apply IH.
Qed.

(* ---------------------------------------------------------------- counting *)

Lemma count_below_cons v t ts :
  count_below v (t :: ts) = (if Qle_bool v t then 0 else 1) + count_below v ts.
Proof.
  unfold count_below. cbn [filter]. destruct (Qle_bool v t); cbn [negb length]; lia.
Qed.

Lemma count_below_zero v ts : (forall u, In u ts -> (v <= u)%Q) -> count_below v ts = 0.
Proof.
  induction ts as [|t rest IH]; intro H; [reflexivity|].
  rewrite count_below_cons.
  assert (E : Qle_bool v t = true) by (apply Qle_bool_iff; apply H; left; reflexivity).
  rewrite E, IH; [reflexivity|]. intros u Hu. apply H. right. exact Hu.
Qed.

Lemma count_below_all v ts : above_all v ts -> count_below v ts = Z.of_nat (length ts).
Proof.
  unfold above_all. induction ts as [|t rest IH]; intro H; [reflexivity|].
  rewrite count_below_cons.
  assert (E : Qle_bool v t = false) by (apply Qle_bool_false; apply H; left; reflexivity).
  rewrite E, IH; [cbn [length]; lia|]. intros u Hu. apply H. right. exact Hu.
Qed.

Lemma strictly_increasing_head t rest :
  strictly_increasing (t :: rest) -> forall u, In u rest -> (t < u)%Q.
Proof.
  revert t. induction rest as [|u0 rest IH]; intros t H u Hu; [destruct Hu|].
  cbn [strictly_increasing] in H. destruct H as [H1 H2].
  destruct Hu as [<- | Hu]; [exact H1|].
  eapply Qlt_trans; [exact H1|]. apply (IH u0); [exact H2 | exact Hu].
Qed.

Lemma strictly_increasing_tail t rest : strictly_increasing (t :: rest) -> strictly_increasing rest.
Proof. cbn [strictly_increasing]. intros [_ H]. exact H. Qed.

(* for strictly increasing thresholds, the found index is the number of thresholds strictly below *)
Lemma first_le_count v ts : strictly_increasing ts -> forall i0 i,
  first_le v ts i0 = Some i -> i = i0 + count_below v ts.
Proof.
  induction ts as [|t rest IH]; intros Hs i0 i H; cbn [first_le] in H; [discriminate|].
  rewrite count_below_cons. destruct (Qle_bool v t) eqn:E.
  - injection H as <-. rewrite count_below_zero; [lia|].
    intros u Hu. apply Qle_bool_iff in E. apply Qlt_le_weak.
    eapply Qle_lt_trans; [exact E|]. apply (strictly_increasing_head t rest Hs u Hu).
  - apply IH in H; [lia|]. exact (strictly_increasing_tail t rest Hs).
Qed.

(* ---------------------------------------------------------------- scaling *)

Lemma Qfloor_div (a b : Z) : 0 < b -> Qfloor (inject_Z a / inject_Z b) = a / b.
Proof.
  intro Hb. pose proof (inject_Z_pos b Hb) as Hb'.
  apply Qfloor_unique.
  - apply Qle_shift_div_l; [exact Hb'|]. rewrite <- inject_Z_mult.
    apply (proj1 (inject_Z_le _ _)). rewrite Z.mul_comm. apply Z.mul_div_le. exact Hb.
  - apply Qlt_shift_div_r; [exact Hb'|].
    change 1%Q with (inject_Z 1). rewrite <- inject_Z_plus, <- inject_Z_mult.
    apply (proj1 (inject_Z_lt _ _)). rewrite Z.mul_comm.
    pose proof (Z.mul_succ_div_gt a b Hb). lia.
Qed.

Lemma scale_cn_spec i r k : 0 <= i -> 0 <= r -> 0 < k -> scale_cn i r k = spec_scale i r k.
Proof.
  intros Hi Hr Hk. unfold scale_cn, spec_scale. destruct (r =? k); [reflexivity|].
  rewrite Z.quot_div_nonneg by nia.
  rewrite <- Qfloor_div by exact Hk.
  apply Qfloor_comp. rewrite inject_Z_mult. pose proof (inject_Z_pos k Hk).
  field. intro E. lra.
Qed.

Lemma scale_cn_mono i i' r k : 0 <= i <= i' -> 0 <= r -> 0 < k -> scale_cn i r k <= scale_cn i' r k.
Proof.
  intros Hi Hr Hk. unfold scale_cn. destruct (r =? k); [lia|].
  apply Z.quot_le_mono; nia.
Qed.

Lemma scale_cn_nonneg i r k : 0 <= i -> 0 <= r -> 0 < k -> 0 <= scale_cn i r k.
Proof.
  intros Hi Hr Hk. unfold scale_cn. destruct (r =? k); [lia|]. apply Z.quot_pos; nia.
Qed.

(* ---------------------------------------------------------------- step function *)

Lemma forallb_above v ts : forallb (fun t => negb (Qle_bool v t)) ts = true <-> above_all v ts.
Proof.
  unfold above_all. rewrite forallb_forall. split; intros H t Ht.
  - apply Qle_bool_false. specialize (H t Ht). destruct (Qle_bool v t); [discriminate|reflexivity].
  - specialize (H t Ht). apply Qle_bool_false in H. rewrite H. reflexivity.
Qed.

(* below or at the last threshold: the (scaled) count of thresholds strictly below *)
Lemma thr_step v e ts k r : strictly_increasing ts -> ~ above_all v ts ->
  thr_cn (Some v) e ts k r = scale_cn (count_below v ts) r k.
Proof.
  intros Hs Hn. unfold thr_cn. destruct (first_le v ts 0) as [i|] eqn:F.
  - rewrite (first_le_count v ts Hs 0 i F). reflexivity.
  - exfalso. apply Hn. apply (first_le_none v ts 0). exact F.
Qed.

Lemma thr_above v e ts k r : above_all v ts -> thr_cn (Some v) e ts k r = Qceiling (inject_Z r * e).
Proof.
  intro H. unfold thr_cn. apply (first_le_none v ts 0) in H. rewrite H. reflexivity.
Qed.

Lemma thr_nan e ts k r : thr_cn None e ts k r = r.
Proof. reflexivity. Qed.

Lemma count_below_nonneg v ts : 0 <= count_below v ts.
Proof. unfold count_below. lia. Qed.

(* the model is the step function of the property *)
Lemma thr_spec v e ts k r : strictly_increasing ts -> 0 <= r -> 0 < k ->
  thr_cn (Some v) e ts k r = spec_thr v e ts k r.
Proof.
  intros Hs Hr Hk. unfold spec_thr.
  destruct (forallb (fun t => negb (Qle_bool v t)) ts) eqn:A.
  - apply thr_above. apply forallb_above. exact A.
  - rewrite thr_step; [|exact Hs|].
    + apply scale_cn_spec; [apply count_below_nonneg | exact Hr | exact Hk].
    + intro H. apply forallb_above in H. congruence.
Qed.

Lemma call_threshold_rows k hapx ts rows : length (call_threshold k hapx ts rows) = length rows.
Proof. unfold call_threshold. apply map_length. Qed.

Lemma Qceiling_nonneg x : (0 <= x)%Q -> 0 <= Qceiling x.
Proof. intro H. change 0 with (Qceiling 0). apply Qceiling_resp_le. exact H. Qed.

Lemma thr_nonneg v e ts k r : 0 <= r -> 0 < k -> (0 <= e)%Q -> 0 <= thr_cn v e ts k r.
Proof.
  intros Hr Hk He. unfold thr_cn. destruct v as [v|]; [|exact Hr].
  destruct (first_le v ts 0) as [i|] eqn:F.
  - apply first_le_bounds in F. apply scale_cn_nonneg; lia.
  - apply Qceiling_nonneg. apply Qmult_le_0_compat; [apply inject_Z_nonneg; exact Hr | exact He].
Qed.

Lemma thr_row_nonneg k hapx ts chrom v e : 0 < k -> (0 <= e)%Q -> 0 <= thr_row_cn k hapx ts (chrom, v, e).
Proof.
  intros Hk He. unfold thr_row_cn. apply thr_nonneg; [apply ref_pure_nonneg; lia | exact Hk | exact He].
Qed.

(* ---------------------------------------------------------------- monotonicity *)

Lemma ceiling_ge (c : Z) x : (inject_Z c - 1 < x)%Q -> c <= Qceiling x.
Proof.
  intro H. destruct (Z_le_gt_dec c (Qceiling x)) as [L|G]; [exact L|exfalso].
  pose proof (Qle_ceiling x) as C.
  assert (A : (inject_Z (Qceiling x) + 1 <= inject_Z c)%Q).
  { change 1%Q with (inject_Z 1). rewrite <- inject_Z_plus. apply (proj1 (inject_Z_le _ _)). lia. }
  lra.
Qed.

Lemma thr_monotone_gen (exp2 : Q -> Q) ts k r :
  exp2_monotone exp2 ->
  (length ts <= 4)%nat ->
  (forall v, above_all v ts -> (3 # 2 < exp2 v)%Q) ->
  2 <= k <= 6 -> r = k \/ r = k / 2 ->
  forall v v', (v <= v')%Q ->
    thr_cn (Some v) (exp2 v) ts k r <= thr_cn (Some v') (exp2 v') ts k r.
Proof.
  intros Hm Hl Hhi Hk Hr v v' Hv.
  assert (R0 : 0 <= r) by (destruct Hr as [-> | ->]; [lia | apply Z.div_pos; lia]).
  unfold thr_cn. pose proof (first_le_mono v v' ts Hv 0) as M.
  destruct (first_le v ts 0) as [i|] eqn:F; destruct (first_le v' ts 0) as [i'|] eqn:F'.
  - apply first_le_bounds in F. apply scale_cn_mono; lia.
  - (* found below, not found above: a step value against the ceiling *)
    apply first_le_bounds in F.
    assert (E32 : (3 # 2 < exp2 v')%Q) by (apply Hhi; apply (first_le_none v' ts 0); exact F').
    assert (Hi : i = 0 \/ i = 1 \/ i = 2 \/ i = 3) by lia.
    assert (Hk' : k = 2 \/ k = 3 \/ k = 4 \/ k = 5 \/ k = 6) by lia.
    apply ceiling_ge.
    destruct Hk' as [-> | [-> | [-> | [-> | ->]]]]; destruct Hr as [-> | ->];
      destruct Hi as [-> | [-> | [-> | ->]]];
      match goal with |- (inject_Z ?s - 1 < inject_Z ?r * _)%Q =>
        let c := eval vm_compute in s in change s with c;
        let d := eval vm_compute in r in change r with d end;
      unfold inject_Z; lra.
  - destruct M.
  - apply Qceiling_mono. rewrite (Qmult_comm _ (exp2 v)), (Qmult_comm _ (exp2 v')).
    apply Qmult_le_compat_r; [apply Hm; exact Hv | apply inject_Z_nonneg; exact R0].
Qed.
