(* C08 library lemmas (extension): decimal text <-> integers.
     parse_Z / print_Z (Model/Decimal.v, built on the stdlib Decimal conversions) against the
     left-fold value digits_val (Model/Chromsort.v) and a character-level notion of
     canonical decimal text (no sign for >= 0, "-" for < 0, no leading zeros, no "+", "0" for 0). *)
From Coq Require Import DecimalString DecimalZ DecimalPos DecimalFacts.
From CNV Require Import Base.Prelude Base.Str Model.Decimal Model.Chromsort.
From CNV Require Import Proofs.ChromsortLemmas Proofs.FormatsLemmas.

(* ------------------------------------------------------------------------ *)
(* digit characters                                                           *)

Lemma digit_cases c : is_digit c = true ->
  c = "0"%char \/ c = "1"%char \/ c = "2"%char \/ c = "3"%char \/ c = "4"%char \/
  c = "5"%char \/ c = "6"%char \/ c = "7"%char \/ c = "8"%char \/ c = "9"%char.
Proof.
  destruct c as [[] [] [] [] [] [] [] []]; cbn; intros H; try discriminate; auto 12.
Qed.

(* the Decimal.uint spelled by a list of digit characters (most significant first) *)
Definition dig (c : ascii) (d : Decimal.uint) : Decimal.uint :=
  match uint_of_char c (Some d) with Some x => x | None => Decimal.Nil end.

Fixpoint uint_of_chars (cs : list ascii) : Decimal.uint :=
  match cs with [] => Decimal.Nil | c :: t => dig c (uint_of_chars t) end.

Lemma uint_of_string_digits cs :
  forallb is_digit cs = true -> NilEmpty.uint_of_string (unchars cs) = Some (uint_of_chars cs).
Proof.
  induction cs as [|c t IH]; cbn [forallb]; intros H; [reflexivity|].
  apply andb_true_iff in H. destruct H as [Hc Ht].
  cbn [unchars string_of_list_ascii NilEmpty.uint_of_string uint_of_chars].
  change (string_of_list_ascii t) with (unchars t). rewrite (IH Ht).
  destruct (digit_cases c Hc) as [->|[->|[->|[->|[->|[->|[->|[->|[->| ->]]]]]]]]]; reflexivity.
Qed.

(* the value of a Decimal.uint as a left fold with accumulator *)
Fixpoint dfold (d : Decimal.uint) (acc : Z) : Z :=
  match d with
  | Decimal.Nil => acc
  | Decimal.D0 l => dfold l (10 * acc + 0)
  | Decimal.D1 l => dfold l (10 * acc + 1)
  | Decimal.D2 l => dfold l (10 * acc + 2)
  | Decimal.D3 l => dfold l (10 * acc + 3)
  | Decimal.D4 l => dfold l (10 * acc + 4)
  | Decimal.D5 l => dfold l (10 * acc + 5)
  | Decimal.D6 l => dfold l (10 * acc + 6)
  | Decimal.D7 l => dfold l (10 * acc + 7)
  | Decimal.D8 l => dfold l (10 * acc + 8)
  | Decimal.D9 l => dfold l (10 * acc + 9)
  end.

Lemma of_uint_acc_dfold d : forall acc, Z.pos (Pos.of_uint_acc d acc) = dfold d (Z.pos acc).
Proof.
  induction d; intros acc; cbn [Pos.of_uint_acc dfold]; try reflexivity;
    rewrite IHd; f_equal; lia.
Qed.

Lemma of_uint_dfold d : Z.of_uint d = dfold d 0.
Proof.
  unfold Z.of_uint. induction d; cbn [Pos.of_uint dfold]; try reflexivity;
    try (cbn [Z.of_N]; rewrite of_uint_acc_dfold; reflexivity).
  exact IHd.
Qed.

Definition dstep (a : Z) (c : ascii) : Z := 10 * a + digit_val c.

Lemma dfold_chars cs : forallb is_digit cs = true ->
  forall acc, dfold (uint_of_chars cs) acc = fold_left dstep cs acc.
Proof.
  induction cs as [|c t IH]; cbn [forallb]; intros H acc; [reflexivity|].
  apply andb_true_iff in H. destruct H as [Hc Ht]. cbn [uint_of_chars fold_left].
  rewrite <- (IH Ht).
  destruct (digit_cases c Hc) as [->|[->|[->|[->|[->|[->|[->|[->|[->| ->]]]]]]]]]; reflexivity.
Qed.

(* int("<digits>") is the left-fold value used by sorter_chrom's model *)
Lemma parse_digits cs :
  cs <> [] -> forallb is_digit cs = true -> parse_Z (unchars cs) = Some (digits_val cs).
Proof.
  intros Hne Hd. unfold parse_Z, NilZero.int_of_string.
  destruct cs as [|c t]; [congruence|]. cbn [unchars string_of_list_ascii].
  assert (Hc : (c =? "-")%char = false).
  { cbn in Hd. apply andb_true_iff in Hd. destruct Hd as [Hc _].
    destruct (Ascii.eqb_spec c "-"%char) as [->|]; [discriminate|reflexivity]. }
  rewrite Hc. unfold NilZero.uint_of_string.
  change (String c (string_of_list_ascii t)) with (unchars (c :: t)).
  rewrite (uint_of_string_digits _ Hd). cbn [option_map Z.of_int].
  rewrite of_uint_dfold, (dfold_chars _ Hd). reflexivity.
Qed.

Lemma parse_neg_digits cs :
  cs <> [] -> forallb is_digit cs = true ->
  parse_Z (String "-" (unchars cs)) = Some (- digits_val cs).
Proof.
  intros Hne Hd. unfold parse_Z, NilZero.int_of_string. cbn [Ascii.eqb Bool.eqb andb].
  unfold NilZero.uint_of_string. destruct cs as [|c t]; [congruence|].
  cbn [unchars string_of_list_ascii].
  change (String c (string_of_list_ascii t)) with (unchars (c :: t)).
  rewrite (uint_of_string_digits _ Hd). cbn [option_map Z.of_int].
  rewrite of_uint_dfold, (dfold_chars _ Hd). reflexivity.
Qed.

(* the value of the printed text of a non-negative integer *)
Lemma digits_val_print z : 0 <= z -> digits_val (chars (print_Z z)) = z.
Proof.
  intros Hz. pose proof (parse_print z) as H.
  rewrite <- (unchars_chars (print_Z z)) in H.
  rewrite parse_digits in H by (try apply print_nonempty; now apply print_digits).
  now injection H.
Qed.

Lemma print_neg p : print_Z (Z.neg p) = String "-" (print_Z (Z.pos p)).
Proof. reflexivity. Qed.

(* ------------------------------------------------------------------------ *)
(* canonical decimal text                                                     *)

Definition nz_digit (c : ascii) : bool := is_digit c && negb (Ascii.eqb c "0"%char).

(* "0", or a non-zero digit followed by digits *)
Definition canonical_nat (cs : list ascii) : bool :=
  match cs with
  | [] => false
  | [c] => is_digit c
  | c :: t => nz_digit c && forallb is_digit t
  end.

(* as canonical_nat, but not "0" *)
Definition canonical_pos (cs : list ascii) : bool :=
  match cs with
  | [] => false
  | c :: t => nz_digit c && forallb is_digit t
  end.

(* Python's str(int): "0", "17", "-5"; never "+5", "007", "-0", "" *)
Definition canonical_dec (s : string) : bool :=
  match chars s with
  | c :: cs => if Ascii.eqb c "-"%char then canonical_pos cs else canonical_nat (c :: cs)
  | [] => false
  end.

Lemma canonical_nat_digits cs : canonical_nat cs = true -> cs <> [] /\ forallb is_digit cs = true.
Proof.
  destruct cs as [|c [|c' t]]; cbn; intros H; try discriminate.
  - split; [congruence|]. now rewrite H.
  - split; [congruence|]. unfold nz_digit in H.
    apply andb_true_iff in H. destruct H as [H1 H2]. apply andb_true_iff in H1. destruct H1 as [H1 _].
    now rewrite H1.
Qed.

Lemma canonical_pos_nat cs : canonical_pos cs = true -> canonical_nat cs = true.
Proof.
  destruct cs as [|c [|c' t]]; cbn; intros H; try discriminate; auto.
  unfold nz_digit in H. rewrite andb_true_r in H. apply andb_true_iff in H. tauto.
Qed.

Lemma unorm_dig c d : nz_digit c = true -> Decimal.unorm (dig c d) = dig c d.
Proof.
  unfold nz_digit. intros H. apply andb_true_iff in H. destruct H as [Hd Hz].
  destruct (digit_cases c Hd) as [->|[->|[->|[->|[->|[->|[->|[->|[->| ->]]]]]]]]];
    try reflexivity. discriminate.
Qed.

Lemma nzhead_dig c d : nz_digit c = true -> Decimal.nzhead (dig c d) = dig c d.
Proof.
  unfold nz_digit. intros H. apply andb_true_iff in H. destruct H as [Hd Hz].
  destruct (digit_cases c Hd) as [->|[->|[->|[->|[->|[->|[->|[->|[->| ->]]]]]]]]];
    try reflexivity. discriminate.
Qed.

Lemma norm_neg_dig c d : nz_digit c = true ->
  Decimal.norm (Decimal.Neg (dig c d)) = Decimal.Neg (dig c d).
Proof.
  intros H. unfold Decimal.norm. rewrite (nzhead_dig c d H).
  unfold nz_digit in H. apply andb_true_iff in H. destruct H as [Hd Hz].
  destruct (digit_cases c Hd) as [->|[->|[->|[->|[->|[->|[->|[->|[->| ->]]]]]]]]];
    reflexivity.
Qed.

Lemma unorm_canonical cs : canonical_nat cs = true ->
  Decimal.unorm (uint_of_chars cs) = uint_of_chars cs.
Proof.
  destruct cs as [|c [|c' t]]; cbn [canonical_nat]; intros H; try discriminate.
  - destruct (digit_cases c H) as [->|[->|[->|[->|[->|[->|[->|[->|[->| ->]]]]]]]]]; reflexivity.
  - apply andb_true_iff in H. destruct H as [H _]. cbn [uint_of_chars]. now apply unorm_dig.
Qed.

(* a canonical non-negative text is the printed form of its value *)
Lemma print_canonical_nat cs : canonical_nat cs = true -> print_Z (digits_val cs) = unchars cs.
Proof.
  intros H. destruct (canonical_nat_digits cs H) as [Hne Hd].
  pose proof (parse_digits cs Hne Hd) as HP. unfold parse_Z in HP.
  destruct (NilZero.int_of_string (unchars cs)) as [d|] eqn:E; [|discriminate].
  cbn [option_map] in HP. injection HP as HP. rewrite <- HP.
  unfold print_Z. rewrite DecimalZ.to_of. rewrite <- (NilZero.sis _ _ E). f_equal.
  (* d = Pos (uint_of_chars cs), normalised *)
  unfold NilZero.int_of_string in E. destruct cs as [|c t]; [congruence|].
  cbn [unchars string_of_list_ascii] in E.
  assert (Hc : (c =? "-")%char = false).
  { cbn in Hd. apply andb_true_iff in Hd. destruct Hd as [Hc _].
    destruct (Ascii.eqb_spec c "-"%char) as [->|]; [discriminate|reflexivity]. }
  rewrite Hc in E. unfold NilZero.uint_of_string in E.
  change (String c (string_of_list_ascii t)) with (unchars (c :: t)) in E.
  rewrite (uint_of_string_digits _ Hd) in E. cbn [option_map] in E. injection E as <-.
  cbn [Decimal.norm]. change (dig c (uint_of_chars t)) with (uint_of_chars (c :: t)). now rewrite unorm_canonical.
Qed.

Lemma print_canonical_neg cs : canonical_pos cs = true ->
  print_Z (- digits_val cs) = String "-" (unchars cs).
Proof.
  intros H. pose proof (canonical_pos_nat cs H) as Hn.
  destruct (canonical_nat_digits cs Hn) as [Hne Hd].
  pose proof (parse_neg_digits cs Hne Hd) as HP. unfold parse_Z in HP.
  destruct (NilZero.int_of_string (String "-" (unchars cs))) as [d|] eqn:E; [|discriminate].
  cbn [option_map] in HP. injection HP as HP. rewrite <- HP.
  unfold print_Z. rewrite DecimalZ.to_of. rewrite <- (NilZero.sis _ _ E). f_equal.
  unfold NilZero.int_of_string in E. cbn [Ascii.eqb Bool.eqb andb] in E.
  unfold NilZero.uint_of_string in E. destruct cs as [|c t]; [congruence|].
  cbn [unchars string_of_list_ascii] in E.
  change (String c (string_of_list_ascii t)) with (unchars (c :: t)) in E.
  rewrite (uint_of_string_digits _ Hd) in E. cbn [option_map] in E. injection E as <-.
  cbn [uint_of_chars]. apply norm_neg_dig. cbn in H. apply andb_true_iff in H. tauto.
Qed.

(* the value denoted by a canonical text *)
Definition dec_value (s : string) : Z :=
  match chars s with
  | c :: cs => if Ascii.eqb c "-"%char then - digits_val cs else digits_val (c :: cs)
  | [] => 0
  end.

Lemma canonical_head_not_minus c cs : canonical_nat (c :: cs) = true -> Ascii.eqb c "-"%char = false.
Proof.
  intros H. destruct (canonical_nat_digits _ H) as [_ Hd]. cbn in Hd.
  apply andb_true_iff in Hd. destruct Hd as [Hc _].
  destruct (Ascii.eqb_spec c "-"%char) as [->|]; [discriminate|reflexivity].
Qed.

(* canonical text parses to its value and the value prints back to the same text *)
Theorem canonical_roundtrip s :
  canonical_dec s = true -> parse_Z s = Some (dec_value s) /\ print_Z (dec_value s) = s.
Proof.
  unfold canonical_dec, dec_value. intros H.
  rewrite <- (unchars_chars s) at 1 4. destruct (chars s) as [|c cs]; [discriminate|].
  destruct (Ascii.eqb_spec c "-"%char) as [->|Hc].
  - pose proof (canonical_pos_nat cs H) as Hn. destruct (canonical_nat_digits cs Hn) as [Hne Hd].
    split; [now apply parse_neg_digits | now apply print_canonical_neg].
  - destruct (canonical_nat_digits _ H) as [Hne Hd].
    split; [now apply parse_digits | now apply print_canonical_nat].
Qed.

(* the printed form of every integer is canonical *)
Lemma digits_val_zero_head c t :
  nz_digit c = true -> forallb is_digit t = true -> 0 < digits_val (c :: t).
Proof.
  intros Hc Ht. unfold digits_val. cbn [fold_left].
  assert (H1 : 1 <= 10 * 0 + digit_val c).
  { unfold nz_digit in Hc. apply andb_true_iff in Hc. destruct Hc as [Hd Hz].
    destruct (digit_cases c Hd) as [->|[->|[->|[->|[->|[->|[->|[->|[->| ->]]]]]]]]];
      try discriminate; cbn; lia. }
  generalize dependent (10 * 0 + digit_val c). induction t as [|x t IH]; intros a Ha; cbn [fold_left]; [lia|].
  cbn in Ht. apply andb_true_iff in Ht. destruct Ht as [Hx Ht].
  apply IH; auto. pose proof (digit_val_range x Hx). lia.
Qed.

Lemma to_uint_head p : exists c t, chars (print_Z (Z.pos p)) = c :: t /\ nz_digit c = true /\ forallb is_digit t = true.
Proof.
  pose proof (print_digits (Z.pos p) ltac:(lia)) as Hd.
  pose proof (digits_val_print (Z.pos p) ltac:(lia)) as Hv.
  destruct (chars (print_Z (Z.pos p))) as [|c t] eqn:E.
  - cbn in Hv. discriminate.
  - exists c, t. split; [reflexivity|]. cbn in Hd. apply andb_true_iff in Hd. destruct Hd as [Hc Ht].
    split; [|exact Ht]. unfold nz_digit. rewrite Hc. cbn.
    destruct (Ascii.eqb_spec c "0"%char) as [->|]; [|reflexivity]. exfalso.
    (* a leading zero: the text would not be the normal form of its value *)
    pose proof (parse_print (Z.pos p)) as HP. unfold parse_Z, print_Z in HP.
    assert (HU : Decimal.unorm (Pos.to_uint p) = Pos.to_uint p).
    { pose proof (Unsigned.to_of (Pos.to_uint p)) as H. rewrite Unsigned.of_to in H. exact (eq_sym H). }
    unfold print_Z in E. cbn [Z.to_int NilZero.string_of_int] in E.
    unfold NilZero.string_of_uint in E.
    destruct (Pos.to_uint p) as [|u|u|u|u|u|u|u|u|u|u] eqn:EU; cbn in E; try discriminate.
    + (* D0 u *) rewrite unorm_D0 in HU.
      assert (Hnz : Decimal.nzhead u <> Decimal.D0 u).
      { clear. intros H. pose proof (nzhead_nonzero u u) as H0. contradiction. }
      unfold Decimal.unorm in HU. destruct (Decimal.nzhead u) eqn:EN; try (now apply Hnz);
        try discriminate.
      injection HU as <-. now apply (Unsigned.to_uint_nonzero p).
Qed.

Theorem print_is_canonical z : canonical_dec (print_Z z) = true.
Proof.
  destruct z as [|p|p].
  - reflexivity.
  - destruct (to_uint_head p) as (c & t & E & Hc & Ht). unfold canonical_dec. rewrite E.
    assert (Hm : Ascii.eqb c "-"%char = false).
    { unfold nz_digit in Hc. apply andb_true_iff in Hc. destruct Hc as [Hd _].
      destruct (Ascii.eqb_spec c "-"%char) as [->|]; [discriminate|reflexivity]. }
    rewrite Hm. cbn [canonical_nat]. destruct t; [|now rewrite Hc, Ht].
    unfold nz_digit in Hc. apply andb_true_iff in Hc. tauto.
  - rewrite print_neg. destruct (to_uint_head p) as (c & t & E & Hc & Ht).
    unfold canonical_dec. cbn [chars list_ascii_of_string Ascii.eqb Bool.eqb andb].
    change (list_ascii_of_string (print_Z (Z.pos p))) with (chars (print_Z (Z.pos p))).
    rewrite E. cbn [canonical_pos]. now rewrite Hc, Ht.
Qed.

(* uniqueness: the canonical text of a value is its printed form *)
Theorem canonical_unique s z : canonical_dec s = true -> parse_Z s = Some z -> s = print_Z z.
Proof.
  intros Hc Hp. destruct (canonical_roundtrip s Hc) as [H1 H2].
  rewrite H1 in Hp. injection Hp as <-. now symmetry.
Qed.

(* reading then writing a canonical coordinate text gives the same text back *)
Corollary print_parse_canonical s : canonical_dec s = true ->
  option_map print_Z (parse_Z s) = Some s.
Proof. intros H. destruct (canonical_roundtrip s H) as [H1 H2]. now rewrite H1; cbn; rewrite H2. Qed.

(* in general (leading zeros allowed) re-printing keeps the value *)
Lemma parse_print_parse s z : parse_Z s = Some z -> parse_Z (print_Z z) = Some z.
Proof. intros _. apply parse_print. Qed.

(* "+5", "", "-", " 5", "5 " are not integers for the readers' model *)
Lemma parse_rejects :
  parse_Z "+5" = None /\ parse_Z "" = None /\ parse_Z "-" = None /\ parse_Z " 5" = None /\
  parse_Z "5 " = None /\ parse_Z "1_000" = None /\ parse_Z "007" = Some 7 /\ parse_Z "-0" = Some 0.
Proof. repeat split; reflexivity. Qed.

(* ------------------------------------------------------------------------ *)
(* stable sort: uniqueness, and commutation with filters                      *)

Section StableMore.
  Context {A : Type} (leb : A -> A -> bool).
  Hypothesis leb_total : forall a b, leb a b = true \/ leb b a = true.
  Hypothesis leb_trans : forall a b c, leb a b = true -> leb b c = true -> leb a c = true.

  Let R (a b : A) : Prop := leb a b = true.

  Lemma leb_refl_of_total a : leb a a = true.
  Proof. destruct (leb_total a a); auto. Qed.

  Lemma equivb_refl a : equivb leb a a = true.
  Proof. unfold equivb. now rewrite leb_refl_of_total. Qed.

  (* two sorted lists with the same subsequence of every equivalence class are equal:
     the stable sort of Model/Chromsort.v is the only sorted, stable arrangement *)
  Lemma sorted_stable_unique l1 : forall l2,
    StronglySorted R l1 -> StronglySorted R l2 ->
    (forall z, filter (equivb leb z) l1 = filter (equivb leb z) l2) -> l1 = l2.
  Proof.
    induction l1 as [|x t1 IH]; intros l2 S1 S2 H.
    - destruct l2 as [|y t2]; auto. specialize (H y). cbn in H. rewrite equivb_refl in H. discriminate.
    - destruct l2 as [|y t2].
      + specialize (H x). cbn in H. rewrite equivb_refl in H. discriminate.
      + inversion S1 as [|? ? S1' F1]; subst. inversion S2 as [|? ? S2' F2]; subst.
        assert (Hyx : R y x).
        { assert (Hin : In x (filter (equivb leb x) (x :: t1))) by (cbn [filter]; rewrite equivb_refl; now left).
          rewrite (H x) in Hin.
          apply filter_In in Hin. destruct Hin as [[->|Hin] _]; [apply leb_refl_of_total|].
          rewrite Forall_forall in F2. now apply F2. }
        assert (Hxy : R x y).
        { assert (Hin : In y (filter (equivb leb y) (y :: t2))) by (cbn [filter]; rewrite equivb_refl; now left).
          rewrite <- (H y) in Hin.
          apply filter_In in Hin. destruct Hin as [[->|Hin] _]; [apply leb_refl_of_total|].
          rewrite Forall_forall in F1. now apply F1. }
        assert (E : x = y).
        { pose proof (H x) as Hx. cbn [filter] in Hx. rewrite equivb_refl in Hx.
          assert (Heq : equivb leb x y = true) by (unfold equivb, R in *; now rewrite Hxy, Hyx).
          rewrite Heq in Hx. now injection Hx. }
        subst y. f_equal. apply IH; auto. intros z. specialize (H z). cbn [filter] in H.
        destruct (equivb leb z x); [now injection H | exact H].
  Qed.

  Lemma insert_by_head x l :
    (forall y, In y l -> R x y) -> insert_by leb x l = x :: l.
  Proof.
    destruct l as [|y t]; cbn; auto. intros H. unfold R in H. now rewrite (H y (or_introl eq_refl)).
  Qed.

  Lemma filter_insert_sorted (p : A -> bool) x l :
    StronglySorted R l ->
    filter p (insert_by leb x l) = if p x then insert_by leb x (filter p l) else filter p l.
  Proof.
    induction l as [|y t IH]; intros S.
    - cbn. destruct (p x); reflexivity.
    - inversion S as [|? ? S' F]; subst. cbn [insert_by].
      destruct (leb x y) eqn:Hxy.
      + cbn [filter]. destruct (p x) eqn:Hpx; [|reflexivity].
        symmetry. apply insert_by_head. intros z Hz.
        assert (Hz' : In z (y :: t)).
        { change (In z (filter p (y :: t))) in Hz. apply filter_In in Hz. tauto. }
        destruct Hz' as [->|Hz']; [exact Hxy|].
        rewrite Forall_forall in F. eapply leb_trans; [exact Hxy | now apply F].
      + cbn [filter]. rewrite (IH S').
        destruct (p y) eqn:Hpy; destruct (p x) eqn:Hpx; cbn [insert_by]; try rewrite Hxy; reflexivity.
  Qed.

  (* dropping rows before or after a stable sort gives the same table *)
  Lemma filter_stable_sort (p : A -> bool) l :
    filter p (stable_sort leb l) = stable_sort leb (filter p l).
  Proof.
    induction l as [|x t IH]; cbn [stable_sort filter]; auto.
    rewrite filter_insert_sorted by (apply stable_sort_sorted; auto).
    rewrite IH. destruct (p x); reflexivity.
  Qed.
End StableMore.
