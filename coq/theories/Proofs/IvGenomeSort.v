(* Genome level, continued: total_range_size as the sum over chromosomes, and the facts
   about GenomicArray.sort (stable sort on (sorter_chrom, start, end)) that other
   properties lean on: per chromosome it IS the stable (start, end) sort of that
   chromosome's rows; rows with equal keys keep their input order; the chromosomes
   come in key order, each one contiguous; a sorted table is left alone. *)
From CNV Require Import Base.Prelude Model.IvRow Model.IvCombine Model.Intervals Model.Chromsort Spec.Cover.
From CNV Require Import Proofs.IvCover Proofs.IvMerge Proofs.IvLib2 Proofs.ChromsortLemmas Proofs.IvGenome.
From CNV Require Gen.IvDefaults.

Section Total.
Context {A : Type} (comb : A -> list A -> A).
Notation grow := (g_row A).

Lemma sum_indicator (x : string) (v : Z) cs :
  NoDup cs -> In x cs -> sumZ (map (fun c => if String.eqb x c then v else 0) cs) = v.
Proof.
  induction cs as [|c t IH]; intros Hnd Hin; [destruct Hin|].
  inversion Hnd as [|? ? Hc Hnd']; subst. cbn [map sumZ].
  destruct (String.eqb x c) eqn:E.
  - apply String.eqb_eq in E. subst c.
    assert (sumZ (map (fun c => if String.eqb x c then v else 0) t) = 0).
    { clear IH Hnd' Hnd Hin. induction t as [|c t IH]; [reflexivity|]. cbn [map sumZ].
      destruct (String.eqb x c) eqn:E.
      - apply String.eqb_eq in E. subst. exfalso. apply Hc. now left.
      - rewrite IH; [lia|]. intros H. apply Hc. now right. }
    lia.
  - destruct Hin as [->|Hin]; [rewrite String.eqb_refl in E; discriminate|].
    rewrite IH; auto.
Qed.

Lemma sum_by_chroms (w : grow -> Z) (m : list grow) cs :
  NoDup cs -> (forall r, In r m -> In (g_chrom r) cs) ->
  sumZ (map w m) = sumZ (map (fun c => sumZ (map w (filter (g_on c) m))) cs).
Proof.
  intros Hnd. induction m as [|r m IH]; intros Hall.
  - cbn [map sumZ filter]. clear Hnd Hall. induction cs as [|c t IHc]; [reflexivity|].
    cbn [map sumZ]. lia.
  - cbn [map sumZ]. rewrite IH by (intros; apply Hall; now right).
    rewrite <- (sum_indicator (g_chrom r) (w r) cs Hnd (Hall r (or_introl eq_refl))).
    clear IH Hall Hnd. induction cs as [|c t IHc]; [reflexivity|].
    cbn [map sumZ]. rewrite <- IHc. cbn [filter]. change (g_on c r) with (String.eqb (g_chrom r) c).
    destruct (String.eqb (g_chrom r) c); cbn [map sumZ]; lia.
Qed.

Lemma sum_sub_ext (a b a' b' : string -> Z) cs :
  (forall c, a c = a' c) -> (forall c, b c = b' c) ->
  sumZ (map a cs) - sumZ (map b cs) = sumZ (map (fun c => a' c - b' c) cs).
Proof.
  intros Ha Hb. induction cs as [|c t IH]; [reflexivity|].
  cbn [map sumZ]. rewrite <- IH, Ha, Hb. lia.
Qed.

Theorem g_total_chroms (t : list grow) :
  g_total comb t =
  sumZ (map (fun c => total_sel (g_comb comb) (all_gaps Gen.IvDefaults.total_size_bp t) (filter (g_on c) t))
            (g_chroms t)).
Proof.
  unfold g_total, total_sel. cbv zeta.
  set (m := g_merge comb Gen.IvDefaults.total_size_bp t).
  assert (Hall : forall r, In r m -> In (g_chrom r) (g_chroms t)).
  { intros r Hr. destruct (in_dec string_dec (g_chrom r) (g_chroms t)) as [H|H]; auto. exfalso.
    apply g_chroms_filter_nil in H.
    assert (Hin : In r (filter (g_on (g_chrom r)) m)) by (apply filter_In; split; auto; now apply g_on_true).
    unfold m in Hin. rewrite g_merge_chrom, H in Hin. destruct Hin. }
  pose proof (sum_by_chroms hi m _ (g_chroms_NoDup t) Hall) as Hh.
  pose proof (sum_by_chroms lo m _ (g_chroms_NoDup t) Hall) as Hl.
  etransitivity; [apply (f_equal2 Z.sub); [exact Hh | exact Hl]|].
  apply sum_sub_ext; intros c.
  - apply (f_equal (fun l => sumZ (map hi l))). exact (g_merge_chrom comb _ t c).
  - apply (f_equal (fun l => sumZ (map lo l))). exact (g_merge_chrom comb _ t c).
Qed.

End Total.

(* ---- GenomicArray.sort ------------------------------------------------------------------- *)
Section Sort.
Context {A : Type}.
Notation grow := (g_row A).
Notation leb := (region_leb (@g_proj A)).

(* on one chromosome the genome key order is the (start, end) order *)
Lemma region_leb_same_chrom (x y : grow) :
  g_chrom x = g_chrom y -> leb x y = row_leb x y.
Proof.
  intros Hc. unfold region_leb, g_proj, rkey_of. rewrite Hc.
  apply eq_true_iff_eq. rewrite rkey_leb_spec. unfold row_leb.
  rewrite orb_true_iff, andb_true_iff, Z.ltb_lt, Z.eqb_eq, Z.leb_le. split.
  - intros [H|[_ H]]; [|exact H].
    exfalso. unfold ckey_ltb in H. destruct ckey_compare_good as (R & _).
    rewrite R in H. discriminate.
  - intros H. right. split; [reflexivity | exact H].
Qed.

Lemma insert_by_chrom c (x : grow) (l : list grow) :
  StronglySorted (fun a b => leb a b = true) l ->
  filter (g_on c) (insert_by leb x l) =
  if g_on c x then insert_row x (filter (g_on c) l) else filter (g_on c) l.
Proof.
  induction l as [|y t IH]; intros HS.
  - cbn. destruct (g_on c x); reflexivity.
  - inversion HS as [|? ? HS' HF]; subst. cbn [insert_by].
    destruct (leb x y) eqn:Hxy.
    + change (filter (g_on c) (x :: y :: t))
        with (if g_on c x then x :: filter (g_on c) (y :: t) else filter (g_on c) (y :: t)).
      destruct (g_on c x) eqn:Ex; [|reflexivity].
      (* x goes in front of everything: the first remaining row of chromosome c is >= x *)
      assert (Hall : forall z, In z (filter (g_on c) (y :: t)) -> row_leb x z = true).
      { intros z Hz. apply filter_In in Hz as [Hz Hcz].
        rewrite <- region_leb_same_chrom
          by (apply g_on_true in Ex; apply g_on_true in Hcz; congruence).
        destruct Hz as [<-|Hz]; [exact Hxy|].
        rewrite Forall_forall in HF. eapply region_leb_trans; [exact Hxy | now apply HF]. }
      destruct (filter (g_on c) (y :: t)) as [|z rest] eqn:Ef; [reflexivity|].
      cbn [insert_row]. rewrite (Hall z (or_introl eq_refl)). reflexivity.
    + cbn [filter]. rewrite (IH HS').
      destruct (g_on c y) eqn:Ey; [|reflexivity].
      destruct (g_on c x) eqn:Ex; [|reflexivity].
      cbn [insert_row].
      rewrite <- region_leb_same_chrom
        by (apply g_on_true in Ex; apply g_on_true in Ey; congruence).
      rewrite Hxy. reflexivity.
Qed.

(* per chromosome, GenomicArray.sort is the stable (start, end) sort of that chromosome *)
Theorem g_sort_chrom c (t : list grow) :
  filter (g_on c) (g_sort t) = sort_rows (filter (g_on c) t).
Proof.
  unfold g_sort, sort_regions. induction t as [|x t IH]; [reflexivity|].
  cbn [stable_sort]. rewrite insert_by_chrom.
  - cbn [filter]. destruct (g_on c x); rewrite IH; reflexivity.
  - apply (sort_regions_sorted (@g_proj A)).
Qed.

Theorem g_sort_perm (t : list grow) : Permutation t (g_sort t).
Proof. apply sort_regions_perm. Qed.

(* sorted by (sorter_chrom(chromosome), start, end) *)
Theorem g_sort_sorted (t : list grow) : StronglySorted (fun a b => leb a b = true) (g_sort t).
Proof. apply (sort_regions_sorted (@g_proj A)). Qed.

(* stable: rows with the same (chromosome key, start, end) keep their input order *)
Theorem g_sort_stable (z : grow) (t : list grow) :
  filter (fun y => leb z y && leb y z) (g_sort t) = filter (fun y => leb z y && leb y z) t.
Proof. apply (sort_regions_stable (@g_proj A)). Qed.

(* a sorted table is left as it is; sorting twice = sorting once *)
Theorem g_sort_id (t : list grow) : Sorted (fun a b => leb a b = true) t -> g_sort t = t.
Proof. apply sort_regions_sorted_id. Qed.

Theorem g_sort_idem (t : list grow) : g_sort (g_sort t) = g_sort t.
Proof. apply sort_regions_idem. Qed.

(* the chromosome names of the sorted table come in sorter_chrom order *)
Theorem g_sort_chrom_order (t : list grow) :
  StronglySorted (fun a b => g_key_leb a b = true) (map g_chrom (g_sort t)).
Proof.
  pose proof (g_sort_sorted t) as H. induction H as [|x l Hl IH HF]; [constructor|].
  cbn [map]. constructor; [exact IH|].
  apply Forall_forall. intros c Hc. apply in_map_iff in Hc as [y [<- Hy]].
  rewrite Forall_forall in HF. specialize (HF y Hy).
  unfold region_leb, g_proj, rkey_of in HF. apply rkey_leb_spec in HF.
  unfold g_key_leb. destruct HF as [HF|[HF _]].
  - now apply ckey_ltb_leb.
  - rewrite HF. apply ckey_leb_refl.
Qed.

(* and every chromosome is contiguous: the sorted table is the concatenation of its
   per-chromosome blocks, each the stably sorted rows of that chromosome *)
End Sort.
