(* C03 proofs, part 9: the `variants=` path of _do_segmentation for the per-arm methods.
   Row bookkeeping of hmm.variants_in_segment (which rows result, their coordinates, probes
   and log2), the baf column (each row gets the BAF of its own range), and transfer_fields on
   arbitrary rows -- also rows that overlap no input bin -- now that iter_slices is called
   with keep_empty=True (/repo 0138a18). *)
From CNV Require Import Base.Prelude Base.Str Gen.SegDefaults Model.Arms Model.Segment Spec.Segments
  Proofs.SegTiles Proofs.SegArm Proofs.SegFields Proofs.SegChrom Proofs.SegSlices.

Lemma map_fst_combine' {A B} (a : list A) (b : list B) : length a = length b -> map fst (combine a b) = a.
Proof.
  revert b; induction a as [|x t IH]; intros b H; [reflexivity|]. destruct b as [|y u]; [discriminate|].
  cbn [combine map fst]. rewrite IH by (cbn in H; lia). reflexivity.
Qed.

Lemma map_snd_combine' {A B} (a : list A) (b : list B) : length a = length b -> map snd (combine a b) = b.
Proof.
  revert b; induction a as [|x t IH]; intros b H; [destruct b; [reflexivity|discriminate]|].
  destruct b as [|y u]; [discriminate|]. cbn [combine map snd]. rewrite IH by (cbn in H; lia). reflexivity.
Qed.

(* ---- transfer_fields on arbitrary rows ------------------------------------------------- *)

(* the flag in the source today; a revert to False breaks this lemma and with it the
   unconditional statements below *)
Lemma keep_empty_now : transfer_slices_keep_empty = true.
Proof. reflexivity. Qed.

Lemma kept_all (l : list (list bin)) : filter kept l = l.
Proof.
  induction l as [|s t IH]; [reflexivity|]. cbn [filter]. unfold kept at 1. rewrite keep_empty_now. cbn [orb].
  rewrite IH. reflexivity.
Qed.

Lemma fill_rows_map bins ws :
  fill_rows ws (map (fun q => spanned bins (fst q) (snd q)) (map raw_range ws)) = map (fill_spanned bins) ws.
Proof. induction ws as [|w wt IH]; [reflexivity|]. cbn [map fill_rows raw_range fst snd]. rewrite IH. reflexivity. Qed.

(* every row -- whether or not it overlaps an input bin -- gets the aggregates of exactly
   the bins it overlaps (none: weight 0, depth 0, gene "-") *)
Lemma aggregate_all c bins ws e E :
  bins_in e bins E -> 0 <= e -> aggregate c bins ws = map (fill_spanned bins) ws.
Proof.
  intros H He. unfold aggregate. rewrite (slices_spec c bins _ e E H He), kept_all. apply fill_rows_map.
Qed.

Lemma fill_spanned_fields bins w : fields_ok bins (fill_spanned bins w).
Proof.
  unfold fields_ok. cbv zeta.
  change (spans (fill_spanned bins w)) with (overlaps (w_lo w) (w_hi w)).
  unfold fill_spanned, fill, spanned. cbv zeta. cbn [s_gene s_weight s_depth].
  split; [apply gene_field_spec|apply agg_spec].
Qed.

Lemma fill_spanned_carries bins w : carries w (fill_spanned bins w).
Proof. unfold carries, fill_spanned, fill. cbn. repeat split. Qed.

Definition stretched (bins : list bin) (ws : list raw) : list raw :=
  match bins with
  | [] => []
  | b :: t => raw_stretch_hi (b_hi (last t b)) (raw_stretch_lo (b_lo b) ws)
  end.

Lemma raw_stretch_lo_length v ws : length (raw_stretch_lo v ws) = length ws.
Proof. destruct ws; reflexivity. Qed.

Lemma raw_stretch_hi_length v ws : length (raw_stretch_hi v ws) = length ws.
Proof.
  induction ws as [|w t IH]; [reflexivity|]. destruct t as [|w' t']; [reflexivity|].
  change (raw_stretch_hi v (w :: w' :: t')) with (w :: raw_stretch_hi v (w' :: t')). cbn [length] in *. rewrite IH. reflexivity.
Qed.

Lemma stretched_length bins ws : bins <> [] -> length (stretched bins ws) = length ws.
Proof.
  destruct bins as [|b t]; [congruence|]. intros _. unfold stretched.
  rewrite raw_stretch_hi_length, raw_stretch_lo_length. reflexivity.
Qed.

(* transfer_fields: stretch the first / last row to the piece's first / last input bin, then
   give every row the aggregates of the bins it overlaps *)
Lemma transfer_spec c bins ws :
  bins_wf bins -> 0 <= span_lo bins ->
  transfer c bins ws = map (fill_spanned bins) (stretched bins ws).
Proof.
  intros H He. unfold transfer, stretched. destruct bins as [|b t]; [reflexivity|].
  exact (aggregate_all c (b :: t) _ _ _ H He).
Qed.

Lemma transfer_fields_ok c bins ws :
  bins_wf bins -> 0 <= span_lo bins -> Forall (fields_ok bins) (transfer c bins ws).
Proof.
  intros H He. rewrite (transfer_spec c bins ws H He). apply Forall_map.
  apply Forall_forall. intros w _. apply fill_spanned_fields.
Qed.

(* ---- hmm.variants_in_segment: the rows made out of one row ---------------------------------- *)

Lemma mid_breaks_length rs : rs <> [] -> S (length (mid_breaks rs)) = length rs.
Proof.
  induction rs as [|a t IH]; [congruence|]. intros _. destruct t as [|b t']; [reflexivity|].
  change (mid_breaks (a :: b :: t')) with ((run_start b + run_end a) / vseg_mid_divisor :: mid_breaks (b :: t')).
  cbn [length] in *. rewrite IH by discriminate. reflexivity.
Qed.

Lemma rows3_chain lg : forall mids a b ps,
  length ps = S (length mids) ->
  forallb (fun r => w_lo r <? w_hi r) (rows3 (a :: mids) (mids ++ [b]) ps lg) = true ->
  chain a (rows3 (a :: mids) (mids ++ [b]) ps lg) b /\
  Forall (fun r => w_log2 r = lg) (rows3 (a :: mids) (mids ++ [b]) ps lg) /\
  map w_probes (rows3 (a :: mids) (mids ++ [b]) ps lg) = ps /\
  length (rows3 (a :: mids) (mids ++ [b]) ps lg) = S (length mids).
Proof.
  induction mids as [|m mt IH]; intros a b ps Hl Hp.
  - destruct ps as [|p pt]; [discriminate|]. destruct pt; [|discriminate].
    cbn [app rows3] in *. cbn [forallb w_lo w_hi] in Hp. rewrite Bool.andb_true_r in Hp. apply Z.ltb_lt in Hp.
    cbn [chain w_lo w_hi map w_probes length]. repeat split; try lia. constructor; [reflexivity|constructor].
  - destruct ps as [|p pt]; [discriminate|]. cbn [length] in Hl. injection Hl as Hl.
    change (rows3 (a :: m :: mt) ((m :: mt) ++ [b]) (p :: pt) lg)
      with (mkRaw a m p lg :: rows3 (m :: mt) (mt ++ [b]) pt lg) in *.
    cbn [forallb w_lo w_hi] in Hp. apply Bool.andb_true_iff in Hp. destruct Hp as (Hp1 & Hp2). apply Z.ltb_lt in Hp1.
    destruct (IH m b pt Hl Hp2) as (Hc & Hlg & Hpr & Hlen).
    cbn [chain w_lo w_hi map w_probes length].
    split; [split; [reflexivity|split; [exact Hp1|exact Hc]]|].
    split; [constructor; [reflexivity|exact Hlg]|].
    split; [rewrite Hpr; reflexivity|rewrite Hlen; reflexivity].
Qed.

Theorem resplit_spec w vs states part :
  resplit w vs states = Some part -> w_lo w < w_hi w ->
  resplit_of w (map run_count (runs_of vs states)) part.
Proof.
  unfold resplit. intros H Hw.
  assert (Hself : resplit_of w (map run_count (runs_of vs states)) [w]).
  { unfold resplit_of. cbn [chain]. repeat split; try lia; [constructor; [reflexivity|constructor]|left; reflexivity]. }
  destruct (vseg_min_variants <? Z.of_nat (length vs)); [|injection H as <-; exact Hself].
  remember (runs_of vs states) as rs eqn:Ers.
  destruct rs as [|r1 [|r2 rt]]; try (injection H as <-; exact Hself).
  remember (r1 :: r2 :: rt) as rs eqn:Ers2.
  destruct (forallb (fun r => w_lo r <? w_hi r)
              (rows3 (w_lo w :: mid_breaks rs) (mid_breaks rs ++ [w_hi w]) (map run_count rs) (w_log2 w))) eqn:Ep; [|discriminate].
  injection H as <-.
  assert (Hne : rs <> []) by (subst rs; discriminate).
  pose proof (mid_breaks_length rs Hne) as Hml.
  destruct (rows3_chain (w_log2 w) (mid_breaks rs) (w_lo w) (w_hi w) (map run_count rs)) as (Hc & Hlg & Hpr & Hlen).
  - rewrite map_length. lia.
  - exact Ep.
  - unfold resplit_of. split; [exact Hc|]. split; [exact Hlg|]. right. split; [|exact Hpr].
    change (2 <= length (rows3 (w_lo w :: mid_breaks rs) (mid_breaks rs ++ [w_hi w]) (map run_count rs) (w_log2 w)))%nat.
    assert (Hr : (2 <= length rs)%nat) by (subst rs; cbn [length]; lia). lia.
Qed.

(* the rows of an arm: every method row replaced, in order, by its own re-split *)
Fixpoint resplit_parts (ws : list raw) (vars : list vrow) (states : list (list Z)) (parts : list (list raw)) : Prop :=
  match ws, parts with
  | [], [] => True
  | w :: wt, p :: pt =>
      resplit_of w (map run_count (runs_of (filter (v_overlaps (w_lo w) (w_hi w)) vars) (hd [] states))) p /\
      resplit_parts wt vars (tl states) pt
  | _, _ => False
  end.

Theorem resplit_all_spec vars : forall ws states rows,
  resplit_all ws vars states = Some rows -> Forall (fun w => w_lo w < w_hi w) ws ->
  exists parts, concat parts = rows /\ resplit_parts ws vars states parts.
Proof.
  induction ws as [|w wt IH]; intros states rows H Hpos.
  - cbn in H. injection H as <-. exists []. split; [reflexivity|exact I].
  - cbn [resplit_all] in H. inversion Hpos as [|? ? Hw Ht]; subst.
    destruct (resplit w (filter (v_overlaps (w_lo w) (w_hi w)) vars) (hd [] states)) as [a|] eqn:Ea; [|discriminate].
    destruct (resplit_all wt vars (tl states)) as [b|] eqn:Eb; [|discriminate].
    injection H as <-. destruct (IH _ _ Eb Ht) as (parts & Hc & Hp).
    exists (a :: parts). split; [cbn [concat]; rewrite Hc; reflexivity|].
    cbn [resplit_parts]. split; [exact (resplit_spec _ _ _ _ Ea Hw)|exact Hp].
Qed.

(* chains in sequence: if the method rows tile, so do the re-split rows *)
Lemma chain_app lo a mid b hi : chain lo a mid -> chain mid b hi -> chain lo (a ++ b) hi.
Proof.
  revert lo; induction a as [|r t IH]; intros lo Ha Hb; cbn [chain app] in *.
  - subst. exact Hb.
  - destruct Ha as (H1 & H2 & H3). repeat split; try assumption. exact (IH _ H3 Hb).
Qed.

(* ---- the arm's report ------------------------------------------------------------------------ *)

Section Arm.
Context {B : Type} (baf : Z -> Z -> B).

(* the rows that result, their coordinates (stretched at the two ends of the arm), the columns
   they carry, the fields aggregated over exactly the input bins each overlaps, and the baf
   column: row i gets BAF(range of row i), the range being the one before the stretch *)
Theorem arm_full_spec c am fl variants out :
  bins_wf (map fst fl) -> 0 <= span_lo (map fst fl) ->
  arm_full baf c am fl variants = Some out ->
  exists rows, arm_rows am fl variants = Some rows /\
    length out = length rows /\
    map snd out = map (fun w => baf (w_lo w) (w_hi w)) rows /\
    map fst out = map (fill_spanned (map fst fl)) (stretched (map fst fl) rows) /\
    Forall2 carries (stretched (map fst fl) rows) (map fst out) /\
    Forall (fields_ok (map fst fl)) (map fst out).
Proof.
  intros H He. unfold arm_full. destruct (arm_rows am fl variants) as [rows|] eqn:Er; [|discriminate].
  intros Ho. injection Ho as <-. exists rows. split; [reflexivity|].
  rewrite (transfer_spec c (map fst fl) rows H He).
  destruct (map fst fl) as [|b t] eqn:Eb.
  - (* no input bin: no survivor, no row *)
    assert (Hr : rows = []).
    { unfold arm_rows in Er. destruct fl as [|f ft]; [|discriminate]. cbn in Er. injection Er as <-. reflexivity. }
    subst rows. cbn. repeat split; constructor.
  - assert (Hlen : length (map (fill_spanned (b :: t)) (stretched (b :: t) rows)) = length (map (fun w => baf (w_lo w) (w_hi w)) rows)).
    { rewrite !map_length. apply stretched_length. discriminate. }
    split; [rewrite combine_length, Hlen, Nat.min_id, map_length; reflexivity|].
    split; [apply map_snd_combine'; exact Hlen|].
    split; [apply map_fst_combine'; exact Hlen|].
    rewrite (map_fst_combine' _ _ Hlen). split.
    + clear Hlen. induction (stretched (b :: t) rows) as [|w wt IH]; cbn [map];
        [constructor|constructor; [apply fill_spanned_carries|exact IH]].
    + apply Forall_map. apply Forall_forall. intros w _. apply fill_spanned_fields.
Qed.

End Arm.
