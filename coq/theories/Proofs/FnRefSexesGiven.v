(* C05 loop tie of do_reference's given-sex branch (cnvlib/reference.py), ONE ITERATION translated on every run
   (Gen/FnRefSexesGiven.v):

       sexes = dict()
       for fname in target_fnames: sexes[read_cna(fname).sample_id] = female_samples

   Model/Reference.v's sexes_given IS the dictionary this loop builds: folding the generated step over the target
   files' sample ids gives, for every id, the lookup of sexes_given. *)
From CNV Require Import Base.Prelude Base.Str Base.QNum Model.Center Model.Sex Model.Reference
  Proofs.FnRefSexesLib Gen.FnRefSexesGiven.

Definition given_iter (female : bool) (f : lookup) (sid : string) : lookup :=
  upd f sid (fn_given_step sid female (f sid)).
Definition given_loop (female : bool) (f : lookup) (ids : list string) : lookup := fold_left (given_iter female) ids f.

Lemma given_loop_gen female targets : forall f k,
  given_loop female f (map s_id targets) k =
  match dict_get (sexes_given female targets) k with Some r => Some r | None => f k end.
Proof.
  induction targets as [|s targets IH]; intros f k; cbn [given_loop fold_left map sexes_given].
  - reflexivity.
  - fold (given_loop female (given_iter female f (s_id s)) (map s_id targets)). rewrite IH.
    unfold sexes_given. rewrite dict_get_cons. fold (sexes_given female targets).
    destruct (dict_get (sexes_given female targets) k); [reflexivity|].
    unfold given_iter, upd, fn_given_step. destruct (String.eqb k (s_id s)); reflexivity.
Qed.

Theorem fn_given_loop_eq female targets k :
  given_loop female (fun _ => None) (map s_id targets) k = dict_get (sexes_given female targets) k.
Proof. rewrite given_loop_gen. destruct (dict_get _ k); reflexivity. Qed.
