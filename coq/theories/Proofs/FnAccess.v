(* C13 source tie of join_regions: ONE ITERATION of

       for start, end in coords:
           gap = start - prev_end
           assert gap > 0, ...
           if gap < min_gap_size:
               prev_end = end
           else:
               yield (chrom, prev_start, prev_end)
               prev_start, prev_end = start, end
       yield (chrom, prev_start, prev_end)

   is regenerated from the Python source on every run as Gen/FnAccess.v (fn_join_step : the carried
   pair after the iteration and the regions the iteration yields; the assertion is a recorded guard).
   Here: running the generator -- the step folded over the remaining rows of a chromosome, the yields
   concatenated, the carried pair yielded at the end -- IS Model/Access.v join_from, on every row list
   on which the assertion never fails (join_from answers None exactly when it does). *)
From CNV Require Import Base.Prelude Base.Str Gen.FnAccess Model.Access.

Local Open Scope Z_scope.

Section Join.
Variable chrom : string.
Variable g : Z.

(* Python's generator over a step function (carried pair, yields of the iteration) *)
Fixpoint gen_loop (step : Z -> Z -> Z -> Z -> Z * Z * list (string * Z * Z))
         (ps pe : Z) (rest : list (Z * Z)) : list (string * Z * Z) :=
  match rest with
  | [] => [(chrom, ps, pe)]
  | (s, e) :: t => let '(ps', pe', ys) := step ps pe s e in ys ++ gen_loop step ps' pe' t
  end.

Definition tag (r : list (Z * Z)) : list (string * Z * Z) := map (fun p => (chrom, fst p, snd p)) r.

Lemma source_join_step ps pe s e :
  fn_join_step chrom g ps pe s e
  = if (s - pe) <? g then (ps, e, []) else (s, e, [(chrom, ps, pe)]).
Proof. unfold fn_join_step. destruct (s - pe <? g); reflexivity. Qed.

Lemma source_join_from rest : forall ps pe r,
  join_from g ps pe rest = Some r ->
  gen_loop (fn_join_step chrom g) ps pe rest = tag r.
Proof.
  induction rest as [|[s e] t IH]; intros ps pe r H; cbn [join_from gen_loop] in *.
  - inversion H; reflexivity.
  - rewrite source_join_step.
    destruct (s - pe <=? 0); [discriminate|].
    destruct (s - pe <? g).
    + cbn [app]. apply IH; exact H.
    + destruct (join_from g s e t) as [r'|] eqn:E; [|discriminate].
      inversion H; subst. cbn [app tag map fst snd]. f_equal. apply IH; exact E.
Qed.

(* the assertion guard is exactly join_from's None: when every gap is positive the model answers *)
Lemma join_from_some rest : forall ps pe,
  (forall i, (i < length rest)%nat ->
     let prev_end := match i with O => pe | S j => snd (nth j rest (0, 0)) end in
     fst (nth i rest (0, 0)) - prev_end > 0) ->
  exists r, join_from g ps pe rest = Some r.
Proof.
  induction rest as [|[s e] t IH]; intros ps pe H; cbn [join_from].
  - eexists; reflexivity.
  - assert (H0 := H O ltac:(cbn; lia)). cbn in H0.
    destruct (Z.leb_spec (s - pe) 0); [lia|].
    assert (Ht : forall ps', exists r, join_from g ps' e t = Some r).
    { intro ps'. apply IH. intros i Hi.
      specialize (H (S i) ltac:(cbn; lia)). cbn [nth] in H. destruct i; exact H. }
    destruct (s - pe <? g).
    + apply Ht.
    + destruct (Ht s) as [r Hr]. rewrite Hr. eexists; reflexivity.
Qed.

End Join.

(* whole generator body for one chromosome with rows (first row consumed by next(coords)) *)
Definition source_join (chrom : string) (g : Z) (rows : list (Z * Z)) : list (string * Z * Z) :=
  match rows with
  | [] => []
  | (s, e) :: t => gen_loop chrom (fn_join_step chrom g) s e t
  end.

Theorem source_join_regions chrom g rows r :
  join_regions g rows = Some r -> source_join chrom g rows = tag chrom r.
Proof.
  destruct rows as [|[s e] t]; cbn [join_regions source_join].
  - intro H; inversion H; reflexivity.
  - apply source_join_from.
Qed.

Example source_join_ex :
  source_join "chr1" 10 [(0, 5); (8, 20); (40, 50); (55, 60)]
  = [("chr1"%string, 0, 20); ("chr1"%string, 40, 60)].
Proof. reflexivity. Qed.
