(* Proofs for C02, second part: the default thresholds (monotonicity for ploidy 2..6, the
   ploidy-1 refutation, cn = 2 at log2 0), the allelic split, the BAF rescale. *)
From Coq Require Import Qround Qabs.
From CNV Require Import Base.Prelude Base.Str Gen.CallDefaults Model.Call Model.Threshold Model.Baf
  Spec.CallThreshold Proofs.CallNum Proofs.Call Proofs.CallThreshold.
From Coq Require Import Lqa.   (* after Prelude: `lra` over Q *)

Local Open Scope Z_scope.

(* ---------------------------------------------------------------- the default thresholds *)

Lemma lit_increasing : strictly_increasing lit_thresholds.
Proof. cbn. repeat split; reflexivity. Qed.

Lemma defaults_increasing : strictly_increasing default_thresholds.
Proof. cbn. repeat split; reflexivity. Qed.

(* the generated defaults are the doubles nearest to the documented -1.1, -0.25, 0.2, 0.7 *)
Lemma defaults_literal :
  Forall2 (fun g l => (Qabs (g - l) <= 1 # 1000000000000000)%Q) default_thresholds lit_thresholds.
Proof.
  unfold default_thresholds, call_thresholds, lit_thresholds.
  repeat constructor; vm_compute; discriminate.
Qed.

Lemma above_lit v : above_all v lit_thresholds -> (7 # 10 < v)%Q.
Proof. intro H. apply H. unfold lit_thresholds. cbn [In]. auto. Qed.

Lemma above_defaults v : above_all v default_thresholds -> (3 # 5 <= v)%Q.
Proof.
  intro H.
  assert (L : In (last default_thresholds 0%Q) default_thresholds) by (cbn; auto).
  apply H in L. apply Qlt_le_weak. eapply Qle_lt_trans; [|exact L]. vm_compute. discriminate.
Qed.

Lemma monotone_literal (exp2 : Q -> Q) k r :
  exp2_monotone exp2 -> (3 # 2 < exp2 (7 # 10))%Q ->
  2 <= k <= 6 -> r = k \/ r = k / 2 ->
  forall v v', (v <= v')%Q ->
    thr_cn (Some v) (exp2 v) lit_thresholds k r <= thr_cn (Some v') (exp2 v') lit_thresholds k r.
Proof.
  intros Hm H32. apply thr_monotone_gen; [exact Hm | cbn; lia |].
  intros v Hv. eapply Qlt_le_trans; [exact H32|]. apply Hm. apply Qlt_le_weak. apply above_lit. exact Hv.
Qed.

Lemma monotone_defaults (exp2 : Q -> Q) k r :
  exp2_monotone exp2 -> (3 # 2 < exp2 (3 # 5))%Q ->
  2 <= k <= 6 -> r = k \/ r = k / 2 ->
  forall v v', (v <= v')%Q ->
    thr_cn (Some v) (exp2 v) default_thresholds k r <= thr_cn (Some v') (exp2 v') default_thresholds k r.
Proof.
  intros Hm H32. apply thr_monotone_gen; [exact Hm | cbn; lia |].
  intros v Hv. eapply Qlt_le_trans; [exact H32|]. apply Hm. apply above_defaults. exact Hv.
Qed.

Lemma ref_pure_cases chrom k hapx : ref_pure chrom k hapx = k \/ ref_pure chrom k hapx = k / 2.
Proof. unfold ref_pure, half. change half_div with 2. destruct (_ || _); auto. Qed.

(* on any chromosome, under either reference sex *)
Lemma monotone_rows (exp2 : Q -> Q) k hapx chrom :
  exp2_monotone exp2 -> (3 # 2 < exp2 (3 # 5))%Q -> 2 <= k <= 6 ->
  forall v v', (v <= v')%Q ->
    thr_row_cn k hapx default_thresholds (chrom, Some v, exp2 v)
    <= thr_row_cn k hapx default_thresholds (chrom, Some v', exp2 v').
Proof.
  intros Hm H32 Hk v v' Hv. unfold thr_row_cn.
  apply monotone_defaults; try assumption. apply ref_pure_cases.
Qed.

Lemma diploid_zero e :
  thr_cn (Some 0%Q) e lit_thresholds 2 2 = 2 /\ thr_cn (Some 0%Q) e default_thresholds 2 2 = 2.
Proof. split; reflexivity. Qed.

(* ---------------------------------------------------------------- ploidy 1: not monotone *)

(* witness: log2 0.7 -> cn 3 (three thresholds strictly below), log2 0.71 -> ceil(1 * 2^0.71) = 2;
   13/8 and 33/20 are rational stand-ins for 2^0.7 = 1.6245.. and 2^0.71 = 1.6358.. *)
Lemma monotone_ploidy1_refuted :
  exists v v' e e' : Q,
    (v <= v')%Q /\ (0 < e)%Q /\ (e <= e')%Q /\
    thr_cn (Some v') e' lit_thresholds 1 1 < thr_cn (Some v) e lit_thresholds 1 1.
Proof.
  exists (7 # 10)%Q, (71 # 100)%Q, (13 # 8)%Q, (33 # 20)%Q. vm_compute.
  repeat split; try reflexivity; discriminate.
Qed.

(* the same with the thresholds the code holds (its last one is the double nearest 0.7) *)
Lemma monotone_ploidy1_refuted_defaults :
  exists v v' e e' : Q,
    (v <= v')%Q /\ (0 < e)%Q /\ (e <= e')%Q /\
    thr_cn (Some v') e' default_thresholds 1 1 < thr_cn (Some v) e default_thresholds 1 1.
Proof.
  exists (last default_thresholds 0%Q), (71 # 100)%Q, (13 # 8)%Q, (33 # 20)%Q. vm_compute.
  repeat split; try reflexivity; discriminate.
Qed.

(* and this does not depend on the stand-ins: every oracle meeting the contract shows it *)
Lemma monotone_ploidy1_refuted_any (exp2 : Q -> Q) :
  exp2_monotone exp2 -> (exp2 0 == 1)%Q -> (forall v, exp2 (v + 1) == 2 * exp2 v)%Q ->
  (3 # 2 < exp2 (7 # 10))%Q ->
  thr_cn (Some (71 # 100)%Q) (exp2 (71 # 100)%Q) lit_thresholds 1 1
  < thr_cn (Some (7 # 10)%Q) (exp2 (7 # 10)%Q) lit_thresholds 1 1.
Proof.
  intros Hm H0 H1 H32.
  assert (A : thr_cn (Some (7 # 10)%Q) (exp2 (7 # 10)%Q) lit_thresholds 1 1 = 3) by reflexivity.
  rewrite A.
  assert (B : thr_cn (Some (71 # 100)%Q) (exp2 (71 # 100)%Q) lit_thresholds 1 1
              = Qceiling (inject_Z 1 * exp2 (71 # 100)%Q)) by reflexivity.
  rewrite B.
  assert (Lo : (3 # 2 < exp2 (71 # 100))%Q).
  { eapply Qlt_le_trans; [exact H32|]. apply Hm. unfold Qle; cbn; lia. }
  assert (Hi : (exp2 (71 # 100) <= 2)%Q).
  { assert (E1 : (exp2 1 == 2)%Q).
    { assert (C : (exp2 1 <= exp2 (0 + 1))%Q) by (apply Hm; unfold Qle; cbn; lia).
      assert (D : (exp2 (0 + 1) <= exp2 1)%Q) by (apply Hm; unfold Qle; cbn; lia).
      specialize (H1 0%Q). apply Qle_antisym; lra. }
    rewrite <- E1. apply Hm. unfold Qle; cbn; lia. }
  rewrite (Qceiling_unique (inject_Z 1 * exp2 (71 # 100)%Q) 2); [lia | |];
    unfold inject_Z; lra.
Qed.

(* ---------------------------------------------------------------- alleles *)

Lemma alleles_sum a b cn c1 c2 : 0 <= cn -> alleles a b cn = (Some c1, Some c2) ->
  c1 + c2 = cn /\ 0 <= c1 <= cn /\ 0 <= c2 <= cn.
Proof.
  intros Hcn. unfold alleles. destruct (is_missing b && (null_cn_above <? cn)); [discriminate|].
  intro H. injection H as <- <-. unfold cn1_of. change cn1_clip_low with 0. lia.
Qed.

Lemma alleles_missing a b cn :
  (alleles a b cn = (None, None) <-> b = None /\ 0 < cn) /\
  (alleles a b cn = (None, None) \/ exists c1 c2, alleles a b cn = (Some c1, Some c2)).
Proof.
  unfold alleles. change null_cn_above with 0.
  destruct b as [b|]; cbn [is_missing andb].
  - split; [split; [discriminate | intros [H _]; discriminate] | right; eauto].
  - destruct (0 <? cn) eqn:E.
    + split; [split; [intros _; split; [reflexivity | lia] | reflexivity] | left; reflexivity].
    + split; [split; [discriminate | intros [_ H]; lia] | right; eauto].
Qed.

(* the rescaled BAF undoes the normal-cell admixture: t*p + (1/2)*(1-p) = observed *)
Lemma rescale_baf_spec p b t : ~ (p == 0)%Q -> rescale_baf p (Some b) = Some t ->
  (t * p + (1 # 2) * (1 - p) == b)%Q.
Proof.
  intros Hp H. unfold rescale_baf in H.
  assert (E : t = Qred ((b - normal_baf * (1 - p)) / p)) by congruence.
  rewrite E. clear E H. rewrite Qred_correct.
  change normal_baf with (1 # 2)%Q. field. exact Hp.
Qed.
