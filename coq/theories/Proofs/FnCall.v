(* Source tie for cnvlib/call.py's scalar functions: the definitions that
   tools/py2v_fn.py regenerates from the Python source on every run (Gen/FnCall.v)
   are equal to the hand-written model functions the C01/C02/C18 theorems speak
   about.  A change to the body of one of these Python functions changes the
   generated definition, and these lemmas are re-checked against it.
   This file: the functions of the copy-number path (C01, and _reference_copies_pure for
   C02); the BAF functions (rescale_baf, the allelic split of do_call) are in
   Proofs/FnCallBaf.v, so that a change to them does not touch C01's obligations. *)
From CNV Require Import Base.Prelude Base.Str Gen.Params Gen.CallDefaults Gen.FnCall Model.Call.

From Coq Require Import Lqa.   (* after Prelude: `lra` over Q *)
Local Open Scope Z_scope.

Lemma fn_abs_pure_eq (exp2 : Q -> Q) (v : Q) (r : Z) :
  (fn_log2_ratio_to_absolute_pure exp2 v r == abs_pure (exp2 v) r)%Q.
Proof. unfold fn_log2_ratio_to_absolute_pure, abs_pure. rewrite Qred_correct. reflexivity. Qed.

(* purity given, non-zero and below 1: the purity-adjusted formula *)
Lemma fn_abs_clonal_eq (exp2 : Q -> Q) (v : Q) (r x : Z) (p : Q) :
  (0 < p)%Q -> (p < 1)%Q ->
  (fn_log2_ratio_to_absolute exp2 v r x (Some p) == abs_clonal (exp2 v) r x p)%Q.
Proof.
  intros Hp0 Hp1. unfold fn_log2_ratio_to_absolute, abs_clonal.
  assert (E0 : Qeq_bool p 0 = false).
  { destruct (Qeq_bool p 0) eqn:E; [|reflexivity]. apply Qeq_bool_eq in E. lra. }
  assert (E1 : Qle_bool (inject_Z 1) p = false).
  { destruct (Qle_bool (inject_Z 1) p) eqn:E; [|reflexivity]. apply Qle_bool_imp_le in E.
    change (inject_Z 1) with 1%Q in E. lra. }
  rewrite E0, E1. cbn [negb andb]. rewrite Qred_correct.
  change (inject_Z 1) with 1%Q. reflexivity.
Qed.

(* no purity, purity 0 or purity >= 1: the pure formula *)
Lemma fn_abs_none_eq (exp2 : Q -> Q) (v : Q) (r x : Z) :
  (fn_log2_ratio_to_absolute exp2 v r x None == abs_pure (exp2 v) r)%Q.
Proof. unfold fn_log2_ratio_to_absolute. apply fn_abs_pure_eq. Qed.

Lemma fn_abs_full_purity_eq (exp2 : Q -> Q) (v : Q) (r x : Z) (p : Q) :
  (1 <= p)%Q ->
  (fn_log2_ratio_to_absolute exp2 v r x (Some p) == abs_pure (exp2 v) r)%Q.
Proof.
  intros Hp. unfold fn_log2_ratio_to_absolute.
  assert (E1 : Qle_bool (inject_Z 1) p = true).
  { apply Qle_bool_iff. exact Hp. }
  rewrite E1. cbn [negb]. rewrite andb_false_r. apply fn_abs_pure_eq.
Qed.

Lemma half_lit : half_div = 2. Proof. reflexivity. Qed.
Lemma pure_y_lit : pure_y_names = ["chry"; "y"]%string. Proof. reflexivity. Qed.
Lemma pure_x_lit : pure_x_names = ["chrx"; "x"]%string. Proof. reflexivity. Qed.

Lemma fn_ref_pure_eq (chrom : string) (k : Z) (hapx : bool) :
  fn_reference_copies_pure chrom k hapx = ref_pure chrom k hapx.
Proof.
  unfold fn_reference_copies_pure, ref_pure, half, lower_str.
  rewrite half_lit, pure_y_lit, pure_x_lit. reflexivity.
Qed.

Lemma fn_abs_pure_all (exp2 : Q -> Q) (v : Q) (r x : Z) :
  (fn_log2_ratio_to_absolute exp2 v r x None == abs_pure (exp2 v) r)%Q /\
  (forall p, (1 <= p)%Q -> (fn_log2_ratio_to_absolute exp2 v r x (Some p) == abs_pure (exp2 v) r)%Q) /\
  (fn_log2_ratio_to_absolute_pure exp2 v r == abs_pure (exp2 v) r)%Q.
Proof.
  split; [apply fn_abs_none_eq|]. split; [intros p Hp; apply fn_abs_full_purity_eq; exact Hp|].
  apply fn_abs_pure_eq.
Qed.

(* ------------------------------------------------------------------------------------
   log2_ratios, read per element (one value of `absolutes`; the two row masks
   cnarr.chr_x_filter(build).values / cnarr.chr_y_filter(build).values as booleans),
   regenerated from the Python source on every run. *)
From Coq Require Import Qround Qabs.
From CNV Require Base.QNum Proofs.CallNum Proofs.Call.
Local Open Scope Z_scope.

(* the masks of a row of class c: chr_x_filter selects non-PAR X, chr_y_filter non-PAR Y *)
Definition on_x_mask (c : cls) : bool := match c with ChrX => true | _ => false end.
Definition on_y_mask (c : cls) : bool := match c with ChrY => true | _ => false end.

Lemma round_half_even_is_round_he q : QNum.round_half_even q = round_he q.
Proof. reflexivity. Qed.

Lemma gen_max_pos (x m : Q) : (0 < m)%Q -> (0 < (if Qle_bool m x then x else m))%Q.
Proof.
  intro Hm. destruct (Qle_bool m x) eqn:E; [|exact Hm].
  apply Qle_bool_iff in E. lra.
Qed.

Lemma gen_max_qmax (x m : Q) : ((if Qle_bool m x then x else m) == qmax x m)%Q.
Proof.
  destruct (CallNum.qmax_cases x m) as [[H ->]|[H ->]]; destruct (Qle_bool m x) eqn:E.
  - apply Qle_bool_iff in E. apply Qle_antisym; assumption.
  - reflexivity.
  - reflexivity.
  - exfalso. assert (L : (m <= x)%Q) by lra. apply Qle_bool_iff in L. congruence.
Qed.

(* log2_ratios with its default arguments (min_abs_val = the generated default, round_to_int
   = False), in ratio space: for every oracle pair with exp2 (log2 y) == y on y > 0 and
   exp2 (v + 1) == 2 * exp2 v, 2^(the Python result) is the model's `rescaled` *)
Lemma fn_log2_ratios_eq (exp2 log2 : Q -> Q) :
  (forall y, (0 < y)%Q -> (exp2 (log2 y) == y)%Q) ->
  (forall v, (exp2 (v + 1) == 2 * exp2 v)%Q) ->
  forall a k hapx c,
    (exp2 (fn_log2_ratios log2 a k hapx min_abs_val false (on_x_mask c) (on_y_mask c))
     == rescaled a k (shifted hapx c))%Q.
Proof.
  intros Hinv Hsucc a k hapx c. unfold fn_log2_ratios. cbv zeta.
  rewrite Call.rescaled_eq.
  set (m := if Qle_bool min_abs_val (Qdiv a (inject_Z k)) then Qdiv a (inject_Z k) else min_abs_val).
  assert (Mp : (0 < m)%Q) by (apply gen_max_pos; exact Call.min_abs_pos).
  assert (Mq : (m == qmax (a / inject_Z k) min_abs_val)%Q) by apply gen_max_qmax.
  assert (E1 : (exp2 (log2 m) == m)%Q) by (apply Hinv; exact Mp).
  assert (E2 : (exp2 (Qplus (log2 m) (inject_Z 1)) == 2 * m)%Q).
  { change (inject_Z 1) with 1%Q. rewrite Hsucc, E1. reflexivity. }
  destruct c, hapx; cbn [on_x_mask on_y_mask shifted]; rewrite ?E2, ?E1, <- Mq; ring.
Qed.
