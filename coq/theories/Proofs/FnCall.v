(* Source tie for cnvlib/call.py's scalar functions: the definitions that
   tools/py2v_fn.py regenerates from the Python source on every run (Gen/FnCall.v)
   are equal to the hand-written model functions the C01/C02/C18 theorems speak
   about.  A change to the body of one of these Python functions changes the
   generated definition, and these lemmas are re-checked against it. *)
From CNV Require Import Base.Prelude Base.Str Gen.Params Gen.CallDefaults Gen.FnCall Model.Call Model.Baf.

From Coq Require Import Lqa.   (* after Prelude: `lra` over Q *)
Local Open Scope Z_scope.

Lemma fn_abs_pure_eq (exp2 : Q -> Q) (v : Q) (r : Z) :
  (fn_log2_ratio_to_absolute_pure exp2 v r == abs_pure (exp2 v) r)%Q.
Proof. unfold fn_log2_ratio_to_absolute_pure, abs_pure. rewrite Qred_correct. reflexivity. Qed.

(* purity given, non-zero and below 1: the purity-adjusted formula *)
Lemma fn_abs_clonal_eq (exp2 : Q -> Q) (v : Q) (r x : Z) (p : Q) :
  (0 < p)%Q -> (p < 1)%Q ->
  (fn_log2_ratio_to_absolute exp2 v r x (Some p) == abs_clonal (exp2 v) r x p)%Q.
Proof.
  intros Hp0 Hp1. unfold fn_log2_ratio_to_absolute, abs_clonal.
  assert (E0 : Qeq_bool p 0 = false).
  { destruct (Qeq_bool p 0) eqn:E; [|reflexivity]. apply Qeq_bool_eq in E. lra. }
  assert (E1 : Qle_bool (inject_Z 1) p = false).
  { destruct (Qle_bool (inject_Z 1) p) eqn:E; [|reflexivity]. apply Qle_bool_imp_le in E.
    change (inject_Z 1) with 1%Q in E. lra. }
  rewrite E0, E1. cbn [negb andb]. rewrite Qred_correct.
  change (inject_Z 1) with 1%Q. reflexivity.
Qed.

(* no purity, purity 0 or purity >= 1: the pure formula *)
Lemma fn_abs_none_eq (exp2 : Q -> Q) (v : Q) (r x : Z) :
  (fn_log2_ratio_to_absolute exp2 v r x None == abs_pure (exp2 v) r)%Q.
Proof. unfold fn_log2_ratio_to_absolute. apply fn_abs_pure_eq. Qed.

Lemma fn_abs_full_purity_eq (exp2 : Q -> Q) (v : Q) (r x : Z) (p : Q) :
  (1 <= p)%Q ->
  (fn_log2_ratio_to_absolute exp2 v r x (Some p) == abs_pure (exp2 v) r)%Q.
Proof.
  intros Hp. unfold fn_log2_ratio_to_absolute.
  assert (E1 : Qle_bool (inject_Z 1) p = true).
  { apply Qle_bool_iff. exact Hp. }
  rewrite E1. cbn [negb]. rewrite andb_false_r. apply fn_abs_pure_eq.
Qed.

Lemma half_lit : half_div = 2. Proof. reflexivity. Qed.
Lemma pure_y_lit : pure_y_names = ["chry"; "y"]%string. Proof. reflexivity. Qed.
Lemma pure_x_lit : pure_x_names = ["chrx"; "x"]%string. Proof. reflexivity. Qed.

Lemma fn_ref_pure_eq (chrom : string) (k : Z) (hapx : bool) :
  fn_reference_copies_pure chrom k hapx = ref_pure chrom k hapx.
Proof.
  unfold fn_reference_copies_pure, ref_pure, half, lower_str.
  rewrite half_lit, pure_y_lit, pure_x_lit. reflexivity.
Qed.

Lemma normal_baf_lit : normal_baf = (1 # 2)%Q. Proof. reflexivity. Qed.

(* rescale_baf with its default normal_baf *)
Lemma fn_rescale_baf_eq (p b : Q) :
  match rescale_baf p (Some b) with
  | Some t => (fn_rescale_baf p b normal_baf == t)%Q
  | None => False
  end.
Proof.
  unfold rescale_baf, fn_rescale_baf. rewrite Qred_correct.
  change (inject_Z 1) with 1%Q. reflexivity.
Qed.

Lemma fn_abs_pure_all (exp2 : Q -> Q) (v : Q) (r x : Z) :
  (fn_log2_ratio_to_absolute exp2 v r x None == abs_pure (exp2 v) r)%Q /\
  (forall p, (1 <= p)%Q -> (fn_log2_ratio_to_absolute exp2 v r x (Some p) == abs_pure (exp2 v) r)%Q) /\
  (fn_log2_ratio_to_absolute_pure exp2 v r == abs_pure (exp2 v) r)%Q.
Proof.
  split; [apply fn_abs_none_eq|]. split; [intros p Hp; apply fn_abs_full_purity_eq; exact Hp|].
  apply fn_abs_pure_eq.
Qed.
