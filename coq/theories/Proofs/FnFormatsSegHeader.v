(* C08 source tie of seg.parse_seg's header scan: ONE ITERATION of

       for line in handle:
           n_tabs = line.count("\t")
           if n_tabs == 0:
               continue
           if n_tabs == 5:
               col_names = ["sample_id", "chromosome", "start", "end", "probes", "log2"]
           elif n_tabs == 4:
               col_names = ["sample_id", "chromosome", "start", "end", "log2"]
           else:
               raise ValueError(...)
           break
       else:
           raise ValueError("SEG file contains no data")

   is regenerated from the Python source on every run as Gen/FnFormatsSegHeader.v (fn_seg_header_step: the column names
   after the iteration and whether the loop was left by `break`; the raise is a recorded guard).  Here: the step iterated
   over the lines (a line of k fields has k - 1 tabs), with the two raises as None, IS the model's seg_find_header
   (Model/Formats.v): the same lines are skipped, the same line is taken as the header, the number of columns it fixes is
   the number of generated column names, and the same inputs are rejected. *)
From CNV Require Import Base.Prelude Base.Str Gen.FnFormatsSegHeader Model.Formats.

Definition tabs_of (f : line) : Z := Z.of_nat (length f) - 1.

Fixpoint gen_find_header (cols : list string) (ls : list line) : option (nat * list line) :=
  match ls with
  | [] => None                                   (* for ... else: raise ValueError("SEG file contains no data") *)
  | f :: t =>
      let tabs := tabs_of f in
      if negb ((tabs =? 0) || (tabs =? 5) || (tabs =? 4)) then None      (* the recorded guard: raise ValueError *)
      else let '(cols', brk) := fn_seg_header_step cols tabs in
           if brk then Some (length cols', t) else gen_find_header cols' t
  end.

Lemma source_seg_header (cols : list string) (ls : list line) :
  gen_find_header cols ls = seg_find_header ls.
Proof.
  revert cols. induction ls as [|f t IH]; intro cols; [reflexivity|].
  cbn [gen_find_header seg_find_header]. unfold tabs_of.
  destruct (length f) as [|[|[|[|[|[|[|n]]]]]]] eqn:L; try reflexivity.
  - (* one field: no tab, the line is skipped *)
    cbn. apply IH.
  - (* seven or more fields *)
    assert (E0 : (Z.of_nat (S (S (S (S (S (S (S n))))))) - 1 =? 0) = false) by (apply Z.eqb_neq; lia).
    assert (E5 : (Z.of_nat (S (S (S (S (S (S (S n))))))) - 1 =? 5) = false) by (apply Z.eqb_neq; lia).
    assert (E4 : (Z.of_nat (S (S (S (S (S (S (S n))))))) - 1 =? 4) = false) by (apply Z.eqb_neq; lia).
    rewrite E0, E5, E4. reflexivity.
Qed.

(* the step itself: a line without a tab is skipped, 5 / 4 tabs fix six / five columns and leave the loop *)
Lemma source_seg_header_step (cols : list string) :
  fn_seg_header_step cols 0 = (cols, false) /\
  fn_seg_header_step cols 5 = (["sample_id"; "chromosome"; "start"; "end"; "probes"; "log2"]%string, true) /\
  fn_seg_header_step cols 4 = (["sample_id"; "chromosome"; "start"; "end"; "log2"]%string, true).
Proof. repeat split. Qed.
