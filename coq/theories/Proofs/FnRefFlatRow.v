(* C05 function-body tie of do_reference_flat's column code (cnvlib/reference.py), translated on every run
   (Gen/FnRefFlatRow.v), per row of the combined table:

       ref_probes["log2"] = ref_probes.expect_flat_log2(is_haploid_x_reference, diploid_parx_genome)
       ref_probes["depth"] = np.exp2(ref_probes["log2"])
       if fa_fname: gc, rmask = get_fasta_stats(ref_probes, fa_fname); ref_probes["gc"] = gc; ref_probes["rmask"] = rmask

   Model/Reference.v's flat_reference IS this code on every row of flat_table: log2 is the flat level of the bin
   (flat_at = the translated expect_flat_log2, Proofs/FnReference.v fn_flat_at_eq), depth is np.exp2 of THAT value,
   whatever the FASTA columns are. *)
From CNV Require Import Base.Prelude Base.Str Base.QNum Gen.RefDefaults Model.Center Model.Sex Model.Reference Gen.FnRefFlatRow.
Local Open Scope Q_scope.

Definition flat_row_log2 (r : Q * Q * option Q * option Q) : Q := fst (fst (fst r)).
Definition flat_row_depth (r : Q * Q * option Q * option Q) : Q := snd (fst (fst r)).

Theorem fn_flat_row_eq exp2 hap build targets antis fa (gs rs : bin -> Q) :
  let t := flat_table targets antis in
  flat_reference exp2 hap build targets antis =
  map (fun b => let row := fn_flat_row exp2 (flat_at hap build t b) fa (gs b) (rs b) in
                mkRef (b_chrom b) (b_start b) (b_end b) (b_gene b) (flat_row_log2 row) (flat_row_depth row) 0) t.
Proof.
  cbv zeta. unfold flat_reference. apply map_ext. intros b.
  unfold fn_flat_row, flat_row_log2, flat_row_depth. destruct (negb (String.eqb fa "")); reflexivity.
Qed.

(* the FASTA columns: present exactly when a FASTA name is given, and then the two statistics of the row *)
Theorem fn_flat_row_fasta exp2 v fa g r :
  snd (fst (fn_flat_row exp2 v fa g r)) = (if String.eqb fa "" then None else Some g) /\
  snd (fn_flat_row exp2 v fa g r) = (if String.eqb fa "" then None else Some r).
Proof. unfold fn_flat_row. destruct (String.eqb fa ""); split; reflexivity. Qed.
