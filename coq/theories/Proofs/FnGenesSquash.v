(* C16 loop tie of CopyNumArray.squash_genes: ONE ITERATION of

       for name, subarr in self.by_gene(ignore):
           if not len(subarr):
               continue
           if name in params.ANTITARGET_ALIASES and not squash_antitarget:
               outrows.extend(subarr.data.itertuples(index=False))
           else:
               outrows.append(squash_rows(name, subarr.data))

   is regenerated from the Python source on every run as Gen/FnGenesSquash.v (fn_squash_step: the rows
   -- opaque ids -- the iteration adds to outrows; the group's own rows and the row squash_rows builds
   are opaque inputs).  Here: with the group's own rows numbered 1..n and squash_rows' row numbered 0,
   the rows the step selects ARE Model/Genes.v squash_group, and the loop over by_gene's groups IS
   squash_genes (coordinates, name and probes; the value columns are C16_squash_rows'). *)
From CNV Require Import Base.Prelude Base.Str Gen.Params Gen.FnGenesSquash Model.Genes.

Local Open Scope Z_scope.

(* what squash_rows(name, rows) returns, as the model has it: the single row itself, or the merged row *)
Definition squash_one (name : string) (b0 : bin) (rest : list bin) : srow :=
  match rest with
  | [] => srow_of_bin b0
  | _ :: _ => mkSrow (b_chr b0) (b_start b0) (b_end (last (b0 :: rest) b0)) name
                     (sumZ (map b_probes (b0 :: rest)))
  end.

Definition row_of_id (gr : group) (i : Z) : list srow :=
  if i =? 0 then match snd gr with b0 :: rest => [squash_one (fst gr) b0 rest] | [] => [] end
  else match nth_error (snd gr) (Z.to_nat (i - 1)) with Some b => [srow_of_bin b] | None => [] end.

Definition py_squash_iter (squash_antitarget : bool) (gr : group) : list srow :=
  let n := length (snd gr) in
  flat_map (row_of_id gr)
           (fn_squash_step (Z.of_nat n) (mem_string (fst gr) ANTITARGET_ALIASES) squash_antitarget
                           (map Z.of_nat (seq 1 n)) 0).

Lemma own_rows_all g (l : list bin) : forall (pre : list bin),
  flat_map (row_of_id (g, pre ++ l)) (map Z.of_nat (seq (S (length pre)) (length l))) = map srow_of_bin l.
Proof.
  induction l as [|x t IH]; intro pre; [reflexivity|].
  cbn [length seq map flat_map]. unfold row_of_id at 1. cbn [snd].
  destruct (Z.eqb_spec (Z.of_nat (S (length pre))) 0) as [E|_]; [lia|].
  replace (Z.to_nat (Z.of_nat (S (length pre)) - 1)) with (length pre) by lia.
  rewrite nth_error_app2 by lia. rewrite Nat.sub_diag. cbn [nth_error app]. f_equal.
  specialize (IH (pre ++ [x])). rewrite <- app_assoc in IH. cbn [app] in IH.
  rewrite app_length in IH. cbn [length] in IH. rewrite Nat.add_1_r in IH. exact IH.
Qed.

Lemma source_squash_step squash_antitarget gr :
  squash_group squash_antitarget gr = py_squash_iter squash_antitarget gr.
Proof.
  destruct gr as [g rows]. unfold squash_group, py_squash_iter, fn_squash_step. cbn [fst snd].
  destruct rows as [|b0 rest]; [reflexivity|].
  destruct (Z.eqb_spec (Z.of_nat (length (b0 :: rest))) 0) as [E|_]; [cbn [length] in E; lia|].
  cbn [negb]. destruct (mem_string g ANTITARGET_ALIASES && negb squash_antitarget).
  - cbn [app]. symmetry. exact (own_rows_all g (b0 :: rest) []).
  - cbn [app flat_map]. unfold row_of_id. cbn [Z.eqb snd fst]. rewrite app_nil_r.
    unfold squash_one. destruct rest; reflexivity.
Qed.

Theorem source_squash_genes ignore squash_antitarget rows :
  squash_genes ignore squash_antitarget rows
  = flat_map (py_squash_iter squash_antitarget) (by_gene ignore rows).
Proof. unfold squash_genes. apply flat_map_ext. intro gr. apply source_squash_step. Qed.
