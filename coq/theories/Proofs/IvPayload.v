(* Payload semantics of merge / flatten (C06): which input rows an output row stands for,
   and what the column combiners make of their other fields.

   merge (bp = 0): every output row o is the squash of one overlap group, and that group
   is EXACTLY the list of input rows lying inside o, in (start, end) order
   (`filter (iv_within o) (sort_rows t)`); a group of one row is returned as it is,
   otherwise the fields are `comb (first row's fields) (all rows' fields)`.
   flatten: every output piece p is cut from one overlap group, and the rows "in play"
   for p are EXACTLY the input rows containing p (`filter (iv_contains p) (sort_rows t)`).
   With the default combiners (Model/IvCombine.v: comb_cols): gene / accession = the
   comma-join of the distinct names of those rows in row order, weight / probes = their
   sum, strand = the common strand or ".", a column without combiner = the value in the
   group's first row. *)
From CNV Require Import Base.Prelude Base.QNum Model.IvRow Model.IvCombine Model.Intervals Spec.Cover.
From CNV Require Import Proofs.IvCover Proofs.IvMerge Proofs.IvFlattenGroup Proofs.IvFlatten Proofs.IvLib2.
From CNV Require Gen.IvDefaults Gen.IvCombiners.

Section Payload.
Context {A : Type} (comb : A -> list A -> A).
Notation row := (@row A).
Implicit Types (r f o p : row) (t g : list row) (gs : list (list row)).

(* the hull of a group: first start, maximal end *)
Definition hull (g : list row) : Z * Z :=
  match g with [] => (0, 0) | f :: g' => (lo f, maxhi (hi f) g') end.

Definition within_se (se : Z * Z) (r : row) : bool := (fst se <=? lo r) && (hi r <=? snd se).

Lemma squash_hull g : g <> [] ->
  exists o, squash comb g = [o] /\ (lo o, hi o) = hull g /\
            (g = [o] \/ exists f g', g = f :: g' /\ pay o = comb (pay f) (map pay g)).
Proof.
  intros Hg. destruct g as [|f [|x g'']]; [contradiction| |].
  - exists f. split; [reflexivity|]. split; [reflexivity | now left].
  - eexists. split; [reflexivity|]. split; [reflexivity|]. right. exists f, (x :: g''). split; reflexivity.
Qed.

Lemma group_rows_in_hull f g' r :
  connected (lo f) (hi f) g' -> In r (f :: g') -> lo f <= lo r /\ hi r <= maxhi (hi f) g'.
Proof.
  intros C [<-|Hr].
  - split; [lia | apply maxhi_ge].
  - split; [|now apply maxhi_ge_in].
    pose proof (lsorted_all _ _ (connected_lsorted _ _ _ C)) as Hl.
    rewrite Forall_forall in Hl. now apply Hl.
Qed.

(* separation of the groups: rows of later groups start after M, rows of one group lie
   in its hull, and a row lies inside the hull of its own group only *)
Lemma groups_within M gs :
  groups_ok 0 M gs -> valid (concat gs) ->
  Forall (fun r => M < lo r) (concat gs) /\
  forall g, In g gs -> filter (within_se (hull g)) (concat gs) = g /\ M < fst (hull g).
Proof.
  revert M. induction gs as [|grp rest IH]; intros M H Hv.
  - split; [constructor | intros g []].
  - destruct grp as [|f g']; [destruct H|]. destruct H as (HM & C & G).
    cbn [concat] in Hv |- *. apply valid_app in Hv as [Hvg Hvr].
    set (Mi := maxhi (hi f) g') in *.
    destruct (IH Mi G Hvr) as [Rr Rg]. clear IH.
    assert (Hf : lo f < hi f) by (apply valid_cons in Hvg; tauto).
    assert (HMi : hi f <= Mi) by apply maxhi_ge.
    rewrite Forall_forall in Rr.
    assert (Hgrp : forall r, In r (f :: g') -> lo f <= lo r /\ hi r <= Mi)
      by (intros r Hr; now apply group_rows_in_hull).
    split.
    + apply Forall_app. split; apply Forall_forall; intros r Hr.
      * destruct (Hgrp r Hr). lia.
      * specialize (Rr r Hr). simpl in Rr. lia.
    + intros g [<-|Hg].
      * cbn [hull fst]. split; [|lia]. fold Mi. rewrite filter_app.
        rewrite filter_id, filter_none, app_nil_r; [reflexivity| |].
        -- intros r Hr. specialize (Rr r Hr). simpl in Rr.
           pose proof (valid_in _ _ Hvr Hr). unfold within_se. cbn [fst snd]. lia.
        -- intros r Hr. destruct (Hgrp r Hr). unfold within_se. cbn [fst snd]. lia.
      * destruct (Rg g Hg) as [E HMg]. split; [|lia]. rewrite filter_app, E.
        rewrite filter_none; [reflexivity|].
        intros r Hr. destruct (Hgrp r Hr). pose proof (valid_in _ _ Hvg Hr).
        unfold within_se. lia.
Qed.

(* merge (bp = 0): the rows an output row covers are its group *)
Theorem merge_slow_payload t : valid t ->
  let s := sort_rows t in
  Forall (fun o =>
    let cov := filter (iv_within o) s in
    exists f, hd_error cov = Some f /\ lo o = lo f /\
              (cov = [o] \/ pay o = comb (pay f) (map pay cov)))
    (merge_slow comb 0 t).
Proof.
  intros Hv. cbv zeta. unfold merge_slow.
  destruct t as [|r0 t0] eqn:Et; [constructor|]. rewrite <- Et in *.
  assert (Hne : t <> []) by (rewrite Et; discriminate).
  destruct (groups_struct 0 t) as (M & gs & Eg & G & Ec); [lia | exact Hne|].
  set (s := sort_rows t) in *. rewrite Eg.
  assert (Hvs : valid (concat gs)).
  { rewrite Ec. eapply valid_perm; [apply Permutation_sym, sort_rows_perm | exact Hv]. }
  destruct (groups_within M gs G Hvs) as [_ Hg]. rewrite Ec in Hg.
  apply Forall_forall. intros o Ho. apply in_flat_map in Ho as [g [Hgin Ho]].
  assert (Hgne : g <> []).
  { pose proof (groups_nonempty 0 s) as Hn. rewrite Eg in Hn. rewrite Forall_forall in Hn. now apply Hn. }
  destruct (squash_hull g Hgne) as (o' & Es & Eh & Hp). rewrite Es in Ho.
  destruct Ho as [<-|[]]. destruct (Hg g Hgin) as [Ef _].
  assert (Ecov : filter (iv_within o') s = g).
  { rewrite <- Ef. apply filter_ext. intros r. unfold iv_within, within_se. rewrite <- Eh. reflexivity. }
  cbv zeta. rewrite Ecov.
  destruct g as [|f g']; [contradiction|]. exists f. split; [reflexivity|].
  split; [cbn [hull] in Eh; congruence|].
  destruct Hp as [Hp|(f1 & g1 & E1 & Hp)]; [left; exact Hp|].
  right. injection E1 as <- <-. exact Hp.
Qed.

(* ---- flatten ------------------------------------------------------------------------- *)

Lemma groups_contains M gs :
  groups_ok 0 M gs -> valid (concat gs) ->
  Forall (fun r => M < lo r) (concat gs) /\
  forall g p, In g gs -> In p (flatten_group comb g) ->
    filter (iv_contains p) (concat gs) = in_play g (lo p) (hi p) /\ M < lo p /\ lo p < hi p.
Proof.
  revert M. induction gs as [|grp rest IH]; intros M H Hv.
  - split; [constructor | intros g p []].
  - destruct grp as [|f g']; [destruct H|]. destruct H as (HM & C & G).
    cbn [concat] in Hv |- *. apply valid_app in Hv as [Hvg Hvr].
    set (Mi := maxhi (hi f) g') in *.
    destruct (IH Mi G Hvr) as [Rr Rg]. clear IH.
    destruct (flatten_group_spec comb f g' C Hvg) as (_ & _ & Gv & Gb & _ & _).
    fold Mi in Gb. rewrite Forall_forall in Gb.
    assert (Hf : lo f < hi f) by (apply valid_cons in Hvg; tauto).
    assert (HMi : hi f <= Mi) by apply maxhi_ge.
    rewrite Forall_forall in Rr.
    assert (Hgrp : forall r, In r (f :: g') -> lo f <= lo r /\ hi r <= Mi)
      by (intros r Hr; now apply group_rows_in_hull).
    split.
    + apply Forall_app. split; apply Forall_forall; intros r Hr.
      * destruct (Hgrp r Hr). lia.
      * specialize (Rr r Hr). simpl in Rr. lia.
    + intros g p [<-|Hg] Hp.
      * destruct (Gb p Hp) as [Hp1 Hp2]. pose proof (valid_in _ _ Gv Hp) as Hpv.
        split; [|lia]. rewrite filter_app. rewrite (filter_none _ (concat rest)), app_nil_r; [reflexivity|].
        intros r Hr. specialize (Rr r Hr). simpl in Rr. unfold iv_contains. lia.
      * destruct (Rg g p Hg Hp) as (E & HMp & Hvp). split; [|lia]. rewrite filter_app, E.
        rewrite filter_none; [reflexivity|].
        intros r Hr. destruct (Hgrp r Hr).
        unfold iv_contains. lia.
Qed.

(* flatten: the rows in play for a piece are the input rows containing it *)
Theorem flatten_slow_payload t : valid t ->
  Forall (fun p =>
    let cov := filter (iv_contains p) (sort_rows t) in
    cov <> [] /\
    exists g f, In g (groups 0 (sort_rows t)) /\ hd_error g = Some f /\ In p (flatten_group comb g) /\
                ((g = [p] /\ cov = [p]) \/ pay p = comb (pay f) (map pay cov)))
    (flatten_slow comb t).
Proof.
  intros Hv. cbv zeta.
  destruct (flatten_slow_spec comb t Hv) as (Hc & _ & Hval & Hb).
  unfold flatten_slow in *.
  assert (Hbp : Gen.IvDefaults.flatten_group_bp = 0) by reflexivity. rewrite Hbp in *.
  destruct t as [|r0 t0] eqn:Et; [constructor|]. rewrite <- Et in *.
  assert (Hne : t <> []) by (rewrite Et; discriminate).
  destruct (groups_struct 0 t) as (M & gs & Eg & G & Ec); [lia | exact Hne|].
  set (s := sort_rows t) in *. rewrite Eg in *.
  assert (Hvs : valid (concat gs)).
  { rewrite Ec. eapply valid_perm; [apply Permutation_sym, sort_rows_perm | exact Hv]. }
  destruct (groups_contains M gs G Hvs) as [_ Hg]. rewrite Ec in Hg.
  apply Forall_forall. intros p Hp. split.
  - (* some input row contains the piece *)
    pose proof (valid_in _ _ Hval Hp) as Hpv.
    assert (Hcov : covers t (lo p)) by (apply Hc; exists p; split; [exact Hp | lia]).
    destruct Hcov as [r [Hr Hlr]].
    assert (Hhr : hi p <= hi r).
    { destruct (Z_le_gt_dec (hi p) (hi r)); auto. exfalso.
      apply (Hb (hi r) p); [exists r; split; auto | exact Hp | lia]. }
    intros Hnil.
    assert (Hin : In r (filter (iv_contains p) s)).
    { apply filter_In. split; [apply sort_rows_In; exact Hr | unfold iv_contains; lia]. }
    rewrite Hnil in Hin. destruct Hin.
  - apply in_flat_map in Hp as [g [Hgin Hp]].
    destruct (Hg g p Hgin Hp) as (E & _ & _).
    destruct g as [|f [|x g'']]; [destruct Hp| |].
    + destruct Hp as [<-|[]]. exists [f], f. split; [exact Hgin|]. split; [reflexivity|].
      split; [now left|]. left. split; [reflexivity|]. rewrite E.
      unfold in_play. cbn [filter]. rewrite !Z.leb_refl. reflexivity.
    + exists (f :: x :: g''), f. split; [exact Hgin|]. split; [reflexivity|]. split; [exact Hp|]. right.
      rewrite flatten_group_pair in Hp. apply in_map_iff in Hp as [se [<- _]].
      rewrite E. reflexivity.
Qed.

(* ---- tables in which nothing overlaps (the fast paths): every row stands for itself --- *)

Lemma disjoint_strong t : sorted_disjoint t -> valid t ->
  chain (fun a b => hi a <= lo b /\ lo b < hi b) t.
Proof.
  intros Hd Hv. eapply chain_impl_in; [|exact Hd].
  intros a b _ Hb H. split; [exact H | now apply (valid_in _ _ Hv)].
Qed.

Lemma disjoint_lex_sorted t : sorted_disjoint t -> valid t -> lex_sorted t.
Proof.
  unfold lex_sorted. induction t as [|a t IH]; intros Hd Hv; constructor.
  - apply IH; [eapply chain_tail; eauto | apply valid_cons in Hv; tauto].
  - destruct t as [|b t]; constructor.
    apply chain_cons in Hd as [Hab _]. apply valid_cons in Hv as [Ha _].
    unfold row_leb. lia.
Qed.

Lemma disjoint_self t o : sorted_disjoint t -> valid t -> In o t ->
  filter (iv_within o) (sort_rows t) = [o] /\ filter (iv_contains o) (sort_rows t) = [o].
Proof.
  intros Hd Hv Ho. rewrite (sort_rows_sorted_id t (disjoint_lex_sorted t Hd Hv)).
  pose proof (disjoint_strong t Hd Hv) as Hs. clear Hd.
  induction t as [|a t IH]; [destruct Ho|].
  assert (Hall : Forall (fun b => hi a <= lo b /\ lo b < hi b) t).
  { apply (chain_head_all (fun a b => hi a <= lo b /\ lo b < hi b)); [|exact Hs].
    intros u v w [H1 H2] [H3 H4]. lia. }
  rewrite Forall_forall in Hall.
  pose proof (proj1 (valid_cons _ _) Hv) as [Ha Hvt].
  destruct Ho as [<-|Ho].
  - cbn [filter]. unfold iv_within at 1, iv_contains at 1. rewrite !Z.leb_refl. cbn [andb].
    rewrite !filter_none; [split; reflexivity| |]; intros b Hb; destruct (Hall b Hb);
      unfold iv_contains, iv_within; lia.
  - destruct (Hall o Ho) as [H1 H2]. cbn [filter].
    assert (E1 : iv_within o a = false) by (unfold iv_within; lia).
    assert (E2 : iv_contains o a = false) by (unfold iv_contains; lia).
    rewrite E1, E2. apply IH; auto. eapply chain_tail; eauto.
Qed.

End Payload.

(* ---- pandas.unique: the distinct names in order of first appearance --------------------- *)

Lemma iv_first_index_cons_neq x y l : x <> y -> iv_first_index x (y :: l) = S (iv_first_index x l).
Proof.
  intros H. cbn [iv_first_index]. destruct (String.eqb x y) eqn:E; [|reflexivity].
  apply String.eqb_eq in E. contradiction.
Qed.

Lemma StronglySorted_filter {X} (R : X -> X -> Prop) (p : X -> bool) l :
  StronglySorted R l -> StronglySorted R (filter p l).
Proof.
  induction 1 as [|a l Hl IH Ha]; cbn [filter]; [constructor|].
  destruct (p a); auto. constructor; auto.
  rewrite Forall_forall in *. intros x Hx. apply filter_In in Hx as [Hx _]. auto.
Qed.

Lemma StronglySorted_impl_in {X} (R R' : X -> X -> Prop) l :
  (forall a b, In a l -> In b l -> R a b -> R' a b) -> StronglySorted R l -> StronglySorted R' l.
Proof.
  intros H HS. induction HS as [|a l Hl IH Ha]; constructor.
  - apply IH. intros x y Hx Hy. apply H; now right.
  - rewrite Forall_forall in *. intros x Hx. apply H; [now left | now right | auto].
Qed.

Theorem uniq_distinct_in_order l : iv_distinct_in_order (uniq l) l.
Proof.
  split; [apply uniq_NoDup|]. split; [intros x; apply uniq_In|].
  induction l as [|x t IH]; cbn [uniq]; constructor.
  - apply StronglySorted_filter with (p := fun y => negb (String.eqb x y)) in IH.
    eapply StronglySorted_impl_in; [|exact IH].
    intros a b Ha Hb Hab. apply filter_In in Ha as [_ Ha]. apply filter_In in Hb as [_ Hb].
    rewrite negb_true_iff in Ha, Hb. apply String.eqb_neq in Ha, Hb.
    rewrite !iv_first_index_cons_neq by congruence. cbv beta in Hab. lia.
  - apply Forall_forall. intros y Hy. apply filter_In in Hy as [_ Hy].
    rewrite negb_true_iff in Hy. apply String.eqb_neq in Hy.
    rewrite (iv_first_index_cons_neq y x) by congruence.
    cbn [iv_first_index]. rewrite String.eqb_refl. lia.
Qed.

Lemma join_strings_single g : join_strings [g] = g.
Proof. reflexivity. Qed.

Lemma merge_strands_single s : merge_strands [s] = s.
Proof. reflexivity. Qed.

(* the default combiners, spelled out (the table is regenerated from combiners.py) *)
Lemma comb_cols_default first ps :
  comb_cols false first ps =
  mkPcols (join_strings (map c_gene ps)) (join_strings (map c_acc ps)) (merge_strands (map c_strand ps))
          (py_sumQ (map c_weight ps)) (sumZ (map c_probes ps)) (c_tag first).
Proof. reflexivity. Qed.

Lemma py_sumQ_single w : py_sumQ [w] == w.
Proof. unfold py_sumQ. cbn [fold_left]. rewrite Qred_correct. ring. Qed.

(* what the default combiners make of the rows `cov` an output row with fields `q` stands for *)
Definition cols_of (q : pcols) (first : pcols) (cov : list pcols) : Prop :=
  c_gene q = join_strings (map c_gene cov) /\
  c_acc q = join_strings (map c_acc cov) /\
  c_strand q = merge_strands (map c_strand cov) /\
  c_weight q == py_sumQ (map c_weight cov) /\
  c_probes q = sumZ (map c_probes cov) /\
  c_tag q = c_tag first.

Lemma cols_of_single q : cols_of q q [q].
Proof.
  unfold cols_of. cbn [map]. rewrite join_strings_single, join_strings_single, merge_strands_single.
  repeat split; try reflexivity.
  - symmetry. apply py_sumQ_single.
  - cbn. lia.
Qed.

Lemma cols_of_comb first cov : cols_of (comb_cols false first cov) first cov.
Proof. rewrite comb_cols_default. unfold cols_of. cbn. repeat split; reflexivity. Qed.

