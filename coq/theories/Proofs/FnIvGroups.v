(* C06 loop tie of merge._nonoverlapping_groups: the group-break decision of the table code, read per element
   (row i >= 1 of the table against the running maximum of the ends of the rows before it) and regenerated
   from the Python source on every run as Gen/FnIvGroups.v (fn_group_break):

       gap_sizes = table.start.values[1:] - table.end.cummax().values[:-1]
       group_keys = np.r_[False, gap_sizes > (-bp)].cumsum()
       keyed_groups = zip(group_keys, table.itertuples(index=False))
       return (row_group for _key, row_group in itertools.groupby(keyed_groups, first_of))

   Here: Model/Intervals.v groups IS itertools.groupby over the cumulative sum of the generated break
   test along the table (the fast-path tests: Proofs/FnIvFast.v, the rows_in_play test: Proofs/FnIvInPlay.v). *)
From CNV Require Import Base.Prelude Model.IvRow Model.Intervals.
From CNV Require Gen.FnIvGroups.

Local Open Scope Z_scope.

Section GroupsTie.
Context {A : Type}.
Notation row := (@row A).

Lemma source_group_break (s c bp : Z) : FnIvGroups.fn_group_break s c bp = (- bp <? s - c).
Proof. reflexivity. Qed.

(* np.r_[False, gap_sizes > -bp].cumsum(): the key of every row after the first (cmax = running maximum of
   the ends before the row, key = key of the row before) *)
Fixpoint src_keys (bp cmax key : Z) (rest : list row) : list Z :=
  match rest with
  | [] => []
  | r :: t =>
      let key' := key + (if FnIvGroups.fn_group_break (lo r) cmax bp then 1 else 0) in
      key' :: src_keys bp (Z.max cmax (hi r)) key' t
  end.

Definition src_group_keys (bp : Z) (rows : list row) : list Z :=
  match rows with
  | [] => []
  | r :: t => 0 :: src_keys bp (hi r) 0 t
  end.

(* itertools.groupby(keyed_rows, first_of): maximal runs of consecutive equal keys; the rows of each run *)
Fixpoint groupby_from (key : Z) (kr : list (Z * row)) : list row * list (list row) :=
  match kr with
  | [] => ([], [])
  | (k', r) :: t =>
      let '(g, gs) := groupby_from k' t in
      if k' =? key then (r :: g, gs) else ([], (r :: g) :: gs)
  end.

Definition groupby (kr : list (Z * row)) : list (list row) :=
  match kr with
  | [] => []
  | (k, r) :: t => let '(g, gs) := groupby_from k t in (r :: g) :: gs
  end.

Lemma source_groups_from (bp : Z) (rest : list row) : forall cmax key,
  groupby_from key (combine (src_keys bp cmax key rest) rest) = groups_from bp cmax rest.
Proof.
  induction rest as [|r t IH]; intros cmax key; [reflexivity|].
  cbn [src_keys combine groupby_from groups_from]. cbv zeta.
  rewrite IH, source_group_break.
  destruct (groups_from bp (Z.max cmax (hi r)) t) as [g gs].
  destruct (- bp <? lo r - cmax).
  - replace (key + 1 =? key) with false by lia. reflexivity.
  - replace (key + 0 =? key) with true by lia. reflexivity.
Qed.

Theorem source_groups (bp : Z) (rows : list row) :
  groups bp rows = groupby (combine (src_group_keys bp rows) rows).
Proof.
  destruct rows as [|r t]; [reflexivity|].
  cbn [src_group_keys combine groupby groups]. rewrite source_groups_from. reflexivity.
Qed.

End GroupsTie.

Example source_groups_ex :
  groupby (combine (src_group_keys 0 [(0, 10, tt); (5, 20, tt); (21, 30, tt); (25, 26, tt)])
                   [(0, 10, tt); (5, 20, tt); (21, 30, tt); (25, 26, tt)])
  = [[(0, 10, tt); (5, 20, tt)]; [(21, 30, tt); (25, 26, tt)]].
Proof. reflexivity. Qed.
