(* C14 source tie of segfilters.require_column's inner function, which wraps every filter,

       def wrapped_f(segarr):
           filtname = func.__name__
           if any(c not in segarr for c in colnames):
               raise ValueError(msg.format(filtname, *colnames))
           result = func(segarr)
           logging.info("Filtered by '%s' from %d to %d rows", filtname, len(segarr), len(result))
           return result

   regenerated from the Python source on every run as Gen/FnSegWrap.v (fn_wrapped; the missing-column
   guard is a recorded error path, the log line is dropped, segarr and func(segarr) are inputs).  Here: past the
   guard the wrapper hands back exactly what the filter computed -- so Model/Segfilters.v apply_filter,
   the model of the undecorated filters, is also the model of the decorated ones. *)
From CNV Require Import Base.Prelude Model.Segfilters.
From CNV Require Gen.FnSegWrap.

Local Open Scope Z_scope.

Theorem source_wrapper (table_in : Z) (name : string) (result : Z) : FnSegWrap.fn_wrapped table_in name result = result.
Proof. reflexivity. Qed.

(* whatever stands for the table (enc: any encoding of a result table as the translator's opaque value) *)
Theorem source_wrapped_filter (enc : list seg -> Z) (name : string) (f : filt) (t : list seg) :
  FnSegWrap.fn_wrapped (enc t) name (enc (apply_filter f t)) = enc (apply_filter f t).
Proof. reflexivity. Qed.
