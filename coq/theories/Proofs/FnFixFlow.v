(* C04 source tie of the two load_adjust_coverages calls of fix.do_fix [loop ties e3]:

       cnarr, ref_matched = load_adjust_coverages(target_raw, reference, True, do_gc, do_edge, False,
                                                  diploid_parx_genome, smoothing_window_fraction=...)
       anti_cnarr, ref_anti = load_adjust_coverages(antitarget_raw, reference, False, do_gc, False, do_rmask,
                                                    diploid_parx_genome, smoothing_window_fraction=...)

   The four flag arguments (skip_low, fix_gc, fix_edge, fix_rmask) of each call are located with `ast`
   (tools/fnspecs/fix_flow.py, fail-closed) and regenerated from the Python source on every run as Gen/FnFixFlow.v
   (fn_load_flags: eight booleans, as functions of do_gc / do_edge / do_rmask).  Here: Model/Fix.v load_adjust for the
   target table IS the pipeline of load_adjust_coverages run with the first call's flags, for the antitarget table with
   the second call's, and fix_pre runs exactly these two: low bins are skipped when centring the targets only, GC goes
   to both tables, the edge correction to the targets only, RepeatMasker to the antitargets only. *)
From CNV Require Import Base.Prelude Base.Str Base.QNum Model.Chromsort Gen.Params Gen.FixDefaults Model.Fix.
From CNV Require Gen.FnFixFlow.

(* load_adjust_coverages with its four flags as they are passed *)
Definition load_adjust_flags (c : cfg) (ref : list rrow) (skip_low fix_gc fix_edge fix_rmask : bool)
  (perm : list nat) (wing : nat) (samp : list srow) : fix_error + list brow :=
  match samp with
  | [] => inr []
  | _ =>
    match match_ref ref (presort samp) with
    | inl e => inl e
    | inr m =>
        let ok := center_all c skip_low (mask_bad c m) in
        if mostly_low ok then inr ok else inr (corrections c fix_gc fix_edge fix_rmask perm wing ok)
    end
  end.

Definition py_load_target (c : cfg) (ref : list rrow) (perm : list nat) (wing : nat) (samp : list srow) :=
  let '(sl, g, e, r, _, _, _, _) := Gen.FnFixFlow.fn_load_flags (do_gc c) (do_edge c) (do_rmask c) in
  load_adjust_flags c ref sl g e r perm wing samp.

Definition py_load_anti (c : cfg) (ref : list rrow) (perm : list nat) (wing : nat) (samp : list srow) :=
  let '(_, _, _, _, sl, g, e, r) := Gen.FnFixFlow.fn_load_flags (do_gc c) (do_edge c) (do_rmask c) in
  load_adjust_flags c ref sl g e r perm wing samp.

Theorem source_load_flags c ref perm wing samp :
  load_adjust c ref true perm wing samp = py_load_target c ref perm wing samp /\
  load_adjust c ref false perm wing samp = py_load_anti c ref perm wing samp.
Proof.
  unfold py_load_target, py_load_anti, Gen.FnFixFlow.fn_load_flags, load_adjust, load_adjust_flags. cbv zeta.
  split; destruct samp; try reflexivity; destruct (do_edge c), (do_rmask c); reflexivity.
Qed.

Theorem source_fix_pre_flags c o target anti ref :
  fix_pre c o target anti ref
  = match py_load_target c ref (perm_t o) (wing_t o) target with
    | inl e => inl e
    | inr t =>
      match py_load_anti c ref (perm_a o) (wing_a o) anti with
      | inl e => inl e
      | inr a =>
          let all := match a with [] => t | _ => sort_brows (t ++ a) end in
          inr (map (fun b => bset_log2 (Qred (blog2 b - r_log2 (snd b))) b) all)
      end
    end.
Proof.
  unfold fix_pre. destruct (source_load_flags c ref (perm_t o) (wing_t o) target) as [-> _].
  destruct (source_load_flags c ref (perm_a o) (wing_a o) anti) as [_ ->]. reflexivity.
Qed.
