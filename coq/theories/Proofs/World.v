(* Proofs for C10's model: ensure_path never overwrites; frame theorems. *)
From CNV Require Import Base.Prelude Model.World.

Section FilesProofs.
Context {C : Type}.
Notation fs := (@fs C).

Lemma lookup_remove_same n (f : fs) : lookup n (remove n f) = None.
Proof.
  induction f as [|[k c] t IH]; cbn; [reflexivity|].
  destruct (Nat.eqb k n) eqn:E; [exact IH|]. cbn. now rewrite E.
Qed.

Lemma lookup_remove_other n m (f : fs) : n <> m -> lookup m (remove n f) = lookup m f.
Proof.
  intros Hne. induction f as [|[k c] t IH]; cbn; [reflexivity|].
  destruct (Nat.eqb k n) eqn:E1.
  - apply Nat.eqb_eq in E1. subst k.
    destruct (Nat.eqb n m) eqn:E2; [apply Nat.eqb_eq in E2; congruence|exact IH].
  - cbn. destruct (Nat.eqb k m); [reflexivity|exact IH].
Qed.

Lemma lookup_set_same n c (f : fs) : lookup n (set n c f) = Some c.
Proof. unfold set. cbn. now rewrite Nat.eqb_refl. Qed.

Lemma lookup_set_other n m c (f : fs) : n <> m -> lookup m (set n c f) = lookup m f.
Proof.
  intros Hne. unfold set. cbn.
  destruct (Nat.eqb n m) eqn:E; [apply Nat.eqb_eq in E; congruence|].
  now apply lookup_remove_other.
Qed.

Lemma first_free_spec fuel : forall cnt (f : fs) n,
  first_free fuel cnt f = Some n ->
  (cnt <= n)%nat /\ lookup n f = None /\ forall j, (cnt <= j < n)%nat -> lookup j f <> None.
Proof.
  induction fuel as [|fuel IH]; intros cnt f n H; cbn in H; [discriminate|].
  destruct (lookup cnt f) eqn:E.
  - apply IH in H as (H1 & H2 & H3). repeat split; [lia|exact H2|].
    intros j Hj. destruct (Nat.eq_dec j cnt) as [->|Hne]; [congruence|apply H3; lia].
  - injection H as <-. repeat split; [lia|exact E|intros j Hj; lia].
Qed.

(* fuel sufficiency by pigeonhole: a name bound in f occurs in `names f` *)
Lemma lookup_in_names n (f : fs) : lookup n f <> None -> In n (names f).
Proof.
  induction f as [|[k c] t IH]; cbn; [congruence|].
  destruct (Nat.eqb k n) eqn:E; [apply Nat.eqb_eq in E; auto|auto].
Qed.

Lemma first_free_none fuel : forall cnt (f : fs),
  first_free fuel cnt f = None -> forall j, (cnt <= j < cnt + fuel)%nat -> lookup j f <> None.
Proof.
  induction fuel as [|fuel IH]; intros cnt f H j Hj; [lia|].
  cbn in H. destruct (lookup cnt f) eqn:E; [|discriminate].
  destruct (Nat.eq_dec j cnt) as [->|Hne]; [congruence|].
  apply (IH (S cnt) f H). lia.
Qed.

Lemma first_free_total (f : fs) : exists n, first_free (S (length f)) 1 f = Some n.
Proof.
  destruct (first_free (S (length f)) 1 f) as [n|] eqn:E; [eauto|exfalso].
  pose proof (first_free_none _ _ _ E) as H.
  assert (Hincl : incl (seq 1 (S (length f))) (names f)).
  { intros j Hj. apply in_seq in Hj. apply lookup_in_names, H. lia. }
  apply NoDup_incl_length in Hincl; [|apply seq_NoDup].
  rewrite seq_length in Hincl. unfold names in Hincl. rewrite map_length in Hincl. lia.
Qed.

Lemma ensure_path_total (f : fs) : exists f', ensure_path f = Some f'.
Proof.
  unfold ensure_path. destruct (lookup 0 f); [|eauto].
  destruct (first_free_total f) as (n & ->). eauto.
Qed.

(* The effect of ensure_path: p is free afterwards; an existing p has moved, content intact,
   to the first free suffix; every other file of the family is untouched. *)
Lemma ensure_path_spec (f f' : fs) : ensure_path f = Some f' ->
  lookup 0 f' = None /\
  match lookup 0 f with
  | None => f' = f
  | Some c => exists n, (1 <= n)%nat /\ lookup n f = None /\
                (forall j, (1 <= j < n)%nat -> lookup j f <> None) /\
                lookup n f' = Some c /\
                forall j, j <> 0%nat -> j <> n -> lookup j f' = lookup j f
  end.
Proof.
  unfold ensure_path. destruct (lookup 0 f) as [c|] eqn:E0.
  - destruct (first_free _ 1 f) as [n|] eqn:En; [|discriminate].
    intros H; injection H as <-.
    apply first_free_spec in En as (H1 & H2 & H3).
    split.
    + rewrite lookup_set_other by lia. apply lookup_remove_same.
    + exists n. repeat split; auto.
      * apply lookup_set_same.
      * intros j Hj0 Hjn. rewrite lookup_set_other by congruence.
        apply lookup_remove_other. congruence.
  - intros H; injection H as <-. auto.
Qed.

Lemma write_round_total (f : fs) c : exists f', write_round f c = Some f'.
Proof. unfold write_round. destruct (ensure_path_total f) as (f' & ->). eauto. Qed.

(* One round: p now holds the new content; the old p (if any) is intact under the first
   free numbered suffix; nothing else of the family changed. No content is lost. *)
Theorem write_round_spec (f f' : fs) c : write_round f c = Some f' ->
  lookup 0 f' = Some c /\
  match lookup 0 f with
  | None => forall j, j <> 0%nat -> lookup j f' = lookup j f
  | Some old => exists n, (1 <= n)%nat /\ lookup n f = None /\
                (forall j, (1 <= j < n)%nat -> lookup j f <> None) /\
                lookup n f' = Some old /\
                forall j, j <> 0%nat -> j <> n -> lookup j f' = lookup j f
  end.
Proof.
  unfold write_round. destruct (ensure_path f) as [f1|] eqn:E; [|discriminate].
  intros H; injection H as <-. apply ensure_path_spec in E as (H0 & H1).
  split; [apply lookup_set_same|].
  destruct (lookup 0 f) as [old|].
  - destruct H1 as (n & Hn1 & Hn2 & Hn3 & Hn4 & Hn5). exists n. repeat split; auto.
    + rewrite lookup_set_other by lia. exact Hn4.
    + intros j Hj0 Hjn. rewrite lookup_set_other by congruence. now apply Hn5.
  - subst f1. intros j Hj. now rewrite lookup_set_other by congruence.
Qed.

(* k >= 1 writes to a fresh path: p holds the last content, p.j the j-th, nothing else. *)
Definition layout (cs : list C) (f : fs) : Prop :=
  match rev cs with
  | [] => forall j, lookup j f = None
  | last :: _ =>
      lookup 0 f = Some last /\
      (forall j, (1 <= j < length cs)%nat -> lookup j f = nth_error cs (j - 1)) /\
      (forall j, (length cs <= j)%nat -> lookup j f = None)
  end.

Lemma layout_snoc (cs : list C) c f f' :
  layout cs f -> write_round f c = Some f' -> layout (cs ++ [c]) f'.
Proof.
  intros HL HW. apply write_round_spec in HW as (H0 & H1).
  unfold layout in *. rewrite rev_app_distr. cbn [rev app].
  rewrite app_length. cbn [length].
  destruct (rev cs) as [|lst rc] eqn:Erev.
  - assert (cs = []) as -> by (apply (f_equal (@rev C)) in Erev; rewrite rev_involutive in Erev; exact Erev).
    cbn [length]. rewrite HL in H1. split; [exact H0|]. split.
    + intros j Hj; lia.
    + intros j Hj. rewrite H1 by lia. apply HL.
  - destruct HL as (HL0 & HL1 & HL2). rewrite HL0 in H1.
    destruct H1 as (n & Hn1 & Hn2 & Hn3 & Hn4 & Hn5).
    assert (Hlen : (1 <= length cs)%nat).
    { destruct cs; [discriminate|cbn; lia]. }
    assert (Hn : n = length cs).
    { destruct (lt_eq_lt_dec n (length cs)) as [[Hlt|Heq]|Hgt]; [|exact Heq|].
      - exfalso. rewrite HL1 in Hn2 by lia.
        apply nth_error_None in Hn2. lia.
      - exfalso. apply (Hn3 (length cs)); [lia|]. apply HL2. lia. }
    subst n.
    assert (Hlast : nth_error cs (length cs - 1) = Some lst).
    { assert (cs = rev rc ++ [lst]) as ->.
      { apply (f_equal (@rev C)) in Erev. rewrite rev_involutive in Erev. exact Erev. }
      rewrite app_length. cbn [length].
      rewrite nth_error_app2 by (rewrite rev_length; lia).
      replace (length (rev rc) + 1 - 1 - length (rev rc))%nat with 0%nat by lia. reflexivity. }
    split; [exact H0|]. split.
    + intros j Hj. destruct (Nat.eq_dec j (length cs)) as [->|Hne].
      * rewrite Hn4. rewrite nth_error_app1 by lia. now rewrite Hlast.
      * rewrite Hn5 by lia. rewrite HL1 by lia. now rewrite nth_error_app1 by lia.
    + intros j Hj. rewrite Hn5 by lia. apply HL2. lia.
Qed.

Lemma write_rounds_app (f : fs) cs1 cs2 :
  write_rounds f (cs1 ++ cs2) =
  match write_rounds f cs1 with Some f1 => write_rounds f1 cs2 | None => None end.
Proof.
  revert f; induction cs1 as [|c t IH]; intros f; cbn [app write_rounds]; [reflexivity|].
  destruct (write_round f c); [apply IH|reflexivity].
Qed.

Theorem write_rounds_layout (cs : list C) :
  exists f, write_rounds [] cs = Some f /\ layout cs f.
Proof.
  induction cs as [|c t IH] using rev_ind.
  - exists []. split; [reflexivity|]. cbn. reflexivity.
  - destruct IH as (f & Hf & HL). rewrite write_rounds_app, Hf. cbn [write_rounds].
    destruct (write_round_total f c) as (f' & Hf'). rewrite Hf'.
    exists f'. split; [reflexivity|]. eapply layout_snoc; eauto.
Qed.

End FilesProofs.

(* ---- frame theorems ------------------------------------------------------ *)
Section FrameProofs.
Context {Obj : Type}.

(* Every result of any history equals its operation applied to the INITIAL
   argument objects, whatever ran before and whatever the generator states. *)
Theorem run_results (seed : Z) (d : Obj) : forall (h : list (op * list nat * Z * Z)) (w : world),
  snd (run seed d w h) = map (fun '(o, ids, _, _) => op_fun o (pick ids (w_objs w) d)) h.
Proof.
  induction h as [|[[[o ids] a] b] t IH]; intros w; cbn [run map snd]; [reflexivity|].
  f_equal. rewrite IH. reflexivity.
Qed.

(* The caller's objects are never changed by any history. *)
Theorem run_objs (seed : Z) (d : Obj) : forall (h : list (op * list nat * Z * Z)) (w : world),
  w_objs (fst (run seed d w h)) = w_objs w.
Proof.
  induction h as [|[[[o ids] a] b] t IH]; intros w; cbn [run fst]; [reflexivity|].
  rewrite IH. reflexivity.
Qed.

(* Two histories ending in the same call on the same initial objects give the same last result. *)
Corollary history_independent (seed : Z) (d : Obj) (w : world) h1 h2 o ids a1 b1 a2 b2 :
  last (snd (run seed d w (h1 ++ [(o, ids, a1, b1)]))) d =
  last (snd (run seed d w (h2 ++ [(o, ids, a2, b2)]))) d.
Proof.
  rewrite !run_results, !map_app. cbn [map]. now rewrite !last_last.
Qed.

End FrameProofs.
