(* C17 -- bintest: residuals (inner selection, segment log2 subtracted, bins outside all
   segments dropped), z-scores, and "the hits are exactly the rows whose Benjamini-
   Hochberg adjusted p is below alpha, in order". *)
From CNV Require Import Base.Prelude Base.QNum Proofs.QNumLemmas Gen.Params Gen.SegmetricsDefaults
  Model.Ranges Model.Segmetrics Model.Bintest Spec.RangeQuery Spec.SegBins Spec.Bintest
  Proofs.SegmetricsBins Proofs.BintestBH.
From Coq Require Import Qround Qabs Psatz.
Local Open Scope Q_scope.

(* ---- residuals ------------------------------------------------------------------- *)
Lemma map2_map {A B C} (f : A -> B -> C) (g : A -> B) l :
  map2 f l (map g l) = map (fun x => f x (g x)) l.
Proof. induction l as [|x t IH]; [reflexivity|]. cbn. now rewrite IH. Qed.

Definition resid_of (s : seg) (ib : tbin) : cand := (ib, qsub (b_log2 (snd ib)) (s_log2 s)).

(* per segment, in segment order: the bins wholly inside it, each with log2 - segment log2 *)
Theorem resid_segments_spec bins segs : bins_ok bins -> segs_ok segs ->
  resid_segments (tagged bins) segs =
  concat (map (fun s => map (resid_of s) (contained_bins (tagged bins) s)) segs).
Proof.
  intros Hb Hs. unfold resid_segments.
  rewrite select_bins_spec; [|discriminate|exact Hb|apply tagged_NoDup|exact Hs].
  rewrite map2_map. reflexivity.
Qed.

(* a bin has a residual iff some segment contains it; the residual is against that
   segment's log2 -- bins outside every segment are dropped *)
Corollary resid_segments_In bins segs c : bins_ok bins -> segs_ok segs ->
  (In c (resid_segments (tagged bins) segs) <->
   exists s, In s segs /\ In (fst c) (tagged bins) /\ seg_contains s (c_bin c) = true /\
             c_res c = qsub (b_log2 (c_bin c)) (s_log2 s)).
Proof.
  intros Hb Hs. rewrite (resid_segments_spec bins segs Hb Hs). rewrite in_concat. split.
  - intros (l & Hl & Hc). apply in_map_iff in Hl. destruct Hl as (s & <- & Hin).
    apply in_map_iff in Hc. destruct Hc as (ib & <- & Hib).
    unfold contained_bins in Hib. apply filter_In in Hib. destruct Hib as [H1 H2].
    exists s. repeat split; assumption.
  - intros (s & Hin & Hib & Hc & Hr). exists (map (resid_of s) (contained_bins (tagged bins) s)).
    split; [apply in_map_iff; exists s; split; [reflexivity|exact Hin]|].
    apply in_map_iff. exists (fst c). split.
    + destruct c as [ib r]. unfold resid_of. cbn in *. unfold c_res, c_bin in Hr. cbn in Hr. now rewrite Hr.
    + unfold contained_bins. apply filter_In. split; assumption.
Qed.

(* on-target only when asked: the off-target names are dropped BEFORE the test *)
Theorem candidates_target_only bins segs :
  candidates bins segs true =
  filter (fun c => negb (existsb (String.eqb (b_gene (c_bin c))) ANTITARGET_ALIASES))
         (candidates bins segs false).
Proof. reflexivity. Qed.

(* ---- z-scores --------------------------------------------------------------------- *)
(* z^2 = (log2 - segment mean)^2 / (1 - weight) *)
Theorem zsq_spec r w : w < 1 -> exists z2, zsq r w = Zfin z2 /\ z2 == r * r / (1 - w).
Proof.
  intro H. unfold zsq. unfold z_one.
  assert (V : qsub 1 w == 1 - w) by apply qsub_spec.
  destruct (qeq_b (qsub 1 w) 0) eqn:E0.
  - apply qeq_b_iff in E0. rewrite V in E0. exfalso. lra.
  - destruct (qlt_b 0 (qsub 1 w)) eqn:E1.
    + eexists. split; [reflexivity|]. now rewrite qdiv_spec, qsq_spec, V.
    + apply qlt_b_false in E1. rewrite V in E1. exfalso. lra.
Qed.

Theorem zsq_weight_one r : zsq r 1 = if qeq_b r 0 then Znan else Zinf.
Proof. reflexivity. Qed.

(* ---- hits -------------------------------------------------------------------------- *)
Lemma all_some_map_Some {A} (l : list A) : all_some (map Some l) = Some l.
Proof. induction l as [|x t IH]; [reflexivity|]. cbn. now rewrite IH. Qed.

Lemma all_some_None {A} (l : list (option A)) : In None l -> all_some l = None.
Proof.
  induction l as [|x t IH]; [intros []|]. intros [->|H]; [reflexivity|].
  cbn. destruct x; [|reflexivity]. now rewrite IH.
Qed.

Lemma concat_map_if {A B} (p : A -> bool) (f : A -> B) l :
  concat (map (fun x => if p x then [f x] else []) l) = map f (filter p l).
Proof. induction l as [|x t IH]; [reflexivity|]. cbn. destruct (p x); cbn; now rewrite IH. Qed.

Definition hit_of (cq : cand * Q) : nat * Q * Q := (c_idx (fst cq), c_res (fst cq), snd cq).

(* all raw p-values defined: the output is exactly the rows whose adjusted p is < alpha,
   in the order of the rows, each with its residual and its adjusted p *)
Theorem bintest_with_spec raw cs alpha :
  bintest_with (map Some raw) cs alpha =
  map hit_of (filter (fun cq => qlt_b (snd cq) alpha) (combine cs (bh raw))).
Proof.
  unfold bintest_with, bh_opt. rewrite all_some_map_Some.
  rewrite <- concat_map_if.
  generalize (bh raw). induction cs as [|c t IH]; intro q; [reflexivity|].
  destruct q as [|y q']; [reflexivity|]. cbn [combine map concat fst snd].
  rewrite IH. reflexivity.
Qed.

(* one undefined (0/0) z-score poisons the adjustment (NaN propagates through the
   running minimum): nothing is reported *)
Theorem bintest_with_nan ps cs alpha : In None ps -> bintest_with ps cs alpha = [].
Proof.
  intro H. unfold bintest_with, bh_opt. rewrite (all_some_None _ H).
  assert (F : Forall (fun o : option Q => o = None) (map (fun _ : option Q => @None Q) ps)).
  { apply Forall_forall. intros o Ho. apply in_map_iff in Ho. now destruct Ho as (? & <- & _). }
  revert F. generalize (map (fun _ : option Q => @None Q) ps).
  induction cs as [|c t IH]; intros l F; [reflexivity|].
  destruct l as [|o l']; [reflexivity|]. inversion F; subst. cbn. now apply IH.
Qed.

Section Phi.
  (* the normal cdf oracle: phi z2 = Phi(-sqrt z2); only its range is used *)
  Variable phi : Q -> Q.
  Hypothesis phi_range : forall z, 0 <= phi z /\ phi z <= 1 # 2.

  Definition raw_p (c : cand) : Q :=
    match cand_z c with Zfin z2 => qmul z_two (phi z2) | _ => 0 end.

  Lemma raw_p_pval c : 0 <= raw_p c /\ raw_p c <= 1.
  Proof.
    unfold raw_p. destruct (cand_z c); try (split; lra).
    rewrite qmul_spec. unfold z_two. destruct (phi_range z2). split; lra.
  Qed.

  Lemma p_of_defined cs : Forall (fun c => cand_z c <> Znan) cs ->
    map (fun c => p_of phi (cand_z c)) cs = map Some (map raw_p cs).
  Proof.
    intro F. rewrite map_map. apply map_ext_in. intros c Hc.
    rewrite Forall_forall in F. specialize (F c Hc). unfold raw_p, p_of.
    destruct (cand_z c); [reflexivity|reflexivity|congruence].
  Qed.

  Lemma raw_pvals cs : pvals (map raw_p cs).
  Proof. apply Forall_forall. intros p Hp. apply in_map_iff in Hp. destruct Hp as (c & <- & _). apply raw_p_pval. Qed.

  (* do_bintest = the tested rows whose BH-adjusted two-sided normal tail probability is
     below alpha, in row order; the adjusted value of row k is the definitional
     q = min 1 (min_{p_j >= p_k} n p_j / #{p <= p_j}) *)
  Theorem do_bintest_spec bins segs alpha target_only :
    let cs := candidates bins segs target_only in
    Forall (fun c => cand_z c <> Znan) cs ->
    do_bintest phi bins segs alpha target_only =
    map hit_of (filter (fun cq => qlt_b (snd cq) alpha) (combine cs (bh (map raw_p cs)))) /\
    (forall k, (k < length cs)%nat ->
       nthq k (bh (map raw_p cs)) == bh_val (map raw_p cs) (raw_p (nth k cs (nth 0 cs (0%nat, mkBin "" 0 0 "" 0 0 None, 0))))).
  Proof.
    intros cs F. split.
    - unfold do_bintest. fold cs. rewrite (p_of_defined cs F). apply bintest_with_spec.
    - intros k Hk. rewrite (bh_is_def (map raw_p cs) (raw_pvals cs) k) by (now rewrite map_length).
      apply bh_val_eq. unfold nthq.
      rewrite (nth_indep (map raw_p cs) 0 (raw_p (nth 0 cs (0%nat, mkBin "" 0 0 "" 0 0 None, 0))))
        by (now rewrite map_length).
      rewrite map_nth. reflexivity.
  Qed.
End Phi.

(* ---- order of the tested rows ------------------------------------------------------- *)
Lemma find_cand_spec i l c : find_cand i l = Some c -> c_idx c = i /\ In c l.
Proof.
  induction l as [|x t IH]; [discriminate|]. cbn [find_cand].
  destruct (Nat.eqb_spec (c_idx x) i) as [E|E].
  - intro H. injection H as <-. split; [exact E|now left].
  - intro H. destruct (IH H) as [H1 H2]. split; [exact H1|now right].
Qed.

Definition has_cand (r : list cand) (ib : tbin) : bool :=
  match find_cand (fst ib) r with Some _ => true | None => false end.

Lemma aligned_rows_order tb r :
  map c_idx (concat (map (fun ib => match find_cand (fst ib) r with Some c => [c] | None => [] end) tb)) =
  map fst (filter (has_cand r) tb).
Proof.
  induction tb as [|ib t IH]; [reflexivity|]. cbn [map concat filter]. unfold has_cand at 1.
  destruct (find_cand (fst ib) r) as [c|] eqn:E.
  - cbn [app map]. rewrite IH. f_equal. now destruct (find_cand_spec _ _ _ E).
  - cbn [app]. exact IH.
Qed.

(* when the residuals cover every bin exactly once (column assignment aligned on the
   index) the tested rows come in the order of the bin table *)
Theorem candidates_table_order bins segs :
  let r := match segs with
           | Some (s :: t) => resid_segments (tagged bins) (s :: t)
           | _ => resid_chromosomes (tagged bins)
           end in
  length r = length (dedupe [] r) -> length (dedupe [] r) = length bins ->
  map c_idx (candidates bins segs false) = map fst (filter (has_cand (dedupe [] r)) (tagged bins)).
Proof.
  intros r H1 H2. unfold candidates. fold r.
  rewrite H1, H2, !Nat.eqb_refl. cbn [andb]. apply aligned_rows_order.
Qed.
