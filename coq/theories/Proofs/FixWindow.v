(* C04_window: a correction replaces each log2 by log2 minus the median of the 2*wing+1 values
   around its position in the covariate order (signal mirrored at the ends); the implementation
   with a padded array and sliding windows refines that statement. *)
From CNV Require Import Base.Prelude Base.Str Base.QNum Model.Chromsort Proofs.ChromsortLemmas
  Proofs.QNumLemmas Model.Smoothing Model.Fix Spec.Fix Proofs.FixLib Proofs.FixBins
  Gen.Params Gen.FixDefaults Gen.DescDefaults.
From Coq Require Import Qround Qabs Setoid Morphisms Psatz.

(* ------------------------------------------------------------------------ *)
(* list indexing                                                               *)

Lemma nth_firstn' {A} (l : list A) d : forall n i, (i < n)%nat -> nth i (firstn n l) d = nth i l d.
Proof.
  induction l as [|x t IH]; intros n i H.
  - rewrite firstn_nil. reflexivity.
  - destruct n; [lia|]. destruct i; cbn; auto. apply IH. lia.
Qed.

Lemma nth_skipn' {A} (l : list A) d : forall n i, nth i (skipn n l) d = nth (n + i) l d.
Proof.
  induction l as [|x t IH]; intros n i.
  - rewrite skipn_nil. destruct i, n; reflexivity.
  - destruct n; cbn; auto.
Qed.

Lemma firstn_skipn_map (y : list Q) : forall k j, (j + k <= length y)%nat ->
  firstn k (skipn j y) = map (fun t => nthq (j + t) y) (seq 0 k).
Proof.
  induction k as [|k IH]; intros j H; [reflexivity|].
  assert (E : skipn j y = nthq j y :: skipn (S j) y).
  { clear IH. revert j H. induction y as [|a y IHy]; intros j H; cbn in H; [lia|].
    destruct j; [reflexivity|]. cbn [skipn]. unfold nthq. cbn [nth]. apply IHy. lia. }
  rewrite E. cbn [firstn]. rewrite (IH (S j)) by lia.
  cbn [seq map]. rewrite Nat.add_0_r. f_equal.
  rewrite <- seq_shift, map_map. apply map_ext. intros t. now rewrite Nat.add_succ_r.
Qed.

(* ------------------------------------------------------------------------ *)
(* the padded array is the mirrored signal                                      *)

Lemma lastn_length {A} (l : list A) w : (w <= length l)%nat -> length (lastn w l) = w.
Proof. intros H. unfold lastn. rewrite skipn_length. lia. Qed.

Lemma pad_length (x : list Q) w : (w <= length x)%nat -> length (pad_array x w) = (w + length x + w)%nat.
Proof.
  intros H. unfold pad_array. rewrite !app_length, !rev_length, firstn_length, (lastn_length x w H), (Nat.min_l _ _ H). lia.
Qed.

Lemma pad_nth (x : list Q) w i : (w <= length x)%nat -> (i < w + length x + w)%nat ->
  nthq i (pad_array x w) = mirror_nth x (Z.of_nat i - Z.of_nat w).
Proof.
  intros Hw Hi. unfold pad_array, mirror_nth, nthq.
  assert (L1 : length (rev (firstn w x)) = w) by (rewrite rev_length, firstn_length; lia).
  destruct (Nat.lt_ge_cases i w) as [C1|C1].
  - rewrite app_nth1 by lia. rewrite rev_nth by (rewrite firstn_length; lia).
    rewrite firstn_length, Nat.min_l by lia. rewrite nth_firstn' by lia.
    destruct (Z.ltb_spec (Z.of_nat i - Z.of_nat w) 0); [|lia].
    f_equal. lia.
  - rewrite app_nth2 by lia. rewrite L1.
    destruct (Z.ltb_spec (Z.of_nat i - Z.of_nat w) 0); [lia|].
    destruct (Nat.lt_ge_cases (i - w) (length x)) as [C2|C2].
    + rewrite app_nth1 by lia.
      destruct (Z.leb_spec (Z.of_nat (length x)) (Z.of_nat i - Z.of_nat w)); [lia|].
      f_equal. lia.
    + rewrite app_nth2 by lia.
      destruct (Z.leb_spec (Z.of_nat (length x)) (Z.of_nat i - Z.of_nat w)); [|lia].
      rewrite rev_nth by (rewrite lastn_length; lia). rewrite lastn_length by lia.
      unfold lastn. rewrite nth_skipn'. f_equal. lia.
Qed.

Theorem rolling_wing_refines (x : list Q) w : (w <= length x)%nat -> rolling_median_wing x w = rolling_spec w x.
Proof.
  intros Hw. unfold rolling_median_wing, rolling_spec, windows. rewrite map_map.
  apply map_ext_in. intros j Hj. apply in_seq in Hj. unfold window_median. f_equal.
  rewrite firstn_skipn_map by (rewrite pad_length; lia).
  apply map_ext_in. intros t Ht. apply in_seq in Ht.
  rewrite pad_nth by lia. f_equal. lia.
Qed.

Lemma rolling_refines (x : list Q) w : (2 <= length x)%nat -> (w <= length x)%nat -> rolling w x = rolling_spec w x.
Proof.
  intros H2 Hw. unfold rolling.
  destruct (Z.ltb_spec (Z.of_nat (length x)) ROLLING_MIN_LEN) as [C|C].
  - unfold ROLLING_MIN_LEN in C. lia.
  - now apply rolling_wing_refines.
Qed.

(* ------------------------------------------------------------------------ *)
(* center_by_window                                                             *)

Lemma StronglySorted_impl {A} (R R' : A -> A -> Prop) l :
  (forall a b, R a b -> R' a b) -> StronglySorted R l -> StronglySorted R' l.
Proof.
  intros H. induction 1 as [|a l S IH F]; constructor; auto.
  eapply Forall_impl; [|exact F]. intros b. apply H.
Qed.

Lemma key_leb_total (a b : Q * brow) : key_leb a b = true \/ key_leb b a = true.
Proof.
  unfold key_leb. destruct (qle_b (fst a) (fst b)) eqn:E; [now left|right].
  apply qle_b_false in E. apply qle_b_iff. apply Qlt_le_weak. exact E.
Qed.

Lemma key_leb_trans (a b c : Q * brow) : key_leb a b = true -> key_leb b c = true -> key_leb a c = true.
Proof.
  unfold key_leb. rewrite !qle_b_iff. intros H1 H2. eapply Qle_trans; eauto.
Qed.

Lemma combine_index {A B} (g : A -> Q -> B) (W : nat -> Q) (a : list A) : forall js, length a = length js ->
  map (fun p => g (fst p) (snd p)) (combine a (map W js)) = map (fun jb => g (snd jb) (W (fst jb))) (combine js a).
Proof.
  induction a as [|x a IH]; intros [|j js] H; cbn in H; try discriminate; cbn; auto.
  f_equal. apply IH. lia.
Qed.

Theorem window_thm perm wing keys l :
  perm_contract perm (length l) -> length keys = length l -> (2 <= length l)%nat -> (wing <= length l)%nat ->
  exists ko : list (Q * brow),
    Permutation ko (combine keys l) /\ cov_sorted ko /\
    center_by_window perm wing keys l = sort_brows (window_corrected wing (map snd ko)).
Proof.
  intros P Hlen H2 Hw. exists (stable_sort key_leb (pick (combine keys l) perm)).
  assert (PK : Permutation (stable_sort key_leb (pick (combine keys l) perm)) (combine keys l)).
  { eapply perm_trans; [apply Permutation_sym, stable_sort_perm|].
    apply pick_perm. rewrite combine_length, Hlen, Nat.min_id. exact P. }
  split; [exact PK|]. split.
  - unfold cov_sorted. eapply StronglySorted_impl; [|apply (stable_sort_sorted key_leb key_leb_total key_leb_trans)].
    intros a b H. unfold key_leb in H. now apply qle_b_iff in H.
  - rewrite cbw_unfold. f_equal. unfold window_corrected. fold (cbw_order perm keys l).
    change (map snd (stable_sort key_leb (pick (combine keys l) perm))) with (cbw_order perm keys l).
    set (order := cbw_order perm keys l).
    assert (Lo : length order = length l).
    { unfold order, cbw_order. rewrite map_length. rewrite (Permutation_length PK), combine_length, Hlen. apply Nat.min_id. }
    rewrite rolling_refines by (rewrite map_length; lia).
    unfold rolling_spec. rewrite map_length.
    apply (combine_index (fun b v => bset_log2 (Qred (blog2 b - v)) b) (window_median wing (map blog2 order)) order).
    now rewrite seq_length.
Qed.

Lemma corrections_def c g e r perm wing l :
  corrections c g e r perm wing l =
  let l1 := if g && has_gc c then center_by_window perm wing (map (fun b => r_gc (snd b)) l) l else l in
  let l2 := if e then center_by_window perm wing (edge_bias l1) l1 else l1 in
  if r && has_rmask c then center_by_window perm wing (map (fun b => r_rmask (snd b)) l2) l2 else l2.
Proof. reflexivity. Qed.
