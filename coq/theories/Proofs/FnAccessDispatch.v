(* C13 source tie of do_access' dispatch on skip_noncanonical.

   cnvlib/access.py  do_access, the statements before the exclude loop:
       fa_regions = get_regions(fa_fname)
       if skip_noncanonical:
           fa_regions = drop_noncanonical_contigs(fa_regions)
   are regenerated as Gen/FnAccessDispatch.v (fn_access_dispatch: WHICH table goes on; tables are opaque ids and
   drop_noncanonical_contigs a function on ids).  Under any reading `tbl` of ids as tables in which that function
   keeps exactly the rows whose name passes the generated name rule, the table that goes on is the model's
   `drop_noncanonical skip` (Model/AccessPipe.v) of the scanned table. *)
From CNV Require Import Base.Prelude Base.Str Gen.FnAccessCanon Gen.FnAccessDispatch Model.Access Model.AccessText Model.AccessPipe
  Proofs.FnAccessCanon.

(* drop_noncanonical_contigs: `(tup for tup in region_tups if is_canonical_contig_name(tup[0]))`, the name rule being
   the generated one *)
Definition drops_by_generated_rule (tbl : Z -> list tagged) (drop_fn : Z -> Z) : Prop :=
  forall id, tbl (drop_fn id) = filter (fun r => fn_is_canonical (noncanonical (t_name r))) (tbl id).

Lemma source_dispatch (tbl : Z -> list tagged) (drop_fn : Z -> Z) (scanned : Z) (skip : bool) :
  drops_by_generated_rule tbl drop_fn ->
  tbl (fn_access_dispatch scanned skip drop_fn) = drop_noncanonical skip (tbl scanned).
Proof.
  intro H. unfold fn_access_dispatch, drop_noncanonical. destruct skip; [|reflexivity].
  rewrite H. apply filter_ext. intro r. apply source_is_canonical.
Qed.

(* skip_noncanonical = False: the scanned table itself goes on, whatever the function does *)
Lemma source_dispatch_keep (drop_fn : Z -> Z) (scanned : Z) :
  fn_access_dispatch scanned false drop_fn = scanned.
Proof. reflexivity. Qed.
