(* C16 loop tie of gene_metrics_by_gene: ONE ITERATION of

       for row in group_by_genes(cnarr, skip_low):
           if abs(row.log2) >= threshold and row.gene:
               yield row

   is regenerated from the Python source on every run as Gen/FnGenesByGene.v (fn_by_gene_step: the
   list of rows -- opaque ids -- the iteration yields).  row.log2 is a float that may be NaN
   (option Q, None = NaN): abs(NaN) is NaN and NaN >= t is False.
   Here: the step yields the row itself exactly when the model's filter keeps it, and running the
   generator -- the step over the rows of group_by_genes, the yields concatenated -- IS Model/Genes.v
   gene_metrics_by_gene. *)
From Coq Require Import Qabs.
From CNV Require Import Base.Prelude Base.Str Gen.FnGenesByGene Model.Genes.

Local Open Scope Z_scope.

(* the model's filter predicate *)
Definition keeps (threshold : Q) (r : grow) : bool :=
  reaches threshold (r_log2 r) && negb (String.eqb (r_gene r) "").

(* one iteration: the row (whatever its identity) is yielded once when kept, not at all otherwise *)
Lemma source_by_gene_step threshold r (id : Z) :
  fn_by_gene_step id (r_log2 r) threshold (r_gene r) = if keeps threshold r then [id] else [].
Proof.
  unfold fn_by_gene_step, keeps, reaches. destruct (r_log2 r) as [x|]; cbn [andb].
  - destruct (Qle_bool threshold (Qabs x)); cbn [andb]; [|reflexivity].
    destruct (negb (String.eqb (r_gene r) "")); reflexivity.
  - reflexivity.
Qed.

(* Python's generator over a step that yields row ids: every id the step yields stands for the row
   of the current iteration (the step is given the id 0 and each yielded id is replaced by the row) *)
Definition run_rows {A} (step : A -> list Z) (rows : list A) : list A :=
  flat_map (fun r => map (fun _ => r) (step r)) rows.

Lemma run_rows_filter {A} (p : A -> bool) (step : A -> list Z) (rows : list A) :
  (forall r, step r = if p r then [0] else []) -> run_rows step rows = filter p rows.
Proof.
  intro H. unfold run_rows. induction rows as [|r t IH]; [reflexivity|].
  cbn [flat_map filter]. rewrite H, IH. destruct (p r); reflexivity.
Qed.

Theorem source_by_gene threshold skip_low rows :
  gene_metrics_by_gene threshold skip_low rows
  = run_rows (fun r => fn_by_gene_step 0 (r_log2 r) threshold (r_gene r)) (group_by_genes skip_low rows).
Proof.
  unfold gene_metrics_by_gene. symmetry.
  apply (run_rows_filter (keeps threshold)). intro r. apply source_by_gene_step.
Qed.
