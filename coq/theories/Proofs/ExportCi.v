(* C20 proofs, CIPOS / CIEND: assign_ci_start_end through the C07 range-query specification,
   the four CI columns of segments2vcf row by row, and their presence in the records. *)
From CNV Require Import Base.Prelude Base.Str Model.Decimal Gen.CallDefaults Gen.ExportDefaults.
From CNV Require Import Model.Call Spec.Call Proofs.Call Model.Export Spec.Export Proofs.ExportLib Proofs.ExportBed.
From CNV Require Import Model.Ranges Spec.RangeQuery Proofs.RangesTables.

Local Open Scope Z_scope.

(* ---------------------------------------------------------------- tables as C07 sees them *)

(* a function of the coordinates only, mapped over the labelled rows *)
Lemma to_trows_map {B} (h : string -> Z -> Z -> B) (i : Z) (l : list (string * Z * Z)) :
  map (fun q : trow => h (fst q) (r_lo (snd q)) (r_hi (snd q))) (to_trows i l)
  = map (fun b : string * Z * Z => h (fst (fst b)) (snd (fst b)) (snd b)) l.
Proof.
  revert i. induction l as [|[[c lo] hi] t IH]; intro i; cbn [to_trows map]; [reflexivity|].
  cbn [fst snd r_lo r_hi]. now rewrite IH.
Qed.

(* the rows of chromosome c overlapping [qs, qe), as (start, end) pairs *)
Lemma outer_rows_pairs (c : string) (qs qe : Z) (i : Z) (bins : list (string * Z * Z)) :
  map (fun r => (r_lo r, r_hi r)) (outer_spec qs qe (rows_of c (to_trows i bins)))
  = map (fun b : string * Z * Z => (snd (fst b), snd b))
        (filter (fun b : string * Z * Z => String.eqb (fst (fst b)) c && (snd (fst b) <? qe) && (qs <? snd b)) bins).
Proof.
  unfold outer_spec, rows_of, of_chrom.
  revert i. induction bins as [|[[c' lo] hi] t IH]; intro i; [reflexivity|].
  cbn [to_trows filter fst snd].
  destruct (String.eqb c' c) eqn:E; cbn [andb].
  - cbn [map filter snd]. unfold overlaps at 1. cbn [r_lo r_hi].
    destruct ((lo <? qe) && (qs <? hi)); cbn [map fst snd r_lo r_hi]; rewrite IH; reflexivity.
  - apply IH.
Qed.

Lemma last_map {A B} (f : A -> B) (l : list A) (d : A) : last (map f l) (f d) = f (last l d).
Proof.
  induction l as [|a [|b t] IH]; cbn [map last] in *; try reflexivity. exact IH.
Qed.

(* the (first bin's end, last bin's start) of a selection *)
Definition ci_of_sel (sel : list row) : option Z * option Z :=
  match sel with
  | [] => (None, None)
  | b :: t => (Some (r_hi b), Some (r_lo (last t b)))
  end.

Definition ci_of_pairs (l : list (Z * Z)) : option Z * option Z :=
  match l with
  | [] => (None, None)
  | b :: t => (Some (snd b), Some (fst (last t b)))
  end.

Lemma ci_of_sel_pairs sel : ci_of_sel sel = ci_of_pairs (map (fun r => (r_lo r, r_hi r)) sel).
Proof.
  destruct sel as [|b t]; [reflexivity|]. cbn [map ci_of_sel ci_of_pairs snd fst].
  rewrite (last_map (fun r => (r_lo r, r_hi r)) t b). reflexivity.
Qed.

Definition sp_ci_pair (bins : list (string * Z * Z)) (s : seg) : option Z * option Z :=
  ci_of_pairs (sp_bins_in bins s).

(* assign_ci_start_end against the C07 specification: for every segment, in table order, the
   end of the first and the start of the last of the bins that OUTER-overlap it on its own
   chromosome -- (None, None) when there is none *)
Lemma assign_ci_answers bins rows :
  table_ok (to_trows 0 bins) -> grouped (to_trows 0 (map seg_region rows)) ->
  assign_ci bins rows
  = map (fun s => ci_of_sel (outer_spec (s_lo s) (s_hi s) (rows_of (s_chrom s) (to_trows 0 bins)))) rows.
Proof.
  intros Hok Hg. unfold assign_ci.
  rewrite (ga_by_ranges_answers _ _ QOuter true Hok Hg). cbn [orb]. rewrite filter_true.
  unfold answers. rewrite map_map.
  transitivity (map (fun q : trow => ci_of_sel (outer_spec (r_lo (snd q)) (r_hi (snd q)) (rows_of (fst q) (to_trows 0 bins))))
                    (to_trows 0 (map seg_region rows))).
  { apply map_ext. intro q. reflexivity. }
  rewrite (to_trows_map (fun c lo hi => ci_of_sel (outer_spec lo hi (rows_of c (to_trows 0 bins)))) 0 (map seg_region rows)).
  rewrite map_map. reflexivity.
Qed.

Lemma assign_ci_spec bins rows :
  table_ok (to_trows 0 bins) -> grouped (to_trows 0 (map seg_region rows)) ->
  assign_ci bins rows = map (sp_ci_pair bins) rows.
Proof.
  intros Hok Hg. rewrite (assign_ci_answers bins rows Hok Hg). apply map_ext. intro s.
  rewrite ci_of_sel_pairs, outer_rows_pairs. reflexivity.
Qed.

(* ---------------------------------------------------------------- the four CI columns *)

Lemma margin_left bins s : osub (fst (sp_ci_pair bins s)) (s_lo s) = sp_left_margin bins s.
Proof. unfold sp_ci_pair, sp_left_margin, ci_of_pairs. destruct (sp_bins_in bins s); reflexivity. Qed.

Lemma margin_right bins s : rsub (s_hi s) (snd (sp_ci_pair bins s)) = sp_right_margin bins s.
Proof. unfold sp_ci_pair, sp_right_margin, ci_of_pairs. destruct (sp_bins_in bins s); reflexivity. Qed.

Local Transparent zip4.

Lemma skipn_S_tl {A} (k : nat) (l : list A) : skipn (S k) l = tl (skipn k l).
Proof.
  revert l. induction k as [|k IH]; intro l.
  - destruct l; reflexivity.
  - destruct l as [|a t]; [reflexivity|]. exact (IH t).
Qed.

Lemma skipn_cons_nth {A} (k : nat) (l : list A) (s : A) (t : list A) (d : A) :
  skipn k l = s :: t -> nth k l d = s.
Proof.
  revert l. induction k as [|k IH]; intros [|a l'] H; cbn [skipn nth] in *; try discriminate.
  - now injection H.
  - now apply IH.
Qed.

Lemma skipn_cons_length {A} (k : nat) (l : list A) (s : A) (t : list A) :
  skipn k l = s :: t -> length l = (k + S (length t))%nat.
Proof.
  revert l. induction k as [|k IH]; intros [|a l'] H; cbn [skipn] in *; try discriminate.
  - now rewrite H.
  - cbn [length]. rewrite (IH l' H). lia.
Qed.

Section Columns.
  Variables (L R : seg -> option Z).

  (* the columns seen as a recursion that carries the previous row's (negated) right margin *)
  Fixpoint ci_go (p : option Z) (l : list seg) : list ciquad :=
    match l with
    | [] => []
    | s :: t => ((p, L s), (R s, match t with [] => Some ci_edge | s' :: _ => L s' end)) :: ci_go (oneg (R s)) t
    end.

  Lemma zip4_go (p : option Z) (l : list seg) :
    l <> [] ->
    zip4 (p :: map oneg (removelast (map R l))) (map L l) (map R l) (tl (map L l) ++ [Some ci_edge])
    = ci_go p l.
  Proof.
    revert p. induction l as [|s t IH]; intros p NE; [congruence|].
    destruct t as [|s' t'].
    - reflexivity.
    - specialize (IH (oneg (R s))). cbn [map removelast tl app zip4 ci_go] in *.
      f_equal. apply IH. discriminate.
  Qed.

  Definition ci_at (rows : list seg) (i : nat) : ciquad :=
    ((match i with O => Some ci_edge | S j => oneg (R (nth j rows dflt_seg)) end, L (nth i rows dflt_seg)),
     (R (nth i rows dflt_seg), if (S i =? length rows)%nat then Some ci_edge else L (nth (S i) rows dflt_seg))).

  Lemma ci_go_nth (rows : list seg) :
    forall (t : list seg) (k : nat),
      skipn k rows = t ->
      ci_go (match k with O => Some ci_edge | S j => oneg (R (nth j rows dflt_seg)) end) t
      = map (ci_at rows) (seq k (length t)).
  Proof.
    induction t as [|s t' IH]; intros k Hk; [reflexivity|].
    pose proof (skipn_cons_length k rows s t' Hk) as Hlen.
    pose proof (skipn_cons_nth k rows s t' dflt_seg Hk) as Hs.
    assert (Hk' : skipn (S k) rows = t').
    { rewrite skipn_S_tl, Hk. reflexivity. }
    assert (Hnext : (if (S k =? length rows)%nat then Some ci_edge else L (nth (S k) rows dflt_seg))
                    = match t' with [] => Some ci_edge | s' :: _ => L s' end).
    { destruct t' as [|s' t''].
      - replace (S k =? length rows)%nat with true; [reflexivity|]. symmetry. apply Nat.eqb_eq. cbn in Hlen. lia.
      - replace (S k =? length rows)%nat with false; [|symmetry; apply Nat.eqb_neq; cbn in Hlen; lia].
        now rewrite (skipn_cons_nth (S k) rows s' t'' dflt_seg Hk'). }
    specialize (IH (S k) Hk'). cbn match in IH. rewrite Hs in IH.
    change (length (s :: t')) with (S (length t')).
    cbn [ci_go seq map]. rewrite IH. f_equal.
    unfold ci_at. rewrite Hs, Hnext. reflexivity.
  Qed.

  Lemma ci_columns_rows (rows : list seg) (ci : list (option Z * option Z)) :
    rows <> [] ->
    map2 (fun s c => osub (fst c) (s_lo s)) rows ci = map L rows ->
    map2 (fun s c => rsub (s_hi s) (snd c)) rows ci = map R rows ->
    ci_columns rows ci = Some (map (fun i => Some (ci_at rows i)) (seq 0 (length rows))).
  Proof.
    intros NE HL HR. unfold ci_columns. destruct rows as [|s0 t0] eqn:E; [congruence|]. rewrite <- E in *.
    rewrite HL, HR. rewrite (zip4_go (Some ci_edge) rows NE).
    rewrite (ci_go_nth rows rows 0%nat eq_refl). now rewrite map_map.
  Qed.
End Columns.

Lemma ci_at_sp bins rows i :
  ci_at (sp_left_margin bins) (sp_right_margin bins) rows i = sp_ci bins rows i.
Proof. unfold ci_at, sp_ci, oneg. change ci_edge with 0. destruct i; reflexivity. Qed.

Lemma ci_columns_spec bins rows :
  rows <> [] ->
  ci_columns rows (map (sp_ci_pair bins) rows)
  = Some (map (fun i => Some (sp_ci bins rows i)) (seq 0 (length rows))).
Proof.
  intro NE.
  rewrite (ci_columns_rows (sp_left_margin bins) (sp_right_margin bins) rows _ NE).
  - apply f_equal. apply map_ext. intro i. now rewrite ci_at_sp.
  - rewrite map2_id_map. apply map_ext. intro s. apply margin_left.
  - rewrite map2_id_map. apply map_ext. intro s. apply margin_right.
Qed.

(* ---------------------------------------------------------------- the records' CI fields *)

(* every record carries the CI entry of its own row *)
Lemma vcf_loop_ci (N X : seg -> Z) (f : seg -> bool) (g : seg -> Z) (l : list seg) :
  forall cis, length cis = length l ->
    map v_ci (vcf_loop l (map N l) (map X l) (map f l) (map g l) cis)
    = select (vcf_keep l (map N l) (map X l)) cis.
Proof.
  induction l as [|s t IH]; intros [|ci cis] Hl; cbn [length] in Hl; try discriminate; [reflexivity|].
  injection Hl as Hl. specialize (IH cis Hl).
  cbn [map vcf_loop vcf_keep select].
  destruct (N s =? X s); cbn [negb andb]; [exact IH|].
  destruct (probes_digit s); cbn [map]; [now rewrite IH | exact IH].
Qed.

Lemma map_nth_seq {A B} (f : A -> B) (d : A) (l : list A) :
  map f l = map (fun i => f (nth i l d)) (seq 0 (length l)).
Proof.
  induction l as [|a t IH]; [reflexivity|].
  cbn [length seq map nth]. f_equal. rewrite map_seq_shift. exact IH.
Qed.

Lemma select_seq {B} (p : seg -> bool) (h : nat -> B) (l : list seg) :
  select (map p l) (map h (seq 0 (length l)))
  = map h (filter (fun i => p (nth i l dflt_seg)) (seq 0 (length l))).
Proof. rewrite (map_nth_seq p dflt_seg l). apply select_map_map. Qed.

Section Records.
  Variables (st : style) (c : cfg) (rows : list seg).
  Hypothesis Hcons : consistent st (seg_first rows).
  Hypothesis Hbuild : build_ok (c_build c).

  Let lb := lower_build (c_build c).
  Let N := sp_ncopies st lb (c_k c) (c_hapx c) (c_female c) (c_has_cn c).
  Let X := sp_expect st lb (c_k c) (c_hapx c) (c_female c).
  Let keeps (s : seg) : bool := sp_variant st lb (c_k c) (c_hapx c) (c_female c) (c_has_cn c) s && sp_numeric s.

  Lemma vcf_keep_spec (l : list seg) : vcf_keep l (map N l) (map X l) = map keeps l.
  Proof.
    induction l as [|s t IH]; [reflexivity|]. cbn [map vcf_keep]. rewrite IH. f_equal.
    unfold keeps, sp_variant, sp_numeric, probes_digit. fold N X.
    destruct (s_probes s) as [p|]; [destruct (0 <=? p)|]; reflexivity.
  Qed.

  (* with a .cnr whose bins are sorted per chromosome, and segments grouped by chromosome:
     the record of the i-th segment carries the (CIPOS, CIEND) the specification states *)
  Lemma vcf_ci_spec sid tid bins recs :
    bins <> [] -> table_ok (to_trows 0 bins) -> grouped (to_trows 0 (map seg_region rows)) ->
    snd (export_vcf c sid tid rows (Some bins)) = VcfOk recs ->
    map v_ci recs
    = map (fun i => Some (sp_ci bins rows i))
          (filter (fun i => keeps (nth i rows dflt_seg)) (seq 0 (length rows))).
  Proof.
    intros NE Hok Hg. unfold export_vcf. cbn [snd]. unfold vcf_ci_source.
    destruct bins as [|b0 bt] eqn:EB; [congruence|]. rewrite <- EB in *.
    rewrite (assign_ci_spec bins rows Hok Hg).
    rewrite (segments2vcf_columns st c rows Hcons Hbuild). cbv zeta.
    rewrite map_length, Nat.eqb_refl. cbn [negb].
    destruct rows as [|s0 t0] eqn:ER; [discriminate|]. rewrite <- ER in *.
    assert (NEr : rows <> []) by (rewrite ER; discriminate).
    rewrite (ci_columns_spec bins rows NEr).
    intro H. injection H as <-.
    fold lb. fold N. fold X.
    rewrite vcf_loop_ci by (now rewrite map_length, seq_length).
    rewrite vcf_keep_spec. apply select_seq.
  Qed.
End Records.

(* the records carry CIPOS / CIEND iff a (non-empty) .cnr is given -- whatever the table *)
Lemma vcf_loop_ci_in (l : list seg) :
  forall nc ex losses svlen cis r,
    In r (vcf_loop l nc ex losses svlen cis) -> In (v_ci r) cis.
Proof.
  induction l as [|s t IH]; intros [|n nc] [|x ex] [|lo losses] [|d svlen] [|ci cis] r; cbn [vcf_loop In]; try tauto.
  destruct (n =? x).
  - intro H. right. eapply IH. exact H.
  - destruct (probes_digit s).
    + intros [<-|H]; [left; reflexivity | right; eapply IH; exact H].
    + intro H. right. eapply IH. exact H.
Qed.

Definition cnr_given (bins : option (list (string * Z * Z))) : bool :=
  match bins with Some (_ :: _) => true | _ => false end.

Lemma vcf_ci_iff c sid tid rows bins recs :
  snd (export_vcf c sid tid rows bins) = VcfOk recs ->
  Forall (fun r => (exists q, v_ci r = Some q) <-> cnr_given bins = true) recs.
Proof.
  unfold export_vcf. cbn [snd]. unfold segments2vcf.
  destruct (build_fails c); [discriminate|].
  assert (Hnone : vcf_ci_source bins rows = None -> cnr_given bins = false).
  { unfold vcf_ci_source, cnr_given. destruct bins as [[|? ?]|]; try reflexivity; discriminate. }
  assert (Hsome : forall cols, vcf_ci_source bins rows = Some cols -> cnr_given bins = true).
  { intro cols. unfold vcf_ci_source, cnr_given. destruct bins as [[|? ?]|]; try reflexivity; discriminate. }
  destruct (vcf_ci_source bins rows) as [cols|] eqn:ES.
  - rewrite (Hsome cols eq_refl).
    destruct (negb (length cols =? length rows)%nat); [discriminate|].
    destruct (ci_columns rows cols) as [cis|] eqn:EC; [|discriminate].
    intro H. injection H as <-. apply Forall_forall. intros r Hr.
    apply vcf_loop_ci_in in Hr.
    unfold ci_columns in EC. destruct rows; [discriminate|]. injection EC as <-.
    apply in_map_iff in Hr. destruct Hr as [q [Hq _]].
    split; [reflexivity | intros _; exists q; now symmetry].
  - rewrite (Hnone eq_refl).
    intro H. injection H as <-. apply Forall_forall. intros r Hr.
    apply vcf_loop_ci_in in Hr. apply in_map_iff in Hr. destruct Hr as [? [Hq _]].
    split; [intros [q Hq']; congruence | discriminate].
Qed.
