(* Proofs for C16, part 8: squash_genes with every field.  For a table whose columns are in the
   order the code assumes (required columns, depth, weight[, probes]) the complete output is, group
   by group of by_gene, the rows of Spec.Genes.squash_rows_of; the summary values stay within the
   range of the group's bins for every summary function meeting the contract est_within. *)
From Coq Require Import Qabs.
From CNV Require Import Base.Prelude Base.Str Base.QNum Gen.Params Gen.GenesDefaults
  Model.Genes Model.Reports Spec.Genes
  Proofs.GenesMap Proofs.Genes Proofs.GenesReports Proofs.GenesGeneral.

Local Open Scope nat_scope.

Section Squash.
Variable est : list Q -> Q.

Lemma bin_cells_canonical hp b : map (bin_cell b) (squash_columns hp) = kept_row hp b.
Proof. destruct hp; reflexivity. Qed.

Lemma squash_values_spec hp name b0 t :
  squash_values est (squash_columns hp) name b0 (b0 :: t) = squashed_row est hp name (b0 :: t).
Proof. destruct hp; reflexivity. Qed.

Lemma squash_group_full_spec hp sa gr :
  squash_group_full est (squash_columns hp) sa gr = squash_rows_of est hp sa gr.
Proof.
  unfold squash_group_full, squash_rows_of. destruct (snd gr) as [|b0 [|b1 t]]; [reflexivity| |].
  - destruct (mem_string (fst gr) ANTITARGET_ALIASES && negb sa); cbn [map]; rewrite bin_cells_canonical; reflexivity.
  - change ANTITARGET_ALIASES with ["Antitarget"%string; "Background"%string].
    destruct (mem_string (fst gr) ["Antitarget"%string; "Background"%string] && negb sa).
    + apply map_ext. intros b. apply bin_cells_canonical.
    + rewrite squash_values_spec. reflexivity.
Qed.

Lemma squash_rows_of_length hp sa gr r :
  In r (squash_rows_of est hp sa gr) -> length r = length (squash_columns hp).
Proof.
  unfold squash_rows_of. destruct (snd gr) as [|b0 [|b1 t]]; [intros []| |].
  - intros [<-|[]]. destruct hp; reflexivity.
  - destruct (mem_string (fst gr) ["Antitarget"%string; "Background"%string] && negb sa).
    + intros Hin. apply in_map_iff in Hin as (b & <- & _). destruct hp; reflexivity.
    + intros [<-|[]]. destruct hp; reflexivity.
Qed.

(* the complete table *)
Lemma squash_genes_full_spec hp ignore sa rows :
  squash_genes_full est (squash_columns hp) ignore sa rows =
  Some (squash_columns hp, flat_map (squash_rows_of est hp sa) (by_gene ignore rows)).
Proof.
  unfold squash_genes_full.
  rewrite (flat_map_ext _ _ (squash_group_full_spec hp sa)).
  set (out := flat_map (squash_rows_of est hp sa) (by_gene ignore rows)).
  assert (Hlen : forallb (fun r => Nat.eqb (length r) (length (squash_columns hp))) out = true).
  { apply forallb_forall. intros r Hr. unfold out in Hr. apply in_flat_map in Hr as (gr & _ & Hr).
    apply Nat.eqb_eq. eapply squash_rows_of_length. exact Hr. }
  rewrite Hlen. reflexivity.
Qed.

(* ---- the summary values lie within the group's range -------------------------------------------------- *)

Hypothesis Hest : est_within est.

Lemma squashed_row_fields hp label first t :
  let own := first :: t in
  exists lg dp wt,
    squashed_row est hp label own =
      [CS (b_chr first); CZ (b_start first); CZ (b_end (last own first)); CS label;
       CQ (Some lg); CQ (Some dp); CQ (Some wt)]
      ++ (if hp then [CZ (sumZ (map b_probes own))] else []) /\
    lg = est (map b_log2 own) /\ dp = est (map b_depth own) /\ wt = est (map b_weight own) /\
    (qmin (map b_log2 own) <= lg <= qmax (map b_log2 own))%Q /\
    (qmin (map b_depth own) <= dp <= qmax (map b_depth own))%Q /\
    (qmin (map b_weight own) <= wt <= qmax (map b_weight own))%Q.
Proof.
  intros own. exists (est (map b_log2 own)), (est (map b_depth own)), (est (map b_weight own)).
  split; [reflexivity|]. repeat split; try reflexivity; apply Hest; discriminate.
Qed.

End Squash.

(* under the precondition: one row per gene of two or more bins, with the gene's coordinates *)
Lemma squash_gene_row est hp sa ign rows g f l :
  mem_string "Antitarget" ign = true -> mem_string "Background" ign = true ->
  real ign g -> gene_span rows g f l -> f < l ->
  exists first,
    nth_error rows f = Some first /\
    squash_rows_of est hp sa (g, slice rows f (S l)) =
      [squashed_row est hp g (slice rows f (S l))] /\
    exists t, slice rows f (S l) = first :: t /\ t <> [].
Proof.
  intros Ha Hb Hg Hsp Hfl. destruct (gene_span_bounds _ _ _ _ Hsp) as [_ Hln].
  destruct Hsp as ((bf & Hf & _) & (bl & Hl & _) & _).
  destruct (slice_first_last _ _ _ _ _ (Nat.lt_le_incl _ _ Hfl) Hf Hl) as (t & Hs & _ & _).
  exists bf. split; [exact Hf|].
  assert (Hlen : length (slice rows f (S l)) = S l - f) by (apply slice_length; lia).
  rewrite Hs in Hlen. destruct t as [|b1 t']; [cbn [length] in Hlen; lia|].
  split.
  - unfold squash_rows_of. cbn [snd fst]. rewrite Hs.
    assert (Hna : mem_string g ["Antitarget"%string; "Background"%string] = false).
    { apply mem_string_notIn. intros [<-|[<-|[]]]; unfold real in Hg; congruence. }
    rewrite Hna. reflexivity.
  - exists (b1 :: t'). split; [exact Hs | discriminate].
Qed.

Lemma squash_gene_row_full est hp sa ignore rows g f l :
  real (full_ignore ignore) g -> gene_span rows g f l -> f < l ->
  exists first,
    nth_error rows f = Some first /\
    squash_rows_of est hp sa (g, slice rows f (S l)) =
      [squashed_row est hp g (slice rows f (S l))] /\
    exists t, slice rows f (S l) = first :: t /\ t <> [].
Proof.
  apply squash_gene_row; [apply full_ignore_anti | apply full_ignore_background].
Qed.
