(* C14 source ties of squash_by_groups' row key and ampdel's closing row filter (cnvlib/segfilters.py), read per
   row and regenerated from the Python source on every run as Gen/FnSegGroups.v:

       change_levels += chrom_col                        (else-branch: the chromosome's ordinal)     fn_group_key
       change_levels += np.concatenate(arm_levels)       (by_arm: the arm's ordinal)                 fn_group_key_arm
       data = cnarr.data.assign(_group=change_levels)
       ...
       return cnarr[(cnarr["cn"] == 0) | (cnarr["cn"] >= 5)]        (ampdel, after squashing)        fn_ampdel_keep

   Here: the first component of Model/Segfilters.v mk_keys (the `_group` column squash_by_groups groups
   by) IS the generated sum, row by row; ampdel_keep IS the generated mask. *)
From CNV Require Import Base.Prelude Model.Segfilters.
From CNV Require Gen.SegfilterDefaults Gen.FnSegGroups.
From Coq Require Import QArith.

Local Open Scope Z_scope.

Lemma source_group_key (a b : Z) :
  FnSegGroups.fn_group_key a b = a + b /\ FnSegGroups.fn_group_key_arm a b = a + b.
Proof. split; reflexivity. Qed.

(* (_group, _g1, _g2) per row, the _group column through the generated statement *)
Fixpoint src_keys (g o g1 g2 : list Z) : list key :=
  match g, o, g1, g2 with
  | a :: g', b :: o', c :: g1', d :: g2' => (FnSegGroups.fn_group_key a b, c, d) :: src_keys g' o' g1' g2'
  | _, _, _, _ => []
  end.

Theorem source_mk_keys (g : list Z) : forall o g1 g2, mk_keys g o g1 g2 = src_keys g o g1 g2.
Proof.
  induction g as [|a g' IH]; intros o g1 g2; [reflexivity|].
  destruct o as [|b o']; [reflexivity|]. destruct g1 as [|c g1']; [reflexivity|].
  destruct g2 as [|d g2']; [reflexivity|].
  cbn [mk_keys src_keys]. rewrite IH. reflexivity.
Qed.

(* squash_by_groups through the generated key *)
Theorem source_squash_by_groups (levels : list (option Q)) (t : list seg) :
  squash_by_groups levels t =
  let names := map chrom t in
  let u := uniq_str names in
  let keys := src_keys (enumerate_changes levels) (map (fun c => index_of c u) names)
                       (enumerate_changes (map cn1 t)) (enumerate_changes (map cn2 t)) in
  map (fun kg => squash_region (snd kg)) (group_by_key (combine keys t)).
Proof. unfold squash_by_groups. cbv zeta. rewrite source_mk_keys. reflexivity. Qed.

Theorem source_ampdel_keep (d : Z) (o : seg) : ampdel_keep o = FnSegGroups.fn_ampdel_keep d (cn o).
Proof. reflexivity. Qed.

Theorem source_apply_ampdel (d : Z) (t : list seg) :
  apply_filter Fampdel t = filter (fun o => FnSegGroups.fn_ampdel_keep d (cn o)) (squashed Fampdel t).
Proof. reflexivity. Qed.
