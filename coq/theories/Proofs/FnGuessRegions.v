(* C12 source tie of antitarget.guess_chromosome_regions [loop ties e3]:

       endpoints = [subarr.end.iat[-1] for _c, subarr in targets.by_chromosome()]
       whole_chroms = GA.from_columns({"chromosome": targets.chromosome.drop_duplicates(),
                                       "start": telomere_size, "end": endpoints})

   read for ONE chromosome of the targets and regenerated from the Python source on every run as Gen/FnGuessRegions.v
   (fn_guess_row: the start and the end the dict display gives the chromosome's row; the entries are located with `ast`,
   the scalar is broadcast, the list `endpoints` gives each chromosome the element computed from its own sub-table,
   whose last `end` is an opaque input).  Here: Model/Antitarget.v guess_regions IS the generated row for every
   chromosome of the targets in first-occurrence order. *)
From CNV Require Import Base.Prelude Base.Str Model.IvRow Model.Target Model.Antitarget.
From CNV Require Gen.FnGuessRegions.

Theorem source_guess_regions (d : Z) (targets : list grow) (telomere : Z) :
  guess_regions targets telomere =
  map (fun c => let '(s, e) := Gen.FnGuessRegions.fn_guess_row telomere (last_end (filter (on c) targets)) d in
                (s, e, (c, EmptyString)))
      (chroms_of targets).
Proof. reflexivity. Qed.
