(* Proofs for C16, part 6: the complete genemetrics table (Model/Reports.v do_genemetrics_full) is the
   table of Spec/Genes.v (genemetrics_table / genemetrics_table_segments): header, row order, every
   cell; the X adjustment reuses C15's Sex.shift_xx and is the PAR-aware +-1 shift of the spec. *)
From Coq Require Import Qabs.
From CNV Require Import Base.Prelude Base.Str Base.QNum Gen.Params Gen.GenesDefaults
  Model.Genes Model.Reports Spec.Genes
  Proofs.GenesMap Proofs.Genes Proofs.GenesReports Proofs.GenesGeneral.
From CNV Require Model.Center Model.Sex.

Local Open Scope nat_scope.

(* ---- list lemmas ---------------------------------------------------------------------------------- *)

Lemma map_combine_map {A B C} (f : A * B -> C) (g : A -> B) (l : list A) :
  map f (combine l (map g l)) = map (fun x => f (x, g x)) l.
Proof. induction l as [|x t IH]; [reflexivity|]. cbn [map combine]. rewrite IH. reflexivity. Qed.

Lemma flat_map_map {A B C} (f : B -> list C) (g : A -> B) (l : list A) :
  flat_map f (map g l) = flat_map (fun x => f (g x)) l.
Proof. induction l as [|x t IH]; [reflexivity|]. cbn [map flat_map]. rewrite IH. reflexivity. Qed.

Lemma map_flat_map {A B C} (f : B -> C) (g : A -> list B) (l : list A) :
  map f (flat_map g l) = flat_map (fun x => map f (g x)) l.
Proof. induction l as [|x t IH]; [reflexivity|]. cbn [flat_map]. rewrite map_app, IH. reflexivity. Qed.

Lemma filter_flat_map {A B} (p : B -> bool) (g : A -> list B) (l : list A) :
  filter p (flat_map g l) = flat_map (fun x => filter p (g x)) l.
Proof. induction l as [|x t IH]; [reflexivity|]. cbn [flat_map]. rewrite filter_app, IH. reflexivity. Qed.

Lemma flat_map_filter_nil {A B} (p : A -> bool) (f : A -> list B) (l : list A) :
  (forall x, p x = false -> f x = []) -> flat_map f l = flat_map f (filter p l).
Proof.
  intros H. induction l as [|x t IH]; [reflexivity|]. cbn [flat_map filter].
  destruct (p x) eqn:E; cbn [flat_map]; rewrite IH; [reflexivity|]. rewrite (H x E). reflexivity.
Qed.

Lemma flat_map_if_filter {A B} (p : A -> bool) (f : A -> list B) (l : list A) :
  flat_map (fun x => if p x then f x else []) l = flat_map f (filter p l).
Proof.
  induction l as [|x t IH]; [reflexivity|]. cbn [flat_map filter].
  destruct (p x); cbn [flat_map app]; rewrite IH; reflexivity.
Qed.

Lemma existsb_and_filter {A} (p q : A -> bool) (l : list A) :
  existsb (fun x => p x && q x) l = existsb q (filter p l).
Proof.
  induction l as [|x t IH]; [reflexivity|]. cbn [existsb filter].
  destruct (p x); cbn [existsb andb orb]; rewrite IH; reflexivity.
Qed.

Lemma existsb_map {A B} (q : B -> bool) (f : A -> B) (l : list A) :
  existsb q (map f l) = existsb (fun x => q (f x)) l.
Proof. induction l as [|x t IH]; [reflexivity|]. cbn [map existsb]. rewrite IH. reflexivity. Qed.

Lemma existsb_ext_in {A} (p q : A -> bool) (l : list A) :
  (forall x, In x l -> p x = q x) -> existsb p l = existsb q l.
Proof.
  intros H. induction l as [|x t IH]; [reflexivity|]. cbn [existsb].
  rewrite (H x (or_introl eq_refl)), IH; [reflexivity|]. intros y Hy. apply H. right. exact Hy.
Qed.

Lemma flat_map_ext_in {A B} (f g : A -> list B) (l : list A) :
  (forall x, In x l -> f x = g x) -> flat_map f l = flat_map g l.
Proof.
  intros H. induction l as [|x t IH]; [reflexivity|]. cbn [flat_map].
  rewrite (H x (or_introl eq_refl)), IH; [reflexivity|]. intros y Hy. apply H. right. exact Hy.
Qed.

Lemma map_eq_nil_iff {A B} (f : A -> B) (l : list A) : map f l = [] <-> l = [].
Proof. destruct l; cbn; split; congruence. Qed.

(* ---- the X adjustment --------------------------------------------------------------------------------- *)

Lemma x_label_conv hd hw rows : Center.x_label (map (to_cbin hd hw) rows) = x_label rows.
Proof. destruct rows as [|b t]; reflexivity. Qed.

Lemma chr_x_filter_conv hd hw build rows b :
  Center.chr_x_filter (map (to_cbin hd hw) rows) build (to_cbin hd hw b) = on_x_nonpar build rows b.
Proof.
  unfold Center.chr_x_filter, on_x_nonpar, x_name. rewrite x_label_conv.
  change (Center.b_chrom (to_cbin hd hw b)) with (b_chr b).
  destruct build as [p|]; [|reflexivity].
  unfold Center.parx_filter. rewrite x_label_conv.
  change (Center.b_chrom (to_cbin hd hw b)) with (b_chr b).
  assert (Hp : Center.in_par (Center.par_x p) (to_cbin hd hw b) = in_par_x p b).
  { unfold Center.in_par, in_par_x. destruct (Center.par_x p) as [[[s1 e1] s2] e2]. reflexivity. }
  rewrite Hp. destruct (String.eqb (b_chr b) (x_label rows)); reflexivity.
Qed.

Lemma set_log2_same b : set_log2 b (b_log2 b) = b.
Proof. destruct b; reflexivity. Qed.

(* Model.Reports.shift_xx_full is C15's Sex.shift_xx on the converted table ... *)
Lemma shift_xx_full_reuses hd hw hap is_xx build rows :
  map (to_cbin hd hw) (shift_xx_full hd hw hap is_xx build rows) =
  Sex.shift_xx hap is_xx build (map (to_cbin hd hw) rows).
Proof.
  unfold shift_xx_full, Sex.shift_xx.
  set (t := map (to_cbin hd hw) rows).
  set (xx := match is_xx with Some true => true | _ => false end).
  assert (Hon : forall c,
    map (to_cbin hd hw)
        (map (fun bc => set_log2 (fst bc) (Center.b_log2 (snd bc)))
             (combine rows (map (fun b => if Center.chr_x_filter t build b then Center.add_log2 c b else b) t))) =
    map (fun b => if Center.chr_x_filter t build b then Center.add_log2 c b else b) t).
  { intros c. unfold t. rewrite !map_map. rewrite map_combine_map.
    apply map_ext. intros b. cbn [fst snd].
    destruct (Center.chr_x_filter (map (to_cbin hd hw) rows) build (to_cbin hd hw b)); destruct b; reflexivity. }
  destruct (xx && hap); [apply Hon|]. destruct (negb xx && negb hap); [apply Hon|].
  unfold t. rewrite map_combine_map. rewrite map_map.
  apply map_ext. intros b. cbn [fst snd]. destruct b; reflexivity.
Qed.

(* ... and is the PAR-aware shift of the specification *)
Lemma shift_xx_full_spec hd hw hap is_xx build rows :
  shift_xx_full hd hw hap is_xx build rows = x_adjusted hap is_xx build rows.
Proof.
  unfold shift_xx_full, Sex.shift_xx, x_adjusted.
  set (xx := match is_xx with Some true => true | _ => false end).
  assert (Hon : forall c,
    map (fun bc => set_log2 (fst bc) (Center.b_log2 (snd bc)))
        (combine rows (map (fun b => if Center.chr_x_filter (map (to_cbin hd hw) rows) build b
                                     then Center.add_log2 c b else b) (map (to_cbin hd hw) rows))) =
    map (fun b => if on_x_nonpar build rows b then set_log2 b (Qred (b_log2 b + c)) else b) rows).
  { intros c. rewrite map_map. rewrite map_combine_map.
    apply map_ext. intros b. cbn [fst snd]. rewrite chr_x_filter_conv.
    destruct (on_x_nonpar build rows b); [reflexivity|]. apply set_log2_same. }
  destruct (xx && hap); [apply Hon|]. destruct (negb xx && negb hap); [apply Hon|].
  rewrite map_combine_map.
  rewrite <- (map_id rows) at 2. apply map_ext. intros b. cbn [fst snd]. apply set_log2_same.
Qed.

(* the basic model's shift_xx (no genome build, sex given) is the same adjustment *)
Lemma shift_xx_basic hap f rows : shift_xx hap f rows = x_adjusted hap (Some f) None rows.
Proof.
  unfold shift_xx, x_adjusted, xx_shift, shift_by, on_x_nonpar, x_name.
  destruct f, hap; cbn [andb negb]; try reflexivity;
    (apply map_ext; intros b; rewrite andb_true_r; reflexivity).
Qed.

(* ---- the named gene groups of by_gene --------------------------------------------------------------------- *)

Definition not_group_ignored (gr : group) : bool := negb (mem_string (fst gr) group_ignore).

Lemma named_geneb_split g :
  named_geneb g = negb (mem_string g (full_ignore IGNORE_GENE_NAMES)) && negb (mem_string g group_ignore).
Proof.
  unfold named_geneb, full_ignore, group_ignore. cbn [app IGNORE_GENE_NAMES ANTITARGET_ALIASES GROUP_IGNORE_LITERALS mem_string].
  destruct (String.eqb g "-"), (String.eqb g "."), (String.eqb g "CGH"), (String.eqb g "Antitarget"),
    (String.eqb g "Background"), (String.eqb g ""); reflexivity.
Qed.

Lemma named_geneb_iff g : named_geneb g = true <-> named_gene g.
Proof. unfold named_geneb, named_gene. apply negb_true_iff. Qed.

Lemma walk_named rows m : forall prev,
  filter not_group_ignored (walk (full_ignore IGNORE_GENE_NAMES) rows prev m) =
  flat_map (fun e => if named_geneb (ge_name e)
                     then [(ge_name e, slice rows (ge_first e) (S (ge_last e)))] else []) m.
Proof.
  assert (Hanti : not_group_ignored (ANTITARGET_NAME, @nil bin) = false) by reflexivity.
  induction m as [|[[g f] l] t IH]; intros prev; cbn [walk flat_map].
  - destruct (prev <? length rows); reflexivity.
  - change (ge_name (g, f, l)) with g. change (ge_first (g, f, l)) with f. change (ge_last (g, f, l)) with l.
    rewrite named_geneb_split.
    destruct (mem_string g (full_ignore IGNORE_GENE_NAMES)) eqn:Eg; cbn [negb andb app]; [apply IH|].
    rewrite filter_app. cbn [filter]. rewrite IH.
    assert (Hgap : forall X : list group, filter not_group_ignored
                     (if prev <? f then [(ANTITARGET_NAME, slice rows prev f)] else []) ++ X = X).
    { intros X. destruct (prev <? f); reflexivity. }
    etransitivity; [apply Hgap|]. unfold not_group_ignored at 1. cbn [fst].
    destruct (mem_string g group_ignore); reflexivity.
Qed.

Lemma by_gene_named rows :
  filter not_group_ignored (by_gene IGNORE_GENE_NAMES rows) = named_groups rows.
Proof.
  rewrite by_gene_order, filter_flat_map. unfold named_groups.
  apply flat_map_ext_in. intros c _. unfold by_gene_chrom.
  rewrite walk_named, gene_map_order. unfold spans_in_order. rewrite flat_map_map.
  reflexivity.
Qed.

Lemma named_groups_nonempty rows gr : In gr (named_groups rows) -> snd gr <> [].
Proof.
  unfold named_groups. intros Hin. apply in_flat_map in Hin as (c & _ & Hin).
  apply in_flat_map in Hin as (g & Hg & Hin).
  destruct (named_geneb g); [|destruct Hin]. destruct Hin as [<-|[]]. cbn [snd].
  set (crows := chrom_rows c rows) in *.
  unfold genes_in_order in Hg. fold (genes_in_order crows) in Hg. rewrite <- gene_map_names in Hg.
  apply in_map_iff in Hg as ([[g' f] l] & Hn & He). change (ge_name (g', f, l)) with g' in Hn. subst g'.
  apply gene_map_sound in He. unfold own_bins. destruct (span_positions _ _ _ _ He) as [<- <-].
  destruct (gene_span_bounds _ _ _ _ He) as [Hfl Hln].
  clearbody crows. intros E. apply (f_equal (@length _)) in E. rewrite slice_length in E by lia. cbn [length] in E. lia.
Qed.

Lemma named_groups_named rows gr : In gr (named_groups rows) -> named_gene (fst gr).
Proof.
  unfold named_groups. intros Hin. apply in_flat_map in Hin as (c & _ & Hin).
  apply in_flat_map in Hin as (g & _ & Hin).
  destruct (named_geneb g) eqn:E; [|destruct Hin]. destruct Hin as [<-|[]]. apply named_geneb_iff. exact E.
Qed.

(* group_by_genes: one row per named gene, on exactly its own bins, in the order of the spec *)
Lemma group_by_genes_spec skip_low rows : group_by_genes skip_low rows = gene_rows_spec skip_low rows.
Proof.
  unfold group_by_genes, gene_rows_spec.
  rewrite (flat_map_filter_nil not_group_ignored).
  - rewrite by_gene_named. apply flat_map_ext_in. intros gr Hin.
    unfold group_rows_of. apply named_groups_named, named_gene_iff in Hin as [_ Hgi].
    rewrite Hgi, group_row_spec. reflexivity.
  - intros gr E. unfold group_rows_of. unfold not_group_ignored in E. apply negb_false_iff in E.
    rewrite E. reflexivity.
Qed.

Lemma groups_raise_spec rows : groups_raise rows = zero_weight_gene rows.
Proof.
  unfold groups_raise, zero_weight_gene, group_raises.
  rewrite (existsb_and_filter not_group_ignored). rewrite by_gene_named.
  apply existsb_ext_in. intros gr Hin. apply named_groups_nonempty in Hin.
  destruct (snd gr); [congruence | reflexivity].
Qed.

Lemma gene_rows_spec_fields skip_low rows r :
  In r (gene_rows_spec skip_low rows) -> r_gene r <> ""%string /\ r_segp r = None.
Proof.
  unfold gene_rows_spec. intros Hin. apply in_flat_map in Hin as (gr & Hgr & Hin).
  destruct (gene_stats skip_low (fst gr) (snd gr)) as [r'|] eqn:E; [|destruct Hin].
  destruct Hin as [<-|[]]. destruct (gene_stats_fields _ _ _ _ E) as (Hg & _ & Hs).
  split; [|exact Hs]. rewrite Hg. apply named_groups_named in Hgr. apply (named_not_anti _ Hgr).
Qed.

Lemma gene_metrics_by_gene_spec threshold skip_low rows :
  gene_metrics_by_gene threshold skip_low rows =
  filter (fun r => reaches threshold (r_log2 r)) (gene_rows_spec skip_low rows).
Proof.
  unfold gene_metrics_by_gene. rewrite group_by_genes_spec. apply filter_ext_in.
  intros r Hin. destruct (gene_rows_spec_fields _ _ _ Hin) as [Hg _].
  apply String.eqb_neq in Hg. rewrite Hg. apply andb_true_r.
Qed.

(* ---- headers and cells ---------------------------------------------------------------------------------------- *)

Lemma cell_of_spec r e c : cell_of (mkFrow r e) c = report_cell r e c.
Proof. reflexivity. Qed.

Lemma append_new_in cols c : In c cols -> append_new cols c = cols.
Proof. intros H. unfold append_new. apply mem_string_In in H. rewrite H. reflexivity. Qed.

Lemma append_new_app cols c : append_new cols c = cols ++ (if mem_string c cols then [] else [c]).
Proof. unfold append_new. destruct (mem_string c cols); [symmetry; apply app_nil_r | reflexivity]. Qed.

Lemma group_cols_spec cols :
  In "end"%string cols -> In "gene"%string cols -> In "log2"%string cols ->
  group_cols cols = cols ++ (if mem_string "probes" cols then [] else ["probes"%string]).
Proof.
  intros He Hg Hl. unfold group_cols. cbn [fold_left].
  change COL_END with "end"%string. change COL_GENE with "gene"%string. change COL_LOG2 with "log2"%string.
  change COL_PROBES with "probes"%string.
  rewrite (append_new_in _ _ He), (append_new_in _ _ Hg), (append_new_in _ _ Hl). apply append_new_app.
Qed.

Lemma has_required_in ccols :
  has_required ccols -> In "end"%string ccols /\ In "gene"%string ccols /\ In "log2"%string ccols.
Proof.
  unfold has_required. rewrite Forall_forall. intros H.
  repeat split; apply H; cbn; tauto.
Qed.

Lemma gene_columns_spec ccols : has_required ccols -> gene_first (group_cols ccols) = gene_table_columns ccols.
Proof.
  intros H. destruct (has_required_in _ H) as (He & Hg & Hl).
  rewrite (group_cols_spec _ He Hg Hl). reflexivity.
Qed.

Lemma empty_header_spec : gene_first CNA_REQUIRED_COLUMNS = empty_header.
Proof. reflexivity. Qed.

(* ---- the complete table without segments ------------------------------------------------------------------------- *)

Lemma min_probes_filter_gene mp (l : list grow) :
  (forall r, In r l -> r_segp r = None) ->
  min_probes_filter mp (map (fun r => mkFrow r []) l) =
  map (fun r => mkFrow r []) (filter (fun r => enough_probes mp (r_probes r)) l).
Proof.
  intros Hs. unfold min_probes_filter, enough_probes. destruct (Z.eqb mp 0) eqn:E0.
  - cbn [orb]. f_equal. symmetry. clear. induction l as [|x t IH]; [reflexivity|]. cbn [filter]. rewrite IH. reflexivity.
  - cbn [orb]. induction l as [|x t IH]; [reflexivity|]. cbn [map filter f_row].
    assert (Hx : n_probes x = r_probes x) by (unfold n_probes; rewrite (Hs x (or_introl eq_refl)); reflexivity).
    rewrite Hx. rewrite IH by (intros r Hr; apply Hs; right; exact Hr).
    destruct (Z.leb mp (r_probes x)); reflexivity.
Qed.

Lemma do_genemetrics_full_by_gene gstat ccols rows o :
  has_required ccols ->
  do_genemetrics_full gstat ccols rows None o =
  genemetrics_table ccols
    (x_adjusted (o_hap o) (female_for_bins gstat o rows) (o_build o) rows)
    (o_threshold o) (o_min_probes o) (o_skip_low o).
Proof.
  intros Hreq. unfold do_genemetrics_full, gm_raises, gm_body, gm_columns, genemetrics_table, adjusted_bins.
  rewrite shift_xx_full_spec.
  set (rows' := x_adjusted (o_hap o) (female_for_bins gstat o rows) (o_build o) rows).
  rewrite groups_raise_spec. destruct (zero_weight_gene rows'); [reflexivity|].
  unfold gene_frows. rewrite gene_metrics_by_gene_spec.
  set (reaching := filter (fun r => reaches (o_threshold o) (r_log2 r)) (gene_rows_spec (o_skip_low o) rows')).
  assert (Hs : forall r, In r reaching -> r_segp r = None).
  { intros r Hr. unfold reaching in Hr. apply filter_In in Hr as [Hr _].
    apply (gene_rows_spec_fields _ _ _ Hr). }
  destruct reaching as [|r0 rest] eqn:Er; [reflexivity|].
  cbn [map]. change (mkFrow r0 [] :: map (fun r => mkFrow r []) rest) with (map (fun r => mkFrow r []) (r0 :: rest)).
  rewrite (min_probes_filter_gene _ _ Hs), (gene_columns_spec _ Hreq).
  unfold render. rewrite map_map. reflexivity.
Qed.

(* ---- the complete table given segments ------------------------------------------------------------------------------ *)

Lemma by_ranges_x_spec rows segs :
  (forall c, bins_sorted (chrom_rows c rows)) ->
  by_ranges_x rows segs =
  map (fun s => (s, bins_of_segment rows (sg_bin s))) (segments_in_order segs).
Proof.
  intros Hsorted. unfold by_ranges_x, segments_in_order, seg_groups.
  rewrite flat_map_map, map_flat_map. apply flat_map_ext_in. intros c _. cbn [fst snd].
  pose proof (assoc_chrom_rows c rows) as Ha.
  assert (Hb : forall s, In s (filter (fun s => String.eqb (seg_chr s) c) segs) ->
                         bins_of_segment rows (sg_bin s) = seg_bins (chrom_rows c rows) (sg_bin s)).
  { intros s Hs. apply filter_In in Hs as [_ Hc]. apply String.eqb_eq in Hc. unfold seg_chr in Hc.
    unfold bins_of_segment. rewrite Hc. symmetry. apply seg_bins_overlaps. apply Hsorted. }
  destruct (assoc_chrom c (by_chromosome rows)) as [crows|].
  - subst crows. apply map_ext_in. intros s Hs. rewrite (Hb s Hs). reflexivity.
  - apply map_ext_in. intros s Hs. rewrite (Hb s Hs), Ha. reflexivity.
Qed.

Lemma seg_columns_spec ccols scols :
  has_required ccols ->
  ~ In "segment_weight"%string (ccols ++ scols) -> ~ In "segment_probes"%string (ccols ++ scols) ->
  gene_first (seg_row_cols ccols scols) = seg_table_columns ccols scols.
Proof.
  intros Hreq Hnw Hnp. destruct (has_required_in _ Hreq) as (He & Hg & Hl).
  unfold seg_row_cols, seg_table_columns.
  change (extra_cols ccols scols) with (copied_columns ccols scols).
  set (base := ccols ++ copied_columns ccols scols).
  assert (Hsub : forall c, In c base -> In c (ccols ++ scols)).
  { intros c Hc. unfold base in Hc. apply in_app_iff in Hc as [Hc|Hc]; apply in_app_iff; [left; exact Hc|].
    right. unfold copied_columns in Hc. apply filter_In in Hc as [Hc _]. exact Hc. }
  rewrite (group_cols_spec base) by (unfold base; apply in_app_iff; left; assumption).
  set (c1 := base ++ (if mem_string "probes" base then [] else ["probes"%string])).
  change COL_WEIGHT with "weight"%string. change COL_PROBES with "probes"%string.
  change COL_SEGMENT_WEIGHT with "segment_weight"%string. change COL_SEGMENT_PROBES with "segment_probes"%string.
  assert (Hc1 : forall c, In c c1 -> In c (ccols ++ scols) \/ c = "probes"%string).
  { intros c Hc. unfold c1 in Hc. apply in_app_iff in Hc as [Hc|Hc]; [left; apply Hsub; exact Hc|].
    destruct (mem_string "probes" base); [destruct Hc|]. destruct Hc as [<-|[]]. right. reflexivity. }
  assert (Hw1 : mem_string "segment_weight" c1 = false).
  { apply mem_string_notIn. intros H. destruct (Hc1 _ H) as [H'|H']; [contradiction | discriminate]. }
  assert (Hp1 : mem_string "segment_probes" c1 = false).
  { apply mem_string_notIn. intros H. destruct (Hc1 _ H) as [H'|H']; [contradiction | discriminate]. }
  destruct (mem_string "weight" scols); destruct (mem_string "probes" scols);
    unfold append_new; rewrite ?Hw1, ?Hp1; rewrite ?mem_string_app, ?Hp1; cbn [mem_string orb String.eqb Ascii.eqb Bool.eqb];
    unfold c1, gene_first, without_gene; rewrite <- ?app_assoc; rewrite ?app_nil_r; reflexivity.
Qed.

Lemma min_probes_filter_seg mp (hp : bool) (l : list frow) :
  (forall r, In r l -> r_segp (f_row r) = if hp then Some (match r_segp (f_row r) with Some p => p | None => 0%Z end) else None) ->
  min_probes_filter mp l =
  filter (fun r => enough_probes mp (if hp then match r_segp (f_row r) with Some p => p | None => 0%Z end
                                      else r_probes (f_row r))) l.
Proof.
  intros Hs. unfold min_probes_filter, enough_probes. destruct (Z.eqb mp 0) eqn:E0; cbn [orb].
  - symmetry. clear. induction l as [|x t IH]; [reflexivity|]. cbn [filter]. rewrite IH. reflexivity.
  - apply filter_ext_in. intros r Hr. specialize (Hs r Hr). unfold n_probes.
    destruct hp; rewrite Hs; reflexivity.
Qed.

Lemma do_genemetrics_full_by_segment gstat ccols rows scols segs o :
  has_required ccols -> segs <> [] ->
  ~ In "segment_weight"%string (ccols ++ scols) -> ~ In "segment_probes"%string (ccols ++ scols) ->
  let rows' := x_adjusted (o_hap o) (female_for_bins gstat o rows) (o_build o) rows in
  let segs' := x_adjusted_segs (o_hap o) (female_for_segs gstat o rows scols (map sg_bin segs)) (o_build o) segs in
  (forall c, bins_sorted (chrom_rows c rows')) ->
  do_genemetrics_full gstat ccols rows (Some (scols, segs)) o =
  genemetrics_table_segments ccols scols rows' segs' (o_threshold o) (o_min_probes o) (o_skip_low o).
Proof.
  intros Hreq Hne Hnw Hnp rows' segs' Hsorted.
  destruct segs as [|s0 sg]; [congruence|].
  unfold do_genemetrics_full, gm_raises, gm_body, gm_columns, genemetrics_table_segments.
  assert (Hrows : adjusted_bins gstat o rows = rows')
    by (unfold adjusted_bins; apply shift_xx_full_spec).
  assert (Hsegs : adjusted_segs gstat o rows scols (s0 :: sg) = segs').
  { unfold adjusted_segs, segs', x_adjusted_segs. rewrite shift_xx_full_spec. reflexivity. }
  rewrite Hrows, Hsegs. rewrite (by_ranges_x_spec rows' segs' Hsorted).
  change COL_WEIGHT with "weight"%string. change COL_PROBES with "probes"%string.
  set (hw := mem_string "weight" scols). set (hp := mem_string "probes" scols).
  set (sio := segments_in_order segs').
  set (reaching := filter (fun s => Qle_bool (o_threshold o) (Qabs (b_log2 (sg_bin s)))) sio).
  (* the error *)
  rewrite existsb_map. cbn [fst snd].
  rewrite (existsb_and_filter (seg_reaches (o_threshold o))).
  change (filter (seg_reaches (o_threshold o)) sio) with reaching.
  rewrite (existsb_ext_in _ (fun s => zero_weight_gene (bins_of_segment rows' (sg_bin s))))
    by (intros s _; apply groups_raise_spec).
  destruct (existsb (fun s => zero_weight_gene (bins_of_segment rows' (sg_bin s))) reaching); [reflexivity|].
  (* the rows *)
  assert (Hbody : seg_frows (o_threshold o) (o_skip_low o) hw hp (extra_cols ccols scols) rows' segs' =
                  flat_map (fun s => map (seg_row hw hp s (copied_columns ccols scols))
                                         (gene_rows_spec (o_skip_low o) (bins_of_segment rows' (sg_bin s))))
                           reaching).
  { unfold seg_frows. rewrite (by_ranges_x_spec rows' segs' Hsorted), flat_map_map. cbn [fst snd].
    fold sio. rewrite (flat_map_if_filter (seg_reaches (o_threshold o))).
    change (filter (seg_reaches (o_threshold o)) sio) with reaching.
    apply flat_map_ext_in. intros s _. rewrite group_by_genes_spec. reflexivity. }
  rewrite Hbody.
  set (body := flat_map (fun s => map (seg_row hw hp s (copied_columns ccols scols))
                                      (gene_rows_spec (o_skip_low o) (bins_of_segment rows' (sg_bin s)))) reaching).
  assert (Hsp : forall r, In r body ->
     r_segp (f_row r) = if hp then Some (match r_segp (f_row r) with Some p => p | None => 0%Z end) else None).
  { intros r Hr. unfold body in Hr. apply in_flat_map in Hr as (s & _ & Hr).
    apply in_map_iff in Hr as (r0 & <- & _). unfold seg_row. cbn [f_row r_segp]. destruct hp; reflexivity. }
  destruct body as [|b0 rest] eqn:Eb; [reflexivity|].
  rewrite (min_probes_filter_seg _ hp _ Hsp), (seg_columns_spec _ _ Hreq Hnw Hnp).
  unfold render. reflexivity.
Qed.

(* ---- the basic model (no genome build, sex given, full segment columns) gives the same rows -------------------------- *)

Definition basic_opts (threshold : Q) (min_probes : Z) (skip_low hap fem : bool) : gm_opts :=
  mkOpts threshold min_probes skip_low hap (Some fem) None.

Lemma full_rows_basic_gene gstat ccols rows th mp sl hap fem :
  map f_row (min_probes_filter mp (gm_body gstat ccols rows None (basic_opts th mp sl hap fem))) =
  do_genemetrics rows None th mp sl hap fem.
Proof.
  unfold gm_body, do_genemetrics, adjusted_bins, basic_opts. cbn [o_threshold o_skip_low o_hap o_build o_female].
  unfold female_for_bins. cbn [o_female]. rewrite shift_xx_full_spec, <- shift_xx_basic.
  unfold gene_frows, min_probes_filter. destruct (Z.eqb mp 0).
  - rewrite map_map. cbn [f_row]. apply map_id.
  - set (l := gene_metrics_by_gene th sl (shift_xx hap fem rows)).
    induction l as [|x t IH]; [reflexivity|]. cbn [map filter f_row].
    destruct (Z.leb mp (n_probes x)); cbn [map f_row]; rewrite IH; reflexivity.
Qed.

Lemma filter_map_comm {A B} (p : B -> bool) (f : A -> B) (l : list A) :
  filter p (map f l) = map f (filter (fun x => p (f x)) l).
Proof.
  induction l as [|x t IH]; [reflexivity|]. cbn [map filter].
  destruct (p (f x)); cbn [map]; rewrite IH; reflexivity.
Qed.

Lemma map_snd_combine {A B} (l : list A) (l' : list B) : length l = length l' -> map snd (combine l l') = l'.
Proof.
  revert l'. induction l as [|x t IH]; intros [|y t'] H; try discriminate; [reflexivity|].
  cbn [combine map snd]. f_equal. apply IH. cbn in H. lia.
Qed.

Lemma x_adjusted_length hap sex build rows : length (x_adjusted hap sex build rows) = length rows.
Proof.
  unfold x_adjusted, shift_by.
  destruct ((match sex with Some true => true | _ => false end) && hap); [apply map_length|].
  destruct (negb (match sex with Some true => true | _ => false end) && negb hap); [apply map_length | reflexivity].
Qed.

Lemma by_ranges_basic rows segs :
  by_ranges rows (map sg_bin segs) = map (fun p => (sg_bin (fst p), snd p)) (by_ranges_x rows segs).
Proof.
  unfold by_ranges, by_ranges_x, seg_groups. rewrite (by_chromosome_order (map sg_bin segs)).
  unfold chroms_in_order. rewrite !map_map, !flat_map_map, map_flat_map.
  change (fun x => b_chr (sg_bin x)) with seg_chr.
  apply flat_map_ext_in. intros c _. cbn [fst snd].
  assert (Hc : chrom_rows c (map sg_bin segs) = map sg_bin (filter (fun s => String.eqb (seg_chr s) c) segs)).
  { unfold chrom_rows. apply filter_map_comm. }
  rewrite Hc. destruct (assoc_chrom c (by_chromosome rows)); rewrite !map_map; reflexivity.
Qed.

Lemma full_rows_basic_seg gstat ccols rows scols segs th mp sl hap fem :
  segs <> [] -> mem_string "weight" scols = true -> mem_string "probes" scols = true ->
  map f_row (min_probes_filter mp (gm_body gstat ccols rows (Some (scols, segs)) (basic_opts th mp sl hap fem))) =
  do_genemetrics rows (Some (map sg_bin segs)) th mp sl hap fem.
Proof.
  intros Hne Hw Hp. destruct segs as [|s0 sg]; [congruence|].
  unfold gm_body, do_genemetrics, basic_opts. cbn [o_threshold o_skip_low o_hap o_build o_female map].
  change (sg_bin s0 :: map sg_bin sg) with (map sg_bin (s0 :: sg)).
  set (S := s0 :: sg).
  change COL_WEIGHT with "weight"%string. change COL_PROBES with "probes"%string. rewrite Hw, Hp.
  assert (Hrows : adjusted_bins gstat (mkOpts th mp sl hap (Some fem) None) rows = shift_xx hap fem rows).
  { unfold adjusted_bins, female_for_bins. cbn [o_female o_hap o_build]. rewrite shift_xx_full_spec. symmetry. apply shift_xx_basic. }
  rewrite Hrows. set (rows' := shift_xx hap fem rows).
  set (S' := adjusted_segs gstat (mkOpts th mp sl hap (Some fem) None) rows scols S).
  assert (Hsegs : map sg_bin S' = shift_xx hap fem (map sg_bin S)).
  { unfold S', adjusted_segs, female_for_segs, female_for_bins. cbn [o_female o_hap o_build].
    rewrite map_map. cbn [reseg sg_bin]. rewrite shift_xx_full_spec.
    change (fun x : seg * bin => snd x) with (@snd seg bin).
    rewrite map_snd_combine by (rewrite x_adjusted_length, map_length; reflexivity).
    symmetry. apply shift_xx_basic. }
  rewrite <- Hsegs.
  assert (Hbody : map f_row (seg_frows th sl true true (extra_cols ccols scols) rows' S') =
                  gene_metrics_by_segment th sl rows' (map sg_bin S')).
  { unfold seg_frows, gene_metrics_by_segment. rewrite by_ranges_basic, flat_map_map, map_flat_map.
    apply flat_map_ext_in. intros [s sub] _. cbn [fst snd]. unfold seg_reaches.
    destruct (Qle_bool th (Qabs (b_log2 (sg_bin s)))); [|reflexivity].
    rewrite map_map. reflexivity. }
  rewrite <- Hbody. unfold min_probes_filter. destruct (Z.eqb mp 0); [reflexivity|].
  set (l := seg_frows th sl true true (extra_cols ccols scols) rows' S').
  induction l as [|x t IH]; [reflexivity|]. cbn [map filter].
  destruct (Z.leb mp (n_probes (f_row x))); cbn [map]; rewrite IH; reflexivity.
Qed.

Lemma own_bins_span rows g f l : gene_span rows g f l -> own_bins g rows = slice rows f (S l).
Proof.
  intros H. unfold own_bins. destruct (span_positions _ _ _ _ H) as [<- <-]. reflexivity.
Qed.

Lemma full_extends_basic gstat ccols rows th mp sl hap fem :
  map f_row (min_probes_filter mp (gm_body gstat ccols rows None (basic_opts th mp sl hap fem))) =
    do_genemetrics rows None th mp sl hap fem /\
  forall scols segs, segs <> [] -> mem_string "weight" scols = true -> mem_string "probes" scols = true ->
    map f_row (min_probes_filter mp (gm_body gstat ccols rows (Some (scols, segs)) (basic_opts th mp sl hap fem))) =
    do_genemetrics rows (Some (map sg_bin segs)) th mp sl hap fem.
Proof.
  split; [apply full_rows_basic_gene|]. intros. apply full_rows_basic_seg; assumption.
Qed.
