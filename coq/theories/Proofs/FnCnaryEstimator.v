(* C15 function-body tie of center_all's estimator dispatch (cnvlib/cnary.py), translated on every run
   (Gen/FnCnaryEstimator.v):

       est_funcs = {"mean": pd.Series.mean, "median": pd.Series.median,
                    "mode": descriptives.modal_location, "biweight": descriptives.biweight_location}
       if isinstance(estimator, str):
           if estimator in est_funcs: estimator = est_funcs[estimator]
           else: raise ValueError(...)

   Model/Center.v's est_of_name / est_fun ARE this dispatch: a name the model knows selects the same one of the four
   library functions (the model's qmean / median / mode_of / biweight stand for them), a callable is used as it is, and
   the names the model rejects are exactly those for which the code raises (`estimator in est_funcs` false). *)
From CNV Require Import Base.Prelude Base.Str Base.QNum Gen.CenterDefaults Model.Center Gen.FnCnaryEstimator.

Theorem fn_center_estimator_name kde s e :
  est_of_name s = Some e ->
  fn_center_estimator (inl s) qmean median (mode_of kde) biweight = est_fun kde e.
Proof.
  unfold est_of_name, fn_center_estimator. intros H.
  destruct (String.eqb s "median") eqn:E1.
  - injection H as <-. apply String.eqb_eq in E1. subst s. reflexivity.
  - destruct (String.eqb s "mean") eqn:E2.
    + injection H as <-. reflexivity.
    + destruct (String.eqb s "biweight") eqn:E3.
      * injection H as <-. apply String.eqb_eq in E3. subst s. reflexivity.
      * destruct (String.eqb s "mode") eqn:E4; [|discriminate].
        injection H as <-. reflexivity.
Qed.

Theorem fn_center_estimator_callable f m1 m2 m3 m4 :
  fn_center_estimator (inr f) m1 m2 m3 m4 = f.
Proof. reflexivity. Qed.

Theorem fn_estimator_known_eq s m1 m2 m3 m4 :
  fn_estimator_known s m1 m2 m3 m4 = match est_of_name s with Some _ => true | None => false end.
Proof.
  unfold fn_estimator_known, est_of_name. cbn [mem_string].
  destruct (String.eqb s "median"), (String.eqb s "mean"), (String.eqb s "biweight"), (String.eqb s "mode"); reflexivity.
Qed.
