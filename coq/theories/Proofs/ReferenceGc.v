(* C05_gc_rmask: calculate_gc_lo counts what the property says. *)
From CNV Require Import Base.Prelude Base.QNum Model.Reference Spec.Reference.
Local Open Scope Z_scope.

Definition ind (p : ascii -> bool) (c : ascii) : Z := if p c then 1 else 0.

Lemma count_as_sum p s : Z.of_nat (length (filter p s)) = sumZ (map (ind p) s).
Proof.
  induction s as [|c t IH]; cbn [filter map sumZ length]; [reflexivity|].
  unfold ind at 1. destruct (p c); cbn [length]; lia.
Qed.

Lemma sumZ_map_add {A} (f g : A -> Z) s :
  sumZ (map f s) + sumZ (map g s) = sumZ (map (fun c => f c + g c) s).
Proof. induction s as [|c t IH]; cbn [map sumZ]; lia. Qed.

Lemma sumZ_map_ext {A} (f g : A -> Z) s : (forall c, f c = g c) -> sumZ (map f s) = sumZ (map g s).
Proof. intros E. induction s as [|c t IH]; cbn [map sumZ]; [reflexivity|]. now rewrite E, IH. Qed.

(* the pointwise facts: checked on all 256 characters *)
Lemma unamb_pointwise c :
  ind (Ascii.eqb "G") c + ind (Ascii.eqb "C") c + (ind (Ascii.eqb "g") c + ind (Ascii.eqb "c") c)
  + (ind (Ascii.eqb "A") c + ind (Ascii.eqb "T") c) + (ind (Ascii.eqb "a") c + ind (Ascii.eqb "t") c)
  = ind is_unambiguous c.
Proof. destruct c as [[] [] [] [] [] [] [] []]; reflexivity. Qed.

Lemma gc_pointwise c :
  ind (Ascii.eqb "g") c + ind (Ascii.eqb "c") c + (ind (Ascii.eqb "G") c + ind (Ascii.eqb "C") c)
  = ind is_gc_base c.
Proof. destruct c as [[] [] [] [] [] [] [] []]; reflexivity. Qed.

Lemma masked_pointwise c :
  ind (Ascii.eqb "a") c + ind (Ascii.eqb "t") c + (ind (Ascii.eqb "g") c + ind (Ascii.eqb "c") c)
  = ind is_masked_base c.
Proof. destruct c as [[] [] [] [] [] [] [] []]; reflexivity. Qed.

Lemma total_count s :
  count_char "G" s + count_char "C" s + (count_char "g" s + count_char "c" s)
  + (count_char "A" s + count_char "T" s) + (count_char "a" s + count_char "t" s)
  = count_if is_unambiguous s.
Proof.
  unfold count_char, count_if. rewrite !count_as_sum, !sumZ_map_add.
  apply sumZ_map_ext, unamb_pointwise.
Qed.

Lemma gc_count s :
  count_char "g" s + count_char "c" s + (count_char "G" s + count_char "C" s) = count_if is_gc_base s.
Proof.
  unfold count_char, count_if. rewrite !count_as_sum, !sumZ_map_add.
  apply sumZ_map_ext, gc_pointwise.
Qed.

Lemma masked_count s :
  count_char "a" s + count_char "t" s + (count_char "g" s + count_char "c" s) = count_if is_masked_base s.
Proof.
  unfold count_char, count_if. rewrite !count_as_sum, !sumZ_map_add.
  apply sumZ_map_ext, masked_pointwise.
Qed.

Local Open Scope Q_scope.

Lemma gc_lo_spec s :
  fst (gc_lo s) == gc_fraction s /\ snd (gc_lo s) == rmask_fraction s.
Proof.
  unfold gc_lo, gc_fraction, rmask_fraction, fraction.
  rewrite total_count, gc_count, masked_count.
  destruct (count_if is_unambiguous s =? 0)%Z; cbn [fst snd]; split; try reflexivity; apply Qred_correct.
Qed.

Lemma bin_gc_lo_spec s start stop :
  fst (bin_gc_lo s start stop) == gc_fraction (bases_of s start stop) /\
  snd (bin_gc_lo s start stop) == rmask_fraction (bases_of s start stop).
Proof. apply gc_lo_spec. Qed.

(* the extracted bases are the ones of the bin *)
Lemma bases_of_nth {A} (s : list A) start stop i d :
  (0 <= start)%Z -> (i < Z.to_nat (stop - start))%nat ->
  nth i (bases_of s start stop) d = nth (Z.to_nat start + i) s d.
Proof.
  intros Hs Hi. unfold bases_of.
  revert i Hi. generalize (Z.to_nat (stop - start)) as n. generalize (Z.to_nat start) as k.
  intros k n i Hi.
  rewrite <- (firstn_skipn k s) at 2.
  destruct (Nat.le_gt_cases (length s) k) as [Hk|Hk].
  - rewrite skipn_all2 by exact Hk. rewrite firstn_nil. cbn.
    rewrite firstn_all2 by exact Hk. rewrite app_nil_r.
    destruct i; cbn; rewrite nth_overflow; auto; lia.
  - rewrite app_nth2 by (rewrite firstn_length; lia).
    rewrite firstn_length, Nat.min_l by lia.
    replace (k + i - k)%nat with i by lia.
    generalize (skipn k s) as l. intros l. revert i Hi l.
    induction n as [|n IH]; intros i Hi l; [lia|].
    destruct l as [|x l]; [destruct i; reflexivity|].
    destruct i as [|i]; cbn; [reflexivity|]. apply IH. lia.
Qed.


(* ---- the gc / rmask columns of the pooled reference ---------------------------------------------------------- *)
From CNV Require Import Base.Str Model.Chromsort Model.Center Proofs.ChromsortLemmas.
Local Open Scope Q_scope.
Definition bin_seq (seq_of : string -> list ascii) (b : bin) : list ascii :=
  bases_of (seq_of (b_chrom b)) (b_start b) (b_end b).

Definition fa_gc (seq_of : string -> list ascii) (b : bin) : Q :=
  fst (bin_gc_lo (seq_of (b_chrom b)) (b_start b) (b_end b)).
Definition fa_rmask (seq_of : string -> list ascii) (b : bin) : Q :=
  snd (bin_gc_lo (seq_of (b_chrom b)) (b_start b) (b_end b)).

Lemma fa_gc_spec seq_of b : fa_gc seq_of b == gc_fraction (bin_seq seq_of b).
Proof. apply bin_gc_lo_spec. Qed.
Lemma fa_rmask_spec seq_of b : fa_rmask seq_of b == rmask_fraction (bin_seq seq_of b).
Proof. apply bin_gc_lo_spec. Qed.

Definition col_of (f : option (bin -> Q)) (bins : list bin) : option (list Q) :=
  option_map (fun g => map g bins) f.

Lemma block_gc_fasta seq_of fix_gc fix_rmask gcf bins :
  block_gc (Some seq_of) fix_gc fix_rmask gcf bins = col_of (if fix_gc then Some (fa_gc seq_of) else None) bins.
Proof.
  unfold block_gc, col_of, fa_stats. destruct fix_gc; cbn [option_map].
  - rewrite orb_true_r, map_map. reflexivity.
  - destruct fix_rmask; reflexivity.
Qed.

Lemma block_rmask_fasta seq_of fix_gc fix_rmask bins :
  block_rmask (Some seq_of) fix_gc fix_rmask bins = col_of (if fix_rmask then Some (fa_rmask seq_of) else None) bins.
Proof.
  unfold block_rmask, col_of, fa_stats. destruct fix_rmask; cbn [option_map orb].
  - rewrite map_map. reflexivity.
  - destruct fix_gc; reflexivity.
Qed.

Lemma block_gc_nofasta fix_gc fix_rmask gcf bins :
  block_gc None fix_gc fix_rmask gcf bins = if fix_gc then gcf else None.
Proof. reflexivity. Qed.

Lemma block_rmask_nofasta fix_gc fix_rmask bins : block_rmask None fix_gc fix_rmask bins = None.
Proof. reflexivity. Qed.

Lemma In_gc_rows_fn (fg fr : option (bin -> Q)) bins r :
  In r (gc_rows bins (col_of fg bins) (col_of fr bins)) ->
  In (g_bin r) bins /\ g_gc r = option_map (fun f => f (g_bin r)) fg /\
  g_rmask r = option_map (fun f => f (g_bin r)) fr.
Proof.
  unfold gc_rows, col_of.
  assert (G : forall l,
    In r (map (fun p : bin * option Q * option Q => mkGc (fst (fst p)) (snd (fst p)) (snd p))
              (combine (combine l (opt_col (length l) (option_map (fun g => map g l) fg)))
                       (opt_col (length l) (option_map (fun g => map g l) fr)))) ->
    In (g_bin r) l /\ g_gc r = option_map (fun f => f (g_bin r)) fg /\
    g_rmask r = option_map (fun f => f (g_bin r)) fr).
  { induction l as [|b t IH]; [cbn; intros []|].
    destruct fg as [f|], fr as [h|]; cbn [option_map opt_col length repeat map combine] in *;
      (intros [<-|H]; [cbn; auto|destruct (IH H) as (H1 & H2 & H3); split; [right; exact H1|split; assumption]]). }
  apply G.
Qed.

Lemma combine_fst_len {A B} (l : list A) (l' : list B) : length l = length l' -> map fst (combine l l') = l.
Proof. revert l'. induction l as [|a l IH]; intros [|b l'] H; cbn in *; try congruence. f_equal. apply IH. lia. Qed.

Lemma gc_rows_bins g r bins :
  (forall l, g = Some l -> length l = length bins) -> (forall l, r = Some l -> length l = length bins) ->
  map g_bin (gc_rows bins g r) = bins.
Proof.
  intros Hg Hr. unfold gc_rows. rewrite map_map. cbn [g_bin].
  assert (L1 : length (opt_col (length bins) g) = length bins).
  { destruct g as [l|]; cbn; [rewrite map_length; now apply Hg|apply repeat_length]. }
  assert (L2 : length (opt_col (length bins) r) = length bins).
  { destruct r as [l|]; cbn; [rewrite map_length; now apply Hr|apply repeat_length]. }
  rewrite <- (map_map fst fst). rewrite combine_fst_len by (rewrite combine_length; lia).
  apply combine_fst_len. lia.
Qed.

(* with a FASTA: gc (when do_gc) is the G+C fraction of the unambiguous bases of the bin's own sequence, in both
   blocks; rmask (when do_rmask) is the lowercase fraction, for the antitarget bins only -- the target bins of a
   pooled reference hold NaN there *)
Theorem pool_gc_fasta seq_of do_gc do_rmask tbins abins tgc agc r :
  In r (snd (pool_gc (Some seq_of) do_gc do_rmask tbins abins tgc agc)) ->
  In (g_bin r) (tbins ++ abins) /\
  (if do_gc then exists g, g_gc r = Some g /\ g == gc_fraction (bin_seq seq_of (g_bin r)) else g_gc r = None) /\
  match g_rmask r with
  | Some m => do_rmask = true /\ In (g_bin r) abins /\ m == rmask_fraction (bin_seq seq_of (g_bin r))
  | None => do_rmask = false \/ In (g_bin r) tbins
  end.
Proof.
  unfold pool_gc. cbv zeta. rewrite !block_gc_fasta, !block_rmask_fasta.
  assert (T : In r (gc_rows tbins (col_of (if do_gc then Some (fa_gc seq_of) else None) tbins) (col_of None tbins)) ->
              In (g_bin r) tbins /\
              (if do_gc then exists g, g_gc r = Some g /\ g == gc_fraction (bin_seq seq_of (g_bin r)) else g_gc r = None) /\
              g_rmask r = None).
  { intros H. apply In_gc_rows_fn in H as (H1 & H2 & H3). split; [exact H1|]. split; [|exact H3].
    destruct do_gc; cbn in H2; [|exact H2]. eexists. split; [exact H2|apply fa_gc_spec]. }
  assert (A : In r (gc_rows abins (col_of (if do_gc then Some (fa_gc seq_of) else None) abins)
                            (col_of (if do_rmask then Some (fa_rmask seq_of) else None) abins)) ->
              In (g_bin r) abins /\
              (if do_gc then exists g, g_gc r = Some g /\ g == gc_fraction (bin_seq seq_of (g_bin r)) else g_gc r = None) /\
              (if do_rmask then exists m, g_rmask r = Some m /\ m == rmask_fraction (bin_seq seq_of (g_bin r))
               else g_rmask r = None)).
  { intros H. apply In_gc_rows_fn in H as (H1 & H2 & H3). split; [exact H1|]. split.
    - destruct do_gc; cbn in H2; [|exact H2]. eexists. split; [exact H2|apply fa_gc_spec].
    - destruct do_rmask; cbn in H3; [|exact H3]. eexists. split; [exact H3|apply fa_rmask_spec]. }
  assert (FT : In r (gc_rows tbins (col_of (if do_gc then Some (fa_gc seq_of) else None) tbins) (col_of None tbins)) ->
    In (g_bin r) (tbins ++ abins) /\
    (if do_gc then exists g, g_gc r = Some g /\ g == gc_fraction (bin_seq seq_of (g_bin r)) else g_gc r = None) /\
    match g_rmask r with
    | Some m => do_rmask = true /\ In (g_bin r) abins /\ m == rmask_fraction (bin_seq seq_of (g_bin r))
    | None => do_rmask = false \/ In (g_bin r) tbins
    end).
  { intros H. destruct (T H) as (H1 & H2 & H3). split; [apply in_or_app; now left|]. split; [exact H2|].
    rewrite H3. now right. }
  destruct abins as [|a0 abins'].
  - cbn [snd]. intros H. apply sort_regions_In in H. rewrite app_nil_r in *. apply FT. exact H.
  - cbn [snd]. intros H. apply sort_regions_In in H. apply in_app_or in H as [H|H]; [now apply FT|].
    destruct (A H) as (H1 & H2 & H3). split; [apply in_or_app; now right|]. split; [exact H2|].
    destruct do_rmask.
    + destruct H3 as (m & -> & Hm). auto.
    + rewrite H3. now left.
Qed.

(* without a FASTA: no rmask column; the gc column of a block is the gc column of its first file (when do_gc and
   the file has one), row for row *)
Theorem pool_gc_nofasta do_gc do_rmask tbins abins tgc agc :
  snd (pool_gc None do_gc do_rmask tbins abins tgc agc) =
  sort_regions (fun r => bin_proj (g_bin r))
    (gc_rows tbins (if do_gc then tgc else None) None ++
     match abins with [] => [] | _ => gc_rows abins (if do_gc then agc else None) None end) /\
  snd (fst (pool_gc None do_gc do_rmask tbins abins tgc agc)) = false.
Proof.
  unfold pool_gc. cbv zeta. rewrite !block_gc_nofasta, !block_rmask_nofasta.
  destruct abins; cbn [fst snd is_some_col orb]; rewrite ?app_nil_r; split; reflexivity.
Qed.
