(* C05_gc_rmask: calculate_gc_lo counts what the property says. *)
From CNV Require Import Base.Prelude Base.QNum Model.Reference Spec.Reference.
Local Open Scope Z_scope.

Definition ind (p : ascii -> bool) (c : ascii) : Z := if p c then 1 else 0.

Lemma count_as_sum p s : Z.of_nat (length (filter p s)) = sumZ (map (ind p) s).
Proof.
  induction s as [|c t IH]; cbn [filter map sumZ length]; [reflexivity|].
  unfold ind at 1. destruct (p c); cbn [length]; lia.
Qed.

Lemma sumZ_map_add {A} (f g : A -> Z) s :
  sumZ (map f s) + sumZ (map g s) = sumZ (map (fun c => f c + g c) s).
Proof. induction s as [|c t IH]; cbn [map sumZ]; lia. Qed.

Lemma sumZ_map_ext {A} (f g : A -> Z) s : (forall c, f c = g c) -> sumZ (map f s) = sumZ (map g s).
Proof. intros E. induction s as [|c t IH]; cbn [map sumZ]; [reflexivity|]. now rewrite E, IH. Qed.

(* the pointwise facts: checked on all 256 characters *)
Lemma unamb_pointwise c :
  ind (Ascii.eqb "G") c + ind (Ascii.eqb "C") c + (ind (Ascii.eqb "g") c + ind (Ascii.eqb "c") c)
  + (ind (Ascii.eqb "A") c + ind (Ascii.eqb "T") c) + (ind (Ascii.eqb "a") c + ind (Ascii.eqb "t") c)
  = ind is_unambiguous c.
Proof. destruct c as [[] [] [] [] [] [] [] []]; reflexivity. Qed.

Lemma gc_pointwise c :
  ind (Ascii.eqb "g") c + ind (Ascii.eqb "c") c + (ind (Ascii.eqb "G") c + ind (Ascii.eqb "C") c)
  = ind is_gc_base c.
Proof. destruct c as [[] [] [] [] [] [] [] []]; reflexivity. Qed.

Lemma masked_pointwise c :
  ind (Ascii.eqb "a") c + ind (Ascii.eqb "t") c + (ind (Ascii.eqb "g") c + ind (Ascii.eqb "c") c)
  = ind is_masked_base c.
Proof. destruct c as [[] [] [] [] [] [] [] []]; reflexivity. Qed.

Lemma total_count s :
  count_char "G" s + count_char "C" s + (count_char "g" s + count_char "c" s)
  + (count_char "A" s + count_char "T" s) + (count_char "a" s + count_char "t" s)
  = count_if is_unambiguous s.
Proof.
  unfold count_char, count_if. rewrite !count_as_sum, !sumZ_map_add.
  apply sumZ_map_ext, unamb_pointwise.
Qed.

Lemma gc_count s :
  count_char "g" s + count_char "c" s + (count_char "G" s + count_char "C" s) = count_if is_gc_base s.
Proof.
  unfold count_char, count_if. rewrite !count_as_sum, !sumZ_map_add.
  apply sumZ_map_ext, gc_pointwise.
Qed.

Lemma masked_count s :
  count_char "a" s + count_char "t" s + (count_char "g" s + count_char "c" s) = count_if is_masked_base s.
Proof.
  unfold count_char, count_if. rewrite !count_as_sum, !sumZ_map_add.
  apply sumZ_map_ext, masked_pointwise.
Qed.

Local Open Scope Q_scope.

Lemma gc_lo_spec s :
  fst (gc_lo s) == gc_fraction s /\ snd (gc_lo s) == rmask_fraction s.
Proof.
  unfold gc_lo, gc_fraction, rmask_fraction, fraction.
  rewrite total_count, gc_count, masked_count.
  destruct (count_if is_unambiguous s =? 0)%Z; cbn [fst snd]; split; try reflexivity; apply Qred_correct.
Qed.

Lemma bin_gc_lo_spec s start stop :
  fst (bin_gc_lo s start stop) == gc_fraction (bases_of s start stop) /\
  snd (bin_gc_lo s start stop) == rmask_fraction (bases_of s start stop).
Proof. apply gc_lo_spec. Qed.

(* the extracted bases are the ones of the bin *)
Lemma bases_of_nth {A} (s : list A) start stop i d :
  (0 <= start)%Z -> (i < Z.to_nat (stop - start))%nat ->
  nth i (bases_of s start stop) d = nth (Z.to_nat start + i) s d.
Proof.
  intros Hs Hi. unfold bases_of.
  revert i Hi. generalize (Z.to_nat (stop - start)) as n. generalize (Z.to_nat start) as k.
  intros k n i Hi.
  rewrite <- (firstn_skipn k s) at 2.
  destruct (Nat.le_gt_cases (length s) k) as [Hk|Hk].
  - rewrite skipn_all2 by exact Hk. rewrite firstn_nil. cbn.
    rewrite firstn_all2 by exact Hk. rewrite app_nil_r.
    destruct i; cbn; rewrite nth_overflow; auto; lia.
  - rewrite app_nth2 by (rewrite firstn_length; lia).
    rewrite firstn_length, Nat.min_l by lia.
    replace (k + i - k)%nat with i by lia.
    generalize (skipn k s) as l. intros l. revert i Hi l.
    induction n as [|n IH]; intros i Hi l; [lia|].
    destruct l as [|x l]; [destruct i; reflexivity|].
    destruct i as [|i]; cbn; [reflexivity|]. apply IH. lia.
Qed.

