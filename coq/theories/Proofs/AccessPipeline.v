(* C13_pipeline: the per-sequence pipeline join_regions g (exclude_all runs excls) is total
   and correct for well-formed runs (in particular the scanner's) and exclude tables of
   valid rows sorted by start. *)
From CNV Require Import Base.Prelude Base.Str Model.IvRow Model.Intervals Model.Access Model.AccessPipe
  Spec.Regions Spec.Cover Spec.Runs Proofs.IvCover Proofs.IvSubtract Proofs.Access Proofs.AccessJoin
  Proofs.AccessPipe Proofs.AccessPipeLib.

(* an exclude table as one sequence sees it: rows of positive length, sorted by start *)
Definition excl_ok (ex : list (Z * Z)) : Prop := excl_valid ex /\ sorted_lo (to_rows ex).

(* the kept bases: in a run and in no exclude region *)
Definition kept (runs : list (Z * Z)) (excls : list (list (Z * Z))) (x : Z) : Prop :=
  cov runs x /\ Forall (fun ex => ~ cov ex x) excls.

Lemma excl_ok_valid excls : Forall excl_ok excls -> Forall excl_valid excls.
Proof. apply Forall_impl. intros ex [H _]. exact H. Qed.

Lemma excl_ok_sorted excls : Forall excl_ok excls -> Forall (fun ex => sorted_lo (to_rows ex)) excls.
Proof. apply Forall_impl. intros ex [_ H]. exact H. Qed.

(* (a) the exclusion result is well-formed for join and covers exactly the kept bases *)
Theorem exclude_all_correct runs excls p :
  wf_regions p runs -> Forall excl_ok excls ->
  wf_regions p (exclude_all runs excls) /\
  forall x, cov (exclude_all runs excls) x <-> kept runs excls x.
Proof.
  intros Hwf Hex. split.
  - apply exclude_all_wf; auto using excl_ok_valid.
  - intros x. apply exclude_all_cov. now apply excl_ok_sorted.
Qed.

Lemma join_regions_first g rows r :
  wf_regions (-1) rows -> join_regions g rows = Some r ->
  match r with [] => True | (a, _) :: _ => 0 <= a end.
Proof.
  destruct rows as [|[s e] t]; cbn [join_regions]; intros Hwf H.
  - injection H as <-. exact I.
  - cbn in Hwf. destruct Hwf as (H1 & H2 & H3).
    destruct (join_from_head g t s e r H H3) as (pe' & r0 & -> & _). lia.
Qed.

(* (b) the whole per-sequence pipeline *)
Theorem access_sequence_correct g runs excls :
  wf_regions (-1) runs -> Forall excl_ok excls ->
  exists r, access_sequence g runs excls = Some r /\
    (forall x, cov r x <-> kept runs excls x \/ small_gap (kept runs excls) g x) /\
    match r with
    | [] => forall x, ~ kept runs excls x
    | (a, b) :: t => 0 <= a < b /\ sep_from (Z.max 1 g) b t
    end.
Proof.
  intros Hwf Hex.
  destruct (exclude_all_correct runs excls (-1) Hwf Hex) as [Hwf' Hcov].
  unfold access_sequence.
  destruct (join_regions_ok g _ Hwf') as (r & Hr). exists r. split; [exact Hr|]. split.
  - intros x. rewrite (join_regions_cover g _ r Hwf' Hr x), Hcov.
    destruct (exclude_all runs excls) as [|[s e] t] eqn:E.
    + split; [intros [H|[]]; now left|].
      intros [H|Hg]; [now left|]. exfalso.
      destruct Hg as (a & b & _ & _ & Hk & _). apply Hcov in Hk. now apply cov_nil in Hk.
    + cbn in Hwf'. destruct Hwf' as (H1 & H2 & H3).
      rewrite (bridged_small_gap g t s e x H2 H3).
      split; (intros [H|H]; [now left|right]); eapply small_gap_ext; try exact H; intros y; [|symmetry]; apply Hcov.
  - pose proof (join_regions_sep g _ r Hwf' Hr) as Hs.
    pose proof (join_regions_first g _ r Hwf' Hr) as Hf.
    destruct r as [|[a b] t].
    + intros x Hk. apply Hcov in Hk. rewrite Hs in Hk. now apply cov_nil in Hk.
    + destruct Hs as [Hab Hsep]. repeat split; auto; lia.
Qed.

(* with min_gap_size 0 (or None, or negative) nothing is bridged: the cover is the kept set *)
Corollary access_sequence_nogap g runs excls :
  g <= 0 -> wf_regions (-1) runs -> Forall excl_ok excls ->
  exists r, access_sequence g runs excls = Some r /\ forall x, cov r x <-> kept runs excls x.
Proof.
  intros Hg Hwf Hex. destruct (access_sequence_correct g runs excls Hwf Hex) as (r & Hr & Hc & _).
  exists r. split; [exact Hr|]. intros x. rewrite Hc. split; [|now left].
  intros [H|H]; [exact H|]. now apply small_gap_nonpos in H.
Qed.

(* the pipeline on the scanner's output: runs of the sequence s *)
Definition kept_seq (s : list ascii) (excls : list (list (Z * Z))) (x : Z) : Prop :=
  nonN_at isN_ascii s x /\ Forall (fun ex => ~ cov ex x) excls.

Theorem access_sequence_scanned g (s : list ascii) excls :
  Forall excl_ok excls ->
  exists r, access_sequence g (runs isN_ascii s) excls = Some r /\
    (forall x, cov r x <-> kept_seq s excls x \/ small_gap (kept_seq s excls) g x) /\
    match r with
    | [] => forall x, ~ kept_seq s excls x
    | (a, b) :: t => 0 <= a < b /\ sep_from (Z.max 1 g) b t
    end.
Proof.
  intros Hex.
  assert (Hk : forall y, kept (runs isN_ascii s) excls y <-> kept_seq s excls y).
  { intros y. unfold kept, kept_seq. now rewrite (runs_cover isN_ascii). }
  destruct (access_sequence_correct g (runs isN_ascii s) excls (runs_sep isN_ascii s) Hex) as (r & Hr & Hc & Hs).
  exists r. split; [exact Hr|]. split.
  - intros x. rewrite Hc, Hk. split; (intros [H|H]; [now left|right]); eapply small_gap_ext; try exact H; intros y; [|symmetry]; apply Hk.
  - destruct r as [|[a b] t]; [|exact Hs]. intros x Hx. apply (Hs x). now apply Hk.
Qed.
