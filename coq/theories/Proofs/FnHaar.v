(* C11 source tie of the HaarSeg loops: ONE ITERATION of the loops of cnvlib/segmentation/haar.py is regenerated
   from the Python source on every run (tools/fnspecs/haar.py -> Gen/FnHaarConv.v, FnHaarSegs.v, FnHaarUnify.v,
   FnHaarPulse.v).  Here: what the hand-written recursions of Model/Haar.v do with one element IS the generated
   step, and hence each recursion is the generated step iterated.

     HaarConv        for k in range(1, signalSize):   mirrored highEnd / lowEnd, result[k] (weight is None);
                                                      the four running sums and result[k] (weighted)  conv_u_loop, conv_w_loop
     SegmentByPeaks  for seg_start, seg_end in zip(): which mean; segs[seg_start:seg_end] = val    seg_mean, fill_from
     UnifyLevels     last_pos = baseLevel[-1] + windowSize if len(baseLevel) else -1             unify_levels
     PulseConv       for k in range(pulseSize // 2, ...): mirrored head / tail, result[n], n += 1     pulse_loop

   Array reads are parameters of the generated steps (keyed by their source expression): every theorem says
   which element of the model's list is passed, at the index the generated step itself computes.  The generated
   steps compute on unreduced rationals, the model reduces after each operation: the tie is `Qred (generated)`.
   A store `result[k] = e` is the variable named by its source text `result[k]`, a result of the step.
   The weighted HaarConv multiplies by math.sqrt(stepHalfSize / 2) (the `sqrt` oracle of the generated module); the
   model takes that factor as its `scale` argument: the weighted tie is stated for scale == sqrt (h / 2).

   NOT tied (the translator cannot express them; see tools/fnspecs/haar.py): FindLocalPeaks' loop body,
   UnifyLevels' inner while body. *)
From CNV Require Import Base.Prelude Model.Haar Gen.FnHaarConv Gen.FnHaarSegs Gen.FnHaarUnify Gen.FnHaarPulse.

Local Open Scope Z_scope.

(* ================================================================ HaarConv, weight is None *)

(* one iteration, any array reads: the indices are the model's mirrored indices; and when the reads passed are
   the signal's elements at those indices, the recursion's step is the generated result[k] *)
Lemma conv_u_step (sqrt : Q -> Q) (sg : list Q) (n h : Z) (x : Q) (t : list Q) (k : Z) (prev : Q)
    (sh sl sp wh wl wp a b c d : Q) :
  let '(hi, lo, r) := fn_haarconv_step_u sqrt k h n None prev sh sl sp wh wl wp a b c d in
  hi = mirror_hi n (k + h - 1) /\ lo = mirror_lo (k - h - 1) /\
  (sh = qnth sg hi -> sl = qnth sg lo -> sp = qnth sg (k - 1) ->
   conv_u_loop sg n h (x :: t) k prev = Qred r :: conv_u_loop sg n h t (k + 1) (Qred r)).
Proof.
  unfold fn_haarconv_step_u. cbv zeta. cbv iota beta.
  split; [reflexivity|]. split; [reflexivity|].
  intros -> -> ->. reflexivity.
Qed.

(* the generated iteration applied to the model's signal: first the indices, then the reads at them *)
Definition src_conv_u_step (sqrt : Q -> Q) (sg : list Q) (n h k : Z) (prev : Q) : Q :=
  let '(hi, lo, _) := fn_haarconv_step_u sqrt k h n None prev 0 0 0 0 0 0 0 0 0 0 in
  let '(_, _, r) := fn_haarconv_step_u sqrt k h n None prev (qnth sg hi) (qnth sg lo) (qnth sg (k - 1))
                                        0 0 0 0 0 0 0 in
  Qred r.

(* for k in range(k0, ...): result[k] = step(k, result[k-1]) -- `rest` counts the iterations *)
Fixpoint run_conv_u (step : Z -> Q -> Q) (rest : list Q) (k : Z) (prev : Q) : list Q :=
  match rest with
  | [] => []
  | _ :: t => let cur := step k prev in cur :: run_conv_u step t (k + 1) cur
  end.

Lemma conv_u_loop_source (sqrt : Q -> Q) (sg : list Q) (n h : Z) (rest : list Q) :
  forall k prev,
    conv_u_loop sg n h rest k prev = run_conv_u (src_conv_u_step sqrt sg n h) rest k prev.
Proof.
  induction rest as [|x t IH]; intros k prev; [reflexivity|].
  cbn [run_conv_u].
  assert (E : conv_u_loop sg n h (x :: t) k prev
              = src_conv_u_step sqrt sg n h k prev :: conv_u_loop sg n h t (k + 1) (src_conv_u_step sqrt sg n h k prev)).
  { unfold src_conv_u_step, fn_haarconv_step_u. cbv zeta. cbv iota beta. reflexivity. }
  rewrite E. f_equal. apply IH.
Qed.

(* the whole unweighted HaarConv over the generated iteration *)
Lemma haar_conv_u_source (sqrt : Q -> Q) (sg : list Q) (h : Z) (scale : Q) :
  haar_conv sg None h scale
  = let n := Zlength_nat sg in
    if n <? h then map (fun _ => 0%Q) sg
    else match sg with
         | [] => []
         | _ :: rest => 0%Q :: map (fun x => Qred (x / scale)) (run_conv_u (src_conv_u_step sqrt sg n h) rest 1 0%Q)
         end.
Proof.
  unfold haar_conv. cbv zeta. destruct (Zlength_nat sg <? h); [reflexivity|].
  destruct sg as [|s0 rest]; [reflexivity|].
  rewrite (conv_u_loop_source sqrt). reflexivity.
Qed.

(* ================================================================ HaarConv, weighted *)

(* the generated iteration returns (highEnd, lowEnd, the four running sums after the `+=`, result[k]) *)
Lemma conv_w_step (sqrt : Q -> Q) (sg wt : list Q) (n h : Z) (scale : Q) (x : Q) (t : list Q) (k : Z)
    (lowNN highNN lowW highW : Q) (w0 rp sh sl sp wh wl wp : Q) :
  let '(hi, lo, a, b, c, d, r) :=
    fn_haarconv_step_w sqrt k h n (Some w0) rp sh sl sp wh wl wp lowNN highNN lowW highW in
  hi = mirror_hi n (k + h - 1) /\ lo = mirror_lo (k - h - 1) /\
  (sh = qnth sg hi -> sl = qnth sg lo -> sp = qnth sg (k - 1) ->
   wh = qnth wt hi -> wl = qnth wt lo -> wp = qnth wt (k - 1) ->
   (scale == sqrt (inject_Z h / inject_Z 2))%Q ->
   conv_w_loop sg wt n h scale (x :: t) k lowNN highNN lowW highW
   = Qred r :: conv_w_loop sg wt n h scale t (k + 1) (Qred a) (Qred b) (Qred c) (Qred d)).
Proof.
  unfold fn_haarconv_step_w. cbv zeta. cbv iota beta. split; [reflexivity|]. split; [reflexivity|].
  intros -> -> -> -> -> -> Hs. cbn [conv_w_loop]. cbv zeta. f_equal.
  apply Qred_complete. rewrite !Qred_correct, Hs. reflexivity.
Qed.

Definition conv_w_state := (Q * Q * Q * Q)%type.    (* lowNonNormed, highNonNormed, lowWeightSum, highWeightSum *)

Definition src_conv_w_step (sqrt : Q -> Q) (sg wt : list Q) (n h k : Z) (st : conv_w_state) : conv_w_state * Q :=
  let '(lowNN, highNN, lowW, highW) := st in
  let '(hi, lo, _, _, _, _, _) :=
    fn_haarconv_step_w sqrt k h n (Some 0%Q) 0 0 0 0 0 0 0 lowNN highNN lowW highW in
  let '(_, _, a, b, c, d, r) :=
    fn_haarconv_step_w sqrt k h n (Some 0%Q) 0 (qnth sg hi) (qnth sg lo) (qnth sg (k - 1))
                       (qnth wt hi) (qnth wt lo) (qnth wt (k - 1)) lowNN highNN lowW highW in
  ((Qred a, Qred b, Qred c, Qred d), Qred r).

(* for k in range(k0, ...): (sums, result[k]) = step(k, sums) *)
Fixpoint run_conv_w (step : Z -> conv_w_state -> conv_w_state * Q) (rest : list Q) (k : Z) (st : conv_w_state)
    : list Q :=
  match rest with
  | [] => []
  | _ :: t => let '(st', r) := step k st in r :: run_conv_w step t (k + 1) st'
  end.

Lemma conv_w_loop_source (sqrt : Q -> Q) (sg wt : list Q) (n h : Z) (scale : Q) (rest : list Q) :
  (scale == sqrt (inject_Z h / inject_Z 2))%Q ->
  forall k lowNN highNN lowW highW,
    conv_w_loop sg wt n h scale rest k lowNN highNN lowW highW
    = run_conv_w (src_conv_w_step sqrt sg wt n h) rest k (lowNN, highNN, lowW, highW).
Proof.
  intro Hs. induction rest as [|x t IH]; intros k lowNN highNN lowW highW; [reflexivity|].
  pose proof (conv_w_step sqrt sg wt n h scale x t k lowNN highNN lowW highW 0 0
                (qnth sg (mirror_hi n (k + h - 1))) (qnth sg (mirror_lo (k - h - 1))) (qnth sg (k - 1))
                (qnth wt (mirror_hi n (k + h - 1))) (qnth wt (mirror_lo (k - h - 1))) (qnth wt (k - 1))) as H.
  cbn [run_conv_w]. unfold src_conv_w_step.
  unfold fn_haarconv_step_w in *. cbv zeta in *. cbv iota beta in *.
  destruct H as [_ [_ H]]. rewrite (H eq_refl eq_refl eq_refl eq_refl eq_refl eq_refl Hs).
  f_equal. apply IH.
Qed.

(* the whole weighted HaarConv over the generated iteration *)
Lemma haar_conv_w_source (sqrt : Q -> Q) (sg w : list Q) (h : Z) (scale : Q) :
  (scale == sqrt (inject_Z h / inject_Z 2))%Q ->
  haar_conv sg (Some w) h scale
  = let n := Zlength_nat sg in
    if n <? h then map (fun _ => 0%Q) sg
    else match sg with
         | [] => []
         | _ :: rest =>
             let hw := qsum (firstn (Z.to_nat h) w) in
             let hn := qsum (firstn (Z.to_nat h) (qmul2 w sg)) in
             0%Q :: run_conv_w (src_conv_w_step sqrt sg w n h) rest 1 (Qred (- hn), hn, hw, hw)
         end.
Proof.
  intro Hs. unfold haar_conv. cbv zeta. destruct (Zlength_nat sg <? h); [reflexivity|].
  destruct sg as [|s0 rest]; [reflexivity|].
  rewrite (conv_w_loop_source sqrt _ _ _ _ _ _ Hs). reflexivity.
Qed.

(* ================================================================ SegmentByPeaks *)

(* the per-segment statement, per element i of segs: the value stored is the weighted mean when weights are
   given and their sum over the segment is > 0, else the plain mean; it is stored where seg_start <= i < seg_end *)
Lemma segs_step (data : list Q) (wt : option (list Q)) (s e : Z) (x : Q) (t : list Q) (i : Z) :
  let d := slice data s e in
  let ws := match wt with Some w => slice w s e | None => [] end in
  fill_from (x :: t) i s e (seg_mean data wt s e)
  = fn_segs_step (match wt with Some _ => Some 0%Q | None => None end)
                 (qsum ws) (Qred (qsum (qmul2 d ws) / qsum ws)) (Qred (qsum d / inject_Z (Zlength_nat d)))
                 ((s <=? i) && (i <? e)) x
      :: fill_from t (i + 1) s e (seg_mean data wt s e).
Proof.
  cbv zeta. cbn [fill_from]. f_equal.
  unfold fn_segs_step, seg_mean. cbv zeta. destruct wt as [w|]; reflexivity.
Qed.

Lemma seg_mean_source (data : list Q) (wt : option (list Q)) (s e : Z) (x : Q) :
  let d := slice data s e in
  let ws := match wt with Some w => slice w s e | None => [] end in
  seg_mean data wt s e
  = fn_segs_step (match wt with Some _ => Some 0%Q | None => None end)
                 (qsum ws) (Qred (qsum (qmul2 d ws) / qsum ws)) (Qred (qsum d / inject_Z (Zlength_nat d))) true x.
Proof. cbv zeta. unfold fn_segs_step, seg_mean. cbv zeta. destruct wt as [w|]; reflexivity. Qed.

(* segs[seg_start:seg_end] = val over the whole array: the generated statement at every index *)
Fixpoint run_fill (step : bool -> Q -> Q) (segs : list Q) (i s e : Z) : list Q :=
  match segs with
  | [] => []
  | x :: t => step ((s <=? i) && (i <? e)) x :: run_fill step t (i + 1) s e
  end.

Lemma fill_from_source (data : list Q) (wt : option (list Q)) (s e : Z) (segs : list Q) :
  forall i,
    let d := slice data s e in
    let ws := match wt with Some w => slice w s e | None => [] end in
    fill_from segs i s e (seg_mean data wt s e)
    = run_fill (fn_segs_step (match wt with Some _ => Some 0%Q | None => None end)
                             (qsum ws) (Qred (qsum (qmul2 d ws) / qsum ws)) (Qred (qsum d / inject_Z (Zlength_nat d))))
               segs i s e.
Proof.
  cbv zeta. induction segs as [|x t IH]; intro i; [reflexivity|].
  pose proof (segs_step data wt s e x t i) as H. cbv zeta in H. rewrite H.
  cbn [run_fill]. f_equal. apply IH.
Qed.

(* ================================================================ UnifyLevels: last_pos *)

Lemma last_opt_last (l : list Z) :
  match last_opt l with Some b => b = last l 0 /\ l <> [] | None => l = [] end.
Proof.
  induction l as [|x t IH]; [reflexivity|].
  destruct t as [|y t']; [split; [reflexivity | discriminate]|].
  change (last_opt (x :: y :: t')) with (last_opt (y :: t')).
  change (last (x :: y :: t') 0) with (last (y :: t') 0).
  destruct (last_opt (y :: t')) as [b|]; [|discriminate IH].
  destruct IH as [E _]. split; [exact E | discriminate].
Qed.

(* baseLevel[-1] read as the last element, len(baseLevel) as the length *)
Lemma unify_last_pos_source (base : list Z) (w : Z) :
  fn_unify_last_pos (last base 0) (Zlength_nat base) w
  = match last_opt base with Some b => b + w | None => -1 end.
Proof.
  unfold fn_unify_last_pos. cbv zeta. pose proof (last_opt_last base) as H.
  destruct (last_opt base) as [b|].
  - destruct H as [-> Hne]. destruct base as [|x t]; [contradiction|]. reflexivity.
  - subst base. reflexivity.
Qed.

Lemma unify_levels_source (base addon : list Z) (w : Z) :
  unify_levels base addon w
  = match addon with
    | [] => base
    | _ => let '(joined, rest) := unify_loop base addon w in
           zsort (joined ++ drop_le (fn_unify_last_pos (last base 0) (Zlength_nat base) w) rest)
    end.
Proof. unfold unify_levels. rewrite unify_last_pos_source. reflexivity. Qed.

(* ================================================================ PulseConv *)

Lemma pulse_step (sg : list Q) (n p : Z) (ph : Q) (x : Q) (t : list Q) (k : Z) (prev : Q)
    (nidx : Z) (sh st : Q) :
  let '(hd, tl, r, nidx') := fn_pulseconv_step k nidx p n ph prev sh st in
  hd = mirror_hi n k /\ tl = mirror_lo (k - p) /\ nidx' = nidx + 1 /\
  (sh = qnth sg hd -> st = qnth sg tl ->
   pulse_loop sg n p ph (x :: t) k prev = Qred r :: pulse_loop sg n p ph t (k + 1) (Qred r)).
Proof.
  unfold fn_pulseconv_step. cbv zeta.
  repeat (split; [reflexivity|]). intros -> ->. reflexivity.
Qed.
