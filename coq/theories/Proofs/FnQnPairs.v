(* C19 source tie [loop ties e2]: q_n's nested loops

       vals = []
       for i, x_i in enumerate(a):
           for x_j in a[i + 1:]:
               vals.append(abs(x_i - x_j))

   ONE ITERATION of the inner loop is regenerated from the source on every run (Gen/FnQnPairs.v fn_qn_pair_step:
   `vals` after the iteration).  Here: the two loops built from that step produce Model/Descriptives.v pair_diffs
   (entry by entry, up to ==), and with the tail of Gen/FnQnTail.v the whole of q_n's body is qn_core. *)
From CNV Require Import Base.Prelude Base.QNum Proofs.QNumLemmas Gen.DescDefaults Gen.FnQnPairs Gen.FnQnTail
  Model.Descriptives Proofs.FnQnTail.
From Coq Require Import Qabs.
Local Open Scope Q_scope.

(* `for x_j in a[i + 1:]` with x_i fixed: the step folded over the rest of the array *)
Definition qn_inner (x_i : Q) (rest vals : list Q) : list Q :=
  fold_left (fun vs x_j => fn_qn_pair_step vs x_i x_j) rest vals.
(* `for i, x_i in enumerate(a)`: a[i + 1:] is what follows x_i *)
Fixpoint qn_loops (a vals : list Q) : list Q :=
  match a with
  | [] => vals
  | x_i :: rest => qn_loops rest (qn_inner x_i rest vals)
  end.

Lemma qn_inner_eq x : forall rest vals, qn_inner x rest vals = vals ++ map (fun y => Qabs (x - y)) rest.
Proof.
  unfold qn_inner. induction rest as [|y t IH]; intro vals; cbn [fold_left map]; [now rewrite app_nil_r|].
  rewrite IH. unfold fn_qn_pair_step. rewrite <- app_assoc. reflexivity.
Qed.

Fixpoint pair_diffs_src (a : list Q) : list Q :=
  match a with
  | [] => []
  | x :: t => map (fun y => Qabs (x - y)) t ++ pair_diffs_src t
  end.

Lemma qn_loops_eq : forall a vals, qn_loops a vals = vals ++ pair_diffs_src a.
Proof.
  induction a as [|x t IH]; intro vals; cbn [qn_loops pair_diffs_src]; [now rewrite app_nil_r|].
  rewrite IH, qn_inner_eq, <- app_assoc. reflexivity.
Qed.

Theorem source_qn_pairs a : eqQ (qn_loops a []) (pair_diffs a).
Proof.
  rewrite qn_loops_eq. cbn [app]. induction a as [|x t IH]; cbn [pair_diffs_src pair_diffs]; [constructor|].
  apply eqQ_app; [|exact IH]. apply eqQ_map_ext. intros y _. unfold qabs. rewrite qsub_spec. reflexivity.
Qed.

(* the whole body of q_n: loops, first quartile, scale *)
Theorem source_qn a :
  qn_core a == fn_qn_tail (percentile QN_PCT (qn_loops a [])) (Z.of_nat (length a)).
Proof.
  rewrite source_qn_tail. apply fn_qn_tail_wd. apply percentile_eqQ. symmetry. apply source_qn_pairs.
Qed.
