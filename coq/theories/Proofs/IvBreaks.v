(* Facts about sort_uniq / pairs (the breakpoints of a group and the
   consecutive-breakpoint tiles).  Pure list-of-Z reasoning. *)
From CNV Require Import Base.Prelude Model.IvRow Model.Intervals.

(* ------------------------------------------------------------------ *)
(* Strictly increasing lists (head/next shape).                        *)

Fixpoint incr (l : list Z) : Prop :=
  match l with
  | a :: t => match t with b :: _ => a < b | [] => True end /\ incr t
  | [] => True
  end.

Lemma incr_nil : incr [].
Proof. exact I. Qed.

Lemma incr_one a : incr [a].
Proof. split; exact I. Qed.

Lemma incr_cons2 a b t : incr (a :: b :: t) <-> a < b /\ incr (b :: t).
Proof. split; intro H; exact H. Qed.

Lemma incr_tail a t : incr (a :: t) -> incr t.
Proof. intros [_ H]; exact H. Qed.

Lemma incr_lb a t : incr (a :: t) -> forall y, In y t -> a < y.
Proof.
  revert a. induction t as [|b t IH]; intros a H y Hy.
  - destruct Hy.
  - apply incr_cons2 in H. destruct H as [Hab Hbt].
    destruct Hy as [Hy|Hy].
    + subst y. exact Hab.
    + pose proof (IH b Hbt y Hy). lia.
Qed.

Lemma incr_cons_iff a t :
  incr (a :: t) <-> (forall y, In y t -> a < y) /\ incr t.
Proof.
  split.
  - intro H. split.
    + apply incr_lb. exact H.
    + apply incr_tail in H. exact H.
  - intros [Hlb Ht]. destruct t as [|b t].
    + apply incr_one.
    + apply incr_cons2. split.
      * apply Hlb. left. reflexivity.
      * exact Ht.
Qed.

Lemma incr_NoDup l : incr l -> NoDup l.
Proof.
  induction l as [|a t IH]; intro H.
  - constructor.
  - constructor.
    + intro Hin. pose proof (incr_lb a t H a Hin). lia.
    + apply IH. apply incr_tail in H. exact H.
Qed.

(* ------------------------------------------------------------------ *)
(* Unfolding helpers for pairs / last_opt.                             *)

Lemma pairs_cons2 a b t : pairs (a :: b :: t) = (a, b) :: pairs (b :: t).
Proof. reflexivity. Qed.

Lemma pairs_one a : pairs [a] = [].
Proof. reflexivity. Qed.

Lemma last_opt_cons2 {A} (a b : A) t : last_opt (a :: b :: t) = last_opt (b :: t).
Proof. reflexivity. Qed.

Lemma last_opt_In {A} (l : list A) z : last_opt l = Some z -> In z l.
Proof.
  induction l as [|a t IH]; intro H.
  - discriminate H.
  - destruct t as [|b t].
    + cbn in H. injection H as H. left. exact H.
    + rewrite last_opt_cons2 in H. right. apply IH. exact H.
Qed.

(* ------------------------------------------------------------------ *)
(* 1. insert_uniq / sort_uniq.                                         *)

Lemma insert_uniq_In x y l : In y (insert_uniq x l) <-> y = x \/ In y l.
Proof.
  induction l as [|a t IH]; cbn [insert_uniq].
  - cbn [In]. intuition congruence.
  - destruct (x <? a) eqn:Elt.
    + cbn [In]. intuition congruence.
    + destruct (x =? a) eqn:Eeq.
      * apply Z.eqb_eq in Eeq. subst a. cbn [In]. intuition congruence.
      * cbn [In]. rewrite IH. tauto.
Qed.

Lemma insert_uniq_incr x l : incr l -> incr (insert_uniq x l).
Proof.
  induction l as [|a t IH]; intro H; cbn [insert_uniq].
  - apply incr_one.
  - destruct (x <? a) eqn:Elt.
    + apply Z.ltb_lt in Elt. apply incr_cons2. split; assumption.
    + destruct (x =? a) eqn:Eeq.
      * exact H.
      * apply Z.ltb_ge in Elt. apply Z.eqb_neq in Eeq.
        apply incr_cons_iff in H. destruct H as [Hlb Ht].
        apply incr_cons_iff. split.
        -- intros y Hy. apply insert_uniq_In in Hy. destruct Hy as [Hy|Hy].
           ++ lia.
           ++ apply Hlb. exact Hy.
        -- apply IH. exact Ht.
Qed.

Lemma sort_uniq_In y l : In y (sort_uniq l) <-> In y l.
Proof.
  unfold sort_uniq. induction l as [|a t IH]; cbn [fold_right In].
  - tauto.
  - rewrite insert_uniq_In, IH. intuition congruence.
Qed.

Lemma sort_uniq_incr l : incr (sort_uniq l).
Proof.
  unfold sort_uniq. induction l as [|a t IH]; cbn [fold_right].
  - apply incr_nil.
  - apply insert_uniq_incr. exact IH.
Qed.

Lemma sort_uniq_NoDup l : NoDup (sort_uniq l).
Proof. apply incr_NoDup, sort_uniq_incr. Qed.

(* ------------------------------------------------------------------ *)
(* 2. Bounds of an increasing list.                                    *)

Lemma incr_hd_min l a : incr l -> hd_opt l = Some a -> forall y, In y l -> a <= y.
Proof.
  intros H Hhd y Hy. destruct l as [|a' t].
  - destruct Hy.
  - cbn in Hhd. injection Hhd as Hhd. subst a'.
    destruct Hy as [Hy|Hy].
    + lia.
    + pose proof (incr_lb a t H y Hy). lia.
Qed.

Lemma incr_last_max l z : incr l -> last_opt l = Some z -> forall y, In y l -> y <= z.
Proof.
  induction l as [|a t IH]; intros H Hl y Hy.
  - destruct Hy.
  - destruct t as [|b t].
    + cbn in Hl. injection Hl as Hl. subst z.
      destruct Hy as [Hy|[]]. lia.
    + rewrite last_opt_cons2 in Hl.
      apply incr_cons2 in H. destruct H as [Hab Hbt].
      destruct Hy as [Hy|Hy].
      * subst y. assert (Hb : b <= z).
        { apply (IH Hbt Hl). left. reflexivity. }
        lia.
      * apply (IH Hbt Hl). exact Hy.
Qed.

Lemma incr_bounds l a z :
  incr l -> hd_opt l = Some a -> last_opt l = Some z ->
  forall y, In y l -> a <= y <= z.
Proof.
  intros H Hh Hl y Hy. split.
  - apply (incr_hd_min l a H Hh y Hy).
  - apply (incr_last_max l z H Hl y Hy).
Qed.

Lemma incr_hd_le_last l a z :
  incr l -> hd_opt l = Some a -> last_opt l = Some z -> a <= z.
Proof.
  intros H Hh Hl. apply (incr_hd_min l a H Hh). apply last_opt_In. exact Hl.
Qed.

(* ------------------------------------------------------------------ *)
(* 3. pairs of an increasing list tile [hd, last).                     *)

Lemma pairs_In_adj l s e :
  In (s, e) (pairs l) -> In s l /\ In e l.
Proof.
  induction l as [|a t IH]; intro Hin.
  - destruct Hin.
  - destruct t as [|b t].
    + destruct Hin.
    + rewrite pairs_cons2 in Hin. destruct Hin as [Hin|Hin].
      * injection Hin as Hs He. subst s e. split.
        -- left. reflexivity.
        -- right. left. reflexivity.
      * destruct (IH Hin) as [Hs He]. split; right; assumption.
Qed.

Lemma pairs_In_lt l s e :
  incr l -> In (s, e) (pairs l) -> s < e /\ In s l /\ In e l.
Proof.
  intros H Hin. split; [|apply pairs_In_adj; exact Hin].
  revert H Hin. induction l as [|a t IH]; intros H Hin.
  - destruct Hin.
  - destruct t as [|b t].
    + destruct Hin.
    + rewrite pairs_cons2 in Hin. apply incr_cons2 in H. destruct H as [Hab Hbt].
      destruct Hin as [Hin|Hin].
      * injection Hin as Hs He. subst s e. exact Hab.
      * apply IH; assumption.
Qed.

Lemma pairs_cover l a z :
  incr l -> hd_opt l = Some a -> last_opt l = Some z ->
  forall x, (exists s e, In (s, e) (pairs l) /\ s <= x < e) <-> a <= x < z.
Proof.
  intros H Hh Hl x. split.
  - intros (s & e & Hin & Hx).
    destruct (pairs_In_lt l s e H Hin) as (_ & Hs & He).
    pose proof (incr_bounds l a z H Hh Hl s Hs).
    pose proof (incr_bounds l a z H Hh Hl e He).
    lia.
  - revert a H Hh Hl. induction l as [|a' t IH]; intros a H Hh Hl Hx.
    + discriminate Hh.
    + cbn in Hh. injection Hh as Hh. subst a'.
      destruct t as [|b t].
      * cbn in Hl. injection Hl as Hl. lia.
      * rewrite last_opt_cons2 in Hl. apply incr_cons2 in H. destruct H as [Hab Hbt].
        destruct (Z_lt_ge_dec x b) as [Hxb|Hxb].
        -- exists a, b. split; [|lia]. rewrite pairs_cons2. left. reflexivity.
        -- destruct (IH b Hbt eq_refl Hl) as (s & e & Hin & Hse); [lia|].
           exists s, e. split; [|exact Hse]. rewrite pairs_cons2. right. exact Hin.
Qed.

Lemma pairs_no_break_inside l s e y :
  incr l -> In (s, e) (pairs l) -> In y l -> ~ (s < y < e).
Proof.
  revert s e y. induction l as [|a t IH]; intros s e y H Hin Hy Hbad.
  - destruct Hin.
  - destruct t as [|b t].
    + destruct Hin.
    + rewrite pairs_cons2 in Hin.
      pose proof (incr_lb a (b :: t) H) as Hlb.
      apply incr_cons2 in H. destruct H as [Hab Hbt].
      destruct Hin as [Hin|Hin].
      * injection Hin as Hs He. subst s e.
        destruct Hy as [Hy|Hy].
        -- lia.
        -- pose proof (incr_hd_min (b :: t) b Hbt eq_refl y Hy). lia.
      * destruct Hy as [Hy|Hy].
        -- subst y. destruct (pairs_In_adj _ _ _ Hin) as [Hs _].
           pose proof (Hlb s Hs). lia.
        -- apply (IH s e y Hbt Hin Hy Hbad).
Qed.

(* consecutive pairs abut (holds for any list) *)
Lemma pairs_abut_gen l :
  forall p q rest pre, pairs l = pre ++ p :: q :: rest -> snd p = fst q.
Proof.
  induction l as [|a t IH]; intros p q rest pre Heq.
  - destruct pre; discriminate Heq.
  - destruct t as [|b t].
    + destruct pre; discriminate Heq.
    + rewrite pairs_cons2 in Heq. destruct pre as [|x pre].
      * cbn [app] in Heq. injection Heq as Hp Hq. subst p.
        destruct t as [|c t].
        -- discriminate Hq.
        -- change (pairs (b :: c :: t)) with ((b, c) :: pairs (c :: t)) in Hq.
           injection Hq as Hq _. subst q. reflexivity.
      * cbn [app] in Heq. injection Heq as _ Heq.
        apply (IH p q rest pre Heq).
Qed.

Lemma pairs_abut l :
  incr l ->
  forall p q rest pre, pairs l = pre ++ p :: q :: rest -> snd p = fst q.
Proof. intros _. apply pairs_abut_gen. Qed.

Fixpoint abut (ps : list (Z * Z)) : Prop :=
  match ps with
  | p :: t => match t with q :: _ => snd p = fst q | [] => True end /\ abut t
  | [] => True
  end.

Lemma pairs_abut' l : abut (pairs l).
Proof.
  induction l as [|a t IH].
  - exact I.
  - destruct t as [|b t].
    + exact I.
    + rewrite pairs_cons2. destruct t as [|c t].
      * split; exact I.
      * rewrite pairs_cons2 in *. split.
        -- reflexivity.
        -- exact IH.
Qed.

Lemma pairs_endpoints_gen l y :
  (2 <= length l)%nat -> In y l ->
  exists s e, In (s, e) (pairs l) /\ (y = s \/ y = e).
Proof.
  induction l as [|a t IH]; intros Hlen Hy.
  - destruct Hy.
  - destruct t as [|b t].
    + cbn in Hlen. lia.
    + rewrite pairs_cons2. destruct Hy as [Hy|Hy].
      * exists a, b. split; [left; reflexivity|left; symmetry; exact Hy].
      * destruct t as [|c t].
        -- destruct Hy as [Hy|[]]. exists a, b.
           split; [left; reflexivity|right; symmetry; exact Hy].
        -- destruct IH as (s & e & Hin & Hse).
           ++ cbn [length]. lia.
           ++ exact Hy.
           ++ exists s, e. split; [right; exact Hin|exact Hse].
Qed.

Lemma pairs_endpoints l y :
  incr l -> (2 <= length l)%nat -> In y l ->
  exists s e, In (s, e) (pairs l) /\ (y = s \/ y = e).
Proof. intros _. apply pairs_endpoints_gen. Qed.

Lemma pairs_hd l a b t : l = a :: b :: t -> hd_opt (pairs l) = Some (a, b).
Proof. intros ->. reflexivity. Qed.

Lemma pairs_first l a :
  (2 <= length l)%nat -> hd_opt l = Some a -> exists e, hd_opt (pairs l) = Some (a, e).
Proof.
  intros Hlen Hh. destruct l as [|a' [|b t]].
  - discriminate Hh.
  - cbn in Hlen. lia.
  - cbn in Hh. injection Hh as Hh. subst a'. exists b. reflexivity.
Qed.

Lemma pairs_last l z :
  (2 <= length l)%nat -> last_opt l = Some z -> exists s, last_opt (pairs l) = Some (s, z).
Proof.
  induction l as [|a t IH]; intros Hlen Hl.
  - discriminate Hl.
  - destruct t as [|b t].
    + cbn in Hlen. lia.
    + rewrite last_opt_cons2 in Hl. rewrite pairs_cons2.
      destruct t as [|c t].
      * cbn in Hl. injection Hl as Hl. subst z. exists a. reflexivity.
      * destruct IH as [s Hs].
        -- cbn [length]. lia.
        -- exact Hl.
        -- exists s. rewrite pairs_cons2 in *. rewrite last_opt_cons2. exact Hs.
Qed.

Lemma pairs_length l : length (pairs l) = pred (length l).
Proof.
  induction l as [|a t IH].
  - reflexivity.
  - destruct t as [|b t].
    + reflexivity.
    + rewrite pairs_cons2. cbn [length] in *. rewrite IH. reflexivity.
Qed.
