(* BED variants (extension): the column-count rule of bedio._parse_line, browser / track
   header lines, the generic "bed" writer; and the round trips restated on decimal TEXT:
   reading a line with canonical coordinate text and writing it again gives the same fields. *)
From CNV Require Import Base.Prelude Base.Str Model.Decimal Model.Chromsort Model.Sniff Model.Formats.
From CNV Require Import Proofs.ChromsortLemmas Proofs.FormatsLemmas Proofs.FormatsText Proofs.FormatsLib Proofs.FormatsSniff Proofs.FormatsAuto.
From CNV Require Import Gen.Formats.

(* ------------------------------------------------------------------------ *)
(* rstrip                                                                     *)

Lemma drop_while_head {A} (p : A -> bool) x l : p x = false -> drop_while p (x :: l) = x :: l.
Proof. intros H. cbn. now rewrite H. Qed.

(* a field that does not end in white space is kept as it is *)
Lemma rstrip_id s :
  match rev (chars s) with [] => True | c :: _ => is_space c = false end -> rstrip_ws s = s.
Proof.
  intros H. unfold rstrip_ws. destruct (rev (chars s)) as [|c r] eqn:E.
  - cbn. assert (chars s = []) as E0 by (apply (f_equal (@rev ascii)) in E; rewrite rev_involutive in E; exact E).
    rewrite <- (unchars_chars s), E0. reflexivity.
  - rewrite drop_while_head by assumption. rewrite <- E, rev_involutive. apply unchars_chars.
Qed.

Lemma rstrip_nonspace s : forallb is_nonspace (chars s) = true -> rstrip_ws s = s.
Proof.
  intros H. apply rstrip_id. destruct (rev (chars s)) as [|c r] eqn:E; auto.
  assert (Hin : In c (chars s)) by (apply in_rev; rewrite E; now left).
  rewrite forallb_forall in H. specialize (H c Hin). unfold is_nonspace in H.
  now apply negb_true_iff in H.
Qed.

Lemma rstrip_examples :
  rstrip_ws "TP53 " = "TP53"%string /\ rstrip_ws "-" = "-"%string /\ rstrip_ws "." = "."%string /\
  rstrip_ws "a b" = "a b"%string /\ rstrip_ws "" = ""%string /\ rstrip_ws "  " = ""%string.
Proof. repeat split; reflexivity. Qed.

(* ------------------------------------------------------------------------ *)
(* the column-count rule                                                      *)

(* 3 columns: ('-', '.'); 4 or 5: (name, '.'); 6 or more: (name, strand).  Score, thick
   start/end, colour and block columns never influence the row. *)
Lemma bed_columns c s e g sc st more :
  read_bed_line [c; print_Z s; print_Z e] = Some ((c, s + 0, e), ["-"; "."]%string) /\
  read_bed_line [c; print_Z s; print_Z e; g] = Some ((c, s + 0, e), [rstrip_ws g; "."%string]) /\
  read_bed_line [c; print_Z s; print_Z e; g; sc] = Some ((c, s + 0, e), [rstrip_ws g; "."%string]) /\
  read_bed_line (c :: print_Z s :: print_Z e :: g :: sc :: st :: more)
  = Some ((c, s + 0, e), [rstrip_ws g; rstrip_ws st]).
Proof. repeat split; unfold read_bed_line; rewrite !parse_print; reflexivity. Qed.

(* the reader looks at the first six fields only, whatever the coordinates' text *)
Lemma bed_extra_columns_ignored c s e g sc st more :
  read_bed_line (c :: s :: e :: g :: sc :: st :: more) = read_bed_line [c; s; e; g; sc; st] /\
  read_bed_line [c; s; e; g; sc] = read_bed_line [c; s; e; g].
Proof. split; reflexivity. Qed.

Lemma bed_too_few_columns c s : read_bed_line [] = None /\ read_bed_line [c] = None /\ read_bed_line [c; s] = None.
Proof. repeat split. Qed.

(* a '#' comment line is not skipped by read_bed: it is a bad line *)
Lemma bed_comment_is_bad_line : read_bed [["# comment"]; ["chr1"; "1"; "2"]]%string = None.
Proof. reflexivity. Qed.

(* ------------------------------------------------------------------------ *)
(* browser / track lines                                                      *)

Definition bed_plain_line (f : line) : Prop :=
  line_starts "track" f = false /\ line_starts "browser " f = false.

Lemma track_not_browser f : line_starts "track" f = true -> line_starts "browser " f = false.
Proof.
  unfold line_starts, str_prefix.
  change (chars "track") with ("t"%char :: chars "rack").
  change (chars "browser ") with ("b"%char :: chars "rowser ").
  destruct (chars (fld 0 f)) as [|x r]; cbn [prefixb]; [discriminate|].
  destruct (Ascii.eqb_spec "t"%char x) as [<-|]; cbn [andb]; intros H; [reflexivity | discriminate].
Qed.

Lemma until_track_stop (body : list line) trk more :
  Forall (fun f => line_starts "track" f = false) body -> line_starts "track" trk = true ->
  until_track (body ++ trk :: more) = body.
Proof.
  induction 1 as [|f t Hf _ IH]; intros Ht; cbn [app until_track].
  - now rewrite Ht.
  - rewrite Hf. now rewrite IH.
Qed.

Lemma plain_no_track body : Forall bed_plain_line body -> Forall (fun f => line_starts "track" f = false) body.
Proof. intros H. eapply Forall_impl; [|exact H]. now intros a [? _]. Qed.

Lemma bed_body_headers (body : list line) brw trk :
  Forall bed_plain_line body -> line_starts "browser " brw = true -> line_starts "track" trk = true ->
  bed_body (brw :: trk :: body) = body /\ bed_body (trk :: body) = body /\
  bed_body (brw :: body) = body /\ bed_body body = body /\
  (forall more, body <> [] -> bed_body (body ++ trk :: more) = body) /\
  (forall more, bed_body (brw :: trk :: body ++ trk :: more) = body).
Proof.
  intros Hb Hbr Htr. pose proof (track_not_browser trk Htr) as Htb.
  pose proof (plain_no_track body Hb) as Hnt.
  assert (E : bed_body body = body) by (now apply bed_body_id).
  split; [|split; [|split; [|split; [|split]]]].
  - unfold bed_body. rewrite Hbr, Htr. cbn [app]. now apply until_track_id.
  - unfold bed_body. rewrite Htb, Htr. cbn [app]. now apply until_track_id.
  - unfold bed_body at 1. rewrite Hbr. destruct body as [|f t]; [reflexivity|].
    inversion Hb as [|? ? [H1 H2] Hb']; subst. rewrite H1. cbn [app].
    rewrite until_track_id; [reflexivity | now apply plain_no_track].
  - exact E.
  - intros more Hne. destruct body as [|f t]; [congruence|].
    inversion Hb as [|? ? [H1 H2] Hb']; subst. cbn [app]. unfold bed_body. rewrite H2, H1. cbn [app].
    rewrite until_track_stop; auto. now apply plain_no_track.
  - intros more. unfold bed_body. rewrite Hbr, Htr. cbn [app]. now apply until_track_stop.
Qed.

(* hence the regions of a BED file do not depend on its browser / track header, and
   reading stops at the second track *)
Lemma read_bed_headers (body : list line) brw trk more :
  Forall bed_plain_line body -> line_starts "browser " brw = true -> line_starts "track" trk = true ->
  read_bed (brw :: trk :: body) = read_bed body /\ read_bed (trk :: body) = read_bed body /\
  read_bed (brw :: body) = read_bed body /\
  read_bed (brw :: trk :: body ++ trk :: more) = read_bed body /\
  read_bed3 (brw :: trk :: body) = read_bed3 body /\ read_bed4 (brw :: trk :: body) = read_bed4 body.
Proof.
  intros Hb Hbr Htr. destruct (bed_body_headers body brw trk Hb Hbr Htr) as (E1 & E2 & E3 & E4 & _ & E6).
  unfold read_bed, read_bed3, read_bed4. rewrite E1, E2, E3, E4, (E6 more). repeat split.
Qed.

(* ------------------------------------------------------------------------ *)
(* the generic writer "bed": every trailing column is written; read_bed takes
   name = 4th and strand = 6th column                                         *)

Lemma bed_line_fld0 r : fld 0 (bed_line r) = fst (fst (fst r)).
Proof. destruct r as [[[c s] e] [|x ex]]; reflexivity. Qed.

Theorem roundtrip_bed (t : list row) :
  Forall (fun r => bed_name_ok (fst (fst (fst r))) = true) t ->
  read_bed (write_bed t)
  = Some (sort_rows (map (fun r => (fst r, [rstrip_ws (nth 0 (snd r) "-"%string);
                                            rstrip_ws (nth 2 (snd r) "."%string)])) t)).
Proof.
  intros H. unfold read_bed, write_bed.
  rewrite bed_body_id by (apply bed_lines_ok; auto; apply bed_line_fld0).
  rewrite (all_some_map_map bed_line read_bed_line
             (fun r : row => (fst r, [rstrip_ws (nth 0 (snd r) "-"%string);
                                      rstrip_ws (nth 2 (snd r) "."%string)]))); [reflexivity|].
  intros [[[c s] e] [|x ex]] _.
  - cbn. rewrite !parse_print. now rewrite off_bed3_zero.
  - unfold bed_line, read_bed_line. cbn [snd fst coord_fields app]. rewrite !parse_print.
    unfold off_write_bed, off_read_bed. now rewrite !Z.add_0_r.
Qed.

(* BED6: name, score, strand *)
Corollary roundtrip_bed6 (t : list row) :
  Forall (fun r => bed_name_ok (fst (fst (fst r))) = true) t ->
  Forall (fun r => exists g sc st, snd r = [g; sc; st] /\ rstrip_ws g = g /\ rstrip_ws st = st) t ->
  read_bed (write_bed t) = Some (sort_rows (map (fun r => (fst r, [nth 0 (snd r) "-"%string; nth 2 (snd r) "."%string])) t)).
Proof.
  intros H H6. rewrite roundtrip_bed by assumption. do 2 f_equal.
  apply map_ext_in. intros r Hin. rewrite Forall_forall in H6.
  destruct (H6 r Hin) as (g & sc & st & E & Hg & Hs). rewrite E. cbn [nth]. now rewrite Hg, Hs.
Qed.

(* ------------------------------------------------------------------------ *)
(* round trips on decimal text: read a line, write the row again              *)

Definition canon2 (ts te : string) : Prop := canonical_dec ts = true /\ canonical_dec te = true.

Lemma canon_parse ts : canonical_dec ts = true -> parse_Z ts = Some (dec_value ts) /\ print_Z (dec_value ts) = ts.
Proof. apply canonical_roundtrip. Qed.

Ltac canon ts te H :=
  let P1 := fresh "P" in let Q1 := fresh "Q" in let P2 := fresh "P" in let Q2 := fresh "Q" in
  destruct H as [H1c H2c];
  destruct (canon_parse ts H1c) as [P1 Q1]; destruct (canon_parse te H2c) as [P2 Q2];
  rewrite ?P1, ?P2.

Lemma text_fields_bed3 c ts te :
  canon2 ts te -> option_map bed3_line (read_bed_line [c; ts; te]) = Some [c; ts; te].
Proof.
  intros H. unfold read_bed_line. canon ts te H. cbn [option_map]. unfold bed3_line. cbn [fst coord_fields].
  unfold off_read_bed, off_write_bed3. now rewrite !Z.add_0_r, Q, Q0.
Qed.

Lemma text_fields_bed4 c ts te g :
  canon2 ts te -> rstrip_ws g = g ->
  option_map (fun r => bed4_line (keep_extras 1 r)) (read_bed_line [c; ts; te; g]) = Some [c; ts; te; g].
Proof.
  intros H Hg. unfold read_bed_line. canon ts te H. cbn [option_map]. unfold bed4_line, keep_extras.
  cbn [fst snd coord_fields firstn nth app].
  unfold off_read_bed, off_write_bed4. now rewrite !Z.add_0_r, Q, Q0, Hg.
Qed.

Lemma text_fields_tab c ts te ex :
  canon2 ts te ->
  option_map tab_line (read_tab_row (3 + length ex) 0 1 2 (c :: ts :: te :: ex)) = Some (c :: ts :: te :: ex).
Proof.
  intros H. unfold read_tab_row. cbn [length nth Nat.add]. rewrite Nat.eqb_refl. cbn [negb].
  canon ts te H. cbn [option_map drop_idx existsb Nat.eqb orb]. rewrite drop_idx_ge by lia.
  unfold tab_line. cbn [fst snd coord_fields app].
  unfold off_read_tab, off_write_tab. now rewrite !Z.add_0_r, Q, Q0.
Qed.

Lemma text_fields_interval c ts te strand gene :
  canon2 ts te -> gene <> EmptyString ->
  option_map interval_line (read_interval_line [c; ts; te; strand; gene]) = Some [c; ts; te; strand; gene].
Proof.
  intros H Hg. unfold read_interval_line. canon ts te H. cbn [option_map]. unfold interval_line.
  cbn [fst snd nth]. destruct (String.eqb_spec gene ""); [congruence|].
  unfold off_read_interval, off_write_interval.
  replace (dec_value ts + -1 + 1) with (dec_value ts) by lia. now rewrite Q, Q0.
Qed.

Lemma text_fields_seg sid c ts te rest :
  canon2 ts te ->
  option_map (fun p => seg_line (fst p) (fst (snd p), rest)) (read_seg_line (4 + length rest) (sid :: c :: ts :: te :: rest))
  = Some (sid :: c :: ts :: te :: rest).
Proof.
  intros H. unfold read_seg_line. cbn [length Nat.add]. rewrite Nat.eqb_refl. cbn [negb].
  canon ts te H. cbn [option_map]. unfold seg_line. cbn [fst snd].
  unfold off_read_seg, off_write_seg.
  replace (dec_value ts + -1 + 1) with (dec_value ts) by lia. now rewrite Q, Q0.
Qed.

(* chr:start-end : canonical, non-negative coordinate text *)
Lemma canonical_nat_text ts :
  canonical_nat (chars ts) = true ->
  canonical_dec ts = true /\ forallb is_digit (chars ts) = true /\ chars ts <> [] /\ 0 <= dec_value ts.
Proof.
  intros H. destruct (canonical_nat_digits _ H) as [Hne Hd].
  unfold canonical_dec, dec_value. destruct (chars ts) as [|c cs] eqn:E; [congruence|].
  rewrite (canonical_head_not_minus c cs H). repeat split; auto.
  now apply digits_val_nonneg.
Qed.

Lemma text_fields_label c ts te :
  text_name_ok c = true -> canonical_nat (chars ts) = true -> canonical_nat (chars te) = true ->
  option_map (fun r => text_line (keep_extras 0 r)) (read_text_line (c ++ ":" ++ ts ++ "-" ++ te))
  = Some [(c ++ ":" ++ ts ++ "-" ++ te)%string].
Proof.
  intros Hc Hs He.
  destruct (canonical_nat_text ts Hs) as (Cs & Ds & Ns & Vs).
  destruct (canonical_nat_text te He) as (Ce & De & Ne & Ve).
  destruct (canon_parse ts Cs) as [Ps Qs]. destruct (canon_parse te Ce) as [Pe Qe].
  unfold read_text_line.
  assert (E : (c ++ ":" ++ ts ++ "-" ++ te)%string
              = unchars (chars c ++ ":"%char :: chars ts ++ "-"%char :: chars te)).
  { rewrite <- (unchars_chars (c ++ ":" ++ ts ++ "-" ++ te)%string). f_equal. now rewrite !chars_app. }
  rewrite E at 1. unfold text_name_ok in Hc. destruct (chars c) as [|x t] eqn:Ec; [discriminate|].
  apply andb_true_iff in Hc. destruct Hc as [Hx Ht].
  rewrite (parse_label_chars x t (chars ts) (chars te) (dec_value ts) (dec_value te)); auto;
    try (rewrite unchars_chars; assumption).
  cbn [option_map String.eqb]. unfold text_line, keep_extras. cbn [fst snd firstn].
  unfold to_label, off_from_label, off_read_text, off_write_text, off_to_label.
  replace (dec_value ts + -1 + 0 + 0 + 1) with (dec_value ts) by lia.
  rewrite Qs, Qe. rewrite <- Ec, unchars_chars. reflexivity.
Qed.

(* ------------------------------------------------------------------------ *)
(* auto-detection skips browser / track / blank lines; an empty file is BED3  *)

Lemma sniff_skip hint (f : line) (rest : list line) :
  blank_line f = true \/ line_starts "track" f = true \/ line_starts "browser " f = true ->
  sniff_lines hint (f :: rest) = sniff_lines hint rest.
Proof.
  intros H. cbn [sniff_lines]. unfold sniff_line. destruct (blank_line f); [reflexivity|].
  unfold line_starts in H. destruct H as [H|[H|H]]; [discriminate| |]; rewrite H; [|rewrite orb_true_r]; reflexivity.
Qed.

Lemma read_auto_blank trk :
  line_starts "track" trk = true ->
  read_auto None [] = AutoRows "bed3" [] /\ read_auto None [trk] = AutoRows "bed3" [].
Proof.
  intros H. split; [reflexivity|]. unfold read_auto.
  rewrite (sniff_skip None trk []) by auto. cbn [sniff_lines].
  unfold read_bed3, bed_body. rewrite (track_not_browser trk H), H. reflexivity.
Qed.

(* a written BED3 table under a browser and a track line is still detected as BED and read
   to the same table *)
Lemma auto_bed3_with_headers r t brw trk :
  sniff_row_ok r = true ->
  Forall (fun r => bed_name_ok (fst (fst (fst r))) = true) (r :: t) ->
  line_starts "browser " brw = true -> line_starts "track" trk = true ->
  sniff_lines None (brw :: trk :: write_bed3 (r :: t)) = Some (Fmt "bed") /\
  read_auto None (brw :: trk :: write_bed3 (r :: t))
  = AutoRows "bed" (sort_rows (map (fun r => (fst r, ["-"; "."]%string)) (r :: t))).
Proof.
  intros Hr H Hb Ht. destruct (auto_bed3 r t Hr H) as [S A].
  assert (S' : sniff_lines None (brw :: trk :: write_bed3 (r :: t)) = Some (Fmt "bed")).
  { rewrite sniff_skip by auto. rewrite sniff_skip by auto. exact S. }
  split; [exact S'|]. unfold read_auto in *. rewrite S'. rewrite S in A.
  cbn [String.eqb Ascii.eqb Bool.eqb] in *.
  assert (P : Forall bed_plain_line (write_bed3 (r :: t))).
  { unfold write_bed3. apply bed_lines_ok; auto. intros [[[c s] e] ex]; reflexivity. }
  destruct (read_bed_headers (write_bed3 (r :: t)) brw trk [] P Hb Ht) as (E & _). rewrite E. exact A.
Qed.
