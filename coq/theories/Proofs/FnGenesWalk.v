(* C16 loop tie of CopyNumArray.by_gene: ONE ITERATION of

       for gene, gene_idx in gene_map.items():
           if gene not in ignore:
               if not len(gene_idx):
                   logging.warning(...)
                   continue
               start_idx = gene_idx[0]
               end_idx = gene_idx[-1] + 1
               if prev_idx < start_idx:
                   yield params.ANTITARGET_NAME, subgary.as_dataframe(subgary.data.iloc[prev_idx:start_idx])
               yield gene, subgary.as_dataframe(subgary.data.iloc[start_idx:end_idx])
               prev_idx = end_idx
       if prev_idx < len(subgary):
           yield params.ANTITARGET_NAME, subgary.as_dataframe(subgary.data.iloc[prev_idx:])

   is regenerated from the Python source on every run as Gen/FnGenesWalk.v (fn_walk_step: prev_idx
   after the iteration and the (name, a, b) triples it yields, a yielded table
   `subgary.as_dataframe(subgary.data.iloc[a:b])` being its two positions).
   Here: the generator -- the step folded over the gene map of one chromosome, every yielded (a, b)
   read as the positional, end-exclusive slice of the chromosome's rows, the telomere tail after the
   loop -- IS Model/Genes.v walk, hence by_gene_chrom.  Every entry of a gene map has at least one
   position (len(gene_idx) > 0: the logging branch is unreachable from _get_gene_map). *)
From CNV Require Import Base.Prelude Base.Str Gen.Params Gen.FnGenesWalk Model.Genes.

Local Open Scope Z_scope.

Section Walk.
Variable cnt : gentry -> Z.            (* len(gene_idx) of an entry *)
Hypothesis cnt_pos : forall e, 0 < cnt e.
Variable ignore : list string.
Variable rows : list bin.

Definition rows_of (y : string * Z * Z) : group :=
  let '(n, a, b) := y in (n, slice rows (Z.to_nat a) (Z.to_nat b)).

Definition step_on (prev : Z) (e : gentry) : Z * list (string * Z * Z) :=
  fn_walk_step prev (ge_name e) (negb (mem_string (ge_name e) ignore)) (cnt e)
               (Z.of_nat (ge_first e)) (Z.of_nat (ge_last e)) ANTITARGET_NAME.

(* Python's generator over the step, then the statement after the loop *)
Fixpoint py_walk (prev : Z) (m : list gentry) : list group :=
  match m with
  | [] => if prev <? Z.of_nat (length rows) then [(ANTITARGET_NAME, skipn (Z.to_nat prev) rows)] else []
  | e :: t => let '(prev', ys) := step_on prev e in map rows_of ys ++ py_walk prev' t
  end.

Lemma source_walk_step (prev : nat) g f l :
  step_on (Z.of_nat prev) (g, f, l)
  = if mem_string g ignore then (Z.of_nat prev, [])
    else (Z.of_nat (S l),
          (if Nat.ltb prev f then [(ANTITARGET_NAME, Z.of_nat prev, Z.of_nat f)] else [])
          ++ [(g, Z.of_nat f, Z.of_nat (S l))]).
Proof.
  unfold step_on, fn_walk_step, ge_name, ge_first, ge_last. cbn [fst snd].
  destruct (mem_string g ignore); [reflexivity|]. cbn [negb].
  assert (P := cnt_pos (g, f, l)).
  destruct (Z.eqb_spec (cnt (g, f, l)) 0) as [E|_]; [lia|]. cbn [negb].
  replace (Z.of_nat l + 1) with (Z.of_nat (S l)) by lia.
  destruct (Nat.ltb_spec prev f) as [H|H].
  - destruct (Z.ltb_spec (Z.of_nat prev) (Z.of_nat f)); [reflexivity | lia].
  - destruct (Z.ltb_spec (Z.of_nat prev) (Z.of_nat f)); [lia | reflexivity].
Qed.

Theorem source_walk m : forall prev : nat, walk ignore rows prev m = py_walk (Z.of_nat prev) m.
Proof.
  induction m as [|[[g f] l] t IH]; intro prev.
  - cbn [walk py_walk]. rewrite Nat2Z.id.
    destruct (Nat.ltb_spec prev (length rows)), (Z.ltb_spec (Z.of_nat prev) (Z.of_nat (length rows)));
      try reflexivity; lia.
  - cbn [walk py_walk]. rewrite source_walk_step.
    destruct (mem_string g ignore).
    + cbn [map app]. apply IH.
    + rewrite <- IH. rewrite map_app. cbn [map rows_of]. rewrite !Nat2Z.id.
      destruct (Nat.ltb prev f); cbn [map rows_of app]; rewrite ?Nat2Z.id; reflexivity.
Qed.

End Walk.

(* by_gene within one chromosome, for every positive count function (e.g. the constant 1) *)
Theorem source_by_gene_chrom cnt ign rows : (forall e, 0 < cnt e) ->
  by_gene_chrom ign rows = py_walk cnt ign rows 0 (gene_map rows).
Proof. intro H. unfold by_gene_chrom. exact (source_walk cnt H ign rows (gene_map rows) 0%nat). Qed.
