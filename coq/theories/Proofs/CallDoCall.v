(* C01 / C02: do_call as one function (Model/Baf.v: do_call_row / do_call_model) -- what the
   composition purity rewrite -> method -> allelic split returns per row, in terms of the
   specification functions of Spec/Call.v and Spec/CallThreshold.v. *)
From Coq Require Import Qround Qabs.
From CNV Require Import Base.Prelude Base.Str Gen.Params Gen.CallDefaults Model.Call Model.Threshold Model.Baf
  Spec.Call Spec.CallThreshold Proofs.CallNum Proofs.Call Proofs.CallThreshold Proofs.CallThresholdDefaults.
From Coq Require Import Lqa.   (* after Prelude: `lra` over Q *)

Local Open Scope Z_scope.

(* the row of the clonal model (Model/Call.v) a do_call row corresponds to *)
Definition in_row_of (r : dc_in) : in_row := (d_chrom r, d_lo r, d_hi r, d_e r).

Lemma dc_first_eq rows : dc_first rows = first_chrom (map in_row_of rows).
Proof. destruct rows as [|r rest]; reflexivity. Qed.

(* ---------------------------------------------------------------- table plumbing *)

Lemma Forall2_len {A B} (R : A -> B -> Prop) l l' : Forall2 R l l' -> length l = length l'.
Proof. induction 1; cbn [length]; congruence. Qed.

Lemma opt_all_Forall2{A B : Type} (f : A -> option B) (l : list A) : forall out,
  opt_all (map f l) = Some out -> Forall2 (fun a o => f a = Some o) l out.
Proof.
  induction l as [|a l IH]; intros out H; cbn [map opt_all] in H.
  - injection H as <-. constructor.
  - destruct (f a) as [b|] eqn:E; [|discriminate].
    destruct (opt_all (map f l)) as [r|] eqn:E2; [|discriminate].
    injection H as <-. constructor; [exact E | apply IH; reflexivity].
Qed.

(* the result has one row per input row, in order, each computed by do_call_row with the
   label of the FIRST row *)
Lemma do_call_model_rows m k purity hapx female build ts variants with_baf rows out :
  do_call_model m k purity hapx female build ts variants with_baf rows = DcOk out ->
  length out = length rows /\
  Forall2 (fun row o => do_call_row m k purity hapx female build ts variants with_baf (dc_first rows) row = Some o)
          rows out.
Proof.
  unfold do_call_model.
  destruct (match use_purity purity with Some _ => _ | None => _ end); [|discriminate].
  destruct (opt_all _) as [o|] eqn:E; [|discriminate].
  intro H; injection H as <-. pose proof (opt_all_Forall2 _ _ _ E) as F.
  split; [symmetry; exact (Forall2_len _ _ _ F) | exact F].
Qed.

(* the assertion fires exactly on the purity-adjusted path with an unsupported build *)
Lemma do_call_model_assert m k purity hapx female build ts variants with_baf rows :
  do_call_model m k purity hapx female build ts variants with_baf rows = DcAssert <->
  exists p b, use_purity purity = Some p /\ build = Some b /\ build_supported b = false.
Proof.
  unfold do_call_model. split.
  - destruct (use_purity purity) as [p|]; [destruct build as [b|]|].
    + destruct (build_supported b) eqn:E.
      * destruct (opt_all _); discriminate.
      * intros _. exists p, b. auto.
    + destruct (opt_all _); discriminate.
    + destruct (opt_all _); discriminate.
  - intros [p [b [-> [-> ->]]]]. reflexivity.
Qed.

(* rows never fail except through a NaN under the clonal method *)
Lemma do_call_row_total m k purity hapx female build ts variants with_baf first row :
  (m = MClonal -> d_log2 row <> None) ->
  exists o, do_call_row m k purity hapx female build ts variants with_baf first row = Some o.
Proof.
  intro Hn. unfold do_call_row, dc_purity_step.
  destruct m; destruct (use_purity purity) as [p|]; destruct (d_log2 row) as [v|] eqn:V;
    try (eexists; reflexivity); exfalso; apply Hn; reflexivity.
Qed.

(* ---------------------------------------------------------------- clonal *)

(* the (log2, 2^log2) the table holds after the purity step: what the threshold scan looks at
   and what the log2 column of the result contains *)
Definition dc_seen (purity : option Q) (row : dc_in) : option Q * Q :=
  match use_purity purity, d_log2 row with
  | Some _, Some _ => (Some (d_v2 row), d_e2 row)
  | _, _ => (d_log2 row, d_e row)
  end.


(* do_call(method="clonal") computes, row for row, what Model/Call.v's call_row computes *)
Lemma do_call_row_clonal k purity hapx female build ts variants with_baf first row v :
  d_log2 row = Some v ->
  exists o, do_call_row MClonal k purity hapx female build ts variants with_baf first row = Some o /\
    let c := call_row k purity hapx female build first (in_row_of row) in
    o_cn o = Some (cn_of c) /\ o_abs o = Some (abs_of c) /\ o_ratio o = ratio_of c /\
    o_alleles o = (if with_baf || variants
                   then Some (alleles (abs_of c) (dc_baf purity variants (d_baf row)) (cn_of c)) else None) /\
    o_log2 o = fst (dc_seen purity row).
Proof.
  intro V. unfold do_call_row, dc_purity_step, call_row, in_row_of, dc_seen. rewrite V.
  destruct (use_purity purity) as [p|].
  - unfold call_row_purity. destruct (ref_expect _ _ _ _) as [r x]. cbn [fst snd].
    eexists. split; [reflexivity|]. cbv zeta. unfold dc_finish, cn_of, abs_of, ratio_of. cbn [fst snd o_cn o_abs o_ratio o_alleles o_log2].
    repeat split; reflexivity.
  - unfold call_row_pure. cbn [fst snd].
    eexists. split; [reflexivity|]. cbv zeta. unfold dc_finish, cn_of, abs_of, ratio_of. cbn [fst snd o_cn o_abs o_ratio o_alleles o_log2].
    repeat split; reflexivity.
Qed.

Lemma call_row_purity_abs_nonneg k p hapx female c e : (0 <= abs_of (call_row_purity k p hapx female c e))%Q.
Proof.
  unfold call_row_purity. destruct (ref_expect _ _ _ _) as [r x]. unfold abs_of. cbn [fst snd].
  apply (qmax_ge_r _ clip_lower).
Qed.

(* end to end: a row generated from the mixing model is called n, its log2 is rewritten to
   the pure n-copy ratio (even ploidy, purity-adjusted path) or left alone (no purity), and
   a present allelic split adds up to n *)
Theorem do_call_clonal_spec k purity hapx female build ts variants with_baf first row v n r x :
  d_log2 row = Some v -> valid_purity purity -> 0 <= n ->
  row_copies k purity hapx female build first (in_row_of row) = (r, x) -> 0 < r ->
  (d_e row == mix n (mix_purity purity) r x)%Q ->
  exists o, do_call_row MClonal k purity hapx female build ts variants with_baf first row = Some o /\
    o_cn o = Some n /\
    (forall p, use_purity purity = Some p -> 0 < k -> Z.even k = true ->
       exists q, o_ratio o = Some q /\ (q == spec_rescaled n k r min_abs_val)%Q) /\
    (use_purity purity = None -> o_ratio o = None /\ o_log2 o = d_log2 row) /\
    (forall c1 c2, o_alleles o = Some (Some c1, Some c2) -> c1 + c2 = n /\ 0 <= c1 <= n /\ 0 <= c2 <= n).
Proof.
  intros V Hv Hn Hc Hr He.
  destruct (do_call_row_clonal k purity hapx female build ts variants with_baf first row v V)
    as [o [Ho [Hcn [Habs [Hratio [Hall Hlog]]]]]].
  cbv zeta in Hcn, Habs, Hratio, Hall.
  assert (CN : cn_of (call_row k purity hapx female build first (in_row_of row)) = n).
  { unfold in_row_of. apply (cn_exact k purity hapx female build first _ _ _ _ n r x); assumption. }
  exists o. split; [exact Ho|]. split; [rewrite Hcn, CN; reflexivity|]. split; [|split].
  - intros p U Hk Ev. rewrite Hratio. unfold call_row, in_row_of. rewrite U.
    unfold row_copies, in_row_of in Hc. rewrite U in Hc.
    destruct (use_purity_some _ _ U) as [-> [Hp0 Hp1]]. cbn [mix_purity valid_purity] in *.
    apply (rescaled_spec k p hapx female _ (d_e row) n r x); try assumption. apply Hv.
  - intro U. split.
    + rewrite Hratio. unfold call_row, in_row_of. rewrite U. reflexivity.
    + rewrite Hlog. unfold dc_seen. rewrite U. reflexivity.
  - intros c1 c2 A. rewrite Hall in A. destruct (with_baf || variants); [|discriminate].
    rewrite CN in A. injection A as A. apply (alleles_sum _ _ n c1 c2 Hn A).
Qed.

(* ---------------------------------------------------------------- threshold *)

Lemma do_call_row_threshold k purity hapx female build ts variants with_baf first row :
  exists o, do_call_row MThreshold k purity hapx female build ts variants with_baf first row = Some o /\
    let '(v1, e1) := dc_seen purity row in
    let cn := thr_cn v1 e1 ts k (ref_pure (d_chrom row) k hapx) in
    o_log2 o = v1 /\ o_cn o = Some cn /\ o_abs o = Some (inject_Z cn) /\
    o_baf o = (if with_baf || variants then dc_baf purity variants (d_baf row) else None) /\
    o_alleles o = (if with_baf || variants
                   then Some (alleles (inject_Z cn) (dc_baf purity variants (d_baf row)) cn) else None).
Proof.
  unfold do_call_row, dc_purity_step, dc_seen.
  destruct (use_purity purity) as [p|]; destruct (d_log2 row) as [v|];
    (eexists; split; [reflexivity|]); unfold dc_finish; cbn [o_log2 o_cn o_abs o_baf o_alleles];
    rewrite round_he_Z; repeat split; reflexivity.
Qed.

(* no purity adjustment: the cn column is the property's step function of the log2 column,
   the log2 column is untouched, and the allelic split is `alleles` of the integer cn *)
Theorem do_call_threshold_spec k purity hapx female build ts variants with_baf first row :
  use_purity purity = None -> strictly_increasing ts -> 0 < k ->
  exists o, do_call_row MThreshold k purity hapx female build ts variants with_baf first row = Some o /\
    let r := ref_pure (d_chrom row) k hapx in
    let cn := match d_log2 row with Some v => spec_thr v (d_e row) ts k r | None => r end in
    o_log2 o = d_log2 row /\ o_ratio o = None /\ o_cn o = Some cn /\
    o_baf o = (if with_baf || variants then d_baf row else None) /\
    o_alleles o = (if with_baf || variants then Some (alleles (inject_Z cn) (d_baf row) cn) else None).
Proof.
  intros U Hs Hk.
  destruct (do_call_row_threshold k purity hapx female build ts variants with_baf first row) as [o [Ho H]].
  exists o. split; [exact Ho|]. unfold dc_seen in H. rewrite U in H. cbv zeta in *.
  destruct H as [H1 [H2 [H3 [H4 H5]]]].
  assert (R0 : 0 <= ref_pure (d_chrom row) k hapx) by (apply ref_pure_nonneg; lia).
  assert (CN : thr_cn (d_log2 row) (d_e row) ts k (ref_pure (d_chrom row) k hapx)
               = match d_log2 row with
                 | Some v => spec_thr v (d_e row) ts k (ref_pure (d_chrom row) k hapx)
                 | None => ref_pure (d_chrom row) k hapx
                 end).
  { destruct (d_log2 row) as [v|]; [apply thr_spec; assumption | reflexivity]. }
  unfold dc_baf in H4, H5. rewrite U in H4, H5. rewrite CN in H2, H5.
  split; [exact H1|]. split.
  - unfold do_call_row, dc_purity_step in Ho. rewrite U in Ho.
    destruct (d_log2 row); cbn in Ho; injection Ho as <-; reflexivity.
  - split; [exact H2|]. split; [exact H4 | exact H5].
Qed.

(* a missing log2 yields the neutral reference copy number whatever purity is given *)
Theorem do_call_threshold_nan k purity hapx female build ts variants with_baf first row :
  d_log2 row = None ->
  exists o, do_call_row MThreshold k purity hapx female build ts variants with_baf first row = Some o /\
    o_cn o = Some (ref_pure (d_chrom row) k hapx) /\ o_log2 o = None /\ o_ratio o = None.
Proof.
  intro V. unfold do_call_row, dc_purity_step. rewrite V.
  destruct (use_purity purity) as [p|]; (eexists; split; [reflexivity|]);
    unfold dc_finish; cbn [o_cn o_log2 o_ratio thr_cn]; rewrite round_he_Z; repeat split; reflexivity.
Qed.

(* ---------------------------------------------------------------- purity, then threshold *)

Lemma rescaled_pos a k sh : (0 < rescaled a k sh)%Q.
Proof.
  rewrite rescaled_eq. pose proof (qmax_ge_r (a / inject_Z k) min_abs_val) as H.
  pose proof min_abs_pos as M. destruct sh; nra.
Qed.

Lemma dc_ratio_some k p hapx female c e :
  exists q, dc_ratio k p hapx female c e = Some q /\ (0 < q)%Q.
Proof.
  unfold dc_ratio, call_row_purity. destruct (ref_expect _ _ _ _) as [r x]. cbn [snd].
  eexists. split; [reflexivity | apply rescaled_pos].
Qed.

(* With purity < 1 the threshold scan runs on the REWRITTEN log2: for every oracle pair with
   exp2 (log2 y) == y on y > 0, if the row carries v2 = log2 q and e2 = exp2 v2 for the
   rewritten ratio q of the C01 path, then the log2 column becomes log2 q, cn is the step
   function at log2 q (with 2^ of it == q above the last threshold), and q is the ratio
   C01_rescaled_log2 speaks about. *)
Theorem purity_then_threshold (log2f exp2f : Q -> Q) :
  (forall y, (0 < y)%Q -> (exp2f (log2f y) == y)%Q) ->
  forall k purity p hapx female build ts variants with_baf first row v q,
    use_purity purity = Some p -> d_log2 row = Some v ->
    let c := row_class build first (d_chrom row) (d_lo row) (d_hi row) in
    dc_ratio k p hapx female c (d_e row) = Some q ->
    d_v2 row = log2f q -> d_e2 row = exp2f (d_v2 row) ->
    exists o, do_call_row MThreshold k purity hapx female build ts variants with_baf first row = Some o /\
      let rp := ref_pure (d_chrom row) k hapx in
      o_ratio o = Some q /\ o_log2 o = Some (log2f q) /\ (0 < q)%Q /\ (d_e2 row == q)%Q /\
      o_cn o = Some (thr_cn (Some (log2f q)) (d_e2 row) ts k rp) /\
      (strictly_increasing ts -> 0 < k -> o_cn o = Some (spec_thr (log2f q) (d_e2 row) ts k rp)) /\
      (above_all (log2f q) ts -> o_cn o = Some (Qceiling (inject_Z rp * q))) /\
      (forall n r x, 0 < k -> Z.even k = true -> (0 < p)%Q -> 0 <= n ->
         ref_expect k hapx female c = (r, x) -> 0 < r -> (d_e row == mix n p r x)%Q ->
         (q == spec_rescaled n k r min_abs_val)%Q).
Proof.
  intros Hor k purity p hapx female build ts variants with_baf first row v q U V c Hq Hv2 He2.
  destruct (do_call_row_threshold k purity hapx female build ts variants with_baf first row) as [o [Ho H]].
  exists o. split; [exact Ho|]. unfold dc_seen in H. rewrite U, V in H. cbv zeta in *.
  destruct H as [H1 [H2 _]].
  destruct (dc_ratio_some k p hapx female c (d_e row)) as [q' [Hq' Qpos]].
  rewrite Hq in Hq'. injection Hq' as <-.
  assert (E2 : (d_e2 row == q)%Q) by (rewrite He2, Hv2; apply Hor; exact Qpos).
  split.
  { unfold do_call_row, dc_purity_step in Ho. rewrite U, V in Ho. cbn in Ho. injection Ho as <-.
    cbn [o_ratio dc_finish]. exact Hq. }
  split; [rewrite H1, Hv2; reflexivity|]. split; [exact Qpos|]. split; [exact E2|].
  rewrite Hv2 in H2. split; [exact H2|]. split; [|split].
  - intros Hs Hk. rewrite H2. f_equal. apply thr_spec; [exact Hs | apply ref_pure_nonneg; lia | exact Hk].
  - intro Ha. rewrite H2. f_equal. rewrite (thr_above _ _ _ _ _ Ha). apply Qceiling_comp. rewrite E2. reflexivity.
  - intros n r x Hk Ev Hp Hn Hc Hr He.
    destruct (rescaled_spec k p hapx female c (d_e row) n r x Hk Ev Hp Hn Hc Hr He) as [q2 [A B]].
    unfold dc_ratio in Hq. unfold ratio_of in A. rewrite Hq in A. injection A as <-. exact B.
Qed.

(* the baf column on the purity-adjusted path: rescaled exactly when it came from variants *)
Lemma dc_baf_cases purity variants b :
  dc_baf purity variants b =
  match use_purity purity with
  | Some p => if variants then rescale_baf p b else b
  | None => b
  end.
Proof. reflexivity. Qed.

Lemma do_call_model_len m k purity hapx female build ts variants with_baf rows out :
  do_call_model m k purity hapx female build ts variants with_baf rows = DcOk out ->
  length out = length rows.
Proof. intro H. exact (proj1 (do_call_model_rows _ _ _ _ _ _ _ _ _ _ _ H)). Qed.
