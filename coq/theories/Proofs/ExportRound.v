(* C20: the tie-breaking rule of the copy number.  numpy's round (Model/Call.v round_he) is
   round-half-to-even; `half_even n x` (Spec/Export.v: n nearest to x, even on an exact tie)
   determines n, and round_he is that n. *)
From Coq Require Import Qabs Qround.
From CNV Require Import Base.Prelude Model.Call Spec.Call Proofs.CallNum Spec.Export.
From Coq Require Import Lqa.   (* after Prelude: `lra` must be the one over Q *)

Local Open Scope Q_scope.

Lemma qabs_le_iff (x y : Q) : Qabs x <= y <-> - y <= x /\ x <= y.
Proof. apply Qabs_Qle_condition. Qed.

Lemma qabs_cases (x : Q) : (0 <= x /\ Qabs x == x) \/ (x <= 0 /\ Qabs x == - x).
Proof.
  destruct (Qlt_le_dec x 0) as [H|H].
  - right. split; [lra|]. apply Qabs_neg. lra.
  - left. split; [exact H|]. apply Qabs_pos. exact H.
Qed.

(* the exact tie: q = f + 1/2 -- round_he takes the even one of f, f + 1 *)
Lemma round_he_tie q :
  q - inject_Z (Qfloor q) == 1 # 2 ->
  round_he q = (if Z.even (Qfloor q) then Qfloor q else Qfloor q + 1)%Z.
Proof.
  intro H. unfold round_he.
  assert (E : (q - inject_Z (Qfloor q) ?= 1 # 2) = Eq) by (apply Qeq_alt; exact H).
  rewrite E. reflexivity.
Qed.

Lemma round_he_half_even q : half_even (round_he q) q.
Proof.
  split; [apply round_he_nearest|].
  intro T. destruct (Qfloor_bounds q) as [F1 F2].
  destruct (round_he_cases q) as [[H E]|[[H E]|[H _]]].
  - exfalso. rewrite E in T. destruct (qabs_cases (inject_Z (Qfloor q) - q)) as [[B A]|[B A]]; rewrite A in T; lra.
  - exfalso. rewrite E, inject_Z_plus in T. change (inject_Z 1) with 1 in T.
    destruct (qabs_cases (inject_Z (Qfloor q) + 1 - q)) as [[B A]|[B A]]; rewrite A in T; lra.
  - rewrite (round_he_tie q H). destruct (Z.even (Qfloor q)) eqn:Ev; [exact Ev|].
    rewrite Z.even_add, Ev. reflexivity.
Qed.

Lemma inject_Z_lt_inv (a b : Z) : inject_Z a < inject_Z b -> (a < b)%Z.
Proof. intro H. apply (proj2 (inject_Z_lt a b)). exact H. Qed.

(* two integers both within 1/2 of x differ by at most 1; if they differ, both are exact
   ties, and only one of two neighbours is even *)
Lemma half_even_unique n m x : half_even n x -> half_even m x -> n = m.
Proof.
  intros [Nn Tn] [Nm Tm]. unfold nearest in *.
  apply qabs_le_iff in Nn. apply qabs_le_iff in Nm.
  assert (D1 : (n < m + 2)%Z).
  { apply inject_Z_lt_inv. rewrite inject_Z_plus. change (inject_Z 2) with 2. lra. }
  assert (D2 : (m < n + 2)%Z).
  { apply inject_Z_lt_inv. rewrite inject_Z_plus. change (inject_Z 2) with 2. lra. }
  destruct (Z.eq_dec n m) as [E|NE]; [exact E|exfalso].
  assert (C : (n = m + 1 \/ m = n + 1)%Z) by lia.
  destruct C as [C|C]; subst.
  - assert (X : x == inject_Z m + (1 # 2)).
    { rewrite inject_Z_plus in Nn. change (inject_Z 1) with 1 in Nn. lra. }
    assert (En : Z.even (m + 1) = true).
    { apply Tn. rewrite inject_Z_plus. change (inject_Z 1) with 1.
      destruct (qabs_cases (inject_Z m + 1 - x)) as [[B A]|[B A]]; rewrite A; lra. }
    assert (Em : Z.even m = true).
    { apply Tm. destruct (qabs_cases (inject_Z m - x)) as [[B A]|[B A]]; rewrite A; lra. }
    rewrite Z.even_add, Em in En. discriminate.
  - assert (X : x == inject_Z n + (1 # 2)).
    { rewrite inject_Z_plus in Nm. change (inject_Z 1) with 1 in Nm. lra. }
    assert (Em : Z.even (n + 1) = true).
    { apply Tm. rewrite inject_Z_plus. change (inject_Z 1) with 1.
      destruct (qabs_cases (inject_Z n + 1 - x)) as [[B A]|[B A]]; rewrite A; lra. }
    assert (En : Z.even n = true).
    { apply Tn. destruct (qabs_cases (inject_Z n - x)) as [[B A]|[B A]]; rewrite A; lra. }
    rewrite Z.even_add, En in Em. discriminate.
Qed.

(* the rule determines the integer: it is numpy's round *)
Lemma half_even_iff n x : half_even n x <-> n = round_he x.
Proof.
  split.
  - intro H. apply (half_even_unique n (round_he x) x H (round_he_half_even x)).
  - intros ->. apply round_he_half_even.
Qed.

(* ---------------------------------------------------------------- the copy number column *)

From CNV Require Import Proofs.Call Model.Export Proofs.ExportBed.

(* without a cn column: the nearest integer to r * 2^log2, ties to the even one *)
Lemma ncopies_half_even st lb k hapx female s :
  half_even (sp_ncopies st lb k hapx female false s)
            (inject_Z (sp_reference st lb k hapx female s) * s_e s).
Proof. unfold sp_ncopies. apply round_he_half_even. Qed.

(* the model's column is numpy's round of r * 2^log2, row by row *)
Lemma ncopies_col_round_he st c rows :
  consistent st (seg_first rows) -> build_ok (c_build c) -> c_has_cn c = false ->
  ncopies_col c (seg_first rows) rows
  = map (fun s => round_he (inject_Z (sp_reference st (lower_build (c_build c)) (c_k c) (c_hapx c) (c_female c) s) * s_e s)) rows.
Proof.
  intros Hc Hb Hn. rewrite ncopies_col_map. apply map_ext. intro s.
  rewrite (m_ncopies_spec st c rows Hc Hb s). unfold sp_ncopies. now rewrite Hn.
Qed.

Lemma ncopies_half_even_cfg st c s :
  c_has_cn c = false ->
  half_even (sp_ncopies st (lower_build (c_build c)) (c_k c) (c_hapx c) (c_female c) (c_has_cn c) s)
            (inject_Z (sp_reference st (lower_build (c_build c)) (c_k c) (c_hapx c) (c_female c) s) * s_e s).
Proof. intro H. rewrite H. apply ncopies_half_even. Qed.
