(* C15 function-body tie of compare_to_auto (nested in CopyNumArray.compare_sex_chromosomes, cnvlib/cnary.py), translated
   WHOLE on every run (Gen/FnCnaryMood.v): the try / except ValueError / else around scipy's median_test, the rule
   `stat == 0 and 0 in cont`, and the weighted / plain difference of medians.

   Model/Sex.v's mood_stat is the first component of the generated function and med_diff the second, once the opaque
   inputs are what the model computes: median_test raises ValueError exactly when a sample is empty or the
   contingency table has an empty row / column ([mood_raises]), its statistic is the oracle on the table, `0 in cont`
   is table_has_zero; the medians are the model's. *)
From Coq Require Import Qabs.
From CNV Require Import Base.Prelude Base.Str Base.QNum Proofs.QNumLemmas Gen.CenterDefaults Model.Center Model.Sex
  Gen.FnCnaryMood.
Local Open Scope Q_scope.

(* when scipy's median_test raises ValueError, as the model has it *)
Definition mood_raises (s1 s2 : list Q) : bool :=
  match s1, s2 with
  | [], _ => true
  | _, [] => true
  | _, _ => negb (mood_valid (mood_table s1 s2))
  end.

Theorem fn_mood_stat_eq gstat s1 s2 p med cont use wa wv ma mv :
  mood_stat gstat s1 s2 =
  fst (fn_compare_to_auto (mood_raises s1 s2) (gstat (mood_table s1 s2)) p med cont
                          (table_has_zero (mood_table s1 s2)) use wa wv ma mv).
Proof.
  unfold mood_stat, mood_raises, fn_compare_to_auto.
  destruct s1 as [|a s1]; [reflexivity|]. destruct s2 as [|b s2]; [reflexivity|].
  cbv zeta. destruct (mood_valid (mood_table (a :: s1) (b :: s2))); cbn [negb fst]; [|reflexivity].
  unfold qeq_b. change (inject_Z 0) with 0.
  destruct (Qeq_bool (gstat (mood_table (a :: s1) (b :: s2))) 0 && table_has_zero (mood_table (a :: s1) (b :: s2)));
    reflexivity.
Qed.

(* the difference of medians: weighted medians when the table has a weight column (use = true), plain otherwise;
   whatever median_test did *)
Theorem fn_med_diff_eq raised st p med cont zc (use : bool) auto_l aw vals vw :
  med_diff auto_l (if use then Some aw else None) vals (if use then Some vw else None) ==
  snd (fn_compare_to_auto raised st p med cont zc use (wmed auto_l aw) (wmed vals vw) (median auto_l) (median vals)).
Proof.
  unfold med_diff, fn_compare_to_auto, qabs, qsub. cbv zeta.
  destruct raised, use; cbn [snd]; rewrite Qred_correct; reflexivity.
Qed.
