(* C15 function-body tie of GenomicArray.autosomes (skgenome/gary.py), the WHOLE function, translated on every run
   (Gen/FnGaryAutosomes.v) and read per row as "the row is in the returned table":

       is_auto = self.chromosome.str.match(r"(chr)?\d+$", na=False)
       if not is_auto.any(): return self
       if also is not None:
           if isinstance(also, pd.Series): is_auto |= also
           else: <names of further chromosomes: an opaque range, not used by cnvlib/cnary.py>
       return self[is_auto]

   The selection the model makes (Model/Center.v autosomes: the table itself when no chromosome has a numeric name, else
   the rows with a numeric name or an `also` bit) is the filter by the generated row function; the regular expression
   match is the model's is_auto_bin (an input here: the regex itself is tied by Gen/CenterDefaults.v autosome_regex and
   the correspondence check). *)
From CNV Require Import Base.Prelude Base.Str Base.QNum Gen.CenterDefaults Model.Center Gen.FnGaryAutosomes.

(* gary.autosomes with a mask `also` (None: not given) *)
Definition gary_autosomes (t : list bin) (also : option (bin -> bool)) : list bin :=
  if existsb is_auto_bin t
  then filter (fun b => is_auto_bin b || match also with Some f => f b | None => false end) t
  else t.

Lemma filter_all_true {A} (f : A -> bool) l : (forall x, In x l -> f x = true) -> filter f l = l.
Proof.
  induction l as [|a l IH]; intros H; cbn [filter]; [reflexivity|].
  rewrite (H a (or_introl eq_refl)). f_equal. apply IH. intros x Hx. apply H. right. exact Hx.
Qed.

(* the row function: `also` is a Series whenever it is given (as from cnary.py) *)
Definition gary_keep (t : list bin) (also : option (bin -> bool)) (na aa : bool) (b : bin) : bool :=
  fn_gary_autosomes (is_auto_bin b) (existsb is_auto_bin t)
                    (match also with Some f => Some (f b) | None => None end) true na aa.

Theorem fn_gary_autosomes_eq t also na aa :
  gary_autosomes t also = filter (gary_keep t also na aa) t.
Proof.
  unfold gary_autosomes, gary_keep, fn_gary_autosomes.
  destruct (existsb is_auto_bin t); cbn [negb].
  - apply filter_ext. intros b. destruct also as [f|]; cbv zeta.
    + reflexivity.
    + apply orb_false_r.
  - symmetry. apply filter_all_true. reflexivity.
Qed.

(* the model's autosomes is gary.autosomes with the PAR-X mask of the build as `also` (none without a build) *)
Lemma autosomes_as_gary t build :
  autosomes t build = gary_autosomes t (match build with Some p => Some (parx_filter t p) | None => None end).
Proof. unfold autosomes, gary_autosomes, auto_sel. destruct build; reflexivity. Qed.
