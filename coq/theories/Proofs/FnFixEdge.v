(* C04 loop tie of get_edge_bias: the body of

       for _chrom, subarr in cnarr.by_chromosome():
           tile_starts = subarr["start"].values
           tile_ends = subarr["end"].values
           tgt_sizes = tile_ends - tile_starts
           losses = edge_losses(tgt_sizes, margin)
           gap_sizes = tile_starts[1:] - tile_ends[:-1]
           ok_gaps_mask = gap_sizes < margin
           ok_gaps = gap_sizes[ok_gaps_mask]
           left_gains = edge_gains(tgt_sizes[1:][ok_gaps_mask], ok_gaps, margin)
           right_gains = edge_gains(tgt_sizes[:-1][ok_gaps_mask], ok_gaps, margin)
           gains = np.zeros(len(subarr))
           gains[np.concatenate([[False], ok_gaps_mask])] += left_gains
           gains[np.concatenate([ok_gaps_mask, [False]])] += right_gains
           output_by_chrom.append(gains - losses)

   is regenerated from the Python source on every run as Gen/FnFixEdge.v, read per GAP between consecutive
   tiles (fn_edge_gap: the shifted slices x[1:] / x[:-1] are the tile after / before the gap) and per TILE
   (fn_edge_tile: size, loss, the two masked `+=`, the appended value; the position masks are opaque
   booleans "the gap on my left / right is ok").
   Here: Model/Fix.v edge_go IS these two readings composed along a chromosome: every tile's value is the
   generated per-tile value fed with the generated per-gap values of the gaps on its two sides. *)
From Coq Require Import Qabs Lqa.
From CNV Require Import Base.Prelude Base.Str Base.QNum Gen.Params Gen.FixDefaults Gen.FnFix Gen.FnFixEdge
  Model.Fix Proofs.FixFn.

Local Open Scope Z_scope.

(* the two scalar functions are translated a second time inside this module (calls are resolved per module) *)
Lemma fn_edge_losses_same t i : fn_edge_losses_ t i = fn_edge_losses t i.
Proof. reflexivity. Qed.
Lemma fn_edge_gains_same t g i : fn_edge_gains_ t g i = fn_edge_gains t g i.
Proof. reflexivity. Qed.

(* the value of one tile [s, e) whose left neighbour ends at pe (size psz) and whose right neighbour is [s2, e2) *)
Definition py_tile (prev : option (Z * Z)) (s e : Z) (next : option (Z * Z)) : Q :=
  let tsz := e - s in
  let '(okl, lgain, _) := match prev with
                          | Some (ps, pe) => fn_edge_gap s pe tsz (pe - ps) INSERT_SIZE
                          | None => (false, 0%Q, 0%Q)
                          end in
  let '(okr, _, rgain) := match next with
                          | Some (s2, e2) => fn_edge_gap s2 e (e2 - s2) tsz INSERT_SIZE
                          | None => (false, 0%Q, 0%Q)
                          end in
  hd 0%Q (fn_edge_tile s e INSERT_SIZE 0 lgain rgain 0%Q okl okr).

Fixpoint py_edge_go (prev : option (Z * Z)) (l : list (Z * Z)) : list Q :=
  match l with
  | [] => []
  | (s, e) :: t => py_tile prev s e (hd_error t) :: py_edge_go (Some (s, e)) t
  end.

Lemma py_tile_value prev s e next :
  (py_tile prev s e next ==
   (match prev with
    | Some (_, pe) => if s - pe <? INSERT_SIZE then edge_gain (e - s) (s - pe) else 0
    | None => 0
    end)
   + (match next with
      | Some (s2, _) => if s2 - e <? INSERT_SIZE then edge_gain (e - s) (s2 - e) else 0
      | None => 0
      end)
   - edge_loss (e - s))%Q.
Proof.
  unfold py_tile.
  destruct prev as [[ps pe]|]; destruct next as [[s2 e2]|]; unfold fn_edge_tile, fn_edge_gap;
    cbv beta iota zeta delta [hd app];
    repeat match goal with |- context [if ?b then _ else _] => destruct b end;
    change fn_edge_gains_ with fn_edge_gains; change fn_edge_losses_ with fn_edge_losses;
    rewrite <- ?fn_edge_losses_eq; repeat rewrite <- fn_edge_gains_eq; ring.
Qed.

Theorem source_edge_go l : forall prev : option (Z * Z),
  Forall2 Qeq (edge_go (option_map snd prev) l) (py_edge_go prev l).
Proof.
  induction l as [|[s e] t IH]; intro prev; [constructor|].
  cbn [edge_go py_edge_go]. constructor.
  - rewrite py_tile_value, Qred_correct.
    destruct prev as [[ps pe]|]; destruct t as [|[s2 e2] t']; cbn [option_map snd hd_error]; reflexivity.
  - exact (IH (Some (s, e))).
Qed.
