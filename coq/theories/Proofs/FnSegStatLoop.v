(* C17 source tie [loop ties e2]: do_segmetrics' statistic loops

       stat_funcs = {"mean": np.mean, "median": np.median, "mode": descriptives.modal_location, "p_ttest": lambda ..,
                     "stdev": np.std, "mad": ..median_absolute_deviation, "mse": ..mean_squared_error,
                     "iqr": ..interquartile_range, "bivar": ..biweight_midvariance, "sem": stats.sem, "ci": .., "pi": ..}
       for statname in location_stats:
           func = stat_funcs[statname]
           segarr[statname] = np.fromiter(map(func, bins_log2s), np.float64, len(segarr))
       for statname in spread_stats:   ... the same over `deviations`

   ONE ITERATION of each loop, read for one segment row, is regenerated from the Python source on every run
   (Gen/FnSegStatLoop.v fn_location_step / fn_spread_step: the new entry of column `statname`, the dict display being a
   constant table).  Here: with the model's statistics standing for the library functions, the step looks up exactly the
   statistic Model/Segmetrics.v loc_stat / spread_stat names and applies it to the row's bins / deviations, and the
   model's named_stats IS the step taken once per requested name. *)
From CNV Require Import Base.Prelude Base.QNum Gen.DescDefaults Gen.SegmetricsDefaults Gen.FnSegStatLoop
  Model.Ranges Model.Descriptives Model.Segmetrics.
Local Open Scope Q_scope.

(* the library functions of the dict display, as the model reads them (squares for stdev / bivar / sem: the model's
   convention; the two interval functions are never looked up by a name the model accepts) *)
Definition src_location (O : oracles) (ci pi : list Q -> option Q) (nm : string) (vals : list Q) : option Q :=
  fn_location_step nm vals st_mean st_median (st_mode (o_kde O)) (st_pttest (o_tt O))
                   st_stdev_sq st_mad st_mse st_iqr (st_bivar_sq (o_biloc O)) st_sem_sq ci pi.
Definition src_spread (O : oracles) (ci pi : list Q -> option Q) (nm : string) (devs : list Q) : option Q :=
  fn_spread_step nm devs st_mean st_median (st_mode (o_kde O)) (st_pttest (o_tt O))
                 st_stdev_sq st_mad st_mse st_iqr (st_bivar_sq (o_biloc O)) st_sem_sq ci pi.

Ltac name_case nm s :=
  destruct (String.eqb_spec nm s) as [->|_]; [cbn; congruence|].

Theorem source_location_stat O ci pi nm f vals :
  loc_stat O nm = Some f -> src_location O ci pi nm vals = f vals.
Proof.
  unfold loc_stat, src_location, fn_location_step.
  name_case nm "mean"%string.
  name_case nm "median"%string.
  name_case nm "mode"%string.
  name_case nm "p_ttest"%string.
  discriminate.
Qed.

Theorem source_spread_stat O ci pi nm f devs :
  spread_stat O nm = Some f -> src_spread O ci pi nm devs = f devs.
Proof.
  unfold spread_stat, src_spread, fn_spread_step.
  name_case nm "mean"%string. name_case nm "median"%string. name_case nm "mode"%string. name_case nm "p_ttest"%string.
  name_case nm "stdev"%string.
  name_case nm "mad"%string.
  name_case nm "mse"%string.
  name_case nm "iqr"%string.
  name_case nm "bivar"%string.
  name_case nm "sem"%string.
  discriminate.
Qed.

(* the loop: one column assignment per requested name, in order *)
Lemma named_stats_step (tbl : string -> option (list Q -> option Q)) (step : string -> list Q -> option Q) names arg :
  (forall nm f, tbl nm = Some f -> step nm arg = f arg) ->
  (forall nm, In nm names -> tbl nm <> None) ->
  named_stats tbl names arg = map (fun nm => (nm, step nm arg)) names.
Proof.
  intros Hs. unfold named_stats. induction names as [|nm t IH]; intro Hk; [reflexivity|].
  cbn [map concat]. rewrite IH by (intros; apply Hk; now right).
  destruct (tbl nm) as [f|] eqn:E; [|exfalso; apply (Hk nm); [now left|exact E]].
  rewrite (Hs nm f E). reflexivity.
Qed.

Theorem source_location_loop O ci pi names vals :
  (forall nm, In nm names -> loc_stat O nm <> None) ->
  named_stats (loc_stat O) names vals = map (fun nm => (nm, src_location O ci pi nm vals)) names.
Proof. apply named_stats_step. intros nm f. apply source_location_stat. Qed.

Theorem source_spread_loop O ci pi names devs :
  (forall nm, In nm names -> spread_stat O nm <> None) ->
  named_stats (spread_stat O) names devs = map (fun nm => (nm, src_spread O ci pi nm devs)) names.
Proof. apply named_stats_step. intros nm f. apply source_spread_stat. Qed.
