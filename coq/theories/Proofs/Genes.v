(* Proofs for C16, part 2: the walk of by_gene over the gene map yields a correct
   grouping (Spec.Genes.partition_spec) of a chromosome's bins whenever the gene
   spans are disjoint; by_chromosome; the whole-table statement. *)
From CNV Require Import Base.Prelude Base.Str Gen.Params Model.Genes Spec.Genes Proofs.GenesMap.

Local Open Scope nat_scope.

Lemma anti_name : ANTITARGET_NAME = "Antitarget"%string.
Proof. reflexivity. Qed.

Lemma In_nth_error_slice {A} (l : list A) a b x :
  b <= length l -> In x (slice l a b) -> exists i, a <= i < b /\ nth_error l i = Some x.
Proof.
  intros Hb Hin. apply In_nth_error in Hin as [k Hk].
  assert (Hlt : k < b - a).
  { rewrite <- (slice_length l a b Hb). apply nth_error_Some. congruence. }
  rewrite nth_error_slice in Hk by assumption.
  exists (a + k). split; [lia | assumption].
Qed.

Lemma In_nth_error_skipn {A} (l : list A) a x :
  In x (skipn a l) -> exists i, a <= i /\ nth_error l i = Some x.
Proof.
  intros Hin. apply In_nth_error in Hin as [k Hk].
  rewrite nth_error_skipn_add in Hk. exists (a + k). split; [lia | assumption].
Qed.

Lemma NoDup_map_filter {A B} (f : A -> B) (p : A -> bool) l :
  NoDup (map f l) -> NoDup (map f (filter p l)).
Proof.
  induction l as [|x t IH]; intros H; cbn [filter map]; [constructor|].
  cbn [map] in H. inversion H as [|? ? Hx Ht]; subst.
  destruct (p x); cbn [map]; [|apply IH; assumption].
  constructor; [|apply IH; assumption].
  intros Hin. apply Hx. apply in_map_iff in Hin as (y & Hy & Hyin).
  apply filter_In in Hyin as [Hyin _]. apply in_map_iff. exists y. auto.
Qed.

Section Walk.
Variable ign : list string.
Variable rows : list bin.
Hypothesis Hanti : mem_string "Antitarget" ign = true.

Lemma real_not_anti g : mem_string g ign = false -> g <> "Antitarget"%string.
Proof. intros H ->. congruence. Qed.

(* what the walk needs from the remaining part m of the gene map when it stands at
   position prev: real entries are spans lying in order at or after prev, and no bin
   between them (or after the last) carries a real gene *)
Fixpoint wf (prev : nat) (m : list gentry) : Prop :=
  match m with
  | [] => prev <= length rows /\
          forall i b, prev <= i -> nth_error rows i = Some b -> no_real_gene ign b
  | (g, f, l) :: t =>
      if mem_string g ign then wf prev t
      else prev <= f /\ gene_span rows g f l /\
           (forall i b, prev <= i < f -> nth_error rows i = Some b -> no_real_gene ign b) /\
           wf (S l) t
  end.

Lemma walk_concat m : forall prev,
  wf prev m -> concat (map snd (walk ign rows prev m)) = skipn prev rows.
Proof.
  induction m as [|[[g f] l] t IH]; intros prev Hwf; cbn [walk wf] in *.
  - destruct Hwf as [Hle _]. destruct (Nat.ltb prev (length rows)) eqn:E.
    + cbn. apply app_nil_r.
    + apply Nat.ltb_ge in E. cbn. symmetry. apply skipn_all2. assumption.
  - destruct (mem_string g ign); [apply IH; assumption|].
    destruct Hwf as (Hpf & Hsp & _ & Hwf).
    destruct (gene_span_bounds _ _ _ _ Hsp) as [Hfl Hln].
    rewrite map_app, concat_app. cbn [map concat snd].
    rewrite (IH _ Hwf), slice_app_skipn by lia.
    destruct (Nat.ltb prev f) eqn:E.
    + cbn [map concat snd]. rewrite app_nil_r. apply slice_app_skipn. lia.
    + apply Nat.ltb_ge in E. cbn. f_equal. lia.
Qed.

Lemma walk_groups m : forall prev,
  wf prev m ->
  Forall (fun gr => gene_group ign rows gr \/ gap_group ign gr) (walk ign rows prev m).
Proof.
  induction m as [|[[g f] l] t IH]; intros prev Hwf; cbn [walk wf] in *.
  - destruct Hwf as [Hle Hfree]. destruct (Nat.ltb prev (length rows)) eqn:E; [|constructor].
    apply Nat.ltb_lt in E. constructor; [|constructor]. right.
    split; [reflexivity|]. cbn [snd]. split.
    + intros Hnil. apply (f_equal (@length _)) in Hnil. rewrite skipn_length in Hnil. cbn in Hnil. lia.
    + apply Forall_forall. intros b Hb.
      apply In_nth_error_skipn in Hb as (i & Hi & Hn). eapply Hfree; eassumption.
  - destruct (mem_string g ign) eqn:Eg; [apply IH; assumption|].
    destruct Hwf as (Hpf & Hsp & Hfree & Hwf).
    destruct (gene_span_bounds _ _ _ _ Hsp) as [Hfl Hln].
    apply Forall_app. split.
    + destruct (Nat.ltb prev f) eqn:E; [|constructor].
      apply Nat.ltb_lt in E. constructor; [|constructor]. right.
      split; [reflexivity|]. cbn [snd]. split.
      * intros Hnil. apply (f_equal (@length _)) in Hnil.
        rewrite slice_length in Hnil by lia. cbn in Hnil. lia.
      * apply Forall_forall. intros b Hb.
        apply In_nth_error_slice in Hb as (i & Hi & Hn); [|lia]. eapply Hfree; eassumption.
    + constructor; [|apply IH; assumption].
      left. split; [exact Eg|]. exists f, l. split; [assumption | reflexivity].
Qed.

Lemma nag_cons_gene a W :
  fst a <> "Antitarget"%string -> no_adjacent_gaps W -> no_adjacent_gaps (a :: W).
Proof.
  intros Ha HW. destruct W as [|b W']; cbn [no_adjacent_gaps]; [exact I|].
  split; [|assumption]. intros [H _]. contradiction.
Qed.

Lemma nag_before_gene x a W :
  fst a <> "Antitarget"%string -> no_adjacent_gaps (a :: W) -> no_adjacent_gaps (x :: a :: W).
Proof.
  intros Ha HW. cbn [no_adjacent_gaps]. split; [|exact HW]. intros [_ H]. contradiction.
Qed.

Lemma walk_no_adjacent m : forall prev, no_adjacent_gaps (walk ign rows prev m).
Proof.
  induction m as [|[[g f] l] t IH]; intros prev; cbn [walk].
  - destruct (Nat.ltb prev (length rows)); cbn; exact I.
  - destruct (mem_string g ign) eqn:Eg; [apply IH|].
    pose proof (real_not_anti _ Eg) as Hg.
    destruct (Nat.ltb prev f); cbn [app].
    + apply nag_before_gene; [exact Hg|]. apply nag_cons_gene; [exact Hg | apply IH].
    + apply nag_cons_gene; [exact Hg | apply IH].
Qed.

Lemma walk_in m : forall prev g f l,
  In (g, f, l) m -> mem_string g ign = false ->
  In (g, slice rows f (S l)) (walk ign rows prev m).
Proof.
  induction m as [|[[h f0] l0] t IH]; intros prev g f l Hin Hg; [destruct Hin|].
  cbn [walk]. destruct Hin as [Heq|Hin].
  - inversion Heq; subst. rewrite Hg. apply in_app_iff. right. left. reflexivity.
  - destruct (mem_string h ign); [apply IH; assumption|].
    apply in_app_iff. right. right. apply IH; assumption.
Qed.

Definition real_entry (e : gentry) : bool := negb (mem_string (ge_name e) ign).

Lemma walk_labels m : forall prev,
  map fst (filter is_gene_label (walk ign rows prev m)) = map ge_name (filter real_entry m).
Proof.
  induction m as [|[[g f] l] t IH]; intros prev; cbn [walk filter].
  - destruct (Nat.ltb prev (length rows)); reflexivity.
  - unfold real_entry at 1. change (ge_name (g, f, l)) with g.
    destruct (mem_string g ign) eqn:Eg; cbn [negb]; [apply IH|].
    rewrite filter_app, map_app. cbn [filter].
    assert (Hlab : is_gene_label (g, slice rows f (S l)) = true).
    { unfold is_gene_label; cbn [fst]. apply negb_true_iff. apply String.eqb_neq.
      apply real_not_anti. exact Eg. }
    rewrite Hlab. cbn [map fst]. rewrite IH.
    destruct (Nat.ltb prev f); reflexivity.
Qed.

(* ---- the gene map of a table with disjoint spans is well-formed for the walk ------- *)

Hypothesis Hdisj : spans_disjoint ign rows.

Lemma wf_of m : forall prev,
  NoDup (names m) ->
  StronglySorted le (firsts m) ->
  (forall g f l, In (g, f, l) m -> gene_span rows g f l) ->
  (forall i g, prev <= i -> mem_string g ign = false -> gene_at rows g i -> In g (names m)) ->
  (forall g f l, In (g, f, l) m -> mem_string g ign = false -> prev <= f) ->
  prev <= length rows ->
  wf prev m.
Proof.
  induction m as [|[[g f] l] t IH]; intros prev Hnd Hs Hsp Hcov Hlow Hlen; cbn [wf].
  - split; [assumption|]. intros i b Hi Hn h Hh.
    destruct (mem_string h ign) eqn:Eh; [reflexivity|]. exfalso.
    apply (Hcov i h Hi Eh). exists b. auto.
  - cbn [names firsts map] in Hnd, Hs. change (ge_name (g, f, l)) with g in Hnd.
    change (ge_first (g, f, l)) with f in Hs.
    inversion Hnd as [|? ? Hg Hnd']; subst. inversion Hs as [|? ? Hs' Hf]; subst.
    assert (Hsp' : forall g0 f0 l0, In (g0, f0, l0) t -> gene_span rows g0 f0 l0)
      by (intros; apply Hsp; right; assumption).
    destruct (mem_string g ign) eqn:Eg.
    + apply IH; auto.
      * intros i h Hi Eh Hat. destruct (Hcov i h Hi Eh Hat) as [Heq|Hin]; [change (ge_name (g, f, l)) with g in Heq; congruence | exact Hin].
      * intros h f0 l0 Hin Eh. apply (Hlow h f0 l0); [right; assumption | assumption].
    + pose proof (Hsp g f l (or_introl eq_refl)) as Hspan.
      destruct (gene_span_bounds _ _ _ _ Hspan) as [Hfl Hln].
      assert (Hfirst : forall h f0 l0, In (h, f0, l0) t -> f <= f0).
      { intros h f0 l0 Hin. rewrite Forall_forall in Hf. apply Hf.
        apply in_map_iff. exists (h, f0, l0). split; [reflexivity | assumption]. }
      assert (Hpf : prev <= f) by (apply (Hlow g f l); [left; reflexivity | assumption]).
      split; [assumption|].
      split; [assumption|].
      split.
      * intros i b Hi Hn h Hh.
        destruct (mem_string h ign) eqn:Eh; [reflexivity|]. exfalso.
        assert (Hat : gene_at rows h i) by (exists b; auto).
        destruct (Hcov i h (proj1 Hi) Eh Hat) as [Heq|Hin]; [change (ge_name (g, f, l)) with g in Heq|].
        -- subst h. destruct Hspan as (_ & _ & Hall). specialize (Hall _ Hat). lia.
        -- apply in_map_iff in Hin as ([[h' f0] l0] & Hname & Hin).
           change (ge_name (h', f0, l0)) with h' in Hname. subst h'.
           pose proof (Hfirst _ _ _ Hin).
           destruct (Hsp' _ _ _ Hin) as (_ & _ & Hall). specialize (Hall _ Hat). lia.
      * apply IH; auto; try lia.
        -- intros i h Hi Eh Hat. destruct (Hcov i h ltac:(lia) Eh Hat) as [Heq|Hin]; [change (ge_name (g, f, l)) with g in Heq|exact Hin].
           subst h. destruct Hspan as (_ & _ & Hall). specialize (Hall _ Hat). lia.
        -- intros h f0 l0 Hin Eh.
           pose proof (Hfirst _ _ _ Hin) as Hff.
           pose proof (Hsp' _ _ _ Hin) as Hspan'.
           destruct (gene_span_bounds _ _ _ _ Hspan') as [Hfl' _].
           assert (Hne : g <> h).
           { intros ->. apply Hg. eapply in_names; eassumption. }
           destruct (Hdisj g h f l f0 l0 Eg Eh Hne Hspan Hspan'); lia.
Qed.

Lemma by_gene_chrom_partition : partition_spec ign rows (by_gene_chrom ign rows).
Proof.
  assert (Hwf : wf 0 (gene_map rows)).
  { apply wf_of.
    - apply gene_map_nodup.
    - apply gene_map_sorted.
    - intros g f l. apply gene_map_sound.
    - intros i g _ _ Hat. destruct (gene_map_has _ _ _ Hat) as (f & l & Hin).
      eapply in_names; eassumption.
    - intros; lia.
    - lia. }
  unfold partition_spec, by_gene_chrom. repeat split.
  - rewrite (walk_concat _ _ Hwf). reflexivity.
  - apply walk_groups. assumption.
  - intros g f l Hg Hsp. apply walk_in; [|exact Hg]. apply gene_map_complete. assumption.
  - rewrite walk_labels. apply NoDup_map_filter. apply gene_map_nodup.
  - apply walk_no_adjacent.
Qed.

End Walk.

(* gene groups need no precondition: whatever the table, a real gene's group is
   exactly its bins first..last *)
Lemma by_gene_chrom_gene_groups ign rows g grp :
  mem_string g ign = false ->
  (In (g, grp) (by_gene_chrom ign rows) /\ g <> "Antitarget"%string <->
   g <> "Antitarget"%string /\ exists f l, gene_span rows g f l /\ grp = slice rows f (S l)).
Proof.
  intros Hg. unfold by_gene_chrom. split.
  - intros [Hin Hne]. split; [assumption|].
    revert Hin. generalize 0 at 1. generalize (gene_map_sound rows).
    induction (gene_map rows) as [|[[h f] l] t IH]; intros Hs prev Hin; cbn [walk] in Hin.
    + destruct (Nat.ltb prev (length rows)); [|destruct Hin].
      destruct Hin as [Heq|[]]. inversion Heq. subst g. exfalso. apply Hne. reflexivity.
    + destruct (mem_string h ign).
      * apply (IH (fun g f l H => Hs g f l (or_intror H)) prev Hin).
      * apply in_app_iff in Hin as [Hin|[Heq|Hin]].
        -- destruct (Nat.ltb prev f); [|destruct Hin].
           destruct Hin as [Heq|[]]. inversion Heq. subst g. exfalso. apply Hne. reflexivity.
        -- inversion Heq; subst. exists f, l. split; [|reflexivity]. apply Hs. left. reflexivity.
        -- apply (IH (fun g f l H => Hs g f l (or_intror H)) (S l) Hin).
  - intros [Hne (f & l & Hsp & ->)]. split; [|assumption].
    apply walk_in; [|exact Hg]. apply gene_map_complete. assumption.
Qed.

(* ---- by_chromosome ------------------------------------------------------------------ *)

Definition cnames (m : list (string * list bin)) : list string := map fst m.

Lemma chrom_add_names b m :
  cnames (chrom_add b m) =
  if mem_string (b_chr b) (cnames m) then cnames m else cnames m ++ [b_chr b].
Proof.
  unfold cnames.
  induction m as [|[c l] t IH]; [reflexivity|].
  cbn [chrom_add map mem_string fst].
  destruct (String.eqb (b_chr b) c) eqn:E; cbn [orb].
  - reflexivity.
  - cbn [map fst]. rewrite IH. destruct (mem_string (b_chr b) (map fst t)); reflexivity.
Qed.

Lemma chrom_add_in b m c l :
  NoDup (cnames m) -> In (c, l) (chrom_add b m) ->
  (c <> b_chr b /\ In (c, l) m) \/
  (c = b_chr b /\ ((exists l0, In (c, l0) m /\ l = l0 ++ [b]) \/ (l = [b] /\ ~ In c (cnames m)))).
Proof.
  induction m as [|[c0 l0] t IH]; intros Hnd Hin; cbn [chrom_add] in Hin.
  - destruct Hin as [Heq|[]]. inversion Heq; subst. right. split; auto.
  - cbn [cnames map fst] in Hnd. inversion Hnd as [|? ? Hnot Hnd']; subst.
    destruct (String.eqb (b_chr b) c0) eqn:E.
    + apply String.eqb_eq in E; subst c0.
      destruct Hin as [Heq|Hin].
      * inversion Heq; subst. right. split; auto. left. exists l0. split; [left|]; reflexivity.
      * left. split; [|right; assumption].
        intros ->. apply Hnot. apply in_map_iff. exists (b_chr b, l). auto.
    + apply String.eqb_neq in E.
      destruct Hin as [Heq|Hin].
      * inversion Heq; subst. left. split; [congruence | left; reflexivity].
      * destruct (IH Hnd' Hin) as [[Hne Hin']|(-> & Hcase)].
        -- left. split; [assumption | right; assumption].
        -- right. split; auto. destruct Hcase as [(l1 & Hl1 & ->)|[-> Hni]].
           ++ left. exists l1. split; [right; assumption | reflexivity].
           ++ right. split; auto. cbn [cnames map In fst].
              intros [Heq|Hin']; [congruence | contradiction].
Qed.

Record chrom_inv (p : list bin) (m : list (string * list bin)) : Prop := {
  ci_nodup : NoDup (cnames m);
  ci_rows : forall c l, In (c, l) m -> l = chrom_rows c p /\ l <> [];
  ci_cover : forall x, In x p -> In (b_chr x) (cnames m) }.

Lemma chrom_rows_snoc c p b :
  chrom_rows c (p ++ [b]) = chrom_rows c p ++ (if String.eqb (b_chr b) c then [b] else []).
Proof. unfold chrom_rows. rewrite filter_app. reflexivity. Qed.

Lemma chrom_inv_step p m b : chrom_inv p m -> chrom_inv (p ++ [b]) (chrom_add b m).
Proof.
  intros [Hnd Hrows Hcov]. constructor.
  - rewrite chrom_add_names. destruct (mem_string (b_chr b) (cnames m)) eqn:E; [assumption|].
    apply mem_string_notIn in E. apply NoDup_app_snoc; assumption.
  - intros c l Hin. rewrite chrom_rows_snoc.
    destruct (chrom_add_in _ _ _ _ Hnd Hin) as [[Hne Hin']|(-> & Hcase)].
    + destruct (Hrows _ _ Hin') as [-> Hnil]. split; [|assumption].
      destruct (String.eqb (b_chr b) c) eqn:E; [|rewrite app_nil_r; reflexivity].
      apply String.eqb_eq in E. congruence.
    + rewrite String.eqb_refl. destruct Hcase as [(l0 & Hl0 & ->)|[-> Hni]].
      * destruct (Hrows _ _ Hl0) as [-> Hnil]. split; [reflexivity|].
        destruct (chrom_rows (b_chr b) p); discriminate.
      * split; [|discriminate].
        replace (chrom_rows (b_chr b) p) with (@nil bin); [reflexivity|].
        unfold chrom_rows. symmetry.
        destruct (filter (fun x => String.eqb (b_chr x) (b_chr b)) p) as [|x r] eqn:Ef; [reflexivity|].
        exfalso. assert (Hx : In x (filter (fun x => String.eqb (b_chr x) (b_chr b)) p))
          by (rewrite Ef; left; reflexivity).
        apply filter_In in Hx as [Hx Hc]. apply String.eqb_eq in Hc.
        apply Hni. rewrite <- Hc. apply Hcov. assumption.
  - intros x Hx. rewrite chrom_add_names.
    apply in_app_iff in Hx as [Hx|[<-|[]]].
    + specialize (Hcov _ Hx).
      destruct (mem_string (b_chr b) (cnames m)); [assumption | apply in_app_iff; left; assumption].
    + destruct (mem_string (b_chr b) (cnames m)) eqn:E; [apply mem_string_In; assumption|].
      apply in_app_iff; right; left; reflexivity.
Qed.

Lemma chrom_fold_inv rest : forall p m,
  chrom_inv p m -> chrom_inv (p ++ rest) (fold_left (fun m b => chrom_add b m) rest m).
Proof.
  induction rest as [|b r IH]; intros p m Hinv; cbn [fold_left].
  - rewrite app_nil_r. exact Hinv.
  - replace (p ++ b :: r) with ((p ++ [b]) ++ r) by (rewrite <- app_assoc; reflexivity).
    apply IH. apply chrom_inv_step. assumption.
Qed.

Lemma by_chromosome_inv rows : chrom_inv rows (by_chromosome rows).
Proof.
  apply (chrom_fold_inv rows [] []). constructor; cbn; try constructor; intros; contradiction.
Qed.

(* every group of by_chromosome is the non-empty list of that chromosome's rows, in table order *)
Lemma by_chromosome_rows rows c l :
  In (c, l) (by_chromosome rows) -> l = chrom_rows c rows /\ l <> [].
Proof. apply (ci_rows _ _ (by_chromosome_inv rows)). Qed.

Lemma by_chromosome_cover rows x :
  In x rows -> exists l, In (b_chr x, l) (by_chromosome rows).
Proof.
  intros Hx. pose proof (ci_cover _ _ (by_chromosome_inv rows) x Hx) as Hin.
  apply in_map_iff in Hin as ([c l] & Hc & Hin). cbn [fst] in Hc. subst c. eauto.
Qed.

Lemma by_chromosome_nodup rows : NoDup (map fst (by_chromosome rows)).
Proof. apply (ci_nodup _ _ (by_chromosome_inv rows)). Qed.

(* ---- whole table ------------------------------------------------------------------------ *)

Lemma full_ignore_anti ignore : mem_string "Antitarget" (full_ignore ignore) = true.
Proof.
  apply mem_string_In. unfold full_ignore. apply in_app_iff. right. left. reflexivity.
Qed.

Lemma concat_flat_map_groups {A} (f : A -> list group) (l : list A) :
  concat (map snd (flat_map f l)) = concat (map (fun x => concat (map snd (f x))) l).
Proof.
  induction l as [|x t IH]; [reflexivity|].
  change (flat_map f (x :: t)) with (f x ++ flat_map f t).
  rewrite map_app, concat_app. cbn [map concat]. f_equal. exact IH.
Qed.

Lemma by_gene_partition ignore rows :
  (forall c, spans_disjoint (full_ignore ignore) (chrom_rows c rows)) ->
  Forall (fun cr => snd cr = chrom_rows (fst cr) rows /\ snd cr <> [] /\
                    partition_spec (full_ignore ignore) (snd cr)
                                   (by_gene_chrom (full_ignore ignore) (snd cr)))
         (by_chromosome rows) /\
  concat (map snd (by_gene ignore rows)) = concat (map snd (by_chromosome rows)).
Proof.
  intros Hpre.
  assert (HF : Forall (fun cr => snd cr = chrom_rows (fst cr) rows /\ snd cr <> [] /\
                    partition_spec (full_ignore ignore) (snd cr)
                                   (by_gene_chrom (full_ignore ignore) (snd cr)))
         (by_chromosome rows)).
  { apply Forall_forall. intros [c l] Hin. cbn [fst snd].
    destruct (by_chromosome_rows _ _ _ Hin) as [Hl Hne]. split; [assumption|]. split; [assumption|].
    apply by_gene_chrom_partition; [apply full_ignore_anti|]. rewrite Hl. apply Hpre. }
  split; [exact HF|].
  unfold by_gene. rewrite concat_flat_map_groups. f_equal.
  apply map_ext_in. intros cr Hcr. rewrite Forall_forall in HF.
  destruct (HF _ Hcr) as (_ & _ & Hp & _). exact Hp.
Qed.

(* ---- a table that lists its chromosomes one after the other ------------------------------ *)

Lemma chrom_add_app_miss b acc m :
  ~ In (b_chr b) (cnames acc) -> chrom_add b (acc ++ m) = acc ++ chrom_add b m.
Proof.
  induction acc as [|[c l] t IH]; intros Hni; [reflexivity|].
  cbn [app chrom_add]. cbn [cnames map fst In] in Hni.
  destruct (String.eqb (b_chr b) c) eqn:E.
  - apply String.eqb_eq in E. exfalso. apply Hni. left. congruence.
  - f_equal. apply IH. intros H. apply Hni. right. exact H.
Qed.

Lemma fold_chrom_add_block l : forall acc c l0,
  ~ In c (cnames acc) -> Forall (fun b => b_chr b = c) l ->
  fold_left (fun m b => chrom_add b m) l (acc ++ [(c, l0)]) = acc ++ [(c, l0 ++ l)].
Proof.
  induction l as [|b t IH]; intros acc c l0 Hni Hall; cbn [fold_left].
  - rewrite app_nil_r. reflexivity.
  - inversion Hall as [|? ? Hb Ht]; subst.
    rewrite chrom_add_app_miss by assumption.
    cbn [chrom_add]. rewrite String.eqb_refl.
    rewrite IH by assumption. rewrite <- app_assoc. reflexivity.
Qed.

Lemma by_chromosome_blocks_acc blocks : forall acc,
  NoDup (cnames acc ++ map fst blocks) ->
  Forall (fun cb => snd cb <> [] /\ Forall (fun b => b_chr b = fst cb) (snd cb)) blocks ->
  fold_left (fun m b => chrom_add b m) (concat (map snd blocks)) acc = acc ++ blocks.
Proof.
  induction blocks as [|[c l] bs IH]; intros acc Hnd Hwf; cbn [map concat snd].
  - rewrite app_nil_r. reflexivity.
  - inversion Hwf as [|? ? [Hne Hall] Hwf']; subst. cbn [fst snd] in *.
    rewrite fold_left_app.
    assert (Hni : ~ In c (cnames acc)).
    { cbn [map fst] in Hnd. apply NoDup_remove_2 in Hnd. intros H. apply Hnd.
      apply in_app_iff. left. exact H. }
    destruct l as [|b t]; [congruence|].
    inversion Hall as [|? ? Hb Ht]; subst.
    cbn [fold_left].
    replace (chrom_add b acc) with (acc ++ [(b_chr b, [b])]).
    + rewrite fold_chrom_add_block by assumption.
      cbn [app]. rewrite IH; [rewrite <- app_assoc; reflexivity | | assumption].
      unfold cnames. rewrite map_app, <- app_assoc. exact Hnd.
    + rewrite <- (app_nil_r acc) at 2. rewrite chrom_add_app_miss by assumption. reflexivity.
Qed.

Lemma by_chromosome_blocks blocks :
  chrom_blocks blocks -> by_chromosome (concat (map snd blocks)) = blocks.
Proof.
  intros [Hnd Hwf]. unfold by_chromosome.
  rewrite (by_chromosome_blocks_acc blocks []); [reflexivity | exact Hnd | exact Hwf].
Qed.

Lemma chrom_rows_blocks blocks c l :
  chrom_blocks blocks -> In (c, l) blocks -> chrom_rows c (concat (map snd blocks)) = l.
Proof.
  intros Hb Hin. pose proof (by_chromosome_blocks blocks Hb) as Heq.
  rewrite <- Heq in Hin. apply by_chromosome_rows in Hin as [-> _]. reflexivity.
Qed.

Lemma by_gene_partition_blocks ignore blocks :
  chrom_blocks blocks ->
  Forall (fun cb => spans_disjoint (full_ignore ignore) (snd cb)) blocks ->
  Forall (fun cb => partition_spec (full_ignore ignore) (snd cb)
                                   (by_gene_chrom (full_ignore ignore) (snd cb))) blocks /\
  by_gene ignore (concat (map snd blocks)) =
    flat_map (fun cb => by_gene_chrom (full_ignore ignore) (snd cb)) blocks /\
  concat (map snd (by_gene ignore (concat (map snd blocks)))) = concat (map snd blocks).
Proof.
  intros Hb Hpre.
  assert (HF : Forall (fun cb => partition_spec (full_ignore ignore) (snd cb)
                                   (by_gene_chrom (full_ignore ignore) (snd cb))) blocks).
  { apply Forall_forall. intros cb Hin. rewrite Forall_forall in Hpre.
    apply by_gene_chrom_partition; [apply full_ignore_anti | apply Hpre; assumption]. }
  split; [exact HF|].
  unfold by_gene. rewrite (by_chromosome_blocks blocks Hb). split; [reflexivity|].
  rewrite concat_flat_map_groups. f_equal.
  apply map_ext_in. intros cb Hcb. rewrite Forall_forall in HF.
  destruct (HF _ Hcb) as (Hp & _). exact Hp.
Qed.

(* ---- a decision procedure for the precondition (used by the Examples) ------------------- *)

Definition disjb (e e' : gentry) : bool :=
  Nat.ltb (ge_last e) (ge_first e') || Nat.ltb (ge_last e') (ge_first e).

Definition spans_okb (ign : list string) (rows : list bin) : bool :=
  let m := filter (real_entry ign) (gene_map rows) in
  forallb (fun e => forallb (fun e' => String.eqb (ge_name e) (ge_name e') || disjb e e') m) m.

Lemma spans_okb_sound ign rows : spans_okb ign rows = true -> spans_disjoint ign rows.
Proof.
  unfold spans_okb. intros Hb g g' f l f' l' Hg Hg' Hne Hsp Hsp'.
  rewrite forallb_forall in Hb.
  assert (Hin : In (g, f, l) (filter (real_entry ign) (gene_map rows))).
  { apply filter_In. split; [apply gene_map_complete; assumption|].
    unfold real_entry. change (ge_name (g, f, l)) with g. unfold real in Hg. rewrite Hg. reflexivity. }
  assert (Hin' : In (g', f', l') (filter (real_entry ign) (gene_map rows))).
  { apply filter_In. split; [apply gene_map_complete; assumption|].
    unfold real_entry. change (ge_name (g', f', l')) with g'. unfold real in Hg'. rewrite Hg'. reflexivity. }
  specialize (Hb _ Hin). rewrite forallb_forall in Hb. specialize (Hb _ Hin').
  apply orb_true_iff in Hb as [Hb|Hb].
  - apply String.eqb_eq in Hb. contradiction.
  - unfold disjb in Hb. apply orb_true_iff in Hb as [Hb|Hb]; apply Nat.ltb_lt in Hb; [left|right]; exact Hb.
Qed.
