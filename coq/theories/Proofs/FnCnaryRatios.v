(* C15 function-body tie of the two ratios compare_sex_chromosomes reports (cnvlib/cnary.py), translated on every run
   (Gen/FnCnaryRatios.v):

       auto_mean = segment_mean(auto, skip_low=skip_low)
       chrx_mean = segment_mean(chrx, skip_low=skip_low)
       chry_mean = segment_mean(chry, skip_low=skip_low)
       ... dict(chrx_ratio=chrx_mean - auto_mean, chry_ratio=chry_mean - auto_mean, ...)

   (the two differences are read off the return statement).  In Model/Sex.v's compare_sex the X ratio is the chrX mean
   minus the autosomal mean and the Y ratio the chrY mean minus the autosomal mean, missing (None = NaN) when chrY has
   no bins: the generated pair on the model's three means. *)
From CNV Require Import Base.Prelude Base.Str Base.QNum Proofs.QNumLemmas Gen.CenterDefaults Model.Center Model.Sex
  Proofs.FnCnarySexLib Gen.FnCnaryRatios.
Local Open Scope Q_scope.

Definition opt_eqQ (a b : option Q) : Prop :=
  match a, b with Some x, Some y => x == y | None, None => True | _, _ => False end.

Theorem fn_sex_ratios_eq gstat hap build t d st :
  compare_sex gstat hap build t = Some (d, st) ->
  let use := has_weight t in
  let r := fn_sex_ratios (mean0 (segment_mean use (autosomes t build)))
                         (mean0 (segment_mean use (filter (chr_x_filter t build) t)))
                         (segment_mean use (filter (chr_y_filter t build) t)) in
  s_x_ratio st == fst r /\ opt_eqQ (s_y_ratio st) (snd r).
Proof.
  intros H. apply compare_sex_inv in H. cbv zeta in H. subst st. cbv zeta. cbn [s_x_ratio s_y_ratio].
  unfold fn_sex_ratios, opt_eqQ. cbn [fst snd]. split.
  - apply qsub_spec.
  - destruct (segment_mean (has_weight t) (filter (chr_y_filter t build) t)); [apply qsub_spec|exact I].
Qed.
