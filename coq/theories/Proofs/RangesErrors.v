(* C07: the error outcomes of idx_ranges / in_ranges (Model/Ranges.v: idx_ranges_e,
   iter_ranges_e, in_ranges_e) -- empty query lists and starts / ends of unequal length.
   Whenever the call returns, it returns what the error-free model (and hence every theorem
   of Props/C07.v) says; which arguments raise which exception is characterised exactly. *)
From CNV Require Import Base.Prelude Model.Ranges Spec.RangeQuery
  Proofs.RangesLib Proofs.Ranges Proofs.RangesTables.

Lemma ss_go_length s arr n keys : forall last mn mx, length (ss_go s arr n last mn mx keys) = length keys.
Proof.
  induction keys as [|k t IH]; intros last mn mx; [reflexivity|].
  cbn [ss_go]. destruct (if ss_cmp s last k then (mn, n) else (0, if mx <? n then mx + 1 else n)) as [mn1 mx1].
  cbn [length]. now rewrite IH.
Qed.

Lemma searchsorted_length s arr keys : length (searchsorted s arr keys) = length keys.
Proof. destruct keys as [|k t]; [reflexivity|]. unfold searchsorted. apply ss_go_length. Qed.

Lemma zip_simple_length si sv ei ev :
  length (zip_simple si sv ei ev) = Nat.min (Nat.min (length si) (length sv)) (Nat.min (length ei) (length ev)).
Proof.
  revert sv ei ev. induction si as [|i si IH]; intros sv ei ev; [reflexivity|].
  destruct sv as [|v sv]; [reflexivity|]. destruct ei as [|j ei]; [cbn; lia|].
  destruct ev as [|w ev]; [cbn; lia|]. cbn [zip_simple length]. rewrite IH. lia.
Qed.

Lemma given_some {A} (f : A -> Z) (o : option (list Z)) l : given o = Some l -> o = Some l /\ l <> [].
Proof. destruct o as [[|x t]|]; cbn; intros H; inversion H; subst. split; [reflexivity | discriminate]. Qed.

Lemma given_none (o : option (list Z)) : given o = None <-> o = None \/ o = Some [].
Proof.
  destruct o as [[|x t]|]; cbn; split; intros H; auto; try discriminate.
  destruct H; discriminate.
Qed.

(* the number of ranges the binary-search path yields: the lists are zipped, a missing or
   empty side is filled in to the length of the other *)
Lemma irange_simple_length t s e m :
  length (irange_simple t s e m) =
  match given s, given e with
  | Some ss, Some es => Nat.min (length ss) (length es)
  | Some ss, None => length ss
  | None, Some es => length es
  | None, None => match e with Some _ => O | None => 1%nat end
  end.
Proof.
  unfold irange_simple.
  destruct (given s) as [ss|] eqn:Gs.
  - destruct (given e) as [es|] eqn:Ge.
    + destruct m; rewrite zip_simple_length, !searchsorted_length, map_length; lia.
    + destruct m; rewrite zip_simple_length, searchsorted_length, !repeat_length; lia.
  - destruct (given e) as [es|] eqn:Ge.
    + apply (given_some (fun x => x)) in Ge as [-> Hne].
      destruct m; rewrite zip_simple_length, !searchsorted_length, map_length, !repeat_length; lia.
    + apply given_none in Ge. destruct Ge as [->| ->].
      * rewrite zip_simple_length, !repeat_length. cbn. reflexivity.
      * rewrite zip_simple_length, !repeat_length. cbn. reflexivity.
Qed.

Lemma classic_none (s e : option (list Z)) : (s = None /\ e = None) \/ ~ (s = None /\ e = None).
Proof. destruct s, e; [right|right|right|left]; try (intros [H1 H2]; discriminate); split; reflexivity. Qed.

(* ---- whenever the call returns, it returns the error-free model's answer ------------------ *)
Theorem idx_ranges_e_ok t s e m r : idx_ranges_e t s e m = RqOk r -> idx_ranges t s e m = r.
Proof.
  unfold idx_ranges_e, idx_ranges.
  destruct t as [|r0 t0]; [intros H; now inversion H|].
  destruct s as [ss|], e as [es|]; try (intros H; now inversion H).
  - destruct (negb (is_monotonic (map r_hi (r0 :: t0)))); [|intros H; now inversion H].
    destruct (given (Some ss)) as [gs|]; cbv zeta.
    + match goal with |- (if ?c then _ else _) = _ -> _ => destruct c end; intros H; now inversion H.
    + match goal with |- (if ?c then _ else _) = _ -> _ => destruct c end; intros H; now inversion H.
  - destruct (negb (is_monotonic (map r_hi (r0 :: t0)))); [|intros H; now inversion H].
    destruct (given (Some ss)) as [gs|]; cbv zeta; [|intros H; inversion H].
    match goal with |- (if ?c then _ else _) = _ -> _ => destruct c end; intros H; now inversion H.
  - destruct (negb (is_monotonic (map r_hi (r0 :: t0)))); [|intros H; now inversion H].
    cbn [given]. cbv zeta.
    match goal with |- (if ?c then _ else _) = _ -> _ => destruct c end; intros H; now inversion H.
Qed.

(* ---- which arguments raise what ------------------------------------------------------------ *)
(* normal form of idx_ranges_e on a non-empty table with at least one side given *)
Theorem idx_ranges_e_cases t s e m :
  t <> [] -> ~ (s = None /\ e = None) ->
  idx_ranges_e t s e m =
  if is_monotonic (map r_hi t) then RqOk (irange_simple t s e m)
  else match given s, e with
       | None, None => RqRaises "TypeError"
       | None, Some el =>
           match el with
           | [] => RqRaises "AssertionError"
           | _ => RqOk (irange_nested t (repeat 0 (length el)) (map Some el) m)
           end
       | Some ss, _ =>
           match given e with
           | None => RqOk (irange_nested t ss (repeat None (length ss)) m)
           | Some es => if Nat.eqb (length ss) (length es)
                        then RqOk (irange_nested t ss (map Some es) m)
                        else RqRaises "AssertionError"
           end
       end.
Proof.
  intros Ht Hse. unfold idx_ranges_e.
  destruct t as [|r0 t0]; [contradiction|].
  assert (E : forall X (a b : X), match s, e with None, None => a | _, _ => b end = b).
  { intros X a b. destruct s, e; try reflexivity. exfalso. apply Hse. split; reflexivity. }
  destruct s as [ss|], e as [es|]; try (exfalso; apply Hse; split; reflexivity);
    destruct (is_monotonic (map r_hi (r0 :: t0))); cbn [negb]; try reflexivity.
  - (* both given *)
    destruct (given (Some ss)) as [gs|] eqn:Gs.
    + cbv zeta. apply (given_some (fun x => x)) in Gs as [Es Hne]. injection Es as <-.
      destruct (given (Some es)) as [ge|] eqn:Ge.
      * apply (given_some (fun x => x)) in Ge as [Ee Hnee]. injection Ee as <-.
        rewrite map_length. destruct ss; [contradiction|]. cbn [length Nat.eqb negb]. rewrite andb_true_r. reflexivity.
      * rewrite repeat_length, Nat.eqb_refl. destruct ss; [contradiction|]. reflexivity.
    + cbv zeta. apply given_none in Gs. destruct Gs as [Gs|Gs]; [discriminate|]. injection Gs as ->.
      destruct es as [|e0 es']; cbn [given length repeat map Nat.eqb negb andb]; [reflexivity|].
      rewrite repeat_length, map_length, Nat.eqb_refl. reflexivity.
  - (* starts only *)
    destruct (given (Some ss)) as [gs|] eqn:Gs.
    + cbv zeta. apply (given_some (fun x => x)) in Gs as [Es Hne]. injection Es as <-.
      cbn [given]. rewrite repeat_length, Nat.eqb_refl. destruct ss; [contradiction|]. reflexivity.
    + reflexivity.
  - (* ends only *)
    cbn [given]. cbv zeta.
    destruct es as [|e0 es']; cbn [given length repeat map Nat.eqb negb andb]; [reflexivity|].
    rewrite repeat_length, map_length, Nat.eqb_refl. reflexivity.
Qed.

(* in_ranges in terms of the error-free model: the index step may raise; otherwise "nothing to
   concatenate" is the only failure *)
Theorem in_ranges_e_eq t chrom s e m :
  in_ranges_e t chrom s e m =
  match idx_ranges_e (chrom_filter chrom t) s e (imode_of m) with
  | RqRaises x => RqRaises x
  | RqOk _ => match in_ranges t chrom s e m with Some l => RqOk l | None => RqRaises "ValueError" end
  end.
Proof.
  unfold in_ranges_e, iter_ranges_e, in_ranges, iter_ranges.
  destruct (idx_ranges_e (chrom_filter chrom t) s e (imode_of m)) as [r|x] eqn:E; [|reflexivity].
  rewrite (idx_ranges_e_ok _ _ _ _ _ E).
  destruct (map _ r); reflexivity.
Qed.

(* ValueError: exactly the binary-search path with no query at all *)
Theorem in_ranges_e_valueerror t chrom s e m :
  in_ranges_e t chrom s e m = RqRaises "ValueError" <->
  chrom_filter chrom t <> [] /\ is_monotonic (map r_hi (chrom_filter chrom t)) = true /\
  given s = None /\ e = Some [].
Proof.
  rewrite in_ranges_e_eq. set (rows := chrom_filter chrom t).
  destruct rows as [|r0 rs] eqn:Er.
  - (* an empty table: the whole (empty) table comes back *)
    unfold in_ranges, iter_ranges, idx_ranges_e, idx_ranges. fold rows. rewrite Er. cbn.
    split; [discriminate | intros [H _]; contradiction].
  - destruct (classic_none s e) as [[-> ->]|Hse].
    + unfold in_ranges, iter_ranges, idx_ranges_e, idx_ranges. fold rows. rewrite Er. cbn.
      split; [discriminate | intros (_ & _ & _ & H); discriminate].
    + assert (Hne : r0 :: rs <> []) by discriminate.
      rewrite (idx_ranges_e_cases (r0 :: rs) s e (imode_of m) Hne Hse).
      destruct (is_monotonic (map r_hi (r0 :: rs))) eqn:Em.
      * (* binary-search path *)
        unfold in_ranges, iter_ranges, idx_ranges. fold rows. rewrite Er.
        assert (Ei : match s, e with None, None => [(SelAll, None, None)] | _, _ =>
                       if negb (is_monotonic (map r_hi (r0 :: rs))) then
                         irange_nested (r0 :: rs)
                           match given s with Some ss => ss | None => repeat 0 (length match e with Some e0 => e0 | None => [] end) end
                           match given e with Some es => map Some es
                           | None => repeat None (length match given s with Some ss => ss | None => repeat 0 (length match e with Some e0 => e0 | None => [] end) end) end
                           (imode_of m)
                       else irange_simple (r0 :: rs) s e (imode_of m) end
                     = irange_simple (r0 :: rs) s e (imode_of m)).
        { destruct s, e; try (exfalso; apply Hse; split; reflexivity); rewrite Em; reflexivity. }
        rewrite Ei. clear Ei.
        pose proof (irange_simple_length (r0 :: rs) s e (imode_of m)) as Hl.
        destruct (irange_simple (r0 :: rs) s e (imode_of m)) as [|x xs] eqn:Eir.
        -- cbn [map]. split; [intros _|reflexivity]. split; [discriminate|]. split; [reflexivity|].
           cbn [length] in Hl. destruct (given s) as [ss|] eqn:Gs.
           ++ apply (given_some (fun x => x)) in Gs as [_ Hss]. destruct ss; [contradiction|].
              destruct (given e) as [es|] eqn:Ge; [|cbn in Hl; lia].
              apply (given_some (fun x => x)) in Ge as [_ Hes]. destruct es; [contradiction|]. cbn in Hl. lia.
           ++ split; [reflexivity|]. destruct (given e) as [es|] eqn:Ge.
              ** apply (given_some (fun x => x)) in Ge as [_ Hes]. destruct es; [contradiction|]. cbn in Hl. lia.
              ** destruct e as [[|e0 e']|]; [reflexivity | discriminate | lia].
        -- cbn [map]. split; [discriminate|]. intros (_ & _ & Gs & ->).
           rewrite Gs in Hl. cbn in Hl. lia.
      * (* mask path: TypeError / AssertionError / a value, never ValueError *)
        split; [|intros (_ & H & _); discriminate].
        destruct (given s) as [ss|] eqn:Gs.
        -- destruct (given e) as [es|] eqn:Ge.
           ++ destruct (Nat.eqb (length ss) (length es)) eqn:El; [|intros HH; discriminate HH].
              unfold in_ranges, iter_ranges. fold rows. rewrite Er.
              pose proof (idx_ranges_e_cases (r0 :: rs) s e (imode_of m) Hne Hse) as Hc.
              rewrite Em, Gs, Ge, El in Hc. apply idx_ranges_e_ok in Hc. rewrite Hc.
              apply (given_some (fun x => x)) in Gs as [_ Hss]. destruct ss; [contradiction|].
              apply (given_some (fun x => x)) in Ge as [_ Hes]. destruct es; [contradiction|].
              cbn. intros HH; discriminate HH.
           ++ unfold in_ranges, iter_ranges. fold rows. rewrite Er.
              pose proof (idx_ranges_e_cases (r0 :: rs) s e (imode_of m) Hne Hse) as Hc.
              rewrite Em, Gs, Ge in Hc. apply idx_ranges_e_ok in Hc. rewrite Hc.
              apply (given_some (fun x => x)) in Gs as [_ Hss]. destruct ss; [contradiction|].
              cbn. intros HH; discriminate HH.
        -- destruct e as [[|e0 el]|]; try (intros HH; discriminate HH).
           unfold in_ranges, iter_ranges. fold rows. rewrite Er.
           pose proof (idx_ranges_e_cases (r0 :: rs) s (Some (e0 :: el)) (imode_of m) Hne Hse) as Hc.
           rewrite Em, Gs in Hc. apply idx_ranges_e_ok in Hc. rewrite Hc. cbn. intros HH; discriminate HH.
Qed.

(* equal-length, non-empty starts / ends never raise: the outcome is the specification's answer *)
Theorem in_ranges_e_spec t chrom (qs : list (Z * Z)) m :
  sorted_lo (chrom_filter chrom t) -> Forall valid_row (chrom_filter chrom t) -> qs <> [] ->
  in_ranges_e t chrom (Some (map fst qs)) (Some (map snd qs)) m =
  RqOk (concat (map (fun q => select_spec m (fst q) (snd q) (chrom_filter chrom t)) qs)).
Proof.
  intros Hlo Hv Hq. rewrite in_ranges_e_eq, (in_ranges_spec t chrom qs m Hlo Hv Hq).
  destruct (chrom_filter chrom t) as [|r0 rs] eqn:Er; [reflexivity|].
  rewrite idx_ranges_e_cases; [|discriminate|intros [H _]; discriminate].
  destruct (is_monotonic (map r_hi (r0 :: rs))); [reflexivity|].
  destruct qs as [|q l]; [contradiction|]. cbn [map given length Nat.eqb].
  rewrite !map_length, Nat.eqb_refl. reflexivity.
Qed.
