(* C17 loop tie of calc_intervals: ONE ITERATION of

       out_vals_lo = np.repeat(np.nan, len(bins_log2s))
       out_vals_hi = np.repeat(np.nan, len(bins_log2s))
       for i, ser in enumerate(bins_log2s):
           if len(ser):
               wt = weights[ser.index]
               assert (wt.index == ser.index).all()
               out_vals_lo[i], out_vals_hi[i] = func(ser.values, wt.values)

   is regenerated from the Python source on every run as Gen/FnSegCalcIntervals.v (fn_calc_step: the
   entries i of the two output arrays after the iteration; the two components of func's result are
   opaque inputs, unpacking being indexing; the arrays start as NaN = None).
   Here: the model's interval functions ARE that step -- ci_func / pi_func / ci_run answer None (NaN,
   NaN) exactly on a segment without bins and otherwise the pair func returns, low to ci_lo / pi_lo
   and high to ci_hi / pi_hi. *)
From CNV Require Import Base.Prelude Base.QNum Gen.SegmetricsDefaults Gen.FnSegCalcIntervals
  Model.Ranges Model.Segmetrics.
Local Open Scope Q_scope.

Definition opt_pair (r : option Q * option Q) : option (Q * Q) :=
  match r with (Some a, Some b) => Some (a, b) | _ => None end.

(* one iteration on a segment with n bins, func returning the pair r *)
Definition py_calc_iter (i : Z) (n : nat) (r : Q * Q) : option (Q * Q) :=
  opt_pair (fn_calc_step i (Z.of_nat n) None None 0 (Some (fst r)) (Some (snd r))).

Lemma source_calc_step i n r :
  py_calc_iter i n r = match n with O => None | S _ => Some r end.
Proof.
  unfold py_calc_iter, fn_calc_step. destruct n as [|m]; [reflexivity|].
  destruct (Z.eqb_spec (Z.of_nat (S m)) 0) as [E|_]; [lia|]. cbn. destruct r; reflexivity.
Qed.

(* what confidence_interval_bootstrap returns on a non-empty segment, as the model has it *)
Definition ci_values (O : oracles) (alpha : Q) (bootstraps : Z) (smoothed : bool)
  (vals wts : list Q) : Q * Q :=
  if (Z.of_nat (length vals) <? ci_min_k)%Z then (hd 0 vals, hd 0 vals)
  else let dist := ci_dist O bootstraps smoothed vals wts in
       (percentile (ci_pct_lo alpha) dist, percentile (ci_pct_hi alpha) dist).

Theorem source_calc_intervals_ci O alpha bootstraps smoothed vals wts i :
  ci_func O alpha bootstraps smoothed vals wts
  = py_calc_iter i (length vals) (ci_values O alpha bootstraps smoothed vals wts).
Proof.
  rewrite source_calc_step. unfold ci_func, ci_values. destruct vals as [|x t]; [reflexivity|].
  cbn [length hd]. destruct (Z.of_nat (S (length t)) <? ci_min_k)%Z; reflexivity.
Qed.

(* np.percentile(ser, [pct_lo, pct_hi]) *)
Definition pi_values (alpha : Q) (vals : list Q) : Q * Q :=
  (percentile (pi_pct_lo alpha) vals, percentile (pi_pct_hi alpha) vals).

Theorem source_calc_intervals_pi alpha vals i :
  pi_func alpha vals = py_calc_iter i (length vals) (pi_values alpha vals).
Proof. rewrite source_calc_step. unfold pi_func, pi_values. destruct vals; reflexivity. Qed.

(* the same with numpy's random state threaded through: the value of the call for segment i *)
Theorem source_calc_intervals_run {St} (G : rng St) O st alpha bootstraps smoothed vals wts i :
  exists r, fst (ci_run G O st alpha bootstraps smoothed vals wts) = py_calc_iter i (length vals) r.
Proof.
  unfold ci_run. destruct vals as [|x t].
  - exists (0, 0). reflexivity.
  - cbn [length]. destruct (Z.of_nat (S (length t)) <? ci_min_k)%Z.
    + exists (x, x). rewrite source_calc_step. reflexivity.
    + destruct smoothed; eexists; rewrite source_calc_step; reflexivity.
Qed.
