(* C05 function-body tie of summarize_info (cnvlib/reference.py), translated on every run (Gen/FnRefSummarize.v) and read
   per bin, i.e. per column of the two matrices (rows = the flat pseudo-sample and the samples):

       cvg_centers = np.apply_along_axis(descriptives.biweight_location, 0, all_logr)
       depth_centers = np.apply_along_axis(descriptives.biweight_location, 0, all_depths)
       spreads = np.array([descriptives.biweight_midvariance(a, initial=i) for a, i in zip(all_logr.T, cvg_centers)])
       result = {"log2": cvg_centers, "depth": depth_centers, "spread": spreads}

   Model/Reference.v's consensus IS this code on every bin: log2 = the biweight location of the bin's log2 column, depth =
   that of its depth column, spread = the biweight midvariance of the log2 column started at THE LOG2 CENTRE.  The
   midvariance is a square root: the model carries its square (ref_bivar_sq); the tie is stated for every function
   whose square is the model's. *)
From CNV Require Import Base.Prelude Base.Str Base.QNum Gen.RefDefaults Model.Center Model.Sex Model.Reference Gen.FnRefSummarize.
Local Open Scope Q_scope.

Theorem fn_summarize_eq b col dcol (bivar : list Q -> Q -> Q) :
  let r := fn_summarize col dcol ref_biloc bivar in
  let c := consensus (b, col, dcol) in
  r_log2 c = fst (fst r) /\ r_depth c = snd (fst r) /\ snd r = bivar col (r_log2 c) /\
  r_spread_sq c = ref_bivar_sq col (r_log2 c).
Proof. cbv zeta. unfold consensus, fn_summarize. cbn. repeat split; reflexivity. Qed.

Corollary fn_summarize_spread b col dcol (bivar : list Q -> Q -> Q) :
  (forall a i, qsq (bivar a i) == ref_bivar_sq a i) ->
  r_spread_sq (consensus (b, col, dcol)) == qsq (snd (fn_summarize col dcol ref_biloc bivar)).
Proof.
  intros H. destruct (fn_summarize_eq b col dcol bivar) as (_ & _ & Hs & Hq). rewrite Hq, Hs, H. reflexivity.
Qed.
