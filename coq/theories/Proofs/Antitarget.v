(* C12, antitarget side: the per-chromosome structure of get_antitargets and the
   clauses inside / margin / disjoint / sizes / complete / contigs. *)
From CNV Require Import Base.Prelude Base.Str Model.IvRow Model.IvCombine Model.Intervals
  Model.Access Model.Target Model.Antitarget Spec.Cover Spec.Bins.
From CNV Require Import Proofs.IvCover Proofs.IvMerge Proofs.IvSubtract Proofs.IvSubdivide
  Proofs.IvIntersect Proofs.TargetLib Proofs.TargetSplit.
From CNV Require Gen.IvDefaults Gen.BinsDefaults.

(* the generated constants the literal numbers of Spec/Bins.v stand for *)
Lemma pad_size_500 : pad_size = 500.
Proof. reflexivity. Qed.

Lemma clip_none x : @clip None x = Z.max x 0.
Proof. reflexivity. Qed.

(* ---- resize: cover, order, validity ------------------------------------------- *)

Section ResizeFacts.
Context {A : Type}.
Notation row := (@row A).

Lemma covers_filter_valid (t : list row) x : covers (filter (fun r => lo r <? hi r) t) x <-> covers t x.
Proof.
  split; [apply covers_filter|]. intros [r [Hr Hx]]. exists r. split; [|exact Hx].
  apply filter_In. split; [exact Hr | lia].
Qed.

Lemma resize_shrink_covers (t : list row) x :
  covers (resize (-500) None t) x <->
  exists a, In a t /\ Z.max (lo a + 500) 0 <= x < Z.max (hi a - 500) 0.
Proof.
  destruct (resize_spec (-500) None t) as [_ H]. rewrite (H ltac:(lia)), covers_filter_valid.
  unfold covers. split.
  - intros [r [Hr Hx]]. apply in_map_iff in Hr as [a [<- Ha]]. exists a. split; [exact Ha|].
    unfold moved, lo, hi in *. cbn [fst snd] in Hx. rewrite !clip_to_nosize in Hx. lia.
  - intros [a [Ha Hx]]. exists (moved (-500) None a). split; [apply in_map; exact Ha|].
    unfold moved, lo, hi in *. cbn [fst snd]. rewrite !clip_to_nosize. lia.
Qed.

Lemma resize_shrink_valid (t : list row) : valid (resize (-500) None t).
Proof.
  destruct (resize_spec (-500) None t) as [_ H]. rewrite (H ltac:(lia)).
  unfold valid. rewrite Forall_forall. intros r Hr. apply filter_In in Hr as [_ Hr]. lia.
Qed.

Lemma resize_pad_covers (t : list row) x :
  covers (resize 500 None t) x <->
  exists a, In a t /\ Z.max (lo a - 500) 0 <= x < Z.max (hi a + 500) 0.
Proof.
  destruct (resize_spec 500 None t) as [H _]. rewrite (H ltac:(lia)).
  unfold covers. split.
  - intros [r [Hr Hx]]. apply in_map_iff in Hr as [a [<- Ha]]. exists a. split; [exact Ha|].
    unfold moved, lo, hi in *. cbn [fst snd] in Hx. rewrite !clip_to_nosize in Hx. lia.
  - intros [a [Ha Hx]]. exists (moved 500 None a). split; [apply in_map; exact Ha|].
    unfold moved, lo, hi in *. cbn [fst snd]. rewrite !clip_to_nosize. lia.
Qed.

Lemma resize_pad_sorted (t : list row) : sorted_lo t -> sorted_lo (resize 500 None t).
Proof.
  destruct (resize_spec 500 None t) as [H _]. rewrite (H ltac:(lia)). clear H.
  unfold sorted_lo. induction t as [|a t IH]; [auto|]. intros [Hab Ht]. cbn [map chain]. split; [|exact (IH Ht)].
  destruct t as [|b t']; [exact I|]. cbn [map]. unfold moved, lo, hi in *. cbn [fst snd].
  rewrite !clip_to_nosize. lia.
Qed.

End ResizeFacts.

(* ---- one chromosome of get_antitargets ----------------------------------------------- *)

Section Anti.
Variables (E T : list grow) (avg : Q) (mn : Z) (cut : Z -> Z -> Z -> Z).
Hypothesis Havg : 0 < Qnum avg.
Hypothesis Hcut : forall span n, cut_contract span n (cut span n).
Hypothesis HT : sorted_table T.
Hypothesis HE : nonneg_table E.

Let S := gsubtract (gresize (- pad_size) E) (gresize pad_size T).
Let out := map (set_gene Gen.BinsDefaults.ANTITARGET_NAME) (gsubdivide avg mn cut S).

Definition acc_c (c : string) := resize (-500) None (filter (on c) E).
Definition tgt_c (c : string) := resize 500 None (filter (on c) T).
Definition merged_c (c : string) :=
  merge_sel comb_cg Gen.IvDefaults.merge_bp_default (all_gaps Gen.IvDefaults.merge_bp_default S) (filter (on c) S).

Lemma S_proj c : filter (on c) S = subtract (acc_c c) (tgt_c c).
Proof. unfold S. rewrite gsubtract_proj, !gresize_proj, pad_size_500. reflexivity. Qed.

Lemma out_proj c :
  filter (on c) out = map (set_gene Gen.BinsDefaults.ANTITARGET_NAME) (flat_map (split_row_q avg mn cut) (merged_c c)).
Proof. unfold out. rewrite set_gene_proj, gsubdivide_proj. reflexivity. Qed.

Lemma S_c_valid c : valid (filter (on c) S).
Proof.
  rewrite S_proj. pose proof (subtract_pieces (acc_c c) (tgt_c c) (resize_shrink_valid _)) as H.
  unfold valid. rewrite Forall_forall in *. intros q Hq. destruct (H q Hq) as (k & _ & _ & _ & H1 & _). exact H1.
Qed.

Lemma S_valid : valid S.
Proof. apply valid_by_chrom. exact S_c_valid. Qed.

Lemma acc_c_covers c x : covers (acc_c c) x <-> shrunk_access E c x.
Proof.
  unfold acc_c. rewrite resize_shrink_covers. unfold shrunk_access. split.
  - intros [a [Ha Hx]]. apply filter_on_in in Ha as [Ha Hc]. exists a. split; [exact Ha|]. split; [exact Hc|].
    unfold nonneg_table in HE. rewrite Forall_forall in HE. specialize (HE a Ha). lia.
  - intros [a (Ha & Hc & Hx)]. exists a. split; [apply filter_on_in; auto|].
    unfold nonneg_table in HE. rewrite Forall_forall in HE. specialize (HE a Ha). lia.
Qed.

Lemma tgt_c_covers c x : 0 <= x -> covers (tgt_c c) x <-> near_target T c x.
Proof.
  intros Hx. unfold tgt_c. rewrite resize_pad_covers. unfold near_target. split.
  - intros [a [Ha H]]. apply filter_on_in in Ha as [Ha Hc]. exists a. split; [exact Ha|]. split; [exact Hc | lia].
  - intros [a (Ha & Hc & H)]. exists a. split; [apply filter_on_in; auto | lia].
Qed.

Lemma tgt_c_sorted c : sorted_lo (tgt_c c).
Proof. apply resize_pad_sorted. apply HT. Qed.

Lemma shrunk_access_nonneg c x : shrunk_access E c x -> 0 <= x.
Proof.
  intros [a (Ha & _ & Hx)]. unfold nonneg_table in HE. rewrite Forall_forall in HE. specialize (HE a Ha). lia.
Qed.

Lemma S_c_covers c x : covers (filter (on c) S) x <-> off_target E T c x.
Proof.
  rewrite S_proj, (subtract_covers _ _ _ (tgt_c_sorted c)), acc_c_covers. unfold off_target.
  split; intros [H1 H2]; (split; [exact H1|]); pose proof (shrunk_access_nonneg c x H1) as Hx;
    intros H; apply H2; apply (tgt_c_covers c x Hx); exact H.
Qed.

Lemma merged_c_spec c :
  (forall x, covers (merged_c c) x <-> off_target E T c x) /\ sorted_separated (merged_c c) /\ valid (merged_c c).
Proof.
  assert (Hbp : 0 <= Gen.IvDefaults.merge_bp_default) by (unfold Gen.IvDefaults.merge_bp_default; lia).
  destruct (merge_sel_spec comb_cg Gen.IvDefaults.merge_bp_default S (on c) Hbp) as (H1 & H2 & H3).
  split; [|split].
  - intros x. unfold merged_c. rewrite H1. apply S_c_covers.
  - apply overlap_below_0_separated. exact H2.
  - apply H3. exact S_valid.
Qed.

(* cover of the antitargets of one chromosome *)
Lemma out_c_covers c x :
  gcovers out c x <-> exists r, In r (merged_c c) /\ mn <= hi r - lo r /\ lo r <= x < hi r.
Proof.
  destruct (merged_c_spec c) as (_ & _ & Hv).
  unfold gcovers. rewrite out_proj, covers_set_gene. apply flat_split_covers; assumption.
Qed.

Lemma out_c_off_target c x : gcovers out c x -> off_target E T c x.
Proof.
  intros H. apply out_c_covers in H as [r (Hr & _ & Hx)].
  destruct (merged_c_spec c) as (Hc & _ & _). apply Hc. exists r. auto.
Qed.

(* C12_anti_inside / C12_anti_margin *)
Lemma anti_inside c x : gcovers out c x -> shrunk_access E c x.
Proof. intros H. apply out_c_off_target in H. exact (proj1 H). Qed.

Lemma anti_margin c x : gcovers out c x -> ~ near_target T c x.
Proof. intros H. apply out_c_off_target in H. exact (proj2 H). Qed.

(* C12_anti_complete *)
Lemma anti_complete c s e : stretch (off_target E T c) s e ->
  (mn <= e - s -> forall x, s <= x < e -> gcovers out c x) /\
  (e - s < mn -> forall x, s <= x < e -> ~ gcovers out c x).
Proof.
  intros Hst. destruct (merged_c_spec c) as (Hc & Hs & Hv).
  assert (Hst' : stretch (covers (merged_c c)) s e).
  { destruct Hst as (H1 & H2 & H3 & H4). split; [exact H1|]. split; [|split].
    - intros x Hx. apply Hc. apply H2. exact Hx.
    - intros H. apply H3. apply Hc. exact H.
    - intros H. apply H4. apply Hc. exact H. }
  destruct (stretch_is_row (merged_c c) s e Hs Hv Hst') as (r & Hr & Hlo & Hhi).
  split.
  - intros Hmn x Hx. apply out_c_covers. exists r. split; [exact Hr | lia].
  - intros Hmn x Hx H. apply out_c_covers in H as (r' & Hr' & Hmn' & Hx').
    (* r' contains x, hence is the row r *)
    destruct (row_is_stretch (merged_c c) r' Hs Hv Hr') as (_ & Hin' & Hpre' & Hpost').
    destruct (row_is_stretch (merged_c c) r Hs Hv Hr) as (_ & Hin & Hpre & Hpost).
    assert (lo r' = lo r).
    { destruct (Z.lt_trichotomy (lo r') (lo r)) as [H|[H|H]]; [|exact H|].
      - exfalso. apply Hpre. apply Hin'. lia.
      - exfalso. apply Hpre'. apply Hin. lia. }
    assert (hi r' = hi r).
    { destruct (Z.lt_trichotomy (hi r') (hi r)) as [H0|[H0|H0]]; [|exact H0|].
      - exfalso. apply Hpost'. apply Hin. lia.
      - exfalso. apply Hpost. apply Hin'. lia. }
    lia.
Qed.

(* every covered base lies in a maximal off-target stretch of at least the minimum size *)
Lemma anti_covered_stretch c x : gcovers out c x ->
  exists s e, stretch (off_target E T c) s e /\ mn <= e - s /\ s <= x < e.
Proof.
  intros H. apply out_c_covers in H as (r & Hr & Hmn & Hx).
  destruct (merged_c_spec c) as (Hc & Hs & Hv).
  destruct (row_is_stretch (merged_c c) r Hs Hv Hr) as (H1 & H2 & H3 & H4).
  exists (lo r), (hi r). split; [|split; assumption].
  split; [exact H1|]. split; [|split].
  - intros y Hy. apply Hc. apply H2. exact Hy.
  - intros H. apply H3. apply Hc. exact H.
  - intros H. apply H4. apply Hc. exact H.
Qed.

(* C12_anti_disjoint *)
Lemma sorted_disjoint_set_gene g (t : list grow) : sorted_disjoint t -> sorted_disjoint (map (set_gene g) t).
Proof.
  unfold sorted_disjoint. induction t as [|a t IH]; [auto|]. intros [Hab Ht]. cbn [map chain]. split; [|exact (IH Ht)].
  destruct t as [|b t']; [exact I|]. exact Hab.
Qed.

Lemma anti_disjoint c :
  sorted_disjoint (filter (on c) out) /\ Forall (fun b => lo b <= hi b) (filter (on c) out).
Proof.
  destruct (merged_c_spec c) as (_ & Hs & Hv). rewrite out_proj. split.
  - apply sorted_disjoint_set_gene. apply flat_split_sorted; assumption.
  - pose proof (flat_split_weakly_valid avg mn cut Havg Hcut (merged_c c) Hv) as H.
    unfold weakly_valid in H. rewrite Forall_forall in *. intros b Hb.
    apply in_map_iff in Hb as [b0 [<- Hb0]]. exact (H b0 Hb0).
Qed.

(* C12_anti_sizes *)
Lemma anti_sizes b : In b out ->
  gene b = Gen.BinsDefaults.ANTITARGET_NAME /\
  (mn <= 0 \/ 4 * mn * Zpos (Qden avg) <= 3 * Qnum avg - 4 * Zpos (Qden avg) -> mn <= hi b - lo b) /\
  (4 * Zpos (Qden avg) <= Qnum avg -> 2 * (hi b - lo b) * Zpos (Qden avg) <= 3 * Qnum avg).
Proof.
  intros Hb. remember (chrom b) as c eqn:Ec.
  assert (Hbc : In b (filter (on c) out)) by (apply filter_on_in; auto).
  rewrite out_proj in Hbc. apply in_map_iff in Hbc as [b0 [Eb Hb0]]. rewrite <- Eb. split; [reflexivity|].
  change (hi (set_gene Gen.BinsDefaults.ANTITARGET_NAME b0)) with (hi b0).
  change (lo (set_gene Gen.BinsDefaults.ANTITARGET_NAME b0)) with (lo b0).
  apply in_flat_map in Hb0 as [r [Hr Hb0]].
  destruct (merged_c_spec c) as (_ & _ & Hv). pose proof (valid_in _ _ Hv Hr) as Hlt.
  destruct (split_row_q_spec avg mn cut r Havg Hlt Hcut) as (Hn & Hsmall & Hbig & _).
  destruct (Z.lt_ge_cases (hi r - lo r) mn) as [H|H]; [rewrite (Hsmall H) in Hb0; destruct Hb0|].
  exact (equal_bins_sizes avg mn (lo r) (hi r) _ (pay r) _ b0 Havg Hlt H Hn (Hbig H) Hb0).
Qed.

(* antitargets only on contigs of the (effective) access table *)
Lemma anti_contigs b : In b out -> exists a, In a E /\ chrom a = chrom b.
Proof.
  intros Hb.
  assert (Hbc : In b (filter (on (chrom b)) out)) by (apply filter_on_in; auto).
  destruct (filter (on (chrom b)) E) as [|a l] eqn:EE.
  - exfalso. rewrite out_proj in Hbc. unfold merged_c in Hbc. rewrite S_proj in Hbc. unfold acc_c in Hbc.
    rewrite EE in Hbc. exact Hbc.
  - exists a. apply filter_on_in. rewrite EE. left; reflexivity.
Qed.

End Anti.
