(* C15: the row masks of Model/Center.v (chr_x_filter / parx_filter / chr_y_filter / pary_filter)
   select exactly the chromosome classes of Model/Call.v (C01's model of the same cnary.py masks,
   PAR table from Gen/Params.v): the two models of the same code agree. *)
From CNV Require Import Base.Prelude Base.Str Base.QNum Gen.CenterDefaults Model.Center.
From CNV Require Gen.Params Gen.CallDefaults Model.Call.

Definition center_class (t : list bin) (p : parb) (b : bin) : Call.cls :=
  if parx_filter t p b then Call.ParX
  else if chr_x_filter t (Some p) b then Call.ChrX
  else if pary_filter t p b then Call.ParY
  else if chr_y_filter t (Some p) b then Call.ChrY
  else Call.Auto.

Definition center_class_nobuild (t : list bin) (b : bin) : Call.cls :=
  if chr_x_filter t None b then Call.ChrX else if chr_y_filter t None b then Call.ChrY else Call.Auto.

Lemma par_tables_same : par_table = Params.PAR_TABLE.
Proof. reflexivity. Qed.

Lemma x_label_same b t : Call.x_label (b_chrom b) = x_label (b :: t).
Proof. reflexivity. Qed.

Lemma y_label_same b t : Call.y_label (b_chrom b) = y_label (b :: t).
Proof. unfold Call.y_label, y_label. rewrite x_label_same with (t := t). reflexivity. Qed.

Lemma lookup_same build key : Call.par_lookup Params.PAR_TABLE build key = par_lookup par_table build key.
Proof.
  rewrite par_tables_same. generalize Params.PAR_TABLE. intros tbl.
  induction tbl as [|[[[b k] lo] hi] tbl IH]; simpl; [reflexivity|]. rewrite IH. reflexivity.
Qed.

Lemma in_par_same name p b :
  resolve_build name = Some p ->
  Call.in_par name CallDefaults.par_keys_x (b_start b) (b_end b) = in_par (par_x p) b /\
  Call.in_par name CallDefaults.par_keys_y (b_start b) (b_end b) = in_par (par_y p) b.
Proof.
  unfold resolve_build, Call.in_par, Call.lower_str. intros H.
  unfold CallDefaults.par_keys_x, CallDefaults.par_keys_y. cbn [existsb].
  rewrite (lookup_same _ "PAR1X"), (lookup_same _ "PAR2X"), (lookup_same _ "PAR1Y"), (lookup_same _ "PAR2Y").
  destruct (par_lookup par_table (unchars (lower (chars name))) "PAR1X") as [[a1 a2]|]; [|discriminate].
  destruct (par_lookup par_table (unchars (lower (chars name))) "PAR2X") as [[a3 a4]|]; [|discriminate].
  destruct (par_lookup par_table (unchars (lower (chars name))) "PAR1Y") as [[c1 c2]|]; [|discriminate].
  destruct (par_lookup par_table (unchars (lower (chars name))) "PAR2Y") as [[c3 c4]|]; [|discriminate].
  injection H as <-. unfold in_par. cbn [par_x par_y]. rewrite !orb_false_r. split; reflexivity.
Qed.

(* with a PAR build *)
Theorem classes_agree name p b0 t b :
  resolve_build name = Some p ->
  Call.row_class (Some name) (b_chrom b0) (b_chrom b) (b_start b) (b_end b) = center_class (b0 :: t) p b.
Proof.
  intros H. destruct (in_par_same name p b H) as [Hx Hy].
  unfold Call.row_class, center_class, parx_filter, pary_filter, chr_x_filter, chr_y_filter, parx_filter, pary_filter.
  rewrite (x_label_same b0 t), (y_label_same b0 t), Hx, Hy.
  destruct (String.eqb (b_chrom b) (x_label (b0 :: t))); cbn [andb negb].
  - destruct (in_par (par_x p) b); reflexivity.
  - destruct (String.eqb (b_chrom b) (y_label (b0 :: t))); cbn [andb negb]; [|reflexivity].
    destruct (in_par (par_y p) b); reflexivity.
Qed.

(* without one *)
Theorem classes_agree_nobuild b0 t b :
  Call.row_class None (b_chrom b0) (b_chrom b) (b_start b) (b_end b) = center_class_nobuild (b0 :: t) b.
Proof.
  unfold Call.row_class, center_class_nobuild, chr_x_filter, chr_y_filter.
  rewrite (x_label_same b0 t), (y_label_same b0 t).
  destruct (String.eqb (b_chrom b) (x_label (b0 :: t))); cbn [andb]; [reflexivity|].
  destruct (String.eqb (b_chrom b) (y_label (b0 :: t))); reflexivity.
Qed.

(* the supported builds are the same *)
Theorem builds_agree name : Call.build_supported name = true <-> exists p, resolve_build name = Some p.
Proof.
  unfold Call.build_supported, resolve_build, Call.lower_str. rewrite <- par_tables_same.
  set (n := unchars (lower (chars name))).
  split.
  - intros H. apply existsb_exists in H. destruct H as [[[[b k] lo] hi] [Hin E]]. apply String.eqb_eq in E. subst b.
    revert Hin. generalize n. clear n. intros n Hin.
    unfold par_table in Hin. simpl in Hin.
    repeat (destruct Hin as [Hin|Hin]; [injection Hin as <- _ _ _; vm_compute; eexists; reflexivity|]).
    contradiction.
  - intros [p H].
    destruct (par_lookup par_table n "PAR1X") as [[a1 a2]|] eqn:E; [|discriminate].
    clear H. revert E. generalize n. clear n. intros n. unfold par_table. cbn [par_lookup existsb].
    repeat match goal with
           | |- context [String.eqb ?a n] => destruct (String.eqb a n) eqn:?; cbn [andb orb]
           end; try discriminate; try reflexivity.
Qed.
