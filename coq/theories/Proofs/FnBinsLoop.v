(* C12 loop tie of skgenome.subdivide._split_targets for a RATIONAL average bin size (cnvkit's target
   command passes the float 200 / 0.75, antitarget an integer): one merged region is split by the
   generated scalar head of the loop body (Gen/FnBinsSplit.v: span, the keep test, the bin count) and
   then by the generated bin loop (Gen/FnIvSplitLoop.v, property C06's loop tie: the assignments before
   `for i in range(1, nbins)`, one iteration, the closing yield).  Here: Model/Target.v split_row_q --
   what gsubdivide, and so do_target and get_antitargets, do to every merged region -- with the cut
   points read exactly (cut span n i = int(i * (span / n))) IS that generated code run over
   range(1, nbins); and those cut points meet the arithmetic contract the size theorems assume. *)
From CNV Require Import Base.Prelude Base.QNum Model.IvRow Model.Intervals Model.Target Spec.Cover.
From CNV Require Import Proofs.FnBins Proofs.FnIvSplitLoop.
From CNV Require Gen.FnBinsSplit Gen.FnIvSplitLoop.

Local Open Scope Z_scope.

(* the whole region as the source runs it *)
Definition src_split_row_q {A} (avg : Q) (mn : Z) (r : @row A) : list (@row A) :=
  let '(span, keep, count) := FnBinsSplit.fn_split_scalar (lo r) (hi r) avg mn in
  if keep then
    let n := if count =? 0 then 1 else count in        (* nbins = int(round(span / avg_size)) or 1 *)
    if n =? 1 then [r]
    else let '(bsz, bs0) := FnIvSplitLoop.fn_split_init span n (lo r) in
         with_pay (pay r) (src_bins (lo r) (hi r) bsz bs0 1 (Z.to_nat (n - 1)))
  else [].

Theorem source_split_row_q {A} (avg : Q) (mn : Z) (r : @row A) : (0 < avg)%Q ->
  src_split_row_q avg mn r = split_row_q avg mn cut_of_source r.
Proof.
  intros Ha. unfold src_split_row_q.
  pose proof (fn_split_scalar_eq avg mn cut_of_source r Ha) as H.
  destruct (FnBinsSplit.fn_split_scalar (lo r) (hi r) avg mn) as [[span keep] count].
  destruct H as (Hs & _ & _ & H). rewrite H. cbv zeta.
  destruct keep; [|reflexivity].
  destruct ((if count =? 0 then 1 else count) =? 1); [reflexivity|].
  rewrite source_split_init. subst span. apply source_split_loop.
Qed.

(* GenomicArray.subdivide on a whole table, every merged region through the generated code *)
Theorem source_gsubdivide (avg : Q) (mn : Z) (t : list grow) : (0 < avg)%Q ->
  gsubdivide avg mn cut_of_source t =
  flat_map (src_split_row_q avg mn) (gmerge Gen.IvDefaults.merge_bp_default t).
Proof.
  intros Ha. unfold gsubdivide. apply flat_map_ext. intros r. symmetry. apply source_split_row_q. exact Ha.
Qed.
