(* flatten_group: the pieces made from one connected group of rows tile exactly
   [start of the first row, maximal end), are sorted / disjoint / proper, and no
   boundary of a group row lies strictly inside a piece. *)
From CNV Require Import Base.Prelude Model.IvRow Model.Intervals Spec.Cover Proofs.IvCover Proofs.IvBreaks Proofs.IvMerge.

(* ---- generic facts about increasing lists ---------------------------------- *)

Lemma incr_hd_of_min l a :
  incr l -> In a l -> (forall y, In y l -> a <= y) -> hd_opt l = Some a.
Proof.
  intros H Ha Hmin. destruct l as [|h t]; [destruct Ha|].
  cbn [hd_opt]. f_equal.
  assert (H1 : a <= h) by (apply Hmin; left; reflexivity).
  assert (H2 : h <= a) by (apply (incr_hd_min (h :: t) h H eq_refl a Ha)).
  lia.
Qed.

Lemma last_opt_some {B} (l : list B) : l <> [] -> exists z, last_opt l = Some z.
Proof.
  induction l as [|a t IH]; intro Hne.
  - exfalso. apply Hne. reflexivity.
  - destruct t as [|b t].
    + exists a. reflexivity.
    + rewrite last_opt_cons2. apply IH. discriminate.
Qed.

Lemma incr_last_of_max l z :
  incr l -> In z l -> (forall y, In y l -> y <= z) -> last_opt l = Some z.
Proof.
  intros H Hz Hmax.
  destruct (last_opt_some l) as [w Hw].
  { intro E. subst l. destruct Hz. }
  rewrite Hw. f_equal.
  pose proof (last_opt_In l w Hw) as Hwin.
  pose proof (Hmax w Hwin) as H1.
  pose proof (incr_last_max l w H Hw z Hz) as H2.
  lia.
Qed.

(* ---- pieces ------------------------------------------------------------------ *)

Section FlattenGroup.
Context {A : Type}.
Notation row := (@row A).
Implicit Types (r f : row) (g : list row).

(* the row made from a pair of consecutive breakpoints *)
Definition mkrow (pl : Z * Z -> A) (se : Z * Z) : row := (fst se, snd se, pl se).

Lemma lo_mkrow pl se : lo (mkrow pl se) = fst se.
Proof. reflexivity. Qed.

Lemma hi_mkrow pl se : hi (mkrow pl se) = snd se.
Proof. reflexivity. Qed.

Lemma abut_chain pl ps : abut ps -> sorted_disjoint (map (mkrow pl) ps).
Proof.
  unfold sorted_disjoint. induction ps as [|p t IH]; intro H.
  - exact I.
  - destruct t as [|q t].
    + apply chain_single.
    + destruct H as [Hpq Ht].
      change (map (mkrow pl) (p :: q :: t))
        with (mkrow pl p :: mkrow pl q :: map (mkrow pl) t).
      apply chain_cons. split.
      * rewrite hi_mkrow, lo_mkrow. lia.
      * apply IH. exact Ht.
Qed.

Lemma breaks_In g y : In y (breaks g) <-> boundary g y.
Proof.
  unfold breaks, boundary. rewrite sort_uniq_In, in_flat_map. split.
  - intros (r & Hr & Hy). exists r. split; [exact Hr|].
    destruct Hy as [Hy|[Hy|[]]]; [left|right]; symmetry; exact Hy.
  - intros (r & Hr & Hy). exists r. split; [exact Hr|].
    destruct Hy as [Hy|Hy]; subst y; cbn [In]; auto.
Qed.

(* every boundary of a connected, valid group lies in [lo f, maxhi] *)
Lemma group_boundary_bounds f g' y :
  connected (lo f) (hi f) g' -> valid (f :: g') -> boundary (f :: g') y ->
  lo f <= y <= maxhi (hi f) g'.
Proof.
  intros C V (r & Hr & Hy).
  pose proof (maxhi_ge (hi f) g') as Hge.
  apply valid_cons in V. destruct V as [Vf Vg].
  assert (Hr' : lo f <= lo r /\ lo r < hi r /\ hi r <= maxhi (hi f) g').
  { destruct Hr as [Hr|Hr].
    - subst r. lia.
    - pose proof (lsorted_all _ _ (connected_lsorted _ _ _ C)) as Hall.
      rewrite Forall_forall in Hall. pose proof (Hall r Hr) as H1.
      pose proof (valid_in g' r Vg Hr) as H2.
      pose proof (maxhi_ge_in (hi f) g' r Hr) as H3. lia. }
  lia.
Qed.

Lemma flatten_group_pair (comb : A -> list A -> A) f x g'' :
  flatten_group comb (f :: x :: g'') =
  map (mkrow (fun se => comb (pay f)
                 (map pay (in_play (f :: x :: g'') (fst se) (snd se)))))
      (pairs (breaks (f :: x :: g''))).
Proof. reflexivity. Qed.

End FlattenGroup.

(* ---- the specification of flatten_group on one connected group --------------- *)

Lemma flatten_group_spec {A} (comb : A -> list A -> A) (f : @row A) (g' : list (@row A)) :
  connected (lo f) (hi f) g' -> valid (f :: g') ->
  let M := maxhi (hi f) g' in
  let out := flatten_group comb (f :: g') in
  (forall z, covers out z <-> lo f <= z < M) /\
  sorted_disjoint out /\ valid out /\
  Forall (fun p => lo f <= lo p /\ hi p <= M) out /\
  out <> [] /\
  (forall y p, boundary (f :: g') y -> In p out -> ~ (lo p < y < hi p)).
Proof.
  intros C V M out.
  destruct g' as [|x g''].
  - subst M out. cbn [maxhi flatten_group].
    apply valid_cons in V. destruct V as [Vf _].
    split; [intro z; apply covers_single|].
    split; [apply chain_single|].
    split; [constructor; [exact Vf|constructor]|].
    split; [constructor; [lia|constructor]|].
    split; [discriminate|].
    intros y p (r & Hr & Hy) Hp.
    destruct Hr as [Hr|[]]. destruct Hp as [Hp|[]]. subst r p. lia.
  - pose proof (group_boundary_bounds f (x :: g'') ) as Hbnd.
    specialize (fun y => Hbnd y C V). fold M in Hbnd.
    pose proof (maxhi_ge (hi f) (x :: g'')) as HfM. fold M in HfM.
    pose proof (maxhi_attained (hi f) (x :: g'')) as Hatt. fold M in Hatt.
    assert (Vf : lo f < hi f).
    { apply valid_cons in V. destruct V as [Vf _]. exact Vf. }
    subst out. rewrite flatten_group_pair.
    remember (f :: x :: g'') as grp eqn:Egrp.
    remember (fun se : Z * Z =>
                comb (pay f) (map pay (in_play grp (fst se) (snd se)))) as pl eqn:Epl.
    clear Epl.
    set (bs := breaks grp).
    assert (Hf_in : In f grp) by (subst grp; left; reflexivity).
    assert (Hincr : incr bs) by apply sort_uniq_incr.
    assert (Hbd : forall y, In y bs -> lo f <= y <= M).
    { intros y Hy. apply Hbnd. apply breaks_In. exact Hy. }
    assert (Hlo_in : In (lo f) bs).
    { apply breaks_In. exists f. split; [exact Hf_in | left; reflexivity]. }
    assert (HM_in : In M bs).
    { apply breaks_In. destruct Hatt as [E|(r & Hr & E)].
      - exists f. split; [exact Hf_in | right; exact E].
      - exists r. split; [subst grp; right; exact Hr | right; exact E]. }
    assert (Hhd : hd_opt bs = Some (lo f)).
    { apply incr_hd_of_min; [exact Hincr | exact Hlo_in |].
      intros y Hy. apply Hbd. exact Hy. }
    assert (Hlast : last_opt bs = Some M).
    { apply incr_last_of_max; [exact Hincr | exact HM_in |].
      intros y Hy. apply Hbd. exact Hy. }
    assert (Hcov : forall z, covers (map (mkrow pl) (pairs bs)) z <-> lo f <= z < M).
    { intro z. rewrite <- (pairs_cover bs (lo f) M Hincr Hhd Hlast z).
      unfold covers. split.
      - intros (r & Hr & Hz). apply in_map_iff in Hr.
        destruct Hr as ([s e] & Er & Hin). subst r.
        exists s, e. split; [exact Hin | exact Hz].
      - intros (s & e & Hin & Hz). exists (mkrow pl (s, e)).
        split; [apply in_map; exact Hin | exact Hz]. }
    split; [exact Hcov|].
    split; [apply abut_chain, pairs_abut'|].
    split.
    { unfold valid. rewrite Forall_forall. intros p Hp.
      apply in_map_iff in Hp. destruct Hp as ([s e] & Ep & Hin). subst p.
      destruct (pairs_In_lt bs s e Hincr Hin) as (Hlt & _). exact Hlt. }
    split.
    { rewrite Forall_forall. intros p Hp.
      apply in_map_iff in Hp. destruct Hp as ([s e] & Ep & Hin). subst p.
      destruct (pairs_In_lt bs s e Hincr Hin) as (_ & Hs & He).
      rewrite lo_mkrow, hi_mkrow. cbn [fst snd].
      pose proof (Hbd s Hs). pose proof (Hbd e He). lia. }
    split.
    { intro Hnil.
      assert (Hc : covers (map (mkrow pl) (pairs bs)) (lo f)) by (apply Hcov; lia).
      rewrite Hnil in Hc. exact (covers_nil _ Hc). }
    intros y p Hb Hp. apply breaks_In in Hb.
    apply in_map_iff in Hp. destruct Hp as ([s e] & Ep & Hin). subst p.
    rewrite lo_mkrow, hi_mkrow. cbn [fst snd].
    apply (pairs_no_break_inside bs s e y Hincr Hin Hb).
Qed.
