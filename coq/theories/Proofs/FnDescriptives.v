(* Source tie for the scalar / elementwise statements of cnvlib/descriptives.py and
   cnvlib/smoothing.py: the definitions that tools/py2v_fn.py regenerates from the
   Python source on every run (Gen/FnDescriptives.v, Gen/FnSmoothing.v; spec:
   tools/fnspecs/descriptives.py) are equal to the corresponding pieces of the
   hand-written models (Model/Descriptives.v, Model/Smoothing.v) the C19 theorems
   speak about.  A change to one of these statements changes the generated
   definition, and these lemmas are re-checked against it. *)
From CNV Require Import Base.Prelude Base.QNum Proofs.QNumLemmas Gen.DescDefaults
  Gen.FnDescriptives Gen.FnSmoothing Model.Descriptives Model.Smoothing.
From Coq Require Import Qabs Qround Psatz Setoid Morphisms.
Local Open Scope Q_scope.

(* ---- small facts ------------------------------------------------------------ *)
Lemma Qle_bool_wd a a' b b' : a == a' -> b == b' -> Qle_bool a b = Qle_bool a' b'.
Proof.
  intros Ha Hb. destruct (Qle_bool a b) eqn:E1, (Qle_bool a' b') eqn:E2; try reflexivity.
  - apply Qle_bool_iff in E1. rewrite Ha, Hb in E1. apply Qle_bool_iff in E1. congruence.
  - apply Qle_bool_iff in E2. rewrite <- Ha, <- Hb in E2. apply Qle_bool_iff in E2. congruence.
Qed.

Lemma Qeq_bool_wd2 a a' b b' : a == a' -> b == b' -> Qeq_bool a b = Qeq_bool a' b'.
Proof.
  intros Ha Hb. destruct (Qeq_bool a b) eqn:E1, (Qeq_bool a' b') eqn:E2; try reflexivity.
  - apply Qeq_bool_iff in E1. rewrite Ha, Hb in E1. apply Qeq_bool_iff in E1. congruence.
  - apply Qeq_bool_iff in E2. rewrite <- Ha, <- Hb in E2. apply Qeq_bool_iff in E2. congruence.
Qed.

(* Python's max(a, b) = (b if b > a else a) and the model's qmax2 agree up to == *)
Lemma py_max_qmax2 a b : (if Qle_bool b a then a else b) == qmax2 a b.
Proof.
  unfold qmax2. destruct (Qle_bool b a) eqn:E1, (Qle_bool a b) eqn:E2; try reflexivity.
  - apply Qle_bool_iff in E1, E2. lra.
  - exfalso. destruct (QOrder.leb_total a b) as [H|H]; unfold QOrder.leb in H; congruence.
Qed.

Lemma round_half_even_wd a b : a == b -> round_half_even a = round_half_even b.
Proof.
  intro H. unfold round_half_even. rewrite (Qfloor_comp _ _ H).
  assert (E : a - inject_Z (Qfloor b) == b - inject_Z (Qfloor b)) by (rewrite H; reflexivity).
  rewrite (Qcompare_comp _ _ E _ _ (Qeq_refl (1 # 2))). reflexivity.
Qed.

(* ---- biweight location ------------------------------------------------------ *)
(* per element: the mask and the biweight of one deviation *)
Lemma fn_biloc_weight_elem d mad c eps :
  fst (fn_biloc_weight d mad c eps) = qlt_b (qabs (qdiv d (qmax2 (qmul c mad) eps))) BILOC_MASK_BOUND /\
  snd (fn_biloc_weight d mad c eps) == qsq (qsub 1 (qsq (qdiv d (qmax2 (qmul c mad) eps)))).
Proof.
  unfold fn_biloc_weight. cbn [fst snd].
  assert (Hs : (if Qle_bool eps (c * mad) then c * mad else eps) == qmax2 (qmul c mad) eps).
  { rewrite py_max_qmax2. unfold qmax2. rewrite (Qle_bool_wd (c * mad) (qmul c mad) eps eps);
      [|symmetry; apply qmul_spec|reflexivity].
    destruct (Qle_bool (qmul c mad) eps); [reflexivity|symmetry; apply qmul_spec]. }
  assert (Hu : d / (if Qle_bool eps (c * mad) then c * mad else eps) == qdiv d (qmax2 (qmul c mad) eps)).
  { rewrite qdiv_spec, Hs. reflexivity. }
  split.
  - unfold qlt_b, qabs, BILOC_MASK_BOUND. f_equal. apply Qle_bool_wd; [reflexivity|]. now rewrite Hu.
  - rewrite qsq_spec, qsub_spec, qsq_spec. change (inject_Z 1) with 1. rewrite Hu. reflexivity.
Qed.

(* the kept (deviation, biweight) pairs of one iteration, as the source computes them *)
Definition pair_rel (p q : Q * Q) : Prop := fst p = fst q /\ snd p == snd q.

Theorem fn_biloc_masked c eps a initial :
  let d := sub_all initial a in
  let mad := median (abs_all d) in
  Forall2 pair_rel (biloc_masked c eps a initial)
    (map (fun di => (di, snd (fn_biloc_weight di mad c eps)))
         (filter (fun di => fst (fn_biloc_weight di mad c eps)) d)).
Proof.
  cbn zeta. unfold biloc_masked.
  set (d := sub_all initial a). set (mad := median (abs_all d)). set (scale := qmax2 (qmul c mad) eps).
  generalize d as l. induction l as [|x t IH]; cbn [map combine filter]; [constructor|].
  destruct (fn_biloc_weight_elem x mad c eps) as [Em Ew]. fold scale in Em, Ew.
  cbn [snd]. rewrite Em.
  destruct (qlt_b (qabs (qdiv x scale)) BILOC_MASK_BOUND); cbn [map]; [constructor|]; auto.
  split; cbn [fst snd]; [reflexivity|symmetry; exact Ew].
Qed.

(* the update: initial if nothing is kept, else initial + sum(d w) / sum(w) *)
Theorem fn_biloc_iter c eps a initial :
  let dw := biloc_masked c eps a initial in
  biloc_iter c eps a initial == fn_biloc_update (qsum (map snd dw)) (qdot (map fst dw) (map snd dw)) initial.
Proof.
  cbn zeta. unfold biloc_iter, fn_biloc_update, qeq_b. change (inject_Z 0) with 0.
  destruct (Qeq_bool _ 0); [reflexivity|]. rewrite qadd_spec, qdiv_spec. reflexivity.
Qed.

(* ---- biweight midvariance --------------------------------------------------- *)
Lemma fn_bivar_weight_elem d mad c eps :
  fst (fn_bivar_weight d mad c eps) == qdiv d (qmax2 (qmul c mad) eps) /\
  snd (fn_bivar_weight d mad c eps) = qlt_b (qabs (qdiv d (qmax2 (qmul c mad) eps))) BIVAR_MASK_BOUND.
Proof.
  unfold fn_bivar_weight. cbn [fst snd].
  assert (Hs : (if Qle_bool eps (c * mad) then c * mad else eps) == qmax2 (qmul c mad) eps).
  { rewrite py_max_qmax2. unfold qmax2. rewrite (Qle_bool_wd (c * mad) (qmul c mad) eps eps);
      [|symmetry; apply qmul_spec|reflexivity].
    destruct (Qle_bool (qmul c mad) eps); [reflexivity|symmetry; apply qmul_spec]. }
  assert (Hu : d / (if Qle_bool eps (c * mad) then c * mad else eps) == qdiv d (qmax2 (qmul c mad) eps)).
  { rewrite qdiv_spec, Hs. reflexivity. }
  split; [exact Hu|].
  unfold qlt_b, qabs, BIVAR_MASK_BOUND. f_equal. apply Qle_bool_wd; [reflexivity|]. now rewrite Hu.
Qed.

(* the kept (deviation, u) pairs of bivar_parts_of, as the source computes them *)
Theorem fn_bivar_masked c eps (d : list Q) :
  let mad := median (abs_all d) in
  let scale := qmax2 (qmul c mad) eps in
  Forall2 pair_rel
    (filter (fun p => qlt_b (qabs (snd p)) BIVAR_MASK_BOUND) (combine d (map (fun di => qdiv di scale) d)))
    (map (fun di => (di, fst (fn_bivar_weight di mad c eps)))
         (filter (fun di => snd (fn_bivar_weight di mad c eps)) d)).
Proof.
  cbn zeta. set (mad := median (abs_all d)). set (scale := qmax2 (qmul c mad) eps).
  generalize d as l. induction l as [|x t IH]; cbn [map combine filter]; [constructor|].
  destruct (fn_bivar_weight_elem x mad c eps) as [Ew Em]. fold scale in Em, Ew.
  cbn [snd]. rewrite Em.
  destruct (qlt_b (qabs (qdiv x scale)) BIVAR_MASK_BOUND); cbn [map]; [constructor|]; auto.
  split; cbn [fst snd]; [reflexivity|symmetry; exact Ew].
Qed.

(* ---- weighted median -------------------------------------------------------- *)
Lemma fn_wm_midpoint_eq wtot : fn_wm_midpoint wtot == qmul WMEDIAN_HALF wtot.
Proof. unfold fn_wm_midpoint, WMEDIAN_HALF. rewrite qmul_spec. reflexivity. Qed.

Lemma fn_wm_tolerance_eq ps :
  fn_wm_tolerance (Z.of_nat (length ps)) WMEDIAN_TOL_EPS (qsum (map snd ps)) == wmed_tol ps.
Proof. unfold fn_wm_tolerance, wmed_tol, qofnat. rewrite !qmul_spec. reflexivity. Qed.

(* the decision taken at the index the search stops at: [pre] are the pairs already
   passed, (v, w) the pair whose running sum reaches the midpoint, [rest] what follows *)
Theorem fn_wm_pick_eq mid tol acc (pre : list (Q * Q)) v w rest :
  qle_b (qsub mid tol) (qadd acc w) = true ->
  wmed_walk mid tol acc ((v, w) :: rest) =
  fn_wm_pick (Z.of_nat (length pre)) (Z.of_nat (length (pre ++ (v, w) :: rest))) (qadd acc w) mid tol
             (match rest with (v2, _) :: _ => qdiv (qadd v v2) 2 | [] => v end) v.
Proof.
  intro E. cbn [wmed_walk]. rewrite E. unfold fn_wm_pick.
  assert (B : Qle_bool (Qabs (qadd acc w - mid)) tol = qle_b (qabs (qsub (qadd acc w) mid)) tol).
  { unfold qle_b, qabs. apply Qle_bool_wd; [|reflexivity]. apply Qabs_wd. symmetry. apply qsub_spec. }
  rewrite B. rewrite app_length.
  destruct rest as [|[v2 w2] rest']; cbn [length].
  - destruct (Z.ltb_spec (Z.of_nat (length pre)) (Z.of_nat (length pre + 1) - 1)) as [L|L]; [lia|reflexivity].
  - destruct (Z.ltb_spec (Z.of_nat (length pre)) (Z.of_nat (length pre + S (S (length rest'))) - 1)) as [L|L];
      [reflexivity|lia].
Qed.

(* ---- MAD scaling, mean squared error, Q_n ----------------------------------- *)
Lemma fn_mad_scale_eq a s :
  mad_core a s == fn_mad_scale (median (abs_all (sub_all (median a) a))) s.
Proof. unfold mad_core, fn_mad_scale, MAD_SCALE. destruct s; [apply qmul_spec|reflexivity]. Qed.

Lemma fn_wmad_scale_eq s mad : wmad_scale s mad == fn_wmad_scale mad s.
Proof. unfold wmad_scale, fn_wmad_scale, WMAD_SCALE. destruct s; [apply qmul_spec|reflexivity]. Qed.

Lemma fn_mse_centre_eq a initial :
  mse_core a initial == qmean (map (fun x => qsq (fn_mse_centre x initial)) a).
Proof.
  unfold mse_core. rewrite <- (map_map (fun x => fn_mse_centre x initial) qsq).
  apply qmean_PermQ, eqQ_PermQ. apply eqQ_map; [intros x y H; now rewrite !qsq_spec, H|].
  unfold fn_mse_centre. destruct initial as [i|].
  - unfold qeq_b. destruct (Qeq_bool i 0); cbn [negb].
    + rewrite <- (map_id a) at 1. apply eqQ_map_ext. reflexivity.
    + unfold sub_all. apply eqQ_map_ext. intros; apply qsub_spec.
  - rewrite <- (map_id a) at 1. apply eqQ_map_ext. reflexivity.
Qed.

Lemma fn_qn_result_eq a :
  qn_core a == fn_qn_result (percentile QN_PCT (pair_diffs a)) (qn_scale (length a)).
Proof. unfold qn_core, fn_qn_result. apply qdiv_spec. Qed.

(* ---- _width2wing ------------------------------------------------------------ *)
Lemma fn_wing_frac_eq n width : fn_wing_frac n width = wing_exact_frac n width.
Proof.
  unfold fn_wing_frac, wing_exact_frac, WING_HALF.
  assert (E : ceilQ (inject_Z n * width * (1 # 2)) = ceilQ (qmul (qmul (inject_Z n) width) (1 # 2))).
  { unfold ceilQ. apply Qceiling_comp. rewrite !qmul_spec. reflexivity. }
  rewrite E. set (z := ceilQ _).
  destruct (Qle_bool 0 (inject_Z z)); [apply floorQ_Z|apply ceilQ_Z].
Qed.

Lemma qmin2_inject_Z a b : qmin2 (inject_Z a) (inject_Z b) = inject_Z (Z.min a b).
Proof.
  unfold qmin2. destruct (Qle_bool (inject_Z a) (inject_Z b)) eqn:E.
  - apply Qle_bool_iff in E. rewrite <- Zle_Qle in E. now rewrite Z.min_l.
  - rewrite Z.min_r; [reflexivity|].
    destruct (Z.le_gt_cases a b) as [H|H]; [|lia].
    rewrite Zle_Qle in H. apply Qle_bool_iff in H. congruence.
Qed.

Lemma Qfloor_half m : Qfloor (inject_Z m / 2) = (m / 2)%Z.
Proof. unfold Qdiv, Qmult, Qinv, inject_Z, Qfloor. cbn. now rewrite Z.mul_1_r. Qed.

Lemma fn_wing_int_eq n z : Qfloor (qdiv (qmin2 (inject_Z z) (inject_Z (n - 1))) 2) = fn_wing_int n z.
Proof.
  unfold fn_wing_int. rewrite qmin2_inject_Z.
  rewrite (Qfloor_comp _ _ (qdiv_spec _ _)). apply Qfloor_half.
Qed.

Lemma fn_wing_clamp_eq n w0 :
  wing_clamp n w0 = if (WING_ASSERT_MIN <=? fn_wing_clamp w0 MIN_WING n)%Z
                    then WingOk (fn_wing_clamp w0 MIN_WING n) else WingAssert.
Proof. reflexivity. Qed.

Lemma is_integer_q_inject q : is_integer_q q = true -> q == inject_Z (Qfloor q).
Proof. unfold is_integer_q. intro H. apply Qeq_bool_iff in H. now symmetry. Qed.

Lemma qmin2_wd a a' b : a == a' -> qmin2 a b == qmin2 a' b.
Proof.
  intro H. unfold qmin2. rewrite (Qle_bool_wd a a' b b H (Qeq_refl b)).
  destruct (Qle_bool a' b); [exact H|reflexivity].
Qed.

(* the whole function: the source's three arithmetic fragments under the model's dispatch
   (the chained comparison `0 < width < 1` and `int(width) == width` are not translated) *)
Theorem fn_width2wing n width fo :
  let clamp w0 := if (WING_ASSERT_MIN <=? fn_wing_clamp w0 MIN_WING n)%Z
                  then WingOk (fn_wing_clamp w0 MIN_WING n) else WingAssert in
  width2wing n width fo =
  if qlt_b 0 width && qlt_b width 1 then
    if (Z.abs (fo - fn_wing_frac n width) <=? 1)%Z then clamp fo else WingOracleBad
  else if qle_b WIDTH_INT_MIN width && is_integer_q width then clamp (fn_wing_int n (Qfloor width))
  else WingValueError.
Proof.
  cbn zeta. unfold width2wing. rewrite fn_wing_frac_eq.
  destruct (qlt_b 0 width && qlt_b width 1); [reflexivity|].
  destruct (qle_b WIDTH_INT_MIN width); cbn [andb]; [|reflexivity].
  destruct (is_integer_q width) eqn:I; [|reflexivity].
  rewrite fn_wing_clamp_eq. rewrite <- fn_wing_int_eq.
  assert (E : Qfloor (qdiv (qmin2 width (inject_Z (n - 1))) 2) =
              Qfloor (qdiv (qmin2 (inject_Z (Qfloor width)) (inject_Z (n - 1))) 2)).
  { apply Qfloor_comp. rewrite !qdiv_spec.
    rewrite (qmin2_wd _ _ (inject_Z (n - 1)) (is_integer_q_inject _ I)). reflexivity. }
  rewrite E. reflexivity.
Qed.

(* ---- guess_window_size, savgol parameters ----------------------------------- *)
Theorem fn_guess_width_eq n sd pow45 : fn_guess_width sd pow45 n = guess_window_size n sd pow45.
Proof.
  unfold fn_guess_width, guess_window_size, guess_width_raw, GUESS_FACTOR, GUESS_MIN_WIDTH.
  f_equal. f_equal. apply round_half_even_wd. rewrite !qmul_spec. reflexivity.
Qed.

Theorem fn_savgol_params_eq wing ww ord :
  fn_savgol_params wing ww ord =
  (sg_window (savgol_params wing ww ord), sg_order (savgol_params wing ww ord), sg_iter (savgol_params wing ww ord)).
Proof. reflexivity. Qed.
