(* C19 -- smoothers, the exact statements:
   (A) the rolling median is the median of the mirrored window;
   (B) every Kaiser output is the same fixed linear combination of the mirrored
       window (convex for a non-negative window);
   (C) the weighted convolution / weighted Savitzky-Golay output is non-finite
       ([None]) exactly on the mask computed by [nonfinite_mask]: a window that
       covers a non-finite value, or a normaliser N that is exactly 0. *)
From CNV Require Import Base.Prelude Base.QNum Proofs.QNumLemmas Gen.DescDefaults
  Model.Smoothing Spec.Stats Proofs.DescriptivesWMedian Proofs.Smoothing Proofs.SmoothingWeighted.
From Coq Require Import Qabs Qround Psatz Setoid Morphisms.
Local Open Scope Q_scope.

(* ========================================================================== *)
(** * List indexing helpers *)

Lemma nth_firstn_lt {A} (l : list A) k i d : (i < k)%nat -> nth i (firstn k l) d = nth i l d.
Proof.
  revert k i; induction l as [|a l IH]; intros k i H.
  - now rewrite firstn_nil.
  - destruct k as [|k]; [lia|]. destruct i as [|i]; cbn [firstn nth]; [reflexivity|]. apply IH. lia.
Qed.

Lemma nth_skipn_add {A} (l : list A) k i d : nth i (skipn k l) d = nth (k + i) l d.
Proof.
  revert l; induction k as [|k IH]; intros l; [reflexivity|].
  destruct l as [|a l]; cbn [skipn Nat.add nth]; [now destruct i|apply IH].
Qed.

Lemma nth_map_lt {A B} (f : A -> B) (l : list A) i d d' : (i < length l)%nat ->
  nth i (map f l) d' = f (nth i l d).
Proof. intro H. rewrite (nth_indep _ d' (f d)) by (now rewrite map_length). apply map_nth. Qed.

Lemma nth_map_seq {A} (g : nat -> A) a n i d : (i < n)%nat -> nth i (map g (seq a n)) d = g (a + i)%nat.
Proof.
  intro H. rewrite (nth_map_lt g (seq a n) i 0%nat d) by (now rewrite seq_length).
  now rewrite seq_nth.
Qed.

Lemma firstn_skipn_seq {A} (l : list A) i k d : (i + k <= length l)%nat ->
  firstn k (skipn i l) = map (fun t => nth (i + t) l d) (seq 0 k).
Proof.
  intro H. apply (nth_ext _ _ d d).
  - rewrite firstn_length, skipn_length, map_length, seq_length. lia.
  - intros t Ht. rewrite firstn_length, skipn_length in Ht.
    assert (Hk : (t < k)%nat) by lia.
    rewrite nth_firstn_lt, nth_skipn_add, nth_map_seq by exact Hk. reflexivity.
Qed.

Lemma nth_unpad {A} (l : list A) wing i d : (i < length l - wing - wing)%nat ->
  nth i (unpad l wing) d = nth (i + wing) l d.
Proof.
  intro H. unfold unpad. rewrite nth_firstn_lt by exact H. rewrite nth_skipn_add. f_equal. lia.
Qed.

Lemma map_unpad {A B} (f : A -> B) (l : list A) wing : map f (unpad l wing) = unpad (map f l) wing.
Proof. unfold unpad. now rewrite map_length, skipn_map, firstn_map. Qed.

(* ========================================================================== *)
(** * (A) Rolling median = median of the mirrored window *)

Lemma pad_array_nth (x : list Q) wing j : (wing <= length x)%nat -> (j < length x + 2 * wing)%nat ->
  nthq j (pad_array x wing) = nthq (mirror_idx (length x) wing j) x.
Proof.
  intros Hw Hj. unfold pad_array, mirror_idx, nthq.
  assert (L1 : length (rev (firstn wing x)) = wing) by (rewrite rev_length, firstn_length; lia).
  destruct (j <? wing)%nat eqn:E1.
  - apply Nat.ltb_lt in E1. rewrite app_nth1 by (rewrite L1; exact E1).
    rewrite rev_nth by (rewrite firstn_length; lia). rewrite firstn_length.
    replace (Nat.min wing (length x)) with wing by lia.
    rewrite nth_firstn_lt by lia. f_equal. lia.
  - apply Nat.ltb_ge in E1. rewrite app_nth2 by (rewrite L1; lia). rewrite L1.
    destruct (j <? wing + length x)%nat eqn:E2.
    + apply Nat.ltb_lt in E2. rewrite app_nth1 by lia. reflexivity.
    + apply Nat.ltb_ge in E2. rewrite app_nth2 by lia.
      rewrite rev_nth by (rewrite lastn_length by exact Hw; lia). rewrite lastn_length by exact Hw.
      unfold lastn. rewrite nth_skipn_add. f_equal. lia.
Qed.

Lemma window_is_mirrored x wing i : (wing <= length x)%nat -> (i < length x)%nat ->
  firstn (2 * wing + 1) (skipn i (pad_array x wing)) = mirrored_window x wing i.
Proof.
  intros Hw Hi. unfold mirrored_window.
  rewrite (firstn_skipn_seq _ i (2 * wing + 1) 0) by (rewrite pad_array_length by exact Hw; lia).
  apply map_ext_in. intros k Hk. apply in_seq in Hk.
  apply (pad_array_nth x wing (i + k) Hw). lia.
Qed.

Theorem rolling_median_wing_is_median x wing i : (wing <= length x)%nat -> (i < length x)%nat ->
  nthq i (rolling_median_wing x wing) = median (mirrored_window x wing i).
Proof.
  intros Hw Hi. unfold rolling_median_wing, windows, nthq. rewrite map_map.
  rewrite nth_map_seq by exact Hi. cbn [Nat.add]. now rewrite window_is_mirrored.
Qed.

Theorem rolling_median_is_median x width fo y : rolling_median x width fo = inl y ->
  ((length x < 2)%nat /\ y = x) \/
  (exists wing, width2wing (Z.of_nat (length x)) width fo = WingOk (Z.of_nat wing) /\
     (1 <= wing < length x)%nat /\ length y = length x /\
     forall i, (i < length x)%nat -> nthq i y = median (mirrored_window x wing i)).
Proof.
  unfold rolling_median, ROLLING_MIN_LEN. destruct (Z.of_nat (length x) <? 2)%Z eqn:G; intro H.
  - left. apply Z.ltb_lt in G. split; [lia|]. now injection H.
  - right. apply Z.ltb_ge in G.
    destruct (width2wing (Z.of_nat (length x)) width fo) as [w| | |] eqn:E; try discriminate.
    injection H as <-. pose proof (width2wing_ok _ _ _ _ E) as Hw.
    exists (Z.to_nat w). rewrite Z2Nat.id by lia. split; [reflexivity|]. split; [lia|].
    split; [apply rolling_median_wing_length|].
    intros i Hi. apply rolling_median_wing_is_median; lia.
Qed.

(* ========================================================================== *)
(** * (B) Kaiser: a fixed linear combination of the mirrored window *)

Lemma unpad_conv_same_nth win y w i : length win = (2 * w + 1)%nat -> (2 * w <= length y)%nat ->
  (i < length y - 2 * w)%nat ->
  nthq i (unpad (conv_same win y) w) = qdot (rev win) (firstn (2 * w + 1) (skipn i y)).
Proof.
  intros Lw Ly Hi. rewrite unpad_conv_same by assumption. unfold nthq.
  now rewrite nth_map_seq by exact Hi.
Qed.

Theorem kaiser_convex x width fo window y : kaiser x width fo window = inl y -> (2 <= length x)%nat ->
  exists wing, width2wing (Z.of_nat (length x)) width fo = WingOk (Z.of_nat wing) /\
    (1 <= wing < length x)%nat /\
    length window = (2 * wing + 1)%nat /\ length y = length x /\
    (forall i, (i < length x)%nat -> nthq i y = qdot (rev (normalize window)) (mirrored_window x wing i)) /\
    (0 < qsum window -> (forall c, In c window -> 0 <= c) ->
       qsum (rev (normalize window)) == 1 /\ forall c, In c (rev (normalize window)) -> 0 <= c).
Proof.
  unfold kaiser, KAISER_MIN_LEN. intros H Hn.
  destruct (Z.of_nat (length x) <? 2)%Z eqn:G; [exfalso; apply Z.ltb_lt in G; lia|].
  destruct (width2wing (Z.of_nat (length x)) width fo) as [w| | |] eqn:E; try discriminate.
  destruct (Nat.eqb (length window) (2 * Z.to_nat w + 1)) eqn:L; [|discriminate].
  apply Nat.eqb_eq in L. injection H as <-. pose proof (width2wing_ok _ _ _ _ E) as Hw.
  exists (Z.to_nat w). rewrite Z2Nat.id by lia.
  set (wing := Z.to_nat w) in *.
  assert (Hwing : (1 <= wing < length x)%nat) by (unfold wing; lia).
  split; [reflexivity|]. split; [exact Hwing|]. split; [exact L|].
  split; [apply kaiser_unweighted_length; lia|]. split.
  - intros i Hi. rewrite kaiser_unweighted_eq. rewrite unpad_conv_same_nth.
    + rewrite window_is_mirrored by lia. reflexivity.
    + now rewrite normalize_length.
    + rewrite pad_array_length by lia. lia.
    + rewrite pad_array_length by lia. lia.
  - intros Hs Hnn. split.
    + rewrite qsum_rev. apply normalize_sum. lra.
    + intros c Hc. apply in_rev in Hc. now apply (normalize_nonneg window Hs Hnn).
Qed.

(* ========================================================================== *)
(** * (C) Weighted convolution: exactly where the output is non-finite *)

Definition is_none (o : option Q) : bool := match o with None => true | Some _ => false end.

(* one pass D/N: position j is non-finite iff its window covers a non-finite
   value or its normaliser N[j] is exactly 0 *)
Definition nonfinite_step (win : list Q) (bad : list bool) (w : list Q) : list bool :=
  let m := length win in
  let off := Nat.div m 2 in
  let bz := repeat false (m - 1 - off) ++ bad ++ repeat false off in
  map (fun p => orb (existsb (fun b : bool => b) (fst p)) (qeq_b (snd p) 0))
      (combine (windows_g m bz (length bad)) (conv_same win w)).

Fixpoint nonfinite_mask (n_iter : nat) (win : list Q) (bad : list bool) (w : list Q) : list bool :=
  match n_iter with
  | O => bad
  | S k => nonfinite_mask k win (nonfinite_step win bad w) (conv_same win w)
  end.

Lemma is_none_mul_opt w y : length y = length w -> map is_none (mul_opt w y) = map is_none y.
Proof.
  revert y; induction w as [|a w' IH]; intros [|[b|] y'] L; cbn in L; try discriminate;
    cbn [mul_opt map is_none]; try reflexivity; (f_equal; apply IH; lia).
Qed.

Lemma all_some_none (seg : list (option Q)) :
  match all_some seg with Some _ => false | None => true end
  = existsb (fun b : bool => b) (map is_none seg).
Proof.
  induction seg as [|[v|] t IH]; cbn [all_some map existsb is_none]; [reflexivity| |reflexivity].
  cbn [orb]. rewrite <- IH. destruct (all_some t); reflexivity.
Qed.

Lemma is_none_seg (f : list Q -> Q) (seg : list (option Q)) :
  is_none (match all_some seg with Some s => Some (f s) | None => None end)
  = existsb (fun b : bool => b) (map is_none seg).
Proof. rewrite <- all_some_none. destruct (all_some seg); reflexivity. Qed.

Lemma div_opt_is_none D N : map is_none (div_opt D N) =
  map (fun p => orb (is_none (fst p)) (qeq_b (snd p) 0)) (combine D N).
Proof.
  revert N; induction D as [|[x|] D' IH]; intros [|v N'];
    cbn [div_opt combine map fst snd is_none orb]; try reflexivity.
  - rewrite IH. destruct (qeq_b v 0); reflexivity.
  - now rewrite IH.
Qed.

Lemma combine_map_l {A B C} (f : A -> B) (l : list A) (l' : list C) :
  combine (map f l) l' = map (fun p => (f (fst p), snd p)) (combine l l').
Proof.
  revert l'; induction l as [|a l IH]; intros [|c l']; cbn [map combine fst snd]; try reflexivity.
  now rewrite IH.
Qed.

Lemma windows_g_map {A B} (f : A -> B) k (y : list A) count :
  windows_g k (map f y) count = map (map f) (windows_g k y count).
Proof.
  unfold windows_g. rewrite map_map. apply map_ext. intro i. now rewrite skipn_map, firstn_map.
Qed.

(* one pass *)
Lemma one_pass_nonfinite win y w : length y = length w ->
  map is_none (div_opt (conv_same_opt win (mul_opt w y)) (conv_same win w))
  = nonfinite_step win (map is_none y) w.
Proof.
  intro L. unfold nonfinite_step, conv_same_opt. cbv zeta.
  rewrite mul_opt_length, L, Nat.min_id, map_length, L.
  set (m := length win). set (off := Nat.div m 2).
  rewrite <- (is_none_mul_opt w y L).
  assert (R : forall k, repeat false k = map is_none (repeat (Some 0) k))
    by (induction k as [|k IHk]; cbn [repeat map is_none]; [reflexivity|now rewrite IHk]).
  rewrite (R (m - 1 - off)%nat), (R off).
  rewrite <- !map_app, windows_g_map.
  rewrite div_opt_is_none, !combine_map_l, !map_map.
  apply map_ext. intros [seg v]. cbn [fst snd]. f_equal. apply is_none_seg.
Qed.

Theorem convolve_weighted_nonfinite n_iter win y w : length y = length w ->
  map is_none (fst (convolve_weighted_iter n_iter win y w)) = nonfinite_mask n_iter win (map is_none y) w.
Proof.
  revert y w; induction n_iter as [|k IH]; intros y w L;
    cbn [convolve_weighted_iter nonfinite_mask]; cbv zeta; [reflexivity|].
  rewrite IH.
  - now rewrite one_pass_nonfinite.
  - rewrite div_opt_length, conv_same_opt_length, mul_opt_length, conv_same_length. lia.
Qed.

Lemma is_none_map_Some (l : list Q) : map is_none (map Some l) = repeat false (length l).
Proof. induction l as [|a l IH]; cbn [map length repeat is_none]; [reflexivity|now rewrite IH]. Qed.

Theorem savgol_weighted_nonfinite x w wing n_iter coeffs : length x = length w -> (wing <= length x)%nat ->
  map is_none (savgol_weighted x w wing n_iter coeffs) =
  unpad (nonfinite_mask n_iter (normalize coeffs) (repeat false (length x + 2 * wing)) (pad_weights w wing)) wing.
Proof.
  intros L Hw. unfold savgol_weighted, convolve_weighted. rewrite map_unpad.
  rewrite convolve_weighted_nonfinite
    by (rewrite map_length, pad_array_length, pad_weights_length by lia; lia).
  rewrite is_none_map_Some, pad_array_length by lia. reflexivity.
Qed.

(* ---- one pass from a finite signal: finite iff N is not 0 ------------------ *)
Lemma existsb_id_all_false (s : list bool) : (forall b, In b s -> b = false) ->
  existsb (fun b : bool => b) s = false.
Proof.
  induction s as [|b t IH]; intro H; [reflexivity|]. cbn [existsb].
  rewrite IH by (intros b' Hb'; apply H; now right).
  rewrite (H b (or_introl eq_refl)). reflexivity.
Qed.

Lemma step_clean_aux (A : list (list bool)) (B : list Q) :
  (forall s, In s A -> existsb (fun b : bool => b) s = false) -> length A = length B ->
  map (fun p => orb (existsb (fun b : bool => b) (fst p)) (qeq_b (snd p) 0)) (combine A B)
  = map (fun v => qeq_b v 0) B.
Proof.
  revert B; induction A as [|s A IH]; intros [|v B] H L; cbn in L; try discriminate; [reflexivity|].
  cbn [combine map fst snd]. rewrite (H s (or_introl eq_refl)). cbn [orb]. f_equal.
  apply IH; [intros s' Hs'; apply H; now right|lia].
Qed.

Lemma nonfinite_step_clean win k w : k = length w ->
  nonfinite_step win (repeat false k) w = map (fun v => qeq_b v 0) (conv_same win w).
Proof.
  intro K. unfold nonfinite_step. cbv zeta. rewrite repeat_length.
  apply step_clean_aux.
  - intros s Hs. unfold windows_g in Hs. apply in_map_iff in Hs as (i & <- & _).
    apply existsb_id_all_false. intros b Hb. apply In_firstn in Hb. apply In_skipn in Hb.
    apply in_app_or in Hb as [Hb|Hb]; [|apply in_app_or in Hb as [Hb|Hb]]; now apply repeat_spec in Hb.
  - unfold windows_g. rewrite map_length, seq_length, conv_same_length. exact K.
Qed.

Theorem savgol_weighted_finite_iff x w wing coeffs i :
  length x = length w -> (wing <= length x)%nat -> (i < length x)%nat ->
  (exists v, nth i (savgol_weighted x w wing 1 coeffs) None = Some v) <->
  ~ nthq (i + wing) (conv_same (normalize coeffs) (pad_weights w wing)) == 0.
Proof.
  intros L Hw Hi.
  pose proof (savgol_weighted_nonfinite x w wing 1 coeffs L Hw) as E.
  cbn [nonfinite_mask] in E.
  rewrite nonfinite_step_clean in E by (rewrite pad_weights_length by lia; lia).
  set (sw := savgol_weighted x w wing 1 coeffs) in *.
  set (cv := conv_same (normalize coeffs) (pad_weights w wing)) in *.
  assert (Lcv : length cv = (length x + 2 * wing)%nat)
    by (unfold cv; rewrite conv_same_length, pad_weights_length by lia; lia).
  assert (E' : is_none (nth i sw None) = qeq_b (nthq (i + wing) cv) 0).
  { transitivity (nth i (map is_none sw) true); [symmetry; exact (map_nth is_none sw None i)|].
    rewrite E. rewrite nth_unpad by (rewrite map_length, Lcv; lia).
    unfold nthq. apply (nth_map_lt (fun v : Q => qeq_b v 0) cv (i + wing) 0 true). lia. }
  split.
  - intros (v & Hv). rewrite Hv in E'. cbn [is_none] in E'. symmetry in E'.
    now apply qeq_b_false in E'.
  - intro Hne. apply qeq_b_false in Hne. rewrite Hne in E'.
    destruct (nth i sw None) as [v|]; [now exists v|discriminate].
Qed.

(* ---- the open finding's region ------------------------------------------------ *)
Lemma qdot_zero_r a seg : (forall v, In v seg -> v == 0) -> qdot a seg == 0.
Proof.
  revert seg; induction a as [|x a IH]; intros [|v seg] H; try reflexivity.
  rewrite qdot_cons, IH by (intros v' Hv'; apply H; now right).
  rewrite (H v (or_introl eq_refl)). ring.
Qed.

(* a window all of whose (padded, rolled-off) weights are 0 has normaliser 0,
   whatever the coefficients: by the theorems above the value is non-finite *)
Theorem zero_window_nonfinite win (w : list Q) j : (j < length w)%nat ->
  (forall v, In v (firstn (length win)
                     (skipn j (repeat 0 (length win - 1 - Nat.div (length win) 2) ++ w
                               ++ repeat 0 (Nat.div (length win) 2)))) -> v == 0) ->
  nthq j (conv_same win w) == 0.
Proof.
  intros Hj H. unfold conv_same, windows, nthq. cbv zeta.
  rewrite map_map, nth_map_seq by exact Hj. cbn [Nat.add]. now apply qdot_zero_r.
Qed.

(* ---- the top-level function ------------------------------------------------------ *)
Theorem savgol_w_nonfinite x w tw fo ww ord it coeffs y :
  savgol_w x w tw fo ww ord it coeffs = inl y -> (2 <= length x)%nat ->
  exists p, savgol_plan (Z.of_nat (length x)) tw fo ww ord it = inl p /\
    map is_none y =
    unpad (nonfinite_mask (Z.to_nat (sg_iter p)) (normalize coeffs)
             (repeat false (length x + 2 * Z.to_nat (sg_wing p)))
             (pad_weights w (Z.to_nat (sg_wing p)))) (Z.to_nat (sg_wing p)).
Proof.
  unfold savgol_w, SAVGOL_MIN_LEN. intros H Hn.
  destruct (Z.of_nat (length x) <? 2)%Z eqn:G; [exfalso; apply Z.ltb_lt in G; lia|].
  destruct (savgol_plan (Z.of_nat (length x)) tw fo ww ord it) as [p|r] eqn:P; [|discriminate].
  destruct (Z.eqb _ _ && Nat.eqb _ _) eqn:C; [|discriminate].
  apply andb_true_iff in C as [_ C2]. apply Nat.eqb_eq in C2. injection H as <-.
  exists p. split; [reflexivity|].
  apply savgol_weighted_nonfinite; [exact C2|].
  unfold savgol_plan in P. destruct (width2wing _ _ fo) as [wg| | |] eqn:E; try discriminate.
  injection P as <-. cbn [sg_wing savgol_params]. apply width2wing_ok in E. lia.
Qed.
