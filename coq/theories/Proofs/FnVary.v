(* Source tie for C18: the definitions that tools/py2v_fn.py regenerates on every run from the bodies of
   cnvlib/vary.py (_tumor_boost, _mirrored_baf, zygosity_from_freq, heterozygous), cnvlib/cmdutil.py
   (load_het_snps' somatic mask), skgenome/tabio/vcfio.py (alt_freq = alt_count / depth + fillna, the
   zygosity chain of _extract_genotype, the AD branch of _get_alt_count) and cnvlib/call.py (rescale_baf)
   -- Gen/FnVary.v, Gen/FnHet.v, Gen/FnVcfRead.v, Gen/FnCallBaf.v -- are the hand-written model functions
   of Model/Vcf.v and Model/VBaf.v.  A change to one of these Python bodies changes the generated
   definition and these lemmas are re-checked against it. *)
From CNV Require Import Base.Prelude Base.Str Model.Vcf Model.VBaf Proofs.VcfLib.
From CNV Require Gen.FnVary Gen.FnHet Gen.FnVcfRead Gen.FnCallBaf Gen.FnFormatsVcfio.
From Coq Require Import Qabs Lqa.
Local Open Scope Q_scope.

(* ---- _tumor_boost ------------------------------------------------------------------------------ *)

(* wherever numpy does not divide by zero in the branch it takes, the generated definition is the model;
   (t < n with n == 0 needs t < 0: there both sides are Coq's totalised x / 0 = 0, numpy gives -inf) *)
Lemma fn_tumor_boost_eq t n :
  (t < n \/ ~ n == 1) -> exists q, boost_q t n = Fin q /\ q == FnVary.fn_tumor_boost t n.
Proof.
  intro H. unfold boost_q, FnVary.fn_tumor_boost. cbv zeta.
  change (negb (Qle_bool n t)) with (Qlt_bool t n).
  destruct (Qlt_bool t n) eqn:E; cbn [negb].
  - eexists. split; [reflexivity|].
    rewrite qdiv_eq, qmul_eq. reflexivity.
  - assert (N1 : ~ n == 1).
    { destruct H as [H|H]; [|exact H]. apply Qlt_bool_false in E. lra. }
    assert (D : Qeq_bool (qsub VcfDefaults.boost_one n) 0 = false).
    { destruct (Qeq_bool (qsub VcfDefaults.boost_one n) 0) eqn:D; [|reflexivity].
      apply Qeq_bool_eq in D. rewrite qsub_eq in D. exfalso. apply N1.
      change VcfDefaults.boost_one with 1 in D. lra. }
    rewrite D. eexists. split; [reflexivity|].
    rewrite qsub_eq, qdiv_eq, qmul_eq, !qsub_eq. reflexivity.
Qed.

(* the division by zero of the `otherwise` branch (n == 1, hence t >= 1): numpy returns NaN for t == 1
   (0/0) and +inf for t > 1 (1 - (negative / +0)), which is what the model says; the generated definition
   carries Coq's totalised division (x / 0 = 0) and evaluates to 1 there *)
Lemma fn_tumor_boost_singular t n :
  n == 1 -> ~ t < n ->
  boost_q t n = (if Qeq_bool (qsub 1 t) 0 then XNaN else PInf) /\ FnVary.fn_tumor_boost t n == 1.
Proof.
  intros N1 L. unfold boost_q, FnVary.fn_tumor_boost. cbv zeta.
  change (negb (Qle_bool n t)) with (Qlt_bool t n).
  assert (E : Qlt_bool t n = false).
  { destruct (Qlt_bool t n) eqn:E; [|reflexivity]. apply Qlt_bool_iff in E. contradiction. }
  rewrite E. cbn [negb].
  assert (D : Qeq_bool (qsub VcfDefaults.boost_one n) 0 = true).
  { apply Qeq_bool_iff. rewrite qsub_eq. change VcfDefaults.boost_one with 1. lra. }
  rewrite D. split; [reflexivity|].
  assert (Z0 : inject_Z 1 - n == 0) by (change (inject_Z 1) with 1; lra).
  unfold Qdiv. rewrite Z0. change (/ 0) with 0. change (inject_Z 1) with 1. ring.
Qed.

(* ---- _mirrored_baf ----------------------------------------------------------------------------- *)

Lemma qabs_is_Qabs a : qabs a == Qabs a.
Proof.
  unfold qabs. destruct (Qle_bool 0 a) eqn:E.
  - apply Qle_bool_iff in E. rewrite Qabs_pos; [reflexivity|exact E].
  - apply Qle_bool_false in E. rewrite Qred_correct. rewrite Qabs_neg; [reflexivity|lra].
Qed.

(* per element with a given direction: a number is mirrored as the model mirrors it (the `median` input is
   not read), a missing value stays missing *)
Lemma fn_mirrored_baf_eq v above m :
  match FnVary.fn_mirrored_baf (Some v) above m with
  | Some q => q == mirror above v
  | None => False
  end.
Proof.
  unfold FnVary.fn_mirrored_baf, mirror. cbv zeta.
  change VcfDefaults.mirror_center with (1 # 2).
  destruct above.
  - rewrite qadd_eq, qabs_is_Qabs, qsub_eq. reflexivity.
  - rewrite qsub_eq, qabs_is_Qabs, qsub_eq. reflexivity.
Qed.

Lemma fn_mirrored_baf_nan above m : FnVary.fn_mirrored_baf None above m = None.
Proof. destruct above; reflexivity. Qed.

Lemma fn_mirrored_baf_x v above m :
  match mirror_x above (Fin v), FnVary.fn_mirrored_baf (Some v) above m with
  | Fin a, Some b => b == a
  | _, _ => False
  end.
Proof.
  cbn [mirror_x]. pose proof (fn_mirrored_baf_eq v above m) as H.
  destruct (FnVary.fn_mirrored_baf (Some v) above m); exact H.
Qed.

(* above_half is None: the direction is `vals.median() > 0.5` *)
Lemma fn_mirror_direction_eq vals :
  majority_above vals = match median vals with Some m => FnVary.fn_mirror_direction m | None => false end.
Proof. unfold majority_above. destruct (median vals); reflexivity. Qed.

(* ---- zygosity_from_freq, heterozygous, the somatic mask ------------------------------------------ *)

Lemma fn_zygosity_from_freq_eq f het hom :
  FnVary.fn_zygosity_from_freq f het hom = zyg_from_freq het hom (Fin f).
Proof. reflexivity. Qed.

Lemma fn_het_mask_eq z : FnVary.fn_het_mask z = is_het_z z.
Proof. reflexivity. Qed.

Lemma fn_somatic_mask_eq r :
  inferred_somatic r =
  match v_n r with Some n => FnHet.fn_somatic_mask (g_zyg (v_t r)) (g_zyg n) | None => false end.
Proof. unfold inferred_somatic. destruct (v_n r); reflexivity. Qed.

(* ---- vcfio: alt_freq = alt_count / depth, then fillna(0.0) ---------------------------------------- *)

Definition ocell (o : option Z) : option Q := option_map inject_Z o.

(* a missing count or depth, and 0/0, give the fill value on both sides; a non-zero depth the quotient;
   the one place where the generated definition (Coq's x / 0 = 0) is not what numpy computes is a
   non-zero count over depth 0: numpy gives +inf, which fillna leaves, and that is the model's PInf *)
Lemma fn_alt_freq_eq c d :
  match freq_of c d with
  | Fin q => q == FnVcfRead.fn_alt_freq (ocell c) (ocell d)
  | PInf => exists c', c = Some c' /\ c' <> 0%Z /\ d = Some 0%Z
  | XNaN => False
  end.
Proof.
  unfold freq_of, FnVcfRead.fn_alt_freq, ocell. cbv zeta.
  destruct c as [c|], d as [d|]; cbn [option_map]; try reflexivity.
  destruct (d =? 0)%Z eqn:D.
  - apply Z.eqb_eq in D. subst d. destruct (c =? 0)%Z eqn:C.
    + apply Z.eqb_eq in C. subst c. reflexivity.
    + apply Z.eqb_neq in C. exists c. repeat split; assumption.
  - rewrite qdiv_eq. reflexivity.
Qed.

Lemma fn_n_alt_freq_same c d : FnVcfRead.fn_n_alt_freq c d = FnVcfRead.fn_alt_freq c d.
Proof. reflexivity. Qed.

(* ---- vcfio._extract_genotype: the zygosity chain ---------------------------------------------------- *)

(* set(sample["GT"]) = the distinct entries; gts.pop() of a one-element set is that element *)
Lemma fn_zygosity_eq gt a rest :
  dedup gt = Some a :: rest ->
  zygosity_of gt = FnVcfRead.fn_zygosity (Z.of_nat (length (dedup gt))) a.
Proof.
  intros D. unfold zygosity_of, FnVcfRead.fn_zygosity. cbv zeta. rewrite D.
  change VcfDefaults.gt_distinct_gt with 1%Z.
  destruct (1 <? Z.of_nat (length (Some a :: rest)))%Z; [reflexivity|].
  change VcfDefaults.gt_ref_allele with 0%Z.
  destruct (a =? 0)%Z; reflexivity.
Qed.

(* a missing allele is not == 0: alone it reads as homozygous-alt (1.0), next to a called one as 0.5 *)
Lemma zygosity_missing_first gt rest :
  dedup gt = None :: rest ->
  zygosity_of gt = if (1 <? Z.of_nat (length (dedup gt)))%Z then 1 # 2 else 1.
Proof.
  intro D. unfold zygosity_of. rewrite D. change VcfDefaults.gt_distinct_gt with 1%Z.
  destruct (1 <? Z.of_nat (length (None :: rest)))%Z; reflexivity.
Qed.

(* ---- vcfio._get_alt_count: AD given as a tuple -------------------------------------------------------- *)

Lemma fn_ad_alt_eq r c a :
  r_has_ad r = true -> ad_is_missing (s_ad c) = false ->
  ((1 < Z.of_nat (length (s_ad c)))%Z -> nth 1 (s_ad c) None = Some a) ->
  exists z, alt_count_of r c = Some z /\
            inject_Z z == FnVcfRead.fn_ad_alt (Z.of_nat (length (s_ad c))) (inject_Z a).
Proof.
  intros HA HM HN. unfold alt_count_of, FnVcfRead.fn_ad_alt. cbv zeta. rewrite HA, HM. cbn [andb negb].
  change VcfDefaults.ad_alt_index with 1%Z.
  destruct (1 <? Z.of_nat (length (s_ad c)))%Z eqn:E.
  - apply Z.ltb_lt in E. change (Z.to_nat 1) with 1%nat. rewrite (HN E). exists a. split; reflexivity.
  - exists 0%Z. split; reflexivity.
Qed.

(* ---- vcfio._get_end (translated under C08's spec, Gen/FnFormatsVcfio.v) ----------------------------------- *)

(* the reader's row end is _get_end with `"END" in info` False -- pysam keeps the reserved END key out of
   record.info, which the correspondence check exercises with symbolic alleles carrying INFO END -- i.e.
   start + len(alt), whatever END says *)
Lemma fn_get_end_model start alt info_end e :
  get_end start alt info_end = Gen.FnFormatsVcfio.fn_get_end start false e (Z.of_nat (String.length alt)).
Proof. reflexivity. Qed.

(* ---- call.rescale_baf with its default normal_baf ------------------------------------------------------ *)

Lemma fn_rescale_eq p o :
  rescale_baf p o == FnCallBaf.fn_rescale_baf p o VcfDefaults.normal_baf.
Proof.
  unfold rescale_baf, FnCallBaf.fn_rescale_baf. cbv zeta.
  rewrite qdiv_eq, qsub_eq, qmul_eq, qsub_eq. change (inject_Z 1) with 1. reflexivity.
Qed.
