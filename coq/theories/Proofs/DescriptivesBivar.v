(* C19 -- biweight midvariance (squared): the model is Tukey's formula about the
   biweight location (the scaled MAD when no kept point deviates at all), it is
   non-negative, zero on constant data, unchanged by adding a constant and by
   permuting the data.  REUSABLE: [bivar_sq_core_spec], [bivar_sq_core_shift],
   [bivar_sq_core_nonneg], [bivar_sq_core_const]. *)
From CNV Require Import Base.Prelude Base.QNum Proofs.QNumLemmas Gen.DescDefaults
  Model.Descriptives Spec.Stats Proofs.DescriptivesWMedian Proofs.DescriptivesWMedianTop
  Proofs.DescriptivesScale Proofs.DescriptivesBiweight.
From Coq Require Import Qabs Qround Psatz Setoid Morphisms.
Local Open Scope Q_scope.

Lemma existsb_map_comm {A B} (f : B -> bool) (g : A -> B) l : existsb f (map g l) = existsb (fun x => f (g x)) l.
Proof. induction l as [|x t IH]; cbn; [reflexivity|]. now rewrite IH. Qed.
Lemma existsb_ext_in {A} (f g : A -> bool) l : (forall x, In x l -> f x = g x) -> existsb f l = existsb g l.
Proof.
  induction l as [|x t IH]; intro H; cbn; [reflexivity|].
  rewrite (H x) by now left. rewrite IH by (intros; apply H; now right). reflexivity.
Qed.

(* ---- the formula as a function of scale, centre and kept points ------------------ *)
Definition mv_core (s M : Q) (kept : list Q) : Q :=
  nQ kept * sumQ (map (fun x => (x - M) * (x - M) * pow4 (1 - bw_u s M x * bw_u s M x)) kept) /
  (sumQ (map (fun x => (1 - bw_u s M x * bw_u s M x) * (1 - 5 * (bw_u s M x * bw_u s M x))) kept) *
   sumQ (map (fun x => (1 - bw_u s M x * bw_u s M x) * (1 - 5 * (bw_u s M x * bw_u s M x))) kept)).

Lemma midvarianceQ_core c eps a M :
  midvarianceQ c eps a M = mv_core (bw_scale c eps M a) M (bw_kept (bw_scale c eps M a) M a).
Proof. reflexivity. Qed.

Definition any_dev (s M : Q) (kept : list Q) : bool := existsb (fun x => negb (Qeq_bool (bw_u s M x) 0)) kept.

Lemma mv_core_wd s s' M M' k k' : s == s' -> M == M' -> eqQ k k' -> mv_core s M k == mv_core s' M' k'.
Proof.
  intros Es Em Ek. unfold mv_core, nQ. rewrite (eqQ_length _ _ Ek).
  assert (E1 : sumQ (map (fun x => (x - M) * (x - M) * pow4 (1 - bw_u s M x * bw_u s M x)) k) ==
               sumQ (map (fun x => (x - M') * (x - M') * pow4 (1 - bw_u s' M' x * bw_u s' M' x)) k')).
  { apply sumQ_eqQ, eqQ_map; [|exact Ek]. intros x y E. unfold pow4.
    rewrite (bw_u_wd _ _ _ _ _ _ Es Em E), Em, E. reflexivity. }
  assert (E2 : sumQ (map (fun x => (1 - bw_u s M x * bw_u s M x) * (1 - 5 * (bw_u s M x * bw_u s M x))) k) ==
               sumQ (map (fun x => (1 - bw_u s' M' x * bw_u s' M' x) * (1 - 5 * (bw_u s' M' x * bw_u s' M' x))) k')).
  { apply sumQ_eqQ, eqQ_map; [|exact Ek]. intros x y E. rewrite (bw_u_wd _ _ _ _ _ _ Es Em E). reflexivity. }
  unfold Qdiv. apply Qmult_comp; [apply Qmult_comp; [reflexivity|exact E1]|].
  apply Qinv_comp. apply Qmult_comp; exact E2.
Qed.

Lemma any_dev_wd s s' M M' k k' : s == s' -> M == M' -> eqQ k k' -> any_dev s M k = any_dev s' M' k'.
Proof.
  intros Es Em. unfold any_dev. induction 1 as [|x y l l' E _ IH]; cbn [existsb]; [reflexivity|].
  rewrite IH. f_equal. f_equal. apply Qeq_bool_wd; [now apply bw_u_wd|reflexivity].
Qed.

Lemma mv_core_nonneg s M kept : 0 <= mv_core s M kept.
Proof.
  unfold mv_core, Qdiv. apply Qmult_le_0_compat.
  - apply Qmult_le_0_compat; [apply qofnat_nonneg|]. apply sumQ_nonneg. intros y Hy.
    apply in_map_iff in Hy as (x & <- & _). unfold pow4.
    set (d := x - M). set (t := 1 - bw_u s M x * bw_u s M x). nra.
  - apply Qinv_le_0_compat.
    set (D := sumQ _). nra.
Qed.

(* ---- the published definition, in terms of the cores ------------------------------- *)
Lemma bivar_spec_cores c eps k a M :
  biweight_midvariance_sqQ c eps k a M =
  let s := bw_scale c eps M a in
  if any_dev s M (bw_kept s M a) then mv_core s M (bw_kept s M a)
  else (median (map (fun x => Qabs (x - M)) a) * k) * (median (map (fun x => Qabs (x - M)) a) * k).
Proof. reflexivity. Qed.

Lemma biweight_midvariance_sqQ_wd c eps k a M M' : M == M' ->
  biweight_midvariance_sqQ c eps k a M == biweight_midvariance_sqQ c eps k a M'.
Proof.
  intro E. rewrite !bivar_spec_cores. cbv zeta. pose proof (bw_scale_wd c eps M M' a E) as Es.
  rewrite (bw_kept_ext _ _ _ _ a Es E).
  rewrite (any_dev_wd _ _ _ _ _ _ Es E (eqQ_refl _)).
  destruct (any_dev _ M' _).
  - apply mv_core_wd; auto. reflexivity.
  - assert (Em : median (map (fun x => Qabs (x - M)) a) == median (map (fun x => Qabs (x - M')) a)).
    { apply median_map_ext. intros x _. now rewrite E. }
    now rewrite Em.
Qed.

Lemma biweight_midvariance_sqQ_nonneg c eps k a M : 0 <= biweight_midvariance_sqQ c eps k a M.
Proof.
  rewrite bivar_spec_cores. cbv zeta. destruct (any_dev _ M _); [apply mv_core_nonneg|].
  set (t := median _ * k). nra.
Qed.

(* adding a constant *)
Lemma mv_core_shift s M kept t : mv_core s (M + t) (map (fun x => x + t) kept) == mv_core s M kept.
Proof.
  unfold mv_core, nQ. rewrite map_length, !map_map.
  assert (E1 : sumQ (map (fun x => (x + t - (M + t)) * (x + t - (M + t)) * pow4 (1 - bw_u s (M + t) (x + t) * bw_u s (M + t) (x + t))) kept) ==
               sumQ (map (fun x => (x - M) * (x - M) * pow4 (1 - bw_u s M x * bw_u s M x)) kept)).
  { apply sumQ_eqQ, eqQ_map_ext. intros x _. unfold pow4. rewrite bw_u_shift. ring. }
  assert (E2 : sumQ (map (fun x => (1 - bw_u s (M + t) (x + t) * bw_u s (M + t) (x + t)) * (1 - 5 * (bw_u s (M + t) (x + t) * bw_u s (M + t) (x + t)))) kept) ==
               sumQ (map (fun x => (1 - bw_u s M x * bw_u s M x) * (1 - 5 * (bw_u s M x * bw_u s M x))) kept)).
  { apply sumQ_eqQ, eqQ_map_ext. intros x _. rewrite bw_u_shift. reflexivity. }
  unfold Qdiv. apply Qmult_comp; [apply Qmult_comp; [reflexivity|exact E1]|].
  apply Qinv_comp. apply Qmult_comp; exact E2.
Qed.

Lemma any_dev_shift s M kept t : any_dev s (M + t) (map (fun x => x + t) kept) = any_dev s M kept.
Proof.
  unfold any_dev. induction kept as [|x l IH]; cbn [map existsb]; [reflexivity|].
  rewrite IH. f_equal. f_equal. apply Qeq_bool_wd; [apply bw_u_shift|reflexivity].
Qed.

Theorem biweight_midvariance_sqQ_shift c eps k a M t :
  biweight_midvariance_sqQ c eps k (map (fun x => x + t) a) (M + t) == biweight_midvariance_sqQ c eps k a M.
Proof.
  rewrite !bivar_spec_cores. cbv zeta. pose proof (bw_scale_shift c eps M a t) as Es.
  rewrite (bw_kept_ext _ _ (M + t) (M + t) _ Es (Qeq_refl _)), bw_kept_shift.
  rewrite (any_dev_wd _ _ (M + t) (M + t) _ _ Es (Qeq_refl _) (eqQ_refl _)), any_dev_shift.
  destruct (any_dev _ M _).
  - rewrite (mv_core_wd _ _ (M + t) (M + t) _ _ Es (Qeq_refl _) (eqQ_refl _)). apply mv_core_shift.
  - assert (Em : median (map (fun x => Qabs (x - (M + t))) (map (fun x => x + t) a)) == median (map (fun x => Qabs (x - M)) a)).
    { rewrite map_map. apply median_map_ext. intros x _. apply Qabs_wd. ring. }
    now rewrite Em.
Qed.

(* constant data *)
Theorem biweight_midvariance_sqQ_const c eps k a M v : 0 < eps -> a <> [] ->
  (forall x, In x a -> x == v) -> M == v -> biweight_midvariance_sqQ c eps k a M == 0.
Proof.
  intros He N H Em. rewrite bivar_spec_cores. cbv zeta.
  assert (Hany : any_dev (bw_scale c eps M a) M (bw_kept (bw_scale c eps M a) M a) = false).
  { unfold any_dev. destruct (existsb _ _) eqn:E; [|reflexivity].
    apply existsb_exists in E as (x & Hx & Hb). unfold bw_kept in Hx. apply filter_In in Hx as [Hx _].
    apply negb_true_iff, Qeq_bool_neq in Hb. exfalso. apply Hb. unfold bw_u.
    assert (E0 : x - M == 0) by (rewrite (H x Hx), Em; ring).
    unfold Qdiv. rewrite E0. ring. }
  rewrite Hany.
  assert (E0 : median (map (fun x => Qabs (x - M)) a) == 0).
  { apply median_const; [destruct a; [congruence|discriminate]|].
    intros y Hy. apply in_map_iff in Hy as (x & <- & Hx). rewrite (H x Hx), Em.
    setoid_replace (v - v) with 0 by ring. reflexivity. }
  rewrite E0. ring.
Qed.

(* ---- model = published definition ------------------------------------------------------ *)
Lemma qpow4 x : qpow x 4 == pow4 x.
Proof. unfold pow4. cbn [qpow]. rewrite !qmul_spec. ring. Qed.

Lemma masked_pairs bound M sc a :
  filter (fun p : Q * Q => qlt_b (qabs (snd p)) bound)
         (combine (sub_all M a) (map (fun di => qdiv di sc) (sub_all M a))) =
  map (fun x => (qsub x M, qdiv (qsub x M) sc))
      (filter (fun x => qlt_b (qabs (qdiv (qsub x M) sc)) bound) a).
Proof. unfold sub_all. rewrite map_map, combine_map, filter_map_comm. reflexivity. Qed.

Lemma bivar_parts_spec c eps a M :
  let p := bivar_parts_of c eps a M in
  let s := bw_scale c eps M a in
  bv_any p = any_dev s M (bw_kept s M a) /\
  bv_formula p == mv_core s M (bw_kept s M a) /\
  bv_fallback p == (median (map (fun x => Qabs (x - M)) a) * BIVAR_MAD_SCALE) *
                   (median (map (fun x => Qabs (x - M)) a) * BIVAR_MAD_SCALE).
Proof.
  cbv zeta. unfold bivar_parts_of. cbv zeta. cbn [bv_any bv_formula bv_fallback].
  pose proof (biloc_scale_spec c eps a M) as Es.
  set (sc := qmax2 (qmul c (median (abs_all (sub_all M a)))) eps) in *.
  set (s := bw_scale c eps M a) in *.
  rewrite (masked_pairs BIVAR_MASK_BOUND M sc a). cbn [snd fst].
  assert (Ek : filter (fun x => qlt_b (qabs (qdiv (qsub x M) sc)) BIVAR_MASK_BOUND) a = bw_kept s M a).
  { unfold bw_kept. apply filter_ext. intro x. apply qlt_b_wd; [|reflexivity].
    unfold qabs, bw_u. apply Qabs_wd. now rewrite qdiv_spec, qsub_spec, Es. }
  rewrite Ek. set (kept := bw_kept s M a).
  assert (Eu : forall x, qdiv (qsub x M) sc == bw_u s M x).
  { intro x. unfold bw_u. now rewrite qdiv_spec, qsub_spec, Es. }
  split; [|split].
  - unfold any_dev. rewrite existsb_map_comm. apply existsb_ext_in. intros x _. cbn [snd].
    f_equal. unfold qeq_b. apply Qeq_bool_wd; [apply Eu|reflexivity].
  - unfold mv_core. rewrite qdiv_spec, qsq_spec, !qmul_spec, map_length. rewrite !map_map. cbn [fst snd].
    unfold Qdiv. apply Qmult_comp; [apply Qmult_comp; [reflexivity|]|apply Qinv_comp; apply Qmult_comp].
    + rewrite qsum_sumQ. apply sumQ_eqQ, eqQ_map_ext. intros x _.
      assert (Hd : qsub x M == x - M) by apply qsub_spec. pose proof (Eu x) as Hu.
      set (d := qsub x M) in *. set (u := qdiv d sc) in *. set (U := bw_u s M x) in *.
      change (Z.to_nat BIVAR_NUM_POW) with 4%nat.
      rewrite qmul_spec, qsq_spec, qpow4. unfold pow4. rewrite qsub_spec, qsq_spec, Hd, Hu. ring.
    + rewrite qsum_sumQ. apply sumQ_eqQ, eqQ_map_ext. intros x _.
      pose proof (Eu x) as Hu. set (u := qdiv (qsub x M) sc) in *. set (U := bw_u s M x) in *.
      rewrite qmul_spec, (qsub_spec 1 (qsq u)), (qsub_spec 1 (qmul BIVAR_DEN_COEF (qsq u))), qmul_spec, qsq_spec, Hu.
      unfold BIVAR_DEN_COEF. ring.
    + rewrite qsum_sumQ. apply sumQ_eqQ, eqQ_map_ext. intros x _.
      pose proof (Eu x) as Hu. set (u := qdiv (qsub x M) sc) in *. set (U := bw_u s M x) in *.
      rewrite qmul_spec, (qsub_spec 1 (qsq u)), (qsub_spec 1 (qmul BIVAR_DEN_COEF (qsq u))), qmul_spec, qsq_spec, Hu.
      unfold BIVAR_DEN_COEF. ring.
  - rewrite qsq_spec, qmul_spec. rewrite (median_eqQ _ _ (devs_spec M a)). reflexivity.
Qed.

Theorem bivar_sq_core_spec a initial :
  bivar_sq_core a initial ==
  biweight_midvariance_sqQ BIVAR_C BIVAR_EPS BIVAR_MAD_SCALE a (bivar_initial a initial).
Proof.
  unfold bivar_sq_core. rewrite bivar_spec_cores. cbv zeta.
  destruct (bivar_parts_spec BIVAR_C BIVAR_EPS a (bivar_initial a initial)) as (E1 & E2 & E3).
  rewrite E1. destruct (any_dev _ _ _); assumption.
Qed.

(* ---- top level: about the package's own centre ------------------------------------------ *)
Theorem bivar_sq_core_nonneg a initial : 0 <= bivar_sq_core a initial.
Proof. rewrite bivar_sq_core_spec. apply biweight_midvariance_sqQ_nonneg. Qed.

Theorem bivar_sq_core_const a v : a <> [] -> (forall x, In x a -> x == v) -> bivar_sq_core a None == 0.
Proof.
  intros N H. rewrite bivar_sq_core_spec. apply (biweight_midvariance_sqQ_const _ _ _ a _ v); auto.
  - reflexivity.
  - cbn [bivar_initial]. now apply biweight_location_core_const.
Qed.

Theorem bivar_sq_core_shift a t : a <> [] ->
  bivar_sq_core (map (fun x => x + t) a) None == bivar_sq_core a None.
Proof.
  intro N. rewrite !bivar_sq_core_spec. cbn [bivar_initial].
  rewrite (biweight_midvariance_sqQ_wd _ _ _ _ _ _ (biweight_location_core_shift a t N)).
  apply biweight_midvariance_sqQ_shift.
Qed.
