(* C12, target side: do_target with and without --split, label shortening;
   and the witness refuting the unguarded lower size bound of antitargets. *)
From CNV Require Import Base.Prelude Base.Str Model.IvRow Model.IvCombine Model.Intervals
  Model.Target Model.Antitarget Spec.Cover Spec.Bins.
From CNV Require Import Proofs.IvCover Proofs.IvMerge Proofs.IvSubdivide Proofs.TargetLib Proofs.TargetSplit.
From CNV Require Gen.IvDefaults Gen.BinsDefaults.

(* ---- without --split ----------------------------------------------------------- *)

Lemma target_nosplit avg cut (baits : list grow) :
  do_target false avg cut baits = filter (fun r => negb (lo r =? hi r)) baits /\
  (forall r, In r (do_target false avg cut baits) <-> In r baits /\ lo r <> hi r).
Proof.
  split; [reflexivity|]. intros r. unfold do_target, drop_zero_width. rewrite filter_In, Bool.negb_true_iff, Z.eqb_neq.
  reflexivity.
Qed.

(* ---- with --split ---------------------------------------------------------------- *)

Lemma drop_zero_width_valid (baits : list grow) :
  Forall (fun r => lo r <= hi r) baits -> valid (drop_zero_width baits).
Proof.
  intros H. unfold valid, drop_zero_width. rewrite Forall_forall in *. intros r Hr.
  apply filter_In in Hr as [Hr Hz]. apply Bool.negb_true_iff, Z.eqb_neq in Hz. specialize (H r Hr). lia.
Qed.

Lemma drop_zero_width_covers (baits : list grow) c x :
  gcovers (drop_zero_width baits) c x <-> gcovers baits c x.
Proof.
  unfold gcovers, covers. split.
  - intros [r [Hr Hx]]. apply filter_on_in in Hr as [Hr Hc]. apply filter_In in Hr as [Hr _].
    exists r. split; [apply filter_on_in; auto | exact Hx].
  - intros [r [Hr Hx]]. apply filter_on_in in Hr as [Hr Hc]. exists r. split; [|exact Hx].
    apply filter_on_in. split; [|exact Hc]. apply filter_In. split; [exact Hr|].
    apply Bool.negb_true_iff, Z.eqb_neq. lia.
Qed.

Lemma target_split (avg : Q) (cut : Z -> Z -> Z -> Z) (baits : list grow) (c : string) :
  0 < Qnum avg -> (forall span n, cut_contract span n (cut span n)) ->
  Forall (fun r => lo r <= hi r) baits ->
  let out := do_target true avg cut baits in
  exists m : list grow,
    (forall x, covers m x <-> gcovers baits c x) /\ sorted_separated m /\ valid m /\
    filter (on c) out = flat_map (split_row_q avg 0 cut) m /\
    Forall (fun r => exists n, is_nbins (hi r - lo r) avg n /\
                               equal_bins (lo r) (hi r) n (pay r) (split_row_q avg 0 cut r)) m /\
    sorted_disjoint (filter (on c) out) /\
    Forall (fun b => lo b <= hi b) (filter (on c) out) /\
    (forall x, gcovers out c x <-> gcovers baits c x).
Proof.
  intros Ha Hc Hb out.
  set (t := drop_zero_width baits).
  assert (Hv : valid t) by (apply drop_zero_width_valid; exact Hb).
  assert (Hbp : 0 <= Gen.IvDefaults.merge_bp_default) by (unfold Gen.IvDefaults.merge_bp_default; lia).
  destruct (merge_sel_spec comb_cg Gen.IvDefaults.merge_bp_default t (on c) Hbp) as (H1 & H2 & H3).
  set (m := merge_sel comb_cg Gen.IvDefaults.merge_bp_default (all_gaps Gen.IvDefaults.merge_bp_default t) (filter (on c) t)) in *.
  specialize (H3 Hv). apply overlap_below_0_separated in H2.
  assert (Hout : filter (on c) out = flat_map (split_row_q avg 0 cut) m).
  { unfold out, do_target. fold t. change Gen.BinsDefaults.target_min_size with 0. apply gsubdivide_proj. }
  assert (Hcov : forall x, covers m x <-> gcovers baits c x).
  { intros x. etransitivity; [apply H1 | apply drop_zero_width_covers]. }
  exists m. split; [exact Hcov|]. split; [exact H2|]. split; [exact H3|]. split; [exact Hout|].
  split; [|split; [|split]].
  - rewrite Forall_forall. intros r Hr. pose proof (valid_in _ _ H3 Hr) as Hlt.
    destruct (split_row_q_spec avg 0 cut r Ha Hlt Hc) as (Hn & _ & Hbig & _).
    eexists. split; [exact Hn|]. apply Hbig. lia.
  - rewrite Hout. apply flat_split_sorted; assumption.
  - rewrite Hout. apply (flat_split_weakly_valid avg 0 cut Ha Hc m H3).
  - intros x. unfold gcovers at 1. rewrite Hout, (flat_split_covers avg 0 cut Ha Hc m x H3), <- Hcov.
    unfold covers. split.
    + intros [r (Hr & _ & Hx)]. exists r. auto.
    + intros [r (Hr & Hx)]. exists r. pose proof (valid_in _ _ H3 Hr). repeat split; auto; lia.
Qed.

(* ---- label shortening ---------------------------------------------------------- *)

Lemma shorten_go_length curr count labels :
  length (shorten_go curr count labels) = (count + length labels)%nat.
Proof.
  revert curr count. induction labels as [|l rest IH]; intros curr count; cbn [shorten_go].
  - rewrite repeat_length. cbn [length]. lia.
  - destruct (inter curr (names_of l)).
    + rewrite app_length, repeat_length, IH. cbn [length]. lia.
    + rewrite IH. cbn [length]. lia.
Qed.

Lemma shorten_labels_length labels : length (shorten_labels labels) = length labels.
Proof. unfold shorten_labels. rewrite shorten_go_length. reflexivity. Qed.

Lemma set_genes_coords (t : list grow) names :
  length names = length t -> map coords (set_genes t names) = map coords t.
Proof.
  unfold set_genes. revert names. induction t as [|r t IH]; intros names Hl; [reflexivity|].
  destruct names as [|g names]; [discriminate|]. cbn [combine map]. f_equal.
  apply IH. cbn in Hl. lia.
Qed.

Lemma target_labels pick split avg cut (baits : list grow) :
  let plain := do_target split avg cut baits in
  let short := do_target_short pick split avg cut baits in
  length (shorten_labels (map gene plain)) = length plain /\
  length short = length plain /\ map coords short = map coords plain.
Proof.
  cbv zeta. unfold do_target_short. set (t := do_target split avg cut baits).
  assert (Hl : length (map pick (shorten_labels (map gene t))) = length t)
    by (rewrite map_length, shorten_labels_length, map_length; reflexivity).
  split; [rewrite shorten_labels_length, map_length; reflexivity|].
  pose proof (set_genes_coords t _ Hl) as Hc. split; [|exact Hc].
  rewrite <- (map_length coords), Hc, map_length. reflexivity.
Qed.

(* ---- the unguarded lower size bound is false -------------------------------------- *)

Definition floor_cut (span n i : Z) : Z := i * span / n.

Lemma floor_cut_contract span n : cut_contract span n (floor_cut span n).
Proof. unfold cut_contract, floor_cut. intros i Hi. pose proof (Z.div_mod (i * span) n ltac:(lia)).
  pose proof (Z.mod_pos_bound (i * span) n ltac:(lia)). nia. Qed.

Lemma single_row_sorted (t : grow) : sorted_table [t].
Proof. intros c. cbn [filter]. destruct (on c t); cbn; auto. Qed.

Lemma anti_min_refuted :
  exists (T acc : list grow) (avg : Q) (mn : Z) (cut : Z -> Z -> Z -> Z) (out : list grow) (b : grow),
    (forall span n, cut_contract span n (cut span n)) /\ sorted_table T /\ nonneg_table acc /\
    0 < Qnum avg /\ 0 < mn /\
    get_antitargets T (Some acc) avg mn cut = Some out /\ In b out /\ hi b - lo b < mn.
Proof.
  exists [(1000, 1100, ("chr1", "a"))%string], [(1100, 2260, ("chr1", ""))%string], (100 # 1)%Q, 90, floor_cut.
  exists [(1600, 1680, ("chr1", "Antitarget"))%string; (1680, 1760, ("chr1", "Antitarget"))%string].
  exists (1600, 1680, ("chr1", "Antitarget"))%string.
  split; [exact floor_cut_contract|]. split; [apply single_row_sorted|].
  split; [constructor; [cbn; lia | constructor]|].
  split; [cbn; lia|]. split; [lia|].
  split; [vm_compute; reflexivity|]. split; [left; reflexivity | cbn; lia].
Qed.
