(* C15 function-body tie of compare_chrom (nested in CopyNumArray.compare_sex_chromosomes, cnvlib/cnary.py), translated
   WHOLE on every run (Gen/FnCnaryChrom.v): the call of compare_to_auto on `vals + female_shift` gives (female_stat,
   f_diff), the call on `vals + male_shift` gives (male_stat, m_diff), then the ratio of the statistics over
   max(., 0.01) or, when either is missing, of the differences of medians.

   Model/Sex.v's male_lr is the generated function on the model's two compare_to_auto results (mood_stat / med_diff of
   the shifted values; Proofs/FnCnaryMood.v ties those to compare_to_auto's body). *)
From CNV Require Import Base.Prelude Base.Str Base.QNum Proofs.QNumLemmas Gen.CenterDefaults Model.Center Model.Sex
  Proofs.FnCnary Gen.FnCnaryChrom.
Local Open Scope Q_scope.

Lemma fn_compare_chrom_whole_lr fs ms fd md :
  lr_of fs ms fd md == fn_compare_chrom_whole fs fd (val_of ms) md (some_of ms).
Proof.
  unfold lr_of, fn_compare_chrom_whole. cbv zeta.
  destruct fs as [f|], ms as [m|]; cbn [some_of val_of]; rewrite qdiv_spec, qmax2_py_max; reflexivity.
Qed.

(* `vals + shift`, elementwise *)
Definition shifted (vals : list Q) (shift : Q) : list Q := map (fun x => qadd x shift) vals.

Theorem fn_male_lr_eq gstat auto_l auto_w vals w female_shift male_shift :
  male_lr gstat auto_l auto_w vals w female_shift male_shift ==
  fn_compare_chrom_whole
    (mood_stat gstat auto_l (shifted vals female_shift)) (med_diff auto_l auto_w (shifted vals female_shift) w)
    (val_of (mood_stat gstat auto_l (shifted vals male_shift))) (med_diff auto_l auto_w (shifted vals male_shift) w)
    (some_of (mood_stat gstat auto_l (shifted vals male_shift))).
Proof. unfold male_lr. cbv zeta. apply fn_compare_chrom_whole_lr. Qed.
