(* C16 source tie of do_genemetrics' closing filter (cnvlib/reports.py), per row of `table`:

       if min_probes and len(table):
           n_probes = table.segment_probes if "segment_probes" in table.columns else table.probes
           table = table[n_probes >= min_probes]

   regenerated from the Python source on every run as Gen/FnGenemetricsKeep.v (fn_gm_keep: the row stays).  A row of the
   model has the column segment_probes exactly when its r_segp is present (gene_metrics_by_segment sets it on every row,
   gene_metrics_by_gene on none).  Here: the model's closing filter IS the generated row test, and Model/Genes.v
   do_genemetrics IS the generated dispatch (Proofs/FnGenemetricsFlow.v) followed by the generated filter. *)
From CNV Require Import Base.Prelude Base.Str Gen.Params Gen.GenesDefaults Model.Genes Gen.FnGenemetricsKeep.
From CNV Require Import Proofs.FnGenemetricsFlow.

Local Open Scope Z_scope.

Definition py_keep (mp : Z) (table : list grow) (r : grow) : bool :=
  fn_gm_keep mp (Z.of_nat (length table))
             (match r_segp r with Some _ => true | None => false end)
             (match r_segp r with Some p => p | None => 0 end) (r_probes r).

Lemma filter_all {A} (l : list A) : filter (fun _ => true) l = l.
Proof. induction l as [|x t IH]; [reflexivity|]. cbn. rewrite IH. reflexivity. Qed.

Theorem source_gm_keep (mp : Z) (table : list grow) :
  (if mp =? 0 then table else filter (fun r => mp <=? n_probes r) table) = filter (py_keep mp table) table.
Proof.
  destruct table as [|r0 t]; [destruct (mp =? 0); reflexivity|].
  set (tb := r0 :: t).
  assert (L : (Z.of_nat (length tb) =? 0) = false) by (apply Z.eqb_neq; cbn [tb length]; lia).
  unfold py_keep, fn_gm_keep. rewrite L.
  destruct (mp =? 0); cbn [negb andb].
  - symmetry. apply filter_all.
  - apply filter_ext. intro r. unfold n_probes. destruct (r_segp r); reflexivity.
Qed.

(* do_genemetrics = generated dispatch, then generated filter *)
Theorem source_do_genemetrics rows segs th mp sl hap fem build guess :
  do_genemetrics rows segs th mp sl hap fem =
  let table := rows_of rows segs th sl hap fem (fst (py_dispatch segs th sl hap fem build (Some fem) guess)) in
  filter (py_keep mp table) table.
Proof. cbv zeta. rewrite <- source_gm_keep. apply source_gm_dispatch. Qed.
