(* C19 -- weighted median, top level: the statements on [wmedian_sorted] carried
   to the pairs as given (any arrangement by value that is a permutation of the
   input: the model's own stable sort [psort], or numpy's argsort), the
   decorators, and the witnesses for what does NOT hold. *)
From CNV Require Import Base.Prelude Base.QNum Proofs.QNumLemmas Gen.DescDefaults
  Model.Descriptives Spec.Stats Proofs.DescriptivesWMedian Proofs.DescriptivesWMedianEqual
  Proofs.DescriptivesShift.
From Coq Require Import Qabs Qround Psatz Setoid Morphisms.
Local Open Scope Q_scope.

(* ---- sums over permutations --------------------------------------------------- *)
Lemma sumQ_perm l l' : Permutation l l' -> sumQ l == sumQ l'.
Proof.
  induction 1 as [|x l l' _ IH|x y l|l1 l2 l3 _ IH1 _ IH2]; cbn [sumQ].
  - reflexivity.
  - now rewrite IH.
  - ring.
  - now rewrite IH1.
Qed.

Lemma filter_perm {A} (f : A -> bool) l l' : Permutation l l' -> Permutation (filter f l) (filter f l').
Proof.
  induction 1 as [|x l l' _ IH|x y l|l1 l2 l3 _ IH1 _ IH2]; cbn [filter].
  - constructor.
  - destruct (f x); [now constructor|exact IH].
  - destruct (f x), (f y); try apply Permutation_refl. apply perm_swap.
  - eapply Permutation_trans; eassumption.
Qed.

Lemma wtotal_perm ps ps' : Permutation ps ps' -> wtotal ps == wtotal ps'.
Proof. intro H. unfold wtotal. apply sumQ_perm, Permutation_map, H. Qed.
Lemma wbelow_perm m ps ps' : Permutation ps ps' -> wbelow m ps == wbelow m ps'.
Proof. intro H. unfold wbelow. apply sumQ_perm, Permutation_map, filter_perm, H. Qed.
Lemma wabove_perm m ps ps' : Permutation ps ps' -> wabove m ps == wabove m ps'.
Proof. intro H. unfold wabove. apply sumQ_perm, Permutation_map, filter_perm, H. Qed.

Lemma is_weighted_median_perm m ps ps' : Permutation ps ps' ->
  is_weighted_median m ps -> is_weighted_median m ps'.
Proof.
  intros H [A B]. unfold is_weighted_median.
  rewrite <- (wbelow_perm m _ _ H), <- (wabove_perm m _ _ H), <- (wtotal_perm _ _ H). split; assumption.
Qed.
Lemma is_weighted_median_upto_perm s m ps ps' : Permutation ps ps' ->
  is_weighted_median_upto s m ps -> is_weighted_median_upto s m ps'.
Proof.
  intros H [A B]. unfold is_weighted_median_upto.
  rewrite <- (wbelow_perm m _ _ H), <- (wabove_perm m _ _ H), <- (wtotal_perm _ _ H). split; assumption.
Qed.

Lemma nonneg_perm ps ps' : Permutation ps ps' -> nonneg_weights ps -> nonneg_weights ps'.
Proof. intros H N p Hp. apply N. eapply Permutation_in; [apply Permutation_sym, H|exact Hp]. Qed.

(* ---- the model's stable insertion sort ------------------------------------------ *)
Lemma pins_perm p l : Permutation (pins p l) (p :: l).
Proof.
  induction l as [|q t IH]; cbn [pins]; [apply Permutation_refl|].
  destruct (qle_b (fst p) (fst q)); [apply Permutation_refl|].
  eapply Permutation_trans; [apply perm_skip, IH|apply perm_swap].
Qed.
Lemma psort_perm l : Permutation (psort l) l.
Proof.
  induction l as [|p t IH]; cbn [psort fold_right]; [constructor|].
  eapply Permutation_trans; [apply pins_perm|]. now constructor.
Qed.

Lemma pins_sorted p l : psorted l -> psorted (pins p l).
Proof.
  induction 1 as [|q t S IH F]; cbn [pins]; [repeat constructor|].
  destruct (qle_b (fst p) (fst q)) eqn:E.
  - apply qle_b_iff in E. constructor; [now constructor|].
    constructor; [exact E|]. rewrite Forall_forall in *. intros r Hr. specialize (F r Hr). lra.
  - apply qle_b_false in E. constructor; [exact IH|].
    rewrite Forall_forall in *. intros r Hr.
    assert (In r (p :: t)) as [<-|Hr'] by (eapply Permutation_in; [apply pins_perm|exact Hr]); [lra|now apply F].
Qed.
Lemma psort_sorted l : psorted (psort l).
Proof. induction l as [|p t IH]; cbn [psort fold_right]; [constructor|]. now apply pins_sorted. Qed.

Lemma psort_nonnil l : l <> [] -> psort l <> [].
Proof.
  intros H E. apply H. apply Permutation_nil. rewrite <- E. apply psort_perm.
Qed.

(* ---- any arrangement r of the pairs ps ------------------------------------------- *)
Section Arranged.
  Variables ps r : list (Q * Q).
  Hypothesis Hperm : Permutation r ps.
  Hypothesis Hsorted : sorted_by_value r.
  Hypothesis Hnn : nonneg_weights ps.
  Hypothesis Hne : ps <> [].

  Let Hnn_r : nonneg_weights r.
  Proof. eapply nonneg_perm; [apply Permutation_sym, Hperm|exact Hnn]. Qed.
  Let Hne_r : r <> [].
  Proof. intro E. apply Hne. apply Permutation_nil. rewrite <- E. exact Hperm. Qed.

  Lemma arranged_halves : wm_no_near_tie r -> is_weighted_median (wmedian_sorted r) ps.
  Proof.
    intro G. apply (is_weighted_median_perm _ r ps Hperm).
    apply wmedian_sorted_halves; assumption.
  Qed.

  Lemma arranged_halves_tol : is_weighted_median_upto (wmed_tol ps) (wmedian_sorted r) ps.
  Proof.
    apply (is_weighted_median_upto_perm _ _ r ps Hperm).
    assert (E : wmed_tol r == wmed_tol ps).
    { rewrite !wmed_tol_spec, (Permutation_length Hperm), (wtotal_perm _ _ Hperm). reflexivity. }
    destruct (wmedian_sorted_halves_tol r Hsorted Hnn_r Hne_r) as [A B].
    split; rewrite <- E; assumption.
  Qed.

  Lemma arranged_range : exists p q, In p ps /\ In q ps /\ fst p <= wmedian_sorted r <= fst q.
  Proof.
    destruct (wmedian_sorted_range r Hsorted Hnn_r Hne_r) as (p & q & Hp & Hq & H).
    exists p, q. repeat split; try apply H; eapply Permutation_in; eauto.
  Qed.
End Arranged.

(* the decorated function on the model's own arrangement *)
Lemma weighted_median_ps_some ps : ps <> [] -> weighted_median_ps ps =
  Some (match ps with [p] => fst p | _ => wmedian_sorted (psort ps) end).
Proof. destruct ps as [|p [|q t]]; intro H; [congruence|reflexivity|reflexivity]. Qed.

(* ---- equal weights ------------------------------------------------------------------ *)
Lemma eqw_sorted w s : sortedQ s -> sorted_by_value (eqw w s).
Proof.
  unfold sorted_by_value. induction 1 as [|x t S IH F]; cbn [eqw map]; constructor; [exact IH|].
  rewrite Forall_forall in *. intros q Hq. apply in_map_iff in Hq as (y & <- & Hy). cbn [fst]. now apply F.
Qed.

(* values of the arranged pairs *)
Lemma psorted_values r : psorted r -> sortedQ (map fst r).
Proof.
  induction 1 as [|p t S IH F]; cbn [map]; constructor; [exact IH|].
  rewrite Forall_forall in *. intros y Hy. apply in_map_iff in Hy as (q & <- & Hq). now apply F.
Qed.

Lemma equal_weights_eqw w r : (forall p, In p r -> snd p = w) -> r = eqw w (map fst r).
Proof.
  induction r as [|[v y] t IH]; intro H; [reflexivity|]. cbn [map eqw fst]. f_equal.
  - f_equal. apply (H (v, y)). now left.
  - apply IH. intros p Hp. apply H. now right.
Qed.

Theorem wmedian_equal_median ps r w :
  Permutation r ps -> sorted_by_value r -> ps <> [] -> 0 < w ->
  (forall p, In p ps -> snd p = w) ->
  tol_units (length ps) < 1 # 2 ->
  wmedian_sorted r == median (map fst ps).
Proof.
  intros Hperm Hsorted Hne Hw Heq Hn.
  assert (Hr : r = eqw w (map fst r)).
  { apply equal_weights_eqw. intros p Hp. apply Heq. eapply Permutation_in; eauto. }
  assert (Hne_r : map fst r <> []).
  { intro E. apply Hne. apply map_eq_nil in E. subst r. now apply Permutation_nil. }
  rewrite Hr. rewrite (wmedian_equal_weights w Hw (map fst r) Hne_r).
  - rewrite <- (median_of_sorted (map fst r)) by (apply psorted_values, Hsorted).
    apply median_perm. apply Permutation_map, Hperm.
  - rewrite map_length, (Permutation_length Hperm). exact Hn.
Qed.

(* ---- the decorated function (model's own arrangement) --------------------------------- *)
Lemma weighted_median_ps_halves ps m :
  nonneg_weights ps -> wm_no_near_tie (psort ps) -> weighted_median_ps ps = Some m ->
  is_weighted_median m ps.
Proof.
  intros Hnn G. destruct ps as [|p [|q t]]; intro E.
  - discriminate.
  - injection E as <-. unfold is_weighted_median, wbelow, wabove, wtotal. cbn [filter map].
    assert (E1 : qlt_b (fst p) (fst p) = false) by (apply qlt_b_false, Qle_refl). rewrite E1. cbn [map sumQ].
    assert (0 <= snd p) by (apply Hnn; now left).
    assert (Hh : 0 <= (snd p + 0) / 2) by (apply Qle_shift_div_l; lra). split; exact Hh.
  - injection E as <-. apply arranged_halves; try assumption.
    + exact (psort_perm (p :: q :: t)).
    + exact (psort_sorted (p :: q :: t)).
    + discriminate.
Qed.

Lemma weighted_median_ps_range ps m :
  nonneg_weights ps -> weighted_median_ps ps = Some m ->
  exists p q, In p ps /\ In q ps /\ fst p <= m <= fst q.
Proof.
  intros Hnn. destruct ps as [|p [|q t]]; intro E.
  - discriminate.
  - injection E as <-. exists p, p. repeat split; try (now left); apply Qle_refl.
  - injection E as <-. apply arranged_range; try assumption.
    + exact (psort_perm (p :: q :: t)).
    + exact (psort_sorted (p :: q :: t)).
    + discriminate.
Qed.
