(* C12_block_order: the output of do_target / do_antitarget is in genomic order across
   chromosomes (statements for Props/C12.v). *)
From CNV Require Import Base.Prelude Base.Str Model.IvRow Model.IvCombine Model.Intervals
  Model.Chromsort Model.Access Model.Target Model.Antitarget Spec.Cover Spec.Bins.
From CNV Require Import Proofs.ChromsortLemmas Proofs.IvCover Proofs.TargetLib Proofs.TargetSplit
  Proofs.AntitargetContigs Proofs.TargetProps Proofs.TargetOrder.
From CNV Require Gen.IvDefaults Gen.BinsDefaults.

(* a table as GenomicArray.sort leaves it has non-decreasing keys *)
Lemma genome_sorted_key_sorted (t : list grow) : genome_sorted t -> key_sorted t.
Proof.
  unfold genome_sorted, regions_sorted, key_sorted.
  induction 1 as [|a l Hs IH Hf]; [constructor|]. constructor; [exact IH|].
  rewrite Forall_forall in *. intros b Hb. specialize (Hf b Hb).
  unfold region_leb, coords, rkey_of in Hf. apply rkey_leb_spec in Hf.
  unfold key_le, ckey. destruct Hf as [Hlt|[Heq _]].
  - apply ckey_ltb_leb. exact Hlt.
  - rewrite Heq. apply ckey_leb_refl.
Qed.

Lemma key_injective_sub (t u : list grow) :
  (forall r, In r u -> exists b, In b t /\ chrom b = chrom r) -> key_injective t -> key_injective u.
Proof.
  intros Hsub Hi x y Hx Hy Hk.
  destruct (Hsub x Hx) as [bx [Hbx Ex]]. destruct (Hsub y Hy) as [by_ [Hby Ey]].
  rewrite <- Ex, <- Ey. apply Hi; [exact Hbx | exact Hby|].
  unfold ckey in *. rewrite Ex, Ey. exact Hk.
Qed.

Lemma gsubdivide_chrom_in avg mn cut (t : list grow) r :
  In r (gsubdivide avg mn cut t) -> exists b, In b t /\ chrom b = chrom r.
Proof.
  intros Hr.
  assert (Hrc : In r (filter (on (chrom r)) (gsubdivide avg mn cut t))) by (apply filter_on_in; auto).
  rewrite gsubdivide_proj in Hrc.
  destruct (filter (on (chrom r)) t) as [|b l] eqn:Ef.
  - rewrite merge_sel_nil in Hrc. destruct Hrc.
  - exists b. apply filter_on_in. rewrite Ef. left; reflexivity.
Qed.

Lemma do_target_chrom_in split avg cut (baits : list grow) r :
  In r (do_target split avg cut baits) -> exists b, In b baits /\ chrom b = chrom r.
Proof.
  unfold do_target. destruct split; intros Hr.
  - apply gsubdivide_chrom_in in Hr as [b [Hb Hc]]. apply filter_In in Hb as [Hb _]. exists b; auto.
  - apply filter_In in Hr as [Hr _]. exists r; auto.
Qed.

(* target: keys never decrease (fast path of merge: because the input's do not; slow path:
   whatever the input order); with distinct keys for distinct names the split bins are in
   genomic order *)
Lemma c12_block_order_target : forall (split : bool) (avg : Q) (cut : Z -> Z -> Z -> Z) (baits : list grow),
  (0 < avg)%Q -> (forall span n, cut_contract span n (cut span n)) ->
  Forall (fun r => lo r <= hi r) baits ->
  (split = false \/ all_gaps 0 (drop_zero_width baits) = true -> key_sorted baits) ->
  let out := do_target split avg cut baits in
  key_sorted out /\ (split = true -> key_injective baits -> genomic_sorted out).
Proof.
  intros split avg cut baits Havg Hcut Hv Hs out. split.
  - apply target_key_sorted. exact Hs.
  - intros -> Hi. apply genomic_sorted_of.
    + apply target_key_sorted. exact Hs.
    + eapply key_injective_sub; [|exact Hi]. intros r Hr. eapply do_target_chrom_in. exact Hr.
    + intros c. destruct (c12_target_split avg cut baits c Havg Hcut Hv) as (m & _ & _ & _ & _ & _ & H1 & H2 & _).
      split; assumption.
Qed.

(* a sorted input takes either path *)
Lemma c12_block_order_target_sorted : forall (split : bool) (avg : Q) (cut : Z -> Z -> Z -> Z) (baits : list grow),
  (0 < avg)%Q -> (forall span n, cut_contract span n (cut span n)) ->
  Forall (fun r => lo r <= hi r) baits -> genome_sorted baits ->
  let out := do_target split avg cut baits in
  key_sorted out /\ (split = true -> key_injective baits -> genomic_sorted out).
Proof.
  intros split avg cut baits Havg Hcut Hv Hs. apply c12_block_order_target; try assumption.
  intros _. apply genome_sorted_key_sorted. exact Hs.
Qed.

(* the slow path of merge needs no assumption on the order of the input *)
Lemma c12_block_order_target_slow : forall (avg : Q) (cut : Z -> Z -> Z -> Z) (baits : list grow),
  all_gaps 0 (drop_zero_width baits) = false -> key_sorted (do_target true avg cut baits).
Proof.
  intros avg cut baits Hg. apply target_key_sorted. intros [H|H]; [discriminate|].
  change Gen.IvDefaults.merge_bp_default with 0 in H. congruence.
Qed.

Lemma anti_rows_key_sorted (E T : list grow) avg mn cut : key_sorted E -> key_sorted (anti_rows E T avg mn cut).
Proof.
  intros HE. unfold anti_rows. apply key_sorted_map; [intros r; reflexivity|].
  apply gsubdivide_key_sorted. intros _. apply gsubtract_key_sorted. apply gresize_key_sorted. exact HE.
Qed.

Lemma c12_block_order_anti : forall T access avg mn cut E out,
  anti_pre T access avg cut -> effective_access T access = Some E ->
  get_antitargets T access avg mn cut = Some out ->
  key_sorted T -> (forall acc, access = Some acc -> key_sorted acc) ->
  key_sorted out /\ (key_injective E -> genomic_sorted out).
Proof.
  intros T access avg mn cut E out Hpre HE Hout HT Hacc.
  assert (Hk : key_sorted out).
  { rewrite (out_eq T access avg mn cut E out HE Hout). apply anti_rows_key_sorted.
    eapply effective_access_key_sorted; eassumption. }
  split; [exact Hk|]. intros Hi. apply genomic_sorted_of; [exact Hk | |].
  - eapply key_injective_sub; [|exact Hi]. intros r Hr.
    exact (c12_anti_contigs T access avg mn cut E out HE Hout r Hr).
  - intros c. exact (c12_anti_disjoint T access avg mn cut E out Hpre HE Hout c).
Qed.
