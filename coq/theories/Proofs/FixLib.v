(* Generic lemmas used by the C04 proofs: uniqueness of a sorted arrangement with distinct keys,
   permutation picking, sorting related lists, duplicate detection, keyed lookup. *)
From CNV Require Import Base.Prelude Base.Str Base.QNum Model.Chromsort Proofs.ChromsortLemmas
  Proofs.QNumLemmas Model.Fix.
From Coq Require Import Qround Qabs Setoid Morphisms Psatz.

(* ------------------------------------------------------------------------ *)
(* lists                                                                      *)

Lemma NoDup_map_inj_In {A B} (f : A -> B) l a b :
  NoDup (map f l) -> In a l -> In b l -> f a = f b -> a = b.
Proof.
  induction l as [|x t IH]; cbn; intros ND Ha Hb E; [contradiction|].
  inversion ND as [|? ? Hnin ND']; subst.
  destruct Ha as [->|Ha], Hb as [->|Hb]; auto.
  - exfalso. apply Hnin. rewrite E. now apply in_map.
  - exfalso. apply Hnin. rewrite <- E. now apply in_map.
Qed.

Lemma NoDup_map_filter {A B} (f : A -> B) (p : A -> bool) l :
  NoDup (map f l) -> NoDup (map f (filter p l)).
Proof.
  induction l as [|x t IH]; cbn; intros ND; [constructor|].
  inversion ND as [|? ? Hnin ND']; subst.
  destruct (p x); cbn; auto. constructor; auto.
  intro H. apply Hnin. apply in_map_iff in H as (y & E & Hy).
  apply filter_In in Hy as [Hy _]. rewrite <- E. now apply in_map.
Qed.

Lemma NoDup_app_l' {A} (l1 l2 : list A) : NoDup (l1 ++ l2) -> NoDup l1.
Proof.
  induction l1 as [|x t IH]; cbn; intros ND; [constructor|].
  inversion ND as [|? ? Hnin ND']; subst. constructor; auto.
  intro H. apply Hnin. apply in_or_app. now left.
Qed.
Lemma NoDup_app_r' {A} (l1 l2 : list A) : NoDup (l1 ++ l2) -> NoDup l2.
Proof.
  induction l1 as [|x t IH]; cbn; intros ND; auto.
  inversion ND; subst. auto.
Qed.
Lemma NoDup_map_app_l {A B} (f : A -> B) l1 l2 : NoDup (map f (l1 ++ l2)) -> NoDup (map f l1).
Proof. rewrite map_app. apply NoDup_app_l'. Qed.
Lemma NoDup_map_app_r {A B} (f : A -> B) l1 l2 : NoDup (map f (l1 ++ l2)) -> NoDup (map f l2).
Proof. rewrite map_app. apply NoDup_app_r'. Qed.

Lemma NoDup_map_perm {A B} (f : A -> B) l l' : Permutation l l' -> NoDup (map f l) -> NoDup (map f l').
Proof. intros P. apply Permutation_NoDup. now apply Permutation_map. Qed.

Lemma filter_map_comm {A B} (f : A -> B) (p : B -> bool) l :
  filter p (map f l) = map f (filter (fun x => p (f x)) l).
Proof. induction l as [|x t IH]; cbn; auto. destruct (p (f x)); cbn; now rewrite IH. Qed.

Lemma filter_ext_In' {A} (p q : A -> bool) l : (forall x, In x l -> p x = q x) -> filter p l = filter q l.
Proof.
  induction l as [|x t IH]; cbn; intros H; auto.
  rewrite (H x (or_introl eq_refl)). rewrite IH; auto.
Qed.

Lemma Forall2_map_l {A B C} (R : B -> C -> Prop) (f : A -> B) l l' :
  Forall2 R (map f l) l' <-> Forall2 (fun a c => R (f a) c) l l'.
Proof.
  split; revert l'.
  - induction l; intros l' H; inversion H; subst; constructor; auto.
  - induction l; intros l' H; inversion H; subst; cbn; constructor; auto.
Qed.

Lemma Forall2_length' {A B} (R : A -> B -> Prop) l l' : Forall2 R l l' -> length l = length l'.
Proof. induction 1; cbn; congruence. Qed.

Lemma Forall2_app' {A B} (R : A -> B -> Prop) l1 l1' l2 l2' :
  Forall2 R l1 l1' -> Forall2 R l2 l2' -> Forall2 R (l1 ++ l2) (l1' ++ l2').
Proof. induction 1; cbn; auto. Qed.

Lemma Forall2_filter {A B} (R : A -> B -> Prop) (p : A -> bool) (q : B -> bool) l l' :
  (forall a b, R a b -> p a = q b) -> Forall2 R l l' -> Forall2 R (filter p l) (filter q l').
Proof.
  intros E. induction 1 as [|a b l l' Hab H IH]; cbn; [constructor|].
  rewrite (E _ _ Hab). destruct (q b); auto.
Qed.

Lemma Forall2_eq_map {A B} (f g : A -> B) l :
  (forall x, In x l -> f x = g x) -> map f l = map g l.
Proof. intros. now apply map_ext_in. Qed.

Lemma Forall2_In_l {A B} (R : A -> B -> Prop) l l' a :
  Forall2 R l l' -> In a l -> exists b, In b l' /\ R a b.
Proof.
  induction 1 as [|x y l l' Hxy H IH]; cbn; [contradiction|].
  intros [->|Ha]; [exists y; auto|]. destruct (IH Ha) as (b & Hb & Rb). exists b; auto.
Qed.

Lemma Forall2_In_r {A B} (R : A -> B -> Prop) l l' b :
  Forall2 R l l' -> In b l' -> exists a, In a l /\ R a b.
Proof.
  induction 1 as [|x y l l' Hxy H IH]; cbn; [contradiction|].
  intros [->|Hb]; [exists x; auto|]. destruct (IH Hb) as (a & Ha & Ra). exists a; auto.
Qed.

(* ------------------------------------------------------------------------ *)
(* a sorted arrangement of pairwise distinguishable elements is unique         *)

Section SortedUnique.
  Context {A : Type} (leb : A -> A -> bool).
  Let R (a b : A) : Prop := leb a b = true.

  Lemma sorted_perm_unique l1 : forall l2,
    StronglySorted R l1 -> StronglySorted R l2 -> Permutation l1 l2 ->
    (forall a b, In a l1 -> In b l1 -> leb a b = true -> leb b a = true -> a = b) ->
    l1 = l2.
  Proof.
    induction l1 as [|a t1 IH]; intros l2 S1 S2 P AS.
    - apply Permutation_nil in P. now subst.
    - destruct l2 as [|b t2]; [apply Permutation_sym, Permutation_nil in P; discriminate|].
      inversion S1 as [|? ? S1' F1]; subst. inversion S2 as [|? ? S2' F2]; subst.
      assert (Hab : a = b).
      { assert (Ha : In a (b :: t2)) by (eapply Permutation_in; [exact P|now left]).
        assert (Hb : In b (a :: t1)) by (eapply Permutation_in; [apply Permutation_sym; exact P|now left]).
        destruct Ha as [Ha|Ha]; [now symmetry|]. destruct Hb as [Hb|Hb]; [assumption|].
        rewrite Forall_forall in F1, F2.
        apply AS; [now left|now right|now apply F1|now apply F2]. }
      subst b. f_equal. apply IH; auto.
      + now apply Permutation_cons_inv in P.
      + intros x y Hx Hy. apply AS; now right.
  Qed.
End SortedUnique.

Section SortRegionsUnique.
  Context {A : Type} (proj : A -> string * Z * Z).
  Let rk (x : A) : rkey := rkey_of (proj x).

  Lemma region_leb_antisym_key a b :
    region_leb proj a b = true -> region_leb proj b a = true -> rk a = rk b.
  Proof. unfold region_leb. apply rkey_leb_antisym. Qed.

  Lemma sort_regions_perm_eq l1 l2 :
    Permutation l1 l2 -> NoDup (map rk l1) -> sort_regions proj l1 = sort_regions proj l2.
  Proof.
    intros P ND. apply (sorted_perm_unique (region_leb proj)).
    - apply sort_regions_sorted.
    - apply sort_regions_sorted.
    - eapply perm_trans; [apply Permutation_sym, sort_regions_perm|].
      eapply perm_trans; [exact P|apply sort_regions_perm].
    - intros a b Ha Hb H1 H2. apply sort_regions_In in Ha, Hb.
      apply (NoDup_map_inj_In rk l1); auto. now apply region_leb_antisym_key.
  Qed.

  Lemma sort_regions_sorted_perm_id l :
    regions_sorted proj l -> sort_regions proj l = l.
  Proof. intros S. apply sort_regions_sorted_id. now apply StronglySorted_Sorted. Qed.

  Lemma regions_sorted_filter (p : A -> bool) l : regions_sorted proj l -> regions_sorted proj (filter p l).
  Proof.
    unfold regions_sorted. induction 1 as [|a l S IH F]; cbn; [constructor|].
    destruct (p a); auto. constructor; auto.
    rewrite Forall_forall in *. intros x Hx. apply filter_In in Hx as [Hx _]. auto.
  Qed.

  (* sorting a concatenation of sorted parts = sorting the concatenation of the parts *)
  Lemma sort_regions_app_sorted l1 l2 :
    NoDup (map rk (l1 ++ l2)) ->
    sort_regions proj (sort_regions proj l1 ++ sort_regions proj l2) = sort_regions proj (l1 ++ l2).
  Proof.
    intros ND. symmetry. apply sort_regions_perm_eq; auto.
    apply Permutation_app; apply sort_regions_perm.
  Qed.
End SortRegionsUnique.

(* sorting two lists related row by row (same sort keys) gives related lists *)
Section SortRelated.
  Context {A B : Type} (R : A -> B -> Prop) (la : A -> A -> bool) (lb : B -> B -> bool).
  Hypothesis leb_compat : forall a b a' b', R a b -> R a' b' -> la a a' = lb b b'.

  Lemma insert_by_Forall2 a b l l' :
    R a b -> Forall2 R l l' -> Forall2 R (insert_by la a l) (insert_by lb b l').
  Proof.
    intros Hab. induction 1 as [|x y l l' Hxy H IH]; cbn; [repeat constructor; auto|].
    rewrite (leb_compat _ _ _ _ Hab Hxy). destruct (lb b y); repeat constructor; auto.
  Qed.

  Lemma stable_sort_Forall2 l l' : Forall2 R l l' -> Forall2 R (stable_sort la l) (stable_sort lb l').
  Proof. induction 1; cbn; [constructor|]. now apply insert_by_Forall2. Qed.
End SortRelated.

(* ------------------------------------------------------------------------ *)
(* picking rows by a permutation of the positions                              *)

Lemma pick_seq {A} (l : list A) : pick l (seq 0 (length l)) = l.
Proof.
  unfold pick.
  assert (G : forall (pre : list A) l, flat_map (fun i => match nth_error (pre ++ l) i with Some x => [x] | None => [] end)
                        (seq (length pre) (length l)) = l).
  { intros pre l0; revert pre; induction l0 as [|x t IH]; intros pre; cbn; auto.
    rewrite nth_error_app2 by lia. rewrite Nat.sub_diag. cbn. f_equal.
    specialize (IH (pre ++ [x])). rewrite app_length in IH. cbn in IH.
    rewrite Nat.add_1_r in IH. rewrite <- app_assoc in IH. exact IH. }
  exact (G [] l).
Qed.

Lemma pick_perm {A} (l : list A) perm :
  Permutation perm (seq 0 (length l)) -> Permutation (pick l perm) l.
Proof.
  intros P. rewrite <- (pick_seq l) at 2. unfold pick. now apply Permutation_flat_map.
Qed.

(* ------------------------------------------------------------------------ *)
(* keys, duplicates, lookup                                                    *)

Lemma key_eqb_eq (a b : key) : key_eqb a b = true <-> a = b.
Proof.
  destruct a as [[c1 l1] h1], b as [[c2 l2] h2]. cbn.
  rewrite !andb_true_iff, String.eqb_eq, !Z.eqb_eq. split.
  - intros [[-> ->] ->]. reflexivity.
  - intros E. injection E as -> -> ->. auto.
Qed.

Lemma key_eqb_refl a : key_eqb a a = true.
Proof. now apply key_eqb_eq. Qed.

Lemma has_dup_false_iff ks : has_dup ks = false <-> NoDup ks.
Proof.
  induction ks as [|k t IH]; cbn.
  - split; [constructor|reflexivity].
  - rewrite orb_false_iff, IH. split.
    + intros [H ND]. constructor; auto. intro Hin.
      assert (existsb (key_eqb k) t = true) by (apply existsb_exists; exists k; split; auto; apply key_eqb_refl).
      congruence.
    + intros ND. inversion ND as [|? ? Hnin ND']; subst. split; auto.
      destruct (existsb (key_eqb k) t) eqn:E; auto.
      apply existsb_exists in E as (x & Hx & Ex). apply key_eqb_eq in Ex. subst. contradiction.
Qed.

Lemma has_dup_perm ks ks' : Permutation ks ks' -> has_dup ks = has_dup ks'.
Proof.
  intros P. destruct (has_dup ks) eqn:E1, (has_dup ks') eqn:E2; auto.
  - apply has_dup_false_iff in E2. eapply Permutation_NoDup in E2; [|apply Permutation_sym; exact P].
    apply has_dup_false_iff in E2. congruence.
  - apply has_dup_false_iff in E1. eapply Permutation_NoDup in E1; [|exact P].
    apply has_dup_false_iff in E1. congruence.
Qed.

Lemma lookup_Some ref k r : lookup ref k = Some r -> In r ref /\ rkey3 r = k.
Proof.
  unfold lookup. intros H. apply find_some in H as [Hin E]. apply key_eqb_eq in E. auto.
Qed.

Lemma lookup_None ref k : lookup ref k = None -> forall r, In r ref -> rkey3 r <> k.
Proof.
  unfold lookup. intros H r Hr E. eapply find_none in H; [|exact Hr]. cbn in H.
  rewrite E, key_eqb_refl in H. discriminate.
Qed.

Lemma lookup_In_NoDup ref r : NoDup (map rkey3 ref) -> In r ref -> lookup ref (rkey3 r) = Some r.
Proof.
  unfold lookup. induction ref as [|x t IH]; cbn [find map In]; intros ND Hin; [contradiction|].
  inversion ND as [|? ? Hnin ND']; subst.
  destruct (key_eqb (rkey3 r) (rkey3 x)) eqn:E.
  - apply key_eqb_eq in E. destruct Hin as [->|Hin]; auto.
    exfalso. apply Hnin. rewrite <- E. now apply in_map.
  - destruct Hin as [->|Hin]; [rewrite key_eqb_refl in E; discriminate|]. auto.
Qed.

Lemma lookup_perm ref ref' k :
  NoDup (map rkey3 ref) -> Permutation ref ref' -> lookup ref' k = lookup ref k.
Proof.
  intros ND P.
  assert (ND' : NoDup (map rkey3 ref')) by (eapply NoDup_map_perm; eauto).
  destruct (lookup ref k) eqn:E.
  - apply lookup_Some in E as [Hin Ek]. subst k. apply lookup_In_NoDup; auto.
    eapply Permutation_in; eauto.
  - destruct (lookup ref' k) eqn:E'; auto.
    apply lookup_Some in E' as [Hin Ek]. exfalso.
    eapply lookup_None; [exact E| |exact Ek]. eapply Permutation_in; [apply Permutation_sym; exact P|exact Hin].
Qed.

Lemma all_some_Some {A} (l : list (option A)) r : all_some l = Some r -> l = map Some r.
Proof.
  revert r; induction l as [|o t IH]; cbn; intros r H.
  - injection H as <-. reflexivity.
  - destruct o; [|discriminate]. destruct (all_some t) eqn:E; [|discriminate].
    injection H as <-. cbn. f_equal. now apply IH.
Qed.

Lemma all_some_map_Some {A} (r : list A) : all_some (map Some r) = Some r.
Proof. induction r as [|x t IH]; cbn; auto. now rewrite IH. Qed.

Lemma all_some_None {A} (l : list (option A)) : all_some l = None -> In None l.
Proof.
  induction l as [|o t IH]; cbn; [discriminate|].
  destruct o; [|auto]. destruct (all_some t); [discriminate|]. intros _. right. now apply IH.
Qed.

(* ------------------------------------------------------------------------ *)
(* rationals                                                                   *)
Local Open Scope Q_scope.

Lemma Qred_eq_of_Qeq x y : x == y -> Qred x = Qred y.
Proof. apply Qred_complete. Qed.

Lemma qlt_b_Qeq a a' b b' : a == a' -> b == b' -> qlt_b a b = qlt_b a' b'.
Proof.
  intros Ea Eb. destruct (qlt_b a b) eqn:E1, (qlt_b a' b') eqn:E2; auto.
  - apply qlt_b_iff in E1. apply qlt_b_false in E2. rewrite Ea, Eb in E1. lra.
  - apply qlt_b_false in E1. apply qlt_b_iff in E2. rewrite Ea, Eb in E1. lra.
Qed.

Lemma qeq_b_Qeq a a' b b' : a == a' -> b == b' -> qeq_b a b = qeq_b a' b'.
Proof.
  intros Ea Eb. destruct (qeq_b a b) eqn:E1, (qeq_b a' b') eqn:E2; auto.
  - apply qeq_b_iff in E1. apply qeq_b_false in E2. exfalso. apply E2. now rewrite <- Ea, <- Eb.
  - apply qeq_b_false in E1. apply qeq_b_iff in E2. exfalso. apply E1. now rewrite Ea, Eb.
Qed.
