(* C13_genome, totality and correctness for a whole genome: with distinct sequence names and
   exclude rows of positive length, do_access succeeds and its result is, sequence by
   sequence in file order, the per-sequence pipeline result characterised by C13_pipeline. *)
From CNV Require Import Base.Prelude Base.Str Model.IvRow Model.Intervals Model.Access Model.AccessText
  Model.AccessPipe Spec.Regions Spec.Cover Spec.Runs Proofs.IvCover Proofs.IvMerge Proofs.Access
  Proofs.AccessJoin Proofs.AccessPipe Proofs.AccessPipeLib Proofs.AccessPipeline Proofs.AccessGenome.

Lemma to_of_rows (l : list (@row unit)) : to_rows (of_rows l) = l.
Proof.
  unfold to_rows, of_rows. rewrite map_map. rewrite <- (map_id l) at 2. apply map_ext.
  intros [[a b] []]. reflexivity.
Qed.

Lemma lsorted_sorted_lo (l : list (@row unit)) l0 : lsorted l0 l -> sorted_lo l.
Proof.
  revert l0. induction l as [|x t IH]; intros l0 H; [exact I|].
  destruct H as [H1 H2]. split; [|eapply IH; exact H2].
  destruct t as [|y t']; [exact I|]. destruct H2 as [H2 _]. exact H2.
Qed.

(* every row of an exclude file has positive length *)
Definition excl_rows_valid (ex : list tagged) : Prop := Forall (fun r => snd (fst r) < snd r) ex.

Lemma excls_for_ok c excls : Forall excl_rows_valid excls -> Forall excl_ok (excls_for c excls).
Proof.
  intros H. unfold excls_for. apply Forall_map. eapply Forall_impl; [|exact H].
  intros ex Hex. unfold excl_ok, sort_pairs. rewrite to_of_rows. split.
  - assert (Hv : valid (sort_rows (to_rows (rows_of c ex)))).
    { eapply valid_perm; [apply Permutation_sym, sort_rows_perm|].
      apply valid_to_rows. unfold excl_valid, rows_of. apply Forall_map.
      apply Forall_forall. intros r Hr. apply filter_In in Hr as [Hr _].
      unfold excl_rows_valid in Hex. rewrite Forall_forall in Hex. exact (Hex r Hr). }
    unfold excl_valid, of_rows. apply Forall_map. exact Hv.
  - destruct (lower_bound_exists (to_rows (rows_of c ex))) as (l0 & Hl0).
    eapply lsorted_sorted_lo. apply sort_rows_lsorted. exact Hl0.
Qed.

(* what one sequence (name, characters) contributes to the result of do_access *)
Definition seq_result (g : Z) (skip : bool) (excls : list (list tagged)) (ns : string * list ascii)
  (part : list tagged) : Prop :=
  if dropped skip (fst ns) then part = []
  else exists r, part = tag (fst ns) r /\
    access_sequence g (runs isN_ascii (snd ns)) (excls_for (fst ns) excls) = Some r /\
    (forall x, cov r x <-> kept_seq (snd ns) (excls_for (fst ns) excls) x
                           \/ small_gap (kept_seq (snd ns) (excls_for (fst ns) excls)) g x) /\
    match r with
    | [] => forall x, ~ kept_seq (snd ns) (excls_for (fst ns) excls) x
    | (a, b) :: t => 0 <= a < b /\ sep_from (Z.max 1 g) b t
    end.

Definition scanned (seqs : list (string * list ascii)) : list record :=
  map (fun ns => (fst ns, runs isN_ascii (snd ns))) seqs.

Theorem do_access_genome g skip (seqs : list (string * list ascii)) excls :
  NoDup (map fst seqs) -> Forall excl_rows_valid excls ->
  exists parts, do_access g skip (flatten_recs (scanned seqs)) excls = Some (concat parts) /\
                Forall2 (seq_result (gap_or_0 g) skip excls) seqs parts.
Proof.
  intros Hnd Hex.
  rewrite do_access_per_record by (unfold scanned; rewrite map_map; exact Hnd).
  clear Hnd. induction seqs as [|[n s] t IH].
  - exists []. split; [reflexivity|constructor].
  - destruct IH as (parts & Hc & Hf).
    cbn [scanned map fst snd]. fold (scanned t).
    unfold per_record at 1. cbn [fst]. destruct (dropped skip n) eqn:Ed.
    + exists ([] :: parts). rewrite collect_cons_some, Hc. split; [reflexivity|].
      constructor; [|exact Hf]. unfold seq_result. cbn [fst]. now rewrite Ed.
    + destruct (access_sequence_scanned (gap_or_0 g) s (excls_for n excls) (excls_for_ok n excls Hex))
        as (r & Hr & Hcov & Hsep).
      exists (tag n r :: parts). unfold per_kept. cbn [fst snd]. rewrite Hr, collect_cons_some, Hc.
      split; [reflexivity|]. constructor; [|exact Hf].
      unfold seq_result. cbn [fst snd]. rewrite Ed. exists r. auto.
Qed.

(* the exclude rows that one sequence sees cover exactly the file's rows of that name *)
Lemma cov_excls_for c ex x :
  cov (sort_pairs (rows_of c ex)) x <-> exists r, In r ex /\ t_name r = c /\ snd (fst r) <= x < snd r.
Proof.
  unfold sort_pairs. rewrite cov_of_rows.
  rewrite (covers_perm _ _ x (sort_rows_perm (to_rows (rows_of c ex)))), covers_to_rows.
  unfold cov, rows_of. split.
  - intros (p & Hin & Hx). apply in_map_iff in Hin as (r & <- & Hr). apply filter_In in Hr as [Hr Hn].
    apply String.eqb_eq in Hn. exists r. auto.
  - intros (r & Hr & Hn & Hx). exists (t_pair r). split; [|exact Hx].
    apply in_map_iff. exists r. split; [reflexivity|]. apply filter_In. split; [exact Hr|].
    now apply String.eqb_eq.
Qed.
