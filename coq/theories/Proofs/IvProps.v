(* The C06 property theorems in their final form (Props/C06.v restates them and
   closes each with `exact`). *)
From CNV Require Import Base.Prelude Model.IvRow Model.Intervals Spec.Cover.
From CNV Require Import Proofs.IvCover Proofs.IvSubtract Proofs.IvMerge Proofs.IvIntersect Proofs.IvTop Proofs.IvFlatten.
From CNV Require Gen.IvDefaults.

Lemma c06_subtract : forall (A B : Type) (a : list (@row A)) (b : list (@row B)),
  sorted_lo b ->
  (forall z, covers (subtract a b) z <-> covers a z /\ ~ covers b z) /\
  (valid a ->
   Forall (fun q => exists k, In k a /\ pay q = pay k /\ lo k <= lo q /\ lo q < hi q /\ hi q <= hi k)
          (subtract a b)) /\
  (valid b -> forall k : @row A, sorted_disjoint (subtract_row k (filter (overlaps (lo k) (hi k)) b))) /\
  subtract a b = flat_map (fun k => subtract_row k (filter (overlaps (lo k) (hi k)) b)) a.
Proof.
  intros A B a b Hs. split; [|split; [|split]].
  - intros z. apply subtract_covers. exact Hs.
  - apply subtract_pieces.
  - intros Hv k. apply subtract_row_pieces_sorted. exact Hv.
  - reflexivity.
Qed.

Lemma c06_merge : forall (A : Type) (comb : A -> list A -> A) (whole : list (@row A)) (sel : @row A -> bool),
  valid whole ->
  let t := filter sel whole in
  let m := merge_sel comb Gen.IvDefaults.ga_merge_bp_default
                     (all_gaps Gen.IvDefaults.ga_merge_bp_default whole) t in
  (forall z, covers m z <-> covers t z) /\ sorted_separated m /\ valid m.
Proof.
  intros A comb whole sel Hv t m.
  destruct (merge_sel_spec comb 0 whole sel) as (H1 & H2 & H3); [lia|].
  split; [exact H1|]. split; [apply overlap_below_0_separated; exact H2 | exact (H3 Hv)].
Qed.

Lemma c06_merge_bp : forall (A : Type) (comb : A -> list A -> A) (bp : Z) (whole : list (@row A))
                            (sel : @row A -> bool),
  0 <= bp ->
  let t := filter sel whole in
  let m := merge_sel comb bp (all_gaps bp whole) t in
  (forall z, covers m z <-> covers t z) /\ overlap_below bp m /\ (valid whole -> valid m).
Proof. intros A comb bp whole sel Hbp. apply merge_sel_spec. exact Hbp. Qed.

Lemma c06_intersect_trim : forall (A B : Type) (a : list (@row A)) (b : list (@row B)),
  nonneg a -> nonneg b -> valid a -> valid b ->
  (forall z, covers (intersect_trim a b) z <-> covers a z /\ covers b z) /\
  Forall (fun p => exists k, In k a /\ pay p = pay k /\ lo k <= lo p /\ lo p < hi p /\ hi p <= hi k)
         (intersect_trim a b).
Proof.
  intros A B a b Ha Hb Hva Hvb. split.
  - intros z. apply intersect_trim_covers; auto.
  - apply intersect_trim_pieces; auto.
Qed.

(* nothing in common: the result has no rows at all (in particular no error) *)
Lemma c06_intersect_trim_disjoint : forall (A B : Type) (a : list (@row A)) (b : list (@row B)),
  nonneg a -> nonneg b -> valid a -> valid b ->
  (forall z, ~ (covers a z /\ covers b z)) -> intersect_trim a b = [].
Proof.
  intros A B a b Ha Hb Hva Hvb Hd.
  destruct (intersect_trim a b) as [|p l] eqn:E; [reflexivity|]. exfalso.
  pose proof (intersect_trim_pieces a b Ha Hb Hva Hvb) as Hp. rewrite E in Hp.
  inversion Hp as [|? ? (k & Hk & _ & H1 & H2 & H3) _]; subst.
  apply (Hd (lo p)). apply (intersect_trim_covers a b (lo p) Ha Hb Hvb).
  rewrite E. exists p. split; [left; reflexivity | lia].
Qed.

Lemma c06_resize : forall (A : Type) (bp : Z) (size : option Z) (t : list (@row A)),
  let mv := fun r : @row A => (clip_to size (lo r - bp), clip_to size (hi r + bp), pay r) in
  (0 <= bp -> resize bp size t = map mv t) /\
  (bp < 0 -> resize bp size t = filter (fun r => lo r <? hi r) (map mv t)).
Proof. intros A bp size t. apply resize_spec. Qed.

Lemma c06_resize_clip : forall s x : Z,
  0 <= s ->
  0 <= clip_to (Some s) x <= s /\
  (0 <= x <= s -> clip_to (Some s) x = x) /\
  (x <= 0 -> clip_to (Some s) x = 0) /\
  (s <= x -> clip_to (Some s) x = s).
Proof. exact clip_to_range. Qed.

Lemma c06_subdivide : forall (A : Type) (comb : A -> list A -> A) (avg mn : Z) (cut : Z -> Z -> Z -> Z)
                             (whole : list (@row A)) (sel : @row A -> bool),
  0 < avg -> (forall span n, cut_contract span n (cut span n)) -> valid whole ->
  let t := filter sel whole in
  exists m : list (@row A),
    (forall z, covers m z <-> covers t z) /\ sorted_separated m /\ valid m /\
    subdivide_sel comb avg mn cut (all_gaps Gen.IvDefaults.merge_bp_default whole) t
      = flat_map (split_row avg mn cut) m /\
    Forall (fun r =>
      let span := hi r - lo r in
      let n := Z.max 1 (round_div span avg) in
      is_round_half_even span avg (round_div span avg) /\
      (span < mn -> split_row avg mn cut r = []) /\
      (mn <= span ->
         let out := split_row avg mn cut r in
         Z.of_nat (length out) = n /\ tiles (lo r) (hi r) out /\
         Forall (fun b => pay b = pay r /\ span - n <= n * (hi b - lo b) <= span + n) out)) m.
Proof. intros A comb avg mn cut whole sel. apply subdivide_sel_spec. Qed.

Lemma c06_total_size : forall (A : Type) (comb : A -> list A -> A) (whole : list (@row A))
                              (sel : @row A -> bool) (a : Z) (n : nat),
  valid whole ->
  let t := filter sel whole in
  Forall (fun r => a <= lo r /\ hi r <= a + Z.of_nat n) t ->
  total_sel comb (all_gaps Gen.IvDefaults.total_size_bp whole) t = count_covered t a n.
Proof. intros A comb whole sel a n. apply total_sel_spec. Qed.

Lemma c06_flatten : forall (A : Type) (comb : A -> list A -> A) (whole : list (@row A)) (sel : @row A -> bool),
  valid whole ->
  let t := filter sel whole in
  let fl := flatten_sel comb (no_overlap whole) t in
  (forall z, covers fl z <-> covers t z) /\ sorted_disjoint fl /\ valid fl /\
  (forall y p, boundary t y -> In p fl -> ~ (lo p < y < hi p)).
Proof. intros A comb whole sel. apply flatten_sel_spec. Qed.
