(* C02 source tie of the threshold scan: ONE ITERATION of absolute_threshold's

       for cnum, thresh in enumerate(thresholds):
           if row.log2 <= thresh:
               if ref_copies != ploidy:
                   cnum = int(cnum * ref_copies / ploidy)
               break
       else:
           cnum = int(np.ceil(_log2_ratio_to_absolute_pure(row.log2, ref_copies)))

   is regenerated from the Python source on every run as Gen/FnCallScan.v
   (fn_threshold_step : new cnum, left-the-loop flag; fn_threshold_else : the for/else
   fallback).  Here: one step of the hand-written recursion Model/Threshold.v scan_loop IS
   the generated step, and folding the generated step over enumerate(thresholds) -- stop at
   the first step that answers `true`, the fallback when none does -- IS scan_row, for every
   threshold list.

   The generated step reads `cnum * ref_copies / ploidy` exactly (Qdiv of the two ints);
   scan_loop carries Python's float quotient as the oracle fdiv.  With fdiv := exact_div the
   tie is unconditional; for any fdiv meeting fdiv_contract it holds where
   C02_float_quotient (Proofs/CallScan.v float_quotient) applies: 0 <= cnum * ref_copies < 2^53
   and 0 < ploidy. *)
From Coq Require Import Qround Qabs.
From CNV Require Import Base.Prelude Base.Str Base.QNum Gen.CallDefaults Gen.FnCallScan
  Model.Call Model.Threshold Proofs.CallScan.
From Coq Require Import Lqa.

Local Open Scope Z_scope.

(* ---------------------------------------------------------------- the for / else driver *)

(* Python's `for cnum, thresh in pairs: <body> [break]  else: <fallback>` over a step function
   that answers (cnum after the iteration, whether the loop was left by `break`):
   each iteration rebinds cnum from the enumeration, so a cnum carried out of an iteration
   that did not break is overwritten -- by the next binding or by the else clause *)
Fixpoint for_else (step : Z -> Q -> Z * bool) (fallback : Z) (pairs : list (Z * Q)) : Z :=
  match pairs with
  | [] => fallback
  | (cnum, thresh) :: rest =>
      let '(c, brk) := step cnum thresh in
      if brk then c else for_else step fallback rest
  end.

(* one step of the hand-written recursion, in the same shape: what scan_loop does with the
   head pair -- the value it stops with, or go on *)
Definition scan_step (fdiv : Z -> Z -> Q) (v : Q) (k r : Z) (cnum : Z) (thresh : Q) : Z * bool :=
  if Qle_bool v thresh
  then ((if negb (r =? k) then trunc_Q (fdiv (cnum * r) k) else cnum), true)
  else (cnum, false).

Lemma scan_loop_unfold fdiv v e k r cnum thresh rest :
  scan_loop fdiv v e k r ((cnum, thresh) :: rest)
  = let '(c, brk) := scan_step fdiv v k r cnum thresh in
    if brk then c else scan_loop fdiv v e k r rest.
Proof. unfold scan_step. cbn [scan_loop]. destruct (Qle_bool v thresh); reflexivity. Qed.

Lemma scan_loop_for_else fdiv v e k r pairs :
  scan_loop fdiv v e k r pairs
  = for_else (scan_step fdiv v k r) (trunc_Q (inject_Z (Qceiling (abs_pure e r)))) pairs.
Proof.
  induction pairs as [|[cnum thresh] rest IH]; [reflexivity|].
  rewrite scan_loop_unfold. cbn [for_else].
  destruct (scan_step fdiv v k r cnum thresh) as [c brk]. destruct brk; [reflexivity | exact IH].
Qed.

(* ---------------------------------------------------------------- truncation is a function of the value *)

Lemma trunc_Q_comp p q : (p == q)%Q -> trunc_Q p = trunc_Q q.
Proof.
  intro E. unfold trunc_Q.
  assert (B : Qle_bool 0 p = Qle_bool 0 q).
  { destruct (Qle_bool 0 p) eqn:Ep, (Qle_bool 0 q) eqn:Eq; try reflexivity.
    - apply Qle_bool_iff in Ep. rewrite E in Ep. apply Qle_bool_iff in Ep. congruence.
    - apply Qle_bool_iff in Eq. rewrite <- E in Eq. apply Qle_bool_iff in Eq. congruence. }
  rewrite B. destruct (Qle_bool 0 q); [apply Qfloor_comp | apply Qceiling_comp]; exact E.
Qed.

(* the translator's spelling of int(): let t := q in if 0 <= t then floor t else ceil t *)
Lemma fn_trunc_eq q : (if Qle_bool 0 q then floorQ q else ceilQ q) = trunc_Q q.
Proof. reflexivity. Qed.

(* ---------------------------------------------------------------- one step *)

(* with the exact quotient: unconditional *)
Lemma fn_threshold_step_exact v k r cnum thresh :
  scan_step exact_div v k r cnum thresh = fn_threshold_step cnum thresh v r k.
Proof.
  unfold scan_step, fn_threshold_step. destruct (Qle_bool v thresh); [|reflexivity].
  destruct (negb (r =? k)); [|reflexivity].
  cbv zeta. rewrite fn_trunc_eq. f_equal. apply trunc_Q_comp. apply exact_div_eq.
Qed.

(* with Python's float quotient, where C02_float_quotient applies *)
Lemma fn_threshold_step_float fdiv v k r cnum thresh :
  fdiv_contract fdiv -> 0 <= cnum * r -> cnum * r < 2 ^ 53 -> 0 < k ->
  scan_step fdiv v k r cnum thresh = fn_threshold_step cnum thresh v r k.
Proof.
  intros Hc Ha Ha53 Hk. rewrite <- fn_threshold_step_exact. unfold scan_step.
  destruct (Qle_bool v thresh); [|reflexivity]. destruct (negb (r =? k)); [|reflexivity].
  f_equal.
  rewrite (proj1 (float_quotient fdiv (cnum * r) k Hc Ha Ha53 Hk)).
  rewrite (proj1 (float_quotient exact_div (cnum * r) k exact_div_contract Ha Ha53 Hk)). reflexivity.
Qed.

(* stated on scan_loop itself: what the recursion does with the head pair is the generated step *)
Lemma scan_loop_step_exact v e k r cnum thresh rest :
  scan_loop exact_div v e k r ((cnum, thresh) :: rest)
  = let '(c, brk) := fn_threshold_step cnum thresh v r k in
    if brk then c else scan_loop exact_div v e k r rest.
Proof. rewrite scan_loop_unfold, fn_threshold_step_exact. reflexivity. Qed.

Lemma scan_loop_step_float fdiv v e k r cnum thresh rest :
  fdiv_contract fdiv -> 0 <= cnum * r -> cnum * r < 2 ^ 53 -> 0 < k ->
  scan_loop fdiv v e k r ((cnum, thresh) :: rest)
  = let '(c, brk) := fn_threshold_step cnum thresh v r k in
    if brk then c else scan_loop fdiv v e k r rest.
Proof. intros Hc Ha Hb Hk. rewrite scan_loop_unfold, (fn_threshold_step_float fdiv v k r cnum thresh Hc Ha Hb Hk). reflexivity. Qed.

Lemma source_scan_step :
  (forall v e k r cnum thresh rest,
     scan_loop exact_div v e k r ((cnum, thresh) :: rest)
     = let '(c, brk) := fn_threshold_step cnum thresh v r k in
       if brk then c else scan_loop exact_div v e k r rest) /\
  (forall fdiv v e k r cnum thresh rest,
     fdiv_contract fdiv -> 0 <= cnum * r -> cnum * r < 2 ^ 53 -> 0 < k ->
     scan_loop fdiv v e k r ((cnum, thresh) :: rest)
     = let '(c, brk) := fn_threshold_step cnum thresh v r k in
       if brk then c else scan_loop fdiv v e k r rest).
Proof. split; [exact scan_loop_step_exact | exact scan_loop_step_float]. Qed.

(* ---------------------------------------------------------------- the else clause *)

Lemma fn_threshold_else_eq (exp2 : Q -> Q) v r :
  fn_threshold_else exp2 v r = trunc_Q (inject_Z (Qceiling (abs_pure (exp2 v) r))).
Proof.
  unfold fn_threshold_else, fn_scan_abs_pure. cbv zeta. rewrite fn_trunc_eq.
  apply trunc_Q_comp. unfold ceilQ. rewrite (Qceiling_comp _ (abs_pure (exp2 v) r)); [reflexivity|].
  unfold abs_pure. rewrite Qred_correct. reflexivity.
Qed.

(* ---------------------------------------------------------------- the whole scan *)

Lemma for_else_ext step1 step2 fallback pairs :
  (forall c t, In (c, t) pairs -> step1 c t = step2 c t) ->
  for_else step1 fallback pairs = for_else step2 fallback pairs.
Proof.
  induction pairs as [|[c t] rest IH]; intro H; [reflexivity|].
  cbn [for_else]. rewrite (H c t (or_introl eq_refl)).
  destruct (step2 c t) as [c' brk]. destruct brk; [reflexivity|].
  apply IH. intros c0 t0 Hin. apply H. right. exact Hin.
Qed.

Lemma enumerate_from_index i0 ts c t :
  In (c, t) (enumerate_from i0 ts) -> i0 <= c < i0 + Z.of_nat (length ts).
Proof.
  revert i0. induction ts as [|x rest IH]; intros i0 H; [destruct H|].
  cbn [enumerate_from length] in *. destruct H as [E | H].
  - inversion E; subst. lia.
  - apply IH in H. lia.
Qed.

(* the threshold scan of one row with a log2 value: the generated step folded over
   enumerate(thresholds), the generated fallback after it -- for every threshold list *)
Theorem source_scan (exp2 : Q -> Q) v ts k r :
  scan_row exact_div (Some v) (exp2 v) ts k r
  = for_else (fun cnum thresh => fn_threshold_step cnum thresh v r k) (fn_threshold_else exp2 v r)
             (enumerate_from 0 ts).
Proof.
  unfold scan_row. rewrite scan_loop_for_else, fn_threshold_else_eq.
  apply for_else_ext. intros c t _. apply fn_threshold_step_exact.
Qed.

(* the same for Python's float quotient under its contract, where the dividends stay below 2^53 *)
Theorem source_scan_float (exp2 : Q -> Q) fdiv :
  fdiv_contract fdiv ->
  forall v ts k r, 0 <= r -> 0 < k -> Z.of_nat (length ts) * r <= 2 ^ 53 ->
    scan_row fdiv (Some v) (exp2 v) ts k r
    = for_else (fun cnum thresh => fn_threshold_step cnum thresh v r k) (fn_threshold_else exp2 v r)
               (enumerate_from 0 ts).
Proof.
  intros Hc v ts k r Hr Hk Hsz. unfold scan_row. rewrite scan_loop_for_else, fn_threshold_else_eq.
  apply for_else_ext. intros c t Hin. apply enumerate_from_index in Hin.
  apply fn_threshold_step_float; [exact Hc | nia | | exact Hk].
  assert (c * r <= (Z.of_nat (length ts) - 1) * r) by nia.
  destruct (Z.eq_dec r 0) as [-> | Rn]; [rewrite Z.mul_0_r; reflexivity | nia].
Qed.

(* a row without a log2 value never enters the loop *)
Lemma source_scan_nan fdiv e ts k r : scan_row fdiv None e ts k r = r.
Proof. reflexivity. Qed.

(* both readings of the quotient in one statement *)
Lemma source_scan_all (exp2 : Q -> Q) :
  (forall v ts k r,
     scan_row exact_div (Some v) (exp2 v) ts k r
     = for_else (fun cnum thresh => fn_threshold_step cnum thresh v r k) (fn_threshold_else exp2 v r)
                (enumerate_from 0 ts)) /\
  (forall fdiv, fdiv_contract fdiv ->
   forall v ts k r, 0 <= r -> 0 < k -> Z.of_nat (length ts) * r <= 2 ^ 53 ->
     scan_row fdiv (Some v) (exp2 v) ts k r
     = for_else (fun cnum thresh => fn_threshold_step cnum thresh v r k) (fn_threshold_else exp2 v r)
                (enumerate_from 0 ts)).
Proof. split; [exact (source_scan exp2) | exact (source_scan_float exp2)]. Qed.
