(* Proofs for C16, part 4: breaks lists exactly the genes with at least min_probes bin
   starts on each side of a boundary between two consecutive segments of a chromosome. *)
From Coq Require Import Qabs.
From CNV Require Import Base.Prelude Base.Str Gen.Params Gen.GenesDefaults
  Model.Genes Spec.Genes Proofs.GenesMap Proofs.Genes Proofs.GenesReports.

Local Open Scope nat_scope.

(* ---- grouping bins by their whole name (gene_probes[chrom][str(row.gene)]) -------------
   the same fold as by_chromosome with the name as key; the lemmas below are those of
   Proofs/Genes.v for chrom_add, transcribed *)

Definition iv_groups (rows : list bin) : list (string * list bin) :=
  fold_left (fun m b => iv_add b m) rows [].

Lemma iv_add_names b m :
  cnames (iv_add b m) =
  if mem_string (b_gene b) (cnames m) then cnames m else cnames m ++ [b_gene b].
Proof.
  unfold cnames.
  induction m as [|[c l] t IH]; [reflexivity|].
  cbn [iv_add map mem_string fst].
  destruct (String.eqb (b_gene b) c) eqn:E; cbn [orb].
  - reflexivity.
  - cbn [map fst]. rewrite IH. destruct (mem_string (b_gene b) (map fst t)); reflexivity.
Qed.

Lemma iv_add_in b m c l :
  NoDup (cnames m) -> In (c, l) (iv_add b m) ->
  (c <> b_gene b /\ In (c, l) m) \/
  (c = b_gene b /\ ((exists l0, In (c, l0) m /\ l = l0 ++ [b]) \/ (l = [b] /\ ~ In c (cnames m)))).
Proof.
  induction m as [|[c0 l0] t IH]; intros Hnd Hin; cbn [iv_add] in Hin.
  - destruct Hin as [Heq|[]]. inversion Heq; subst. right. split; auto.
  - cbn [cnames map fst] in Hnd. inversion Hnd as [|? ? Hnot Hnd']; subst.
    destruct (String.eqb (b_gene b) c0) eqn:E.
    + apply String.eqb_eq in E; subst c0.
      destruct Hin as [Heq|Hin].
      * inversion Heq; subst. right. split; auto. left. exists l0. split; [left|]; reflexivity.
      * left. split; [|right; assumption].
        intros ->. apply Hnot. apply in_map_iff. exists (b_gene b, l). auto.
    + apply String.eqb_neq in E.
      destruct Hin as [Heq|Hin].
      * inversion Heq; subst. left. split; [congruence | left; reflexivity].
      * destruct (IH Hnd' Hin) as [[Hne Hin']|(-> & Hcase)].
        -- left. split; [assumption | right; assumption].
        -- right. split; auto. destruct Hcase as [(l1 & Hl1 & ->)|[-> Hni]].
           ++ left. exists l1. split; [right; assumption | reflexivity].
           ++ right. split; auto. cbn [cnames map In fst].
              intros [Heq|Hin']; [congruence | contradiction].
Qed.

Record iv_inv (p : list bin) (m : list (string * list bin)) : Prop := {
  ii_nodup : NoDup (cnames m);
  ii_rows : forall c l, In (c, l) m -> l = gene_rows c p /\ l <> [];
  ii_cover : forall x, In x p -> In (b_gene x) (cnames m) }.

Lemma gene_rows_snoc c p b :
  gene_rows c (p ++ [b]) = gene_rows c p ++ (if String.eqb (b_gene b) c then [b] else []).
Proof. unfold gene_rows. rewrite filter_app. reflexivity. Qed.

Lemma iv_inv_step p m b : iv_inv p m -> iv_inv (p ++ [b]) (iv_add b m).
Proof.
  intros [Hnd Hrows Hcov]. constructor.
  - rewrite iv_add_names. destruct (mem_string (b_gene b) (cnames m)) eqn:E; [assumption|].
    apply mem_string_notIn in E. apply NoDup_app_snoc; assumption.
  - intros c l Hin. rewrite gene_rows_snoc.
    destruct (iv_add_in _ _ _ _ Hnd Hin) as [[Hne Hin']|(-> & Hcase)].
    + destruct (Hrows _ _ Hin') as [-> Hnil]. split; [|assumption].
      destruct (String.eqb (b_gene b) c) eqn:E; [|rewrite app_nil_r; reflexivity].
      apply String.eqb_eq in E. congruence.
    + rewrite String.eqb_refl. destruct Hcase as [(l0 & Hl0 & ->)|[-> Hni]].
      * destruct (Hrows _ _ Hl0) as [-> Hnil]. split; [reflexivity|].
        destruct (gene_rows (b_gene b) p); discriminate.
      * split; [|discriminate].
        replace (gene_rows (b_gene b) p) with (@nil bin); [reflexivity|].
        unfold gene_rows. symmetry.
        destruct (filter (fun x => String.eqb (b_gene x) (b_gene b)) p) as [|x r] eqn:Ef; [reflexivity|].
        exfalso. assert (Hx : In x (filter (fun x => String.eqb (b_gene x) (b_gene b)) p))
          by (rewrite Ef; left; reflexivity).
        apply filter_In in Hx as [Hx Hc]. apply String.eqb_eq in Hc.
        apply Hni. rewrite <- Hc. apply Hcov. assumption.
  - intros x Hx. rewrite iv_add_names.
    apply in_app_iff in Hx as [Hx|[<-|[]]].
    + specialize (Hcov _ Hx).
      destruct (mem_string (b_gene b) (cnames m)); [assumption | apply in_app_iff; left; assumption].
    + destruct (mem_string (b_gene b) (cnames m)) eqn:E; [apply mem_string_In; assumption|].
      apply in_app_iff; right; left; reflexivity.
Qed.

Lemma iv_fold_inv rest : forall p m,
  iv_inv p m -> iv_inv (p ++ rest) (fold_left (fun m b => iv_add b m) rest m).
Proof.
  induction rest as [|b r IH]; intros p m Hinv; cbn [fold_left].
  - rewrite app_nil_r. exact Hinv.
  - replace (p ++ b :: r) with ((p ++ [b]) ++ r) by (rewrite <- app_assoc; reflexivity).
    apply IH. apply iv_inv_step. assumption.
Qed.

Lemma iv_groups_inv rows : iv_inv rows (iv_groups rows).
Proof.
  apply (iv_fold_inv rows [] []). constructor; cbn; try constructor; intros; contradiction.
Qed.

(* every group of by_chromosome is the non-empty list of that chromosome's rows, in table order *)
Lemma iv_groups_rows rows c l :
  In (c, l) (iv_groups rows) -> l = gene_rows c rows /\ l <> [].
Proof. apply (ii_rows _ _ (iv_groups_inv rows)). Qed.

Lemma iv_groups_cover rows x :
  In x rows -> exists l, In (b_gene x, l) (iv_groups rows).
Proof.
  intros Hx. pose proof (ii_cover _ _ (iv_groups_inv rows) x Hx) as Hin.
  apply in_map_iff in Hin as ([c l] & Hc & Hin). cbn [fst] in Hc. subst c. eauto.
Qed.

Lemma iv_groups_nodup rows : NoDup (map fst (iv_groups rows)).
Proof. apply (ii_nodup _ _ (iv_groups_inv rows)). Qed.

Lemma iv_groups_iff rows g l :
  In (g, l) (iv_groups rows) <-> l = gene_rows g rows /\ l <> [].
Proof.
  split; [apply iv_groups_rows|]. intros [-> Hne].
  destruct (gene_rows g rows) as [|x r] eqn:E; [congruence|].
  assert (Hx : In x (gene_rows g rows)) by (rewrite E; left; reflexivity).
  unfold gene_rows in Hx. apply filter_In in Hx as [Hx Hc]. apply String.eqb_eq in Hc.
  destruct (iv_groups_cover _ _ Hx) as [l' Hl']. rewrite Hc in Hl'.
  destruct (iv_groups_rows _ _ _ Hl') as [Heq _]. rewrite <- E, <- Heq. exact Hl'.
Qed.

(* ---- the sorts keep the elements ----------------------------------------------------------- *)

Lemma ins_b_in x l k : In k (ins_b x l) <-> k = x \/ In k l.
Proof.
  induction l as [|y t IH]; cbn [ins_b].
  - cbn. intuition.
  - destruct (bkey_ge x y); cbn [In]; [intuition|]. rewrite IH. intuition.
Qed.

Lemma sort_b_in l k : In k (sort_b l) <-> In k l.
Proof.
  unfold sort_b. induction l as [|x t IH]; cbn [fold_right]; [reflexivity|].
  rewrite ins_b_in, IH. cbn [In]. intuition.
Qed.

Lemma ins_iv_in x l k : In k (ins_iv x l) <-> k = x \/ In k l.
Proof.
  induction l as [|y t IH]; cbn [ins_iv].
  - cbn. intuition.
  - destruct (lex_le (snd (fst x)) (snd (fst y))); cbn [In]; [intuition|]. rewrite IH. intuition.
Qed.

Lemma sort_iv_in l k : In k (sort_iv l) <-> In k l.
Proof.
  unfold sort_iv. induction l as [|x t IH]; cbn [fold_right]; [reflexivity|].
  rewrite ins_iv_in, IH. cbn [In]. intuition.
Qed.

Lemma countb_insZ p x l : countb p (insZ x l) = countb p (x :: l).
Proof.
  induction l as [|y t IH]; cbn [insZ]; [reflexivity|].
  destruct (x <=? y)%Z; [reflexivity|].
  rewrite countb_cons, IH, !countb_cons. destruct (p x), (p y); reflexivity.
Qed.

Lemma countb_sortZ p l : countb p (sortZ l) = countb p l.
Proof.
  unfold sortZ. induction l as [|x t IH]; cbn [fold_right]; [reflexivity|].
  rewrite countb_insZ, !countb_cons, IH. reflexivity.
Qed.

Lemma insZ_in x l y : In y (insZ x l) <-> y = x \/ In y l.
Proof.
  induction l as [|z t IH]; cbn [insZ].
  - cbn. intuition.
  - destruct (x <=? z)%Z; cbn [In]; [intuition|]. rewrite IH. intuition.
Qed.

Lemma sortZ_in l y : In y (sortZ l) <-> In y l.
Proof.
  unfold sortZ. induction l as [|x t IH]; cbn [fold_right]; [reflexivity|].
  rewrite insZ_in, IH. cbn [In]. intuition.
Qed.

Lemma insZ_sorted x l : StronglySorted Z.le l -> StronglySorted Z.le (insZ x l).
Proof.
  induction l as [|y t IH]; intros Hs; cbn [insZ].
  - constructor; constructor.
  - inversion Hs as [|? ? Ht Hy]; subst.
    destruct (x <=? y)%Z eqn:E.
    + apply Z.leb_le in E. constructor; [assumption|].
      constructor; [assumption|]. rewrite Forall_forall in *. intros z Hz. specialize (Hy z Hz). lia.
    + apply Z.leb_gt in E. constructor; [apply IH; assumption|].
      apply Forall_forall. intros z Hz. apply insZ_in in Hz as [->|Hz]; [lia|].
      rewrite Forall_forall in Hy. apply Hy. assumption.
Qed.

Lemma sortZ_sorted l : StronglySorted Z.le (sortZ l).
Proof.
  unfold sortZ. induction l as [|x t IH]; cbn [fold_right]; [constructor|].
  apply insZ_sorted. assumption.
Qed.

Lemma hd_sortZ_le l y : In y l -> (hd 0%Z (sortZ l) <= y)%Z.
Proof.
  intros Hy. apply sortZ_in in Hy. pose proof (sortZ_sorted l) as Hs.
  destruct (sortZ l) as [|x t]; [destruct Hy|]. cbn [hd].
  inversion Hs as [|? ? _ Hx]; subst. destruct Hy as [->|Hy]; [lia|].
  rewrite Forall_forall in Hx. apply Hx. assumption.
Qed.

Lemma fold_max_ge l : forall a, (a <= fold_left Z.max l a)%Z /\ forall x, In x l -> (x <= fold_left Z.max l a)%Z.
Proof.
  induction l as [|y t IH]; intros a; cbn [fold_left]; [split; [lia | intros x []]|].
  destruct (IH (Z.max a y)) as [H1 H2]. split; [lia|].
  intros x [->|Hx]; [lia | apply H2; assumption].
Qed.

Lemma maxZ_ge l x : In x l -> (x <= maxZ l)%Z.
Proof.
  destruct l as [|y t]; [intros []|]. cbn [maxZ]. destruct (fold_max_ge t y) as [H1 H2].
  intros [->|Hx]; [assumption | apply H2; assumption].
Qed.

Lemma countb_map {A B} (f : A -> B) (p : B -> bool) l : countb p (map f l) = countb (fun x => p (f x)) l.
Proof.
  induction l as [|x t IH]; [reflexivity|]. cbn [map]. rewrite !countb_cons, IH. reflexivity.
Qed.

Lemma countb_pos {A} (p : A -> bool) l : 0 < countb p l -> exists x, In x l /\ p x = true.
Proof.
  unfold countb. destruct (filter p l) as [|x r] eqn:E; cbn [length]; [lia|]. intros _.
  assert (Hx : In x (filter p l)) by (rewrite E; left; reflexivity).
  apply filter_In in Hx. exists x. exact Hx.
Qed.

(* ---- gene intervals --------------------------------------------------------------------------- *)

Lemma gene_rows_filter_real ign g crows :
  gene_rows g (filter (fun b => negb (mem_string (b_gene b) ign)) crows) =
  if mem_string g ign then [] else gene_rows g crows.
Proof.
  unfold gene_rows. induction crows as [|b t IH]; [cbn; destruct (mem_string g ign); reflexivity|].
  cbn [filter]. destruct (String.eqb (b_gene b) g) eqn:E.
  - apply String.eqb_eq in E. subst g.
    destruct (mem_string (b_gene b) ign) eqn:Eb; cbn [negb].
    + rewrite IH. reflexivity.
    + cbn [filter]. rewrite String.eqb_refl, IH. reflexivity.
  - destruct (mem_string (b_gene b) ign); cbn [negb filter]; [exact IH|]. rewrite E. exact IH.
Qed.

Lemma gene_intervals_chrom_in ign crows g starts gend :
  In (g, starts, gend) (gene_intervals_chrom ign crows) <->
  mem_string g ign = false /\ gene_rows g crows <> [] /\
  starts = sortZ (map b_start (gene_rows g crows)) /\ gend = maxZ (map b_end (gene_rows g crows)).
Proof.
  unfold gene_intervals_chrom. rewrite sort_iv_in, in_map_iff.
  change (fold_left (fun m b => iv_add b m) (filter (fun b => negb (mem_string (b_gene b) ign)) crows) [])
    with (iv_groups (filter (fun b => negb (mem_string (b_gene b) ign)) crows)). split.
  - intros ([g' l] & Heq & Hin). cbn [fst snd] in Heq. inversion Heq; subst.
    apply iv_groups_iff in Hin as [Hl Hne]. rewrite gene_rows_filter_real in Hl.
    destruct (mem_string g ign); [congruence|]. subst l. auto.
  - intros (Hg & Hne & -> & ->). exists (g, gene_rows g crows). split; [reflexivity|].
    apply iv_groups_iff. rewrite gene_rows_filter_real, Hg. auto.
Qed.

(* ---- breakpoints ---------------------------------------------------------------------------------- *)

Lemma breakpoints_raw_in ivs mp segs k :
  In k (breakpoints_raw ivs mp segs) <->
  exists cur next, adjacent cur next segs /\ b_chr next = b_chr cur /\
                   exists iv, In iv (ivs (b_chr cur)) /\ In k (break_at mp cur next iv).
Proof.
  induction segs as [|cur t IH]; cbn [breakpoints_raw].
  - split; [intros []|]. intros (c & n & (l1 & l2 & H) & _). destruct l1; discriminate.
  - destruct t as [|next t'].
    + split; [intros []|]. intros (c & n & (l1 & l2 & H) & _).
      destruct l1 as [|? [|? ?]]; discriminate.
    + rewrite in_app_iff, IH. split.
      * intros [Hin|(c & n & (l1 & l2 & Heq) & Hrest)].
        -- destruct (String.eqb (b_chr next) (b_chr cur)) eqn:E; [|destruct Hin].
           apply String.eqb_eq in E. apply in_flat_map in Hin as (iv & Hiv & Hk).
           exists cur, next. split; [exists [], t'; reflexivity|]. split; [assumption|]. eauto.
        -- exists c, n. split; [exists (cur :: l1), l2; rewrite Heq; reflexivity | exact Hrest].
      * intros (c & n & (l1 & l2 & Heq) & Hc & iv & Hiv & Hk).
        destruct l1 as [|x l1'].
        -- cbn [app] in Heq. inversion Heq; subst. left.
           rewrite Hc, String.eqb_refl. apply in_flat_map. eauto.
        -- cbn [app] in Heq. injection Heq as _ Hrest. right.
           exists c, n. split; [exists l1', l2; exact Hrest|]. eauto.
Qed.

Lemma gene_intervals_eq ignore rows c :
  gene_intervals ignore rows c = gene_intervals_chrom (full_ignore ignore) (chrom_rows c rows).
Proof. reflexivity. Qed.

Lemma do_breaks_spec rows segs mp k :
  (1 <= mp)%Z -> (forall b, In b rows -> (b_start b < b_end b)%Z) ->
  (In k (do_breaks rows segs mp) <-> break_row rows segs mp k).
Proof.
  intros Hmp Hpos. unfold do_breaks, break_row. rewrite sort_b_in, breakpoints_raw_in.
  assert (Hcount : forall (own : list bin) (e : Z),
     countb (fun s => (s <? e)%Z) (sortZ (map b_start own)) = countb (fun b => (b_start b <? e)%Z) own /\
     countb (fun s => (e <=? s)%Z) (sortZ (map b_start own)) = countb (fun b => (e <=? b_start b)%Z) own).
  { intros own e. rewrite !countb_sortZ, !countb_map. auto. }
  split.
  - intros (cur & next & Hadj & Hc & [[g starts] gend] & Hiv & Hk).
    rewrite gene_intervals_eq in Hiv.
    apply gene_intervals_chrom_in in Hiv as (Hg & Hne & -> & ->).
    unfold break_at in Hk. cbv beta iota zeta in Hk. destruct (Hcount (gene_rows g (chrom_rows (b_chr cur) rows)) (b_end cur)) as [Hl Hr].
    rewrite Hl, Hr in Hk.
    destruct ((hd 0%Z (sortZ (map b_start (gene_rows g (chrom_rows (b_chr cur) rows)))) <? b_end cur)%Z &&
              (b_end cur <? maxZ (map b_end (gene_rows g (chrom_rows (b_chr cur) rows))))%Z); [|destruct Hk].
    match type of Hk with In _ (if ?c then _ else _) => destruct c eqn:Ec end; [|destruct Hk].
    destruct Hk as [<-|[]]. apply andb_true_iff in Ec as [E1 E2]. apply Z.leb_le in E1, E2.
    exists cur, next, g. split; [assumption|]. split; [assumption|]. split; [exact Hg|].
    split; [exact Hne|]. split; [exact E1|]. split; [exact E2|]. reflexivity.
  - intros (cur & next & g & Hadj & Hc & Hg & Hne & Hl & Hr & ->).
    set (own := gene_bins (b_chr cur) g rows) in *.
    exists cur, next. split; [assumption|]. split; [assumption|].
    exists (g, sortZ (map b_start own), maxZ (map b_end own)). split.
    + rewrite gene_intervals_eq. apply gene_intervals_chrom_in. auto.
    + unfold break_at. cbv beta iota zeta. destruct (Hcount own (b_end cur)) as [Hcl Hcr]. rewrite Hcl, Hcr.
      assert (Hown : forall b, In b own -> (b_start b < b_end b)%Z).
      { intros b Hb. apply Hpos. unfold own, gene_bins, chrom_rows in Hb.
        apply filter_In in Hb as [Hb _]. apply filter_In in Hb as [Hb _]. exact Hb. }
      assert (G1 : (hd 0%Z (sortZ (map b_start own)) <? b_end cur)%Z = true).
      { destruct (countb_pos (fun b => (b_start b <? b_end cur)%Z) own ltac:(lia)) as (b & Hb & Hlt).
        apply Z.ltb_lt in Hlt. apply Z.ltb_lt.
        pose proof (hd_sortZ_le (map b_start own) (b_start b) (in_map _ _ _ Hb)). lia. }
      assert (G2 : (b_end cur <? maxZ (map b_end own))%Z = true).
      { destruct (countb_pos (fun b => (b_end cur <=? b_start b)%Z) own ltac:(lia)) as (b & Hb & Hge).
        apply Z.leb_le in Hge. apply Z.ltb_lt.
        pose proof (maxZ_ge (map b_end own) (b_end b) (in_map _ _ _ Hb)).
        pose proof (Hown b Hb). lia. }
      rewrite G1, G2. cbn [andb].
      apply Z.leb_le in Hl, Hr. rewrite Hl, Hr. cbn [andb]. left. reflexivity.
Qed.
