(* C19 -- Savitzky-Golay (unweighted): one output per input; a constant signal is
   reproduced by every window / edge-fit row summing to 1 (the oracle contract of
   scipy's savgol_coeffs and of the polynomial edge fit of savgol_filter). *)
From CNV Require Import Base.Prelude Base.QNum Proofs.QNumLemmas Gen.DescDefaults
  Model.Smoothing Spec.Stats Proofs.DescriptivesWMedian Proofs.Smoothing.
From Coq Require Import Qabs Qround Psatz Setoid Morphisms.
Local Open Scope Q_scope.

(* contract of the oracle vectors *)
Definition sg_rows_ok (coeffs : list Q) (el er : list (list Q)) : Prop :=
  qsum coeffs == 1 /\
  length el = Nat.div (length coeffs) 2 /\ length er = Nat.div (length coeffs) 2 /\
  (forall row, In row (el ++ er) -> length row = length coeffs /\ qsum row == 1).

Lemma sg_pass_length coeffs el er y :
  length el = Nat.div (length coeffs) 2 -> length er = Nat.div (length coeffs) 2 ->
  (length coeffs <= length y)%nat ->
  length (sg_pass coeffs el er y) = length y.
Proof.
  intros L1 L2 Lm. unfold sg_pass. rewrite !app_length, !map_length, windows_length, L1, L2.
  set (h := Nat.div (length coeffs) 2). assert (2 * h <= length coeffs)%nat by (unfold h; lia). lia.
Qed.

Lemma iterate_sg_length n coeffs el er y :
  length el = Nat.div (length coeffs) 2 -> length er = Nat.div (length coeffs) 2 ->
  (length coeffs <= length y)%nat ->
  length (iterate n (sg_pass coeffs el er) y) = length y.
Proof.
  intros L1 L2. revert y; induction n as [|n IH]; intros y Lm; cbn [iterate]; [reflexivity|].
  rewrite IH by (now rewrite sg_pass_length). now apply sg_pass_length.
Qed.

Lemma sg_pass_const coeffs el er y c : sg_rows_ok coeffs el er -> (length coeffs <= length y)%nat ->
  all_eq c y -> all_eq c (sg_pass coeffs el er y).
Proof.
  intros (Hs & L1 & L2 & Hrows) Lm H v Hv. unfold sg_pass in Hv.
  apply in_app_or in Hv as [Hv|Hv]; [|apply in_app_or in Hv as [Hv|Hv]].
  - apply in_map_iff in Hv as (row & <- & Hrow).
    destruct (Hrows row (in_or_app _ _ _ (or_introl Hrow))) as [Lr Sr].
    rewrite (qdot_const c); [rewrite Sr; ring|rewrite firstn_length, Lr; lia|].
    intros x Hx. apply H. now apply In_firstn in Hx.
  - unfold windows in Hv. rewrite map_map in Hv. apply in_map_iff in Hv as (i & <- & Hi). apply in_seq in Hi.
    set (h := Nat.div (length coeffs) 2) in *. assert (length coeffs <= 2 * h + 1)%nat by (unfold h; lia).
    rewrite (qdot_const c); [rewrite qsum_rev, Hs; ring|rewrite rev_length, firstn_length, skipn_length; lia|].
    intros x Hx. apply H. apply In_firstn in Hx. now apply In_skipn in Hx.
  - apply in_map_iff in Hv as (row & <- & Hrow).
    destruct (Hrows row (in_or_app _ _ _ (or_intror Hrow))) as [Lr Sr].
    rewrite (qdot_const c); [rewrite Sr; ring|rewrite lastn_length, Lr; lia|].
    intros x Hx. apply H. now apply In_lastn in Hx.
Qed.

Lemma iterate_sg_const n coeffs el er y c : sg_rows_ok coeffs el er -> (length coeffs <= length y)%nat ->
  all_eq c y -> all_eq c (iterate n (sg_pass coeffs el er) y).
Proof.
  intros Hok. revert y; induction n as [|n IH]; intros y Lm H; cbn [iterate]; [exact H|].
  destruct Hok as (Hs & L1 & L2 & Hrows) eqn:E. apply IH.
  - now rewrite sg_pass_length.
  - apply sg_pass_const; auto.
Qed.

(* the parameters savgol() derives from the wing *)
Lemma savgol_params_window wing ww ord : (1 <= wing)%Z -> (1 <= ww)%Z ->
  (1 <= sg_window (savgol_params wing ww ord) <= 2 * wing + 1)%Z /\ sg_wing (savgol_params wing ww ord) = wing.
Proof. intros. unfold savgol_params; cbn [sg_window sg_wing]. lia. Qed.

Lemma savgol_cases x tw fo ww ord it coeffs el er y :
  savgol x tw fo ww ord it coeffs el er = inl y ->
  y = x \/ exists w n_iter, (1 <= w <= Z.of_nat (length x) - 1)%Z /\
            (Z.of_nat (length coeffs) <= 2 * w + 1)%Z /\
            length el = Nat.div (length coeffs) 2 /\ length er = Nat.div (length coeffs) 2 /\
            y = savgol_unweighted x (Z.to_nat w) n_iter coeffs el er.
Proof.
  unfold savgol. destruct (Z.of_nat (length x) <? SAVGOL_MIN_LEN)%Z; intro H.
  - left. now injection H.
  - unfold savgol_plan in H.
    destruct (width2wing _ _ fo) as [w| | |] eqn:E; try discriminate.
    destruct (Z.eqb _ _ && Nat.eqb _ _ && Nat.eqb _ _) eqn:C; [|discriminate].
    apply andb_true_iff in C as [C C3]. apply andb_true_iff in C as [C1 C2].
    apply Z.eqb_eq in C1. apply Nat.eqb_eq in C2. apply Nat.eqb_eq in C3.
    apply width2wing_ok in E. right. exists w, (Z.to_nat (sg_iter (savgol_params w ww ord))).
    split; [lia|]. split; [rewrite C1; unfold savgol_params; cbn [sg_window]; lia|].
    split; [exact C2|]. split; [exact C3|]. injection H as <-. reflexivity.
Qed.

Theorem savgol_length x tw fo ww ord it coeffs el er y :
  savgol x tw fo ww ord it coeffs el er = inl y -> length y = length x.
Proof.
  intro H. apply savgol_cases in H as [->|(w & n & Hw & Lc & L1 & L2 & ->)]; [reflexivity|].
  unfold savgol_unweighted. rewrite unpad_length, iterate_sg_length; auto; rewrite pad_array_length by lia; lia.
Qed.

Theorem savgol_const x tw fo ww ord it coeffs el er y c :
  savgol x tw fo ww ord it coeffs el er = inl y ->
  qsum coeffs == 1 -> (forall row, In row (el ++ er) -> length row = length coeffs /\ qsum row == 1) ->
  all_eq c x -> all_eq c y.
Proof.
  intros H Hs Hrows Hx. apply savgol_cases in H as [->|(w & n & Hw & Lc & L1 & L2 & ->)]; [exact Hx|].
  unfold savgol_unweighted. intros v Hv. apply In_unpad in Hv. revert v Hv.
  apply iterate_sg_const.
  - split; [exact Hs|split; [exact L1|split; [exact L2|exact Hrows]]].
  - rewrite pad_array_length by lia. lia.
  - intros v Hv. apply Hx. now apply In_pad_array in Hv.
Qed.
