(* Library lemmas for the genome-level and payload theorems of C06 (add-only; nothing
   here changes an existing statement): pd.unique (`uniq`), the unconditional structure
   of the overlap groups (concatenation, non-emptiness), list plumbing for tables that
   are concatenations of per-chromosome blocks, and payload preservation of the
   row-wise operations. *)
From CNV Require Import Base.Prelude Model.IvRow Model.IvCombine Model.Intervals Spec.Cover.
From CNV Require Import Proofs.IvCover Proofs.IvMerge.

(* ---- uniq = pandas.unique ------------------------------------------------------- *)

Lemma uniq_In l x : In x (uniq l) <-> In x l.
Proof.
  induction l as [|a t IH]; cbn [uniq]; [tauto|].
  cbn [In]. rewrite filter_In, IH.
  destruct (String.eqb a x) eqn:E.
  - apply String.eqb_eq in E. subst. cbn. split; intros _; now left.
  - cbn. split.
    + intros [H|[H _]]; [now left | now right].
    + intros [H|H]; [now left | right; split; [exact H | reflexivity]].
Qed.

Lemma uniq_NoDup l : NoDup (uniq l).
Proof.
  induction l as [|a t IH]; cbn [uniq]; constructor.
  - rewrite filter_In. intros [_ H]. rewrite String.eqb_refl in H. discriminate.
  - now apply NoDup_filter.
Qed.

Lemma filter_id {A} (p : A -> bool) (l : list A) : (forall x, In x l -> p x = true) -> filter p l = l.
Proof.
  induction l as [|x t IH]; cbn; intros H; auto.
  rewrite (H x (or_introl eq_refl)). f_equal. apply IH. intros; apply H; now right.
Qed.

Lemma filter_none {A} (p : A -> bool) (l : list A) : (forall x, In x l -> p x = false) -> filter p l = [].
Proof.
  induction l as [|x t IH]; cbn; intros H; auto.
  rewrite (H x (or_introl eq_refl)). apply IH. intros; apply H; now right.
Qed.

(* a block of n >= 1 copies of c followed by names different from c *)
Lemma uniq_block c n l : ~ In c l -> uniq (repeat c (S n) ++ l) = c :: uniq l.
Proof.
  intros Hc. induction n as [|n IH].
  - cbn [repeat app uniq]. f_equal. apply filter_id. intros x Hx.
    apply (proj1 (uniq_In _ _)) in Hx. destruct (String.eqb c x) eqn:E; auto.
    apply String.eqb_eq in E. subst. contradiction.
  - change (repeat c (S (S n)) ++ l) with (c :: (repeat c (S n) ++ l)).
    cbn [uniq]. rewrite IH. cbn [filter]. rewrite String.eqb_refl. cbn [negb]. f_equal.
    apply filter_id. intros x Hx.
    apply (proj1 (uniq_In _ _)) in Hx. destruct (String.eqb c x) eqn:E; auto.
    apply String.eqb_eq in E. subst. contradiction.
Qed.

Lemma uniq_single l : uniq l = match l with [] => [] | x :: _ => x :: filter (fun y => negb (String.eqb x y)) (uniq (tl l)) end.
Proof. destruct l; reflexivity. Qed.

(* ---- the overlap groups, unconditionally --------------------------------------- *)
Section Groups.
Context {A : Type}.
Notation row := (@row A).

Lemma groups_from_concat bp : forall (rest : list row) cmax g gs,
  groups_from bp cmax rest = (g, gs) ->
  g ++ concat gs = rest /\ Forall (fun x => x <> []) gs.
Proof.
  induction rest as [|r t IH]; intros cmax g gs E.
  - cbn in E. inversion E; subst. split; [reflexivity | constructor].
  - cbn [groups_from] in E.
    destruct (groups_from bp (Z.max cmax (hi r)) t) as [g' gs'] eqn:E'.
    destruct (IH _ _ _ E') as [E1 F1].
    destruct (- bp <? lo r - cmax); injection E as <- <-.
    + cbn [app concat]. split; [f_equal; exact E1|]. constructor; [discriminate | exact F1].
    + cbn [app]. split; [f_equal; exact E1 | exact F1].
Qed.

Lemma groups_concat bp (l : list row) : concat (groups bp l) = l.
Proof.
  destruct l as [|r t]; [reflexivity|]. unfold groups.
  destruct (groups_from bp (hi r) t) as [g gs] eqn:E.
  destruct (groups_from_concat bp t (hi r) g gs E) as [E1 _].
  cbn [concat app]. f_equal. exact E1.
Qed.

Lemma groups_nonempty bp (l : list row) : Forall (fun x => x <> []) (groups bp l).
Proof.
  destruct l as [|r t]; [constructor|]. unfold groups.
  destruct (groups_from bp (hi r) t) as [g gs] eqn:E.
  destruct (groups_from_concat bp t (hi r) g gs E) as [_ F].
  constructor; [discriminate | exact F].
Qed.

Lemma groups_In bp (l : list row) g r : In g (groups bp l) -> In r g -> In r l.
Proof.
  intros Hg Hr. rewrite <- (groups_concat bp l). apply in_concat. exists g. split; assumption.
Qed.

Lemma groups_nil_iff bp (l : list row) : groups bp l = [] <-> l = [].
Proof.
  split; intros H.
  - rewrite <- (groups_concat bp l), H. reflexivity.
  - subst. reflexivity.
Qed.

Lemma sort_rows_In (l : list row) r : In r (sort_rows l) <-> In r l.
Proof.
  split; intros H.
  - eapply Permutation_in; [apply sort_rows_perm | exact H].
  - eapply Permutation_in; [apply Permutation_sym, sort_rows_perm | exact H].
Qed.

Lemma sort_rows_nil_iff (l : list row) : sort_rows l = [] <-> l = [].
Proof.
  split; intros H.
  - apply Permutation_nil. rewrite <- H. apply sort_rows_perm.
  - subst. reflexivity.
Qed.

(* ---- sort_rows leaves a (start, end)-sorted table as it is ------------------------- *)
Definition lex_sorted (l : list row) : Prop := Sorted (fun a b => row_leb a b = true) l.

Lemma sort_rows_sorted_id (l : list row) : lex_sorted l -> sort_rows l = l.
Proof.
  induction l as [|x t IH]; cbn; auto. intros HS.
  inversion HS as [|? ? HS' HR]; subst. rewrite (IH HS').
  destruct t as [|y t']; cbn; auto.
  inversion HR; subst. now rewrite H0.
Qed.

End Groups.

(* ---- payload preservation of the row-wise pieces ------------------------------------ *)
Section Pieces.
Context {A B : Type}.

Lemma zip_pieces_pay (p : A) ss es : Forall (fun q : @row A => pay q = p) (zip_pieces p ss es).
Proof.
  unfold zip_pieces. apply Forall_forall. intros q Hq.
  apply in_map_iff in Hq as [se [<- _]]. reflexivity.
Qed.

Lemma subtract_row_pay (k : @row A) (ex : list (@row B)) :
  Forall (fun q => pay q = pay k) (subtract_row k ex).
Proof.
  unfold subtract_row. destruct ex as [|x ex']; [repeat constructor|].
  repeat match goal with |- context [if ?c then _ else _] => destruct c end;
    try apply zip_pieces_pay; constructor.
Qed.

Lemma subtract_pay (P : A -> Prop) (a : list (@row A)) (b : list (@row B)) :
  Forall (fun r => P (pay r)) a -> Forall (fun q => P (pay q)) (subtract a b).
Proof.
  intros Ha. unfold subtract. apply Forall_forall. intros q Hq.
  apply in_flat_map in Hq as [k [Hk Hq]].
  pose proof (subtract_row_pay k (filter (overlaps (lo k) (hi k)) b)) as Hp.
  rewrite Forall_forall in Hp, Ha. rewrite (Hp q Hq). now apply Ha.
Qed.

Lemma subtract_nil_r (a : list (@row A)) : subtract a (@nil (@row B)) = a.
Proof.
  unfold subtract. induction a as [|k t IH]; [reflexivity|].
  cbn [flat_map]. rewrite IH. reflexivity.
Qed.

Lemma subtract_nil_l (b : list (@row B)) : subtract (@nil (@row A)) b = [].
Proof. reflexivity. Qed.

Lemma intersect_trim_pay (P : A -> Prop) (a : list (@row A)) (b : list (@row B)) :
  Forall (fun r => P (pay r)) a -> Forall (fun q => P (pay q)) (intersect_trim a b).
Proof.
  intros Ha. unfold intersect_trim, intersect_chunks. apply Forall_forall. intros q Hq.
  apply in_concat in Hq as [ch [Hch Hq]].
  apply filter_In in Hch as [Hch _].
  apply in_map_iff in Hch as [qr [<- _]].
  apply in_map_iff in Hq as [r [<- Hr]].
  apply filter_In in Hr as [Hr _].
  rewrite Forall_forall in Ha. unfold trim_row. cbn. now apply Ha.
Qed.

Lemma intersect_trim_nil_l (b : list (@row B)) : intersect_trim (@nil (@row A)) b = [].
Proof.
  unfold intersect_trim, intersect_chunks. induction b as [|q t IH]; cbn; auto.
Qed.

Lemma intersect_trim_nil_r (a : list (@row A)) : intersect_trim a (@nil (@row B)) = [].
Proof. reflexivity. Qed.

End Pieces.

Section Split.
Context {A : Type}.
Notation row := (@row A).

Lemma bins_from_pay (cut : Z -> Z) (s0 : Z) (e : Z) (p : A) : forall (k : nat) (bs i : Z),
  Forall (fun q : row => pay q = p) (bins_from cut s0 bs i k e p).
Proof.
  induction k as [|k IH]; intros bs i; cbn [bins_from]; constructor; auto.
Qed.

Lemma split_row_pay (avg mn : Z) (cut : Z -> Z -> Z -> Z) (r : row) :
  Forall (fun q => pay q = pay r) (split_row avg mn cut r).
Proof.
  unfold split_row. destruct (hi r - lo r <? mn); [constructor|].
  destruct (nbins avg (hi r - lo r) =? 1); [repeat constructor|].
  apply bins_from_pay.
Qed.

End Split.

(* ---- block tables: a concatenation of per-key blocks -------------------------------- *)
Section Blocks.
Context {R : Type} (key : R -> string).

Definition onk (c : string) (r : R) : bool := String.eqb (key r) c.

Lemma onk_true c r : onk c r = true <-> key r = c.
Proof. unfold onk. apply String.eqb_eq. Qed.

Lemma onk_false c r : onk c r = false <-> key r <> c.
Proof. unfold onk. apply String.eqb_neq. Qed.

Variable f : string -> list R.
Hypothesis f_on : forall c, Forall (fun r => key r = c) (f c).

Lemma block_filter_same c : filter (onk c) (f c) = f c.
Proof.
  apply filter_id. intros x Hx. apply onk_true.
  pose proof (f_on c) as H. rewrite Forall_forall in H. now apply H.
Qed.

Lemma block_filter_other c c' : c' <> c -> filter (onk c) (f c') = [].
Proof.
  intros Hne. apply filter_none. intros x Hx. apply onk_false.
  pose proof (f_on c') as H. rewrite Forall_forall in H. rewrite (H x Hx). exact Hne.
Qed.

Lemma blocks_filter_notin c cs : ~ In c cs -> filter (onk c) (flat_map f cs) = [].
Proof.
  induction cs as [|c' t IH]; intros Hn; cbn [flat_map]; auto.
  rewrite filter_app, block_filter_other, IH; auto.
  - intros H. apply Hn. now right.
  - intros ->. apply Hn. now left.
Qed.

Lemma blocks_filter_in c cs : NoDup cs -> In c cs -> filter (onk c) (flat_map f cs) = f c.
Proof.
  induction cs as [|c' t IH]; intros Hnd Hin; [destruct Hin|].
  inversion Hnd as [|? ? Hc' Hnd']; subst. cbn [flat_map]. rewrite filter_app.
  destruct (string_dec c' c) as [->|Hne].
  - rewrite block_filter_same, blocks_filter_notin, app_nil_r; auto.
  - rewrite block_filter_other by assumption. cbn [app]. apply IH; auto.
    destruct Hin as [->|Hin]; [contradiction | assumption].
Qed.

(* the names of the rows of a block table: one run per block *)
Lemma blocks_keys cs :
  NoDup cs -> (forall c, In c cs -> f c <> []) -> uniq (map key (flat_map f cs)) = cs.
Proof.
  induction cs as [|c t IH]; intros Hnd Hne; [reflexivity|].
  inversion Hnd as [|? ? Hc Hnd']; subst. cbn [flat_map]. rewrite map_app.
  assert (Hrep : map key (f c) = repeat c (length (f c))).
  { pose proof (f_on c) as H. induction (f c) as [|x l IHl]; [reflexivity|].
    inversion H; subst. cbn. f_equal. apply IHl. assumption. }
  rewrite Hrep. destruct (length (f c)) as [|n] eqn:El.
  - exfalso. apply (Hne c (or_introl eq_refl)). now apply length_zero_iff_nil.
  - rewrite uniq_block.
    + f_equal. apply IH; auto. intros c' Hc'. apply Hne. now right.
    + intros Hin. apply in_map_iff in Hin as [x [Hk Hx]].
      apply in_flat_map in Hx as [c' [Hc' Hx]].
      pose proof (f_on c') as H. rewrite Forall_forall in H. rewrite (H x Hx) in Hk. subst c'. contradiction.
Qed.

(* every key's rows are contiguous: the table is the concatenation of its own blocks *)
Lemma blocks_grouped cs : NoDup cs ->
  flat_map f cs = flat_map (fun c => filter (onk c) (flat_map f cs)) cs.
Proof.
  intros Hnd. set (T := flat_map f cs) at 2.
  rewrite !flat_map_concat_map. f_equal. apply map_ext_in.
  intros c Hc. symmetry. subst T. now apply blocks_filter_in.
Qed.

End Blocks.

(* filtering by a predicate of the payload commutes with a payload-preserving expansion *)
Lemma filter_flat_map_pay {A} (p : A -> bool) (g : @row A -> list (@row A)) (m : list (@row A)) :
  (forall r, Forall (fun q => pay q = pay r) (g r)) ->
  filter (fun r => p (pay r)) (flat_map g m) = flat_map g (filter (fun r => p (pay r)) m).
Proof.
  intros Hg. induction m as [|r t IH]; [reflexivity|].
  cbn [flat_map filter]. rewrite filter_app, IH.
  pose proof (Hg r) as H. rewrite Forall_forall in H.
  destruct (p (pay r)) eqn:E.
  - cbn [flat_map]. f_equal. apply filter_id. intros x Hx. now rewrite (H x Hx).
  - rewrite filter_none; [reflexivity|]. intros x Hx. now rewrite (H x Hx).
Qed.

Lemma filter_map_comm {A B} (p : B -> bool) (q : A -> bool) (h : A -> B) (l : list A) :
  (forall x, p (h x) = q x) -> filter p (map h l) = map h (filter q l).
Proof.
  intros H. induction l as [|x t IH]; [reflexivity|].
  cbn [map filter]. rewrite H. destruct (q x); cbn [map]; now rewrite IH.
Qed.

Lemma filter_comm {A} (p q : A -> bool) (l : list A) : filter p (filter q l) = filter q (filter p l).
Proof.
  induction l as [|x t IH]; [reflexivity|]. cbn [filter].
  destruct (p x) eqn:Ep, (q x) eqn:Eq; cbn [filter]; rewrite ?Ep, ?Eq, IH; reflexivity.
Qed.
