(* Second source tie for C05 (DESIGN 9.4): the per-bin arithmetic of Model/Reference.v equals the bodies of
   cnvlib/reference.py shift_sex_chroms / calculate_gc_lo and cnvlib/cnary.py expect_flat_log2 as translated from
   the source on every run (Gen/FnReference.v, Gen/FnReferenceGc.v, Gen/FnCnaryFlat.v). *)
From CNV Require Import Base.Prelude Base.Str Base.QNum Proofs.QNumLemmas Gen.RefDefaults Model.Center Model.Sex Model.Reference
  Gen.FnReference Gen.FnReferenceGc Gen.FnCnaryFlat.
Local Open Scope Q_scope.

(* ---- shift_sex_chroms: `sexes.get(sample_id)` is [sample_is_xx] (a missing sample reads as false) ------------- *)
Theorem fn_shift_sex_eq is_xx fl xm ym v :
  shift_one is_xx (fl, xm, ym) v == fn_shift_sex v is_xx fl xm ym.
Proof.
  unfold shift_one, fn_shift_sex, qadd. cbv zeta.
  destruct is_xx, xm, ym; cbn [orb]; rewrite ?Qred_correct; reflexivity.
Qed.

(* the flat pseudo-sample the shift starts from is the translated expect_flat_log2 (np.zeros read as 0) *)
Theorem fn_flat_at_eq hap build t b :
  flat_at hap build t b =
  fn_expect_flat 0 hap (chr_x_filter t build b) (chr_y_filter t build b) (chr_y_filter t None b).
Proof.
  unfold flat_at, fn_expect_flat. cbv zeta.
  destruct hap, (chr_x_filter t build b), (chr_y_filter t build b), (chr_y_filter t None b); reflexivity.
Qed.

(* one sample's log2 row after centring: every bin goes through the translated shift, started from the
   translated flat value and the two masks of the first file *)
Lemma fn_shift_sex_row_gen hap build first is_xx l centred :
  eqQ (map (fun p => shift_one is_xx (fst p) (b_log2 (snd p)))
           (combine (map (fun b => (flat_at hap build first b, chr_x_filter first build b, chr_y_filter first build b)) l)
                    centred))
      (map (fun p => fn_shift_sex (b_log2 (snd p)) is_xx
                       (fn_expect_flat 0 hap (chr_x_filter first build (fst p)) (chr_y_filter first build (fst p))
                                       (chr_y_filter first None (fst p)))
                       (chr_x_filter first build (fst p)) (chr_y_filter first build (fst p)))
           (combine l centred)).
Proof.
  revert centred. induction l as [|b l IH]; intros [|v vs]; cbn [map combine]; try constructor.
  - cbn [fst snd]. rewrite <- fn_flat_at_eq. apply fn_shift_sex_eq.
  - apply IH.
Qed.

Theorem fn_shift_sex_row hap build first sexes skip_low s :
  eqQ (sample_logr build sexes skip_low (sex_rows hap build first) s)
      (map (fun p => fn_shift_sex (b_log2 (snd p)) (sample_is_xx sexes (s_id s))
                       (fn_expect_flat 0 hap (chr_x_filter first build (fst p)) (chr_y_filter first build (fst p))
                                       (chr_y_filter first None (fst p)))
                       (chr_x_filter first build (fst p)) (chr_y_filter first build (fst p)))
           (combine first (center_all median true skip_low build (s_bins s)))).
Proof. apply fn_shift_sex_row_gen. Qed.

(* ---- calculate_gc_lo: the fractions given the eight letter counts ------------------------------------------------- *)
Lemma Qeq_bool_inject_Z_0 t : Qeq_bool (inject_Z t) 0 = (t =? 0)%Z.
Proof. unfold Qeq_bool, inject_Z. cbn. rewrite Z.mul_1_r. destruct t; reflexivity. Qed.

Theorem fn_gc_lo_eq s :
  let p := gc_lo s in
  let q := fn_calculate_gc_lo (count_char "a" s) (count_char "t" s) (count_char "A" s) (count_char "T" s)
                              (count_char "g" s) (count_char "c" s) (count_char "G" s) (count_char "C" s) in
  fst p == fst q /\ snd p == snd q.
Proof.
  unfold gc_lo, fn_calculate_gc_lo. cbv zeta. rewrite Qeq_bool_inject_Z_0, negb_involutive.
  destruct (_ =? 0)%Z; cbn [fst snd]; rewrite ?Qred_correct; split; reflexivity.
Qed.
