(* C11: UnifyLevels on strictly increasing inputs returns a strictly increasing list that
   contains every base breakpoint and exactly the add-ons outside every base window. *)
From CNV Require Import Base.Prelude Model.Haar Spec.Haar.

Ltac splits := repeat match goal with |- _ /\ _ => split end.

Lemma ssorted_inv x l : ssorted (x :: l) -> ssorted l /\ (forall y, In y l -> x < y).
Proof.
  intros H. apply StronglySorted_inv in H. destruct H as [H1 H2]. split; [exact H1|].
  rewrite Forall_forall in H2. exact H2.
Qed.

Lemma ssorted_cons x l : ssorted l -> (forall y, In y l -> x < y) -> ssorted (x :: l).
Proof. intros H1 H2. constructor; [exact H1|]. apply Forall_forall. exact H2. Qed.

Lemma ssorted_app l1 l2 :
  ssorted (l1 ++ l2) <-> ssorted l1 /\ ssorted l2 /\ (forall x y, In x l1 -> In y l2 -> x < y).
Proof.
  induction l1 as [|a t IH]; cbn [app].
  - split.
    + intros H. splits; [constructor|exact H|intros x y []].
    + intros [_ [H _]]. exact H.
  - split.
    + intros H. apply ssorted_inv in H. destruct H as [H1 H2]. apply IH in H1.
      destruct H1 as [S1 [S2 C]]. splits.
      * apply ssorted_cons; [exact S1|]. intros y Hy. apply H2, in_or_app. left; exact Hy.
      * exact S2.
      * intros x y [<-|Hx] Hy; [apply H2, in_or_app; right; exact Hy|apply C; assumption].
    + intros [S1 [S2 C]]. apply ssorted_inv in S1. destruct S1 as [S1 H2].
      apply ssorted_cons.
      * apply IH. splits; [exact S1|exact S2|]. intros x y Hx Hy. apply C; [right; exact Hx|exact Hy].
      * intros y Hy. apply in_app_or in Hy. destruct Hy as [Hy|Hy]; [apply H2, Hy|apply C; [left; reflexivity|exact Hy]].
Qed.

Lemma zsort_id l : ssorted l -> zsort l = l.
Proof.
  induction l as [|x t IH]; intros H; [reflexivity|].
  apply ssorted_inv in H. destruct H as [H1 H2]. cbn [zsort fold_right].
  change (fold_right zinsert [] t) with (zsort t). rewrite IH by exact H1.
  destruct t as [|y t']; [reflexivity|]. cbn [zinsert].
  specialize (H2 y (or_introl eq_refl)). destruct (x <=? y) eqn:E; [reflexivity|lia].
Qed.

Lemma drop_le_suffix pos l : exists pre, l = pre ++ drop_le pos l.
Proof.
  induction l as [|a t [pre IH]]; [exists []; reflexivity|]. cbn [drop_le].
  destruct (a <=? pos).
  - exists (a :: pre). cbn [app]. f_equal. exact IH.
  - exists []. reflexivity.
Qed.

Lemma drop_le_all pos l : (forall x, In x l -> pos < x) -> drop_le pos l = l.
Proof.
  intros H. destruct l as [|a t]; [reflexivity|]. cbn [drop_le].
  specialize (H a (or_introl eq_refl)). destruct (a <=? pos) eqn:E; [lia|reflexivity].
Qed.

Lemma last_opt_In {A} (l : list A) x : last_opt l = Some x -> In x l.
Proof.
  induction l as [|a t IH]; [discriminate|]. destruct t as [|b t'].
  - cbn. intros [= <-]. left; reflexivity.
  - intros H. right. apply IH. exact H.
Qed.

Lemma last_opt_None {A} (l : list A) : last_opt l = None -> l = [].
Proof.
  induction l as [|a t IH]; [reflexivity|]. destruct t as [|b t']; [discriminate|].
  intros H. specialize (IH H). discriminate.
Qed.

Lemma unify_take_spec b w : forall addon out rest,
  ssorted addon -> unify_take b w addon = (out, rest) ->
  exists mid, addon = out ++ mid ++ rest /\
    (forall a, In a out -> a < b - w) /\
    (forall a, In a mid -> b - w <= a <= b + w) /\
    (forall a, In a rest -> b + w < a).
Proof.
  induction addon as [|a t IH]; intros out rest Hs H.
  - cbn in H. injection H as <- <-. exists []. split; [reflexivity|]. splits; intros ? [].
  - apply ssorted_inv in Hs. destruct Hs as [Hs Ha]. cbn [unify_take] in H.
    destruct (a <? b - w) eqn:E1.
    + destruct (unify_take b w t) as [o r] eqn:E. injection H as <- <-.
      destruct (IH o r Hs eq_refl) as [mid [Ht [H1 [H2 H3]]]].
      exists mid. splits; try assumption.
      * cbn [app]. f_equal. exact Ht.
      * intros x [<-|Hx]; [lia|apply H1, Hx].
    + destruct ((b - w <=? a) && (a <=? b + w)) eqn:E2.
      * destruct (IH out rest Hs H) as [mid [Ht [H1 [H2 H3]]]].
        destruct out as [|o out'].
        -- exists (a :: mid). splits; try assumption.
           ++ cbn [app]. f_equal. exact Ht.
           ++ intros x [<-|Hx]; [lia|apply H2, Hx].
        -- exfalso. specialize (H1 o (or_introl eq_refl)).
           assert (a < o) by (apply Ha; rewrite Ht; left; reflexivity). lia.
      * injection H as <- <-. exists []. split; [reflexivity|].
        split; [intros ? []|]. split; [intros ? []|].
        intros x [<-|Hx]; [lia|]. specialize (Ha x Hx). lia.
Qed.

Lemma unify_loop_spec w : 0 <= w -> forall base addon joined rest,
  ssorted base -> ssorted addon -> unify_loop base addon w = (joined, rest) ->
  ssorted joined /\
  (forall x, In x joined -> In x base \/ (In x addon /\ forall b, In b base -> w < Z.abs (x - b))) /\
  (forall b, In b base -> In b joined) /\
  (exists pre, addon = pre ++ rest) /\
  (forall x b, In x rest -> In b base -> b + w < x) /\
  (forall x, In x joined -> exists b, In b base /\ x <= b) /\
  (forall a, In a addon -> (forall b, In b base -> w < Z.abs (a - b)) -> In a joined \/ In a rest).
Proof.
  intros Hw. induction base as [|b bt IH]; intros addon joined rest Hb Ha H.
  - cbn in H. injection H as <- <-. splits.
    + constructor.
    + intros x [].
    + intros b [].
    + exists []. reflexivity.
    + intros x b _ [].
    + intros x [].
    + intros a Hin _. right. exact Hin.
  - cbn [unify_loop] in H.
    destruct (unify_take b w addon) as [out r1] eqn:ET.
    destruct (unify_loop bt r1 w) as [out2 r2] eqn:EL. injection H as <- <-.
    destruct (unify_take_spec b w addon out r1 Ha ET) as [mid [Hadd [T1 [T2 T3]]]].
    apply ssorted_inv in Hb. destruct Hb as [Hbt Hbb].
    assert (Sout : ssorted out /\ ssorted r1).
    { rewrite Hadd in Ha. apply ssorted_app in Ha. destruct Ha as [S1 [S2 _]].
      apply ssorted_app in S2. destruct S2 as [_ [S3 _]]. split; assumption. }
    destruct Sout as [Sout Sr1].
    destruct (IH r1 out2 r2 Hbt Sr1 EL) as [J1 [J2 [J3 [J4 [J5 [J6 J7]]]]]].
    assert (Hr1 : forall x, In x r1 -> In x addon).
    { intros x Hx. rewrite Hadd. apply in_or_app. right. apply in_or_app. right. exact Hx. }
    assert (Hout2 : forall x, In x out2 -> b < x).
    { intros x Hx. destruct (J2 x Hx) as [Hx1|[Hx1 _]]; [apply Hbb, Hx1|specialize (T3 x Hx1); lia]. }
    splits.
    + apply ssorted_app. splits.
      * exact Sout.
      * apply ssorted_cons; [exact J1|exact Hout2].
      * intros x y Hx [<-|Hy]; [specialize (T1 x Hx); lia|].
        specialize (T1 x Hx). specialize (Hout2 y Hy). lia.
    + intros x Hx. apply in_app_or in Hx. destruct Hx as [Hx|[<-|Hx]].
      * right. split; [rewrite Hadd; apply in_or_app; left; exact Hx|].
        specialize (T1 x Hx). intros b' [<-|Hb']; [lia|]. specialize (Hbb b' Hb'). lia.
      * left. left. reflexivity.
      * destruct (J2 x Hx) as [Hx1|[Hx1 Hx2]]; [left; right; exact Hx1|].
        right. split; [apply Hr1, Hx1|].
        intros b' [<-|Hb']; [specialize (T3 x Hx1); lia|apply Hx2, Hb'].
    + intros b' [<-|Hb']; apply in_or_app; right; [left; reflexivity|right; apply J3, Hb'].
    + destruct J4 as [pre Hpre]. exists (out ++ mid ++ pre).
      rewrite Hadd, Hpre. rewrite <- !app_assoc. reflexivity.
    + intros x b' Hx [<-|Hb']; [|apply J5; assumption].
      destruct J4 as [pre Hpre]. apply T3. rewrite Hpre. apply in_or_app. right. exact Hx.
    + intros x Hx. apply in_app_or in Hx. destruct Hx as [Hx|[<-|Hx]].
      * exists b. split; [left; reflexivity|]. specialize (T1 x Hx). lia.
      * exists b. split; [left; reflexivity|lia].
      * destruct (J6 x Hx) as [b' [Hb' Hle]]. exists b'. split; [right; exact Hb'|exact Hle].
    + intros a Hin Hfar. rewrite Hadd in Hin. apply in_app_or in Hin. destruct Hin as [Hin|Hin].
      * left. apply in_or_app. left. exact Hin.
      * apply in_app_or in Hin. destruct Hin as [Hin|Hin].
        -- exfalso. specialize (T2 a Hin). specialize (Hfar b (or_introl eq_refl)). lia.
        -- destruct (J7 a Hin) as [Hj|Hj].
           ++ intros b' Hb'. apply Hfar. right. exact Hb'.
           ++ left. apply in_or_app. right. right. exact Hj.
           ++ right. exact Hj.
Qed.

(* the list before the final sorted(): already strictly increasing *)
Lemma unify_levels_spec base addon w :
  0 <= w -> ssorted base -> ssorted addon ->
  let out := unify_levels base addon w in
  ssorted out /\
  (forall b, In b base -> In b out) /\
  (forall x, In x out -> In x base \/ (In x addon /\ forall b, In b base -> w < Z.abs (x - b))) /\
  ((forall a, In a addon -> 0 <= a) ->
   forall a, In a addon -> (forall b, In b base -> w < Z.abs (a - b)) -> In a out).
Proof.
  intros Hw Hb Ha out. unfold out, unify_levels.
  destruct addon as [|a0 at0] eqn:Eaddon.
  - splits; [assumption|intros b Hin; exact Hin|intros x Hx; left; exact Hx|intros _ a []].
  - rewrite <- Eaddon in *. clear Eaddon.
    destruct (unify_loop base addon w) as [joined rest] eqn:EL.
    destruct (unify_loop_spec w Hw base addon joined rest Hb Ha EL) as [I1 [I2 [I3 [I4 [I5 [I6 I7]]]]]].
    set (lp := match last_opt base with Some b => b + w | None => -1 end).
    assert (Srest : ssorted rest).
    { destruct I4 as [pre Hpre]. rewrite Hpre in Ha. apply ssorted_app in Ha. tauto. }
    assert (Hrest : forall x, In x rest -> In x addon).
    { destruct I4 as [pre Hpre]. intros x Hx. rewrite Hpre. apply in_or_app. right. exact Hx. }
    destruct (drop_le_suffix lp rest) as [dpre Hd].
    assert (Sdrop : ssorted (drop_le lp rest)).
    { rewrite Hd in Srest. apply ssorted_app in Srest. tauto. }
    assert (Hdrop : forall x, In x (drop_le lp rest) -> In x rest).
    { intros x Hx. rewrite Hd. apply in_or_app. right. exact Hx. }
    assert (SJ : ssorted (joined ++ drop_le lp rest)).
    { apply ssorted_app. splits; [exact I1|exact Sdrop|].
      intros x y Hx Hy. destruct (I6 x Hx) as [b [Hb1 Hb2]].
      specialize (I5 y b (Hdrop y Hy) Hb1). lia. }
    rewrite (zsort_id _ SJ). splits.
    + exact SJ.
    + intros b Hin. apply in_or_app. left. apply I3, Hin.
    + intros x Hx. apply in_app_or in Hx. destruct Hx as [Hx|Hx]; [apply I2, Hx|].
      right. split; [apply Hrest, Hdrop, Hx|].
      intros b Hin. specialize (I5 x b (Hdrop x Hx) Hin). lia.
    + intros Hnn a Hin Hfar. apply in_or_app.
      destruct (I7 a Hin Hfar) as [Hj|Hr]; [left; exact Hj|right].
      assert (Eall : drop_le lp rest = rest).
      { apply drop_le_all. intros x Hx. unfold lp. destruct (last_opt base) as [bl|] eqn:El.
        - apply I5; [exact Hx|]. apply last_opt_In, El.
        - specialize (Hnn x (Hrest x Hx)). lia. }
      rewrite Eall. exact Hr.
Qed.

Lemma unify_levels_sorted : forall (base addon : list Z) (w : Z),
  0 <= w -> ssorted base -> ssorted addon ->
  let out := unify_levels base addon w in
  ssorted out /\
  (forall b, In b base -> In b out) /\
  (forall x, In x out -> In x base \/ (In x addon /\ forall b, In b base -> w < Z.abs (x - b))).
Proof.
  intros base addon w Hw Hb Ha out.
  destruct (unify_levels_spec base addon w Hw Hb Ha) as [H1 [H2 [H3 _]]]. auto.
Qed.

Lemma unify_levels_complete : forall (base addon : list Z) (w : Z),
  0 <= w -> ssorted base -> ssorted addon -> (forall a, In a addon -> 0 <= a) ->
  forall a, In a addon -> (forall b, In b base -> w < Z.abs (a - b)) -> In a (unify_levels base addon w).
Proof.
  intros base addon w Hw Hb Ha Hnn.
  destruct (unify_levels_spec base addon w Hw Hb Ha) as [_ [_ [_ H4]]]. exact (H4 Hnn).
Qed.
