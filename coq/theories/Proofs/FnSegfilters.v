(* Source tie for cnvlib/segfilters.py's level assignments: the definitions that
   tools/py2v_fn.py regenerates from the bodies of ampdel / ci / sem on every run
   (Gen/FnSegfilters.v; `levels[mask] = v` read per row, `levels` entering as
   the 0 np.zeros gave it) are equal to the hand-written level functions the C14
   theorems speak about.  A change to one of these masked assignments changes
   the generated definition, and these lemmas are re-checked against it. *)
From CNV Require Import Base.Prelude Base.Str Gen.SegfilterDefaults Gen.FnSegfilters Model.Segfilters Spec.Segfilters.
From CNV Require Import Proofs.SegfiltersKeys.

(* ampdel: -1 where cn == 0, then +1 where cn >= 5 *)
Lemma fn_ampdel_level_eq (s : seg) : fn_ampdel_level 0 (cn s) = spec_level Fampdel s.
Proof.
  rewrite <- level_spec. unfold fn_ampdel_level. cbn [level].
  change ampdel_amp_cn with (inject_Z 5). change ampdel_del_cn with (inject_Z 0).
  destruct (Qle_bool (inject_Z 5) (cn s)); [reflexivity|].
  destruct (Qeq_bool (cn s) (inject_Z 0)); reflexivity.
Qed.

(* ci: +1 where ci_lo > 0, then -1 where ci_hi < 0.  A missing bound makes its
   comparison False, which is what the bound 0 does as well. *)
Lemma fn_ci_level_eq (s : seg) :
  fn_ci_level 0 (match ci_lo s with Some l => l | None => 0 end)
                (match ci_hi s with Some h => h | None => 0 end) = spec_level Fci s.
Proof.
  rewrite <- level_spec. unfold fn_ci_level. cbn [level]. unfold opt_ltb, opt_gtb, Qltb.
  change ci_hi_below with (inject_Z 0). change ci_lo_above with (inject_Z 0).
  assert (Z0 : Qle_bool 0 (inject_Z 0) = true) by reflexivity.
  assert (Z1 : Qle_bool (inject_Z 0) 0 = true) by reflexivity.
  destruct (ci_hi s) as [h|], (ci_lo s) as [l|]; rewrite ?Z0, ?Z1; cbn [negb];
    repeat match goal with |- context [Qle_bool ?a ?b] => destruct (Qle_bool a b); cbn [negb] end; reflexivity.
Qed.

(* sem: margin = sem * zscore; +1 where log2 - margin > 0, then -1 where log2 + margin < 0 *)
Lemma fn_sem_level_eq (s : seg) (e : Q) :
  sem s = Some e ->
  fn_sem_level 0 (log2 s) (fn_sem_margin e sem_zscore) = spec_level Fsem s.
Proof.
  intros E. rewrite <- level_spec. unfold fn_sem_level, fn_sem_margin. cbn [level]. rewrite E. unfold Qltb.
  change sem_below with (inject_Z 0). change sem_above with (inject_Z 0).
  destruct (Qle_bool (inject_Z 0) (log2 s + e * sem_zscore)); cbn [negb]; [|reflexivity].
  destruct (Qle_bool (log2 s - e * sem_zscore) (inject_Z 0)); reflexivity.
Qed.

(* the default z-score read from the signature of sem is the text's 1.96 *)
Lemma fn_sem_zscore : sem_zscore = z196.
Proof. reflexivity. Qed.
