(* C19 -- mode (for any arg-max index supplied by the KDE oracle), gapper scale,
   weighted MAD. *)
From CNV Require Import Base.Prelude Base.QNum Proofs.QNumLemmas Gen.DescDefaults
  Model.Descriptives Spec.Stats Proofs.DescriptivesWMedian Proofs.DescriptivesWMedianTop
  Proofs.DescriptivesScale Proofs.DescriptivesBiweight.
From Coq Require Import Qabs Qround Psatz Setoid Morphisms.
Local Open Scope Q_scope.

(* ========================================================================== *)
(** * Mode: one of the values, whatever index the density estimate picks *)

Lemma modal_core_In a idx : a <> [] -> (idx < length a)%nat -> In (modal_core a idx) a.
Proof.
  intros N Hi. unfold modal_core.
  assert (L : length (qsort a) = length a) by apply qsort_length.
  assert (0 < length a)%nat by (destruct a; [congruence|cbn; lia]).
  destruct (qeq_b _ _); apply qsort_In; apply nthq_In; lia.
Qed.

Lemma modal_core_range a idx : a <> [] -> (idx < length a)%nat -> qmin a <= modal_core a idx <= qmax a.
Proof. intros N Hi. pose proof (modal_core_In a idx N Hi). split; [now apply qmin_le|now apply qmax_ge]. Qed.

Lemma modal_core_shift a idx c : a <> [] -> (idx < length a)%nat ->
  modal_core (map (fun x => x + c) a) idx == modal_core a idx + c.
Proof.
  intros N Hi. unfold modal_core.
  assert (Hmono : forall x y, x <= y -> x + c <= y + c) by (intros; lra).
  pose proof (qsort_map_mono (fun x => x + c) a Hmono) as E.
  assert (L : length (qsort a) = length a) by apply qsort_length.
  assert (L' : length (qsort (map (fun x => x + c) a)) = length a) by now rewrite qsort_length, map_length.
  assert (H0 : (0 < length a)%nat) by (destruct a; [congruence|cbn; lia]).
  assert (Hn : forall i, (i < length a)%nat -> nthq i (qsort (map (fun x => x + c) a)) == nthq i (qsort a) + c).
  { intros i Hlt. rewrite (eqQ_nthq _ _ i E). rewrite nthq_map by lia. reflexivity. }
  rewrite L', L.
  assert (E0 := Hn 0%nat H0). assert (E1 := Hn (length a - 1)%nat ltac:(lia)).
  assert (B : qeq_b (nthq 0 (qsort (map (fun x => x + c) a))) (nthq (length a - 1) (qsort (map (fun x => x + c) a))) =
              qeq_b (nthq 0 (qsort a)) (nthq (length a - 1) (qsort a))).
  { unfold qeq_b. rewrite (Qeq_bool_wd _ _ _ _ E0 E1).
    destruct (Qeq_bool (nthq 0 (qsort a)) (nthq (length a - 1) (qsort a))) eqn:A.
    - apply Qeq_bool_iff in A. apply Qeq_bool_iff. now rewrite A.
    - apply Qeq_bool_neq in A. destruct (Qeq_bool _ _) eqn:A'; [|reflexivity].
      apply Qeq_bool_iff in A'. exfalso. apply A. lra. }
  rewrite B; clear B. destruct (qeq_b (nthq 0 (qsort a)) (nthq (length a - 1) (qsort a))); apply Hn; lia.
Qed.

(* ========================================================================== *)
(** * Gapper scale (the sqrt(pi) factor is an argument) *)

Lemma diffs_nonneg s : sortedQ s -> forall d, In d (diffs s) -> 0 <= d.
Proof.
  induction 1 as [|x t S IH F]; cbn [diffs]; intros d Hd; [destruct Hd|].
  destruct t as [|y t']; [destruct Hd|]. destruct Hd as [<-|Hd]; [|now apply IH].
  rewrite qsub_spec. apply Forall_inv in F. lra.
Qed.

Lemma diffs_const c s : (forall x, In x s -> x == c) -> forall d, In d (diffs s) -> d == 0.
Proof.
  induction s as [|x t IH]; cbn [diffs]; intros H d Hd; [destruct Hd|].
  destruct t as [|y t']; [destruct Hd|]. destruct Hd as [<-|Hd].
  - rewrite qsub_spec, (H x), (H y) by (cbn; auto). ring.
  - apply IH; [|exact Hd]. intros; apply H; now right.
Qed.

Lemma diffs_eqQ s s' : eqQ s s' -> eqQ (diffs s) (diffs s').
Proof.
  induction 1 as [|x y l l' E H IH]; cbn [diffs]; [constructor|].
  destruct H as [|x2 y2 l2 l2' E2 H2]; [constructor|]. constructor; [|exact IH].
  now rewrite !qsub_spec, E, E2.
Qed.

Lemma diffs_shift c s : eqQ (diffs (map (fun x => x + c) s)) (diffs s).
Proof.
  induction s as [|x t IH]; cbn [map diffs]; [constructor|].
  destruct t as [|y t']; [constructor|]. cbn [map] in *. constructor; [|exact IH].
  rewrite !qsub_spec. ring.
Qed.

Lemma diffs_scale k s : eqQ (diffs (map (fun x => k * x) s)) (map (fun d => k * d) (diffs s)).
Proof.
  induction s as [|x t IH]; cbn [map diffs]; [constructor|].
  destruct t as [|y t']; [constructor|]. cbn [map] in *. constructor; [|exact IH].
  rewrite !qsub_spec. ring.
Qed.

Lemma qdot_nonneg a w : (forall x, In x a -> 0 <= x) -> (forall y, In y w -> 0 <= y) -> 0 <= qdot a w.
Proof.
  revert w; induction a as [|x t IH]; intros [|y w'] Ha Hw; try (cbn; lra).
  rewrite qdot_cons.
  assert (0 <= x * y) by (apply Qmult_le_0_compat; [apply Ha|apply Hw]; now left).
  assert (0 <= qdot t w') by (apply IH; intros; [apply Ha|apply Hw]; now right). lra.
Qed.

Lemma qdot_zero_l a w : (forall x, In x a -> x == 0) -> qdot a w == 0.
Proof.
  revert w; induction a as [|x t IH]; intros [|y w'] Ha; try reflexivity.
  rewrite qdot_cons, IH by (intros; apply Ha; now right). rewrite (Ha x) by now left. ring.
Qed.

Lemma gapper_weights_nonneg n : forall y, In y (gapper_weights n) -> 0 <= y.
Proof. intros y Hy. unfold gapper_weights in Hy. apply in_map_iff in Hy as (i & <- & _). apply qofnat_nonneg. Qed.

(* the estimator without its constant factors: sum of weighted gaps *)
Definition gapper_sum (a : list Q) : Q := qdot (diffs (qsort a)) (gapper_weights (length a)).

Lemma gapper_core_eq sp a :
  gapper_core sp a == gapper_sum a * sp / qofnat (length a * (length a - 1)).
Proof. unfold gapper_core, gapper_sum. now rewrite qdiv_spec, qmul_spec. Qed.

Lemma gapper_sum_nonneg a : 0 <= gapper_sum a.
Proof. apply qdot_nonneg; [apply diffs_nonneg, qsort_sorted|apply gapper_weights_nonneg]. Qed.

Lemma gapper_sum_const c a : (forall x, In x a -> x == c) -> gapper_sum a == 0.
Proof.
  intro H. apply qdot_zero_l. apply (diffs_const c). intros x Hx. apply H. now apply qsort_In.
Qed.

Lemma gapper_sum_shift c a : gapper_sum (map (fun x => x + c) a) == gapper_sum a.
Proof.
  unfold gapper_sum. rewrite map_length. apply qdot_eqQ; [|reflexivity].
  eapply eqQ_trans; [apply diffs_eqQ, (qsort_map_mono (fun x => x + c)); intros; lra|apply diffs_shift].
Qed.

Lemma gapper_sum_scale k a : 0 <= k -> gapper_sum (map (fun x => k * x) a) == k * gapper_sum a.
Proof.
  intro K. unfold gapper_sum. rewrite map_length, <- qdot_map_mul_l. apply qdot_eqQ; [|reflexivity].
  eapply eqQ_trans; [apply diffs_eqQ, (qsort_map_mono (fun x => k * x))|apply diffs_scale].
  intros x y Hxy. nra.
Qed.

Lemma gapper_core_nonneg sp a : 0 <= sp -> 0 <= gapper_core sp a.
Proof.
  intro Hs. rewrite gapper_core_eq. unfold Qdiv.
  apply Qmult_le_0_compat; [apply Qmult_le_0_compat; [apply gapper_sum_nonneg|exact Hs]|].
  apply Qinv_le_0_compat, qofnat_nonneg.
Qed.

Lemma gapper_core_const sp c a : (forall x, In x a -> x == c) -> gapper_core sp a == 0.
Proof. intro H. rewrite gapper_core_eq, (gapper_sum_const c a H). unfold Qdiv. ring. Qed.

Lemma gapper_core_shift sp c a : gapper_core sp (map (fun x => x + c) a) == gapper_core sp a.
Proof. rewrite !gapper_core_eq, map_length, gapper_sum_shift. reflexivity. Qed.

Lemma gapper_core_scale sp k a : 0 <= k -> gapper_core sp (map (fun x => k * x) a) == k * gapper_core sp a.
Proof. intro K. rewrite !gapper_core_eq, map_length, gapper_sum_scale by exact K. unfold Qdiv. ring. Qed.

(* ========================================================================== *)
(** * Weighted MAD *)

Lemma wmad_devs_nonneg m ps : forall p, In p (wmad_devs m ps) -> 0 <= fst p.
Proof. intros p Hp. unfold wmad_devs in Hp. apply in_map_iff in Hp as (q & <- & _). cbn [fst]. apply Qabs_nonneg. Qed.

Lemma wmad_devs_weights m ps : nonneg_weights ps -> nonneg_weights (wmad_devs m ps).
Proof. intros H p Hp. unfold wmad_devs in Hp. apply in_map_iff in Hp as (q & <- & Hq). cbn [snd]. now apply H. Qed.

Lemma wmad_scale_nonneg s x : 0 <= x -> 0 <= wmad_scale s x.
Proof.
  intro H. unfold wmad_scale. destruct s; [|exact H]. rewrite qmul_spec.
  apply Qmult_le_0_compat; [exact H|]. unfold WMAD_SCALE, Qle; cbn; lia.
Qed.

Lemma psort_range ps : ps <> [] -> nonneg_weights ps ->
  exists p q, In p ps /\ In q ps /\ fst p <= wmedian_sorted (psort ps) <= fst q.
Proof.
  intros N H. apply (arranged_range ps (psort ps)); auto using psort_perm. apply psort_sorted.
Qed.

Theorem weighted_mad_core_nonneg ps s : ps <> [] -> nonneg_weights ps -> 0 <= weighted_mad_core ps s.
Proof.
  intros N H. unfold weighted_mad_core. apply wmad_scale_nonneg.
  set (m := wmedian_sorted (psort ps)).
  destruct (psort_range (wmad_devs m ps)) as (p & q & Hp & _ & Hpm & _).
  - unfold wmad_devs. destruct ps; [congruence|discriminate].
  - now apply wmad_devs_weights.
  - pose proof (wmad_devs_nonneg m ps p Hp). lra.
Qed.

Theorem weighted_mad_core_const ps s c : ps <> [] -> nonneg_weights ps ->
  (forall p, In p ps -> fst p == c) -> weighted_mad_core ps s == 0.
Proof.
  intros N H Hc. unfold weighted_mad_core.
  set (m := wmedian_sorted (psort ps)).
  assert (Em : m == c).
  { destruct (psort_range ps N H) as (p & q & Hp & Hq & Hpm & Hqm). fold m in Hpm, Hqm.
    rewrite (Hc p Hp) in Hpm. rewrite (Hc q Hq) in Hqm. lra. }
  assert (Hd : forall p, In p (wmad_devs m ps) -> fst p == 0).
  { intros p Hp. unfold wmad_devs in Hp. apply in_map_iff in Hp as (q & <- & Hq). cbn [fst].
    unfold qabs. rewrite qsub_spec, (Hc q Hq), Em. setoid_replace (c - c) with 0 by ring. reflexivity. }
  assert (E0 : wmedian_sorted (psort (wmad_devs m ps)) == 0).
  { destruct (psort_range (wmad_devs m ps)) as (p & q & Hp & Hq & Hpm & Hqm).
    - unfold wmad_devs. destruct ps; [congruence|discriminate].
    - now apply wmad_devs_weights.
    - rewrite (Hd p Hp) in Hpm. rewrite (Hd q Hq) in Hqm. lra. }
  unfold wmad_scale. destruct s; [rewrite qmul_spec, E0; ring|exact E0].
Qed.
