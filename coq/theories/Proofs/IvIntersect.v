(* intersection(mode="trim") and resize_ranges. *)
From CNV Require Import Base.Prelude Model.IvRow Model.Intervals Spec.Cover Proofs.IvCover.

Section Intersect.
Context {A B : Type}.
Notation rowA := (@row A).
Notation rowB := (@row B).

Definition nonneg {C} (t : list (@row C)) : Prop := Forall (fun r => 0 <= lo r) t.

Lemma covers_concat (L : list (list rowA)) z :
  covers (concat L) z <-> exists c, In c L /\ covers c z.
Proof.
  induction L as [|c L IH]; simpl.
  - split; [intros H; destruct (covers_nil _ H) | intros [c [[] _]]].
  - rewrite covers_app, IH. split.
    + intros [H | [c' [Hin H]]]; [exists c | exists c']; auto.
    + intros [c' [[->|Hin] H]]; [left | right; exists c']; auto.
Qed.

(* with a non-negative start and a proper non-negative query, trim_row clips to the query *)
Lemma trim_row_clips (qs qe : Z) (r : rowA) :
  0 <= lo r -> 0 <= qs < qe ->
  lo (trim_row qs qe r) = Z.max (lo r) qs /\ hi (trim_row qs qe r) = Z.min (hi r) qe
  /\ pay (trim_row qs qe r) = pay r.
Proof.
  intros Hr Hq. unfold trim_row. unfold lo at 1, hi at 1, pay at 1. simpl.
  destruct (qs =? 0) eqn:E1; destruct (qe =? 0) eqn:E2; repeat split; lia.
Qed.

Lemma chunk_covers (a : list rowA) (qs qe z : Z) :
  nonneg a -> 0 <= qs < qe ->
  (covers (map (trim_row qs qe) (filter (overlaps qs qe) a)) z <-> covers a z /\ qs <= z < qe).
Proof.
  intros Ha Hq. unfold covers. split.
  - intros [p [Hin Hz]]. apply in_map_iff in Hin as [r [<- Hr]].
    apply filter_In in Hr as [Hr Ho].
    unfold nonneg in Ha. rewrite Forall_forall in Ha.
    destruct (trim_row_clips qs qe r (Ha r Hr) Hq) as (E1 & E2 & _).
    rewrite E1, E2 in Hz. split; [exists r; split; auto|]; lia.
  - intros [[r [Hr Hz]] Hzq].
    unfold nonneg in Ha. rewrite Forall_forall in Ha.
    exists (trim_row qs qe r). split.
    + apply in_map. apply filter_In. split; auto. unfold overlaps. lia.
    + destruct (trim_row_clips qs qe r (Ha r Hr) Hq) as (E1 & E2 & _). rewrite E1, E2. lia.
Qed.

Theorem intersect_trim_covers (a : list rowA) (b : list rowB) z :
  nonneg a -> nonneg b -> valid b ->
  (covers (intersect_trim a b) z <-> covers a z /\ covers b z).
Proof.
  intros Ha Hb Hv. unfold intersect_trim, intersect_chunks. rewrite covers_concat.
  unfold nonneg, valid in *. rewrite Forall_forall in Hb, Hv.
  split.
  - intros [c [Hc Hz]]. apply filter_In in Hc as [Hc _].
    apply in_map_iff in Hc as [q [<- Hq]].
    assert (Hqq : 0 <= lo q < hi q) by (specialize (Hb q Hq); specialize (Hv q Hq); lia).
    apply (chunk_covers a (lo q) (hi q) z Ha Hqq) in Hz.
    destruct Hz as [Hz1 Hz2]. split; auto. exists q; auto.
  - intros [Haz [q [Hq Hz]]].
    exists (map (trim_row (lo q) (hi q)) (filter (overlaps (lo q) (hi q)) a)).
    assert (Hc : covers (map (trim_row (lo q) (hi q)) (filter (overlaps (lo q) (hi q)) a)) z).
    { assert (Hqq : 0 <= lo q < hi q) by (specialize (Hb q Hq); specialize (Hv q Hq); lia).
      apply (chunk_covers a (lo q) (hi q) z Ha Hqq). split; auto. }
    split; auto. apply filter_In. split.
    + apply in_map_iff. exists q; auto.
    + destruct Hc as [p [Hp _]].
      destruct (map (trim_row (lo q) (hi q)) (filter (overlaps (lo q) (hi q)) a)); [destruct Hp | reflexivity].
Qed.

(* every piece lies inside a row of `a`, is non-empty and carries that row's other fields *)
Theorem intersect_trim_pieces (a : list rowA) (b : list rowB) :
  nonneg a -> nonneg b -> valid a -> valid b ->
  Forall (fun p => exists k, In k a /\ pay p = pay k /\ lo k <= lo p /\ lo p < hi p /\ hi p <= hi k)
         (intersect_trim a b).
Proof.
  intros Ha Hb Hva Hvb. rewrite Forall_forall. intros p Hp.
  unfold intersect_trim, intersect_chunks in Hp.
  apply in_concat in Hp as [c [Hc Hp]].
  apply filter_In in Hc as [Hc _]. apply in_map_iff in Hc as [q [<- Hq]].
  apply in_map_iff in Hp as [r [<- Hr]]. apply filter_In in Hr as [Hr Ho].
  unfold nonneg, valid in *. rewrite Forall_forall in *.
  specialize (Ha r Hr). specialize (Hb q Hq). specialize (Hva r Hr). specialize (Hvb q Hq).
  destruct (trim_row_clips (lo q) (hi q) r Ha) as (E1 & E2 & E3); [lia|].
  exists r. rewrite E1, E2, E3. unfold overlaps in Ho. repeat split; auto; lia.
Qed.

(* disjoint tables give the empty table (the code used to raise here) *)
Lemma intersect_trim_table_disjoint (pa : A) (pb : B) :
  intersect_trim_table [([(0, 1, pa)], [(2, 3, pb)])] = [[]].
Proof. reflexivity. Qed.

End Intersect.

(* ---- resize_ranges ---------------------------------------------------------- *)

Section Resize.
Context {A : Type}.
Notation row := (@row A).

Lemma clip_clip_to size x : clip size x = clip_to size x.
Proof. reflexivity. Qed.

Definition moved (bp : Z) (size : option Z) (r : row) : row :=
  (clip_to size (lo r - bp), clip_to size (hi r + bp), pay r).

Theorem resize_spec (bp : Z) (size : option Z) (t : list row) :
  (0 <= bp -> resize bp size t = map (moved bp size) t) /\
  (bp < 0 -> resize bp size t = filter (fun r => lo r <? hi r) (map (moved bp size) t)).
Proof.
  unfold resize. split; intros Hbp.
  - replace (bp <? 0) with false by (symmetry; apply Z.ltb_ge; lia). reflexivity.
  - replace (bp <? 0) with true by (symmetry; apply Z.ltb_lt; lia).
    apply filter_ext. intros r.
    destruct (0 <? hi r - lo r) eqn:E1; destruct (lo r <? hi r) eqn:E2; auto; lia.
Qed.

Lemma clip_to_range s x :
  0 <= s ->
  0 <= clip_to (Some s) x <= s /\
  (0 <= x <= s -> clip_to (Some s) x = x) /\
  (x <= 0 -> clip_to (Some s) x = 0) /\
  (s <= x -> clip_to (Some s) x = s).
Proof. unfold clip_to. intros; repeat split; lia. Qed.

Lemma clip_to_nosize x : clip_to None x = Z.max x 0.
Proof. reflexivity. Qed.

End Resize.
