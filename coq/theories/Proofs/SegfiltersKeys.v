(* C14, part 2: the keys computed by squash_by_groups, read row by row, and the
   main grouping theorem: for a table whose chromosomes are contiguous the
   groups are exactly the maximal runs of rows that agree in chromosome, level,
   cn1 and cn2 (a missing value being a value of its own). *)
From Coq Require Import QArith.Qabs.
From CNV Require Import Base.Prelude Base.Str Gen.SegfilterDefaults Model.Segfilters Spec.Segfilters.
From CNV Require Import Proofs.SegfiltersRuns.

Section Keys.
Variable ordf : string -> Z.
Variable lev : seg -> option Q.

Definition bump (n : Z) (a b : option Q) : Z := if optQ_eqb a b then n else n + 1.

(* the three enumerate_changes columns and the ordinal column, in one pass *)
Fixpoint keys_from (n n1 n2 : Z) (p : seg) (t : list seg) : list key :=
  match t with
  | [] => []
  | s :: t' =>
      let n' := bump n (lev p) (lev s) in
      let n1' := bump n1 (cn1 p) (cn1 s) in
      let n2' := bump n2 (cn2 p) (cn2 s) in
      (n' + ordf (chrom s), n1', n2') :: keys_from n' n1' n2' s t'
  end.

Definition keys_of (t : list seg) : list key :=
  match t with
  | [] => []
  | s :: t' => (0 + ordf (chrom s), 0, 0) :: keys_from 0 0 0 s t'
  end.

Lemma mk_keys_from : forall t n n1 n2 p,
  mk_keys (enum_from n (lev p) (map lev t)) (map (fun s => ordf (chrom s)) t)
          (enum_from n1 (cn1 p) (map cn1 t)) (enum_from n2 (cn2 p) (map cn2 t))
  = keys_from n n1 n2 p t.
Proof.
  induction t as [|s t IH]; intros n n1 n2 p; [reflexivity|].
  cbn [map enum_from mk_keys keys_from]. unfold bump. f_equal. apply IH.
Qed.

Lemma mk_keys_of t :
  mk_keys (enumerate_changes (map lev t)) (map (fun s => ordf (chrom s)) t)
          (enumerate_changes (map cn1 t)) (enumerate_changes (map cn2 t))
  = keys_of t.
Proof.
  destruct t as [|s t]; [reflexivity|].
  cbn [map enumerate_changes mk_keys keys_of]. f_equal. apply mk_keys_from.
Qed.

Lemma length_keys_from : forall t n n1 n2 p, length (keys_from n n1 n2 p t) = length t.
Proof. induction t as [|s t IH]; intros; cbn [keys_from length]; [reflexivity|]. f_equal. apply IH. Qed.

Lemma length_keys_of t : length (keys_of t) = length t.
Proof. destruct t; cbn [keys_of length]; [reflexivity|]. f_equal. apply length_keys_from. Qed.

Lemma bump_ge n a b : n <= bump n a b.
Proof. unfold bump. destruct (optQ_eqb a b); lia. Qed.

Lemma keys_from_ge : forall t n n1 n2 p m,
  Forall (fun s => m <= ordf (chrom s)) t ->
  Forall (le3 (n + m, n1, n2)) (keys_from n n1 n2 p t).
Proof.
  induction t as [|s t IH]; intros n n1 n2 p m H; cbn [keys_from]; [constructor|].
  inversion H as [|? ? Hs Ht]; subst.
  pose proof (bump_ge n (lev p) (lev s)) as B.
  pose proof (bump_ge n1 (cn1 p) (cn1 s)) as B1.
  pose proof (bump_ge n2 (cn2 p) (cn2 s)) as B2.
  constructor.
  - cbn. repeat split; lia.
  - specialize (IH (bump n (lev p) (lev s)) (bump n1 (cn1 p) (cn1 s)) (bump n2 (cn2 p) (cn2 s)) s m Ht).
    eapply Forall_impl; [|exact IH]. intros k Hk.
    eapply le3_trans; [|exact Hk]. cbn. repeat split; lia.
Qed.

Definition ordle (a b : seg) : Prop := ordf (chrom a) <= ordf (chrom b).

Lemma keys_from_sorted : forall t n n1 n2 p,
  StronglySorted ordle (p :: t) ->
  StronglySorted le3 ((n + ordf (chrom p), n1, n2) :: keys_from n n1 n2 p t).
Proof.
  induction t as [|s t IH]; intros n n1 n2 p S.
  - cbn. repeat constructor.
  - inversion S as [|? ? St Hp]; subst. constructor.
    + cbn [keys_from]. apply IH. exact St.
    + apply keys_from_ge. exact Hp.
Qed.

Definition same_model (a b : seg) : bool :=
  String.eqb (chrom a) (chrom b) && optQ_eqb (lev a) (lev b)
  && optQ_eqb (cn1 a) (cn1 b) && optQ_eqb (cn2 a) (cn2 b).

Lemma keys_from_adj : forall t n n1 n2 p,
  StronglySorted ordle (p :: t) ->
  (forall a b, In a (p :: t) -> In b (p :: t) -> ordf (chrom a) = ordf (chrom b) -> chrom a = chrom b) ->
  AdjForall (fun x y => samek x y = same_model (snd x) (snd y))
            (combine ((n + ordf (chrom p), n1, n2) :: keys_from n n1 n2 p t) (p :: t)).
Proof.
  induction t as [|s t IH]; intros n n1 n2 p S Inj.
  - cbn. constructor.
  - inversion S as [|? ? St Hp]; subst.
    cbn [keys_from combine]. constructor.
    + unfold samek, same_model. cbn [fst snd key_eqb].
      inversion Hp as [|? ? Hps _]; subst. unfold ordle in Hps.
      assert (Hinj : ordf (chrom p) = ordf (chrom s) -> chrom p = chrom s).
      { apply Inj; [left; reflexivity|right; left; reflexivity]. }
      assert (Hcs : chrom p = chrom s -> ordf (chrom p) = ordf (chrom s)).
      { intros ->. reflexivity. }
      apply eq_true_iff_eq. rewrite !andb_true_iff, !Z.eqb_eq, String.eqb_eq.
      unfold bump.
      destruct (optQ_eqb (lev p) (lev s)), (optQ_eqb (cn1 p) (cn1 s)), (optQ_eqb (cn2 p) (cn2 s));
        split; intros H; repeat split; try tauto; try lia; try (apply Hinj; lia);
        try (destruct H as (((H1 & H2) & H3) & H4); try discriminate; specialize (Hcs H1); lia).
    + apply (IH (bump n (lev p) (lev s)) (bump n1 (cn1 p) (cn1 s)) (bump n2 (cn2 p) (cn2 s)) s St).
      intros a b Ha Hb. apply Inj; right; assumption.
Qed.

End Keys.

Lemma map_fst_combine {A B} : forall (l1 : list A) (l2 : list B),
  length l1 = length l2 -> map fst (combine l1 l2) = l1.
Proof.
  induction l1 as [|a l1 IH]; intros [|b l2] H; cbn in *; try reflexivity; try discriminate.
  f_equal. apply IH. lia.
Qed.

Lemma map_snd_combine {A B} : forall (l1 : list A) (l2 : list B),
  length l1 = length l2 -> map snd (combine l1 l2) = l2.
Proof.
  induction l1 as [|a l1 IH]; intros [|b l2] H; cbn in *; try reflexivity; try discriminate.
  f_equal. apply IH. lia.
Qed.

(* The grouping theorem for the model's squash_by_groups. *)
Theorem squash_by_groups_runs (lev : seg -> option Q) (t : list seg) :
  Contig (map chrom t) ->
  squash_by_groups (map lev t) t = map squash_region (runs_by (same_model lev) t).
Proof.
  intros C. unfold squash_by_groups.
  set (ordf := ord_in (map chrom t)).
  assert (Eo : map (fun c => index_of c (uniq_str (map chrom t))) (map chrom t)
               = map (fun s => ordf (chrom s)) t).
  { rewrite map_map. reflexivity. }
  rewrite Eo, (mk_keys_of ordf lev t).
  pose proof (length_keys_of ordf lev t) as Len.
  (* ordinals: sorted and injective on the table *)
  assert (So : StronglySorted (ordle ordf) t).
  { apply ssorted_map with (f := chrom) (R := fun a b => ordf a <= ordf b).
    apply ordinals_sorted. exact C. }
  assert (Inj : forall a b, In a t -> In b t -> ordf (chrom a) = ordf (chrom b) -> chrom a = chrom b).
  { intros a b Ha _. apply ord_in_inj. apply in_map. exact Ha. }
  rewrite group_by_contig.
  - rewrite map_map.
    rewrite (map_ext _ (fun r => squash_region (map snd r))) by (intros r; rewrite snd_run_to_group; reflexivity).
    rewrite <- (map_map (map snd) squash_region). f_equal.
    rewrite (runs_by_tagged samek (same_model lev)).
    + rewrite map_snd_combine by exact Len. reflexivity.
    + destruct t as [|p t']; [constructor|].
      cbn [keys_of]. apply keys_from_adj; assumption.
  - rewrite map_fst_combine by exact Len.
    apply sorted3_contig.
    destruct t as [|p t']; [constructor|].
    cbn [keys_of]. apply keys_from_sorted. exact So.
Qed.

(* ------------------------------------- the model's levels are the text's levels *)

Lemma level_spec f s : level f s = spec_level f s.
Proof. destruct f; reflexivity. Qed.

Lemma same_model_full f a b :
  same_model (fun s => Some (level f s)) a b = same_full f a b.
Proof.
  unfold same_model, same_full, same_plain. rewrite !level_spec. reflexivity.
Qed.

Theorem squashed_runs (f : filt) (t : list seg) :
  Contig (map chrom t) -> squashed f t = map squash_region (level_runs f t).
Proof.
  intros C. unfold squashed, level_runs.
  rewrite (squash_by_groups_runs (fun s => Some (level f s)) t C).
  rewrite (runs_by_ext _ (same_full f)) by apply same_model_full. reflexivity.
Qed.

(* same_full is an equivalence *)
Lemma Qeq_bool_sym a b : Qeq_bool a b = true -> Qeq_bool b a = true.
Proof. rewrite !Qeq_bool_iff. intros H. symmetry. exact H. Qed.
Lemma Qeq_bool_trans a b c : Qeq_bool a b = true -> Qeq_bool b c = true -> Qeq_bool a c = true.
Proof. rewrite !Qeq_bool_iff. intros H1 H2. rewrite H1. exact H2. Qed.

Lemma oq_eqb_refl a : oq_eqb a a = true.
Proof. destruct a; cbn; [apply Qeq_bool_refl|reflexivity]. Qed.
Lemma oq_eqb_sym a b : oq_eqb a b = true -> oq_eqb b a = true.
Proof. destruct a, b; cbn; try discriminate; try reflexivity. apply Qeq_bool_sym. Qed.
Lemma oq_eqb_trans a b c : oq_eqb a b = true -> oq_eqb b c = true -> oq_eqb a c = true.
Proof. destruct a, b, c; cbn; try discriminate; try reflexivity. apply Qeq_bool_trans. Qed.

Lemma same_full_refl f a : same_full f a a = true.
Proof.
  unfold same_full, same_plain. rewrite String.eqb_refl, Qeq_bool_refl, !oq_eqb_refl. reflexivity.
Qed.

Lemma same_full_sym f a b : same_full f a b = true -> same_full f b a = true.
Proof.
  unfold same_full, same_plain. rewrite !andb_true_iff. intros (((H1 & H2) & H3) & H4).
  rewrite String.eqb_sym. repeat split; auto using Qeq_bool_sym, oq_eqb_sym.
Qed.

Lemma same_full_trans f a b c : same_full f a b = true -> same_full f b c = true -> same_full f a c = true.
Proof.
  unfold same_full, same_plain. rewrite !andb_true_iff.
  intros (((H1 & H2) & H3) & H4) (((G1 & G2) & G3) & G4).
  apply String.eqb_eq in H1, G1. repeat split.
  - apply String.eqb_eq. congruence.
  - eapply Qeq_bool_trans; eassumption.
  - eapply oq_eqb_trans; eassumption.
  - eapply oq_eqb_trans; eassumption.
Qed.

Theorem level_runs_max (f : filt) (t : list seg) : is_max_runs (same_full f) t (level_runs f t).
Proof.
  apply runs_by_is_max_runs.
  - apply same_full_refl.
  - apply same_full_sym.
  - apply same_full_trans.
Qed.

Lemma squash_region_spans r : spans_run r (squash_region r).
Proof. destruct r as [|s0 r']; cbn; auto. Qed.

(* a table without allele-specific copy numbers: the plain reading *)
Lemma runs_by_ext_in {A} (R1 R2 : A -> A -> bool) (l : list A) :
  (forall a b, In a l -> In b l -> R1 a b = R2 a b) -> runs_by R1 l = runs_by R2 l.
Proof.
  induction l as [|a t IH]; intros E; cbn; [reflexivity|].
  rewrite IH by (intros x y Hx Hy; apply E; right; assumption).
  destruct t as [|b t']; [reflexivity|].
  destruct (runs_by_hd R2 b t') as (r & rs & Er). rewrite Er. cbn.
  rewrite E; [reflexivity|left; reflexivity|right; left; reflexivity].
Qed.

Theorem level_runs_plain (f : filt) (t : list seg) :
  no_alleles t -> level_runs f t = plain_runs f t.
Proof.
  intros NA. unfold level_runs, plain_runs. apply runs_by_ext_in.
  intros a b Ha Hb. unfold no_alleles in NA. rewrite Forall_forall in NA.
  destruct (NA a Ha) as (A1 & A2), (NA b Hb) as (B1 & B2).
  unfold same_full. rewrite A1, A2, B1, B2. cbn. rewrite !andb_true_r. reflexivity.
Qed.

Lemma same_plain_refl f a : same_plain f a a = true.
Proof. unfold same_plain. rewrite String.eqb_refl, Qeq_bool_refl. reflexivity. Qed.

Lemma same_plain_sym f a b : same_plain f a b = true -> same_plain f b a = true.
Proof.
  unfold same_plain. rewrite !andb_true_iff. intros (H1 & H2).
  rewrite String.eqb_sym. auto using Qeq_bool_sym.
Qed.

Lemma same_plain_trans f a b c : same_plain f a b = true -> same_plain f b c = true -> same_plain f a c = true.
Proof.
  unfold same_plain. rewrite !andb_true_iff. intros (H1 & H2) (G1 & G2).
  apply String.eqb_eq in H1, G1. split.
  - apply String.eqb_eq. congruence.
  - eapply Qeq_bool_trans; eassumption.
Qed.

Theorem filter_runs : forall (f : filt) (t : list seg),
  Contig (map chrom t) ->
  squashed f t = map squash_region (level_runs f t) /\
  (f <> Fampdel -> apply_filter f t = map squash_region (level_runs f t)) /\
  is_max_runs (same_full f) t (level_runs f t) /\
  (forall r, In r (level_runs f t) -> spans_run r (squash_region r)).
Proof.
  intros f t C. pose proof (squashed_runs f t C) as E.
  split; [exact E|]. split; [|split].
  - intros Hf. destruct f; try exact E. contradiction Hf. reflexivity.
  - apply level_runs_max.
  - intros r _. apply squash_region_spans.
Qed.

Theorem squashed_runs_plain : forall (f : filt) (t : list seg),
  Contig (map chrom t) -> no_alleles t ->
  squashed f t = map squash_region (plain_runs f t) /\
  is_max_runs (same_plain f) t (plain_runs f t).
Proof.
  intros f t C NA. split.
  - rewrite <- (level_runs_plain f t NA). apply squashed_runs. exact C.
  - apply runs_by_is_max_runs.
    + apply same_plain_refl.
    + apply same_plain_sym.
    + apply same_plain_trans.
Qed.
