(* C17 -- the model's [bh] (numpy's p_adjust_bh: sort descending, multiply by n/(n-k),
   cumulative minimum, cap at 1, scatter back) is the Benjamini-Hochberg adjustment of
   Spec/Bintest.v.  Everything is closed under the global context. *)
From CNV Require Import Base.Prelude Base.QNum Proofs.QNumLemmas Gen.SegmetricsDefaults
  Model.Ranges Model.Segmetrics Model.Bintest Spec.Bintest.
From Coq Require Import Qround Qabs Sorting.Mergesort Orders Permutation Setoid Morphisms Psatz.
Local Open Scope Q_scope.

Definition pvals (ps : list Q) : Prop := Forall (fun p => 0 <= p /\ p <= 1) ps.
Definition nonnegs (ps : list Q) : Prop := Forall (fun p => 0 <= p) ps.

Lemma pvals_nonnegs ps : pvals ps -> nonnegs ps.
Proof. apply Forall_impl. intros p [H _]. exact H. Qed.

(* ------------------------------------------------------------------------ *)
(** * minl *)

Lemma minl_le_d d l : minl d l <= d.
Proof. unfold minl. destruct (fold_qmin2_spec l d) as (H & _ & _). exact H. Qed.
Lemma minl_le_in d l y : In y l -> minl d l <= y.
Proof. unfold minl. destruct (fold_qmin2_spec l d) as (_ & H & _). apply H. Qed.
Lemma minl_cases d l : minl d l = d \/ In (minl d l) l.
Proof. unfold minl. destruct (fold_qmin2_spec l d) as (_ & _ & H). exact H. Qed.
Lemma minl_glb lo d l : lo <= d -> (forall y, In y l -> lo <= y) -> lo <= minl d l.
Proof. intros Hd Hl. destruct (minl_cases d l) as [->|H]; auto. Qed.
Lemma minl_le_minl d d' l l' :
  d <= d' -> (forall y', In y' l' -> exists y, In y l /\ y <= y') -> minl d l <= minl d' l'.
Proof.
  intros Hd H. apply minl_glb.
  - pose proof (minl_le_d d l). lra.
  - intros y' Hy'. destruct (H y' Hy') as (y & Hy & Le).
    pose proof (minl_le_in d l y Hy). lra.
Qed.
Lemma minl_perm d l l' : Permutation l l' -> minl d l == minl d l'.
Proof.
  intro P. apply Qle_antisym; apply minl_le_minl; try lra; intros y Hy; exists y; split; try lra.
  - eapply Permutation_in; [symmetry; exact P|exact Hy].
  - eapply Permutation_in; [exact P|exact Hy].
Qed.

(* ------------------------------------------------------------------------ *)
(** * division helpers *)

Lemma div_mono_num a a' c : a <= a' -> 0 < c -> a / c <= a' / c.
Proof.
  intros H C. unfold Qdiv. apply Qmult_le_compat_r; [exact H|].
  apply Qlt_le_weak, Qinv_lt_0_compat, C.
Qed.
Lemma div_anti a b c : 0 <= a -> 0 < c -> c <= b -> a / b <= a / c.
Proof.
  intros A C B. apply Qle_shift_div_l; [exact C|].
  assert (Hb : 0 < b) by lra.
  assert (E : a / b * c == a * (c / b)) by (field; lra).
  rewrite E.
  assert (c / b <= 1) by (apply Qle_shift_div_r; lra).
  assert (0 <= c / b) by (apply Qle_shift_div_l; lra).
  nra.
Qed.

(* ------------------------------------------------------------------------ *)
(** * count_le, bh_term *)

Lemma count_le_cons t x l :
  count_le t (x :: l) = if qle_b x t then S (count_le t l) else count_le t l.
Proof. unfold count_le. cbn [filter]. destruct (qle_b x t); reflexivity. Qed.

Lemma count_le_length t l : (count_le t l <= length l)%nat.
Proof.
  induction l as [|x l IH]; [cbn; lia|]. rewrite count_le_cons. cbn [length].
  destruct (qle_b x t); lia.
Qed.

Lemma count_le_pos t x l : In x l -> x <= t -> (1 <= count_le t l)%nat.
Proof.
  induction l as [|y l IH]; [intros []|]. intros [->|H] Le; rewrite count_le_cons.
  - apply qle_b_iff in Le. rewrite Le. lia.
  - destruct (qle_b y t); [lia|auto].
Qed.

Lemma count_le_zero t l : Forall (fun x => t < x) l -> count_le t l = 0%nat.
Proof.
  induction 1 as [|x l Hx F IH]; [reflexivity|]. rewrite count_le_cons.
  apply (qle_b_false x t) in Hx. rewrite Hx. exact IH.
Qed.

Lemma filter_perm {A} (f : A -> bool) l l' : Permutation l l' -> Permutation (filter f l) (filter f l').
Proof.
  induction 1 as [|x l l' H IH|x y l|l1 l2 l3 H1 IH1 H2 IH2]; cbn [filter].
  - constructor.
  - destruct (f x); [constructor|]; exact IH.
  - destruct (f x), (f y); try reflexivity. constructor.
  - etransitivity; eauto.
Qed.

Lemma count_le_perm t l l' : Permutation l l' -> count_le t l = count_le t l'.
Proof. intro P. unfold count_le. apply Permutation_length, filter_perm, P. Qed.

Lemma bh_term_perm ps ps' t : Permutation ps ps' -> bh_term ps t = bh_term ps' t.
Proof.
  intro P. unfold bh_term. rewrite (Permutation_length P), (count_le_perm t _ _ P). reflexivity.
Qed.

Lemma bh_term_spec ps t : bh_term ps t == qofnat (length ps) * t / qofnat (count_le t ps).
Proof. unfold bh_term. rewrite qdiv_spec, qmul_spec. reflexivity. Qed.

Lemma bh_term_ge ps t : 0 <= t -> In t ps -> t <= bh_term ps t.
Proof.
  intros T I. rewrite bh_term_spec.
  assert (C1 : (1 <= count_le t ps)%nat) by (apply (count_le_pos t t); [exact I|lra]).
  pose proof (count_le_length t ps) as C2.
  pose proof (qofnat_pos _ C1) as P. pose proof (qofnat_le _ _ C2) as L.
  apply Qle_shift_div_l; [exact P|]. nra.
Qed.

(* ------------------------------------------------------------------------ *)
(** * bh_val: invariance, bounds, monotonicity *)

Theorem bh_val_perm ps ps' p : Permutation ps ps' -> bh_val ps p == bh_val ps' p.
Proof.
  intro P. unfold bh_val.
  rewrite (map_ext (bh_term ps) (bh_term ps')) by (intro t; apply bh_term_perm, P).
  apply minl_perm, Permutation_map, filter_perm, P.
Qed.

Lemma qle_b_eq_l p p' t : p == p' -> qle_b p t = qle_b p' t.
Proof.
  intro E. destruct (qle_b p t) eqn:A, (qle_b p' t) eqn:B; try reflexivity.
  - apply qle_b_iff in A. apply qle_b_false in B. lra.
  - apply qle_b_iff in B. apply qle_b_false in A. lra.
Qed.

Theorem bh_val_eq ps p p' : p == p' -> bh_val ps p == bh_val ps p'.
Proof.
  intro E. unfold bh_val.
  rewrite (filter_ext (fun t => qle_b p t) (fun t => qle_b p' t)) by (intro t; apply qle_b_eq_l, E).
  reflexivity.
Qed.

Theorem bh_val_mono ps p p' : p <= p' -> bh_val ps p <= bh_val ps p'.
Proof.
  intro Le. unfold bh_val. apply minl_le_minl; [lra|].
  intros y Hy. exists y. split; [|lra].
  apply in_map_iff in Hy. destruct Hy as (t & <- & Ht). apply in_map.
  apply filter_In in Ht. destruct Ht as [I Q]. apply filter_In. split; [exact I|].
  apply qle_b_iff in Q. apply qle_b_iff. lra.
Qed.

Lemma bh_val_le_1 ps p : bh_val ps p <= 1.
Proof. unfold bh_val. apply minl_le_d. Qed.

Lemma bh_val_ge ps p : nonnegs ps -> p <= 1 -> p <= bh_val ps p.
Proof.
  intros N P1. unfold bh_val. apply minl_glb; [exact P1|].
  intros y Hy. apply in_map_iff in Hy. destruct Hy as (t & <- & Ht).
  apply filter_In in Ht. destruct Ht as [I Q]. apply qle_b_iff in Q.
  unfold nonnegs in N. rewrite Forall_forall in N.
  pose proof (bh_term_ge ps t (N t I) I). lra.
Qed.

Theorem bh_val_bounds ps p : pvals ps -> In p ps -> p <= bh_val ps p /\ bh_val ps p <= 1.
Proof.
  intros PV I. split; [|apply bh_val_le_1].
  apply bh_val_ge; [apply pvals_nonnegs, PV|].
  unfold pvals in PV. rewrite Forall_forall in PV. apply (PV p I).
Qed.

(* ------------------------------------------------------------------------ *)
(** * counting on an ascending list *)

Lemma sorted_count_nth s t j : sortedQ s -> (j < count_le t s)%nat -> nthq j s <= t.
Proof.
  intro Hs; revert j; induction Hs as [|a l Hs IH F]; intros j H.
  - cbn in H. lia.
  - rewrite count_le_cons in H. destruct (qle_b a t) eqn:E.
    + destruct j as [|j]; [apply qle_b_iff in E; exact E|].
      unfold nthq; cbn [nth]. apply IH. lia.
    + apply (qle_b_false a t) in E.
      rewrite count_le_zero in H; [lia|].
      eapply Forall_impl; [|exact F]. intros x Hx. cbn in Hx. lra.
Qed.

Lemma sorted_nth_count s t j :
  sortedQ s -> (j < length s)%nat -> nthq j s <= t -> (S j <= count_le t s)%nat.
Proof.
  intro Hs; revert j; induction Hs as [|a l Hs IH F]; intros j L H.
  - cbn in L. lia.
  - cbn [length] in L. rewrite count_le_cons. destruct j as [|j].
    + unfold nthq in H; cbn [nth] in H. apply qle_b_iff in H. rewrite H. lia.
    + unfold nthq in H; cbn [nth] in H.
      assert (A : a <= t).
      { rewrite Forall_forall in F. assert (a <= nth j l 0) by (apply F, nth_In; lia). lra. }
      apply qle_b_iff in A. rewrite A.
      assert (S j <= count_le t l)%nat by (apply IH; [lia|exact H]). lia.
Qed.

(* ------------------------------------------------------------------------ *)
(** * the rank formula is the rank-free definition *)

Definition rank_term (s : list Q) (j : nat) : Q :=
  qdiv (qmul (qofnat (length s)) (nthq j s)) (qofnat (S j)).

Lemma rank_term_spec s j : rank_term s j == qofnat (length s) * nthq j s / qofnat (S j).
Proof. unfold rank_term. rewrite qdiv_spec, qmul_spec. reflexivity. Qed.

Lemma bh_rank_unfold s r : bh_rank s r = minl 1 (map (rank_term s) (seq r (length s - r))).
Proof. reflexivity. Qed.

Lemma bh_rank_is_val_nonneg s : sortedQ s -> nonnegs s ->
  forall r, (r < length s)%nat -> bh_rank s r == bh_val s (nthq r s).
Proof.
  intros Hs N r Hr. unfold nonnegs in N. rewrite Forall_forall in N.
  pose proof (qofnat_nonneg (length s)) as NQ.
  rewrite bh_rank_unfold. apply Qle_antisym.
  - (* rank <= val *)
    unfold bh_val. apply minl_glb; [apply minl_le_d|].
    intros y Hy. apply in_map_iff in Hy. destruct Hy as (t & <- & Ht).
    apply filter_In in Ht. destruct Ht as [I Q]. apply qle_b_iff in Q.
    pose proof (sorted_nth_count s t r Hs Hr Q) as C1.
    pose proof (count_le_length t s) as C2.
    set (c := count_le t s) in *.
    assert (G : nthq (c - 1) s <= t) by (apply sorted_count_nth; [exact Hs|fold c; lia]).
    assert (I' : In (rank_term s (c - 1)) (map (rank_term s) (seq r (length s - r)))).
    { apply in_map, in_seq. lia. }
    pose proof (minl_le_in 1 _ _ I') as M.
    assert (rank_term s (c - 1) <= bh_term s t); [|lra].
    rewrite rank_term_spec, bh_term_spec. fold c.
    replace (S (c - 1)) with c by lia.
    apply div_mono_num; [|apply qofnat_pos; lia].
    pose proof (N t I). nra.
  - (* val <= rank *)
    apply minl_glb; [apply bh_val_le_1|].
    intros y Hy. apply in_map_iff in Hy. destruct Hy as (j & <- & Hj). apply in_seq in Hj.
    assert (Lj : (j < length s)%nat) by lia.
    assert (Q : nthq r s <= nthq j s) by (apply sortedQ_nth_le; [exact Hs|lia]).
    assert (I : In (bh_term s (nthq j s)) (map (bh_term s) (filter (fun t => qle_b (nthq r s) t) s))).
    { apply in_map, filter_In. split; [apply nthq_In, Lj|apply qle_b_iff, Q]. }
    pose proof (minl_le_in 1 _ _ I) as M. fold (bh_val s (nthq r s)) in M.
    assert (bh_term s (nthq j s) <= rank_term s j); [|lra].
    rewrite rank_term_spec, bh_term_spec.
    assert (C : (S j <= count_le (nthq j s) s)%nat) by (apply sorted_nth_count; [exact Hs|exact Lj|lra]).
    apply div_anti.
    + pose proof (N _ (nthq_In s j Lj)). nra.
    + apply qofnat_pos. lia.
    + apply qofnat_le, C.
Qed.

Theorem bh_rank_is_val s : sortedQ s -> pvals s ->
  forall r, (r < length s)%nat -> bh_rank s r == bh_val s (nthq r s).
Proof. intros Hs PV. apply bh_rank_is_val_nonneg; [exact Hs|apply pvals_nonnegs, PV]. Qed.

(* ------------------------------------------------------------------------ *)
(** * steps_mul, cummin *)

Lemma steps_mul_length nq m v : length (steps_mul nq m v) = length v.
Proof. revert m; induction v as [|x v IH]; intro m; cbn; [reflexivity|]. now rewrite IH. Qed.

Lemma steps_mul_nth nq v : forall m j, (j < length v)%nat ->
  nth j (steps_mul nq m v) 0 == nq / qofnat (m - j) * nth j v 0.
Proof.
  induction v as [|x v IH]; intros m j H; [cbn in H; lia|].
  cbn [steps_mul]. destruct j as [|j]; cbn [nth].
  - rewrite qmul_spec, qdiv_spec. replace (m - 0)%nat with m by lia. reflexivity.
  - cbn [length] in H. rewrite IH by lia. replace (m - 1 - j)%nat with (m - S j)%nat by lia.
    reflexivity.
Qed.

Lemma cummin_from_length m l : length (cummin_from m l) = length l.
Proof. revert m; induction l as [|x l IH]; intro m; cbn; [reflexivity|]. now rewrite IH. Qed.
Lemma cummin_length l : length (cummin l) = length l.
Proof. destruct l; cbn; [reflexivity|]. now rewrite cummin_from_length. Qed.

Lemma cummin_from_spec l : forall m k, (k < length l)%nat ->
  nth k (cummin_from m l) 0 <= m /\
  (forall j, (j <= k)%nat -> nth k (cummin_from m l) 0 <= nth j l 0) /\
  (nth k (cummin_from m l) 0 = m \/ exists j, (j <= k)%nat /\ nth k (cummin_from m l) 0 = nth j l 0).
Proof.
  induction l as [|x l IH]; intros m k H; [cbn in H; lia|].
  cbn [cummin_from]. destruct (qmin2_spec m x) as (M1 & M2 & M3).
  destruct k as [|k]; cbn [nth].
  - repeat split; [exact M1| |].
    + intros j Hj. replace j with 0%nat by lia. exact M2.
    + destruct M3 as [M3|M3]; [now left|right; exists 0%nat; split; [lia|exact M3]].
  - cbn [length] in H. destruct (IH (qmin2 m x) k) as (I1 & I2 & I3); [lia|].
    repeat split.
    + lra.
    + intros [|j] Hj; cbn [nth]; [lra|apply I2; lia].
    + destruct I3 as [I3|(j & Hj & I3)].
      * rewrite I3. destruct M3 as [M3|M3]; [now left|right; exists 0%nat; split; [lia|exact M3]].
      * right. exists (S j). split; [lia|exact I3].
Qed.

Lemma cummin_spec l k : (k < length l)%nat ->
  (forall j, (j <= k)%nat -> nth k (cummin l) 0 <= nth j l 0) /\
  (exists j, (j <= k)%nat /\ nth k (cummin l) 0 = nth j l 0).
Proof.
  destruct l as [|x l]; intro H; [cbn in H; lia|]. cbn [cummin].
  destruct k as [|k]; cbn [nth].
  - split; [intros j Hj; replace j with 0%nat by lia; cbn; lra|exists 0%nat; split; [lia|reflexivity]].
  - cbn [length] in H. destruct (cummin_from_spec l x k) as (I1 & I2 & I3); [lia|]. split.
    + intros [|j] Hj; cbn [nth]; [exact I1|apply I2; lia].
    + destruct I3 as [I3|(j & Hj & I3)]; [exists 0%nat; split; [lia|exact I3]|].
      exists (S j). split; [lia|exact I3].
Qed.

(* ------------------------------------------------------------------------ *)
(** * the descending pass computes the rank formula of the ascending vector *)

Lemma bh_core a k : (k < length a)%nat ->
  qmin2 bh_cap (nth k (cummin (steps_mul (qofnat (length a)) (length a) (rev a))) 0)
  == bh_rank a (length a - S k).
Proof.
  intro Hk. set (n := length a) in *.
  set (T := steps_mul (qofnat n) n (rev a)).
  assert (LT : length T = n) by (unfold T; rewrite steps_mul_length, rev_length; reflexivity).
  assert (TT : forall j, (j < n)%nat -> nth j T 0 == rank_term a (n - S j)).
  { intros j Hj. unfold T. rewrite steps_mul_nth by (rewrite rev_length; exact Hj).
    rewrite rev_nth by exact Hj. fold n. rewrite rank_term_spec. fold n. unfold nthq.
    replace (S (n - S j)) with (n - j)%nat by lia.
    assert (0 < qofnat (n - j)) by (apply qofnat_pos; lia).
    field. lra. }
  destruct (cummin_spec T k) as (C1 & j0 & Hj0 & C2); [lia|].
  set (c := nth k (cummin T) 0) in *.
  rewrite bh_rank_unfold. fold n. change bh_cap with 1.
  destruct (qmin2_spec 1 c) as (M1 & M2 & M3).
  apply Qle_antisym.
  - apply minl_glb; [exact M1|].
    intros y Hy. apply in_map_iff in Hy. destruct Hy as (j & <- & Hj). apply in_seq in Hj.
    pose proof (C1 (n - S j)%nat ltac:(lia)) as C.
    rewrite TT in C by lia. replace (n - S (n - S j))%nat with j in C by lia. lra.
  - destruct M3 as [-> | ->]; [apply minl_le_d|].
    rewrite C2, TT by lia. apply minl_le_in, in_map, in_seq. lia.
Qed.

(* ------------------------------------------------------------------------ *)
(** * the sorted (p, index) pairs and the scatter *)

Lemma pair_sorted l : sortedQ (map fst (PairSort.sort l)).
Proof.
  assert (T : Transitive (fun x y => is_true (PairOrder.leb x y))).
  { intros x y z H1 H2. unfold is_true, PairOrder.leb in *.
    apply Qle_bool_iff in H1, H2. apply Qle_bool_iff. lra. }
  pose proof (PairSort.StronglySorted_sort l T) as Hs.
  induction Hs as [|a s Hs IH F]; cbn [map]; constructor; auto.
  apply Forall_map. eapply Forall_impl; [|exact F]. intros b Hb. now apply Qle_bool_iff.
Qed.

Lemma map_fst_combine_seq (ps : list Q) b : map fst (combine ps (seq b (length ps))) = ps.
Proof. revert b; induction ps as [|x ps IH]; intro b; cbn; [reflexivity|]. now rewrite IH. Qed.
Lemma map_snd_combine_seq (ps : list Q) b :
  map snd (combine ps (seq b (length ps))) = seq b (length ps).
Proof. revert b; induction ps as [|x ps IH]; intro b; cbn; [reflexivity|]. now rewrite IH. Qed.

Lemma in_combine_seq (ps : list Q) v i :
  In (v, i) (combine ps (seq 0 (length ps))) -> v = nth i ps 0.
Proof.
  intro H. destruct (In_nth _ _ (0, 0%nat) H) as (m & Hm & E).
  rewrite combine_length, seq_length, Nat.min_id in Hm.
  rewrite combine_nth in E by (now rewrite seq_length).
  rewrite seq_nth in E by exact Hm. cbn in E. injection E as E1 E2. subst. reflexivity.
Qed.

Lemma lookup_nth idx : forall (q : list Q) k, NoDup idx -> length idx = length q ->
  (k < length idx)%nat -> lookup_idx (nth k idx 0%nat) (combine idx q) = nth k q 0.
Proof.
  induction idx as [|i0 idx IH]; intros q k ND L H; [cbn in H; lia|].
  destruct q as [|q0 q]; [discriminate|]. cbn [combine lookup_idx].
  inversion ND as [|? ? NI ND']; subst.
  destruct k as [|k]; cbn [nth].
  - rewrite Nat.eqb_refl. reflexivity.
  - cbn [length] in H, L.
    assert (I : In (nth k idx 0%nat) idx) by (apply nth_In; lia).
    destruct (Nat.eqb (nth k idx 0%nat) i0) eqn:E.
    + apply Nat.eqb_eq in E. rewrite E in I. contradiction.
    + apply IH; [exact ND'|lia|lia].
Qed.

Lemma scatter_nth (idx : list nat) (q : list Q) n i k :
  NoDup idx -> length idx = length q -> (i < n)%nat -> (k < length idx)%nat ->
  nth k idx 0%nat = i ->
  nthq i (map (fun i => lookup_idx i (combine idx q)) (seq 0 n)) = nth k q 0.
Proof.
  intros ND L Hi Hk E. unfold nthq.
  rewrite (nth_indep _ 0 (lookup_idx 0%nat (combine idx q))) by (now rewrite map_length, seq_length).
  rewrite (map_nth (fun i => lookup_idx i (combine idx q))), seq_nth by exact Hi.
  cbn [Nat.add]. rewrite <- E. apply lookup_nth; assumption.
Qed.

Lemma bh_unfold ps : bh ps =
  map (fun i => lookup_idx i (combine (map snd (by_descend ps))
        (map (qmin2 bh_cap) (cummin (steps_mul (qofnat (length ps)) (length ps) (map fst (by_descend ps)))))))
      (seq 0 (length ps)).
Proof. reflexivity. Qed.

Theorem bh_length ps : length (bh ps) = length ps.
Proof. rewrite bh_unfold, map_length, seq_length. reflexivity. Qed.

(* nonnegative p-values suffice *)
Lemma bh_is_def_nonneg ps : nonnegs ps ->
  forall i, (i < length ps)%nat -> nthq i (bh ps) == bh_val ps (nthq i ps).
Proof.
  intros N i Hi. rewrite bh_unfold. unfold by_descend.
  set (n := length ps) in *.
  set (s := PairSort.sort (combine ps (seq 0 n))).
  assert (Ps : Permutation s (combine ps (seq 0 n))) by (symmetry; apply PairSort.Permuted_sort).
  set (a := map fst s).
  assert (Pa : Permutation a ps).
  { unfold a. etransitivity; [apply Permutation_map, Ps|]. unfold n. now rewrite map_fst_combine_seq. }
  assert (La : length a = n) by (apply Permutation_length, Pa).
  assert (Ls : length s = n) by (unfold a in La; now rewrite map_length in La).
  assert (Sa : sortedQ a) by apply pair_sorted.
  assert (Na : nonnegs a) by (eapply Permutation_Forall; [symmetry; exact Pa|exact N]).
  rewrite !map_rev. fold a.
  set (idx := rev (map snd s)).
  assert (Pidx : Permutation idx (seq 0 n)).
  { unfold idx. etransitivity; [symmetry; apply Permutation_rev|].
    etransitivity; [apply Permutation_map, Ps|]. unfold n. now rewrite map_snd_combine_seq. }
  assert (ND : NoDup idx) by (eapply Permutation_NoDup; [symmetry; exact Pidx|apply seq_NoDup]).
  assert (Lidx : length idx = n) by (rewrite (Permutation_length Pidx); apply seq_length).
  assert (Ii : In i idx) by (eapply Permutation_in; [symmetry; exact Pidx|apply in_seq; lia]).
  destruct (In_nth idx i 0%nat Ii) as (k & Hk & Ek).
  set (C := cummin (steps_mul (qofnat n) n (rev a))).
  assert (LC : length C = n) by (unfold C; now rewrite cummin_length, steps_mul_length, rev_length).
  rewrite (scatter_nth idx _ n i k ND) by (rewrite ?map_length; lia || assumption).
  change (nth k (map (qmin2 bh_cap) C) 0) with (nthq k (map (qmin2 bh_cap) C)).
  rewrite nthq_map by lia. unfold nthq at 1. unfold C. rewrite <- La at 1 2.
  rewrite bh_core by lia. rewrite La.
  rewrite bh_rank_is_val_nonneg by (assumption || lia).
  rewrite (bh_val_perm _ _ _ Pa).
  (* the value at rank n - S k is the value at position i *)
  assert (E : nthq (n - S k) a = nthq i ps); [|rewrite E; reflexivity].
  assert (Ipair : In (nth (n - S k) s (0, 0%nat)) s) by (apply nth_In; lia).
  assert (E2 : snd (nth (n - S k) s (0, 0%nat)) = i).
  { rewrite <- Ek. unfold idx. rewrite rev_nth by (rewrite map_length; lia).
    rewrite map_length, Ls. change 0%nat with (snd (0, 0%nat)) at 2. now rewrite map_nth. }
  assert (E1 : fst (nth (n - S k) s (0, 0%nat)) = nthq (n - S k) a).
  { unfold a, nthq. change 0 with (fst (0, 0%nat)) at 2. now rewrite map_nth. }
  destruct (nth (n - S k) s (0, 0%nat)) as [v i'] eqn:Epair. cbn in E1, E2. subst i'.
  rewrite <- E1. unfold nthq. apply in_combine_seq. fold n.
  eapply Permutation_in; [exact Ps|exact Ipair].
Qed.

(* the model computes, at every position, the rank-free definition *)
Theorem bh_is_def ps : pvals ps ->
  forall i, (i < length ps)%nat -> nthq i (bh ps) == bh_val ps (nthq i ps).
Proof. intro PV. apply bh_is_def_nonneg, pvals_nonnegs, PV. Qed.
