(* C06 source tie of merge._squash_tuples (whole body, regenerated from the Python source on every run as
   Gen/FnIvSquash.v):

       rows = [kr[1] for kr in keyed_rows]
       firsttup = rows[0]
       if len(rows) == 1:
           return firsttup
       newfields = {key: combiner(pd.Series([getattr(r, key) for r in rows])) for key, combiner in combine.items()}
       return firsttup._replace( **newfields)

   The list of rows, the combined fields and the namedtuple built from them are opaque inputs keyed by
   their source text; translated is the decision: a group of one row is returned as it is, a larger one
   as the combined row.  Here: Model/Intervals.v squash -- what merge makes of each group of
   overlapping rows -- IS the generated function on the group's size, its first row and the model's
   combined row (first start, largest end, combined payload), through any encoding of rows as the
   translator's opaque values. *)
From CNV Require Import Base.Prelude Model.IvRow Model.Intervals.
From CNV Require Gen.FnIvSquash.

Local Open Scope Z_scope.

Lemma source_squash_tuples (d1 n first d2 combined : Z) :
  FnIvSquash.fn_squash_tuples d1 n first d2 combined = if n =? 1 then first else combined.
Proof. reflexivity. Qed.

Section SquashTie.
Context {A : Type} (comb : A -> list A -> A).
Notation row := (@row A).

(* firsttup._replace( **newfields): start = first_of, end = max, the other columns combined *)
Definition combined_row (r : row) (g : list row) : row :=
  (lo r, maxhi (hi r) g, comb (pay r) (map pay (r :: g))).

Theorem source_squash (enc : row -> Z) (d1 d2 : Z) (r : row) (g : list row) :
  map enc (squash comb (r :: g)) =
  [FnIvSquash.fn_squash_tuples d1 (Z.of_nat (length (r :: g))) (enc r) d2 (enc (combined_row r g))].
Proof.
  rewrite source_squash_tuples. destruct g as [|x t]; [reflexivity|].
  replace (Z.of_nat (length (r :: x :: t)) =? 1) with false by (cbn [length]; lia).
  reflexivity.
Qed.

(* merge's slow path, every group through the generated function *)
Theorem source_merge_slow (enc : row -> Z) (d1 d2 : Z) (bp : Z) (t : list row) :
  map enc (merge_slow comb bp t) =
  flat_map (fun grp => match grp with
                       | [] => []
                       | r :: g => [FnIvSquash.fn_squash_tuples d1 (Z.of_nat (length grp)) (enc r) d2
                                      (enc (combined_row r g))]
                       end)
           (groups bp (sort_rows t)).
Proof.
  unfold merge_slow. induction (groups bp (sort_rows t)) as [|grp gs IH]; [reflexivity|].
  cbn [flat_map]. rewrite map_app, IH. f_equal.
  destruct grp as [|r g]; [reflexivity|]. apply source_squash.
Qed.

End SquashTie.
