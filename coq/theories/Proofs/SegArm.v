(* C03 proofs, part 2: one piece handed to _do_segmentation (an arm, or a
   chromosome for the whole-table methods): cutting the survivors at ANY list of
   breakpoints and stretching gives a chain of segments between the piece's
   bounds whose groups concatenate to the survivors. *)
From CNV Require Import Base.Prelude Model.Arms Model.Segment Spec.Segments Proofs.SegTiles.

Definition rgrp (r : rseg) : list bin := group_bins (r_group r).
Notation rtiles := (tiles r_lo r_hi rgrp).

(* ---- bins_in -------------------------------------------------------------- *)

Lemma bins_in_le e l E : bins_in e l E -> e <= E.
Proof.
  revert e; induction l as [|b t IH]; intros e H; cbn in H; [exact H|].
  destruct H as (H1 & H2 & H3). apply IH in H3. lia.
Qed.

Lemma bins_in_weaken e e' l E E' : e' <= e -> E <= E' -> bins_in e l E -> bins_in e' l E'.
Proof.
  revert e e'; induction l as [|b t IH]; intros e e' He HE H; cbn in *; [lia|].
  destruct H as (H1 & H2 & H3). repeat split; try lia. apply (IH (b_hi b) (b_hi b)); [lia|assumption|assumption].
Qed.

Lemma bins_in_app_inv e a b E : bins_in e (a ++ b) E -> exists m, bins_in e a m /\ bins_in m b E.
Proof.
  revert e; induction a as [|x t IH]; intros e H; cbn in *.
  - exists e. split; [lia|exact H].
  - destruct H as (H1 & H2 & H3). destruct (IH _ H3) as (m & Ha & Hb).
    exists m. repeat split; assumption.
Qed.

Lemma bins_in_app e a m b E : bins_in e a m -> bins_in m b E -> bins_in e (a ++ b) E.
Proof.
  revert e; induction a as [|x t IH]; intros e Ha Hb; cbn in *.
  - apply (bins_in_weaken m e b E E); [lia|lia|assumption].
  - destruct Ha as (H1 & H2 & H3). repeat split; try assumption. apply IH; assumption.
Qed.

Lemma bins_in_all e l E : bins_in e l E -> Forall (fun b => e <= b_lo b /\ b_lo b < b_hi b /\ b_hi b <= E) l.
Proof.
  revert e; induction l as [|b t IH]; intros e H; cbn in H; [constructor|].
  destruct H as (H1 & H2 & H3). pose proof (bins_in_le _ _ _ H3). constructor; [lia|].
  eapply Forall_impl; [|apply (IH _ H3)]. cbn. intros x Hx. lia.
Qed.

Lemma survivors_cons f t : survivors (f :: t) = if snd f then fst f :: survivors t else survivors t.
Proof. unfold survivors; cbn. destruct (snd f); reflexivity. Qed.

Lemma survivors_app a b : survivors (a ++ b) = survivors a ++ survivors b.
Proof. unfold survivors. rewrite filter_app', map_app. reflexivity. Qed.

Lemma bins_in_survivors e fl E : bins_in e (map fst fl) E -> bins_in e (survivors fl) E.
Proof.
  revert e; induction fl as [|f t IH]; intros e H; cbn in H; [exact H|].
  destruct H as (H1 & H2 & H3). rewrite survivors_cons. destruct (snd f); cbn.
  - repeat split; try assumption. apply IH; exact H3.
  - apply (bins_in_weaken (b_hi (fst f)) e _ E E); [lia|lia|]. apply IH; exact H3.
Qed.

Lemma last_cons {A} (y : A) r x : last (y :: r) x = last r y.
Proof.
  revert y x; induction r as [|z r IH]; intros y x; [reflexivity|].
  change (last (y :: z :: r) x) with (last (z :: r) x). rewrite (IH z x), (IH z y). reflexivity.
Qed.

Lemma bins_in_group e x r E :
  bins_in e (x :: r) E ->
  e <= b_lo x /\ b_lo x < b_hi (last r x) /\ b_hi (last r x) <= E /\
  Forall (fun b => b_lo x <= b_lo b /\ b_lo b < b_hi b /\ b_hi b <= b_hi (last r x)) (x :: r).
Proof.
  revert e x; induction r as [|y r IH]; intros e x H.
  - cbn in H. destruct H as (H1 & H2 & H3). cbn. repeat split; try lia. constructor; [lia|constructor].
  - cbn [bins_in] in H. destruct H as (H1 & H2 & H3).
    destruct (IH _ _ H3) as (I1 & I2 & I3 & I4). rewrite last_cons.
    repeat split; try lia. constructor; [lia|].
    eapply Forall_impl; [|exact I4]. cbn. intros b Hb. lia.
Qed.

Lemma bins_in_tight e x r E :
  bins_in e (x :: r) E -> bins_in (b_lo x) (x :: r) (b_hi (last r x)) /\ e <= b_lo x /\ b_hi (last r x) <= E.
Proof.
  revert e x; induction r as [|y r IH]; intros e x H.
  - cbn in *. lia.
  - cbn [bins_in] in H. destruct H as (H1 & H2 & H3). destruct (IH _ _ H3) as (I1 & I2 & I3).
    rewrite last_cons. split; [|lia].
    change (b_lo x <= b_lo x /\ b_lo x < b_hi x /\ bins_in (b_hi x) (y :: r) (b_hi (last r y))).
    split; [lia|]. split; [lia|].
    apply (bins_in_weaken (b_lo y) (b_hi x) (y :: r) (b_hi (last r y)) (b_hi (last r y))); [lia|lia|exact I1].
Qed.

(* ---- groups --------------------------------------------------------------- *)

Lemma group_tiles e x r E : bins_in e (x :: r) E -> rtiles e [seg_of_group (x, r)] E.
Proof.
  intros H. destruct (bins_in_group _ _ _ _ H) as (H1 & H2 & H3 & H4).
  cbn. repeat split; try lia. exact H4.
Qed.

Lemma groups_tiles pos bps l e E :
  bins_in e l E -> rtiles e (map seg_of_group (groups_from pos bps l)) E.
Proof.
  revert pos l e; induction bps as [|b t IH]; intros pos l e H.
  - cbn. destruct l as [|x r]; [exact H|]. apply group_tiles; exact H.
  - cbn [groups_from]. set (n := Z.to_nat (b - pos)).
    rewrite <- (firstn_skipn n l) in H. apply bins_in_app_inv in H. destruct H as (m & Ha & Hb).
    destruct (firstn n l) as [|x r] eqn:Ef.
    + apply IH. apply (bins_in_weaken m e _ E E); [cbn in Ha; lia|lia|exact Hb].
    + cbn [map]. change (?a :: ?l) with ([a] ++ l). apply (tiles_app _ _ _ e _ m).
      * apply group_tiles; exact Ha.
      * apply IH; exact Hb.
Qed.

Lemma groups_concat pos bps l : grouped rgrp (map seg_of_group (groups_from pos bps l)) = l.
Proof.
  revert pos l; induction bps as [|b t IH]; intros pos l.
  - cbn. destruct l as [|x r]; [reflexivity|]. unfold grouped; cbn. rewrite app_nil_r. reflexivity.
  - cbn [groups_from]. set (n := Z.to_nat (b - pos)).
    rewrite <- (firstn_skipn n l) at 2.
    destruct (firstn n l) as [|x r] eqn:Ef.
    + rewrite IH. reflexivity.
    + cbn [map]. unfold grouped in *; cbn [map concat]. rewrite IH. reflexivity.
Qed.

(* ---- stretch -------------------------------------------------------------- *)

Lemma stretch_lo_tiles e0 v e l E : e0 <= v -> v <= e -> rtiles e l E -> rtiles e0 (stretch_lo v l) E.
Proof.
  intros H0 Hv H. destruct l as [|r t]; cbn in *; [lia|].
  destruct H as (H1 & H2 & H3 & H4). repeat split; try lia; try assumption.
  eapply Forall_impl; [|exact H3]. unfold inb; cbn. intros b Hb. lia.
Qed.

Lemma stretch_hi_tiles e l E V E0 : E <= V -> V <= E0 -> rtiles e l E -> rtiles e (stretch_hi V l) E0.
Proof.
  intros HV H0. revert e; induction l as [|r t IH]; intros e H.
  - cbn in *. lia.
  - cbn [tiles] in H. destruct H as (H1 & H2 & H3 & H4). destruct t as [|r' t'].
    + cbn in H4. cbn. repeat split; try lia.
      eapply Forall_impl; [|exact H3]. unfold inb; cbn. intros b Hb. lia.
    + change (stretch_hi V (r :: r' :: t')) with (r :: stretch_hi V (r' :: t')).
      cbn [tiles]. repeat split; try assumption. apply IH; exact H4.
Qed.

Lemma stretch_lo_grouped v l : grouped rgrp (stretch_lo v l) = grouped rgrp l.
Proof. destruct l; reflexivity. Qed.

Lemma stretch_hi_grouped v l : grouped rgrp (stretch_hi v l) = grouped rgrp l.
Proof.
  induction l as [|r t IH]; [reflexivity|]. destruct t as [|r' t']; [reflexivity|].
  change (stretch_hi v (r :: r' :: t')) with (r :: stretch_hi v (r' :: t')).
  unfold grouped in *; cbn [map concat]. cbn [map concat] in IH. rewrite IH. reflexivity.
Qed.

Lemma stretch_lo_hd v r t : hd_opt (stretch_lo v (r :: t)) = Some (set_lo v r).
Proof. reflexivity. Qed.

Lemma stretch_hi_hd_lo v l r : hd_opt l = Some r -> exists r', hd_opt (stretch_hi v l) = Some r' /\ r_lo r' = r_lo r.
Proof.
  destruct l as [|x t]; [discriminate|]. cbn. intros [= ->]. destruct t; cbn; eexists; split; reflexivity.
Qed.

Lemma stretch_hi_last v l : l <> [] -> exists r', last_opt (stretch_hi v l) = Some r' /\ r_hi r' = v.
Proof.
  induction l as [|r t IH]; [congruence|]. intros _. destruct t as [|r' t'].
  - cbn. eexists; split; reflexivity.
  - change (stretch_hi v (r :: r' :: t')) with (r :: stretch_hi v (r' :: t')).
    destruct IH as (x & Hx & Hv); [congruence|]. exists x. split; [|exact Hv].
    destruct (stretch_hi v (r' :: t')) eqn:E; [discriminate|]. exact Hx.
Qed.

Lemma stretch_hi_nil v l : stretch_hi v l = [] -> l = [].
Proof. destruct l as [|r [|r' t]]; cbn; congruence. Qed.

(* ---- one arm -------------------------------------------------------------- *)

Lemma last_map {A B} (f : A -> B) l d : last (map f l) (f d) = f (last l d).
Proof. induction l as [|x t IH]; [reflexivity|]. cbn [map]. rewrite !last_cons. clear IH. revert x; induction t as [|y t IH]; intros x; [reflexivity|]. cbn [map]. rewrite !last_cons. apply IH. Qed.

Lemma arm_spans (f : fbin) (t : list fbin) :
  span_lo (map fst (f :: t)) = b_lo (fst f) /\ span_hi (map fst (f :: t)) = b_hi (fst (last (f :: t) f)).
Proof.
  cbn [map span_lo span_hi]. split; [reflexivity|].
  rewrite last_cons. rewrite (last_map fst t f). reflexivity.
Qed.

Lemma arm_tiles fl bps e E :
  bins_in e (map fst fl) E ->
  rtiles e (arm_rsegs fl bps) E /\ grouped rgrp (arm_rsegs fl bps) = survivors fl.
Proof.
  intros H. destruct fl as [|f t].
  - cbn in *. split; [exact H|reflexivity].
  - unfold arm_rsegs. remember (f :: t) as fl eqn:Efl.
    assert (Ht : bins_in (b_lo (fst f)) (map fst fl) (b_hi (fst (last fl f))) /\ e <= b_lo (fst f) /\ b_hi (fst (last fl f)) <= E).
    { subst fl. cbn [map] in *. pose proof (bins_in_tight _ _ _ _ H) as Hq.
      rewrite last_cons. rewrite <- (last_map fst t f). exact Hq. }
    destruct Ht as (Ht & He & HE).
    split.
    + apply (tiles_weaken r_lo r_hi rgrp (b_lo (fst f)) e _ (b_hi (fst (last fl f))) E); [lia|lia|].
      apply (stretch_hi_tiles _ _ (b_hi (fst (last fl f)))); [apply Z.le_refl|apply Z.le_refl|].
      apply (stretch_lo_tiles _ _ (b_lo (fst f))); [lia|lia|].
      apply groups_tiles. apply bins_in_survivors. exact Ht.
    + rewrite stretch_hi_grouped, stretch_lo_grouped. apply groups_concat.
Qed.

Lemma groups_from_nil pos bps : groups_from pos bps [] = [].
Proof.
  revert pos; induction bps as [|x b IH]; intros pos; cbn; [reflexivity|].
  rewrite firstn_nil, skipn_nil. apply IH.
Qed.

Lemma arm_rsegs_nil fl bps : survivors fl = [] -> arm_rsegs fl bps = [].
Proof.
  intros H. destruct fl as [|f t]; [reflexivity|]. unfold arm_rsegs. rewrite H.
  unfold groups_of_breaks. rewrite groups_from_nil. reflexivity.
Qed.

Lemma raw_nonempty bps l : l <> [] -> map seg_of_group (groups_of_breaks bps l) <> [].
Proof.
  intros Hl Hn. pose proof (groups_concat 0 bps l) as Hc. unfold groups_of_breaks in Hn.
  rewrite Hn in Hc. cbn in Hc. congruence.
Qed.

Lemma arm_rsegs_edges fl bps :
  survivors fl <> [] ->
  exists r0 rl, hd_opt (arm_rsegs fl bps) = Some r0 /\ last_opt (arm_rsegs fl bps) = Some rl /\
                r_lo r0 = span_lo (map fst fl) /\ r_hi rl = span_hi (map fst fl).
Proof.
  intros Hs. destruct fl as [|f t]; [cbn in Hs; congruence|].
  destruct (arm_spans f t) as (Slo & Shi). rewrite Slo, Shi.
  unfold arm_rsegs. remember (f :: t) as fl eqn:Efl.
  pose proof (raw_nonempty bps _ Hs) as Hraw.
  destruct (map seg_of_group (groups_of_breaks bps (survivors fl))) as [|r rest]; [congruence|].
  destruct (stretch_hi_hd_lo (b_hi (fst (last fl f))) (stretch_lo (b_lo (fst f)) (r :: rest)) _ (stretch_lo_hd _ r rest))
    as (r0 & H0 & L0).
  destruct (stretch_hi_last (b_hi (fst (last fl f))) (stretch_lo (b_lo (fst f)) (r :: rest))) as (rl & Hl & Ll).
  { cbn. congruence. }
  exists r0, rl. repeat split; assumption.
Qed.
