(* C11: bounded noise with unequal weights -- the slope of the weighted tent against the noise bound.
   Weights in [wmin, wmax], 0 < wmin: inside the support the weighted tent is at most
   1 - |k - t| wmin / (h wmax); so if d bins of that slope outweigh the noise at both ends,
   4 h eps wmax < d D wmin, every position at distance >= d is strictly below the value at t. *)
From Coq Require Import QArith.Qabs.
From CNV Require Import Base.Prelude Model.Haar Spec.Haar Spec.HaarNoise Proofs.HaarConv Proofs.HaarFlat
  Proofs.HaarUnify Proofs.HaarPeaks Proofs.HaarStepLib Proofs.HaarMeans Proofs.HaarStep Proofs.HaarStepW
  Proofs.HaarNoise.
From Coq Require Import Lqa.

Local Open Scope Q_scope.

Lemma weights_between_pos wmin wmax w : 0 < wmin -> weights_between wmin wmax w -> all_pos w.
Proof.
  intros Hm H. unfold all_pos, weights_between in *. rewrite Forall_forall in *. intros x Hx.
  destruct (H x Hx). lra.
Qed.

Section WShares.
Variable w : list Q.
Variables (t n : nat) (h : Z) (wmin wmax : Q).
Hypothesis Hlen : length w = n.
Hypothesis Hmin : 0 < wmin.
Hypothesis Hb : weights_between wmin wmax w.
Hypothesis Hh : (1 <= h <= Z.of_nat t)%Z.
Hypothesis Hn : (Z.of_nat t + h <= Z.of_nat n)%Z.

Lemma pw_between j : (- h <= j < Z.of_nat n + h)%Z -> wmin <= padded w j /\ padded w j <= wmax.
Proof.
  intros Hj. unfold padded. rewrite Hlen.
  apply (nth_Forall (fun x => wmin <= x /\ x <= wmax)); [exact Hb|].
  rewrite Hlen. pose proof (mirror_in (Z.of_nat n) j ltac:(lia)). lia.
Qed.

Lemma wmax_pos : 0 < wmax.
Proof. destruct (pw_between 0%Z ltac:(lia)). lra. Qed.

Lemma Wn_upper s : (- h <= s)%Z -> (s <= Z.of_nat n)%Z ->
  0 < wsum (padded w) s (Z.to_nat h) /\ wsum (padded w) s (Z.to_nat h) <= inject_Z h * wmax.
Proof.
  intros H1 H2. split.
  - apply wsum_pos; [lia|]. intros j Hj. destruct (pw_between j ltac:(lia)). lra.
  - rewrite <- (Z2Nat.id h) at 2 by lia.
    rewrite <- (wsum_const (fun _ => wmax) s (Z.to_nat h) wmax) by (intros; reflexivity).
    apply wsum_le. intros j Hj. apply (pw_between j). lia.
Qed.

(* weight at or after t in the window starting at s: at least wmin per such bin *)
Lemma Un_lower s : (- h <= s)%Z -> (s <= Z.of_nat n)%Z ->
  wmin * inject_Z (cnt_ge (Z.of_nat t) s h) <= wsum (fun j => ustep (Z.of_nat t) j * padded w j) s (Z.to_nat h).
Proof.
  intros H1 H2.
  rewrite <- (Z2Nat.id h) at 1 by lia. rewrite <- wsum_ustep, <- wsum_scale.
  apply wsum_le. intros j Hj. destruct (pw_between j ltac:(lia)) as [A _].
  unfold ustep. destruct (Z.of_nat t <=? j)%Z; lra.
Qed.

(* weight before t in the window: at least wmin per such bin *)
Lemma Vn_lower s : (- h <= s)%Z -> (s <= Z.of_nat n)%Z ->
  wmin * inject_Z (h - cnt_ge (Z.of_nat t) s h)
  <= wsum (padded w) s (Z.to_nat h) - wsum (fun j => ustep (Z.of_nat t) j * padded w j) s (Z.to_nat h).
Proof.
  intros H1 H2.
  assert (E : wsum (padded w) s (Z.to_nat h) - wsum (fun j => ustep (Z.of_nat t) j * padded w j) s (Z.to_nat h)
              == wsum (fun j => (1 - ustep (Z.of_nat t) j) * padded w j) s (Z.to_nat h)).
  { rewrite <- wsum_minus. apply wsum_ext. intros j Hj. ring. }
  rewrite E.
  assert (C : wmin * inject_Z (h - cnt_ge (Z.of_nat t) s h)
              == wsum (fun j => wmin * (1 - ustep (Z.of_nat t) j)) s (Z.to_nat h)).
  { rewrite wsum_scale, wsum_minus. rewrite (wsum_const (fun _ => 1) s (Z.to_nat h) 1) by (intros; reflexivity).
    rewrite wsum_ustep. rewrite Z2Nat.id by lia. unfold Zminus. rewrite inject_Z_plus, inject_Z_opp. ring. }
  rewrite C. apply wsum_le. intros j Hj. destruct (pw_between j ltac:(lia)) as [A _].
  unfold ustep. destruct (Z.of_nat t <=? j)%Z; lra.
Qed.

Definition rho_bin : Q := wmin / (inject_Z h * wmax).

Lemma rho_bin_pos : 0 < rho_bin.
Proof.
  unfold rho_bin. assert (0 < inject_Z h) by (apply inject_Z_pos; lia). pose proof wmax_pos.
  apply Qlt_shift_div_l; [nra|lra].
Qed.

(* the share past t is at least rho_bin per bin past t, and at most 1 - rho_bin per bin before t *)
Lemma Qmult_le_l_weak x y z : 0 <= x -> y <= z -> x * y <= x * z.
Proof. intros. nra. Qed.

Lemma share_bounds s : (- h <= s)%Z -> (s <= Z.of_nat n)%Z ->
  inject_Z (cnt_ge (Z.of_nat t) s h) * rho_bin <= weight_share_after w (Z.of_nat t) h s /\
  weight_share_after w (Z.of_nat t) h s <= 1 - inject_Z (h - cnt_ge (Z.of_nat t) s h) * rho_bin.
Proof.
  intros H1 H2. unfold weight_share_after, rho_bin.
  destruct (Wn_upper s H1 H2) as [W0 W1].
  pose proof (Un_lower s H1 H2) as U. pose proof (Vn_lower s H1 H2) as V.
  set (Wn := wsum (padded w) s (Z.to_nat h)) in *.
  set (Un := wsum (fun j => ustep (Z.of_nat t) j * padded w j) s (Z.to_nat h)) in *.
  assert (Hh0 : 0 < inject_Z h) by (apply inject_Z_pos; lia).
  pose proof wmax_pos as Wm.
  assert (HW : 0 < inject_Z h * wmax) by nra.
  assert (C0 : 0 <= inject_Z (cnt_ge (Z.of_nat t) s h)).
  { change 0 with (inject_Z 0). rewrite <- Zle_Qle. unfold cnt_ge. lia. }
  assert (C1 : 0 <= inject_Z (h - cnt_ge (Z.of_nat t) s h)).
  { change 0 with (inject_Z 0). rewrite <- Zle_Qle. unfold cnt_ge. lia. }
  split.
  - apply Qle_shift_div_l; [exact W0|].
    assert (E : inject_Z (cnt_ge (Z.of_nat t) s h) * (wmin / (inject_Z h * wmax)) * Wn
                == (wmin * inject_Z (cnt_ge (Z.of_nat t) s h)) * (Wn / (inject_Z h * wmax))) by (field; lra).
    rewrite E.
    assert (R1 : Wn / (inject_Z h * wmax) <= 1) by (apply Qle_shift_div_r; [exact HW|lra]).
    assert (R0 : 0 <= Wn / (inject_Z h * wmax)) by (apply Qle_shift_div_l; [exact HW|lra]).
    assert (X0 : 0 <= wmin * inject_Z (cnt_ge (Z.of_nat t) s h)) by nra.
    set (X := wmin * inject_Z (cnt_ge (Z.of_nat t) s h)) in *. set (r := Wn / (inject_Z h * wmax)) in *.
    assert (X * r <= X * 1) by (apply Qmult_le_l_weak; assumption). lra.
  - apply Qle_shift_div_r; [exact W0|].
    assert (E : (1 - inject_Z (h - cnt_ge (Z.of_nat t) s h) * (wmin / (inject_Z h * wmax))) * Wn
                == Wn - (wmin * inject_Z (h - cnt_ge (Z.of_nat t) s h)) * (Wn / (inject_Z h * wmax))) by (field; lra).
    rewrite E.
    assert (R1 : Wn / (inject_Z h * wmax) <= 1) by (apply Qle_shift_div_r; [exact HW|lra]).
    assert (R0 : 0 <= Wn / (inject_Z h * wmax)) by (apply Qle_shift_div_l; [exact HW|lra]).
    assert (X0 : 0 <= wmin * inject_Z (h - cnt_ge (Z.of_nat t) s h)) by nra.
    set (X := wmin * inject_Z (h - cnt_ge (Z.of_nat t) s h)) in *. set (r := Wn / (inject_Z h * wmax)) in *.
    assert (X * r <= X * 1) by (apply Qmult_le_l_weak; assumption). lra.
Qed.

(* the weighted tent: between 0 and 1 - min(h, |k - t|) rho_bin *)
Lemma wtent_bounds k : (0 <= k < Z.of_nat n)%Z ->
  0 <= weighted_tent w (Z.of_nat t) h k /\
  weighted_tent w (Z.of_nat t) h k <= 1 - inject_Z (Z.min h (Z.abs (k - Z.of_nat t))) * rho_bin.
Proof.
  intros Hk. pose proof (weights_between_pos wmin wmax w Hmin Hb) as Hp.
  pose proof rho_bin_pos as Rp.
  destruct (Z_le_gt_dec k (Z.of_nat t)) as [L|L].
  - (* the lower window lies before t *)
    assert (Z0 : weight_share_after w (Z.of_nat t) h (k - h) == 0).
    { destruct (Z_le_gt_dec 0 (k - h)) as [A|A].
      - eapply Rn_zero; try eassumption. lia.
      - eapply Rn_zero; try eassumption. lia. }
    unfold weighted_tent. rewrite Z0.
    destruct (share_bounds k ltac:(lia) ltac:(lia)) as [S1 S2].
    assert (C0 : 0 <= inject_Z (cnt_ge (Z.of_nat t) k h)).
    { change 0 with (inject_Z 0). rewrite <- Zle_Qle. unfold cnt_ge. lia. }
    replace (h - cnt_ge (Z.of_nat t) k h)%Z with (Z.min h (Z.abs (k - Z.of_nat t))) in S2 by (unfold cnt_ge; lia).
    split; [nra|lra].
  - (* the upper window lies at or after t *)
    assert (O1 : weight_share_after w (Z.of_nat t) h k == 1) by (eapply Rn_one; try eassumption; lia).
    unfold weighted_tent. rewrite O1.
    destruct (share_bounds (k - h)%Z ltac:(lia) ltac:(lia)) as [S1 S2].
    assert (C1 : 0 <= inject_Z (h - cnt_ge (Z.of_nat t) (k - h) h)).
    { change 0 with (inject_Z 0). rewrite <- Zle_Qle. unfold cnt_ge. lia. }
    replace (cnt_ge (Z.of_nat t) (k - h) h) with (Z.min h (Z.abs (k - Z.of_nat t))) in S1 by (unfold cnt_ge; lia).
    split; [nra|lra].
Qed.

End WShares.

(* the noisy weighted step: positions at distance >= d are strictly below the value at t *)
Lemma noisy_step_weighted_d a b t n w sg eps h scale wmin wmax d :
  noise_within eps (step_signal a b t n) sg -> length w = n -> 0 < wmin -> weights_between wmin wmax w ->
  0 < scale -> (1 <= h <= Z.of_nat t)%Z -> (Z.of_nat t + h <= Z.of_nat n)%Z ->
  (1 <= d <= h)%Z -> 4 * inject_Z h * eps * wmax < inject_Z d * Qabs (b - a) * wmin ->
  forall k, (0 <= k < Z.of_nat n)%Z -> (d <= Z.abs (k - Z.of_nat t))%Z ->
    Qabs (qnth (haar_conv sg (Some w) h scale) k) < Qabs (qnth (haar_conv sg (Some w) h scale) (Z.of_nat t)).
Proof.
  intros Hnz Hlw Hmin Hb Hs Hh Hn Hd Hgap k Hk Hf.
  pose proof (weights_between_pos wmin wmax w Hmin Hb) as Hp.
  destruct (noisy_step_level_w a b t n w sg eps h scale Hnz Hlw Hp Hs Hh Hn) as [H1 [Htop _]].
  cbv zeta in H1, Htop.
  assert (TB : 0 <= weighted_tent w (Z.of_nat t) h k /\
               weighted_tent w (Z.of_nat t) h k <= 1 - inject_Z (Z.min h (Z.abs (k - Z.of_nat t))) * rho_bin h wmin wmax)
    by (apply (wtent_bounds w t n h wmin wmax Hlw Hmin Hb Hh Hn k Hk)).
  destruct TB as [T0 T1].
  assert (Rp : 0 < rho_bin h wmin wmax) by (apply (rho_bin_pos w t n h wmin wmax Hlw Hmin Hb Hh Hn)).
  assert (Wm : 0 < wmax) by (apply (wmax_pos w t n h wmin wmax Hlw Hmin Hb Hh Hn)).
  assert (Hh0 : 0 < inject_Z h) by (apply inject_Z_pos; lia).
  assert (HW : 0 < inject_Z h * wmax) by nra.
  (* |conv k| <= scale (D wtent + 2 eps) *)
  pose proof (H1 k Hk) as A. apply abs_le_iff in A. unfold noise_bound_w in A.
  set (wt := weighted_tent w (Z.of_nat t) h k) in *.
  assert (Em : inject_Z d <= inject_Z (Z.min h (Z.abs (k - Z.of_nat t)))) by (rewrite <- Zle_Qle; lia).
  assert (T2 : wt <= 1 - inject_Z d * rho_bin h wmin wmax) by nra.
  assert (Ub : Qabs (qnth (haar_conv sg (Some w) h scale) k) <= scale * (Qabs (b - a) * wt + 2 * eps)).
  { apply abs_le_iff. pose proof (Qabs_nonneg (b - a)) as D0.
    assert (Ab : - Qabs (b - a) <= b - a /\ b - a <= Qabs (b - a)) by (apply abs_le_iff, Qle_refl).
    destruct Ab as [Ab1 Ab2]. destruct A as [A1 A2].
    assert (Y1 : (b - a) * wt <= Qabs (b - a) * wt) by (apply Qmult_le_compat_r; assumption).
    assert (Y2 : - (Qabs (b - a) * wt) <= (b - a) * wt).
    { assert (Y : (- Qabs (b - a)) * wt <= (b - a) * wt) by (apply Qmult_le_compat_r; assumption). lra. }
    assert (Z1 : scale * ((b - a) * wt) <= scale * (Qabs (b - a) * wt)) by (apply Qmult_le_l_weak; [lra|exact Y1]).
    assert (Z2 : scale * (- (Qabs (b - a) * wt)) <= scale * ((b - a) * wt)) by (apply Qmult_le_l_weak; [lra|exact Y2]).
    split; lra. }
  (* the gap *)
  assert (G : Qabs (b - a) * (1 - inject_Z d * rho_bin h wmin wmax) + 2 * eps < Qabs (b - a) - 2 * eps).
  { assert (E : inject_Z d * Qabs (b - a) * wmin == (Qabs (b - a) * (inject_Z d * rho_bin h wmin wmax)) * (inject_Z h * wmax)).
    { unfold rho_bin. field. lra. }
    rewrite E in Hgap.
    assert (X : 4 * eps < Qabs (b - a) * (inject_Z d * rho_bin h wmin wmax)).
    { assert (E2 : 4 * inject_Z h * eps * wmax == (4 * eps) * (inject_Z h * wmax)) by ring.
      rewrite E2 in Hgap. nra. }
    lra. }
  unfold peak_floor_w in Htop. pose proof (Qabs_nonneg (b - a)) as D0.
  assert (Ub2 : scale * (Qabs (b - a) * wt + 2 * eps) < (Qabs (b - a) - 2 * eps) * scale).
  { assert (Y : Qabs (b - a) * wt <= Qabs (b - a) * (1 - inject_Z d * rho_bin h wmin wmax))
      by (apply Qmult_le_l_weak; assumption).
    assert (Y3 : Qabs (b - a) * wt + 2 * eps < Qabs (b - a) - 2 * eps) by lra.
    rewrite (Qmult_comm (Qabs (b - a) - 2 * eps) scale). apply Qmult_lt_l; assumption. }
  lra.
Qed.
