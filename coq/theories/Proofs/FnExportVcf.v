(* C20 source tie of segments2vcf: the per-row columns (start, idx_losses, svlen, svtype, format) and
   ONE ITERATION of the record loop

       for out_row, abs_exp in zip(out_dframe.itertuples(index=False), abs_expect):
           if out_row.ncopies == abs_exp or not str(out_row.probes).isdigit(): continue
           ... genotype ... fields ... info = ";".join(fields)
           yield (chromosome, start, ".", "N", f"<{svtype}>", ".", ".", info, format, genotype)

   are regenerated from the Python source on every run as Gen/FnExportVcf.v (fn_vcf_start,
   fn_vcf_columns, fn_vcf_step).  Here: they ARE Model/Export.v's vcf_pos, the loss / svlen / svtype /
   format columns of segments2vcf, and -- for a row that is kept -- the ten fields vcf_line joins with
   tabs (vcf_one + info_text), for every row, every copy number and every CI text. *)
From CNV Require Import Base.Prelude Base.Str Model.Decimal Gen.ExportDefaults Gen.FnExportVcf Model.Export.

Local Open Scope Z_scope.

Lemma source_vcf_start lo : fn_vcf_start lo = vcf_pos lo.
Proof. reflexivity. Qed.

Lemma source_vcf_columns n x lo hi :
  fn_vcf_columns n x lo hi
  = let l := n <? x in
    (l, (let d := hi - lo in if l then d * svlen_loss_sign else d),
     (if l then svtype_loss else svtype_gain), (if l then format_loss else format_gain)).
Proof. unfold fn_vcf_columns. cbn zeta. destruct (n <? x); reflexivity. Qed.

(* the ten fields of one VCF line, as vcf_line lists them *)
Definition vcf_line_fields (r : vcf_rec) (tok : string * string) (ci : option (string * string))
  : string * Z * string * string * string * string * string * string * string * string :=
  (v_chrom r, v_pos r, v_id r, v_ref r, v_alt r, v_qual r, v_filter r, info_text r tok ci, v_format r, v_sample r).

Definition ci_texts (has_ci : bool) (a1 a2 b1 b2 : string) : option (string * string) :=
  if has_ci then Some (ci_field info_cipos a1 a2, ci_field info_ciend b1 b2) else None.

Lemma string_app_assoc (a b c : string) : ((a ++ b) ++ c = a ++ b ++ c)%string.
Proof. induction a as [|ch a IH]; cbn; [reflexivity | now rewrite IH]. Qed.

Lemma source_vcf_step (s : seg) (n x p svlen : Z) (q : option ciquad) (tok : string * string)
      (has_ci : bool) (a1 a2 b1 b2 : string) :
  let loss := n <? x in
  let r := vcf_one s n x loss svlen q p in
  fn_vcf_step (s_chrom s) (vcf_pos (s_lo s)) (s_hi s) n x p (v_svtype r) svlen (v_format r)
              (fst tok) (snd tok) has_ci a1 a2 b1 b2
  = if (n =? x) || negb (0 <=? p) then [] else [vcf_line_fields r tok (ci_texts has_ci a1 a2 b1 b2)].
Proof.
  cbn zeta. unfold fn_vcf_step.
  destruct ((n =? x) || negb (0 <=? p)) eqn:Eskip; [reflexivity|].
  apply orb_false_iff in Eskip. destruct Eskip as [Hne _].
  apply Z.eqb_neq in Hne.
  unfold vcf_line_fields, vcf_one, info_text, genotype, ci_texts, colon, ci_field, info_cipos, info_ciend; cbn [v_chrom v_pos v_id v_ref v_alt v_qual v_filter v_format v_sample v_svtype v_end v_svlen v_probes].
  destruct (Z.ltb_spec x n) as [Hgt|Hle].
  - (* gain *)
    assert (Hl : n <? x = false) by (apply Z.ltb_ge; lia). rewrite Hl.
    destruct has_ci; cbn; repeat (f_equal; try reflexivity).
  - assert (Hl : n <? x = true) by (apply Z.ltb_lt; lia). rewrite Hl.
    unfold gt_hom_at.
    destruct (n =? 0); destruct has_ci; cbn; repeat (f_equal; try reflexivity).
Qed.

Example source_vcf_step_ex :
  fn_vcf_step "chr1" 1 500 3 2 7 "DUP" 500 "GT:GQ:CN:CNQ" "1.5" "0.58" false "" "" "" ""
  = [("chr1"%string, 1, "."%string, "N"%string, "<DUP>"%string, "."%string, "."%string,
      "IMPRECISE;SVTYPE=DUP;END=500;SVLEN=500;FOLD_CHANGE=1.5;FOLD_CHANGE_LOG=0.58;PROBES=7"%string,
      "GT:GQ:CN:CNQ"%string, "0/1:0:3:7"%string)].
Proof. vm_compute. reflexivity. Qed.

(* the whole loop: Model/Export.v vcf_loop is the concatenation, row by row, of what one iteration
   yields -- the record of source_vcf_step for a kept row with integer probes, nothing for a row whose
   probes are missing (str(nan).isdigit() is False) *)
Definition step_recs (s : seg) (n x d : Z) (q : option ciquad) : list vcf_rec :=
  match s_probes s with
  | Some p => if (n =? x) || negb (0 <=? p) then [] else [vcf_one s n x (n <? x) d q p]
  | None => []
  end.

Fixpoint gen_vcf (rows : list seg) (nc ex svlen : list Z) (cis : list (option ciquad)) : list vcf_rec :=
  match rows, nc, ex, svlen, cis with
  | s :: rows', n :: nc', x :: ex', d :: svlen', q :: cis' =>
      step_recs s n x d q ++ gen_vcf rows' nc' ex' svlen' cis'
  | _, _, _, _, _ => []
  end.

Lemma source_vcf_loop rows : forall nc ex svlen cis,
  vcf_loop rows nc ex (map2 (fun n x => n <? x) nc ex) svlen cis = gen_vcf rows nc ex svlen cis.
Proof.
  induction rows as [|s rows IH]; intros nc ex svlen cis; [reflexivity|].
  destruct nc as [|n nc]; [reflexivity|].
  destruct ex as [|x ex]; [reflexivity|].
  cbn [map2].
  destruct svlen as [|d svlen]; [reflexivity|].
  destruct cis as [|q cis]; [reflexivity|].
  cbn [vcf_loop gen_vcf]. rewrite IH. unfold step_recs, probes_digit.
  destruct (n =? x); cbn [orb]; [destruct (s_probes s); reflexivity|].
  destruct (s_probes s) as [p|]; [|reflexivity].
  destruct (0 <=? p); reflexivity.
Qed.
