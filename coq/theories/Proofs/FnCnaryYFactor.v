(* C15 function-body tie of compare_sex_chromosomes' chrY statement (cnvlib/cnary.py), translated WHOLE on every run
   (Gen/FnCnaryYFactor.v; tables are opaque ids, `if skip_low: chry = chry.drop_low_coverage()` an opaque range):

       if len(chry):
           [if skip_low: chry = chry.drop_low_coverage()]
           chry_male_lr = compare_chrom(chry["log2"].values, (chry["weight"].values if use_weight else None), +3, 0)
           if np.isfinite(chry_male_lr): combined_score *= chry_male_lr
       else:
           chry_male_lr = np.nan

   In Model/Sex.v's compare_sex the chrY ratio exists exactly when chrY has bins (None = the code's NaN) and the
   combined score is the chrX ratio times it (in exact arithmetic the ratio is finite): the generated statement on the
   number of chrY bins, the chrX ratio and the chrY ratio. *)
From CNV Require Import Base.Prelude Base.Str Base.QNum Proofs.QNumLemmas Gen.CenterDefaults Model.Center Model.Sex
  Proofs.FnCnary Proofs.FnCnarySexLib Gen.FnCnaryYFactor.
Local Open Scope Q_scope.

Lemma fn_y_factor_gen (chry : list bin) id id' x_lr lrv :
  let y := match chry with [] => None | _ => Some lrv end in
  score_of x_lr y == fst (fn_y_factor id id' (Z.of_nat (length chry)) x_lr lrv true) /\
  y = snd (fn_y_factor id id' (Z.of_nat (length chry)) x_lr lrv true).
Proof.
  cbv zeta. unfold fn_y_factor, score_of. destruct chry as [|b chry].
  - cbn. split; reflexivity.
  - replace (negb (Z.of_nat (length (b :: chry)) =? 0)%Z) with true.
    + cbn [fst snd]. split; [apply qmul_spec|reflexivity].
    + symmetry. apply negb_true_iff, Z.eqb_neq. cbn [length]. lia.
Qed.

(* on the model's own result: the score and the chrY ratio of compare_sex *)
Theorem fn_y_factor_eq gstat hap build t d st id id' :
  compare_sex gstat hap build t = Some (d, st) ->
  let chry := filter (chr_y_filter t build) t in
  s_score st == fst (fn_y_factor id id' (Z.of_nat (length chry)) (s_x_lr st) (val_of (s_y_lr st)) true) /\
  s_y_lr st = snd (fn_y_factor id id' (Z.of_nat (length chry)) (s_x_lr st) (val_of (s_y_lr st)) true).
Proof.
  intros H. apply compare_sex_inv in H. cbv zeta in H. subst st. cbv zeta. cbn [s_score s_x_lr s_y_lr].
  destruct (filter (chr_y_filter t build) t) as [|y0 ys] eqn:Ey.
  - cbn [val_of]. apply (fn_y_factor_gen [] id id' _ 0).
  - cbn [val_of]. match goal with |- context [Some ?v] => apply (fn_y_factor_gen (y0 :: ys) id id' _ v) end.
Qed.
