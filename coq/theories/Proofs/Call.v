(* Proofs for C01: the clonal-call model (Model/Call.v) satisfies the specification
   objects of Spec/Call.v. *)
From Coq Require Import Qround Qabs.
From CNV Require Import Base.Prelude Base.Str Gen.Params Gen.CallDefaults Model.Call Spec.Call Proofs.CallNum.
From Coq Require Import Lqa.   (* after Prelude: `lra` over Q *)

Local Open Scope Q_scope.

(* ---------------------------------------------------------------- class table *)

Definition to_cls (c : klass) : cls :=
  match c with KAuto => Auto | KX => ChrX | KY => ChrY | KParX => ParX | KParY => ParY end.

(* the generated constants are the numbers of the property text *)
Lemma ref_expect_table k male_ref female c :
  ref_expect k male_ref female (to_cls c) = spec_copies k male_ref female c.
Proof. destruct c, male_ref, female; reflexivity. Qed.

Lemma x_label_consistent s first : consistent s first -> x_label first = xname s.
Proof.
  unfold consistent, x_label. change chr_prefix with "chr"%string. intros ->.
  destruct s; reflexivity.
Qed.

Lemma y_label_consistent s first : consistent s first -> y_label first = yname s.
Proof.
  intro H. unfold y_label. rewrite (x_label_consistent s first H). destruct s; reflexivity.
Qed.

Definition supported_lower (b : string) : Prop := b = "grch37"%string \/ b = "grch38"%string.

Lemma in_par_x b lo hi : supported_lower (lower_str b) ->
  in_par b par_keys_x lo hi = within (spec_par (lower_str b) false) lo hi.
Proof. unfold in_par. intros [-> | ->]; reflexivity. Qed.

Lemma in_par_y b lo hi : supported_lower (lower_str b) ->
  in_par b par_keys_y lo hi = within (spec_par (lower_str b) true) lo hi.
Proof. unfold in_par. intros [-> | ->]; reflexivity. Qed.

Lemma build_supported_iff b : build_supported b = true <-> supported_lower (lower_str b).
Proof.
  unfold build_supported, supported_lower. generalize (lower_str b). intro l.
  cbn [existsb PAR_TABLE]. unfold PAR_TABLE. cbn [existsb].
  rewrite !orb_true_iff, !String.eqb_eq. intuition (auto; try discriminate).
Qed.

Definition build_ok (build : option string) : Prop :=
  match build with Some b => supported_lower (lower_str b) | None => True end.

Definition lower_build (build : option string) : option string :=
  match build with Some b => Some (lower_str b) | None => None end.

Lemma row_class_table s build first chrom lo hi :
  consistent s first -> build_ok build ->
  row_class build first chrom lo hi = to_cls (spec_class s (lower_build build) chrom lo hi).
Proof.
  intros Hc Hb. unfold row_class, spec_class.
  rewrite (x_label_consistent s first Hc), (y_label_consistent s first Hc).
  destruct (String.eqb chrom (xname s)).
  - destruct build as [b|]; cbn [lower_build]; [|reflexivity].
    rewrite (in_par_x b lo hi Hb). destruct (within _ lo hi); reflexivity.
  - destruct (String.eqb chrom (yname s)); [|reflexivity].
    destruct build as [b|]; cbn [lower_build]; [|reflexivity].
    rewrite (in_par_y b lo hi Hb). destruct (within _ lo hi); reflexivity.
Qed.

(* the dataframe path assigns exactly the property's (r, x) *)
Lemma class_table s k male_ref female build first chrom lo hi :
  consistent s first -> build_ok build ->
  ref_expect k male_ref female (row_class build first chrom lo hi)
  = spec_copies k male_ref female (spec_class s (lower_build build) chrom lo hi).
Proof.
  intros Hc Hb. rewrite (row_class_table s build first chrom lo hi Hc Hb). apply ref_expect_table.
Qed.

(* the pure path (no PAR option there): same r on X and Y under both namings, k elsewhere *)
Lemma class_table_pure_x s k male_ref female :
  ref_pure (xname s) k male_ref = fst (spec_copies k male_ref female KX).
Proof. destruct s, male_ref; reflexivity. Qed.

Lemma class_table_pure_y s k male_ref female :
  ref_pure (yname s) k male_ref = fst (spec_copies k male_ref female KY).
Proof. destruct s, male_ref; reflexivity. Qed.

Lemma class_table_pure_auto chrom k male_ref :
  ~ In (lower_str chrom) ["chrx"; "x"; "chry"; "y"]%string ->
  ref_pure chrom k male_ref = k.
Proof.
  intro H. unfold ref_pure.
  assert (Y : mem_string (lower_str chrom) pure_y_names = false).
  { unfold pure_y_names. cbn [mem_string]. rewrite !orb_false_iff, !String.eqb_neq.
    cbn [In] in H. intuition congruence. }
  assert (X : mem_string (lower_str chrom) pure_x_names = false).
  { unfold pure_x_names. cbn [mem_string]. rewrite !orb_false_iff, !String.eqb_neq.
    cbn [In] in H. intuition congruence. }
  rewrite Y, X. destruct male_ref; reflexivity.
Qed.

Lemma class_table_pure s k male_ref female :
  ref_pure (xname s) k male_ref = fst (spec_copies k male_ref female KX) /\
  ref_pure (yname s) k male_ref = fst (spec_copies k male_ref female KY) /\
  (forall chrom, ~ In (lower_str chrom) ["chrx"; "x"; "chry"; "y"]%string ->
                 ref_pure chrom k male_ref = k).
Proof.
  split; [|split].
  - exact (class_table_pure_x s k male_ref female).
  - exact (class_table_pure_y s k male_ref female).
  - exact (fun chrom => class_table_pure_auto chrom k male_ref).
Qed.

(* ---------------------------------------------------------------- inversion *)

Lemma inject_Z_pos r : (0 < r)%Z -> 0 < inject_Z r.
Proof. intro H. change 0 with (inject_Z 0). apply (proj1 (inject_Z_lt _ _)). exact H. Qed.

Lemma inject_Z_nonneg r : (0 <= r)%Z -> 0 <= inject_Z r.
Proof. intro H. change 0 with (inject_Z 0). apply (proj1 (inject_Z_le _ _)). exact H. Qed.

Lemma abs_clonal_eq e r x p : abs_clonal e r x p == (inject_Z r * e - inject_Z x * (1 - p)) / p.
Proof. unfold abs_clonal. apply Qred_correct. Qed.

Lemma abs_pure_eq e r : abs_pure e r == inject_Z r * e.
Proof. unfold abs_pure. apply Qred_correct. Qed.

Lemma abs_clonal_comp e e' r x p : e == e' -> abs_clonal e r x p == abs_clonal e' r x p.
Proof. intro H. rewrite !abs_clonal_eq, H. reflexivity. Qed.

Lemma abs_pure_comp e e' r : e == e' -> abs_pure e r == abs_pure e' r.
Proof. intro H. rewrite !abs_pure_eq, H. reflexivity. Qed.

Lemma inversion n p r x : 0 < p -> (0 < r)%Z -> abs_clonal (mix n p r x) r x p == inject_Z n.
Proof.
  intros Hp Hr. rewrite abs_clonal_eq. unfold mix.
  pose proof (inject_Z_pos r Hr) as Hr'.
  field. repeat split; intro E; lra.
Qed.

Lemma inversion_pure n r : (0 < r)%Z -> abs_pure (inject_Z n / inject_Z r) r == inject_Z n.
Proof.
  intro Hr. rewrite abs_pure_eq. pose proof (inject_Z_pos r Hr) as Hr'.
  field. intro E; lra.
Qed.

Lemma mix_pure n p r x : p == 1 -> (0 < r)%Z -> mix n p r x == inject_Z n / inject_Z r.
Proof.
  intros Hp Hr. unfold mix. rewrite Hp. pose proof (inject_Z_pos r Hr) as Hr'.
  field. intro E; lra.
Qed.

(* ---------------------------------------------------------------- use_purity *)

Lemma use_purity_some purity p : use_purity purity = Some p -> purity = Some p /\ ~ p == 0 /\ p < 1.
Proof.
  unfold use_purity. destruct purity as [q|]; [|discriminate].
  destruct (Qeq_bool q 0) eqn:E0; cbn [negb andb]; [discriminate|].
  destruct (Qle_bool purity_limit q) eqn:E1; cbn [negb]; [discriminate|].
  intro H; injection H as <-. split; [reflexivity|]. split.
  - intro H. apply Qeq_bool_iff in H. congruence.
  - apply Qnot_le_lt. intro H. change 1 with purity_limit in H. apply Qle_bool_iff in H. congruence.
Qed.

Lemma use_purity_none purity : use_purity purity = None ->
  purity = None \/ exists p, purity = Some p /\ (p == 0 \/ 1 <= p).
Proof.
  unfold use_purity. destruct purity as [q|]; [|auto].
  destruct (Qeq_bool q 0) eqn:E0; cbn [negb andb].
  - intros _. right. exists q. split; [reflexivity|]. left. apply Qeq_bool_iff. exact E0.
  - destruct (Qle_bool purity_limit q) eqn:E1; cbn [negb]; [|discriminate].
    intros _. right. exists q. split; [reflexivity|]. right. apply Qle_bool_iff in E1. exact E1.
Qed.

(* ---------------------------------------------------------------- cn = n *)

(* purity the truth is mixed with: the given one, or 1 when none is given *)
Definition mix_purity (purity : option Q) : Q := match purity with Some p => p | None => 1 end.

Definition valid_purity (purity : option Q) : Prop :=
  match purity with Some p => 0 < p /\ p <= 1 | None => True end.

Definition cn_of (o : out_row) : Z := fst (fst o).
Definition abs_of (o : out_row) : Q := snd (fst o).
Definition ratio_of (o : out_row) : option Q := snd o.

Lemma cn_exact k purity hapx female build first chrom lo hi e n r x :
  valid_purity purity -> (0 <= n)%Z ->
  row_copies k purity hapx female build first (chrom, lo, hi, e) = (r, x) -> (0 < r)%Z ->
  e == mix n (mix_purity purity) r x ->
  cn_of (call_row k purity hapx female build first (chrom, lo, hi, e)) = n.
Proof.
  intros Hv Hn Hc Hr He. unfold call_row, row_copies in *.
  destruct (use_purity purity) as [p|] eqn:U.
  - destruct (use_purity_some _ _ U) as [-> [Hp0 Hp1]]. cbn [valid_purity mix_purity] in *.
    unfold call_row_purity. rewrite Hc. unfold cn_of. cbn [fst].
    apply round_he_eqZ.
    assert (A : abs_clonal e r x p == inject_Z n).
    { rewrite (abs_clonal_comp _ _ r x p He). apply inversion; [apply Hv | exact Hr]. }
    rewrite (qmax_comp _ (inject_Z n) clip_lower 0 A ltac:(reflexivity)).
    apply qmax_l. apply inject_Z_nonneg. exact Hn.
  - injection Hc as Hr1 _. unfold call_row_pure, cn_of. cbn [fst]. rewrite Hr1.
    apply round_he_eqZ.
    assert (P : mix_purity purity == 1).
    { destruct (use_purity_none _ U) as [-> | [p [-> [H0 | H1]]]]; cbn [mix_purity valid_purity] in *.
      - reflexivity.
      - destruct Hv as [Hv _]. rewrite H0 in Hv. exfalso. apply (Qlt_irrefl 0 Hv).
      - apply Qle_antisym; [apply Hv | exact H1]. }
    rewrite (abs_pure_comp _ _ r He), (abs_pure_comp _ _ r (mix_pure n _ r x P Hr)).
    apply inversion_pure. exact Hr.
Qed.

(* ---------------------------------------------------------------- rewritten ratio *)

Lemma shift_factor_2 : shift_factor == 2.
Proof. reflexivity. Qed.

Lemma min_abs_pos : 0 < min_abs_val.
Proof. reflexivity. Qed.

Lemma min_abs_literal : Qabs (min_abs_val - (1 # 1000)) <= 1 # 1000000000000000000.
Proof. unfold min_abs_val. vm_compute. discriminate. Qed.

Lemma rescaled_eq a k sh : rescaled a k sh == qmax (a / inject_Z k) min_abs_val * (if sh then 2 else 1).
Proof.
  unfold rescaled. rewrite Qred_correct. destruct sh; [rewrite shift_factor_2; reflexivity|].
  rewrite Qmult_1_r. reflexivity.
Qed.

(* for even ploidy the shifted rows are exactly those with k/2 reference copies *)
Lemma even_ref_cases k hapx female c r x : (0 < k)%Z -> Z.even k = true ->
  ref_expect k hapx female c = (r, x) -> (0 < r)%Z ->
  (shifted hapx c = false /\ r = k) \/ (shifted hapx c = true /\ k = (2 * r)%Z).
Proof.
  intros Hk Ev H Hr.
  assert (E2 : k = (2 * half k)%Z).
  { unfold half. change half_div with 2%Z. apply Z.even_spec in Ev. destruct Ev as [m ->].
    rewrite Z.mul_comm, Z.div_mul by discriminate. ring. }
  destruct c, hapx; cbn [ref_expect shifted] in *; injection H as <- <-; auto.
  all: exfalso; unfold pary_copies in Hr; lia.
Qed.

Lemma qmaxs_qmax a b : qmaxs a b = qmax a b.
Proof. reflexivity. Qed.

Lemma rescaled_spec k p hapx female c e n r x :
  (0 < k)%Z -> Z.even k = true -> 0 < p -> (0 <= n)%Z ->
  ref_expect k hapx female c = (r, x) -> (0 < r)%Z ->
  e == mix n p r x ->
  exists q, ratio_of (call_row_purity k p hapx female c e) = Some q /\
            q == spec_rescaled n k r min_abs_val.
Proof.
  intros Hk Ev Hp Hn Hc Hr He. unfold call_row_purity. rewrite Hc. unfold ratio_of. cbn [snd].
  eexists. split; [reflexivity|].
  assert (A : qmax (abs_clonal e r x p) clip_lower == inject_Z n).
  { rewrite (qmax_comp _ (inject_Z n) clip_lower 0); [| |reflexivity].
    - apply qmax_l. apply inject_Z_nonneg. exact Hn.
    - rewrite (abs_clonal_comp _ _ r x p He). apply inversion; assumption. }
  rewrite rescaled_eq.
  assert (Kp : 0 < inject_Z k) by (apply inject_Z_pos; exact Hk).
  assert (Rp : 0 < inject_Z r) by (apply inject_Z_pos; exact Hr).
  assert (B : qmax (qmax (abs_clonal e r x p) clip_lower / inject_Z k) min_abs_val
              == qmax (inject_Z n / inject_Z k) min_abs_val).
  { apply qmax_comp; [rewrite A; reflexivity | reflexivity]. }
  rewrite B. unfold spec_rescaled. change qmaxs with qmax.
  (* move the division by k through the max *)
  assert (D : qmax (inject_Z n / inject_Z k) min_abs_val
              == qmax (inject_Z n) (min_abs_val * inject_Z k) / inject_Z k).
  { destruct (qmax_cases (inject_Z n) (min_abs_val * inject_Z k)) as [[H1 ->]|[H1 ->]].
    - rewrite qmax_r.
      + field. intro E; lra.
      + apply Qle_shift_div_r; [exact Kp | exact H1].
    - rewrite qmax_l; [reflexivity|].
      apply Qle_shift_div_l; [exact Kp | apply Qlt_le_weak; exact H1]. }
  rewrite D.
  destruct (even_ref_cases k hapx female c r x Hk Ev Hc Hr) as [[-> ->]|[-> Ek]].
  - rewrite Qmult_1_r. reflexivity.
  - rewrite Ek at 2. rewrite inject_Z_mult. change (inject_Z 2) with 2.
    field. intro E; lra.
Qed.

(* above the floor the rewritten ratio is n / r *)
Lemma spec_rescaled_above n k r : (0 < r)%Z -> min_abs_val * inject_Z k <= inject_Z n ->
  spec_rescaled n k r min_abs_val == inject_Z n / inject_Z r.
Proof.
  intros Hr H. unfold spec_rescaled. change qmaxs with qmax.
  destruct (qmax_cases (inject_Z n) (min_abs_val * inject_Z k)) as [[H1 ->]|[H1 ->]]; [|reflexivity].
  assert (E : min_abs_val * inject_Z k == inject_Z n) by (apply Qle_antisym; assumption).
  rewrite E. reflexivity.
Qed.

Lemma floor_small n k : (1 <= n)%Z -> (k <= 999)%Z -> min_abs_val * inject_Z k <= inject_Z n.
Proof.
  intros Hn Hk.
  assert (M : min_abs_val <= 1001 # 1000000) by (vm_compute; discriminate).
  assert (A : inject_Z k <= 999).
  { change 999 with (inject_Z 999). apply (proj1 (inject_Z_le _ _)). exact Hk. }
  assert (B : 1 <= inject_Z n).
  { change 1 with (inject_Z 1). apply (proj1 (inject_Z_le _ _)). exact Hn. }
  destruct (Qlt_le_dec (inject_Z k) 0) as [Neg|Pos].
  - apply Qle_trans with 0; [|lra].
    pose proof min_abs_pos as Mp.
    assert (0 <= min_abs_val * (- inject_Z k)) by (apply Qmult_le_0_compat; lra). lra.
  - apply Qle_trans with ((1001 # 1000000) * inject_Z k).
    + apply Qmult_le_compat_r; assumption.
    + lra.
Qed.

Lemma rescaled_above_floor n k r : (0 < r)%Z -> (1 <= n)%Z -> (k <= 999)%Z ->
  spec_rescaled n k r min_abs_val == inject_Z n / inject_Z r.
Proof. intros Hr Hn Hk. exact (spec_rescaled_above n k r Hr (floor_small n k Hn Hk)). Qed.

(* ---------------------------------------------------------------- nearest integer, sign *)

Lemma nearest_pure k purity hapx female build first chrom lo hi e :
  use_purity purity = None ->
  nearest (cn_of (call_row k purity hapx female build first (chrom, lo, hi, e)))
          (inject_Z (ref_pure chrom k hapx) * e).
Proof.
  intro U. unfold call_row. rewrite U. unfold call_row_pure, cn_of, nearest. cbn [fst].
  pose proof (round_he_nearest (abs_pure e (ref_pure chrom k hapx))) as H.
  rewrite abs_pure_eq in H at 2. exact H.
Qed.

Lemma half_nonneg k : (0 <= k)%Z -> (0 <= half k)%Z.
Proof. intro H. unfold half. change half_div with 2%Z. apply Z.div_pos; lia. Qed.

Lemma ref_pure_nonneg chrom k hapx : (0 <= k)%Z -> (0 <= ref_pure chrom k hapx)%Z.
Proof.
  intro H. unfold ref_pure. pose proof (half_nonneg k H).
  destruct (_ || _); assumption.
Qed.

Lemma nonneg_row k purity hapx female build first chrom lo hi e :
  (0 <= k)%Z -> 0 <= e ->
  (0 <= cn_of (call_row k purity hapx female build first (chrom, lo, hi, e)))%Z.
Proof.
  intros Hk He. unfold call_row.
  destruct (use_purity purity) as [p|].
  - unfold call_row_purity. destruct (ref_expect _ _ _ _) as [r x]. unfold cn_of. cbn [fst].
    apply round_he_nonneg. apply (qmax_ge_r _ clip_lower).
  - unfold call_row_pure, cn_of. cbn [fst]. apply round_he_nonneg. rewrite abs_pure_eq.
    apply Qmult_le_0_compat; [|exact He]. apply inject_Z_nonneg. apply ref_pure_nonneg. exact Hk.
Qed.

Definition e_of (r : in_row) : Q := snd r.

Lemma nonneg_table k purity hapx female build rows out :
  (0 <= k)%Z -> Forall (fun r => 0 <= e_of r) rows ->
  call_clonal k purity hapx female build rows = Some out ->
  length out = length rows /\ Forall (fun o => (0 <= cn_of o)%Z) out.
Proof.
  intros Hk He. unfold call_clonal.
  destruct (match use_purity purity with Some _ => _ | None => _ end); [|discriminate].
  intro H; injection H as <-. split; [apply map_length|].
  apply Forall_map. eapply Forall_impl; [|exact He].
  intros [[[chrom lo] hi] e] H. apply nonneg_row; assumption.
Qed.

(* rows of the output correspond to rows of the input, one to one and in order *)
Lemma call_clonal_rows k purity hapx female build rows out :
  call_clonal k purity hapx female build rows = Some out ->
  out = map (call_row k purity hapx female build (first_chrom rows)) rows.
Proof.
  unfold call_clonal.
  destruct (match use_purity purity with Some _ => _ | None => _ end); [|discriminate].
  intro H; injection H as <-. reflexivity.
Qed.

(* ---------------------------------------------------------------- inconsistently named tables *)

(* Which sex-chromosome names the purity-adjusted path recognises is decided by the FIRST row
   alone: "chrX"/"chrY" if it starts with "chr", "X"/"Y" otherwise. *)
Definition first_is_chr (first : string) : bool := str_prefix "chr" first.
Definition seen_x (first : string) : string := if first_is_chr first then "chrX"%string else "X"%string.
Definition seen_y (first : string) : string := if first_is_chr first then "chrY"%string else "Y"%string.
Definition unseen_x (first : string) : string := if first_is_chr first then "X"%string else "chrX"%string.
Definition unseen_y (first : string) : string := if first_is_chr first then "Y"%string else "chrY"%string.

Lemma labels_by_first first : x_label first = seen_x first /\ y_label first = seen_y first.
Proof.
  unfold y_label, x_label, seen_x, seen_y, first_is_chr. change chr_prefix with "chr"%string.
  destruct (str_prefix "chr" first); split; reflexivity.
Qed.

Lemma row_class_auto build first chrom lo hi :
  chrom <> seen_x first -> chrom <> seen_y first -> row_class build first chrom lo hi = Auto.
Proof.
  intros Hx Hy. unfold row_class. destruct (labels_by_first first) as [-> ->].
  apply String.eqb_neq in Hx, Hy. rewrite Hx, Hy. reflexivity.
Qed.

Lemma unseen_neq first :
  unseen_x first <> seen_x first /\ unseen_x first <> seen_y first /\
  unseen_y first <> seen_x first /\ unseen_y first <> seen_y first.
Proof.
  unfold unseen_x, unseen_y, seen_x, seen_y. destruct (first_is_chr first); repeat split; discriminate.
Qed.

(* What do_call does on a table that mixes the two naming styles:
   (1) a row is treated as X / Y / PAR only if its name is the style of the first row;
   (2) X / Y rows named in the other style are autosomes for the purity-adjusted path
       ((r, x) = (ploidy, ploidy), no sex-chromosome shift of the rewritten log2), i.e. they
       are called exactly like an autosomal row with the same ratio;
   (3) the no-purity path (lower-cased membership test) recognises both styles whatever the
       first row is, so the two paths disagree on such rows. *)
Theorem mixed_naming build first :
  (forall chrom lo hi, row_class build first chrom lo hi <> Auto ->
                       chrom = seen_x first \/ chrom = seen_y first) /\
  (forall lo hi, row_class build first (unseen_x first) lo hi = Auto /\
                 row_class build first (unseen_y first) lo hi = Auto) /\
  (forall k purity p hapx female lo hi e, use_purity purity = Some p ->
     call_row k purity hapx female build first (unseen_x first, lo, hi, e)
       = call_row_purity k p hapx female Auto e /\
     call_row k purity hapx female build first (unseen_y first, lo, hi, e)
       = call_row_purity k p hapx female Auto e /\
     row_copies k purity hapx female build first (unseen_x first, lo, hi, e) = (k, k) /\
     row_copies k purity hapx female build first (unseen_y first, lo, hi, e) = (k, k)) /\
  (forall k hapx, ref_pure "X" k hapx = ref_pure "chrX" k hapx /\
                  ref_pure "Y" k hapx = ref_pure "chrY" k hapx /\
                  ref_pure (unseen_x first) k hapx = ref_pure (seen_x first) k hapx /\
                  ref_pure (unseen_y first) k hapx = ref_pure (seen_y first) k hapx).
Proof.
  destruct (unseen_neq first) as [N1 [N2 [N3 N4]]].
  split; [|split; [|split]].
  - intros chrom lo hi H.
    destruct (string_dec chrom (seen_x first)) as [E|Nx]; [left; exact E|].
    destruct (string_dec chrom (seen_y first)) as [E|Ny]; [right; exact E|].
    exfalso. apply H. apply row_class_auto; assumption.
  - intros lo hi. split; apply row_class_auto; assumption.
  - intros k purity p hapx female lo hi e U. unfold call_row, row_copies. rewrite U.
    rewrite (row_class_auto build first (unseen_x first) lo hi N1 N2).
    rewrite (row_class_auto build first (unseen_y first) lo hi N3 N4).
    repeat split; reflexivity.
  - intros k hapx. unfold unseen_x, unseen_y, seen_x, seen_y.
    destruct (first_is_chr first), hapx; repeat split; reflexivity.
Qed.

(* a first row in the other style exists for every table style: the hypothesis of (2) is met,
   e.g. first row "chr1" and a row named "X" *)
Lemma mixed_naming_example :
  unseen_x "chr1" = "X"%string /\ unseen_x "1" = "chrX"%string /\
  row_class None "chr1" "X" 0 100 = Auto /\ row_class None "1" "chrX" 0 100 = Auto /\
  row_class None "chr1" "chrX" 0 100 = ChrX.
Proof. repeat split; reflexivity. Qed.

(* ---------------------------------------------------------------- PAR boundaries *)

Lemma within2 a1 z1 a2 z2 lo hi :
  within [(a1, z1); (a2, z2)] lo hi = true <-> (a1 <= lo /\ hi <= z1)%Z \/ (a2 <= lo /\ hi <= z2)%Z.
Proof.
  unfold within. cbn [existsb]. rewrite !orb_true_iff, !andb_true_iff, !Z.leb_le.
  split; [intros [H | [H | H]]; [left; exact H | right; exact H | discriminate]
         | intros [H | H]; [left; exact H | right; left; exact H]].
Qed.

(* in_par is inclusive at both ends of both regions, for both builds (any letter case), on X
   and on Y: a bin is PAR iff it lies within [start, end] of PAR1 or of PAR2, as coded
   (start >= par_start) & (end <= par_end) *)
Theorem par_inclusive b lo hi :
  (lower_str b = "grch37"%string ->
     (in_par b par_keys_x lo hi = true <->
        (60000 <= lo /\ hi <= 2699520)%Z \/ (154931043 <= lo /\ hi <= 155260560)%Z) /\
     (in_par b par_keys_y lo hi = true <->
        (10000 <= lo /\ hi <= 2649520)%Z \/ (59034049 <= lo /\ hi <= 59363566)%Z)) /\
  (lower_str b = "grch38"%string ->
     (in_par b par_keys_x lo hi = true <->
        (10000 <= lo /\ hi <= 2781479)%Z \/ (155701382 <= lo /\ hi <= 156030895)%Z) /\
     (in_par b par_keys_y lo hi = true <->
        (10000 <= lo /\ hi <= 2781479)%Z \/ (56887902 <= lo /\ hi <= 57217415)%Z)).
Proof.
  split; intro E.
  - assert (S : supported_lower (lower_str b)) by (left; exact E).
    rewrite (in_par_x b lo hi S), (in_par_y b lo hi S), E. split; apply within2.
  - assert (S : supported_lower (lower_str b)) by (right; exact E).
    rewrite (in_par_x b lo hi S), (in_par_y b lo hi S), E. split; apply within2.
Qed.

(* the eight regions, typed from params.PSEUDO_AUTSOMAL_REGIONS / the property's builds *)
Definition par_regions : list (string * bool * Z * Z) :=
  [("grch37", false, 60000, 2699520); ("grch37", false, 154931043, 155260560);
   ("grch37", true, 10000, 2649520); ("grch37", true, 59034049, 59363566);
   ("grch38", false, 10000, 2781479); ("grch38", false, 155701382, 156030895);
   ("grch38", true, 10000, 2781479); ("grch38", true, 56887902, 57217415)]%string%Z.

Definition par_keys (onY : bool) : list string := if onY then par_keys_y else par_keys_x.

(* bins exactly on a region, one base off at either end, just inside, and straddling either end *)
Definition par_end_cases (r : string * bool * Z * Z) : Prop :=
  let '(b, onY, a, z) := r in
  let keys := par_keys onY in
  in_par b keys a z = true /\                                   (* exactly the region: inclusive at both ends *)
  in_par b keys (a - 1) z = false /\ in_par b keys a (z + 1) = false /\          (* one base off *)
  in_par b keys (a + 1) (z - 1) = true /\                                        (* one base inside *)
  in_par b keys a (a + 1) = true /\ in_par b keys (z - 1) z = true /\            (* touching an end from inside *)
  in_par b keys (a - 10) (a + 10) = false /\ in_par b keys (z - 10) (z + 10) = false /\  (* straddling an end *)
  in_par b keys (z + 1) (z + 100) = false /\ in_par b keys (a - 100) (a - 1) = false.    (* outside *)

Theorem par_ends : Forall par_end_cases par_regions.
Proof. repeat constructor; vm_compute; reflexivity. Qed.
