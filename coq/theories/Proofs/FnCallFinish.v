(* C02 / C01 source tie of do_call's last calling step: the WHOLE statement

       if method != "none":
           outarr["cn"] = absolutes.round().astype("int")
           if "baf" in outarr:
               upper_baf = ... ; outarr["cn1"] = ... ; outarr["cn2"] = ... ; is_null = ... ; NaN masks

   is regenerated, per row, from the Python source on every run (Gen/FnCallFinish.v fn_finish: the cn / cn1 / cn2 cells
   of the row; 0 / None / None where the statement stores nothing).  Here: it IS Model/Baf.v dc_finish -- the function
   do_call_row ends in for the methods "threshold" and "clonal" (C01_do_call_*, C02_do_call_* speak about it): cn is the
   half-to-even rounding of `absolutes`, the allelic columns exist exactly when the table has a baf column and are then
   `alleles` of the rounded cn; for method "none" nothing is stored. *)
From Coq Require Import Qround Qabs.
From CNV Require Import Base.Prelude Base.Str Gen.CallDefaults Gen.FnCallFinish Model.Call Model.Threshold Model.Baf.
From CNV Require Base.QNum Proofs.CallNum Proofs.FnCallBaf.
Local Open Scope Z_scope.

(* .round().astype("int") of a number: the half-to-even rounding (truncating an integer-valued number changes nothing) *)
Lemma gen_round_int (a : Q) :
  (let tr := inject_Z (QNum.round_half_even a) in if Qle_bool 0 tr then QNum.floorQ tr else QNum.ceilQ tr) = round_he a.
Proof.
  cbv zeta. unfold QNum.floorQ, QNum.ceilQ. change (QNum.round_half_even a) with (round_he a).
  destruct (Qle_bool 0 (inject_Z (round_he a))); [apply Qfloor_Z | apply Qceiling_Z].
Qed.

(* the generated statement, in the model's terms *)
Lemma fn_finish_eq (m : string) (a : Q) (has_baf : bool) (baf : option Q) :
  fn_finish m a has_baf baf
  = if String.eqb m "none" then (0, None, None)
    else let cn := round_he a in
         let '(c1, c2) := if has_baf then alleles a baf cn else (None, None) in (cn, c1, c2).
Proof.
  unfold fn_finish. cbv zeta.
  destruct (String.eqb m "none"); cbn [negb]; [reflexivity|].
  pose proof (gen_round_int a) as G. cbv zeta in G. rewrite G.
  destruct has_baf; [|reflexivity].
  pose proof (FnCallBaf.fn_alleles_eq baf a (round_he a)) as A.
  unfold Gen.FnCallBaf.fn_alleles in A. cbv zeta in A.
  destruct (alleles a baf (round_he a)) as [c1 c2] eqn:E.
  injection A as A1 A2. rewrite A1, A2. reflexivity.
Qed.

(* the model's dc_finish IS the generated statement, whatever method other than "none" runs it *)
Lemma source_finish (m : string) ratio v1 (a : Q) (has_baf : bool) (b : option Q) :
  String.eqb m "none" = false ->
  let '(cn, c1, c2) := fn_finish m a has_baf b in
  dc_finish ratio v1 a has_baf b
  = mk_dc_out ratio v1 (Some a) (Some cn) (if has_baf then b else None) (if has_baf then Some (c1, c2) else None).
Proof.
  intro H. rewrite fn_finish_eq, H. cbv zeta. unfold dc_finish.
  destruct has_baf; [|reflexivity].
  destruct (alleles a b (round_he a)) as [c1 c2]. reflexivity.
Qed.

(* method "none": the statement stores nothing (the cells keep their unbound-marker values) -- do_call_row's MNone row
   carries no cn and no allelic columns *)
Lemma source_finish_none (a : Q) (has_baf : bool) (b : option Q) : fn_finish "none" a has_baf b = (0, None, None).
Proof. rewrite fn_finish_eq. reflexivity. Qed.

(* hence do_call_row, for the two calling methods, ends in the generated statement applied to the `absolutes` of the row *)
Lemma source_finish_row_threshold k purity hapx female build ts variants with_baf first row :
  let '(v1, e1, _, ratio) := dc_purity_step MThreshold k purity hapx female build first row in
  let a := inject_Z (thr_cn v1 e1 ts k (ref_pure (d_chrom row) k hapx)) in
  let has_baf := with_baf || variants in
  let b := dc_baf purity variants (d_baf row) in
  let '(cn, c1, c2) := fn_finish "threshold" a has_baf b in
  do_call_row MThreshold k purity hapx female build ts variants with_baf first row
  = Some (mk_dc_out ratio v1 (Some a) (Some cn) (if has_baf then b else None) (if has_baf then Some (c1, c2) else None)).
Proof.
  unfold do_call_row.
  destruct (dc_purity_step MThreshold k purity hapx female build first row) as [[[v1 e1] abs1] ratio].
  cbv zeta.
  pose proof (source_finish "threshold" ratio v1 (inject_Z (thr_cn v1 e1 ts k (ref_pure (d_chrom row) k hapx)))
                (with_baf || variants) (dc_baf purity variants (d_baf row)) eq_refl) as S.
  destruct (fn_finish "threshold" _ _ _) as [[cn c1] c2]. rewrite S. reflexivity.
Qed.

Lemma source_finish_row_clonal k purity hapx female build ts variants with_baf first row :
  let '(v1, _, abs1, ratio) := dc_purity_step MClonal k purity hapx female build first row in
  let has_baf := with_baf || variants in
  let b := dc_baf purity variants (d_baf row) in
  do_call_row MClonal k purity hapx female build ts variants with_baf first row
  = match abs1 with
    | Some a => let '(cn, c1, c2) := fn_finish "clonal" a has_baf b in
                Some (mk_dc_out ratio v1 (Some a) (Some cn) (if has_baf then b else None)
                                (if has_baf then Some (c1, c2) else None))
    | None => None
    end.
Proof.
  unfold do_call_row.
  destruct (dc_purity_step MClonal k purity hapx female build first row) as [[[v1 e1] abs1] ratio].
  cbv zeta. destruct abs1 as [a|]; [|reflexivity].
  pose proof (source_finish "clonal" ratio v1 a (with_baf || variants) (dc_baf purity variants (d_baf row)) eq_refl) as S.
  destruct (fn_finish "clonal" _ _ _) as [[cn c1] c2]. rewrite S. reflexivity.
Qed.
