(* C17 -- library lemmas: the shared numerics of Base/QNum.v (and the estimators of
   Model/Descriptives.v that segmetrics calls) against the textbook definitions of
   Spec/Stats17.v. *)
From CNV Require Import Base.Prelude Base.QNum Proofs.QNumLemmas Spec.Stats17.
From Coq Require Import Qround Qabs Setoid Morphisms Psatz.
Local Open Scope Q_scope.

(* ---- sums -------------------------------------------------------------------- *)
Lemma qsum_sumQ l : qsum l == sumQ l.
Proof.
  induction l as [|x t IH]; [reflexivity|]. rewrite qsum_cons. cbn [sumQ]. rewrite IH. reflexivity.
Qed.

Lemma sumQ_eqQ l l' : eqQ l l' -> sumQ l == sumQ l'.
Proof. intro H. rewrite <- !qsum_sumQ. now apply qsum_eqQ. Qed.

Lemma lenQ_qofnat l : lenQ l = qofnat (length l).
Proof. reflexivity. Qed.

Lemma lenQ_eqQ l l' : eqQ l l' -> lenQ l = lenQ l'.
Proof. intro H. unfold lenQ. now rewrite (eqQ_length _ _ H). Qed.

Lemma lenQ_pos l : l <> [] -> 0 < lenQ l.
Proof. intro H. apply qofnat_pos. now apply length_pos_nonnil. Qed.

Lemma mean_def_eqQ l l' : eqQ l l' -> mean_def l == mean_def l'.
Proof. intro H. unfold mean_def. now rewrite (sumQ_eqQ _ _ H), (lenQ_eqQ _ _ H). Qed.

Lemma qmean_mean_def l : qmean l == mean_def l.
Proof. rewrite qmean_spec. unfold mean_def. now rewrite qsum_sumQ. Qed.

Lemma eqQ_map2 (f g : Q -> Q) l l' :
  (forall x y, x == y -> f x == g y) -> eqQ l l' -> eqQ (map f l) (map g l').
Proof. intros H E. induction E; cbn; constructor; auto. Qed.

Lemma sq_sum_eqQ m m' l l' : m == m' -> eqQ l l' ->
  sumQ (map (fun x => (x - m) * (x - m)) l) == sumQ (map (fun x => (x - m') * (x - m')) l').
Proof.
  intros Hm H. apply sumQ_eqQ, eqQ_map2; [|exact H]. intros x y E. rewrite E, Hm. reflexivity.
Qed.

Lemma var_def_eqQ k l l' : eqQ l l' -> var_def k l == var_def k l'.
Proof.
  intro H. unfold var_def. rewrite (lenQ_eqQ _ _ H).
  rewrite (sq_sum_eqQ (mean_def l) (mean_def l') l l' (mean_def_eqQ _ _ H) H). reflexivity.
Qed.

(* ---- ascending rearrangements -------------------------------------------------- *)
Lemma same_numbers_eqQ s l l' : eqQ l l' -> same_numbers s l -> same_numbers s l'.
Proof. intros H P. unfold same_numbers in *. apply eqQ_map_Qred in H. now rewrite <- H. Qed.

Lemma rearranged_eqQ s l l' : eqQ l l' -> rearranged s l -> rearranged s l'.
Proof. intros H [P A]. split; [eapply same_numbers_eqQ; eauto|exact A]. Qed.

Lemma is_median_eqQ m l l' : eqQ l l' -> is_median m l -> is_median m l'.
Proof. intros H (s & R & V). exists s. split; [eapply rearranged_eqQ; eauto|exact V]. Qed.

Lemma is_percentile_eqQ p v l l' : eqQ l l' -> is_percentile p v l -> is_percentile p v l'.
Proof. intros H (s & R & V). exists s. split; [eapply rearranged_eqQ; eauto|exact V]. Qed.

Lemma qsort_rearranged l l' : eqQ l l' -> rearranged (qsort l) l'.
Proof.
  intro H. split; [|apply qsort_sorted].
  apply (same_numbers_eqQ _ l l' H). unfold same_numbers. apply Permutation_map, qsort_perm.
Qed.

(* the shared [median] is the textbook median *)
Lemma median_is_median l l' : eqQ l l' -> is_median (median l) l'.
Proof.
  intro H. exists (qsort l). split; [now apply qsort_rearranged|].
  cbv zeta. unfold median. rewrite <- Nat.negb_even.
  destruct (Nat.even (length (qsort l))) eqn:E; cbn [negb].
  - apply median_sorted_even, E.
  - rewrite (median_sorted_odd _ E). reflexivity.
Qed.

(* the shared [percentile] is numpy's linear-interpolated percentile *)
Lemma percentile_is_percentile p l l' : eqQ l l' -> is_percentile p (percentile p l) l'.
Proof.
  intro H. exists (qsort l). split; [now apply qsort_rearranged|].
  cbv zeta. unfold percentile. rewrite interp_sorted_spec.
  assert (Hh : percentile_pos (length (qsort l)) p ==
               inject_Z (Z.of_nat (length (qsort l) - 1)) * p / 100) by apply percentile_pos_spec.
  rewrite (Qfloor_comp _ _ Hh).
  set (h := percentile_pos (length (qsort l)) p) in *.
  set (h' := inject_Z (Z.of_nat (length (qsort l) - 1)) * p / 100) in *.
  set (i := Z.to_nat (Qfloor h')). unfold nthq.
  set (a := nth i (qsort l) 0). set (b := nth (S i) (qsort l) a).
  rewrite Hh. reflexivity.
Qed.

(* ---- median = 50th percentile --------------------------------------------------- *)
Lemma Qfloor_unique x k : inject_Z k <= x -> x < inject_Z k + 1 -> Qfloor x = k.
Proof.
  intros H1 H2. apply Z.le_antisymm; [|now apply Qfloor_ge_Z].
  assert (Qfloor x < k + 1)%Z; [|lia].
  rewrite Zlt_Qlt, inject_Z_plus. change (inject_Z 1) with 1.
  pose proof (Qfloor_le x). lra.
Qed.

Lemma percentile_50_median l : l <> [] -> percentile 50 l == median l.
Proof.
  intro N. unfold percentile, median. set (s := qsort l).
  assert (L : (0 < length s)%nat) by (unfold s; rewrite qsort_length; now apply length_pos_nonnil).
  rewrite interp_sorted_spec.
  assert (Hh : percentile_pos (length s) 50 == qofnat (length s - 1) / 2).
  { rewrite percentile_pos_spec. field. }
  rewrite (Qfloor_comp _ _ Hh). set (h := percentile_pos (length s) 50) in *.
  destruct (Nat.even (length s)) eqn:E.
  - (* even: position n/2 - 1 + 1/2 *)
    pose proof (even_half_true _ E) as HE. set (m := (length s / 2)%nat) in *.
    assert (M : (1 <= m)%nat) by lia.
    assert (Hq : qofnat (length s - 1) / 2 == inject_Z (Z.of_nat (m - 1)) + (1 # 2)).
    { unfold qofnat. replace (Z.of_nat (length s - 1)) with (2 * Z.of_nat (m - 1) + 1)%Z by lia.
      rewrite inject_Z_plus, inject_Z_mult. change (inject_Z 1) with 1. change (inject_Z 2) with 2. field. }
    assert (Hf : Qfloor (qofnat (length s - 1) / 2) = Z.of_nat (m - 1)).
    { apply Qfloor_unique; rewrite Hq; lra. }
    rewrite Hf, Nat2Z.id. rewrite (median_sorted_even _ E). fold m.
    replace (S (m - 1)) with m by lia.
    destruct (nth_succ_cases s (m - 1)) as [[H1 H2]|[H1 H2]]; [|lia].
    replace (S (m - 1)) with m in H2 by lia. rewrite H2, Hh, Hq. field.
  - (* odd: position (n-1)/2 exactly *)
    pose proof (even_half_false _ E) as HO. set (m := (length s / 2)%nat) in *.
    assert (Hq : qofnat (length s - 1) / 2 == inject_Z (Z.of_nat m)).
    { unfold qofnat. replace (Z.of_nat (length s - 1)) with (2 * Z.of_nat m)%Z by lia.
      rewrite inject_Z_mult. change (inject_Z 2) with 2. field. }
    rewrite (Qfloor_comp _ _ Hq), Qfloor_Z, Nat2Z.id. rewrite (median_sorted_odd _ E). fold m.
    rewrite Hh, Hq. ring.
Qed.
