(* C15: the biweight location of Model/Center.v is the biweight location of Model/Descriptives.v
   (C19's model of descriptives.py): two models of the same function agree, so what is proved of one
   holds of the other. *)
From CNV Require Import Base.Prelude Base.QNum Proofs.QNumLemmas Gen.CenterDefaults Gen.DescDefaults Model.Center.
From CNV Require Model.Descriptives.
From Coq Require Import Qabs Setoid Morphisms Psatz.
Local Open Scope Q_scope.

Lemma combine_map_self {A B} (f : A -> B) l : combine l (map f l) = map (fun x => (x, f x)) l.
Proof. induction l; simpl; congruence. Qed.

Lemma filter_map_pre {A B} (P : B -> bool) (g : A -> B) l :
  filter P (map g l) = map g (filter (fun x => P (g x)) l).
Proof. induction l as [|x l IH]; simpl; [reflexivity|]. destruct (P (g x)); simpl; rewrite IH; reflexivity. Qed.

Lemma qdot_as_sum (f : Q -> Q) l : qdot l (map f l) == qsum (map (fun x => qmul x (f x)) l).
Proof.
  induction l as [|x l IH]; [reflexivity|]. cbn [map]. rewrite qdot_cons, qsum_cons, IH, qmul_spec. reflexivity.
Qed.

Lemma consts_same : BILOC_C = biweight_c /\ BILOC_EPS = biweight_epsilon /\ BILOC_MAX_ITER = biweight_max_iter /\
                    BILOC_MASK_BOUND = 1.
Proof. repeat split; reflexivity. Qed.

(* the masked deviations and their weights, as Descriptives builds them, are Center's kept / bw_wt lists *)
Lemma masked_same a initial :
  let d := map (fun x => qsub x initial) a in
  let den := bw_den d in
  let dw := Descriptives.biloc_masked BILOC_C BILOC_EPS a initial in
  map fst dw = filter (bw_keep den) d /\ map snd dw = map (bw_wt den) (filter (bw_keep den) d).
Proof.
  cbv zeta. unfold Descriptives.biloc_masked, Descriptives.sub_all, Descriptives.abs_all.
  destruct consts_same as [-> [-> [_ ->]]].
  set (d := map (fun x => qsub x initial) a). fold (bw_den d). set (den := bw_den d).
  rewrite combine_map_self, filter_map_pre, !map_map. cbn [fst snd].
  split.
  - rewrite map_id. reflexivity.
  - reflexivity.
Qed.

Lemma iter_same a i i' : i == i' ->
  Descriptives.biloc_iter BILOC_C BILOC_EPS a i == biloc_iter a i'.
Proof.
  intros Hi. unfold Descriptives.biloc_iter, biloc_iter, biloc_core.
  destruct (masked_same a i) as [Hf Hs]. cbv zeta in Hf, Hs.
  assert (Ed : map (fun x => qsub x i') a = map (fun x => qsub x i) a).
  { apply map_ext. intros x. unfold qsub. apply Qred_complete. lra. }
  rewrite Ed. rewrite Hs.
  set (d := map (fun x => qsub x i) a) in *. set (den := bw_den d) in *.
  set (kept := filter (bw_keep den) d) in *.
  destruct (qeq_b (qsum (map (bw_wt den) kept)) 0); [exact Hi|].
  rewrite !qadd_spec, !qdiv_spec, Hf.
  rewrite <- (qdot_as_sum (bw_wt den) kept).
  generalize (qdot kept (map (bw_wt den) kept) / qsum (map (bw_wt den) kept)). intros z. lra.
Qed.

Lemma loop_same n : forall a i i' last, i == i' -> last == i ->
  Descriptives.biloc_loop n BILOC_C BILOC_EPS a i last == biloc_loop n a i'.
Proof.
  induction n as [|n IH]; intros a i i' last Hi Hl; simpl.
  - rewrite Hl. exact Hi.
  - pose proof (iter_same a i i' Hi) as Hr.
    assert (E : qsub (Descriptives.biloc_iter BILOC_C BILOC_EPS a i) i = qsub (biloc_iter a i') i').
    { unfold qsub. apply Qred_complete. lra. }
    rewrite E. destruct consts_same as [_ [Ee _]]. rewrite Ee.
    destruct (qle_b (qabs (qsub (biloc_iter a i') i')) biweight_epsilon); [exact Hr|].
    apply IH; [exact Hr|reflexivity].
Qed.

(* two or more values: the two models compute the same number *)
Theorem biweight_same x y l :
  Descriptives.biweight_location (x :: y :: l) None = Some (Descriptives.biweight_location_core (x :: y :: l) None) /\
  Descriptives.biweight_location_core (x :: y :: l) None == biweight (x :: y :: l).
Proof.
  split; [reflexivity|].
  unfold Descriptives.biweight_location_core, biweight.
  destruct consts_same as [_ [_ [-> _]]]. apply loop_same; reflexivity.
Qed.

(* one value: that value; none: NaN in the code, 0 here (center_all never asks) *)
Theorem biweight_same_single x : Descriptives.biweight_location [x] None = Some (biweight [x]).
Proof. reflexivity. Qed.
