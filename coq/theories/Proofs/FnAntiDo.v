(* C12 source tie of antitarget.do_antitarget, the whole body [loop ties e3]:

       if not min_bin_size:
           min_bin_size = 2 * int(avg_bin_size * (2**MIN_REF_COVERAGE))
       return get_antitargets(targets, access, avg_bin_size, min_bin_size)

   regenerated from the Python source on every run as Gen/FnAntiDo.v (fn_do_antitarget: the id of the returned table;
   tables are opaque ids, get_antitargets a function-typed input on ids, min_bin_size an integer with 0 = not given,
   `2 ** e` the exp2 oracle).  Here: under every reading of ids as tables in which the function input is the model's
   get_antitargets (Proofs/FnAntiFlow.v ties that one to its own source), the returned table IS Model/Antitarget.v
   do_antitarget -- the four arguments go on in their order, the minimum replaced by the default exactly when it is 0. *)
From CNV Require Import Base.Prelude Base.Str Model.IvRow Model.Target Model.Antitarget Proofs.FnBins Proofs.FnAntiFlow.
From CNV Require Gen.FnAntiDo Gen.FnBins Gen.BinsDefaults.

Local Open Scope Z_scope.

Section Reading.
  Variable exp2 : Q -> Q.
  Hypothesis exp2_m5 : (exp2 (-5 # 1) == 1 # 32)%Q.
  Variable tbl : Z -> list grow.
  Variable get_fn : Z -> Z -> Q -> Z -> Z.
  Variable cut : Z -> Z -> Z -> Z.

  Definition get_is_model : Prop :=
    forall t a avg mn rows, get_antitargets (tbl t) (access_of tbl a) avg mn cut = Some rows -> tbl (get_fn t a avg mn) = rows.

  (* the generated body: the generated default rule (Gen/FnBins.v fn_effective_min, C12_source_effective_min), then the call *)
  Lemma source_do_antitarget_body (t a : Z) (avg : Q) (m : Z) (mrc : Q) :
    Gen.FnAntiDo.fn_do_antitarget exp2 t a avg m mrc get_fn = get_fn t a avg (Gen.FnBins.fn_effective_min exp2 avg m mrc).
  Proof. reflexivity. Qed.

  Theorem source_do_antitarget (t a : Z) (avg : Q) (m : Z) :
    get_is_model ->
    do_antitarget (tbl t) (access_of tbl a) avg (Some m) cut <> AntiValueError ->
    do_antitarget (tbl t) (access_of tbl a) avg (Some m) cut
    = AntiRows (tbl (Gen.FnAntiDo.fn_do_antitarget exp2 t a avg m Gen.BinsDefaults.MIN_REF_COVERAGE get_fn)).
  Proof.
    intros G. rewrite source_do_antitarget_body. unfold do_antitarget.
    rewrite (fn_effective_min_eq exp2 exp2_m5 avg m).
    set (mn := Gen.FnBins.fn_effective_min exp2 avg m Gen.BinsDefaults.MIN_REF_COVERAGE).
    destruct (get_antitargets (tbl t) (access_of tbl a) avg mn cut) as [rows|] eqn:E; [|congruence].
    intros _. rewrite (G _ _ _ _ _ E). reflexivity.
  Qed.
End Reading.
