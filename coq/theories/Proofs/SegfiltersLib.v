(* C14, library: the weighted median used by squash_region is C19's
   weighted_median (Model/Descriptives.v) whenever the weights are non-negative,
   so C19's range / half-weight theorems apply to the cn of a merged run; small
   list facts (first occurrences, maximal present value, subsequences of a
   contiguous list) used by the field-by-field theorem. *)
From Coq Require Import QArith.Qabs.
From CNV Require Import Base.Prelude Base.Str Gen.SegfilterDefaults Model.Segfilters Spec.Segfilters.
From CNV Require Base.QNum Gen.DescDefaults Model.Descriptives Spec.Stats.
From CNV Require Proofs.QNumLemmas Proofs.DescriptivesWMedian Proofs.DescriptivesWMedianTop.
From CNV Require Import Proofs.SegfiltersRuns Proofs.SegfiltersKeys Proofs.SegfiltersConserve.
From Coq Require Import Lqa.

(* ------------------------------------------------ the walk never runs off the end *)

Lemma wmed_walk_d_eq mid tol : forall ps acc d,
  ps <> [] ->
  (mid - tol <= acc + QNum.qsum (map snd ps))%Q ->
  wmed_walk_d mid tol acc ps d = Descriptives.wmed_walk mid tol acc ps.
Proof.
  induction ps as [|[v w] rest IH]; intros acc d NE H; [contradiction NE; reflexivity|].
  cbn [wmed_walk_d Descriptives.wmed_walk].
  destruct (QNum.qle_b (QNum.qsub mid tol) (QNum.qadd acc w)) eqn:E; [reflexivity|].
  apply QNumLemmas.qle_b_false in E. rewrite QNumLemmas.qadd_spec, QNumLemmas.qsub_spec in E.
  cbn [map snd] in H. rewrite QNumLemmas.qsum_cons in H.
  destruct rest as [|q rest'].
  - exfalso. cbn [map QNum.qsum] in H. lra.
  - apply IH; [discriminate|]. rewrite QNumLemmas.qadd_spec. lra.
Qed.

Lemma wmed_tol_nonneg_total ps :
  (0 <= QNum.qsum (map snd ps))%Q -> (0 <= Descriptives.wmed_tol ps)%Q.
Proof.
  intros H. rewrite DescriptivesWMedian.wmed_tol_spec, <- DescriptivesWMedian.qsum_map_snd.
  apply Qmult_le_0_compat; [|exact H].
  apply Qmult_le_0_compat; [apply QNumLemmas.qofnat_nonneg|].
  unfold DescDefaults.WMEDIAN_TOL_EPS. apply Qle_bool_iff. reflexivity.
Qed.

Lemma wmedian_sorted_eq ps :
  (0 <= QNum.qsum (map snd ps))%Q -> wmedian_sorted ps = Descriptives.wmedian_sorted ps.
Proof.
  intros Hn. unfold wmedian_sorted, Descriptives.wmedian_sorted.
  destruct (existsb _ ps); [reflexivity|].
  destruct ps as [|p t]; [reflexivity|].
  apply wmed_walk_d_eq; [discriminate|].
  pose proof (wmed_tol_nonneg_total (p :: t) Hn) as Ht.
  rewrite QNumLemmas.qmul_spec. unfold DescDefaults.WMEDIAN_HALF.
  set (T := QNum.qsum (map snd (p :: t))) in *.
  set (tol := Descriptives.wmed_tol (p :: t)) in *. lra.
Qed.

Lemma nonneg_total ps : Stats.nonneg_weights ps -> (0 <= QNum.qsum (map snd ps))%Q.
Proof.
  intros H. apply QNumLemmas.qsum_nonneg. intros x Hx. apply in_map_iff in Hx as (p & <- & Hp). apply H, Hp.
Qed.

(* the decorated function: wmedian_pairs is C19's weighted_median_ps *)
Theorem wmedian_pairs_c19 ps :
  Stats.nonneg_weights ps -> wmedian_pairs ps = Descriptives.weighted_median_ps ps.
Proof.
  intros Hn. destruct ps as [|[a w] [|q t]]; try reflexivity.
  unfold wmedian_pairs, Descriptives.weighted_median_ps, Descriptives.on_weighted_array.
  f_equal. apply wmedian_sorted_eq. apply nonneg_total.
  eapply DescriptivesWMedianTop.nonneg_perm; [|exact Hn].
  apply Permutation_sym. apply DescriptivesWMedianTop.psort_perm.
Qed.

(* at most half of the weight, plus the rounding allowance, on either side *)
Lemma upto_of_exact s m ps : (0 <= s)%Q -> Stats.is_weighted_median m ps -> Stats.is_weighted_median_upto s m ps.
Proof. unfold Stats.is_weighted_median, Stats.is_weighted_median_upto. intros Hs [A B]. split; lra. Qed.

Lemma weighted_median_ps_halves_tol ps m :
  Stats.nonneg_weights ps -> Descriptives.weighted_median_ps ps = Some m ->
  Stats.is_weighted_median_upto (Descriptives.wmed_tol ps) m ps.
Proof.
  intros Hnn. destruct ps as [|p [|q t]]; intro E.
  - discriminate.
  - injection E as <-.
    assert (W : (0 <= snd p)%Q) by (apply Hnn; left; reflexivity).
    apply upto_of_exact.
    + apply wmed_tol_nonneg_total. cbn [map QNum.qsum]. rewrite Qred_correct. lra.
    + unfold Stats.is_weighted_median, Stats.wbelow, Stats.wabove, Stats.wtotal. cbn [filter map].
      assert (E1 : QNum.qlt_b (fst p) (fst p) = false) by (apply QNumLemmas.qlt_b_false, Qle_refl).
      rewrite E1. cbn [map Stats.sumQ].
      assert (Hh : (0 <= (snd p + 0) / 2)%Q) by (apply Qle_shift_div_l; lra). split; exact Hh.
  - injection E as <-.
    apply (DescriptivesWMedianTop.arranged_halves_tol (p :: q :: t) (Descriptives.psort (p :: q :: t))).
    + exact (DescriptivesWMedianTop.psort_perm (p :: q :: t)).
    + exact (DescriptivesWMedianTop.psort_sorted (p :: q :: t)).
    + exact Hnn.
    + discriminate.
Qed.

Lemma wm_slack_tol ps : (Descriptives.wmed_tol ps == wm_slack ps)%Q.
Proof.
  rewrite DescriptivesWMedian.wmed_tol_spec. unfold wm_slack, QNum.qofnat, DescDefaults.WMEDIAN_TOL_EPS. reflexivity.
Qed.

Lemma upto_slack_wd s s' m ps : (s == s')%Q ->
  Stats.is_weighted_median_upto s m ps -> Stats.is_weighted_median_upto s' m ps.
Proof. unfold Stats.is_weighted_median_upto. intros E [A B]. split; lra. Qed.

Theorem wmedian_pairs_halves ps m :
  Stats.nonneg_weights ps -> wmedian_pairs ps = Some m ->
  Stats.is_weighted_median_upto (wm_slack ps) m ps.
Proof.
  intros Hn E. rewrite (wmedian_pairs_c19 ps Hn) in E.
  eapply upto_slack_wd; [apply wm_slack_tol|]. apply weighted_median_ps_halves_tol; assumption.
Qed.

(* ------------------------------------------------------- first occurrences *)

Definition notin (acc : list string) (y : string) : bool := negb (existsb (String.eqb y) acc).

Lemma filter_filter_comm {A} (p q : A -> bool) l : filter p (filter q l) = filter q (filter p l).
Proof.
  induction l as [|x t IH]; cbn [filter]; [reflexivity|].
  destruct (p x) eqn:Ep, (q x) eqn:Eq; cbn [filter]; rewrite ?Ep, ?Eq, IH; reflexivity.
Qed.

Lemma filter_absorb (p : string -> bool) x l :
  p x = false -> filter p (filter (fun y => negb (String.eqb x y)) l) = filter p l.
Proof.
  intros Hp. induction l as [|y t IH]; cbn [filter]; [reflexivity|].
  destruct (String.eqb x y) eqn:E; cbn [negb filter].
  - apply String.eqb_eq in E. subst y. rewrite Hp. exact IH.
  - rewrite IH. reflexivity.
Qed.

Lemma uniq_str_filter (p : string -> bool) l : uniq_str (filter p l) = filter p (uniq_str l).
Proof.
  induction l as [|x t IH]; cbn [filter uniq_str]; [reflexivity|].
  destruct (p x) eqn:Ep; cbn [uniq_str filter].
  - rewrite IH. f_equal. apply filter_filter_comm.
  - rewrite IH. symmetry. apply filter_absorb. exact Ep.
Qed.

Lemma existsb_app_one acc x y :
  existsb (String.eqb y) (acc ++ [x]) = existsb (String.eqb y) acc || String.eqb y x.
Proof. rewrite existsb_app. cbn. rewrite orb_false_r. reflexivity. Qed.

Lemma fold_first_occ : forall l acc,
  fold_left (fun acc x => if existsb (String.eqb x) acc then acc else acc ++ [x]) l acc
  = acc ++ uniq_str (filter (notin acc) l).
Proof.
  induction l as [|x t IH]; intros acc; cbn [fold_left filter]; [cbn; rewrite app_nil_r; reflexivity|].
  unfold notin at 1. destruct (existsb (String.eqb x) acc) eqn:E; cbn [negb].
  - apply IH.
  - rewrite IH. cbn [uniq_str]. rewrite <- app_assoc. cbn [app]. f_equal. f_equal.
    rewrite <- uniq_str_filter. f_equal.
    rewrite filter_filter_comm.
    transitivity (filter (fun y => notin acc y && negb (String.eqb x y)) t).
    + apply filter_ext. intros y. unfold notin. rewrite existsb_app_one, negb_orb.
      rewrite (String.eqb_sym y x). reflexivity.
    + clear. induction t as [|y t IH]; cbn [filter]; [reflexivity|].
      destruct (notin acc y) eqn:N, (String.eqb x y) eqn:S; cbn [andb negb filter]; rewrite ?N, ?IH; try reflexivity.
Qed.

Theorem uniq_str_first_occurrences l : uniq_str l = first_occurrences l.
Proof.
  unfold first_occurrences. rewrite fold_first_occ. cbn [app].
  f_equal. symmetry. apply filter_all. intros x _. reflexivity.
Qed.

(* ------------------------------------------------------- largest present value *)

Lemma filter_some_present l : filter_some l = present l.
Proof. induction l as [|[x|] t IH]; cbn [filter_some present]; rewrite ?IH; reflexivity. Qed.

Theorem omax_run_max l : fold_right omax None l = run_max l.
Proof.
  unfold run_max. induction l as [|[x|] t IH]; cbn [fold_right present]; [reflexivity| |].
  - rewrite IH. destruct (fold_right _ None (present t)); reflexivity.
  - rewrite IH. reflexivity.
Qed.

Lemma run_max_none l : run_max l = None <-> present l = [].
Proof. unfold run_max. destruct (present l); cbn [fold_right]; split; intros H; try reflexivity; discriminate. Qed.

Theorem run_max_is_max l m : run_max l = Some m ->
  In m (present l) /\ (forall x, In x (present l) -> (x <= m)%Q).
Proof.
  unfold run_max. revert m. induction (present l) as [|x t IH]; intros m E; [discriminate|].
  cbn [fold_right] in E. destruct (fold_right _ None t) as [y|] eqn:F.
  - injection E as <-. destruct (IH y eq_refl) as (I1 & I2). unfold qmax2.
    destruct (Qle_bool x y) eqn:L.
    + apply Qle_bool_iff in L. split; [right; exact I1|]. intros z [<-|Hz]; [exact L|apply I2, Hz].
    + assert (y <= x)%Q.
      { apply Qlt_le_weak. apply Qnot_le_lt. intros C. apply Qle_bool_iff in C. congruence. }
      split; [left; reflexivity|]. intros z [<-|Hz]; [apply Qle_refl|]. specialize (I2 z Hz). lra.
  - injection E as <-. destruct t as [|y t']; [|cbn [fold_right] in F; discriminate].
    split; [left; reflexivity|]. intros z [<-|[]]. apply Qle_refl.
Qed.

(* ---------------------------------------- a subsequence of a contiguous list *)

Inductive Subseq {A} : list A -> list A -> Prop :=
| Sub_nil l : Subseq [] l
| Sub_keep a s l : Subseq s l -> Subseq (a :: s) (a :: l)
| Sub_skip a s l : Subseq s l -> Subseq s (a :: l).

Lemma subseq_in {A} (s l : list A) x : Subseq s l -> In x s -> In x l.
Proof. induction 1 as [l|a s l H IH|a s l H IH]; cbn; intros I; [contradiction| |]; intuition. Qed.

Lemma subseq_refl {A} (l : list A) : Subseq l l.
Proof. induction l; constructor; assumption. Qed.

Lemma subseq_head_contig {K} (a : K) (s l : list K) :
  Subseq s l -> Contig l -> hd_opt l = Some a -> hd_opt s = Some a \/ ~ In a s.
Proof.
  induction 1 as [l|b s l H IH|b s l H IH]; intros C E.
  - right. cbn. tauto.
  - cbn in E. injection E as ->. left. reflexivity.
  - cbn in E. injection E as ->. inversion C as [|? ? Cl Ha]; subst.
    destruct Ha as [Ha|Ha].
    + apply IH; assumption.
    + right. intros I. apply Ha. eapply subseq_in; [exact H|exact I].
Qed.

Lemma subseq_contig {K} (s l : list K) : Subseq s l -> Contig l -> Contig s.
Proof.
  induction 1 as [l|a s l H IH|a s l H IH]; intros C.
  - constructor.
  - inversion C as [|? ? Cl Ha]; subst. constructor; [apply IH, Cl|].
    destruct Ha as [Ha|Ha].
    + apply (subseq_head_contig a s l H Cl Ha).
    + right. intros I. apply Ha. eapply subseq_in; [exact H|exact I].
  - inversion C; subst. apply IH. assumption.
Qed.

Lemma subseq_filter {A} (p : A -> bool) l : Subseq (filter p l) l.
Proof. induction l as [|x t IH]; cbn [filter]; [constructor|]. destruct (p x); constructor; exact IH. Qed.

Lemma subseq_trans {A} (a b c : list A) : Subseq a b -> Subseq b c -> Subseq a c.
Proof.
  intros H1 H2. revert a H1. induction H2 as [l|x s l H IH|x s l H IH]; intros a H1.
  - inversion H1; subst. constructor.
  - inversion H1; subst; [constructor| |]; constructor; apply IH; assumption.
  - constructor. apply IH. exact H1.
Qed.

Lemma subseq_map {A B} (f : A -> B) s l : Subseq s l -> Subseq (map f s) (map f l).
Proof. induction 1; cbn [map]; constructor; assumption. Qed.

(* the heads of the pieces of a cut of l form a subsequence of l *)
Lemma subseq_heads {A} (d : A) (rs : list (list A)) :
  Forall (fun r => r <> []) rs -> Subseq (map (fun r => hd d r) rs) (concat rs).
Proof.
  induction 1 as [|r rs Hr _ IH]; cbn [map concat]; [constructor|].
  destruct r as [|x r']; [contradiction Hr; reflexivity|]. cbn [hd app].
  constructor. clear - IH. induction r' as [|y r'' IHr]; cbn [app]; [exact IH|]. constructor. exact IHr.
Qed.
