(* C15 function-body tie of center_all's body after the selection (cnvlib/cnary.py), translated on every run
   (Gen/FnCnaryCenter.v, fn_center_row): the statement

       if cnarr:
           if by_chrom: values = pd.Series([estimator(subarr["log2"]) for _c, subarr in cnarr.by_chromosome() if len(subarr)])
           else:        values = cnarr["log2"]
           shift = -estimator(values)
           if verbose: logging.info(...)
           self.data["log2"] += shift

   read per row of the table.  Model/Center.v's center_all IS that row function on every row, with the estimator the
   model applies, the per-chromosome estimates `map est (group_log2 sel)` and the selection's log2 column: nothing
   selected -> the row is left alone; otherwise every row moves by minus the estimate of (the per-chromosome
   estimates | the selected values), and no other column changes. *)
From CNV Require Import Base.Prelude Base.Str Base.QNum Proofs.QNumLemmas Gen.CenterDefaults Model.Center
  Proofs.FnCnary Gen.FnCnaryCenter.
Local Open Scope Q_scope.

Definition nonempty {A} (l : list A) : bool := match l with [] => false | _ => true end.

Lemma Forall2_map_r {A B} (P : A -> B -> Prop) (f : A -> B) l :
  (forall a, In a l -> P a (f a)) -> Forall2 P l (map f l).
Proof.
  induction l as [|a l IH]; intros H; cbn [map]; constructor.
  - apply H. left. reflexivity.
  - apply IH. intros x Hx. apply H. right. exact Hx.
Qed.

Theorem fn_center_all_eq est by_chrom skip_low build t verbose :
  let sel := center_selection skip_low build t in
  Forall2 (fun b b' => other_columns_same b b' /\
                       b_log2 b' == fn_center_row (nonempty sel) by_chrom verbose est
                                                  (map est (group_log2 sel)) (map b_log2 sel) (b_log2 b))
          t (center_all est by_chrom skip_low build t).
Proof.
  cbv zeta. unfold center_all, center_shift, fn_center_row.
  destruct (center_selection skip_low build t) as [|s0 sel] eqn:E; cbn [nonempty].
  - eapply Forall2_impl'; [|apply Forall2_same]. intros b b' [Hs Hv]. split; [exact Hs|exact Hv].
  - apply Forall2_map_r. intros b _. split.
    + unfold other_columns_same, add_log2, set_log2. cbn. repeat split; reflexivity.
    + unfold add_log2, set_log2. cbn [b_log2]. rewrite qadd_spec, qneg_spec. unfold center_stat.
      destruct by_chrom; reflexivity.
Qed.
