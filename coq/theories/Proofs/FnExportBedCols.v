(* C20 source tie of export_bed's label and ncopies columns, per row:

       out["label"] = label if label else segments["gene"]
       out["ncopies"] = (segments["cn"] if "cn" in segments
                         else call.absolute_dataframe(...)["absolute"].round().astype("int"))

   is regenerated from the Python source on every run as Gen/FnExportBedCols.v (fn_bed_columns: the two cells of a row as
   a function of label (None enters as the empty string), the row's gene, "the table has a cn column", the row's cn and
   the row's absolute copy number).  Here: the label is the model's bed_label (Model/Export.v) and the ncopies cell is
   the element rule of the model's ncopies_col: the cn cell, or the absolute value rounded half to even. *)
From CNV Require Import Base.Prelude Base.Str Base.QNum Proofs.QNumLemmas Gen.FnExportBedCols Model.Call Model.Export
  Proofs.FnCall.

Definition label_text (label : option string) : string :=
  match label with Some l => l | None => EmptyString end.

Lemma source_bed_label (label : option string) (s : seg) (has_cn : bool) (cn : Z) (a : Q) :
  fst (fn_bed_columns (label_text label) (s_gene s) has_cn cn a) = bed_label label s.
Proof.
  unfold fn_bed_columns, bed_label, label_text. cbn [fst].
  destruct label as [l|]; [|reflexivity].
  destruct (String.eqb l ""); reflexivity.
Qed.

Lemma trunc_of_Z (z : Z) :
  (let tr := inject_Z z in if Qle_bool 0 tr then floorQ tr else ceilQ tr) = z.
Proof. cbv zeta. destruct (Qle_bool 0 (inject_Z z)); [apply floorQ_Z | apply ceilQ_Z]. Qed.

Lemma source_bed_ncopies (l g : string) (has_cn : bool) (cn : Z) (a : Q) :
  snd (fn_bed_columns l g has_cn cn a) = if has_cn then cn else round_he a.
Proof.
  unfold fn_bed_columns. cbn [snd]. destruct has_cn; [reflexivity|].
  rewrite <- (round_half_even_is_round_he a). exact (trunc_of_Z (round_half_even a)).
Qed.

(* the whole column: ncopies_col is the generated cell, row by row *)
Lemma source_bed_ncopies_col (has_cn : bool) (cns : list Z) (abs : list Q) (l g : string) :
  (if has_cn then cns else map round_he abs)
  = if has_cn then map (fun cn => snd (fn_bed_columns l g true cn 0%Q)) cns
    else map (fun a => snd (fn_bed_columns l g false 0 a)) abs.
Proof.
  destruct has_cn.
  - rewrite (map_ext _ (fun cn => cn)); [symmetry; apply map_id|]. intro cn. apply source_bed_ncopies.
  - apply map_ext. intro a. symmetry. apply source_bed_ncopies.
Qed.
