(* C15 function-body tie of the chrX masks (tools/fnspecs/cnary_loops.py, Gen/FnCnaryXFilter.v): CopyNumArray.parx_filter and
   CopyNumArray.chr_x_filter of cnvlib/cnary.py, translated whole and read per row, ARE Model/Center.v's parx_filter /
   chr_x_filter on every bin: the row's chromosome / start / end, the table's X label and the PAR bounds of the build go in,
   the call `self.parx_filter(genome_build=diploid_parx_genome)` inside chr_x_filter is the generated parx_filter. *)
From CNV Require Import Base.Prelude Base.Str Base.QNum Gen.CenterDefaults Model.Center Gen.FnCnaryXFilter.

(* parx_filter: the generated function on the row's columns, for whatever spelling of the build name was passed *)
Theorem fn_parx_filter_eq t p b gb :
  parx_filter t p b =
  let '(s1, e1, s2, e2) := par_x p in
  fn_parx_filter (b_chrom b) (b_start b) (b_end b) gb (x_label t) s1 e1 s2 e2.
Proof.
  unfold parx_filter, in_par, fn_parx_filter. destruct (par_x p) as [[[s1 e1] s2] e2]. reflexivity.
Qed.

(* the value `self.parx_filter(...)` has where chr_x_filter reads it: the generated parx_filter when a build is given
   (never read otherwise) *)
Definition fn_parx_of (t : list bin) (build : option parb) (gb : string) (b : bin) : bool :=
  match build with
  | Some p => let '(s1, e1, s2, e2) := par_x p in
              fn_parx_filter (b_chrom b) (b_start b) (b_end b) gb (x_label t) s1 e1 s2 e2
  | None => false
  end.

Definition has_build_x (build : option parb) : bool := match build with Some _ => true | None => false end.

Theorem fn_chr_x_filter_eq t build b gb :
  chr_x_filter t build b = fn_chr_x_filter (b_chrom b) (x_label t) (has_build_x build) (fn_parx_of t build gb b).
Proof.
  unfold chr_x_filter, fn_chr_x_filter, fn_parx_of, has_build_x. destruct build as [p|].
  - rewrite (fn_parx_filter_eq t p b gb). destruct (par_x p) as [[[s1 e1] s2] e2]. reflexivity.
  - cbv zeta. rewrite andb_true_r. reflexivity.
Qed.
