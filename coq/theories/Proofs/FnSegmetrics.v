(* C17 (extension) -- the second tie: the bodies of the scalar / elementwise pieces of
   cnvlib/segmetrics.py and cnvlib/bintest.py, translated by tools/py2v_fn.py into
   Gen/FnSegmetrics.v and Gen/FnBintest.v, equal the hand-written model functions. *)
From CNV Require Import Base.Prelude Base.QNum Proofs.QNumLemmas Gen.SegmetricsDefaults
  Gen.FnSegmetrics Gen.FnBintest Model.Ranges Model.Segmetrics Model.Bintest Proofs.SegmetricsLib2.
From Coq Require Import Qround Qabs Setoid Morphisms Psatz.
Local Open Scope Q_scope.

(* make_pi_func: pct_lo = 100 * alpha / 2 ; pct_hi = 100 * (1 - alpha / 2) *)
Theorem fn_pi_pcts_eq alpha :
  fst (fn_pi_pcts alpha) == pi_pct_lo alpha /\ snd (fn_pi_pcts alpha) == pi_pct_hi alpha.
Proof.
  unfold fn_pi_pcts, pi_pct_lo, pi_pct_hi. cbn [fst snd]. rewrite !Qred_correct.
  unfold pi_hundred_lo, pi_two_lo, pi_hundred_hi, pi_one_hi, pi_two_hi. split; reflexivity.
Qed.

(* confidence_interval_bootstrap: new_boots = int(np.ceil(2 / alpha)) -- the truncation of an
   integer-valued float is that integer *)
Theorem fn_new_boots_eq alpha : fn_new_boots alpha = Qceiling (2 / alpha).
Proof.
  unfold fn_new_boots. cbv zeta. unfold ceilQ, floorQ.
  change (inject_Z 2) with 2.
  destruct (Qle_bool 0 (inject_Z (Qceiling (2 / alpha)))); [apply Qfloor_Z|apply Qceiling_Z].
Qed.

(* the model's count of resamples is the source's: raised to new_boots when
   bootstraps <= 2 / alpha (q2a the float 2/alpha, here the exact quotient), kept otherwise *)
Theorem n_boot_source b q2a alpha : q2a == 2 / alpha ->
  n_boot b q2a = if Qle_bool (inject_Z b) (2 / alpha) then fn_new_boots alpha else b.
Proof.
  intro E. unfold n_boot, qle_b. rewrite fn_new_boots_eq.
  assert (C : Qceiling q2a = Qceiling (2 / alpha)) by now apply Qceiling_comp.
  assert (B : Qle_bool (inject_Z b) q2a = Qle_bool (inject_Z b) (2 / alpha)).
  { destruct (Qle_bool (inject_Z b) (2 / alpha)) eqn:E2.
    - apply Qle_bool_iff. apply Qle_bool_iff in E2. now rewrite E.
    - destruct (Qle_bool (inject_Z b) q2a) eqn:E3; [|reflexivity].
      apply Qle_bool_iff in E3. rewrite E in E3. apply Qle_bool_iff in E3. congruence. }
  now rewrite B, C.
Qed.

(* z_prob, one bin: sd = np.sqrt(1 - weight); z = log2 / sd.  For any value sd the square-root
   oracle returns with sd^2 = 1 - weight, the source's z squared is the model's z^2 *)
Theorem fn_z_score_eq sd r w z2 : w < 1 -> sd * sd == 1 - w -> zsq r w = Zfin z2 ->
  fn_z_score sd r * fn_z_score sd r == z2.
Proof.
  intros W S Z. unfold fn_z_score. cbv zeta.
  unfold zsq in Z. unfold z_one in Z.
  assert (V : qsub 1 w == 1 - w) by apply qsub_spec.
  destruct (qeq_b (qsub 1 w) 0) eqn:E0.
  { apply qeq_b_iff in E0. rewrite V in E0. exfalso. lra. }
  destruct (qlt_b 0 (qsub 1 w)) eqn:E1; [|discriminate].
  injection Z as <-. rewrite qdiv_spec, qsq_spec, V.
  assert (N : ~ sd == 0).
  { intro H. rewrite H in S. lra. }
  rewrite <- S. field. exact N.
Qed.

(* p = 2.0 * norm.cdf(-np.abs(z)) *)
Theorem fn_z_p_eq phi z2 : p_of phi (Zfin z2) = Some (qmul z_two (phi z2)) /\ qmul z_two (phi z2) == fn_z_p (phi z2).
Proof.
  split; [reflexivity|]. unfold fn_z_p. cbv zeta. rewrite qmul_spec. unfold z_two. reflexivity.
Qed.
