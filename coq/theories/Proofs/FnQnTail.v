(* C19 source tie [loop ties e2]: q_n's tail

       n = len(a)
       if n <= 10: scale = 1.392
       elif 10 < n < 400: scale = 1.0 + (4 / n)
       else: scale = 1.0
       return quartile / scale

   regenerated from cnvlib/descriptives.py on every run (Gen/FnQnTail.v fn_qn_tail; the chained comparison
   `10 < n < 400` is `10 < n and n < 400`).  Model/Descriptives.v qn_core IS this tail applied to the first
   quartile of the pairwise differences. *)
From CNV Require Import Base.Prelude Base.QNum Proofs.QNumLemmas Gen.DescDefaults Gen.FnQnTail Model.Descriptives.
Local Open Scope Q_scope.

(* the size-dependent scale alone *)
Lemma source_qn_scale q n : fn_qn_tail q (Z.of_nat n) == q / qn_scale n.
Proof.
  unfold fn_qn_tail, qn_scale, QN_SMALL_N, QN_SMALL_SCALE, QN_MID_LO, QN_MID_HI, QN_MID_BASE, QN_MID_NUM, QN_LARGE_SCALE.
  cbv zeta.
  destruct (Z.of_nat n <=? 10)%Z; cbv iota; [reflexivity|].
  destruct ((10 <? Z.of_nat n)%Z && (Z.of_nat n <? 400)%Z); cbv iota; [|reflexivity].
  rewrite qadd_spec, qdiv_spec. unfold qofnat. reflexivity.
Qed.

Lemma fn_qn_tail_wd q q' n : q == q' -> fn_qn_tail q n == fn_qn_tail q' n.
Proof. intro H. unfold fn_qn_tail. cbv zeta. rewrite H. reflexivity. Qed.

Theorem source_qn_tail a :
  qn_core a == fn_qn_tail (percentile QN_PCT (pair_diffs a)) (Z.of_nat (length a)).
Proof. rewrite source_qn_scale. unfold qn_core. apply qdiv_spec. Qed.
