(* C11: two well separated noiseless steps (a | b | c, at least h bins before the first, 2h
   between them and h after the second): at every level the convolution is the sum of two
   disjoint tents, FindLocalPeaks returns exactly [t1; t2]; a breakpoint is reported iff its
   peak passes the two-peak FDR threshold at some level (and nothing else is ever reported);
   when both pass, the result is three segments with means exactly a, b, c. *)
From Coq Require Import QArith.Qabs.
From CNV Require Import Base.Prelude Model.Haar Spec.Haar Proofs.HaarConv Proofs.HaarFlat
  Proofs.HaarUnify Proofs.HaarPeaks Proofs.HaarStepLib Proofs.HaarMeans Proofs.HaarStep.
From Coq Require Import Lqa.

Local Open Scope Q_scope.

(* ---------- the signal ---------- *)

Lemma two_step_length a b c t1 t2 n :
  (t1 <= t2)%nat -> (t2 <= n)%nat -> length (two_step_signal a b c t1 t2 n) = n.
Proof. intros H1 H2. unfold two_step_signal. rewrite !app_length, !repeat_length. lia. Qed.

Lemma nth_two_step a b c t1 t2 n i :
  (t1 <= t2)%nat -> (t2 <= n)%nat -> (i < n)%nat ->
  nth i (two_step_signal a b c t1 t2 n) 0 = if (i <? t1)%nat then a else if (i <? t2)%nat then b else c.
Proof.
  intros H1 H2 Hi. unfold two_step_signal. destruct (i <? t1)%nat eqn:E1.
  - apply Nat.ltb_lt in E1. rewrite app_nth1 by (rewrite repeat_length; exact E1). apply nth_repeat_lt, E1.
  - apply Nat.ltb_ge in E1. rewrite app_nth2 by (rewrite repeat_length; exact E1). rewrite repeat_length.
    destruct (i <? t2)%nat eqn:E2.
    + apply Nat.ltb_lt in E2. rewrite app_nth1 by (rewrite repeat_length; lia). apply nth_repeat_lt. lia.
    + apply Nat.ltb_ge in E2. rewrite app_nth2 by (rewrite repeat_length; lia). rewrite repeat_length.
      apply nth_repeat_lt. lia.
Qed.

Lemma padded_two_step a b c t1 t2 n h j :
  (0 <= h <= Z.of_nat t1)%Z -> (Z.of_nat t1 <= Z.of_nat t2)%Z -> (Z.of_nat t2 + h <= Z.of_nat n)%Z ->
  (- h <= j < Z.of_nat n + h)%Z ->
  padded (two_step_signal a b c t1 t2 n) j
  == a + (b - a) * ustep (Z.of_nat t1) j + (c - b) * ustep (Z.of_nat t2) j.
Proof.
  intros H1 H12 H2 Hj. unfold padded. rewrite two_step_length by lia.
  assert (Hm : (0 <= mirror (Z.of_nat n) j < Z.of_nat n)%Z).
  { unfold mirror. destruct (j <? 0)%Z eqn:M1; [lia|]. destruct (Z.of_nat n <=? j)%Z eqn:M2; lia. }
  rewrite nth_two_step by lia. unfold ustep.
  assert (E1 : (Z.to_nat (mirror (Z.of_nat n) j) <? t1)%nat = negb (Z.of_nat t1 <=? j)%Z).
  { unfold mirror in *. destruct (j <? 0)%Z eqn:M1; [|destruct (Z.of_nat n <=? j)%Z eqn:M2];
      (destruct (Z.of_nat t1 <=? j)%Z eqn:E; cbn [negb]; [apply Nat.ltb_ge|apply Nat.ltb_lt]; lia). }
  assert (E2 : (Z.to_nat (mirror (Z.of_nat n) j) <? t2)%nat = negb (Z.of_nat t2 <=? j)%Z).
  { unfold mirror in *. destruct (j <? 0)%Z eqn:M1; [|destruct (Z.of_nat n <=? j)%Z eqn:M2];
      (destruct (Z.of_nat t2 <=? j)%Z eqn:E; cbn [negb]; [apply Nat.ltb_ge|apply Nat.ltb_lt]; lia). }
  rewrite E1, E2.
  destruct (Z.of_nat t1 <=? j)%Z eqn:F1, (Z.of_nat t2 <=? j)%Z eqn:F2; cbn [negb]; try ring.
  lia.
Qed.

Lemma two_step_window a b c t1 t2 n h k :
  (1 <= h <= Z.of_nat t1)%Z -> (Z.of_nat t1 <= Z.of_nat t2)%Z -> (Z.of_nat t2 + h <= Z.of_nat n)%Z ->
  (0 <= k < Z.of_nat n)%Z ->
  haar_window (two_step_signal a b c t1 t2 n) h k
  == (b - a) * tentQ h (Z.of_nat t1) k + (c - b) * tentQ h (Z.of_nat t2) k.
Proof.
  intros H1 H12 H2 Hk.
  apply (window_two_usteps _ h k a); [lia|].
  intros j Hj. apply (padded_two_step a b c t1 t2 n h); lia.
Qed.

Lemma step_amp_linear scale wt h d : (1 <= h)%Z -> ~ scale == 0 ->
  step_amp scale wt h d == step_amp scale wt h 1 * d.
Proof.
  intros Hh Hs. assert (0 < inject_Z h) by (apply inject_Z_pos; lia).
  unfold step_amp. destruct wt; field; lra.
Qed.

Lemma two_step_conv a b c t1 t2 n wt h scale k :
  uniform_weights n wt -> ~ scale == 0 ->
  (1 <= h <= Z.of_nat t1)%Z -> (Z.of_nat t1 <= Z.of_nat t2)%Z -> (Z.of_nat t2 + h <= Z.of_nat n)%Z ->
  (0 <= k < Z.of_nat n)%Z ->
  qnth (haar_conv (two_step_signal a b c t1 t2 n) wt h scale) k
  == step_amp scale wt h (b - a) * tentQ h (Z.of_nat t1) k
     + step_amp scale wt h (c - b) * tentQ h (Z.of_nat t2) k.
Proof.
  intros Hw Hs H1 H12 H2 Hk.
  assert (Hlen : length (two_step_signal a b c t1 t2 n) = n) by (apply two_step_length; lia).
  destruct wt as [w|]; cbn [step_amp].
  - destruct Hw as [cw [Hc ->]].
    destruct (Z.eq_dec k 0) as [->|Hk0].
    + rewrite haar_conv_0. rewrite !tent_at_0 by lia. ring.
    + rewrite haar_conv_w_closed by (rewrite ?repeat_length, ?Hlen; lia).
      pose proof (uniform_window_w (two_step_signal a b c t1 t2 n) cw h k Hc) as U.
      rewrite Hlen in U. rewrite U by lia.
      rewrite two_step_window by lia.
      assert (0 < inject_Z h) by (apply inject_Z_pos; lia).
      field. lra.
  - rewrite haar_conv_u_closed by (rewrite Hlen; lia).
    rewrite two_step_window by lia. field. exact Hs.
Qed.

(* ---------- exactly two peaks ---------- *)

Lemma quietT_compat a a' b b' c c' : a == a' -> b == b' -> c == c' -> quietT a b c -> quietT a' b' c'.
Proof. unfold quietT. intros H1 H2 H3 [H|[H|H]]; [left|right; left|right; right]; lra. Qed.

Lemma peakT_compat a a' b b' c c' : a == a' -> b == b' -> c == c' -> peakT a b c -> peakT a' b' c'.
Proof. unfold peakT. intros H1 H2 H3 [H|H]; [left|right]; lra. Qed.

Definition two_tents (f1 f2 : Q) (h t1 t2 k : Z) : Q := f1 * tentQ h t1 k + f2 * tentQ h t2 k.

Lemma two_tents_near1 f1 f2 h t1 t2 k :
  (t1 + 2 * h <= t2)%Z -> (Z.abs (k - t1) <= h)%Z -> two_tents f1 f2 h t1 t2 k == f1 * tentQ h t1 k.
Proof. intros Hs Hk. unfold two_tents. rewrite (tent_zero h t2 k) by lia. ring. Qed.

Lemma two_tents_near2 f1 f2 h t1 t2 k :
  (t1 + 2 * h <= t2)%Z -> (Z.abs (k - t2) <= h)%Z -> two_tents f1 f2 h t1 t2 k == f2 * tentQ h t2 k.
Proof. intros Hs Hk. unfold two_tents. rewrite (tent_zero h t1 k) by lia. ring. Qed.

Lemma two_tents_class f1 f2 h t1 t2 k :
  ~ f1 == 0 -> ~ f2 == 0 -> (1 <= h)%Z -> (t1 + 2 * h <= t2)%Z ->
  let F := two_tents f1 f2 h t1 t2 in
  (k = t1 \/ k = t2 -> peakT (F (k - 1)%Z) (F k) (F (k + 1)%Z)) /\
  (k <> t1 -> k <> t2 -> quietT (F (k - 1)%Z) (F k) (F (k + 1)%Z)).
Proof.
  intros Hf1 Hf2 Hh Hs F. unfold F. split.
  - intros [->| ->].
    + eapply peakT_compat; [| | |apply (tent_peak f1 h t1 Hf1 Hh)]; symmetry; apply two_tents_near1; lia.
    + eapply peakT_compat; [| | |apply (tent_peak f2 h t2 Hf2 Hh)]; symmetry; apply two_tents_near2; lia.
  - intros N1 N2.
    destruct (Z_lt_le_dec (Z.abs (k - t1)) h) as [A|A].
    + eapply quietT_compat; [| | |apply (tent_quiet f1 h t1 k Hf1 N1)]; symmetry; apply two_tents_near1; lia.
    + destruct (Z_lt_le_dec (Z.abs (k - t2)) h) as [B|B].
      * eapply quietT_compat; [| | |apply (tent_quiet f2 h t2 k Hf2 N2)]; symmetry; apply two_tents_near2; lia.
      * left. unfold two_tents. rewrite (tent_zero h t1 k), (tent_zero h t2 k) by lia. ring.
Qed.

Lemma two_tent_list_peaks (l : list Q) f1 f2 h t1 t2 :
  (forall k, (0 <= k < Z.of_nat (length l))%Z -> qnth l k == two_tents f1 f2 h t1 t2 k) ->
  ~ f1 == 0 -> ~ f2 == 0 -> (1 <= h)%Z -> (t1 + 2 * h <= t2)%Z ->
  (1 <= t1)%Z -> (t2 <= Z.of_nat (length l) - 2)%Z ->
  find_local_peaks l = [t1; t2].
Proof.
  intros HF Hf1 Hf2 Hh Hs Ht1 Ht2.
  destruct (peaks_sorted l) as [S _].
  apply ssorted_ext; [exact S| |].
  { apply ssorted_cons; [repeat constructor|]. intros y [<-|[]]. lia. }
  intros x.
  rewrite (find_local_peaks_mem l (two_tents f1 f2 h t1 t2) HF).
  - split.
    + intros [Hx Hp].
      destruct (Z.eq_dec x t1) as [->|N1]; [left; reflexivity|].
      destruct (Z.eq_dec x t2) as [->|N2]; [right; left; reflexivity|].
      exfalso. destruct (two_tents_class f1 f2 h t1 t2 x Hf1 Hf2 Hh Hs) as [_ Q].
      exact (quiet_not_peak _ _ _ (Q N1 N2) Hp).
    + intros Hx. assert (Hx' : x = t1 \/ x = t2) by (destruct Hx as [<-|[<-|[]]]; auto).
      split; [destruct Hx' as [-> | ->]; lia|].
      destruct (two_tents_class f1 f2 h t1 t2 x Hf1 Hf2 Hh Hs) as [P _]. exact (P Hx').
  - intros k Hk. destruct (two_tents_class f1 f2 h t1 t2 k Hf1 Hf2 Hh Hs) as [P Q].
    destruct (Z.eq_dec k t1) as [E1|N1]; [right; apply P; left; exact E1|].
    destruct (Z.eq_dec k t2) as [E2|N2]; [right; apply P; right; exact E2|].
    left. exact (Q N1 N2).
Qed.

(* ---------- unification of sub-lists of [t1; t2] ---------- *)

Lemma unify_union base addon w t1 t2 :
  (0 <= w < t2 - t1)%Z -> (0 <= t1)%Z -> ssorted base -> ssorted addon ->
  (forall x, In x base -> x = t1 \/ x = t2) -> (forall x, In x addon -> x = t1 \/ x = t2) ->
  let out := unify_levels base addon w in
  ssorted out /\ forall x, In x out <-> In x base \/ In x addon.
Proof.
  intros Hw Ht Sb Sa Hb Ha out.
  destruct (unify_levels_sorted base addon w ltac:(lia) Sb Sa) as [So [Hin Hout]].
  split; [exact So|]. intros x. split.
  - intros Hx. destruct (Hout x Hx) as [H|[H _]]; [left|right]; exact H.
  - intros [Hx|Hx]; [apply Hin, Hx|].
    destruct (in_dec Z.eq_dec x base) as [I|I]; [apply Hin, I|].
    apply (unify_levels_complete base addon w ltac:(lia) Sb Sa); [|exact Hx|].
    + intros y Hy. destruct (Ha y Hy); lia.
    + intros y Hy. assert (y <> x) by (intros ->; contradiction).
      destruct (Ha x Hx), (Hb y Hy); subst; lia.
Qed.

Lemma all_pos_repeat (x : Q) m : 0 < x -> all_pos (repeat x m).
Proof. intros H. induction m; cbn [repeat]; constructor; assumption. Qed.

(* ---------- the level loop ---------- *)

Section TwoSteps.
Variable scale_u scale_w : Z -> Q.
Variable pvals : Z -> list Q.
Variable absorb : Z -> bool.
Hypothesis scale_u_nz : forall h, ~ scale_u h == 0.
Hypothesis scale_w_nz : forall h, ~ scale_w h == 0.

Variables (a b c : Q) (t1 t2 n : nat) (wt : option (list Q)) (q : Q).
Hypothesis Hab : ~ a == b.
Hypothesis Hbc : ~ b == c.
Hypothesis Hw : uniform_weights n wt.

Let sg := two_step_signal a b c t1 t2 n.
Let T1 := Z.of_nat t1.
Let T2 := Z.of_nat t2.
Let N := Z.of_nat n.

(* the FDR threshold of a level (two peaks) and whether position x passes it *)
Definition two_thr (level : Z) : Q :=
  let conv := conv_level scale_u scale_w sg wt (2 ^ level) in
  fdr_thres [qnth conv T1; qnth conv T2] q (pvals level) (absorb level).
Definition two_kept (level x : Z) : bool :=
  Qle_bool (two_thr level) (Qabs (qnth (conv_level scale_u scale_w sg wt (2 ^ level)) x)).

Definition sep_ok (h : Z) : Prop := (1 <= h <= T1)%Z /\ (T1 + 2 * h <= T2)%Z /\ (T2 + h <= N)%Z.

Lemma two_step_conv_level h k :
  sep_ok h -> (0 <= k < N)%Z ->
  qnth (conv_level scale_u scale_w sg wt h) k
  == two_tents (step_amp (level_scale scale_u scale_w wt h) wt h (b - a))
               (step_amp (level_scale scale_u scale_w wt h) wt h (c - b)) h T1 T2 k.
Proof.
  intros [H1 [H2 H3]] Hk. unfold conv_level, two_tents. fold (level_scale scale_u scale_w wt h).
  apply two_step_conv; try assumption; unfold T1, T2, N in *; try lia.
  apply level_scale_nz; assumption.
Qed.

Lemma two_step_level_peaks h :
  sep_ok h -> (2 <= h)%Z ->
  find_local_peaks (conv_level scale_u scale_w sg wt h) = [T1; T2].
Proof.
  intros Hs Hh. pose proof Hs as [H1 [H2 H3]].
  assert (Hlen : length (conv_level scale_u scale_w sg wt h) = n).
  { unfold conv_level. rewrite haar_conv_length. apply two_step_length; unfold T1, T2, N in *; lia. }
  apply (two_tent_list_peaks _ (step_amp (level_scale scale_u scale_w wt h) wt h (b - a))
                               (step_amp (level_scale scale_u scale_w wt h) wt h (c - b)) h).
  - intros k Hk. rewrite Hlen in Hk. apply two_step_conv_level; [exact Hs|exact Hk].
  - apply step_amp_nonzero; [apply level_scale_nz; assumption|lia|]. intros C. apply Hab. lra.
  - apply step_amp_nonzero; [apply level_scale_nz; assumption|lia|]. intros C. apply Hbc. lra.
  - lia.
  - lia.
  - lia.
  - rewrite Hlen. fold N. lia.
Qed.

Lemma two_step_level_addon level :
  sep_ok (2 ^ level) -> (2 <= 2 ^ level)%Z ->
  level_addon scale_u scale_w pvals absorb sg wt q level = filter (two_kept level) [T1; T2].
Proof.
  intros Hs Hh. unfold level_addon. rewrite (two_step_level_peaks (2 ^ level) Hs Hh). reflexivity.
Qed.

Definition levels_ok (ls : list Z) : Prop := forall l, In l ls -> (1 <= l)%Z /\ sep_ok (2 ^ l).

Lemma two_step_fold ls : forall bps,
  levels_ok ls -> ssorted bps -> (forall x, In x bps -> x = T1 \/ x = T2) ->
  let out := fold_left (fun bps level =>
                          unify_levels bps (level_addon scale_u scale_w pvals absorb sg wt q level)
                            (2 ^ (level - 1))) ls bps in
  ssorted out /\
  forall x, In x out <-> In x bps \/ ((x = T1 \/ x = T2) /\ exists l, In l ls /\ two_kept l x = true).
Proof.
  induction ls as [|l ls IH]; intros bps Hls Sb Hb.
  - cbn [fold_left]. split; [exact Sb|]. intros x. split; [intros H; left; exact H|].
    intros [H|[_ [l [[] _]]]]. exact H.
  - cbn [fold_left]. destruct (Hls l (or_introl eq_refl)) as [L1 Hs].
    assert (P2 : (2 <= 2 ^ l)%Z).
    { change 2%Z with (2 ^ 1)%Z at 1. apply Z.pow_le_mono_r; lia. }
    rewrite (two_step_level_addon l Hs P2).
    set (addon := filter (two_kept l) [T1; T2]).
    assert (S12 : ssorted [T1; T2]).
    { apply ssorted_cons; [repeat constructor|]. intros y [<-|[]]. destruct Hs as [? [? ?]]. lia. }
    assert (Sa : ssorted addon) by (apply ssorted_filter, S12).
    assert (Ha : forall x, In x addon <-> (x = T1 \/ x = T2) /\ two_kept l x = true).
    { intros x. unfold addon. rewrite filter_In. cbn [In]. intuition. }
    assert (Hw2 : (0 <= 2 ^ (l - 1) < T2 - T1)%Z).
    { destruct Hs as [? [Hsep ?]]. split; [apply Z.pow_nonneg; lia|].
      assert (2 ^ (l - 1) < 2 ^ l)%Z by (apply Z.pow_lt_mono_r; lia). lia. }
    destruct (unify_union bps addon (2 ^ (l - 1)) T1 T2 Hw2 ltac:(unfold T1; lia) Sb Sa Hb
                (fun x Hx => proj1 (proj1 (Ha x) Hx))) as [So Hmem].
    destruct (IH (unify_levels bps addon (2 ^ (l - 1)))) as [Sout Hout].
    + intros l' Hl'. apply Hls. right. exact Hl'.
    + exact So.
    + intros x Hx. apply Hmem in Hx. destruct Hx as [Hx|Hx]; [apply Hb, Hx|apply Ha in Hx; tauto].
    + split; [exact Sout|]. intros x. rewrite Hout, Hmem, Ha. split.
      * intros [[H|[H1 H2]]|[H1 [l' [H2 H3]]]].
        -- left; exact H.
        -- right. split; [exact H1|]. exists l. split; [left; reflexivity|exact H2].
        -- right. split; [exact H1|]. exists l'. split; [right; exact H2|exact H3].
      * intros [H|[H1 [l' [[<-|H2] H3]]]].
        -- left; left; exact H.
        -- left; right. split; assumption.
        -- right. split; [exact H1|]. exists l'. split; assumption.
Qed.

Hypothesis Ht1 : (32 <= t1)%nat.
Hypothesis Ht12 : (t1 + 64 <= t2)%nat.
Hypothesis Ht2 : (t2 + 32 <= n)%nat.

Lemma haar_levels_ok : levels_ok haar_levels.
Proof.
  intros l Hl. apply haar_levels_range in Hl. pose proof (pow2_le32 l Hl).
  split; [lia|]. unfold sep_ok, T1, T2, N. lia.
Qed.

Lemma two_step_breakpoints :
  let bps := haar_breakpoints_over scale_u scale_w pvals absorb haar_levels sg wt q in
  ssorted bps /\
  forall x, In x bps <-> (x = T1 \/ x = T2) /\ exists l, (1 <= l <= 5)%Z /\ two_kept l x = true.
Proof.
  intros bps. unfold bps, haar_breakpoints_over.
  destruct (two_step_fold haar_levels [] haar_levels_ok ltac:(constructor) ltac:(intros x [])) as [S M].
  split; [exact S|]. intros x. rewrite M. split.
  - intros [[]|[H1 [l [H2 H3]]]]. split; [exact H1|]. exists l. split; [apply haar_levels_range, H2|exact H3].
  - intros [H1 [l [H2 H3]]]. right. split; [exact H1|]. exists l. split; [|exact H3].
    rewrite haar_levels_eq. cbn [In]. lia.
Qed.

(* ---------- the theorem ---------- *)

Lemma all_eq_slice_nth (d : list Q) s e x :
  (0 <= s <= e)%Z -> (e <= Z.of_nat (length d))%Z ->
  (forall j, (Z.to_nat s <= j < Z.to_nat e)%nat -> nth j d 0 = x) -> all_eq x (slice d s e).
Proof.
  intros H1 H2 H. unfold all_eq. apply Forall_nth. intros i d0 Hi.
  rewrite slice_length in Hi by lia.
  rewrite (nth_indep _ d0 0) by (rewrite slice_length by lia; exact Hi).
  rewrite nth_slice by lia. rewrite H by lia. reflexivity.
Qed.

Lemma two_step_weights_ok : weights_ok sg wt.
Proof.
  destruct wt as [w|]; [|exact I]. destruct Hw as [cw [Hc ->]].
  split; [unfold sg; rewrite repeat_length, two_step_length by lia; reflexivity|].
  apply all_pos_repeat, Hc.
Qed.

Lemma two_step_haar_seg :
  let r := haar_seg scale_u scale_w pvals absorb sg wt q in
  (forall level, (1 <= level <= 5)%Z ->
     let h := (2 ^ level)%Z in
     let conv := conv_level scale_u scale_w sg wt h in
     (forall k, (0 <= k < N)%Z ->
        qnth conv k ==
        step_amp (match wt with None => scale_u h | Some _ => scale_w h end) wt h (b - a) * tentQ h T1 k
        + step_amp (match wt with None => scale_u h | Some _ => scale_w h end) wt h (c - b) * tentQ h T2 k) /\
     level_peaks scale_u scale_w sg wt level = [T1; T2] /\
     level_addon scale_u scale_w pvals absorb sg wt q level = filter (two_kept level) [T1; T2]) /\
  ssorted (hr_breaks r) /\
  (forall x, In x (hr_breaks r) <->
             (x = T1 \/ x = T2) /\ exists l, (1 <= l <= 5)%Z /\ two_kept l x = true) /\
  ((exists l, (1 <= l <= 5)%Z /\ two_kept l T1 = true) ->
   (exists l, (1 <= l <= 5)%Z /\ two_kept l T2 = true) ->
   hr_breaks r = [T1; T2] /\ hr_start r = [0; T1; T2]%Z /\ hr_end r = [T1 - 1; T2 - 1; N - 1]%Z /\
   hr_size r = [T1; T2 - T1; N - T2]%Z /\
   exists m1 m2 m3, hr_mean r = [m1; m2; m3] /\ m1 == a /\ m2 == b /\ m3 == c).
Proof.
  intros r.
  assert (Hlen : length sg = n) by (apply two_step_length; lia).
  split.
  { intros level Hl h conv. pose proof (pow2_le32 level Hl) as P. fold h in P.
    assert (Hs : sep_ok h) by (unfold sep_ok, T1, T2, N; lia).
    split; [|split].
    - intros k Hk. apply (two_step_conv_level h k Hs Hk).
    - unfold level_peaks. apply two_step_level_peaks; [exact Hs|lia].
    - apply two_step_level_addon; [exact Hs|lia]. }
  destruct two_step_breakpoints as [S M].
  split; [exact S|]. split; [exact M|].
  intros K1 K2.
  assert (Hb : haar_breakpoints_over scale_u scale_w pvals absorb haar_levels sg wt q = [T1; T2]).
  { apply ssorted_ext; [exact S| |].
    - apply ssorted_cons; [repeat constructor|]. intros y [<-|[]]. unfold T1, T2. lia.
    - intros x. rewrite M. cbn [In]. split.
      + intros [[->| ->] _]; auto.
      + intros [<-|[<-|[]]]; split; auto. }
  unfold r, haar_seg. rewrite Hb. unfold haar_result_of.
  cbn [hr_breaks hr_start hr_end hr_size hr_mean app map combine fst snd].
  unfold Zlength_nat. rewrite Hlen. fold N. rewrite Z.sub_0_r.
  repeat (split; [reflexivity|]).
  do 3 eexists. split; [reflexivity|].
  assert (Hne : sg <> []) by (intros C; rewrite C in Hlen; cbn in Hlen; lia).
  assert (Hbi : breaks_in (Zlength_nat sg) [T1; T2]).
  { unfold Zlength_nat. rewrite Hlen. split.
    - apply ssorted_cons; [repeat constructor|]. intros y [<-|[]]. unfold T1, T2. lia.
    - intros x [<-|[<-|[]]]; unfold T1, T2; lia. }
  pose proof two_step_weights_ok as Hwok.
  assert (Seg : segments_of 0 [T1; T2] (Zlength_nat sg) = [(0, T1); (T1, T2); (T2, N)]%Z).
  { unfold Zlength_nat. rewrite Hlen. reflexivity. }
  split; [|split].
  - rewrite (segment_by_peaks_nth sg [T1; T2] wt 0 T1 0 Hne Hbi); [|rewrite Seg; left; reflexivity|unfold T1; lia].
    apply seg_mean_const; [unfold T1; lia|rewrite Hlen; unfold T1; lia|exact Hwok|].
    apply all_eq_slice_nth; [unfold T1; lia|rewrite Hlen; unfold T1; lia|].
    intros j Hj. unfold sg. rewrite nth_two_step by (unfold T1 in *; lia).
    destruct (j <? t1)%nat eqn:E; [reflexivity|]. apply Nat.ltb_ge in E. unfold T1 in *. lia.
  - rewrite (segment_by_peaks_nth sg [T1; T2] wt T1 T2 T1 Hne Hbi);
      [|rewrite Seg; right; left; reflexivity|unfold T1, T2; lia].
    apply seg_mean_const; [unfold T1, T2; lia|rewrite Hlen; unfold T2; lia|exact Hwok|].
    apply all_eq_slice_nth; [unfold T1, T2; lia|rewrite Hlen; unfold T2; lia|].
    intros j Hj. unfold sg. rewrite nth_two_step by (unfold T1, T2 in *; lia).
    destruct (j <? t1)%nat eqn:E; [apply Nat.ltb_lt in E; unfold T1 in *; lia|].
    destruct (j <? t2)%nat eqn:E2; [reflexivity|]. apply Nat.ltb_ge in E2. unfold T2 in *. lia.
  - rewrite (segment_by_peaks_nth sg [T1; T2] wt T2 N T2 Hne Hbi);
      [|rewrite Seg; right; right; left; reflexivity|unfold T2, N; lia].
    apply seg_mean_const; [unfold T2, N; lia|rewrite Hlen; unfold N; lia|exact Hwok|].
    apply all_eq_slice_nth; [unfold T2, N; lia|rewrite Hlen; unfold N; lia|].
    intros j Hj. unfold sg. rewrite nth_two_step by (unfold T2, N in *; lia).
    destruct (j <? t1)%nat eqn:E; [apply Nat.ltb_lt in E; unfold T2 in *; lia|].
    destruct (j <? t2)%nat eqn:E2; [apply Nat.ltb_lt in E2; unfold T2 in *; lia|reflexivity].
Qed.

End TwoSteps.
