(* C07: into_ranges with dynamically typed cells and every kind of summary_func
   (Model/Into.v: into_ranges_full, ga_into_ranges) reduces to the typed model the theorems
   C07_into / C07_into_strings / C07_into_median / C07_into_first are about:
   summary None -> the type default chosen by the FIRST element of the column (a column of
   strings -> join_strings, of floats -> nanmedian, of integers / booleans -> first_of);
   a non-callable summary -> the constant; a callable -> itself; a missing column -> the
   default for every range. *)
From CNV Require Import Base.Prelude Model.Ranges Model.Into Spec.RangeQuery
  Proofs.RangesLib Proofs.Ranges Proofs.RangesTables Proofs.Into.
From CNV Require Gen.RangeDefaults.

Definition lift_hits {V} (inj : V -> icell) (h : list (Z * V)) : list (Z * icell) :=
  map (fun x => (fst x, inj (snd x))) h.

Lemma series2value_lift {V} (inj : V -> icell) (d : V) (f : list (Z * V) -> option V)
      (F : list (Z * icell) -> option icell) (h : list (Z * V)) :
  (forall h', F (lift_hits inj h') = option_map inj (f h')) ->
  series2value (inj d) F (lift_hits inj h) = option_map inj (series2value d f h).
Proof.
  intros HF. destruct h as [|[l v] [|h2 t]]; try reflexivity.
  unfold series2value. cbn [lift_hits map]. apply (HF ((l, v) :: h2 :: t)).
Qed.

(* a typed column seen through an injection into cells *)
Theorem into_ranges_lift {V} (inj : V -> icell) (source dest : list trow) (col : Z -> V) (d : V)
        (f : list (Z * V) -> option V) (F : list (Z * icell) -> option icell) :
  (forall h', F (lift_hits inj h') = option_map inj (f h')) ->
  into_ranges source dest (fun l => inj (col l)) (inj d) F =
  option_map (map (option_map inj)) (into_ranges source dest col d f).
Proof.
  intros HF. unfold into_ranges. destruct dest as [|d0 dr]; [reflexivity|].
  destruct source as [|s0 sr].
  - cbn [option_map]. f_equal. rewrite map_map. reflexivity.
  - cbn [option_map]. f_equal. rewrite map_map. apply map_ext. intros sub.
    rewrite <- (series2value_lift inj d f F) by exact HF.
    unfold lift_hits. rewrite map_map. reflexivity.
Qed.

(* ---- the type defaults on homogeneous columns --------------------------------------------- *)
Lemma all_some_map_some {A B} (g : A -> B) (l : list A) : all_some (map (fun x => Some (g x)) l) = Some (map g l).
Proof. induction l as [|x t IH]; [reflexivity|]. cbn [map all_some]. now rewrite IH. Qed.

Lemma type_default_str (s0 : string) (h : list (Z * string)) :
  type_default (ICStr s0) (lift_hits ICStr h) = option_map ICStr (join_strings h).
Proof.
  unfold type_default, lift_hits, join_strings. rewrite map_map. cbn [snd cell_str].
  rewrite (all_some_map_some (fun x => snd x)). reflexivity.
Qed.

Lemma type_default_float (x0 : option Q) (h : list (Z * option Q)) :
  type_default (ICFloat x0) (lift_hits ICFloat h) = option_map ICFloat (nanmedian h).
Proof.
  unfold type_default, lift_hits, nanmedian. rewrite map_map. cbn [snd cell_num].
  rewrite (all_some_map_some (fun x => snd x)). reflexivity.
Qed.

Lemma type_default_int (z0 : Z) (h : list (Z * Z)) :
  type_default (ICInt z0) (lift_hits ICInt h) = option_map ICInt (first_of h).
Proof. destruct h as [|[l v] t]; reflexivity. Qed.

Lemma type_default_bool (b0 : bool) (h : list (Z * bool)) :
  type_default (ICBool b0) (lift_hits ICBool h) = option_map ICBool (first_of h).
Proof. destruct h as [|[l v] t]; reflexivity. Qed.

(* summary_func None, by the type of the first element *)
Theorem into_full_default_str source dest (col : Z -> string) d :
  into_ranges_full source dest (fun l => ICStr (col l)) (ICStr d) ISNone =
  option_map (map (option_map ICStr)) (into_ranges source dest col d join_strings).
Proof.
  unfold into_ranges_full. destruct source as [|x sr].
  - unfold into_ranges. destruct dest; [reflexivity|]. cbn [option_map]. f_equal. rewrite map_map. reflexivity.
  - apply into_ranges_lift. intros h'. apply type_default_str.
Qed.

Theorem into_full_default_float source dest (col : Z -> option Q) d :
  into_ranges_full source dest (fun l => ICFloat (col l)) (ICFloat d) ISNone =
  option_map (map (option_map ICFloat)) (into_ranges source dest col d nanmedian).
Proof.
  unfold into_ranges_full. destruct source as [|x sr].
  - unfold into_ranges. destruct dest; [reflexivity|]. cbn [option_map]. f_equal. rewrite map_map. reflexivity.
  - apply into_ranges_lift. intros h'. apply type_default_float.
Qed.

Theorem into_full_default_int source dest (col : Z -> Z) d :
  into_ranges_full source dest (fun l => ICInt (col l)) (ICInt d) ISNone =
  option_map (map (option_map ICInt)) (into_ranges source dest col d first_of).
Proof.
  unfold into_ranges_full. destruct source as [|x sr].
  - unfold into_ranges. destruct dest; [reflexivity|]. cbn [option_map]. f_equal. rewrite map_map. reflexivity.
  - apply into_ranges_lift. intros h'. apply type_default_int.
Qed.

Theorem into_full_default_bool source dest (col : Z -> bool) d :
  into_ranges_full source dest (fun l => ICBool (col l)) (ICBool d) ISNone =
  option_map (map (option_map ICBool)) (into_ranges source dest col d first_of).
Proof.
  unfold into_ranges_full. destruct source as [|x sr].
  - unfold into_ranges. destruct dest; [reflexivity|]. cbn [option_map]. f_equal. rewrite map_map. reflexivity.
  - apply into_ranges_lift. intros h'. apply type_default_bool.
Qed.

(* a non-callable summary_func is the constant function; a callable is used as it is -- whatever
   the column holds (the cells are not inspected) *)
Theorem into_full_const source dest (col : Z -> icell) d v :
  into_ranges_full source dest col d (ISConst v) = into_ranges source dest col d (const_of v).
Proof.
  unfold into_ranges_full. destruct source as [|x sr]; [|reflexivity].
  unfold into_ranges. destruct dest; reflexivity.
Qed.

Theorem into_full_func source dest (col : Z -> icell) d f :
  into_ranges_full source dest col d (ISFunc f) = into_ranges source dest col d f.
Proof.
  unfold into_ranges_full. destruct source as [|x sr]; [|reflexivity].
  unfold into_ranges. destruct dest; reflexivity.
Qed.

(* a missing column: the default for every range *)
Theorem ga_into_missing source dest (col : Z -> icell) d s :
  ga_into_ranges false source dest col d s = Some (map (fun _ => Some d) dest).
Proof. reflexivity. Qed.

(* join_strings on a column whose first element is a string and a later one is not fails
   (TypeError in the code): the type default inspects only the first element *)
Example type_default_mixed :
  type_default (ICStr "a") [(0, ICStr "a"); (1, ICInt 7)] = None /\
  type_default (ICInt 7) [(0, ICInt 7); (1, ICStr "a")] = Some (ICInt 7).
Proof. split; reflexivity. Qed.
