(* C17 (extension) -- the bootstrap machinery exactly: the number of resamples, the shape of the
   index matrix, the smoothing formula, the hidden random state; the assembly of the output
   table; consequences of the t statistic. *)
From CNV Require Import Base.Prelude Base.QNum Proofs.QNumLemmas Gen.SegmetricsDefaults Gen.DescDefaults
  Model.Ranges Model.Descriptives Model.Segmetrics Spec.RangeQuery Spec.Stats17 Spec.SegBins Proofs.SegmetricsLib Proofs.Segmetrics.
From Coq Require Import Qround Qabs Setoid Morphisms Psatz.
Local Open Scope Q_scope.

Lemma eqQ_map_ext_gen {A} (f g : A -> Q) l :
  (forall x, In x l -> f x == g x) -> eqQ (map f l) (map g l).
Proof.
  induction l as [|x t IH]; intro H; cbn; constructor.
  - apply H; now left.
  - apply IH; intros; apply H; now right.
Qed.

(* ==== the number of resamples ========================================================== *)
Lemma Qceiling_le_Z q z : q <= inject_Z z -> (Qceiling q <= z)%Z.
Proof.
  intro H. rewrite <- (Qceiling_Z z). now apply Qceiling_resp_le.
Qed.

Lemma Qceiling_ge q : q <= inject_Z (Qceiling q).
Proof. apply (ceilQ_spec q). Qed.

(* raised to ceil(2/alpha) when bootstraps <= 2/alpha, kept otherwise: the maximum of the two *)
Theorem n_boot_max b q : n_boot b q = Z.max b (Qceiling q).
Proof.
  unfold n_boot. destruct (qle_b (inject_Z b) q) eqn:E.
  - apply qle_b_iff in E. assert (b <= Qceiling q)%Z; [|lia].
    rewrite Zle_Qle. eapply Qle_trans; [exact E|apply Qceiling_ge].
  - apply qle_b_false in E. assert (Qceiling q <= b)%Z; [|lia].
    apply Qceiling_le_Z. now apply Qlt_le_weak.
Qed.

(* the least integer that is at least [bootstraps] and at least 2/alpha *)
Theorem n_boot_least b q :
  (b <= n_boot b q)%Z /\ q <= inject_Z (n_boot b q) /\
  (forall m, (b <= m)%Z -> q <= inject_Z m -> (n_boot b q <= m)%Z).
Proof.
  rewrite n_boot_max. repeat split.
  - lia.
  - pose proof (Qceiling_ge q). assert (Qceiling q <= Z.max b (Qceiling q))%Z by lia.
    rewrite Zle_Qle in H0. eapply Qle_trans; eassumption.
  - intros m Hb Hq. apply Qceiling_le_Z in Hq. lia.
Qed.

Theorem n_boot_raised_iff b q : inject_Z b <= q <-> (n_boot b q = Qceiling q /\ inject_Z b <= q).
Proof.
  split; [|tauto]. intro H. split; [|exact H]. unfold n_boot.
  destruct (qle_b (inject_Z b) q) eqn:E; [reflexivity|]. apply qle_b_false in E.
  exfalso. apply (Qlt_irrefl q). eapply Qlt_le_trans; eassumption.
Qed.

Theorem n_boot_kept b q : q < inject_Z b -> n_boot b q = b.
Proof.
  intro H. unfold n_boot. destruct (qle_b (inject_Z b) q) eqn:E; [|reflexivity].
  apply qle_b_iff in E. exfalso. apply (Qlt_irrefl q). eapply Qlt_le_trans; eassumption.
Qed.

(* with q the exact 2/alpha, 0 < alpha < 1: more than two resamples, and at least one whole
   resample in each tail alpha/2 *)
Theorem n_boot_alpha b q alpha : 0 < alpha -> alpha < 1 -> q == 2 / alpha ->
  (3 <= n_boot b q)%Z /\ 1 <= inject_Z (n_boot b q) * (alpha / 2).
Proof.
  intros A0 A1 E. destruct (n_boot_least b q) as (_ & Hq & _).
  assert (Q2 : 2 < q).
  { rewrite E. apply Qlt_shift_div_l; [exact A0|]. lra. }
  split.
  - assert (2 < n_boot b q)%Z; [|lia]. rewrite Zlt_Qlt. change (inject_Z 2) with 2.
    eapply Qlt_le_trans; eassumption.
  - assert (Ha : 0 <= alpha / 2).
    { apply Qle_shift_div_l; [reflexivity|]. rewrite Qmult_0_l. now apply Qlt_le_weak. }
    assert (H1 : q * (alpha / 2) == 1).
    { rewrite E. field. intro Z0. rewrite Z0 in A0. now apply (Qlt_irrefl 0). }
    rewrite <- H1. apply Qmult_le_compat_r; [exact Hq|exact Ha].
Qed.

(* ==== the shape of the index matrix and of the normal draws ============================ *)

(* the matrix has (n_boot bootstraps) rows of k columns with entries in [0, k) *)
Theorem ci_resamples_shape O boots k : randint_contract (o_randint O) ->
  length (ci_resamples O boots k) = Z.to_nat (n_boot boots (o_q2a O)) /\
  Forall (fun r => length r = k /\ Forall (fun i => (i < k)%nat) r) (ci_resamples O boots k).
Proof. intro C. apply C. Qed.

Theorem ci_resamples_contract O boots k : randint_contract (o_randint O) -> 0 < o_q2a O -> (0 < k)%nat ->
  idx_contract k (ci_resamples O boots k).
Proof.
  intros C Q K. destruct (ci_resamples_shape O boots k C) as [L F].
  assert (N : (0 < Z.to_nat (n_boot boots (o_q2a O)))%nat).
  { destruct (n_boot_least boots (o_q2a O)) as (_ & Hq & _).
    assert (0 < n_boot boots (o_q2a O))%Z; [|lia]. rewrite Zlt_Qlt. change (inject_Z 0) with 0.
    eapply Qlt_le_trans; eassumption. }
  split.
  - intro E. rewrite E in L. cbn in L. lia.
  - eapply Forall_impl; [|exact F]. intros r [Lr Fr]. split; [|exact Fr].
    intro E. subst r. cbn in Lr. lia.
Qed.

(* ==== the bootstrap distribution, exactly =============================================== *)

Lemma qdot_sumQ a w : qdot a w == sumQ (map2 Qmult a w).
Proof.
  revert w. induction a as [|x a IH]; intros [|y w]; try reflexivity.
  rewrite qdot_cons. cbn [map2 sumQ]. now rewrite IH.
Qed.

Lemma wmean_is_def a w : wmean a w == wmean_def a w.
Proof. rewrite wmean_spec. unfold wmean_def. now rewrite qdot_sumQ, qsum_sumQ. Qed.

Lemma sumQ_map2_eqQ a a' w w' : eqQ a a' -> eqQ w w' -> sumQ (map2 Qmult a w) == sumQ (map2 Qmult a' w').
Proof. intros. rewrite <- !qdot_sumQ. now apply qdot_eqQ. Qed.

Lemma wmean_def_eqQ a a' w w' : eqQ a a' -> eqQ w w' -> wmean_def a w == wmean_def a' w'.
Proof. intros. rewrite <- !wmean_is_def. now apply wmean_eqQ. Qed.

(* the confidence interval is: nothing for no bin, the value twice for one bin (k < 2), else the
   100 alpha/2 and 100 (1 - alpha/2) percentiles of the bootstrap distribution *)
Theorem ci_func_cases O alpha boots smoothed vals wts :
  match vals with
  | [] => ci_func O alpha boots smoothed vals wts = None
  | [x] => ci_func O alpha boots smoothed vals wts = Some (x, x)
  | _ => ci_func O alpha boots smoothed vals wts =
         Some (percentile (ci_pct_lo alpha) (ci_dist O boots smoothed vals wts),
               percentile (ci_pct_hi alpha) (ci_dist O boots smoothed vals wts))
  end.
Proof.
  destruct vals as [|x [|y t]]; try reflexivity.
  unfold ci_func. replace (Z.of_nat (length (x :: y :: t)) <? ci_min_k)%Z with false; [reflexivity|].
  symmetry. apply Z.ltb_ge. unfold ci_min_k. cbn [length]. lia.
Qed.

(* un-smoothed: one weighted mean (textbook) per row of the index matrix, over the bins the
   row names *)
Theorem ci_dist_plain O boots vals wts :
  eqQ (ci_dist O boots false vals wts)
      (map (fun idx => wmean_def (map (fun i => nth i vals 0) idx) (map (fun i => nth i wts 0) idx))
           (ci_resamples O boots (length vals))).
Proof.
  unfold ci_dist, boot_means. apply eqQ_map_ext_gen. intros idx _. apply wmean_is_def.
Qed.


Lemma smooth_row_formula sqrtf bw vals wts idx z : Proper (Qeq ==> Qeq) sqrtf ->
  eqQ (smooth_row sqrtf bw (take vals idx) (take wts idx) z) (smoothed_sample sqrtf bw vals wts idx z).
Proof.
  intro P. unfold smooth_row, smoothed_sample, take. revert z.
  induction idx as [|i idx IH]; intros [|zz z]; cbn [map combine map2]; try constructor.
  - unfold smooth_elem. cbn [fst snd]. rewrite qadd_spec, !qmul_spec. unfold nthq.
    apply Qplus_comp; [reflexivity|]. apply Qmult_comp; [|reflexivity]. apply Qmult_comp; [reflexivity|].
    apply P. rewrite qsub_spec. unfold sm_one. reflexivity.
  - apply IH.
Qed.

Theorem ci_dist_smoothed O boots vals wts : Proper (Qeq ==> Qeq) (o_sqrt O) ->
  eqQ (ci_dist O boots true vals wts)
      (map2 (fun idx z => wmean_def (smoothed_sample (o_sqrt O) (o_bw O (length vals)) vals wts idx z)
                                    (map (fun i => nth i wts 0) idx))
            (ci_resamples O boots (length vals)) (ci_normals O boots (length vals))).
Proof.
  intro P. unfold ci_dist, boot_means_smoothed.
  generalize (ci_resamples O boots (length vals)) (ci_normals O boots (length vals)).
  induction l as [|idx l IH]; intros [|z zs]; cbn [map2]; try constructor.
  - rewrite wmean_is_def. apply wmean_def_eqQ; [now apply smooth_row_formula|apply eqQ_refl].
  - apply IH.
Qed.

(* bins of weight 1 receive no noise (sqrt 0 = 0): with all weights 1 the smoothed resample
   means are the plain ones *)
Lemma smoothed_sample_weight_one sqrtf bw vals wts idx z : Proper (Qeq ==> Qeq) sqrtf -> sqrtf 0 == 0 ->
  (forall i, In i idx -> nth i wts 0 == 1) -> length z = length idx ->
  eqQ (smoothed_sample sqrtf bw vals wts idx z) (map (fun i => nth i vals 0) idx).
Proof.
  intros P S0 W. unfold smoothed_sample. revert z.
  induction idx as [|i idx IH]; intros [|zz z] L; cbn [map2 map]; try constructor; try (cbn in L; lia).
  - assert (E : sqrtf (1 - nth i wts 0) == 0).
    { transitivity (sqrtf 0); [|exact S0]. apply P. rewrite (W i (or_introl eq_refl)). ring. }
    rewrite E. ring.
  - apply IH; [intros; apply W; now right|]. cbn in L. lia.
Qed.

Lemma smoothed_rows_weight_one sqrtf bw vals wts k (M : list (list nat)) (Zs : list (list Q)) :
  Proper (Qeq ==> Qeq) sqrtf -> sqrtf 0 == 0 -> length wts = k -> (forall w, In w wts -> w == 1) ->
  length M = length Zs ->
  Forall (fun r => length r = k /\ Forall (fun i => (i < k)%nat) r) M -> Forall (fun r => length r = k) Zs ->
  eqQ (map2 (fun idx z => wmean_def (smoothed_sample sqrtf bw vals wts idx z) (map (fun i => nth i wts 0) idx)) M Zs)
      (map (fun idx => wmean_def (map (fun i => nth i vals 0) idx) (map (fun i => nth i wts 0) idx)) M).
Proof.
  intros P S0 L W. revert Zs.
  induction M as [|idx M IH]; intros [|z Zs] LM FM FZ; cbn [map2 map]; try constructor; try (cbn in LM; lia).
  - inversion FM as [|? ? [Li Fi] FM']; subst. inversion FZ as [|? ? Lz FZ']; subst.
    apply wmean_def_eqQ; [|apply eqQ_refl].
    apply smoothed_sample_weight_one; [exact P|exact S0| |congruence].
    intros i Hi. rewrite Forall_forall in Fi. specialize (Fi i Hi).
    apply W. apply nth_In. lia.
  - inversion FM; subst. inversion FZ; subst. apply IH; auto.
Qed.

Theorem ci_dist_weight_one O boots vals wts :
  Proper (Qeq ==> Qeq) (o_sqrt O) -> o_sqrt O 0 == 0 ->
  randint_contract (o_randint O) -> randn_contract (o_randn O) ->
  length wts = length vals -> (forall w, In w wts -> w == 1) ->
  eqQ (ci_dist O boots true vals wts) (ci_dist O boots false vals wts).
Proof.
  intros P S0 CI CN L W.
  eapply eqQ_trans; [now apply ci_dist_smoothed|]. apply eqQ_sym.
  eapply eqQ_trans; [apply ci_dist_plain|]. apply eqQ_sym.
  destruct (ci_resamples_shape O boots (length vals) CI) as [LM FM].
  destruct (CN ci_seed (length vals) (Z.to_nat (n_boot boots (o_q2a O))) (length vals)) as [LZ FZ].
  fold (ci_normals O boots (length vals)) in LZ, FZ.
  apply (smoothed_rows_weight_one _ _ _ _ (length vals)); auto. now rewrite LM, LZ.
Qed.

(* ==== the hidden random state ============================================================ *)
Section RNG.
Context {St : Type} (G : rng St).

(* whatever state the process is in, the call returns the seed-indexed result ... *)
Theorem ci_run_pure O st alpha boots smoothed vals wts :
  fst (ci_run G O st alpha boots smoothed vals wts) = ci_func (rng_oracles G O) alpha boots smoothed vals wts.
Proof.
  unfold ci_run, ci_func. destruct vals as [|x t]; [reflexivity|].
  destruct (Z.of_nat (length (x :: t)) <? ci_min_k)%Z; [reflexivity|].
  destruct smoothed; reflexivity.
Qed.

(* ... and, when it resamples, leaves the same state behind *)
Theorem ci_run_state O st st' alpha boots smoothed vals wts : (2 <= length vals)%nat ->
  snd (ci_run G O st alpha boots smoothed vals wts) = snd (ci_run G O st' alpha boots smoothed vals wts).
Proof.
  intro L. unfold ci_run. destruct vals as [|x t]; [cbn in L; lia|].
  replace (Z.of_nat (length (x :: t)) <? ci_min_k)%Z with false.
  - destruct smoothed; reflexivity.
  - symmetry. apply Z.ltb_ge. unfold ci_min_k. lia.
Qed.

(* fewer than two bins: no draw at all, the state is handed on untouched *)
Theorem ci_run_untouched O st alpha boots smoothed vals wts : (length vals < 2)%nat ->
  snd (ci_run G O st alpha boots smoothed vals wts) = st.
Proof.
  intro L. unfold ci_run. destruct vals as [|x t]; [reflexivity|].
  replace (Z.of_nat (length (x :: t)) <? ci_min_k)%Z with true; [reflexivity|].
  symmetry. apply Z.ltb_lt. unfold ci_min_k. lia.
Qed.

(* a whole pass over the segments (and hence any sequence of passes): every interval is the
   seed-indexed one, independent of the state the pass starts in *)
Theorem calc_intervals_run_pure O st alpha boots smoothed segs :
  fst (calc_intervals_run G O st alpha boots smoothed segs) =
  map (fun vw => ci_func (rng_oracles G O) alpha boots smoothed (fst vw) (snd vw)) segs.
Proof.
  revert st. induction segs as [|vw t IH]; intro st; [reflexivity|].
  cbn [calc_intervals_run fst map]. now rewrite ci_run_pure, IH.
Qed.

Corollary calc_intervals_run_reproducible O st st' alpha boots smoothed segs :
  fst (calc_intervals_run G O st alpha boots smoothed segs) =
  fst (calc_intervals_run G O st' alpha boots smoothed segs).
Proof. now rewrite !calc_intervals_run_pure. Qed.

(* a second pass started in the state the first one left gives the same intervals again *)
Corollary calc_intervals_run_twice O st alpha boots smoothed segs :
  let r1 := calc_intervals_run G O st alpha boots smoothed segs in
  fst (calc_intervals_run G O (snd r1) alpha boots smoothed segs) = fst r1.
Proof. cbv zeta. now rewrite !calc_intervals_run_pure. Qed.
End RNG.

(* ==== assembly of the output table ====================================================== *)

Lemma set_col_names nm v cols : map fst (set_col nm v cols) = add_name nm (map fst cols).
Proof.
  induction cols as [|c t IH]; [reflexivity|]. cbn [set_col map add_name].
  destruct (String.eqb (fst c) nm); cbn [map fst]; [reflexivity|now rewrite IH].
Qed.

Lemma set_cols_names new cols :
  map fst (set_cols new cols) = fold_left (fun acc n => add_name n acc) (map fst new) (map fst cols).
Proof.
  unfold set_cols. revert cols. induction new as [|p t IH]; intro cols; [reflexivity|].
  cbn [fold_left map]. rewrite IH, set_col_names. reflexivity.
Qed.

Lemma loc_stat_some O nm : (exists f, loc_stat O nm = Some f) <-> is_loc_name nm = true.
Proof.
  unfold loc_stat, is_loc_name.
  destruct (String.eqb nm "mean"); [split; eauto|].
  destruct (String.eqb nm "median"); [split; eauto|].
  destruct (String.eqb nm "mode"); [split; eauto|].
  destruct (String.eqb nm "p_ttest"); [split; eauto|].
  split; [intros [f H]; discriminate|discriminate].
Qed.

Lemma spread_stat_some O nm : (exists f, spread_stat O nm = Some f) <-> is_spread_name nm = true.
Proof.
  unfold spread_stat, is_spread_name.
  destruct (String.eqb nm "stdev"); [split; eauto|].
  destruct (String.eqb nm "mad"); [split; eauto|].
  destruct (String.eqb nm "mse"); [split; eauto|].
  destruct (String.eqb nm "iqr"); [split; eauto|].
  destruct (String.eqb nm "bivar"); [split; eauto|].
  destruct (String.eqb nm "sem"); [split; eauto|].
  split; [intros [f H]; discriminate|discriminate].
Qed.

Lemma named_stats_names tbl (known : string -> bool) names arg :
  (forall nm, (exists f, tbl nm = Some f) <-> known nm = true) ->
  map fst (named_stats tbl names arg) = filter known names.
Proof.
  intro K. unfold named_stats. induction names as [|nm t IH]; [reflexivity|].
  cbn [map concat filter]. rewrite map_app, IH.
  destruct (tbl nm) as [f|] eqn:E.
  - assert (known nm = true) by (apply K; eauto). rewrite H. reflexivity.
  - destruct (known nm) eqn:E2; [|reflexivity].
    apply K in E2. destruct E2 as [f E2]. congruence.
Qed.

Lemma pair_cols_names lo hi r : map fst (pair_cols lo hi r) = [lo; hi].
Proof. destruct r as [[a b]|]; reflexivity. Qed.

Lemma row_assignments_names O cfg sl vals wts :
  map fst (row_assignments O cfg sl vals wts) = requested_columns cfg.
Proof.
  unfold row_assignments, requested_columns. rewrite !map_app.
  rewrite (named_stats_names _ is_loc_name) by apply loc_stat_some.
  rewrite (named_stats_names _ is_spread_name) by apply spread_stat_some.
  do 2 f_equal. f_equal.
  - destruct (has "ci" (c_ivl cfg)); [apply pair_cols_names|reflexivity].
  - destruct (has "pi" (c_ivl cfg)); [apply pair_cols_names|reflexivity].
Qed.

(* the statistic columns of every output row: the requested names, each once, in the order of
   their first assignment -- whatever the bins, the oracles and the values are *)
Theorem row_columns O cfg sl vals wts :
  map fst (row_of_values O cfg sl vals wts) = first_occurrences (requested_columns cfg).
Proof.
  unfold row_of_values. rewrite set_cols_names, row_assignments_names. reflexivity.
Qed.

(* distinct names are kept as they come *)
Lemma add_name_fresh nm l : ~ In nm l -> add_name nm l = l ++ [nm].
Proof.
  induction l as [|c t IH]; intro N; [reflexivity|]. cbn [add_name app].
  destruct (String.eqb c nm) eqn:E.
  - apply String.eqb_eq in E. subst. exfalso. apply N. now left.
  - rewrite IH; [reflexivity|]. intro H. apply N. now right.
Qed.

Lemma fold_add_name_nodup names acc : NoDup (acc ++ names) ->
  fold_left (fun a n => add_name n a) names acc = acc ++ names.
Proof.
  revert acc. induction names as [|n t IH]; intros acc ND; [now rewrite app_nil_r|].
  cbn [fold_left]. rewrite add_name_fresh.
  - rewrite IH.
    + now rewrite <- app_assoc.
    + rewrite <- app_assoc. exact ND.
  - apply NoDup_remove_2 in ND. intro H. apply ND. apply in_or_app. now left.
Qed.

Lemma first_occurrences_nodup names : NoDup names -> first_occurrences names = names.
Proof. intro ND. unfold first_occurrences. now rewrite fold_add_name_nodup. Qed.

Lemma first_occurrences_In names nm : In nm (first_occurrences names) <-> In nm names.
Proof.
  unfold first_occurrences.
  assert (G : forall acc, In nm (fold_left (fun a n => add_name n a) names acc) <-> In nm acc \/ In nm names).
  { induction names as [|n t IH]; intro acc; cbn [fold_left].
    - cbn. tauto.
    - rewrite IH.
      assert (A : In nm (add_name n acc) <-> In nm acc \/ n = nm).
      { clear. induction acc as [|c u IHu]; cbn [add_name].
        - cbn. tauto.
        - destruct (String.eqb c n) eqn:E.
          + apply String.eqb_eq in E. subst. cbn. tauto.
          + cbn [In]. rewrite IHu. tauto. }
      rewrite A. cbn [In]. tauto. }
  rewrite G. cbn. tauto.
Qed.

(* set_cols onto the empty row with distinct names is the list of assignments itself *)
Lemma set_col_fresh nm v cols : ~ In nm (map fst cols) -> set_col nm v cols = cols ++ [(nm, v)].
Proof.
  induction cols as [|c t IH]; intro N; [reflexivity|]. cbn [set_col app].
  destruct (String.eqb (fst c) nm) eqn:E.
  - apply String.eqb_eq in E. exfalso. apply N. now left.
  - rewrite IH; [reflexivity|]. intro H. apply N. now right.
Qed.

Lemma set_cols_nodup new acc : NoDup (map fst acc ++ map fst new) -> set_cols new acc = acc ++ new.
Proof.
  unfold set_cols. revert acc. induction new as [|p t IH]; intros acc ND; [now rewrite app_nil_r|].
  cbn [fold_left]. cbn [map] in ND. rewrite set_col_fresh.
  - rewrite IH.
    + rewrite <- app_assoc. destruct p; reflexivity.
    + rewrite map_app. cbn [map]. rewrite <- app_assoc. exact ND.
  - apply NoDup_remove_2 in ND. intro H. apply ND. apply in_or_app. now left.
Qed.

Theorem row_of_values_nodup O cfg sl vals wts : NoDup (requested_columns cfg) ->
  row_of_values O cfg sl vals wts = row_assignments O cfg sl vals wts.
Proof.
  intro ND. unfold row_of_values. rewrite set_cols_nodup; [reflexivity|].
  cbn [map app]. now rewrite row_assignments_names.
Qed.


Lemma filter_all {A} (p : A -> bool) l : (forall x, In x l -> p x = true) -> filter p l = l.
Proof.
  induction l as [|x t IH]; intro H; [reflexivity|]. cbn. rewrite (H x (or_introl eq_refl)).
  f_equal. apply IH. intros; apply H; now right.
Qed.

Lemma requested_columns_ok cfg : names_ok cfg ->
  requested_columns cfg =
  c_loc cfg ++ c_spread cfg ++
  (if has "ci" (c_ivl cfg) then ["ci_lo"; "ci_hi"]%string else []) ++
  (if has "pi" (c_ivl cfg) then ["pi_lo"; "pi_hi"]%string else []).
Proof.
  intros (_ & _ & HL & HS). unfold requested_columns. now rewrite !filter_all.
Qed.

Lemma loc_spread_disjoint n : is_loc_name n = true -> is_spread_name n = true -> False.
Proof.
  unfold is_loc_name, is_spread_name. intros L S.
  repeat (apply orb_prop in L; destruct L as [L|L]); apply String.eqb_eq in L; subst; cbn in S; discriminate.
Qed.

Lemma ivl_names_not_stats n : In n ["ci_lo"; "ci_hi"; "pi_lo"; "pi_hi"]%string ->
  is_loc_name n = false /\ is_spread_name n = false.
Proof. intro H. cbn in H. repeat destruct H as [<-|H]; try (split; reflexivity). destruct H. Qed.

Lemma NoDup_app_intro {A} (l1 l2 : list A) : NoDup l1 -> NoDup l2 ->
  (forall x, In x l1 -> In x l2 -> False) -> NoDup (l1 ++ l2).
Proof.
  induction l1 as [|x t IH]; intros N1 N2 D; [exact N2|]. cbn. inversion N1; subst. constructor.
  - intro H. apply in_app_or in H. destruct H; [contradiction|]. apply (D x); [now left|assumption].
  - apply IH; auto. intros y Hy. apply D. now right.
Qed.

Lemma requested_columns_nodup cfg : names_ok cfg -> NoDup (requested_columns cfg).
Proof.
  intros OK. rewrite (requested_columns_ok cfg OK). destruct OK as (N1 & N2 & HL & HS).
  set (iv := (if has "ci" (c_ivl cfg) then ["ci_lo"; "ci_hi"]%string else []) ++
             (if has "pi" (c_ivl cfg) then ["pi_lo"; "pi_hi"]%string else [])).
  assert (NI : NoDup iv).
  { unfold iv. destruct (has "ci" (c_ivl cfg)), (has "pi" (c_ivl cfg)); cbn;
      repeat constructor; cbn; intuition discriminate. }
  assert (II : forall n, In n iv -> In n ["ci_lo"; "ci_hi"; "pi_lo"; "pi_hi"]%string).
  { unfold iv. intros n H. destruct (has "ci" (c_ivl cfg)), (has "pi" (c_ivl cfg)); cbn in *; intuition. }
  apply NoDup_app_intro; [exact N1| |].
  - apply NoDup_app_intro; [exact N2|exact NI|].
    intros n H1 H2. destruct (ivl_names_not_stats n (II n H2)) as [_ E]. rewrite (HS n H1) in E. discriminate.
  - intros n H1 H2. apply in_app_or in H2. destruct H2 as [H2|H2].
    + exact (loc_spread_disjoint n (HL n H1) (HS n H2)).
    + destruct (ivl_names_not_stats n (II n H2)) as [E _]. rewrite (HL n H1) in E. discriminate.
Qed.

Theorem row_columns_ok O cfg sl vals wts : names_ok cfg ->
  map fst (row_of_values O cfg sl vals wts) =
  c_loc cfg ++ c_spread cfg ++
  (if has "ci" (c_ivl cfg) then ["ci_lo"; "ci_hi"]%string else []) ++
  (if has "pi" (c_ivl cfg) then ["pi_lo"; "pi_hi"]%string else []).
Proof.
  intro OK. rewrite row_columns, first_occurrences_nodup by now apply requested_columns_nodup.
  now apply requested_columns_ok.
Qed.

(* no statistic column unless requested *)
Theorem row_columns_only_requested O cfg sl vals wts nm :
  In nm (map fst (row_of_values O cfg sl vals wts)) ->
  (In nm (c_loc cfg) /\ is_loc_name nm = true) \/ (In nm (c_spread cfg) /\ is_spread_name nm = true) \/
  (has "ci" (c_ivl cfg) = true /\ In nm ["ci_lo"; "ci_hi"]%string) \/
  (has "pi" (c_ivl cfg) = true /\ In nm ["pi_lo"; "pi_hi"]%string).
Proof.
  rewrite row_columns, first_occurrences_In. unfold requested_columns. intro H.
  apply in_app_or in H. destruct H as [H|H]; [left; apply filter_In in H; exact H|].
  apply in_app_or in H. destruct H as [H|H]; [right; left; apply filter_In in H; exact H|].
  apply in_app_or in H. destruct H as [H|H].
  - right; right; left. destruct (has "ci" (c_ivl cfg)); [now split|destruct H].
  - right; right; right. destruct (has "pi" (c_ivl cfg)); [now split|destruct H].
Qed.

(* every row of the output table carries the same statistic columns *)
Theorem do_segmetrics_table_columns Os cfg bins segs :
  Forall (fun r => map fst (snd r) = first_occurrences (requested_columns cfg)) (do_segmetrics Os cfg bins segs).
Proof.
  unfold do_segmetrics. apply Forall_forall. intros r H. apply in_map_iff in H.
  destruct H as (is & <- & _). cbn [snd]. unfold row_of_bins. apply row_columns.
Qed.

(* the value found in a requested column is that statistic of the segment's bins *)
Theorem row_value_loc O cfg sl vals wts nm f : names_ok cfg -> In nm (c_loc cfg) -> loc_stat O nm = Some f ->
  In (nm, f vals) (row_of_values O cfg sl vals wts).
Proof.
  intros OK I E. rewrite row_of_values_nodup by now apply requested_columns_nodup.
  unfold row_assignments. apply in_or_app. left. unfold named_stats.
  apply in_concat. exists [(nm, f vals)]. split; [|now left].
  apply in_map_iff. exists nm. rewrite E. now split.
Qed.

Theorem row_value_spread O cfg sl vals wts nm f : names_ok cfg -> In nm (c_spread cfg) -> spread_stat O nm = Some f ->
  In (nm, f (map (fun x => qsub x sl) vals)) (row_of_values O cfg sl vals wts).
Proof.
  intros OK I E. rewrite row_of_values_nodup by now apply requested_columns_nodup.
  unfold row_assignments. apply in_or_app. right. apply in_or_app. left. unfold named_stats.
  apply in_concat. exists [(nm, f (map (fun x => qsub x sl) vals))]. split; [|now left].
  apply in_map_iff. exists nm. rewrite E. now split.
Qed.

(* ==== the t-test column ================================================================= *)

Lemma st_pttest_regular tt a : (2 <= length a)%nat -> ~ var_ddof1 a == 0 ->
  st_pttest tt a = Some (tt (t_squared a) (length a - 1)%nat).
Proof.
  intros L V. unfold st_pttest. destruct a as [|x [|y t]]; try (cbn in L; lia).
  destruct (qeq_b (var_ddof1 (x :: y :: t)) 0) eqn:E; [|reflexivity].
  apply qeq_b_iff in E. contradiction.
Qed.

(* p_ttest depends on the bins only through t^2 and their number *)
Theorem st_pttest_fun_t2_n tt a a' : tt_contract tt -> (2 <= length a)%nat -> length a = length a' ->
  ~ var_ddof1 a == 0 -> ~ var_ddof1 a' == 0 -> t_squared a == t_squared a' ->
  exists p p', st_pttest tt a = Some p /\ st_pttest tt a' = Some p' /\ p == p'.
Proof.
  intros [C _] L E V V' T. exists (tt (t_squared a) (length a - 1)%nat), (tt (t_squared a') (length a' - 1)%nat).
  repeat split.
  - now apply st_pttest_regular.
  - apply st_pttest_regular; [lia|assumption].
  - rewrite <- E. now apply C.
Qed.

(* mean 0 with some spread: t = 0, the tail oracle is asked at 0, p = 1 *)
Theorem st_pttest_zero_mean tt a : tt_contract tt -> (2 <= length a)%nat -> ~ var_ddof1 a == 0 ->
  qmean a == 0 ->
  t_squared a == 0 /\ exists p, st_pttest tt a = Some p /\ p == tt 0 (length a - 1)%nat /\ p == 1.
Proof.
  intros [C C0] L V M.
  assert (T : t_squared a == 0).
  { unfold t_squared. rewrite qdiv_spec, qmul_spec, qsq_spec, M. unfold Qdiv. ring. }
  split; [exact T|]. exists (tt (t_squared a) (length a - 1)%nat). repeat split.
  - now apply st_pttest_regular.
  - now apply C.
  - rewrite (C _ 0 _ T). apply C0.
Qed.

(* no or one bin: NaN; no spread: NaN when the mean is 0 too (0/0), else p = 0 (t infinite) *)
Theorem st_pttest_degenerate tt :
  st_pttest tt [] = None /\ (forall x, st_pttest tt [x] = None) /\
  (forall a, (2 <= length a)%nat -> var_ddof1 a == 0 ->
     st_pttest tt a = if qeq_b (qmean a) 0 then None else Some 0).
Proof.
  repeat split; try reflexivity.
  intros a L V. unfold st_pttest. destruct a as [|x [|y t]]; try (cbn in L; lia).
  apply qeq_b_iff in V. now rewrite V.
Qed.

(* all bins equal: no spread *)
Lemma qsum_all_zero l : (forall x, In x l -> x == 0) -> qsum l == 0.
Proof.
  induction l as [|x t IH]; intro H; [reflexivity|]. rewrite qsum_cons, (H x (or_introl eq_refl)), IH; [ring|].
  intros; apply H; now right.
Qed.

Theorem var_ddof1_const c a : a <> [] -> (forall x, In x a -> x == c) -> var_ddof1 a == 0.
Proof.
  intros N H. unfold var_ddof1. rewrite qdiv_spec.
  assert (M : qmean a == c).
  { destruct (qmean_bounds a c c N) as [A B]; [intros x Hx; rewrite (H x Hx); split; apply Qle_refl|].
    now apply Qle_antisym. }
  assert (S : qsum (sq_devs a) == 0).
  { apply qsum_all_zero. intros y Hy. unfold sq_devs in Hy. apply in_map_iff in Hy.
    destruct Hy as (x & <- & Hx). rewrite qsq_spec, qsub_spec, M, (H x Hx). ring. }
  rewrite S. unfold Qdiv. ring.
Qed.

(* ==== the statements as Props/C17.v exports them ========================================== *)
Theorem n_boot_summary b q2a :
  n_boot b q2a = Z.max b (Qceiling q2a) /\
  (inject_Z b <= q2a -> n_boot b q2a = Qceiling q2a) /\ (q2a < inject_Z b -> n_boot b q2a = b) /\
  (b <= n_boot b q2a)%Z /\ q2a <= inject_Z (n_boot b q2a) /\
  (forall m, (b <= m)%Z -> q2a <= inject_Z m -> (n_boot b q2a <= m)%Z).
Proof.
  split; [apply n_boot_max|]. split; [intro H; now apply n_boot_raised_iff|].
  split; [apply n_boot_kept|apply n_boot_least].
Qed.

Theorem ci_matrix_shape O boots k : randint_contract (o_randint O) ->
  ci_resamples O boots k = o_randint O 679661%Z k (Z.to_nat (n_boot boots (o_q2a O))) k /\
  length (ci_resamples O boots k) = Z.to_nat (n_boot boots (o_q2a O)) /\
  Forall (fun r => length r = k /\ Forall (fun i => (i < k)%nat) r) (ci_resamples O boots k).
Proof. intro C. split; [reflexivity|now apply ci_resamples_shape]. Qed.

Theorem ci_order_range_contract O alpha boots vals wts lo hi : 0 < alpha -> alpha < 1 ->
  length wts = length vals -> (forall w, In w wts -> 0 < w) ->
  randint_contract (o_randint O) -> 0 < o_q2a O ->
  ci_func O alpha boots false vals wts = Some (lo, hi) ->
  lo <= hi /\ qmin vals <= lo /\ hi <= qmax vals.
Proof.
  intros A0 A1 L W C Q H.
  destruct vals as [|x t] eqn:E; [discriminate|]. rewrite <- E in *.
  apply (ci_order_range O alpha boots vals wts lo hi A0 A1 L W); [|exact H].
  apply ci_resamples_contract; auto. rewrite E. cbn. lia.
Qed.

Theorem ci_seed_state St (G : rng St) O st alpha boots smoothed vals wts :
  fst (ci_run G O st alpha boots smoothed vals wts) = ci_func (rng_oracles G O) alpha boots smoothed vals wts /\
  ((2 <= length vals)%nat -> forall st', snd (ci_run G O st alpha boots smoothed vals wts) =
                                          snd (ci_run G O st' alpha boots smoothed vals wts)) /\
  ((length vals < 2)%nat -> snd (ci_run G O st alpha boots smoothed vals wts) = st).
Proof.
  split; [apply ci_run_pure|]. split; [intros; now apply ci_run_state|apply ci_run_untouched].
Qed.

Theorem ci_reproducible St (G : rng St) O st st' alpha boots smoothed segs :
  fst (calc_intervals_run G O st alpha boots smoothed segs) =
  fst (calc_intervals_run G O st' alpha boots smoothed segs) /\
  fst (calc_intervals_run G O (snd (calc_intervals_run G O st alpha boots smoothed segs)) alpha boots smoothed segs) =
  fst (calc_intervals_run G O st alpha boots smoothed segs) /\
  fst (calc_intervals_run G O st alpha boots smoothed segs) =
  map (fun vw => ci_func (rng_oracles G O) alpha boots smoothed (fst vw) (snd vw)) segs.
Proof.
  split; [apply calc_intervals_run_reproducible|].
  split; [apply (calc_intervals_run_twice G)|apply calc_intervals_run_pure].
Qed.

Theorem table_values O cfg sl vals wts nm f : names_ok cfg ->
  (In nm (c_loc cfg) -> loc_stat O nm = Some f -> In (nm, f vals) (row_of_values O cfg sl vals wts)) /\
  (In nm (c_spread cfg) -> spread_stat O nm = Some f ->
   In (nm, f (map (fun x => qsub x sl) vals)) (row_of_values O cfg sl vals wts)).
Proof. intros. split; intros; [now apply row_value_loc|now apply row_value_spread]. Qed.

Theorem smoothed_constants : (sm_bw_exp_num = 1 /\ sm_bw_exp_den = 4)%Z /\ sm_one == 1.
Proof. repeat split; reflexivity. Qed.

(* the seed constant, the smallest k that is resampled, and: the interval does not depend on the
   state the generator is in when the call is made *)
Theorem ci_seed_strong :
  (ci_seed = 679661%Z /\ ci_min_k = 2%Z) /\
  (forall St (G : rng St) O st st' alpha boots smoothed vals wts,
     fst (ci_run G O st alpha boots smoothed vals wts) = fst (ci_run G O st' alpha boots smoothed vals wts)).
Proof.
  split; [split; reflexivity|]. intros. now rewrite !ci_run_pure.
Qed.
