(* C13 source tie of do_access' exclude loop: ONE ITERATION of

       for ex_fname in exclude_fnames:
           excluded = tabio.read(ex_fname, "bed3")
           access_regions = access_regions.subtract(excluded)

   is regenerated from the Python source on every run as Gen/FnAccessExclude.v (fn_exclude_step: the carried table after
   the iteration; tables are opaque ids, the table read from the file an opaque id, `.subtract` a method on ids).  Here:
   under any reading `tbl` of ids as the region lists of one sequence in which .subtract is the model's exclude_one
   (Model/AccessPipe.v: the interval subtraction of C06), the generated step folded over the exclude files, from the
   scanned table, is the model's exclude_all -- the loop subtracts every file, in order, from what the previous ones left. *)
From CNV Require Import Base.Prelude Base.Str Gen.FnAccessExclude Model.Access Model.AccessPipe.

Definition subtract_is_model (tbl : Z -> list (Z * Z)) (sub : Z -> Z -> Z) : Prop :=
  forall a e, tbl (sub a e) = exclude_one (tbl a) (tbl e).

(* the loop: the step folded over the ids of the tables read from the exclude files *)
Definition exclude_loop (sub : Z -> Z -> Z) (exs : list Z) (acc : Z) : Z :=
  fold_left (fun a ex => fn_exclude_step a ex sub) exs acc.

Lemma source_exclude_step (tbl : Z -> list (Z * Z)) (sub : Z -> Z -> Z) (acc ex : Z) :
  subtract_is_model tbl sub ->
  tbl (fn_exclude_step acc ex sub) = exclude_one (tbl acc) (tbl ex).
Proof. intro H. unfold fn_exclude_step. apply H. Qed.

Lemma source_exclude_loop (tbl : Z -> list (Z * Z)) (sub : Z -> Z -> Z) (exs : list Z) (acc : Z) :
  subtract_is_model tbl sub ->
  tbl (exclude_loop sub exs acc) = exclude_all (tbl acc) (map tbl exs).
Proof.
  intro H. unfold exclude_loop, exclude_all. revert acc.
  induction exs as [|e t IH]; intro acc; [reflexivity|].
  cbn [fold_left map]. rewrite IH, (source_exclude_step tbl sub acc e H). reflexivity.
Qed.

(* no exclude file: the scanned table goes on as it is *)
Lemma source_exclude_none (sub : Z -> Z -> Z) (acc : Z) : exclude_loop sub [] acc = acc.
Proof. reflexivity. Qed.
