(* Model of the text layer of cnvlib/access.py get_regions: the FASTA file as a
   string of (ASCII) characters.

     with open(fasta_fname) as infile:          -- text mode, universal newlines:
         for line in infile:                       "\n", "\r\n" and "\r" all end a line
             if line.startswith(">"):  chrom = line.split(None, 1)[0][1:] ; reset
             else:                     line = line.rstrip() ; if not line: continue ; scanner step

   Lines are modelled without their terminator: the terminator is white space, and
   every use of a line (startswith(">"), split(None, 1), rstrip()) is insensitive to
   trailing white space.  A sequence line before the first header makes the code fail
   (cursor is None: TypeError on `cursor += len(line)` or earlier); that is [None].
   No proofs here. *)
From CNV Require Import Base.Prelude Base.Str Model.Access.

Definition LF : ascii := "010"%char.
Definition CR : ascii := "013"%char.
Definition GT : ascii := ">"%char.

(* str.isspace() on ASCII: \t \n \v \f \r, the separators 0x1c..0x1f, and the blank *)
Definition is_space (c : ascii) : bool :=
  let n := Z.of_N (N_of_ascii c) in
  ((9 <=? n) && (n <=? 13)) || ((28 <=? n) && (n <=? 32)).

(* the lines of a text opened with universal newlines, terminators removed; a
   final line without terminator is a line, an empty remainder is not *)
Fixpoint lines_of (s : list ascii) : list (list ascii) :=
  match s with
  | [] => []
  | c :: t =>
      if Ascii.eqb c LF then [] :: lines_of t
      else if Ascii.eqb c CR then
        [] :: match t with
              | d :: t' => if Ascii.eqb d LF then lines_of t' else lines_of t
              | [] => []
              end
      else match lines_of t with
           | [] => [[c]]
           | l :: ls => (c :: l) :: ls
           end
  end.

Fixpoint dropwhile {A} (f : A -> bool) (l : list A) : list A :=
  match l with
  | [] => []
  | c :: t => if f c then dropwhile f t else l
  end.

Fixpoint takewhile {A} (f : A -> bool) (l : list A) : list A :=
  match l with
  | [] => []
  | c :: t => if f c then c :: takewhile f t else []
  end.

(* str.rstrip() *)
Definition rstrip (l : list ascii) : list ascii := rev (dropwhile is_space (rev l)).

Definition is_header (line : list ascii) : bool :=
  match line with c :: _ => Ascii.eqb c GT | [] => false end.

(* line.split(None, 1)[0][1:] for a line that starts with ">": the first
   white-space-delimited token is the maximal prefix without white space (">" itself
   is not white space), minus its first character *)
Definition header_name (line : list ascii) : string :=
  unchars (takewhile (fun c => negb (is_space c)) (tl line)).

Definition tagged : Type := (string * Z * Z)%type.
Definition tag (chrom : string) (l : list (Z * Z)) : list tagged :=
  map (fun p => (chrom, fst p, snd p)) l.

(* chrom / cursor / run_start; None = before the first header (all three are None) *)
Definition gr_state : Type := option (string * scan_state).

Definition flush (st : gr_state) : list tagged :=
  match st with
  | Some (chrom, (cursor, rs)) => tag chrom (emit_open rs cursor)
  | None => []
  end.

(* one iteration of `for line in infile`.  A line that is blank after rstrip is skipped
   (`if not line: continue`, inside scan_line) -- also before the first header, where any
   other sequence line fails. *)
Definition gr_step (st : gr_state) (line : list ascii) : option (list tagged * gr_state) :=
  if is_header line then
    Some (flush st, Some (header_name line, (0, None)))
  else
    match st with
    | None => match rstrip line with [] => Some ([], None) | _ => None end
    | Some (chrom, ss) =>
        let '(out, ss') := scan_line isN_ascii ss (rstrip line) in
        Some (tag chrom out, Some (chrom, ss'))
    end.

Fixpoint gr_lines (st : gr_state) (lines : list (list ascii)) : option (list tagged) :=
  match lines with
  | [] => Some (flush st)
  | l :: t =>
      match gr_step st l with
      | None => None
      | Some (out, st') =>
          match gr_lines st' t with
          | Some r => Some (out ++ r)
          | None => None
          end
      end
  end.

(* get_regions(fasta_fname) on the file's text *)
Definition get_regions_text (txt : string) : option (list tagged) :=
  gr_lines None (lines_of (chars txt)).
