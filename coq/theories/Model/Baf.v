(* Model of the allelic split of do_call (cnvlib/call.py lines 62-71) and rescale_baf.
   A BAF is an option Q (None = NaN / missing).  No proofs here. *)
From Coq Require Import Qround Qabs.
From CNV Require Import Base.Prelude Gen.CallDefaults Model.Call.

Local Open Scope Z_scope.

(* ((baf - 0.5).abs() + 0.5).fillna(1.0) *)
Definition upper_baf (b : option Q) : Q :=
  match b with
  | Some b => Qred (Qabs (b - baf_mid) + baf_mid)
  | None => baf_fill
  end.

(* absolutes * upper_baf, before rounding *)
Definition major_raw (a : Q) (b : option Q) : Q := Qred (a * upper_baf b).

(* (absolutes * upper_baf).round().clip(0, cn).astype(int):  min(max(x, 0), cn) *)
Definition cn1_of (a : Q) (b : option Q) (cn : Z) : Z :=
  Z.min (Z.max (round_he (major_raw a b)) cn1_clip_low) cn.

Definition is_missing (b : option Q) : bool := match b with None => true | Some _ => false end.

(* cn1, cn2; both NaN where baf is null and cn > 0 *)
Definition alleles (a : Q) (b : option Q) (cn : Z) : option Z * option Z :=
  if is_missing b && (null_cn_above <? cn) then (None, None)
  else let c1 := cn1_of a b cn in (Some c1, Some (cn - c1)).

(* rescale_baf: (observed - normal_baf * (1 - purity)) / purity *)
Definition rescale_baf (p : Q) (b : option Q) : option Q :=
  match b with
  | Some b => Some (Qred ((b - normal_baf * (1 - p)) / p))
  | None => None
  end.
