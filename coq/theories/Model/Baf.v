(* Model of the allelic split of do_call (cnvlib/call.py lines 62-71) and rescale_baf.
   A BAF is an option Q (None = NaN / missing).  No proofs here. *)
From Coq Require Import Qround Qabs.
From CNV Require Import Base.Prelude Gen.CallDefaults Model.Call Model.Threshold.

Local Open Scope Z_scope.

(* ((baf - 0.5).abs() + 0.5).fillna(1.0) *)
Definition upper_baf (b : option Q) : Q :=
  match b with
  | Some b => Qred (Qabs (b - baf_mid) + baf_mid)
  | None => baf_fill
  end.

(* absolutes * upper_baf, before rounding *)
Definition major_raw (a : Q) (b : option Q) : Q := Qred (a * upper_baf b).

(* (absolutes * upper_baf).round().clip(0, cn).astype(int):  min(max(x, 0), cn) *)
Definition cn1_of (a : Q) (b : option Q) (cn : Z) : Z :=
  Z.min (Z.max (round_he (major_raw a b)) cn1_clip_low) cn.

Definition is_missing (b : option Q) : bool := match b with None => true | Some _ => false end.

(* cn1, cn2; both NaN where baf is null and cn > 0 *)
Definition alleles (a : Q) (b : option Q) (cn : Z) : option Z * option Z :=
  if is_missing b && (null_cn_above <? cn) then (None, None)
  else let c1 := cn1_of a b cn in (Some c1, Some (cn - c1)).

(* rescale_baf: (observed - normal_baf * (1 - purity)) / purity *)
Definition rescale_baf (p : Q) (b : option Q) : option Q :=
  match b with
  | Some b => Some (Qred ((b - normal_baf * (1 - p)) / p))
  | None => None
  end.

(* ------------------------------------------------------------------------------------
   do_call as ONE function over a table (filters=None): the pieces above and those of
   Model/Call.v / Model/Threshold.v composed exactly in the order of the Python body:

     [variants -> baf column]                                  (input: the column after that step)
     if purity and purity < 1.0:  absolutes = absolute_clonal(...).clip(lower=0)
                                  log2 = log2_ratios(...);  if variants: baf = rescale_baf(purity, baf)
     elif method == "clonal":     absolutes = absolute_pure(...)
     if method == "threshold":    absolutes = absolute_threshold(outarr, ...)   -- sees the REWRITTEN log2
     if method != "none":         cn = absolutes.round();  if "baf" in outarr: cn1, cn2, NaN masks

   A row carries the oracle values the arithmetic needs: e = 2^log2, and -- used on the
   purity-adjusted path only -- v2 = log2 of the rewritten ratio and e2 = 2^v2.  The
   theorems (Proofs/CallDoCall.v) state under which contract on these values the result is
   the one of the specification functions. *)

Inductive call_method := MNone | MThreshold | MClonal.

Record dc_in := mk_dc_in {
  d_chrom : string; d_lo : Z; d_hi : Z;
  d_log2 : option Q;      (* log2 column, None = NaN *)
  d_e : Q;                (* 2^log2 (unused when log2 is NaN) *)
  d_baf : option Q;       (* baf column after the `if variants:` step, None = NaN *)
  d_v2 : Q;               (* log2 of the rewritten ratio (purity-adjusted path only) *)
  d_e2 : Q }.             (* 2^v2 *)

Record dc_out := mk_dc_out {
  o_ratio : option Q;     (* 2^(rewritten log2); None: log2 not rewritten, or NaN *)
  o_log2 : option Q;      (* log2 column of the result, None = NaN *)
  o_abs : option Q;       (* `absolutes` of the row, when a calling method ran *)
  o_cn : option Z;        (* cn column; None: method "none" *)
  o_baf : option Q;       (* baf column of the result *)
  o_alleles : option (option Z * option Z) }.   (* cn1, cn2 when those columns exist *)

Inductive dc_result :=
| DcOk (rows : list dc_out)
| DcAssert            (* AssertionError: unsupported genome build on the purity-adjusted path *)
| DcNanCast.          (* a NaN absolute copy number reaches .round().astype("int") (clonal method, NaN log2):
                         outside the model.  Measured: IntCastingNaNError when purity < 1 or a baf column exists
                         (pandas Series cast); without either the numpy cast silently yields INT64_MIN as cn. *)

(* the rewritten ratio of log2_ratios for a row with finite log2 *)
Definition dc_ratio (k : Z) (p : Q) (hapx female : bool) (c : cls) (e : Q) : option Q :=
  snd (call_row_purity k p hapx female c e).

(* `if purity and purity < 1.0: ... elif method == "clonal": ...`
   -> (log2 the method sees, its 2^, absolutes so far (None: not computed, or NaN), rewritten ratio) *)
Definition dc_purity_step (m : call_method) (k : Z) (purity : option Q) (hapx female : bool)
  (build : option string) (first : string) (row : dc_in) : option Q * Q * option Q * option Q :=
  match use_purity purity with
  | Some p =>
      match d_log2 row with
      | Some _ =>
          let o := call_row_purity k p hapx female
                     (row_class build first (d_chrom row) (d_lo row) (d_hi row)) (d_e row) in
          (Some (d_v2 row), d_e2 row, Some (snd (fst o)), snd o)
      | None => (None, d_e row, None, None)            (* NaN propagates through every step *)
      end
  | None =>
      match m, d_log2 row with
      | MClonal, Some _ =>
          (d_log2 row, d_e row, Some (snd (fst (call_row_pure k hapx (d_chrom row) (d_e row)))), None)
      | _, _ => (d_log2 row, d_e row, None, None)
      end
  end.

(* `if variants: outarr["baf"] = rescale_baf(purity, outarr["baf"])` inside the purity branch *)
Definition dc_baf (purity : option Q) (variants : bool) (b : option Q) : option Q :=
  match use_purity purity with
  | Some p => if variants then rescale_baf p b else b
  | None => b
  end.

(* cn and the allelic split from `absolutes` *)
Definition dc_finish (ratio v1 : option Q) (a : Q) (has_baf : bool) (b : option Q) : dc_out :=
  let cn := round_he a in
  mk_dc_out ratio v1 (Some a) (Some cn) (if has_baf then b else None)
            (if has_baf then Some (alleles a b cn) else None).

Definition do_call_row (m : call_method) (k : Z) (purity : option Q) (hapx female : bool)
  (build : option string) (ts : list Q) (variants with_baf : bool) (first : string) (row : dc_in)
  : option dc_out :=
  let '(v1, e1, abs1, ratio) := dc_purity_step m k purity hapx female build first row in
  let has_baf := with_baf || variants in
  let b := dc_baf purity variants (d_baf row) in
  match m with
  | MNone => Some (mk_dc_out ratio v1 None None (if has_baf then b else None) None)
  | MThreshold =>
      Some (dc_finish ratio v1 (inject_Z (thr_cn v1 e1 ts k (ref_pure (d_chrom row) k hapx))) has_baf b)
  | MClonal =>
      match abs1 with
      | Some a => Some (dc_finish ratio v1 a has_baf b)
      | None => None
      end
  end.

Fixpoint opt_all {A : Type} (l : list (option A)) : option (list A) :=
  match l with
  | [] => Some []
  | None :: _ => None
  | Some x :: t => match opt_all t with Some r => Some (x :: r) | None => None end
  end.

Definition dc_first (rows : list dc_in) : string :=
  match rows with r :: _ => d_chrom r | [] => EmptyString end.

Definition do_call_model (m : call_method) (k : Z) (purity : option Q) (hapx female : bool)
  (build : option string) (ts : list Q) (variants with_baf : bool) (rows : list dc_in) : dc_result :=
  let ok := match use_purity purity, build with
            | Some _, Some b => build_supported b
            | _, _ => true
            end in
  if ok then
    match opt_all (map (do_call_row m k purity hapx female build ts variants with_baf (dc_first rows)) rows) with
    | Some out => DcOk out
    | None => DcNanCast
    end
  else DcAssert.
