(* Model of cnvlib/call.py, threshold method (C02): absolute_threshold with
   _reference_copies_pure (Model/Call.v: ref_pure).  A row carries its log2 (None = NaN)
   and e = 2^log2 (oracle value, only used above the last threshold).  No proofs here. *)
From Coq Require Import Qround.
From CNV Require Import Base.Prelude Base.Str Gen.CallDefaults Model.Call.

Local Open Scope Z_scope.

(* for cnum, thresh in enumerate(thresholds): if row.log2 <= thresh: ... break
   -- the index of the first threshold with v <= t, counting from i *)
Fixpoint first_le (v : Q) (ts : list Q) (i : Z) : option Z :=
  match ts with
  | [] => None
  | t :: rest => if Qle_bool v t then Some i else first_le v rest (i + 1)
  end.

(* if ref_copies != ploidy: cnum = int(cnum * ref_copies / ploidy)   (int() truncates) *)
Definition scale_cn (i r k : Z) : Z := if r =? k then i else Z.quot (i * r) k.

(* one row of absolute_threshold *)
Definition thr_cn (v : option Q) (e : Q) (ts : list Q) (k r : Z) : Z :=
  match v with
  | None => r                                        (* log2 is NaN: neutral copy number *)
  | Some v =>
      match first_le v ts 0 with
      | Some i => scale_cn i r k
      | None => Qceiling (inject_Z r * e)            (* for ... else: int(np.ceil(r * 2**log2)) *)
      end
  end.

Definition thr_row := (string * option Q * Q)%type.    (* chromosome, log2 | NaN, 2^log2 *)

Definition thr_row_cn (k : Z) (hapx : bool) (ts : list Q) (row : thr_row) : Z :=
  let '(chrom, v, e) := row in thr_cn v e ts k (ref_pure chrom k hapx).

(* do_call(method="threshold") without purity: cn column (absolutes are integers already,
   .round().astype(int) leaves them unchanged) *)
Definition call_threshold (k : Z) (hapx : bool) (ts : list Q) (rows : list thr_row) : list Z :=
  map (thr_row_cn k hapx ts) rows.

(* the default argument of do_call *)
Definition default_thresholds : list Q := call_thresholds.
