(* Model of cnvlib/call.py, threshold method (C02): absolute_threshold with
   _reference_copies_pure (Model/Call.v: ref_pure).  A row carries its log2 (None = NaN)
   and e = 2^log2 (oracle value, only used above the last threshold).  No proofs here. *)
From Coq Require Import Qround.
From CNV Require Import Base.Prelude Base.Str Gen.CallDefaults Model.Call.

Local Open Scope Z_scope.

(* for cnum, thresh in enumerate(thresholds): if row.log2 <= thresh: ... break
   -- the index of the first threshold with v <= t, counting from i *)
Fixpoint first_le (v : Q) (ts : list Q) (i : Z) : option Z :=
  match ts with
  | [] => None
  | t :: rest => if Qle_bool v t then Some i else first_le v rest (i + 1)
  end.

(* if ref_copies != ploidy: cnum = int(cnum * ref_copies / ploidy)   (int() truncates) *)
Definition scale_cn (i r k : Z) : Z := if r =? k then i else Z.quot (i * r) k.

(* one row of absolute_threshold *)
Definition thr_cn (v : option Q) (e : Q) (ts : list Q) (k r : Z) : Z :=
  match v with
  | None => r                                        (* log2 is NaN: neutral copy number *)
  | Some v =>
      match first_le v ts 0 with
      | Some i => scale_cn i r k
      | None => Qceiling (inject_Z r * e)            (* for ... else: int(np.ceil(r * 2**log2)) *)
      end
  end.

Definition thr_row := (string * option Q * Q)%type.    (* chromosome, log2 | NaN, 2^log2 *)

Definition thr_row_cn (k : Z) (hapx : bool) (ts : list Q) (row : thr_row) : Z :=
  let '(chrom, v, e) := row in thr_cn v e ts k (ref_pure chrom k hapx).

(* do_call(method="threshold") without purity: cn column (absolutes are integers already,
   .round().astype(int) leaves them unchanged) *)
Definition call_threshold (k : Z) (hapx : bool) (ts : list Q) (rows : list thr_row) : list Z :=
  map (thr_row_cn k hapx ts) rows.

(* the default argument of do_call *)
Definition default_thresholds : list Q := call_thresholds.

(* ------------------------------------------------------------------------------------
   Literal transcription of the per-row body of absolute_threshold (the loop is outside
   the function-body translator; its statements are pinned in tools/genspecs/c01.py):

       if np.isnan(row.log2): absolutes[idx] = ref_copies; continue
       cnum = 0
       for cnum, thresh in enumerate(thresholds):
           if row.log2 <= thresh:
               if ref_copies != ploidy:
                   cnum = int(cnum * ref_copies / ploidy)
               break
       else:
           cnum = int(np.ceil(_log2_ratio_to_absolute_pure(row.log2, ref_copies)))
       absolutes[idx] = cnum

   `fdiv a b` stands for Python's float quotient a / b of two ints (an oracle: the
   correctly rounded double); int() truncates toward zero.  Proofs/CallScan.v shows that
   this walk equals thr_cn (first_le / scale_cn) above. *)

(* enumerate(thresholds), counting from i *)
Fixpoint enumerate_from (i : Z) (ts : list Q) : list (Z * Q) :=
  match ts with
  | [] => []
  | t :: rest => (i, t) :: enumerate_from (i + 1) rest
  end.

(* Python int() of a float: truncation toward zero *)
Definition trunc_Q (q : Q) : Z := if Qle_bool 0 q then Qfloor q else Qceiling q.

(* the for / else walk over (cnum, thresh) pairs *)
Fixpoint scan_loop (fdiv : Z -> Z -> Q) (v e : Q) (k r : Z) (pairs : list (Z * Q)) : Z :=
  match pairs with
  | [] => trunc_Q (inject_Z (Qceiling (abs_pure e r)))                      (* else: *)
  | (cnum, thresh) :: rest =>
      if Qle_bool v thresh then
        (if negb (r =? k) then trunc_Q (fdiv (cnum * r) k) else cnum)        (* break *)
      else scan_loop fdiv v e k r rest
  end.

Definition scan_row (fdiv : Z -> Z -> Q) (v : option Q) (e : Q) (ts : list Q) (k r : Z) : Z :=
  match v with
  | None => r
  | Some v => scan_loop fdiv v e k r (enumerate_from 0 ts)
  end.

(* the exact quotient, the reading used by scale_cn *)
Definition exact_div (a b : Z) : Q := Qred (inject_Z a / inject_Z b).
