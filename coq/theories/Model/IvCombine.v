(* Model of skgenome/combiners.py as used by merge / flatten on a table with a
   "gene" column and one extra column that has no combiner ("tag"):
   gene -> join_strings (distinct names in first-occurrence order, joined by
   the separator), any other extra column -> value of the group's first row. *)
From CNV Require Import Base.Prelude Gen.IvDefaults.

(* pd.unique: distinct values in order of first occurrence *)
Fixpoint uniq (l : list string) : list string :=
  match l with
  | [] => []
  | x :: t => x :: filter (fun y => negb (String.eqb x y)) (uniq t)
  end.

Definition join_strings (l : list string) : string := String.concat join_sep (uniq l).

Definition gene_tag : Type := (string * Z)%type.

Definition comb_gene_tag (first : gene_tag) (ps : list gene_tag) : gene_tag :=
  (join_strings (map fst ps), snd first).
