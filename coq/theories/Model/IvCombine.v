(* Model of skgenome/combiners.py as used by merge / flatten on a table with a
   "gene" column and one extra column that has no combiner ("tag"):
   gene -> join_strings (distinct names in first-occurrence order, joined by
   the separator), any other extra column -> value of the group's first row. *)
From CNV Require Import Base.Prelude Gen.IvDefaults.

(* pd.unique: distinct values in order of first occurrence *)
Fixpoint uniq (l : list string) : list string :=
  match l with
  | [] => []
  | x :: t => x :: filter (fun y => negb (String.eqb x y)) (uniq t)
  end.

Definition join_strings (l : list string) : string := String.concat join_sep (uniq l).

Definition gene_tag : Type := (string * Z)%type.

Definition comb_gene_tag (first : gene_tag) (ps : list gene_tag) : gene_tag :=
  (join_strings (map fst ps), snd first).

(* ==== combiners.py, complete =====================================================
   get_combiners(table, stranded, combine=None): the dictionary `cmb` (column name ->
   combining function; Gen/IvCombiners.v: combiner_table, regenerated from the source),
   the strand rule (first_of if stranded else merge_strands), restricted to the columns
   of the table; first_of, last_of, max, join_strings, sum, merge_strands, make_const.
   A column without an entry keeps the value of the group's FIRST row
   (firsttup._replace / first_row._replace only replace the combined fields).

   merge() hands each combiner a pandas Series of the group's values, flatten() a
   Python list; all the functions below give the same result on both.  Values are
   typed per column: strings (gene, accession, strand), rationals (weight: every float
   is an exact dyadic rational; Python's left-to-right `sum` is modelled exactly),
   integers (probes, and the combiner-less column `tag`). *)
From CNV Require Import Base.QNum.
From CNV Require Gen.IvCombiners.

Inductive ckind := CFirst | CLast | CMax | CJoin | CSum | CStrands.

(* the functions of combiners.py (and the builtins max / sum) by their Python name *)
Definition ckind_of_name (s : string) : option ckind :=
  if String.eqb s "first_of" then Some CFirst
  else if String.eqb s "last_of" then Some CLast
  else if String.eqb s "max" then Some CMax
  else if String.eqb s "max_of" then Some CMax
  else if String.eqb s "join_strings" then Some CJoin
  else if String.eqb s "sum" then Some CSum
  else if String.eqb s "merge_strands" then Some CStrands
  else None.

Fixpoint assoc_name (k : string) (l : list (string * string)) : option string :=
  match l with
  | [] => None
  | (k', v) :: t => if String.eqb k k' then Some v else assoc_name k t
  end.

(* get_combiners(...)[col] for combine=None; None: the column has no combiner *)
Definition default_combiner (stranded : bool) (col : string) : option ckind :=
  match assoc_name col Gen.IvCombiners.combiner_table with
  | Some nm => ckind_of_name nm
  | None =>
      if String.eqb col "strand"
      then ckind_of_name (if stranded then Gen.IvCombiners.strand_combiner_stranded
                          else Gen.IvCombiners.strand_combiner_unstranded)
      else None
  end.

(* merge_strands: the common strand, or "." when the strands differ (elems non-empty) *)
Definition merge_strands (l : list string) : string :=
  match uniq l with
  | [] => EmptyString
  | [s] => s
  | _ => Gen.IvCombiners.mixed_strand
  end.

(* make_const(val) *)
Definition make_const {V} (v : V) (elems : list V) : V := v.

Fixpoint maxZ_from (m : Z) (l : list Z) : Z :=
  match l with [] => m | x :: t => maxZ_from (Z.max m x) t end.

(* Python's sum(): 0 + x1 + x2 + ... from the left *)
Definition py_sumQ (l : list Q) : Q := fold_left (fun a x => Qred (a + x)) l 0%Q.

Fixpoint maxQ_from (m : Q) (l : list Q) : Q :=
  match l with [] => m | x :: t => maxQ_from (if Qle_bool x m then m else x) t end.

(* one column of the group through its combiner; `first` = the value in the group's
   first row (what a column without a combiner keeps); `vals` = the column over the
   rows being combined (never empty).  Combinations that raise TypeError in Python
   (sum of strings, join of numbers) do not occur with the default table and keep
   the first value here. *)
Definition comb_str (k : option ckind) (first : string) (vals : list string) : string :=
  match k with
  | Some CJoin => join_strings vals
  | Some CStrands => merge_strands vals
  | Some CFirst => hd first vals
  | Some CLast => last vals first
  | _ => first
  end.

Definition comb_Z (k : option ckind) (first : Z) (vals : list Z) : Z :=
  match k with
  | Some CSum => sumZ vals
  | Some CMax => match vals with [] => first | x :: t => maxZ_from x t end
  | Some CFirst => hd first vals
  | Some CLast => last vals first
  | _ => first
  end.

Definition comb_Q (k : option ckind) (first : Q) (vals : list Q) : Q :=
  match k with
  | Some CSum => py_sumQ vals
  | Some CMax => match vals with [] => first | x :: t => maxQ_from x t end
  | Some CFirst => hd first vals
  | Some CLast => last vals first
  | _ => first
  end.

(* the other fields of a row with every default-combined column and one column
   ("tag") that has no combiner *)
Record pcols := mkPcols {
  c_gene : string; c_acc : string; c_strand : string; c_weight : Q; c_probes : Z; c_tag : Z }.

Definition comb_cols (stranded : bool) (first : pcols) (ps : list pcols) : pcols :=
  mkPcols (comb_str (default_combiner stranded "gene") (c_gene first) (map c_gene ps))
         (comb_str (default_combiner stranded "accession") (c_acc first) (map c_acc ps))
         (comb_str (default_combiner stranded "strand") (c_strand first) (map c_strand ps))
         (comb_Q (default_combiner stranded "weight") (c_weight first) (map c_weight ps))
         (comb_Z (default_combiner stranded "probes") (c_probes first) (map c_probes ps))
         (comb_Z (default_combiner stranded "tag") (c_tag first) (map c_tag ps)).

(* the coordinates of a squashed group, as get_combiners says: start -> first_of, end -> max *)
Definition comb_start (starts : list Z) : Z := comb_Z (default_combiner false "start") 0 starts.
Definition comb_end (ends : list Z) : Z := comb_Z (default_combiner false "end") 0 ends.
