(* Model of skgenome/intersect.py (by_shared_chroms, by_ranges, iter_ranges,
   iter_slices, idx_ranges, _irange_simple, _irange_nested) and of the
   GenomicArray front ends in skgenome/gary.py (by_ranges, in_range, in_ranges,
   intersection, iter_ranges_of).  Rows carry an identity `r_id` (the index
   label of the data frame), so that "index labels, not positions" slices are
   observable.  No proofs here. *)
From CNV Require Import Base.Prelude.
From CNV Require Gen.RangeDefaults.

Record row := mkRow { r_id : Z; r_lo : Z; r_hi : Z }.

Definition trow := (string * row)%type.          (* chromosome, row *)

Definition zlen {A} (l : list A) : Z := Z.of_nat (length l).

(* ---- numpy searchsorted ------------------------------------------------
   numpy/core/src/npysort/binsearch.cpp: a plain binary search that never
   checks sortedness, and that re-uses the bracket of the previous key when
   several keys are searched in one call.  `count_side` is what it returns
   on a sorted array (Proofs/Ranges.v: searchsorted_sorted). *)
Inductive side := SLeft | SRight.

Definition ss_cmp (s : side) (a b : Z) : bool :=
  match s with SLeft => a <? b | SRight => a <=? b end.

Definition count_side (s : side) (arr : list Z) (key : Z) : Z :=
  zlen (filter (fun x => ss_cmp s x key) arr).

Fixpoint bs_loop (s : side) (arr : list Z) (key : Z) (fuel : nat) (mn mx : Z) : Z :=
  match fuel with
  | O => mn
  | S f =>
      if mn <? mx then
        let mid := mn + (mx - mn) / 2 in
        if ss_cmp s (nth (Z.to_nat mid) arr 0) key
        then bs_loop s arr key f (mid + 1) mx
        else bs_loop s arr key f mn mid
      else mn
  end.

Fixpoint ss_go (s : side) (arr : list Z) (n : Z) (last mn mx : Z) (keys : list Z) : list Z :=
  match keys with
  | [] => []
  | k :: t =>
      let '(mn1, mx1) :=
        if ss_cmp s last k then (mn, n) else (0, if mx <? n then mx + 1 else n) in
      let r := bs_loop s arr k (S (length arr)) mn1 mx1 in
      r :: ss_go s arr n k r r t
  end.

Definition searchsorted (s : side) (arr : list Z) (keys : list Z) : list Z :=
  match keys with
  | [] => []
  | k0 :: _ => ss_go s arr (zlen arr) k0 0 (zlen arr) keys
  end.

Definition searchsorted1 (s : side) (arr : list Z) (key : Z) : Z :=
  hd 0 (searchsorted s arr [key]).

(* Series.is_monotonic_increasing (non-strict) *)
Fixpoint is_monotonic (l : list Z) : bool :=
  match l with
  | a :: ((b :: _) as t) => (a <=? b) && is_monotonic t
  | _ => true
  end.

(* ---- selections: slice(None) / slice(i, j) / boolean mask ---------------- *)
Inductive sel := SelAll | SelSlice (i j : Z) | SelMask (m : list bool).

(* rows at the positions k (counted from i0) for which p k holds *)
Fixpoint select_pos {A} (p : Z -> bool) (i0 : Z) (l : list A) : list A :=
  match l with
  | [] => []
  | x :: t => if p i0 then x :: select_pos p (i0 + 1) t else select_pos p (i0 + 1) t
  end.

Fixpoint mask_select {A} (m : list bool) (l : list A) : list A :=
  match m, l with
  | b :: m', x :: l' => if b then x :: mask_select m' l' else mask_select m' l'
  | _, _ => []
  end.

Definition apply_sel {A} (s : sel) (l : list A) : list A :=
  match s with
  | SelAll => l
  | SelSlice i j => select_pos (fun k => (i <=? k) && (k <? j)) 0 l
  | SelMask m => mask_select m l
  end.

(* mask[k] &= p k  (models region_mask[:i] = 0 and region_mask[i:] = 0) *)
Fixpoint mask_idx (p : Z -> bool) (i0 : Z) (m : list bool) : list bool :=
  match m with
  | [] => []
  | b :: t => (b && p i0) :: mask_idx p (i0 + 1) t
  end.

Fixpoint mask_and (a b : list bool) : list bool :=
  match a, b with
  | x :: a', y :: b' => (x && y) :: mask_and a' b'
  | _, _ => []
  end.

(* ---- idx_ranges ---------------------------------------------------------- *)
Inductive imode := Inner | Outer.                 (* idx_ranges' mode *)
Inductive qmode := QInner | QOuter | QTrim.       (* iter_ranges' / by_ranges' mode *)

Definition imode_of (m : qmode) : imode :=
  match m with QInner => Inner | _ => Outer end.

Definition imode_of_name (s : string) : imode :=     (* "inner" | "outer" *)
  if String.eqb s "inner" then Inner else Outer.

Definition given (o : option (list Z)) : option (list Z) :=   (* `x is not None and len(x)` *)
  match o with Some ((_ :: _) as l) => Some l | _ => None end.

Definition truthyZ (z : Z) : bool := negb (z =? 0).
Definition truthy (o : option Z) : bool :=                       (* `if start_val:` *)
  match o with Some z => truthyZ z | None => false end.

Definition ranges := list (sel * option Z * option Z).

Fixpoint zip_simple (si sv ei : list Z) (ev : list (option Z)) : ranges :=
  match si, sv, ei, ev with
  | i :: si', v :: sv', j :: ei', w :: ev' => (SelSlice i j, Some v, w) :: zip_simple si' sv' ei' ev'
  | _, _, _, _ => []
  end.

Definition irange_simple (t : list row) (starts ends : option (list Z)) (m : imode) : ranges :=
  let los := map r_lo t in
  let his := map r_hi t in
  let '(start_idxs, start_vals) :=
    match given starts with
    | Some ss =>
        (match m with Inner => searchsorted SLeft los ss | Outer => searchsorted SRight his ss end, ss)
    | None =>
        let k := match ends with Some e => length e | None => 1%nat end in
        (repeat 0 k, repeat 0 k)
    end in
  let '(end_idxs, end_vals) :=
    match given ends with
    | Some es =>
        (match m with Inner => searchsorted SRight his es | Outer => searchsorted SLeft los es end,
         map Some es)
    | None => (repeat (zlen t) (length start_vals), repeat None (length start_vals))
    end in
  zip_simple start_idxs start_vals end_idxs end_vals.

Definition ones (t : list row) : list bool := map (fun _ => true) t.

Definition nested_mask (t : list row) (m : imode) (qs : Z) (qe : option Z) : list bool :=
  let los := map r_lo t in
  match m with
  | Outer =>
      let m0 := if truthyZ qs then map (fun r => qs <? r_hi r) t else ones t in
      match qe with
      | Some e => mask_idx (fun k => k <? searchsorted1 SLeft los e) 0 m0
      | None => m0
      end
  | Inner =>
      let m0 :=
        if truthyZ qs then
          let s := searchsorted1 SLeft los qs in mask_idx (fun k => s <=? k) 0 (ones t)
        else ones t in
      match qe with
      | Some e => mask_and m0 (map (fun r => r_hi r <=? e) t)
      | None => m0
      end
  end.

(* the code asserts len(starts) == len(ends) > 0 here; unequal lengths and empty
   query lists are not modelled (zip truncation), they are outside every entry
   point's contract *)
Definition irange_nested (t : list row) (starts : list Z) (ends : list (option Z)) (m : imode)
  : ranges :=
  map (fun '(qs, qe) => (SelMask (nested_mask t m qs qe), Some qs, qe)) (combine starts ends).

(* the mask path is taken whenever the ends are not monotone; a missing side is
   filled in first (starts -> zeros, ends -> [None] * n) *)
Definition idx_ranges (t : list row) (starts ends : option (list Z)) (m : imode) : ranges :=
  match t, starts, ends with
  | [], _, _ => [(SelAll, None, None)]
  | _, None, None => [(SelAll, None, None)]
  | _, _, _ =>
      if negb (is_monotonic (map r_hi t)) then
        let ss := match given starts with
                  | Some ss => ss
                  | None => repeat 0 (length (match ends with Some e => e | None => [] end))
                  end in
        let es := match given ends with
                  | Some es => map Some es
                  | None => repeat None (length ss)
                  end in
        irange_nested t ss es m
      else irange_simple t starts ends m
  end.

(* ---- iter_ranges (table already restricted to one chromosome) ------------ *)
Definition clip_lo (v : Z) (r : row) : row := mkRow (r_id r) (Z.max (r_lo r) v) (r_hi r).
Definition clip_hi (v : Z) (r : row) : row := mkRow (r_id r) (r_lo r) (Z.min (r_hi r) v).

Definition trim_rows (sv ev : option Z) (rows : list row) : list row :=
  let rows1 := match sv with
               | Some v => if truthyZ v then map (clip_lo v) rows else rows
               | None => rows end in
  match ev with
  | Some v => if truthyZ v then map (clip_hi v) rows1 else rows1
  | None => rows1
  end.

Definition iter_ranges (t : list row) (starts ends : option (list Z)) (m : qmode) : list (list row) :=
  map (fun '(s, sv, ev) =>
         let sub := apply_sel s t in
         match m with QTrim => trim_rows sv ev sub | _ => sub end)
      (idx_ranges t starts ends (imode_of m)).

(* `if chrom: table = table[table.chromosome == chrom]` (None and "" select everything) *)
Definition chrom_filter (chrom : option string) (t : list trow) : list row :=
  match chrom with
  | None => map snd t
  | Some c => if String.eqb c "" then map snd t
              else map snd (filter (fun x => String.eqb (fst x) c) t)
  end.

(* ---- by_shared_chroms ---------------------------------------------------- *)
Fixpoint distinct (l : list string) : list string :=       (* order of first appearance *)
  match l with
  | [] => []
  | x :: t => x :: filter (fun y => negb (String.eqb y x)) (distinct t)
  end.

Definition chroms (t : list trow) : list string := distinct (map fst t).
Definition of_chrom (c : string) (t : list trow) : list trow :=
  filter (fun x => String.eqb (fst x) c) t.
Definition has_chrom (c : string) (t : list trow) : bool :=
  existsb (fun x => String.eqb (fst x) c) t.

(* by_shared_chroms(table, other, keep_empty) -> (chrom, table rows, other rows or None) *)
Definition shared_groups (table other : list trow) (keep_empty : bool)
  : list (string * list trow * option (list trow)) :=
  concat (map (fun c =>
                 if has_chrom c other then [(c, of_chrom c table, Some (of_chrom c other))]
                 else if keep_empty then [(c, of_chrom c table, None)] else [])
              (chroms table)).

(* the single-chromosome shortcut: both tables have the same single chromosome *)
Definition same_single_chrom (table other : list trow) : bool :=
  match chroms table, chroms other with
  | [c], [c'] => String.eqb c c'
  | _, _ => false
  end.

Definition by_shared_chroms (table other : list trow) (keep_empty : bool)
  : list (string * list trow * option (list trow)) :=
  if same_single_chrom table other
  then [(hd ""%string (chroms table), table, Some other)]
  else shared_groups table other keep_empty.

Definition starts_of (b : list trow) : list Z := map (fun x => r_lo (snd x)) b.
Definition ends_of (b : list trow) : list Z := map (fun x => r_hi (snd x)) b.

(* intersect.by_ranges(table, other, mode, keep_empty): (bin row, selected rows) *)
Definition by_ranges (table other : list trow) (m : qmode) (keep_empty : bool)
  : list (trow * list row) :=
  concat (map (fun '(_, bins, src) =>
                 match src with
                 | Some src_rows =>
                     combine bins (iter_ranges (map snd src_rows)
                                               (Some (starts_of bins)) (Some (ends_of bins)) m)
                 | None => if keep_empty then map (fun b => (b, [])) bins else []
                 end)
              (by_shared_chroms other table keep_empty)).

(* GenomicArray.by_ranges: empty selections are dropped unless keep_empty *)
Definition ga_by_ranges (table other : list trow) (m : qmode) (keep_empty : bool)
  : list (trow * list row) :=
  filter (fun '(_, sub) => match sub with [] => keep_empty | _ => true end)
         (by_ranges table other m keep_empty).

(* iter_slices(table, other, mode, keep_empty): the selected rows (by label) per bin *)
Definition iter_slices (table other : list trow) (m : imode) (keep_empty : bool)
  : list (list row) :=
  concat (map (fun '(_, bins, src) =>
                 match src with
                 | None => map (fun _ => []) bins
                 | Some src_rows =>
                     let t := map snd src_rows in
                     filter (fun sub => match sub with [] => keep_empty | _ => true end)
                            (map (fun '(s, _, _) => apply_sel s t)
                                 (idx_ranges t (Some (starts_of bins)) (Some (ends_of bins)) m))
                 end)
              (by_shared_chroms other table keep_empty)).

(* GenomicArray.in_range / in_ranges *)
Definition in_range (t : list trow) (chrom : option string) (qs qe : option Z) (m : qmode)
  : list row :=
  let starts := match qs with Some s => Some [s] | None => None end in
  let ends := match qe with Some e => Some [e] | None => None end in
  hd [] (iter_ranges (chrom_filter chrom t) starts ends m).

(* None models pandas' "No objects to concatenate" *)
Definition in_ranges (t : list trow) (chrom : option string) (starts ends : option (list Z))
  (m : qmode) : option (list row) :=
  match iter_ranges (chrom_filter chrom t) starts ends m with
  | [] => None
  | l => Some (concat l)
  end.

(* GenomicArray.intersection: the concatenation of the non-empty selections (an
   empty table when nothing is selected) *)
Definition intersection (table other : list trow) (m : qmode) : list row :=
  match m with
  | QTrim => concat (map snd (ga_by_ranges table other QTrim
                                          RangeDefaults.intersection_trim_keep_empty))
  | _ => concat (iter_slices table other (imode_of m) RangeDefaults.intersection_slices_keep_empty)
  end.

(* GenomicArray.iter_ranges_of: the rows whose column values are yielded; "trim"
   goes through by_ranges (clipped coordinates), the others through iter_slices *)
Definition iter_ranges_of (table other : list trow) (m : qmode) (keep_empty : bool)
  : list (list row) :=
  match m with
  | QTrim => map snd (ga_by_ranges table other QTrim keep_empty)
  | _ => iter_slices table other (imode_of m) keep_empty
  end.

(* ==== ERROR OUTCOMES =============================================================
   Empty query lists and starts / ends of unequal length, which the definitions above
   treat by zip truncation, as the code treats them: an outcome is a value or the name
   of the exception the call raises.

   idx_ranges, mask path (ends of the table not monotone):
     if starts is None or not len(starts): starts = np.zeros(len(ends))   -- len(None): TypeError
     if ends is None or not len(ends):     ends = [None] * len(starts)
     _irange_nested: assert len(starts) == len(ends) > 0                  -- AssertionError
   binary-search path: zip() truncates to the shorter list (no error); nothing to yield makes
   pd.concat raise ValueError in in_ranges.  in_range passes one-element lists (or None) and
   takes next() of the generator: it never fails this way. *)
Inductive rq_outcome (A : Type) : Type :=
  | RqOk (a : A)
  | RqRaises (e : string).
Arguments RqOk {A} a.
Arguments RqRaises {A} e.

Definition idx_ranges_e (t : list row) (starts ends : option (list Z)) (m : imode) : rq_outcome ranges :=
  match t, starts, ends with
  | [], _, _ => RqOk [(SelAll, None, None)]
  | _, None, None => RqOk [(SelAll, None, None)]
  | _, _, _ =>
      if negb (is_monotonic (map r_hi t)) then
        match given starts, ends with
        | None, None => RqRaises "TypeError"
        | gs, _ =>
            let ss := match gs with
                      | Some ss => ss
                      | None => repeat 0 (length (match ends with Some e => e | None => [] end))
                      end in
            let es := match given ends with
                      | Some es => map Some es
                      | None => repeat None (length ss)
                      end in
            if Nat.eqb (length ss) (length es) && negb (Nat.eqb (length ss) 0)
            then RqOk (irange_nested t ss es m)
            else RqRaises "AssertionError"
        end
      else RqOk (irange_simple t starts ends m)
  end.

Definition iter_ranges_e (t : list row) (starts ends : option (list Z)) (m : qmode)
  : rq_outcome (list (list row)) :=
  match idx_ranges_e t starts ends (imode_of m) with
  | RqRaises e => RqRaises e
  | RqOk rs =>
      RqOk (map (fun '(s, sv, ev) =>
                   let sub := apply_sel s t in
                   match m with QTrim => trim_rows sv ev sub | _ => sub end) rs)
  end.

(* GenomicArray.in_ranges with every argument shape *)
Definition in_ranges_e (t : list trow) (chrom : option string) (starts ends : option (list Z))
  (m : qmode) : rq_outcome (list row) :=
  match iter_ranges_e (chrom_filter chrom t) starts ends m with
  | RqRaises e => RqRaises e
  | RqOk [] => RqRaises "ValueError"
  | RqOk l => RqOk (concat l)
  end.

(* ==== LABELS AND POSITIONS ==========================================================
   iter_slices yields index LABELS (`src_rows.index[slc].values`); the callers look rows
   and column values up by label (`table.loc[indices]`, `column[slc]`).  A label lookup
   returns, for every requested label in turn, ALL rows carrying it in table order; a
   positional lookup (`iloc`, numpy indexing) returns the row at that position. *)
Definition rows_loc (t : list row) (labels : list Z) : list row :=
  flat_map (fun l => filter (fun r => r_id r =? l) t) labels.

Definition rows_iloc (t : list row) (positions : list Z) : list row :=
  flat_map (fun p => if p <? 0 then []
                     else match nth_error t (Z.to_nat p) with Some r => [r] | None => [] end)
           positions.

(* the labels iter_slices yields *)
Definition iter_slice_labels (table other : list trow) (m : imode) (keep_empty : bool) : list (list Z) :=
  map (map r_id) (iter_slices table other m keep_empty).
