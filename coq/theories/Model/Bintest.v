(* C17 -- model of cnvlib.bintest (do_bintest, z_prob, p_adjust_bh) and of
   CopyNumArray.residuals, as the code is NOW.  Executable definitions only;
   lemmas are in Proofs/Bintest.v.  NaN is [None]. *)
From CNV Require Import Base.Prelude Base.QNum Gen.Params Gen.SegmetricsDefaults Model.Ranges Model.Segmetrics.
From Coq Require Import Qround Qabs Sorting.Mergesort Orders.
Local Open Scope Q_scope.

(* ---- p_adjust_bh, step by step as coded ----------------------------------- *)
(* p.argsort(): any order of ties is a possible outcome of numpy's default sort;
   the model takes the stable merge sort of the (p, index) pairs by p *)
Module PairOrder <: TotalLeBool.
  Definition t := (Q * nat)%type.
  Definition leb (a b : t) := Qle_bool (fst a) (fst b).
  Theorem leb_total : forall a1 a2, leb a1 a2 = true \/ leb a2 a1 = true.
  Proof. intros a b. apply QOrder.leb_total. Qed.
End PairOrder.
Module PairSort := Sort PairOrder.

(* by_descend = p.argsort()[::-1], kept together with the values p[by_descend] *)
Definition by_descend (ps : list Q) : list (Q * nat) :=
  rev (PairSort.sort (combine ps (seq 0 (length ps)))).

(* steps * p[by_descend], steps = float(n) / arange(n, 0, -1); k counts n, n-1, .., 1 *)
Fixpoint steps_mul (n : Q) (k : nat) (l : list Q) : list Q :=
  match l with
  | [] => []
  | x :: t => qmul (qdiv n (qofnat k)) x :: steps_mul n (k - 1) t
  end.

(* np.minimum.accumulate *)
Fixpoint cummin_from (m : Q) (l : list Q) : list Q :=
  match l with
  | [] => []
  | x :: t => let m' := qmin2 m x in m' :: cummin_from m' t
  end.
Definition cummin (l : list Q) : list Q :=
  match l with [] => [] | x :: t => x :: cummin_from x t end.

Fixpoint lookup_idx (i : nat) (tab : list (nat * Q)) : Q :=
  match tab with
  | [] => 0
  | (j, q) :: t => if Nat.eqb i j then q else lookup_idx i t
  end.

Definition bh (ps : list Q) : list Q :=
  let n := length ps in
  let d := by_descend ps in
  let q := map (qmin2 bh_cap) (cummin (steps_mul (qofnat n) n (map fst d))) in
  let tab := combine (map snd d) q in          (* q[by_orig]: position of i in by_descend *)
  map (fun i => lookup_idx i tab) (seq 0 n).

(* a NaN sorts last, comes first in by_descend, and the running minimum keeps it *)
Definition bh_opt (ps : list (option Q)) : list (option Q) :=
  match all_some ps with
  | Some l => map Some (bh l)
  | None => map (fun _ => None) ps
  end.

(* ---- z_prob --------------------------------------------------------------- *)
(* z = log2 / sqrt(1 - weight), observed through z^2 *)
Inductive zval := Zfin (z2 : Q) | Zinf | Znan.

Definition zsq (r w : Q) : zval :=
  let v := qsub z_one w in
  if qeq_b v 0 then (if qeq_b r 0 then Znan else Zinf)
  else if qlt_b 0 v then Zfin (qdiv (qsq r) v)
  else Znan.

(* p = 2.0 * norm.cdf(-|z|); phi_neg z2 = Phi(-sqrt z2) is the oracle *)
Definition p_of (phi_neg : Q -> Q) (z : zval) : option Q :=
  match z with
  | Zfin z2 => Some (qmul z_two (phi_neg z2))
  | Zinf => Some 0
  | Znan => None
  end.

(* ---- residuals ------------------------------------------------------------ *)
(* a candidate: (index label of the bin in the input table, the bin, its residual) *)
Definition cand := (tbin * Q)%type.
Definition c_idx (c : cand) : nat := fst (fst c).
Definition c_bin (c : cand) : bin := snd (fst c).
Definition c_res (c : cand) : Q := snd c.

(* CopyNumArray.residuals(segments) with a log2 column:
   zip(segments["log2"], self.iter_ranges_of(segments, "log2", mode="inner", keep_empty=True)),
   bins_lr - seg_lr, concatenated in segment order *)
Definition resid_segments (tb : list tbin) (segs : list seg) : list cand :=
  concat (map2 (fun s sb => map (fun ib => (ib, qsub (b_log2 (snd ib)) (s_log2 s))) sb)
               segs (select_bins QInner tb segs)).

(* by_chromosome(): groupby(sort=False) -- chromosomes in order of first appearance *)
Fixpoint chroms_in_order (seen : list string) (l : list string) : list string :=
  match l with
  | [] => []
  | c :: t => if existsb (String.eqb c) seen then chroms_in_order seen t
              else c :: chroms_in_order (c :: seen) t
  end.

Definition resid_chromosomes (tb : list tbin) : list cand :=
  concat (map (fun c =>
    let rows := filter (fun ib => String.eqb (b_chr (snd ib)) c) tb in
    let med := median (map (fun ib => b_log2 (snd ib)) rows) in
    map (fun ib => (ib, qsub (b_log2 (snd ib)) med)) rows)
    (chroms_in_order [] (map (fun ib => b_chr (snd ib)) tb))).

(* resid[~resid.index.duplicated()] *)
Fixpoint dedupe (seen : list nat) (l : list cand) : list cand :=
  match l with
  | [] => []
  | c :: t => if existsb (Nat.eqb (c_idx c)) seen then dedupe seen t
              else c :: dedupe (c_idx c :: seen) t
  end.

Fixpoint find_cand (i : nat) (l : list cand) : option cand :=
  match l with
  | [] => None
  | c :: t => if Nat.eqb (c_idx c) i then Some c else find_cand i t
  end.

(* the rows z_prob sees: residuals, duplicates dropped; table order when every bin is
   covered exactly once (column assignment aligns on the index), otherwise the order of
   the residuals (cnarr.data.loc[resid.index]); then the optional on-target filter *)
Definition candidates (bins : list bin) (segs : option (list seg)) (target_only : bool) : list cand :=
  let tb := tagged bins in
  let r := match segs with
           | Some (s :: t) => resid_segments tb (s :: t)
           | _ => resid_chromosomes tb
           end in
  let r' := dedupe [] r in
  let rows := if Nat.eqb (length r) (length r') && Nat.eqb (length r') (length bins)
              then concat (map (fun ib => match find_cand (fst ib) r' with Some c => [c] | None => [] end) tb)
              else r' in
  if target_only
  then filter (fun c => negb (existsb (String.eqb (b_gene (c_bin c))) ANTITARGET_ALIASES)) rows
  else rows.

Definition cand_z (c : cand) : zval := zsq (c_res c) (b_weight (c_bin c)).

(* hits = rows with adjusted p < alpha; output (bin index, residual, adjusted p) *)
Definition bintest_with (ps : list (option Q)) (cs : list cand) (alpha : Q) : list (nat * Q * Q) :=
  concat (map (fun cq =>
    match snd cq with
    | Some q => if qlt_b q alpha then [(c_idx (fst cq), c_res (fst cq), q)] else []
    | None => []
    end) (combine cs (bh_opt ps))).

Definition do_bintest (phi_neg : Q -> Q) (bins : list bin) (segs : option (list seg))
  (alpha : Q) (target_only : bool) : list (nat * Q * Q) :=
  let cs := candidates bins segs target_only in
  bintest_with (map (fun c => p_of phi_neg (cand_z c)) cs) cs alpha.

(* ---- the table do_bintest returns ------------------------------------------ *)
(* cnarr["log2"] = resid; cnarr["probes"] = 1; cnarr["p_bintest"] = z_prob(cnarr); cnarr[is_sig]:
   the input's columns in their order with log2 overwritten in place, then the two new columns
   (a bin table carries no probes column) *)
Definition bintest_columns (has_depth : bool) : list string :=
  ["chromosome"; "start"; "end"; "gene"; "log2"; "weight"]%string ++
  (if has_depth then ["depth"%string] else []) ++ ["probes"; "p_bintest"]%string.

Definition set_log2 (b : bin) (r : Q) : bin :=
  mkBin (b_chr b) (b_start b) (b_end b) (b_gene b) r (b_weight b) (b_depth b).

(* one output row: index label, the bin with its residual as log2, probes, adjusted p *)
Record hit_row := mkHitRow { h_idx : nat; h_bin : bin; h_probes : Z; h_p : Q }.

Definition bintest_table_with (ps : list (option Q)) (cs : list cand) (alpha : Q) : list hit_row :=
  concat (map (fun cq =>
    match snd cq with
    | Some q => if qlt_b q alpha
                then [mkHitRow (c_idx (fst cq)) (set_log2 (c_bin (fst cq)) (c_res (fst cq))) bt_probes q]
                else []
    | None => []
    end) (combine cs (bh_opt ps))).

Definition do_bintest_table (phi_neg : Q -> Q) (bins : list bin) (segs : option (list seg))
  (alpha : Q) (target_only : bool) : list hit_row :=
  let cs := candidates bins segs target_only in
  bintest_table_with (map (fun c => p_of phi_neg (cand_z c)) cs) cs alpha.
