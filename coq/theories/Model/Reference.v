(* Model of cnvlib/reference.py as it is NOW (property C05), at the granularity the property
   observes: tables of bins in (one per coverage file, as `read_cna` returns them, i.e. sorted),
   the table of the pooled reference out.

     do_reference / combine_probes / load_sample_block / bias_correct_logr (corrections off) /
     shift_sex_chroms / summarize_info            -> [pool]
     do_reference_flat / bed2probes / gary.add     -> [flat_reference]
     calculate_gc_lo / fasta_extract_regions       -> [gc_lo], [py_slice]
     the sexes dictionary of do_reference          -> [sexes_given], [sexes_inferred]

   Reused models: Center.center_all (cnary.center_all, autosomes, drop_low_coverage, the X/Y/PAR
   filters), Sex.expect_flat (cnary.expect_flat_log2), Descriptives.biweight_location,
   Chromsort.sort_regions (GenomicArray.sort).  The biweight midvariance is modelled here
   ([ref_bivar_sq], the square of what the code returns; guard `not w[mask].any()` of commit
   2c65616).  Numbers come from Gen/RefDefaults.v.  Executable, total; no proofs here.

   The matrices all_logr / all_depths (rows = flat pseudo-sample and samples, columns = bins) are
   kept as lists of rows; the per-bin consensus reads column i.  np.hstack of the target and the
   antitarget block becomes concatenation of the two lists of per-bin columns. *)
From CNV Require Import Base.Prelude Base.Str Base.QNum Gen.RefDefaults Model.Chromsort Model.Center Model.Sex.
From CNV Require Model.Descriptives.
Local Open Scope Q_scope.

(* ---- one coverage file --------------------------------------------------------------------- *)
(* s_depth: the values that enter all_depths: the depth column, or np.exp2(log2) (an oracle,
   supplied by the harness) when the file has none; b_depth of the bins says whether the column
   exists (drop_low_coverage looks at it). *)
Record sample := mkSample { s_id : string; s_bins : list bin; s_depth : list Q }.

(* ---- the sexes dictionary ------------------------------------------------------------------ *)
(* a Python dict built by successive assignments: the last binding of a key wins *)
Fixpoint dict_get (d : list (string * bool)) (k : string) : option bool :=
  match d with
  | [] => None
  | (k', v) :: t => match dict_get t k with
                    | Some r => Some r
                    | None => if String.eqb k k' then Some v else None
                    end
  end.

(* female_samples given: every target file's sample id is mapped to it *)
Definition sexes_given (female : bool) (targets : list sample) : list (string * bool) :=
  map (fun s => (s_id s, female)) targets.

(* infer_sexes: files whose guess is None (empty file, no chrX) are left out *)
Fixpoint infer_dict (ids : list string) (guess : list (option bool)) : list (string * bool) :=
  match ids, guess with
  | i :: ids', Some g :: guess' => (i, g) :: infer_dict ids' guess'
  | _ :: ids', None :: guess' => infer_dict ids' guess'
  | _, _ => []
  end.

(* female_samples is None: targets first, then every antitarget guess overrides / completes *)
Definition sexes_inferred (tids : list string) (tguess : list (option bool))
  (aids : list string) (aguess : list (option bool)) : list (string * bool) :=
  infer_dict tids tguess ++ infer_dict aids aguess.

(* `is_xx = sexes.get(sample_id)`; `if is_xx:` -- a missing sample counts as male *)
Definition sample_is_xx (sexes : list (string * bool)) (id : string) : bool :=
  match dict_get sexes id with Some true => true | _ => false end.

(* ---- sorted(filenames, key=core.fbase): stable, by code point ------------------------------- *)
Definition str_leb (a b : string) : bool :=
  match String.compare a b with Gt => false | _ => true end.
Definition sort_samples (l : list sample) : list sample :=
  stable_sort (fun a b => str_leb (s_id a) (s_id b)) l.

(* ---- bin identity ---------------------------------------------------------------------------- *)
Definition key := (string * Z * Z * string)%type.
Definition key_of (b : bin) : key := (b_chrom b, b_start b, b_end b, b_gene b).
Definition key_eqb (a b : key) : bool :=
  let '(c1, s1, e1, g1) := a in
  let '(c2, s2, e2, g2) := b in
  String.eqb c1 c2 && (s1 =? s2)%Z && (e1 =? e2)%Z && String.eqb g1 g2.
(* np.array_equal: same shape and same cells *)
Fixpoint keys_eqb (a b : list key) : bool :=
  match a, b with
  | [], [] => true
  | x :: a', y :: b' => key_eqb x y && keys_eqb a' b'
  | _, _ => false
  end.
Definition keys (t : list bin) : list key := map key_of t.

(* ---- shift_sex_chroms ------------------------------------------------------------------------- *)
(* expect_flat_log2 at one bin of table t (Sex.expect_flat is the map of this over t) *)
Definition flat_at (hap : bool) (build : option parb) (t : list bin) (b : bin) : Q :=
  let hit := if hap then chr_x_filter t build b || chr_y_filter t build b
             else chr_y_filter t None b in
  if hit then Gen.CenterDefaults.flat_sex_level else 0.

(* per bin of the FIRST file: (ref_flat_logr, is_chr_x, is_chr_y) *)
Definition sexrow := (Q * bool * bool)%type.
Definition sex_rows (hap : bool) (build : option parb) (first : list bin) : list sexrow :=
  map (fun b => (flat_at hap build first b, chr_x_filter first build b, chr_y_filter first build b)) first.

(* cnarr["log2"] += flat; female: Y := -1; male / unknown: X and Y += 1 *)
Definition shift_one (is_xx : bool) (r : sexrow) (v : Q) : Q :=
  let '(fl, xm, ym) := r in
  let v' := qadd v fl in
  if is_xx then (if ym then FEMALE_Y_LOG2 else v')
  else (if xm || ym then qadd v' MALE_SEX_SHIFT else v').

(* bias_correct_logr with the three corrections off: centre (median of the per-chromosome medians
   of the autosomal, optionally non-low, bins), then shift the sex chromosomes *)
Definition sample_logr (build : option parb) (sexes : list (string * bool)) (skip_low : bool)
  (rows : list sexrow) (s : sample) : list Q :=
  let centred := center_all median true skip_low build (s_bins s) in
  map (fun p => shift_one (sample_is_xx sexes (s_id s)) (fst p) (b_log2 (snd p)))
      (combine rows centred).

(* ---- load_sample_block -------------------------------------------------------------------------- *)
Inductive block :=
| BlkErr (msg : string)
| BlkOk (bins : list bin) (logr : list (list Q)) (depths : list (list Q)).

Definition load_block (hap : bool) (build : option parb) (sexes : list (string * bool))
  (skip_low : bool) (files : list sample) : block :=
  match sort_samples files with
  | [] => BlkErr "IndexError"
  | first :: rest =>
      match s_bins first with
      | [] =>
          (* empty first file: no other file of the block may have bins (fix aa65dea) *)
          if forallb (fun s => match s_bins s with [] => true | _ => false end) rest
          then BlkOk [] [] [] else BlkErr "RuntimeError"
      | _ =>
          if forallb (fun s => keys_eqb (keys (s_bins first)) (keys (s_bins s))) rest then
            let rows := sex_rows hap build (s_bins first) in
            BlkOk (s_bins first)
                  (expect_flat hap build (s_bins first)
                     :: map (sample_logr build sexes skip_low rows) (first :: rest))
                  (map s_depth (first :: rest))
          else BlkErr "RuntimeError"
      end
  end.

(* ---- summarize_info ------------------------------------------------------------------------------ *)
Definition column (m : list (list Q)) (i : nat) : list Q := map (fun r => nth i r 0) m.
Definition columns (m : list (list Q)) (n : nat) : list (list Q) := map (column m) (seq 0 n).

Definition opt0 (o : option Q) : Q := match o with Some x => x | None => 0 end.

(* descriptives.biweight_location through its decorator (C19's model) *)
Definition ref_biloc (col : list Q) : Q := opt0 (Descriptives.biweight_location col None).

(* descriptives.biweight_midvariance(a, initial=i), squared *)
Fixpoint qpow (x : Q) (n : nat) : Q :=
  match n with O => 1 | S k => qmul x (qpow x k) end.

Definition bivar_core_sq (c eps : Q) (a : list Q) (initial : Q) : Q :=
  let d := map (fun x => qsub x initial) a in
  let mad := median (map qabs d) in
  let scale := qmax2 (qmul c mad) eps in
  let dw := filter (fun p => qlt_b (qabs (snd p)) BIVAR_MASK_BOUND)
                   (map (fun di => (di, qdiv di scale)) d) in
  if forallb (fun p => qeq_b (snd p) 0) dw then qsq (qmul mad BIVAR_MAD_SCALE)
  else
    let n := qofnat (length dw) in
    let num := qmul n (qsum (map (fun p => qmul (qsq (fst p))
                                   (qpow (qsub 1 (qsq (snd p))) (Z.to_nat BIVAR_NUM_POW))) dw)) in
    let den := qsum (map (fun p => qmul (qsub 1 (qsq (snd p)))
                                        (qsub 1 (qmul BIVAR_DEN_COEF (qsq (snd p))))) dw) in
    qdiv num (qsq den).

(* the on_array(0) decorator: no value -> NaN (0 here, never reached), one value -> 0 *)
Definition ref_bivar_sq (col : list Q) (initial : Q) : Q :=
  match col with
  | [] => 0
  | [_] => qsq BIVAR_SINGLE
  | _ => bivar_core_sq BIVAR_C BIVAR_EPS col initial
  end.

Record refrow := mkRef {
  r_chrom : string; r_start : Z; r_end : Z; r_gene : string;
  r_log2 : Q; r_depth : Q; r_spread_sq : Q
}.
Definition ref_proj (r : refrow) : string * Z * Z := (r_chrom r, r_start r, r_end r).
Definition ref_key (r : refrow) : key := (r_chrom r, r_start r, r_end r, r_gene r).

(* one bin: its key, its all_logr column (flat first), its all_depths column *)
Definition bincol := (bin * list Q * list Q)%type.

Definition consensus (bc : bincol) : refrow :=
  let '(b, col, dcol) := bc in
  let loc := ref_biloc col in
  mkRef (b_chrom b) (b_start b) (b_end b) (b_gene b) loc (ref_biloc dcol) (ref_bivar_sq col loc).

Definition block_cols (bins : list bin) (logr depths : list (list Q)) : list bincol :=
  let n := length bins in
  combine (combine bins (columns logr n)) (columns depths n).

(* ---- combine_probes / do_reference (corrections off, no clustering) -------------------------------- *)
Inductive result :=
| RErr (msg : string)
| ROk (rows : list refrow).

Definition finish (cols : list bincol) : result :=
  match cols with
  | [] => RErr "ValueError"             (* np.apply_along_axis on a matrix without columns *)
  | _ => ROk (sort_regions ref_proj (map consensus cols))
  end.

Definition pool (hap : bool) (build : option parb) (sexes : list (string * bool))
  (targets antis : list sample) : result :=
  match antis with
  | [] =>
      match load_block hap build sexes true targets with
      | BlkErr m => RErr m
      | BlkOk tb tl td => finish (block_cols tb tl td)
      end
  | _ =>
      if negb (Nat.eqb (length targets) (length antis)) then RErr "ValueError"
      else
        match load_block hap build sexes true targets with
        | BlkErr m => RErr m
        | BlkOk tb tl td =>
            match load_block hap build sexes false antis with
            | BlkErr m => RErr m
            | BlkOk ab al ad => finish (block_cols tb tl td ++ block_cols ab al ad)
            end
        end
  end.

(* ---- do_reference_flat ----------------------------------------------------------------------------- *)
Definition bin_proj (b : bin) : string * Z * Z := (b_chrom b, b_start b, b_end b).

(* bed2probes reads (and sorts) each file; `add` concatenates and sorts when the other table has rows *)
Definition flat_table (targets antis : list bin) : list bin :=
  match antis with
  | [] => sort_regions bin_proj targets
  | _ => sort_regions bin_proj (sort_regions bin_proj targets ++ sort_regions bin_proj antis)
  end.

(* log2 = expect_flat_log2, depth = exp2(log2) (oracle), spread = 0 *)
Definition flat_reference (exp2 : Q -> Q) (hap : bool) (build : option parb)
  (targets antis : list bin) : list refrow :=
  let t := flat_table targets antis in
  map (fun b => let v := flat_at hap build t b in
                mkRef (b_chrom b) (b_start b) (b_end b) (b_gene b) v (exp2 v) 0) t.

(* ---- calculate_gc_lo / fasta_extract_regions -------------------------------------------------------- *)
Definition count_char (c : ascii) (s : list ascii) : Z :=
  Z.of_nat (length (filter (Ascii.eqb c) s)).

Definition gc_lo (s : list ascii) : Q * Q :=
  let cnt_at_lo := (count_char "a" s + count_char "t" s)%Z in
  let cnt_at_up := (count_char "A" s + count_char "T" s)%Z in
  let cnt_gc_lo := (count_char "g" s + count_char "c" s)%Z in
  let cnt_gc_up := (count_char "G" s + count_char "C" s)%Z in
  let tot := (cnt_gc_up + cnt_gc_lo + cnt_at_up + cnt_at_lo)%Z in
  if (tot =? 0)%Z then (0, 0)
  else (Qred (inject_Z (cnt_gc_lo + cnt_gc_up) / inject_Z tot),
        Qred (inject_Z (cnt_at_lo + cnt_gc_lo) / inject_Z tot)).

(* seq[start:end] for 0 <= start (Python clamps at the end of the sequence) *)
Definition py_slice {A} (s : list A) (start stop : Z) : list A :=
  firstn (Z.to_nat (stop - start)) (skipn (Z.to_nat start) s).

Definition bin_gc_lo (s : list ascii) (start stop : Z) : Q * Q := gc_lo (py_slice s start stop).

(* ---- the gc / rmask columns of the pooled reference (load_sample_block, combine_probes) ------------------- *)
(* fa: the FASTA as a function from a sequence name to its characters (None: no FASTA given);
   gc_first: the gc column of the block's first file by sample id, if that file has one.
   A block's column is None when the block's table has no such column.

       if fa_fname and (fix_rmask or fix_gc):  gc, rmask = get_fasta_stats(cnarr1, fa_fname)
                                               if fix_gc: ref_columns["gc"] = gc
                                               if fix_rmask: ref_columns["rmask"] = rmask
       elif "gc" in cnarr1 and fix_gc:         ref_columns["gc"] = cnarr1["gc"]                        *)
Definition fa_stats (seq_of : string -> list ascii) (bins : list bin) : list (Q * Q) :=
  map (fun b => bin_gc_lo (seq_of (b_chrom b)) (b_start b) (b_end b)) bins.

Definition block_gc (fa : option (string -> list ascii)) (fix_gc fix_rmask : bool)
  (gc_first : option (list Q)) (bins : list bin) : option (list Q) :=
  match fa with
  | Some seq_of =>
      if fix_rmask || fix_gc then (if fix_gc then Some (map fst (fa_stats seq_of bins)) else None)
      else (if fix_gc then gc_first else None)
  | None => if fix_gc then gc_first else None
  end.

Definition block_rmask (fa : option (string -> list ascii)) (fix_gc fix_rmask : bool) (bins : list bin)
  : option (list Q) :=
  match fa with
  | Some seq_of => if fix_rmask || fix_gc then (if fix_rmask then Some (map snd (fa_stats seq_of bins)) else None) else None
  | None => None
  end.

(* pd.concat of the target and the antitarget table: a column exists if either table has it, the rows of a table
   without it hold NaN (None) *)
Definition opt_col (n : nat) (c : option (list Q)) : list (option Q) :=
  match c with Some l => map Some l | None => repeat None n end.

Record gcrow := mkGc { g_bin : bin; g_gc : option Q; g_rmask : option Q }.

Definition gc_rows (bins : list bin) (g r : option (list Q)) : list gcrow :=
  map (fun p => mkGc (fst (fst p)) (snd (fst p)) (snd p))
      (combine (combine bins (opt_col (length bins) g)) (opt_col (length bins) r)).

Definition is_some_col (c : option (list Q)) : bool := match c with Some _ => true | None => false end.

(* combine_probes: the target block is loaded with fix_rmask = False, the antitarget block with the caller's flags;
   an antitarget block without bins (no files, or empty files) is not concatenated.
   Result: (has a gc column, has an rmask column, rows in genomic order). *)
Definition pool_gc (fa : option (string -> list ascii)) (do_gc do_rmask : bool)
  (tbins abins : list bin) (tgc agc : option (list Q)) : bool * bool * list gcrow :=
  let tg := block_gc fa do_gc false tgc tbins in
  let tr := block_rmask fa do_gc false tbins in
  let ag := block_gc fa do_gc do_rmask agc abins in
  let ar := block_rmask fa do_gc do_rmask abins in
  let srt := sort_regions (fun r => bin_proj (g_bin r)) in
  match abins with
  | [] => (is_some_col tg, is_some_col tr, srt (gc_rows tbins tg tr))
  | _ => (is_some_col tg || is_some_col ag, is_some_col tr || is_some_col ar,
          srt (gc_rows tbins tg tr ++ gc_rows abins ag ar))
  end.
