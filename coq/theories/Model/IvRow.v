(* Rows of one chromosome's interval table: (start, end, payload), 0-based
   half-open.  Accessors, the (start, end) ordering of
   `table.sort_values([chromosome, start, end])` as a stable insertion sort, the
   overlap predicate of the "outer" range query (property C07 covers the
   searchsorted machinery that computes it), and the running maximum
   (`Series.cummax`, `np.maximum.accumulate`). *)
From CNV Require Import Base.Prelude.

Section Rows.
Context {A : Type}.

Definition row : Type := (Z * Z * A)%type.
Definition lo (r : row) : Z := fst (fst r).
Definition hi (r : row) : Z := snd (fst r).
Definition pay (r : row) : A := snd r.

(* lexicographic (start, end) *)
Definition row_leb (a b : row) : bool :=
  (lo a <? lo b) || ((lo a =? lo b) && (hi a <=? hi b)).

(* stable: x is placed before the first y with x <= y *)
Fixpoint insert_row (x : row) (l : list row) : list row :=
  match l with
  | [] => [x]
  | y :: t => if row_leb x y then x :: y :: t else y :: insert_row x t
  end.

Fixpoint sort_rows (l : list row) : list row :=
  match l with
  | [] => []
  | x :: t => insert_row x (sort_rows t)
  end.

(* rows sharing at least one base with [qs, qe): what
   by_ranges(..., mode="outer") selects for one query *)
Definition overlaps (qs qe : Z) (r : row) : bool := (lo r <? qe) && (qs <? hi r).

End Rows.

(* np.maximum.accumulate / Series.cummax *)
Fixpoint cummax_from (m : Z) (l : list Z) : list Z :=
  match l with
  | [] => []
  | x :: t => let m' := Z.max m x in m' :: cummax_from m' t
  end.

Definition cummax (l : list Z) : list Z :=
  match l with
  | [] => []
  | x :: t => x :: cummax_from x t
  end.
