(* Model of skgenome/gary.py GenomicArray.by_arm for one chromosome's rows:
   margin = max(min_arm_bins, int(round(frac * n))); if n > 2*margin + 1 the
   candidate centromere is the FIRST maximum of start[j] - end[j-1] over
   j in [margin+1, n-margin); the chromosome is cut there iff that gap is
   >= min_gap_size.  Generic in the row type (rows carry more than coordinates).
   Constants come from Gen/SegDefaults.v (regenerated from /repo). *)
From CNV Require Import Base.Prelude Gen.SegDefaults.

(* round-half-even of a/b, b > 0 (Python's round on the exact quotient) *)
Definition round_he_div (a b : Z) : Z :=
  let q := a / b in
  let r := a mod b in
  if 2 * r <? b then q
  else if b <? 2 * r then q + 1
  else if Z.even q then q else q + 1.

(* int(round(frac * n)) in exact arithmetic *)
Definition round_share (n : Z) : Z := round_he_div (n * fst by_arm_frac) (snd by_arm_frac).

Definition arm_margin (n : Z) : Z := Z.max by_arm_min_arm_bins (round_share n).

(* what is known of the float result r of round(frac * n): it is an integer nearest
   to frac * n up to the tie, |r - frac*n| <= 1/2 *)
Definition round_contract (n r : Z) : Prop :=
  2 * Z.abs (snd by_arm_frac * r - fst by_arm_frac * n) <= snd by_arm_frac.
Definition round_contract_b (n r : Z) : bool :=
  2 * Z.abs (snd by_arm_frac * r - fst by_arm_frac * n) <=? snd by_arm_frac.

(* numpy argmax: index and value of the first maximum *)
Fixpoint argmax_from (best_i best_v i : Z) (l : list Z) : Z * Z :=
  match l with
  | [] => (best_i, best_v)
  | x :: t =>
      if best_v <? x then argmax_from i x (i + 1) t
      else argmax_from best_i best_v (i + 1) t
  end.

Definition argmax_first (l : list Z) : option (Z * Z) :=
  match l with
  | [] => None
  | x :: t => Some (argmax_from 0 x 1 t)
  end.

Section Arms.
Context {A : Type} (lo hi : A -> Z).

(* start[j] - end[j-1] for j = 1 .. n-1 (list index j-1) *)
Fixpoint gaps_of (l : list A) : list Z :=
  match l with
  | a :: ((b :: _) as t) => (lo b - hi a) :: gaps_of t
  | _ => []
  end.

(* by_arm with the rounded 10 % share r = int(round(0.1 * n)) supplied: that
   integer goes through float arithmetic and is float-sensitive when n = 5 (mod 10)
   (0.1 * n is not exactly k + 1/2), so it is an ORACLE with the contract
   round_contract (DESIGN section 2); arm_cut below instantiates it with the
   exact round-half-even, the two agree whenever n <> 5 (mod 10) and the margin
   is min_arm_bins for every n <= 504 whichever way a half is rounded. *)
Definition arm_margin_with (r : Z) : Z := Z.max by_arm_min_arm_bins r.

(* index of the first row of the q arm, if the chromosome is split *)
Definition arm_cut_with (r : Z) (l : list A) : option Z :=
  let n := Z.of_nat (length l) in
  let m := arm_margin_with r in
  if 2 * m + 1 <? n then
    match argmax_first (firstn (Z.to_nat (n - 2 * m - 1)) (skipn (Z.to_nat m) (gaps_of l))) with
    | Some (i, size) =>
        if by_arm_min_gap_size <=? size then Some (i + m + 1) else None
    | None => None
    end
  else None.

Definition arm_split_with (r : Z) (l : list A) : list (list A) :=
  match l with
  | [] => []
  | _ =>
      match arm_cut_with r l with
      | Some j => [firstn (Z.to_nat j) l; skipn (Z.to_nat j) l]
      | None => [l]
      end
  end.

Definition arm_cut (l : list A) : option Z :=
  arm_cut_with (round_share (Z.of_nat (length l))) l.

Definition arm_split (l : list A) : list (list A) :=
  arm_split_with (round_share (Z.of_nat (length l))) l.

End Arms.
