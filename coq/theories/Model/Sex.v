(* Model of the chromosomal-sex code of cnvlib/cnary.py: compare_sex_chromosomes, guess_xx,
   shift_xx, expect_flat_log2, and of commands.do_sex.  The contingency table of Mood's median
   test is computed here exactly; the G statistic scipy derives from that table
   (chi2_contingency, log-likelihood, Yates) is an oracle [gstat : table -> Q].
   Executable, total; constants from Gen/CenterDefaults.v.  No proofs here. *)
From CNV Require Import Base.Prelude Base.Str Base.QNum Gen.CenterDefaults Model.Center.
From CNV Require Model.Descriptives.
Local Open Scope Q_scope.

(* ---- descriptives.weighted_median: C19's model (Model/Descriptives.v: stable argsort, the
   majority-weight shortcut, the tie test with its rounding tolerance).  None (NaN: empty input)
   cannot arise below: every sample handed to it is non-empty. ------------------------------ *)
Definition wmed (a w : list Q) : Q :=
  match Descriptives.weighted_median a w with Some v => v | None => 0 end.

(* ---- Mood's median test: the contingency table (ties="ignore") -------------- *)
Definition mtable := (Z * Z * Z * Z)%type.     (* above: sample 1, sample 2; below: sample 1, sample 2 *)
Definition count_if (p : Q -> bool) (l : list Q) : Z := Z.of_nat (length (filter p l)).
Definition mood_table (s1 s2 : list Q) : mtable :=
  let gm := median (s1 ++ s2) in
  (count_if (fun x => qlt_b gm x) s1, count_if (fun x => qlt_b gm x) s2,
   count_if (fun x => qlt_b x gm) s1, count_if (fun x => qlt_b x gm) s2).
(* scipy raises ValueError unless both row sums are non-zero and no column is all zero *)
Definition mood_valid (t : mtable) : bool :=
  let '(a1, a2, b1, b2) := t in
  negb (a1 + a2 =? 0)%Z && negb (b1 + b2 =? 0)%Z &&
  negb ((a1 =? 0)%Z && (b1 =? 0)%Z) && negb ((a2 =? 0)%Z && (b2 =? 0)%Z).
Definition table_has_zero (t : mtable) : bool :=
  let '(a1, a2, b1, b2) := t in (a1 =? 0)%Z || (a2 =? 0)%Z || (b1 =? 0)%Z || (b2 =? 0)%Z.

(* the `stat` of compare_to_auto: None for a ValueError or for (stat == 0 and 0 in cont) *)
Definition mood_stat (gstat : mtable -> Q) (s1 s2 : list Q) : option Q :=
  match s1, s2 with
  | [], _ => None
  | _, [] => None
  | _, _ =>
      let t := mood_table s1 s2 in
      if mood_valid t then
        let s := gstat t in
        if qeq_b s 0 && table_has_zero t then None else Some s
      else None
  end.

(* ---- compare_to_auto / compare_chrom ---------------------------------------- *)
Definition med_diff (auto_l : list Q) (auto_w : option (list Q)) (vals : list Q) (w : option (list Q)) : Q :=
  match auto_w, w with
  | Some aw, Some vw => qabs (qsub (wmed auto_l aw) (wmed vals vw))
  | _, _ => qabs (qsub (median auto_l) (median vals))
  end.

(* the "maleness" ratio of one chromosome from the two test results and the two median differences *)
Definition lr_of (female_stat male_stat : option Q) (f_diff m_diff : Q) : Q :=
  match female_stat, male_stat with
  | Some fs, Some ms => qdiv fs (qmax2 ms lr_denominator_floor)
  | _, _ => qdiv f_diff (qmax2 m_diff lr_denominator_floor)
  end.

Definition male_lr (gstat : mtable -> Q) (auto_l : list Q) (auto_w : option (list Q))
  (vals : list Q) (w : option (list Q)) (female_shift male_shift : Q) : Q :=
  let fv := map (fun x => qadd x female_shift) vals in
  let mv := map (fun x => qadd x male_shift) vals in
  lr_of (mood_stat gstat auto_l fv) (mood_stat gstat auto_l mv)
        (med_diff auto_l auto_w fv w) (med_diff auto_l auto_w mv w).

(* combined score (chrY only when it has bins) and the decision *)
Definition score_of (x_lr : Q) (y_lr : option Q) : Q :=
  match y_lr with Some y => qmul x_lr y | None => x_lr end.
Definition is_xy_of (score : Q) : bool := qlt_b score_cut score.

(* ---- the table-level function ----------------------------------------------- *)
Definition has_weight (t : list bin) : bool :=
  match t with b :: _ => match b_weight b with Some _ => true | None => false end | [] => false end.
Definition weights_of (t : list bin) : list Q :=
  map (fun b => match b_weight b with Some w => w | None => 0 end) t.
Definition opt_weights (use : bool) (t : list bin) : option (list Q) :=
  if use then Some (weights_of t) else None.

(* segmetrics.segment_mean: weighted average when a weight column with a non-zero entry exists *)
Definition segment_mean (use : bool) (t : list bin) : option Q :=
  match t with
  | [] => None
  | _ => let l := map b_log2 t in
         let w := weights_of t in
         if use && existsb (fun x => negb (qeq_b x 0)) w then Some (wmean l w) else Some (qmean l)
  end.

Record sexstats := mkStats {
  s_score : Q;
  s_x_lr : Q;
  s_y_lr : option Q;        (* None: no chrY bins (NaN in the code) *)
  s_x_ratio : Q;
  s_y_ratio : option Q      (* None: no chrY bins (NaN in the code) *)
}.

Definition x_shifts (hap : bool) : Q * Q :=
  if hap then (x_shift_female_hapref, x_shift_male_hapref) else (x_shift_female_dipref, x_shift_male_dipref).

(* compare_sex_chromosomes(is_haploid_x_reference, diploid_parx_genome) with skip_low=False.
   None: empty table or no chrX bins (the code returns (None, {})). *)
Definition compare_sex (gstat : mtable -> Q) (hap : bool) (build : option parb) (t : list bin)
  : option (bool * sexstats) :=
  match t with
  | [] => None
  | _ =>
    let chrx := filter (chr_x_filter t build) t in
    match chrx with
    | [] => None
    | _ =>
      let auto := autosomes t build in
      let use := has_weight t in
      let auto_l := map b_log2 auto in
      let auto_w := opt_weights use auto in
      let '(fx, mx) := x_shifts hap in
      let x_lr := male_lr gstat auto_l auto_w (map b_log2 chrx) (opt_weights use chrx) fx mx in
      let chry := filter (chr_y_filter t build) t in
      let y_lr := match chry with
                  | [] => None
                  | _ => Some (male_lr gstat auto_l auto_w (map b_log2 chry) (opt_weights use chry)
                                 y_shift_female y_shift_male)
                  end in
      let score := score_of x_lr y_lr in
      let am := match segment_mean use auto with Some m => m | None => 0 end in
      let xm := match segment_mean use chrx with Some m => m | None => 0 end in
      Some (is_xy_of score,
            mkStats score x_lr y_lr (qsub xm am)
                    (match segment_mean use chry with Some m => Some (qsub m am) | None => None end))
    end
  end.

Definition sex_decision gstat hap build t : option bool :=
  match compare_sex gstat hap build t with Some (is_xy, _) => Some is_xy | None => None end.

(* guess_xx: None stays None, otherwise ~is_xy *)
Definition guess_xx gstat hap build t : option bool :=
  match sex_decision gstat hap build t with Some is_xy => Some (negb is_xy) | None => None end.

(* ---- shift_xx (is_xx already known or guessed; None = guess_xx returned None).  The bins moved are
        those of chr_x_filter(diploid_parx_genome): chrX without PAR1X/PAR2X when a build is given (fix dff7a3e) ---- *)
Definition shift_xx (hap : bool) (is_xx : option bool) (build : option parb) (t : list bin) : list bin :=
  let xx := match is_xx with Some true => true | _ => false end in
  let on_x (c : Q) := map (fun b => if chr_x_filter t build b then add_log2 c b else b) t in
  if xx && hap then on_x (qneg shift_xx_down)
  else if negb xx && negb hap then on_x shift_xx_up
  else t.

(* ---- expect_flat_log2 (is_haploid_x_reference given) ------------------------- *)
Definition expect_flat (hap : bool) (build : option parb) (t : list bin) : list Q :=
  map (fun b =>
         let hit := if hap then chr_x_filter t build b || chr_y_filter t build b
                    else chr_y_filter t None b in
         if hit then flat_sex_level else 0) t.

(* is_haploid_x_reference=None: `not self.guess_xx(diploid_parx_genome=..., verbose=False)` -- the
   guess runs with the default (diploid-reference) shifts; "no chrX" (None) reads as haploid *)
Definition expect_flat_guess gstat (build : option parb) (t : list bin) : list Q :=
  expect_flat (match guess_xx gstat false build t with Some xx => negb xx | None => true end) build t.

(* ---- one row of commands.do_sex: (sex, X_logratio, Y_logratio) before formatting;
        the outer None of the ratios is "NA", the inner None (Y) is NaN -------------- *)
Definition do_sex_row gstat hap build t : string * option (Q * option Q) :=
  match compare_sex gstat hap build t with
  | Some (is_xy, st) => (if is_xy then sex_label_male else sex_label_female, Some (s_x_ratio st, s_y_ratio st))
  | None => (sex_label_female, None)
  end.

(* ---- commands.do_sex, the whole table: one row per input table in the order given; the `sample` column is the
        name the caller's table carries (meta["filename"] or the sample id); columns as named in the source ---- *)
Definition do_sex_table gstat hap build (inputs : list (string * list bin))
  : list (string * (string * option (Q * option Q))) :=
  map (fun nt => (fst nt, do_sex_row gstat hap build (snd nt))) inputs.

Definition do_sex_header : list string := do_sex_columns.

(* strsign: "+%.3g" for a positive number, "%.3g" otherwise *)
Definition strsign_plus (q : Q) : bool := qlt_b 0 q.

(* ---- additions for the bounded-noise theorems C15_sex_bounded_noise and friends -----------------------
   the centre compare_to_auto takes of a set of bins: the weighted median when the table has a weight column,
   else the plain median *)
Definition sex_centre (t : list bin) (sub : list bin) : Q :=
  if has_weight t then wmed (map b_log2 sub) (weights_of sub) else median (map b_log2 sub).

(* the contract on the two statistics of one chromosome, as a test: when both median tests give a statistic,
   both are non-negative, and the hypothesis with the SMALLER difference of medians (as compare_to_auto computes
   it) has the smaller statistic -- not larger when that is the female hypothesis (the two tests can see the same
   table: a female sample's chrY lies below the autosomes under either shift); strictly smaller when it is the male
   hypothesis, and then the female-hypothesis statistic also clears the floor of the denominator.  Vacuous (true) when
   either test gives no statistic. *)
Definition stat_contract_b (gstat : mtable -> Q) (auto_l : list Q) (auto_w : option (list Q))
  (vals : list Q) (w : option (list Q)) (female_shift male_shift : Q) : bool :=
  let fv := map (fun x => qadd x female_shift) vals in
  let mv := map (fun x => qadd x male_shift) vals in
  match mood_stat gstat auto_l fv, mood_stat gstat auto_l mv with
  | Some f, Some m =>
      let fd := med_diff auto_l auto_w fv w in
      let md := med_diff auto_l auto_w mv w in
      qle_b 0 f && qle_b 0 m && (negb (qlt_b fd md) || qle_b f m) &&
      (negb (qlt_b md fd) || (qlt_b m f && qlt_b lr_denominator_floor f))
  | _, _ => true
  end.

(* 0: no statistic for at least one hypothesis (the difference of medians decides); 1: both statistics *)
Definition stat_route (gstat : mtable -> Q) (auto_l vals : list Q) (female_shift male_shift : Q) : Z :=
  match mood_stat gstat auto_l (map (fun x => qadd x female_shift) vals),
        mood_stat gstat auto_l (map (fun x => qadd x male_shift) vals) with
  | Some _, Some _ => 1%Z
  | _, _ => 0%Z
  end.

(* both at once (one evaluation of the two tests): what the entry c15_noise_check runs; equal to the pair above
   (Proofs/SexNoise.v stat_contract_route_eq) *)
Definition stat_contract_route (gstat : mtable -> Q) (auto_l : list Q) (auto_w : option (list Q))
  (vals : list Q) (w : option (list Q)) (female_shift male_shift : Q) : bool * Z :=
  let fv := map (fun x => qadd x female_shift) vals in
  let mv := map (fun x => qadd x male_shift) vals in
  match mood_stat gstat auto_l fv, mood_stat gstat auto_l mv with
  | Some f, Some m =>
      let fd := med_diff auto_l auto_w fv w in
      let md := med_diff auto_l auto_w mv w in
      (qle_b 0 f && qle_b 0 m && (negb (qlt_b fd md) || qle_b f m) &&
       (negb (qlt_b md fd) || (qlt_b m f && qlt_b lr_denominator_floor f)), 1%Z)
  | _, _ => (true, 0%Z)
  end.
Definition sex_contract_route_x gstat (hap : bool) (build : option parb) (t : list bin) : bool * Z :=
  let chrx := filter (chr_x_filter t build) t in
  let auto := autosomes t build in
  let use := has_weight t in
  stat_contract_route gstat (map b_log2 auto) (opt_weights use auto) (map b_log2 chrx) (opt_weights use chrx)
                      (fst (x_shifts hap)) (snd (x_shifts hap)).
Definition sex_contract_route_y gstat (build : option parb) (t : list bin) : bool * Z :=
  let chry := filter (chr_y_filter t build) t in
  let auto := autosomes t build in
  let use := has_weight t in
  stat_contract_route gstat (map b_log2 auto) (opt_weights use auto) (map b_log2 chry) (opt_weights use chry)
                      y_shift_female y_shift_male.

Definition sex_contract_x_b gstat (hap : bool) (build : option parb) (t : list bin) : bool :=
  let chrx := filter (chr_x_filter t build) t in
  let auto := autosomes t build in
  let use := has_weight t in
  stat_contract_b gstat (map b_log2 auto) (opt_weights use auto) (map b_log2 chrx) (opt_weights use chrx)
                  (fst (x_shifts hap)) (snd (x_shifts hap)).
Definition sex_contract_y_b gstat (build : option parb) (t : list bin) : bool :=
  let chry := filter (chr_y_filter t build) t in
  let auto := autosomes t build in
  let use := has_weight t in
  stat_contract_b gstat (map b_log2 auto) (opt_weights use auto) (map b_log2 chry) (opt_weights use chry)
                  y_shift_female y_shift_male.
Definition sex_route_x gstat (hap : bool) (build : option parb) (t : list bin) : Z :=
  stat_route gstat (map b_log2 (autosomes t build)) (map b_log2 (filter (chr_x_filter t build) t))
             (fst (x_shifts hap)) (snd (x_shifts hap)).
Definition sex_route_y gstat (build : option parb) (t : list bin) : Z :=
  stat_route gstat (map b_log2 (autosomes t build)) (map b_log2 (filter (chr_y_filter t build) t))
             y_shift_female y_shift_male.
