(* Hand-written matchers equivalent to the anchored-at-start regexes of
   skgenome/tabio/__init__.py `format_patterns` and skgenome/rangelabel.py
   `re_label`, and the decision order of `sniff_region_format`.

   A line is given as its tab-separated fields (list string, no newline).
   The regex sources these matchers were written for are the generated
   constants Gen.Formats.pat_* / pat_label; Props/C08.v states the equality
   (C08_sniff_sources), so a changed pattern breaks that theorem.

     text     \w+:\d*-\d*.*
     tab      chromosome \t start \t end
     interval \w+ \t \d+ \t \d+ \t [.+-] \t \S+$
     refflat  \S+ \t \S+ \t \w+ \t [+-] \t \d+ (x5) \t (\d+,)+ \t (\d+,)+$
     gff      \w+ \t \S+ \t \w+ \t \d+ \t \d+ \t \S+ \t [.?+-] \t [012.] \t .*
     bed      \S+ \t \d+ \t \d+
     label    optional group \w [\w.]* , ':' , optional \d+ , '-' , optional \d+ ,
              \s* , optional \S+        (the exact source is Gen.Formats.pat_label)

   None of the character classes contains a tab, ':' or '-' where the next
   literal is that character, so greedy matching never has to backtrack and
   each tab-joined sub-pattern is matched against exactly one field (ASCII
   classes; Python's Unicode \w \d \s agree on ASCII input).  No proofs here. *)
From CNV Require Import Base.Prelude Base.Str Model.Decimal.
From CNV Require Gen.Formats.

(* Python \s on ASCII: \t \n \v \f \r, 0x1c-0x1f, space *)
Definition is_space (c : ascii) : bool :=
  let n := nat_of_ascii c in
  ((9 <=? n)%nat && (n <=? 13)%nat) || ((28 <=? n)%nat && (n <=? 32)%nat).
Definition is_nonspace (c : ascii) : bool := negb (is_space c).
Definition is_name_char (c : ascii) : bool := is_word c || Ascii.eqb c "."%char.

Fixpoint span (p : ascii -> bool) (cs : list ascii) : list ascii * list ascii :=
  match cs with
  | c :: t => if p c then let (a, b) := span p t in (c :: a, b) else ([], cs)
  | [] => ([], [])
  end.

(* whole field in class+, i.e. non-empty and every character in the class *)
Definition all_in (p : ascii -> bool) (s : string) : bool :=
  match chars s with [] => false | cs => forallb p cs end.

Definition one_of (set : string) (s : string) : bool :=
  match chars s with
  | [c] => existsb (Ascii.eqb c) (chars set)
  | _ => false
  end.

Definition starts_digit (s : string) : bool :=
  match chars s with c :: _ => is_digit c | [] => false end.

(* (\d+,)+ on a whole field *)
Fixpoint digit_groups_aux (cs : list ascii) (indigits : bool) : bool :=
  match cs with
  | [] => false
  | c :: t =>
      if is_digit c then digit_groups_aux t true
      else if Ascii.eqb c ","%char then
        indigits && (match t with [] => true | _ => digit_groups_aux t false end)
      else false
  end.
Definition digit_groups (s : string) : bool := digit_groups_aux (chars s) false.

Definition fld (n : nat) (f : list string) : string := nth n f EmptyString.

(* ---- format_patterns[...].match(line) ----------------------------------- *)

Definition m_text (f : list string) : bool :=
  let (w, r) := span is_word (chars (fld 0 f)) in
  match w, r with
  | _ :: _, c :: r2 =>
      Ascii.eqb c ":"%char &&
      (let (_, r3) := span is_digit r2 in
       match r3 with d :: _ => Ascii.eqb d "-"%char | [] => false end)
  | _, _ => false
  end.

Definition m_tab (f : list string) : bool :=
  match f with
  | a :: b :: c :: _ =>
      String.eqb a "chromosome" && String.eqb b "start" && str_prefix "end" c
  | _ => false
  end.

Definition m_interval (f : list string) : bool :=
  match f with
  | [c; s; e; strand; gene] =>
      all_in is_word c && all_in is_digit s && all_in is_digit e
      && one_of ".+-" strand && all_in is_nonspace gene
  | _ => false
  end.

Definition m_refflat (f : list string) : bool :=
  match f with
  | [a; b; c; d; e1; e2; e3; e4; e5; g1; g2] =>
      all_in is_nonspace a && all_in is_nonspace b && all_in is_word c && one_of "+-" d
      && all_in is_digit e1 && all_in is_digit e2 && all_in is_digit e3
      && all_in is_digit e4 && all_in is_digit e5 && digit_groups g1 && digit_groups g2
  | _ => false
  end.

Definition m_gff (f : list string) : bool :=
  match f with
  | a :: b :: c :: d :: e :: g :: h :: i :: _ :: _ =>
      all_in is_word a && all_in is_nonspace b && all_in is_word c
      && all_in is_digit d && all_in is_digit e && all_in is_nonspace g
      && one_of ".?+-" h && one_of "012." i
  | _ => false
  end.

Definition m_bed (f : list string) : bool :=
  match f with
  | a :: b :: c :: _ => all_in is_nonspace a && all_in is_digit b && starts_digit c
  | _ => false
  end.

Definition m_named (name : string) (f : list string) : bool :=
  if String.eqb name "text" then m_text f
  else if String.eqb name "tab" then m_tab f
  else if String.eqb name "interval" then m_interval f
  else if String.eqb name "refflat" then m_refflat f
  else if String.eqb name "gff" then m_gff f
  else if String.eqb name "bed" then m_bed f
  else false.

(* ---- sniff_region_format -------------------------------------------------- *)

Inductive verdict := Skip | Fmt (name : string) | Unrecognized.

Definition blank_line (f : list string) : bool :=
  forallb (fun s => forallb is_space (chars s)) f.

(* the filename-extension hint: ext.lstrip('.')[1:] if that is a key of format_patterns *)
Definition hint_ok (h : string) : bool := mem_string h Gen.Formats.pattern_order.

Definition sniff_line (hint : option string) (f : list string) : verdict :=
  let f0 := fld 0 f in
  if blank_line f then Skip
  else if str_prefix "track" f0 || str_prefix "browser " f0 then Skip
  else if match hint with Some h => hint_ok h && m_named h f | None => false end
       then match hint with Some h => Fmt h | None => Skip end
  else if str_prefix "##gff-version" f0 || m_gff f then Fmt "gff"
  else if str_prefix "##fileformat=VCF" f0
          || (String.eqb f0 "#CHROM" && String.eqb (fld 1 f) "POS" && str_prefix "ID" (fld 2 f))
       then Fmt "vcf"
  else if str_prefix "#" f0 then Skip
  else if m_text f then Fmt "text"
  else if m_tab f then Fmt "tab"
  else if str_prefix "@" f0 || m_interval f then Fmt "interval"
  else if m_refflat f then Fmt "refflat"
  else if m_bed f then Fmt "bed"
  else Unrecognized.

(* first decisive line; None = nothing but skipped lines (blank file) *)
Fixpoint sniff_lines (hint : option string) (lines : list (list string)) : option verdict :=
  match lines with
  | [] => None
  | f :: t =>
      match sniff_line hint f with
      | Skip => sniff_lines hint t
      | v => Some v
      end
  end.

(* ---- re_label.match(text) -------------------------------------------------- *)

(* groups (chromosome, start, end, gene) of re_label, as from_label returns them
   with keep_gene=True: start already shifted by the generated offset of
   from_label (int(start) - 1), missing groups None, gene "" when absent. *)
Definition digits_opt (ds : list ascii) : option (option Z) :=
  match ds with
  | [] => Some None
  | _ => match parse_Z (unchars ds) with Some z => Some (Some z) | None => None end
  end.

Definition parse_label (text : string) : option (option string * option Z * option Z * string) :=
  let cs := chars text in
  let '(name, r1) :=
    match cs with
    | c :: _ => if is_word c then span is_name_char cs else ([], cs)
    | [] => ([], [])
    end in
  match r1 with
  | c1 :: r2 =>
      if Ascii.eqb c1 ":"%char then
        let '(d1, r3) := span is_digit r2 in
        match r3 with
        | c2 :: r4 =>
            if Ascii.eqb c2 "-"%char then
              let '(d2, r5) := span is_digit r4 in
              let '(_, r6) := span is_space r5 in
              let '(gene, _) := span is_nonspace r6 in
              match digits_opt d1, digits_opt d2 with
              | Some st, Some en =>
                  Some (match name with [] => None | _ => Some (unchars name) end,
                        option_map (fun z => z + Gen.Formats.off_from_label) st,
                        en, unchars gene)
              | _, _ => None
              end
            else None
        | [] => None
        end
      else None
  | [] => None
  end.
