(* Model of cnvlib/coverage.py (property C09): both depth algorithms of
   `coverage`, at the granularity "reads of a BAM + lines of a BED in, table rows
   out".

   A read is (contig, flag, mapq, pos, cigar); the cigar is a list of (op, len)
   with the BAM op codes 0=M 1=I 2=D 3=N 4=S 5=H 6=P 7== 8=X.

   --count  (region_depth_count): for every fetched read that passes
   filter_read, `read.positions` lists the reference positions of the M/=/X
   blocks; the positions inside [start, end) are counted.  Reads that are not
   fetched have no position inside the bin, so the model sums over all reads.

   pileup   (samtools bedcov through pysam): measured in this build, a read that
   passes samtools' default flag filter (UNMAP, SECONDARY, QCFAIL, DUP) and
   `-Q` covers every reference position of its span [pos, pos + reflen),
   *including* deleted (D) and skipped (N) positions.  `-Q` is only passed when
   min_mapq > 0.

   Outside the model (exercised by the harness, not proved): samtools' pileup
   engine itself, pysam.fetch, the process pool, the temporary chunk files, the
   row order produced by tabio's sort in the --count path. *)
From CNV Require Import Base.Prelude Base.Str Gen.Params Gen.CoverageDefaults.

Definition block := (Z * Z)%type.

Record read := mkRead {
  r_contig : string;
  r_flag : Z;
  r_mapq : Z;
  r_pos : Z;
  r_cigar : list (Z * Z)
}.

Definition op_aligned (op : Z) : bool := (op =? 0) || (op =? 7) || (op =? 8).
Definition op_refonly (op : Z) : bool := (op =? 2) || (op =? 3).

(* pysam get_reference_positions, as half-open blocks *)
Fixpoint blocks_of_cigar (pos : Z) (ops : list (Z * Z)) : list block :=
  match ops with
  | [] => []
  | (op, n) :: t =>
      if op_aligned op then (pos, pos + n) :: blocks_of_cigar (pos + n) t
      else if op_refonly op then blocks_of_cigar (pos + n) t
      else blocks_of_cigar pos t
  end.

Fixpoint ref_len (ops : list (Z * Z)) : Z :=
  match ops with
  | [] => 0
  | (op, n) :: t => if op_aligned op || op_refonly op then n + ref_len t else ref_len t
  end.

Definition read_blocks (r : read) : list block := blocks_of_cigar (r_pos r) (r_cigar r).
Definition read_span (r : read) : block := (r_pos r, r_pos r + ref_len (r_cigar r)).

(* is_unmapped 0x4, is_secondary 0x100, is_qcfail 0x200, is_duplicate 0x400 *)
Definition flag_excluded (f : Z) : bool :=
  negb (Z.land f 4 =? 0) || negb (Z.land f 256 =? 0)
  || negb (Z.land f 512 =? 0) || negb (Z.land f 1024 =? 0).

Definition counted (cut : Z) (r : read) : bool :=
  negb (flag_excluded (r_flag r)) && (cut <=? r_mapq r).

(* bedcov: `-Q min_mapq` only when min_mapq > 0, samtools' own default is 0 *)
Definition pileup_cut (cut : Z) : Z :=
  if BEDCOV_MAPQ_OPTION_CUT <? cut then cut else 0.

Definition on_contig (c : string) (r : read) : bool := String.eqb c (r_contig r).

(* number of integers in [lo, hi) and in the block *)
Definition ovl (lo hi : Z) (b : block) : Z :=
  Z.max 0 (Z.min hi (snd b) - Z.max lo (fst b)).

Definition read_bases_count (lo hi : Z) (r : read) : Z :=
  sumZ (map (ovl lo hi) (read_blocks r)).

Definition read_bases_pileup (lo hi : Z) (r : read) : Z := ovl lo hi (read_span r).

Definition bases_count (cut : Z) (c : string) (lo hi : Z) (reads : list read) : Z :=
  sumZ (map (read_bases_count lo hi)
            (filter (fun r => on_contig c r && counted cut r) reads)).

Definition bases_pileup (cut : Z) (c : string) (lo hi : Z) (reads : list read) : Z :=
  sumZ (map (read_bases_pileup lo hi)
            (filter (fun r => on_contig c r && counted (pileup_cut cut) r) reads)).

Definition ratio (bases span : Z) : Q := Qred (inject_Z bases / inject_Z span).

(* depth = bases / (end - start) if end > start else 0 *)
Definition count_depth (bases lo hi : Z) : Q :=
  if lo <? hi then ratio bases (hi - lo) else COUNT_ZERO_DEPTH.

(* ok_idx = spans > 0 ; depth = 0.0 ; depth[ok] = basecount / spans *)
Definition pileup_depth (bases lo hi : Z) : Q :=
  if PILEUP_SPAN_CUT <? hi - lo then ratio bases (hi - lo) else PILEUP_ZERO_DEPTH.

(* a BED line: chromosome, start, end, remaining columns (none for 3 columns) *)
Definition bedline := (string * Z * Z * list string)%type.

Definition bin_name (rest : list string) : string :=
  match rest with [] => MISSING_GENE_NAME | g :: _ => g end.

(* both algorithms keep the 4th column verbatim (bedcov's table is read with
   dtype str and keep_default_na=False since /repo 81315b3; read_bed keeps the
   field as text); a 3-column line gets the placeholder *)

Inductive algo := Count | Pileup.

(* output row: chromosome, start, end, gene, depth, log2 *)
Definition row := (string * Z * Z * string * Q * Q)%type.

Section WithLog2.
Variable log2o : Q -> Q.

(* math.log(depth, 2) if depth else NULL_LOG2_COVERAGE *)
Definition count_log2 (d : Q) : Q :=
  if Qeq_bool d 0 then NULL_LOG2_COVERAGE else log2o d.

(* log2 = NULL ; log2[depth > 0] = np.log2(depth) *)
Definition pileup_log2 (d : Q) : Q :=
  if Qle_bool d (inject_Z PILEUP_DEPTH_CUT) then NULL_LOG2_COVERAGE else log2o d.

Definition row_of (alg : algo) (cut : Z) (reads : list read) (b : bedline) : row :=
  let '(c, lo, hi, rest) := b in
  match alg with
  | Count =>
      let d := count_depth (bases_count cut c lo hi reads) lo hi in
      (c, lo, hi, bin_name rest, d, count_log2 d)
  | Pileup =>
      let d := pileup_depth (bases_pileup cut c lo hi reads) lo hi in
      (c, lo, hi, bin_name rest, d, pileup_log2 d)
  end.

Definition coverage (alg : algo) (cut : Z) (reads : list read) (bins : list bedline) : list row :=
  map (row_of alg cut reads) bins.

(* to_chunks: consecutive pieces of k lines, the last one possibly shorter *)
Fixpoint chunks_fuel {A} (fuel k : nat) (l : list A) : list (list A) :=
  match fuel with
  | O => []
  | S f => match l with
           | [] => []
           | _ => firstn k l :: chunks_fuel f k (skipn k l)
           end
  end.

Definition chunks {A} (k : nat) (l : list A) : list (list A) := chunks_fuel (length l) k l.

(* pool.map over the chunks, results concatenated in order *)
Definition coverage_split (alg : algo) (cut : Z) (reads : list read) (parts : list (list bedline)) : list row :=
  concat (map (coverage alg cut reads) parts).

Definition coverage_chunks (k : nat) (alg : algo) (cut : Z) (reads : list read) (bins : list bedline) : list row :=
  coverage_split alg cut reads (chunks k bins).

End WithLog2.
