(* Model of cnvlib/coverage.py (property C09): both depth algorithms of
   `coverage`, at the granularity "reads of a BAM + lines of a BED in, table rows
   out".

   A read is (contig, flag, mapq, pos, cigar); the cigar is a list of (op, len)
   with the BAM op codes 0=M 1=I 2=D 3=N 4=S 5=H 6=P 7== 8=X.

   --count  (region_depth_count): for every fetched read that passes
   filter_read, `read.positions` lists the reference positions of the M/=/X
   blocks; the positions inside [start, end) are counted.  Reads that are not
   fetched have no position inside the bin, so the model sums over all reads.

   pileup   (samtools bedcov through pysam): measured in this build, a read that
   passes samtools' default flag filter (UNMAP, SECONDARY, QCFAIL, DUP) and
   `-Q` covers every reference position of its span [pos, pos + reflen),
   *including* deleted (D) and skipped (N) positions.  `-Q` is only passed when
   min_mapq > 0.

   Outside the model (exercised by the harness, not proved): samtools' pileup
   engine itself, pysam.fetch, the process pool.  The second half of this file
   models the text layer of the pileup path (detect_bedcov_columns, the table read
   from samtools' text, the table assembly), parallel.to_chunks on lines, and the
   row order of the --count table (tabio sort + groupby on the chromosome name). *)
From CNV Require Import Base.Prelude Base.Str Gen.Params Gen.CoverageDefaults.
From CNV Require Import Model.Decimal Model.Chromsort.

Definition block := (Z * Z)%type.

Record read := mkRead {
  r_contig : string;
  r_flag : Z;
  r_mapq : Z;
  r_pos : Z;
  r_cigar : list (Z * Z)
}.

Definition op_aligned (op : Z) : bool := (op =? 0) || (op =? 7) || (op =? 8).
Definition op_refonly (op : Z) : bool := (op =? 2) || (op =? 3).

(* pysam get_reference_positions, as half-open blocks *)
Fixpoint blocks_of_cigar (pos : Z) (ops : list (Z * Z)) : list block :=
  match ops with
  | [] => []
  | (op, n) :: t =>
      if op_aligned op then (pos, pos + n) :: blocks_of_cigar (pos + n) t
      else if op_refonly op then blocks_of_cigar (pos + n) t
      else blocks_of_cigar pos t
  end.

Fixpoint ref_len (ops : list (Z * Z)) : Z :=
  match ops with
  | [] => 0
  | (op, n) :: t => if op_aligned op || op_refonly op then n + ref_len t else ref_len t
  end.

Definition read_blocks (r : read) : list block := blocks_of_cigar (r_pos r) (r_cigar r).
Definition read_span (r : read) : block := (r_pos r, r_pos r + ref_len (r_cigar r)).

(* is_unmapped 0x4, is_secondary 0x100, is_qcfail 0x200, is_duplicate 0x400 *)
Definition flag_excluded (f : Z) : bool :=
  negb (Z.land f 4 =? 0) || negb (Z.land f 256 =? 0)
  || negb (Z.land f 512 =? 0) || negb (Z.land f 1024 =? 0).

Definition counted (cut : Z) (r : read) : bool :=
  negb (flag_excluded (r_flag r)) && (cut <=? r_mapq r).

(* bedcov: `-Q min_mapq` only when min_mapq > 0, samtools' own default is 0 *)
Definition pileup_cut (cut : Z) : Z :=
  if BEDCOV_MAPQ_OPTION_CUT <? cut then cut else 0.

Definition on_contig (c : string) (r : read) : bool := String.eqb c (r_contig r).

(* number of integers in [lo, hi) and in the block *)
Definition ovl (lo hi : Z) (b : block) : Z :=
  Z.max 0 (Z.min hi (snd b) - Z.max lo (fst b)).

Definition read_bases_count (lo hi : Z) (r : read) : Z :=
  sumZ (map (ovl lo hi) (read_blocks r)).

Definition read_bases_pileup (lo hi : Z) (r : read) : Z := ovl lo hi (read_span r).

Definition bases_count (cut : Z) (c : string) (lo hi : Z) (reads : list read) : Z :=
  sumZ (map (read_bases_count lo hi)
            (filter (fun r => on_contig c r && counted cut r) reads)).

Definition bases_pileup (cut : Z) (c : string) (lo hi : Z) (reads : list read) : Z :=
  sumZ (map (read_bases_pileup lo hi)
            (filter (fun r => on_contig c r && counted (pileup_cut cut) r) reads)).

Definition ratio (bases span : Z) : Q := Qred (inject_Z bases / inject_Z span).

(* depth = bases / (end - start) if end > start else 0 *)
Definition count_depth (bases lo hi : Z) : Q :=
  if lo <? hi then ratio bases (hi - lo) else COUNT_ZERO_DEPTH.

(* ok_idx = spans > 0 ; depth = 0.0 ; depth[ok] = basecount / spans *)
Definition pileup_depth (bases lo hi : Z) : Q :=
  if PILEUP_SPAN_CUT <? hi - lo then ratio bases (hi - lo) else PILEUP_ZERO_DEPTH.

(* a BED line: chromosome, start, end, remaining columns (none for 3 columns) *)
Definition bedline := (string * Z * Z * list string)%type.

Definition bin_name (rest : list string) : string :=
  match rest with [] => MISSING_GENE_NAME | g :: _ => g end.

(* both algorithms keep the 4th column verbatim (bedcov's table is read with
   dtype str and keep_default_na=False since /repo 81315b3; read_bed keeps the
   field as text); a 3-column line gets the placeholder *)

Inductive algo := Count | Pileup.

(* output row: chromosome, start, end, gene, depth, log2 *)
Definition row := (string * Z * Z * string * Q * Q)%type.

Section WithLog2.
Variable log2o : Q -> Q.

(* math.log(depth, 2) if depth else NULL_LOG2_COVERAGE *)
Definition count_log2 (d : Q) : Q :=
  if Qeq_bool d 0 then NULL_LOG2_COVERAGE else log2o d.

(* log2 = NULL ; log2[depth > 0] = np.log2(depth) *)
Definition pileup_log2 (d : Q) : Q :=
  if Qle_bool d (inject_Z PILEUP_DEPTH_CUT) then NULL_LOG2_COVERAGE else log2o d.

Definition row_of (alg : algo) (cut : Z) (reads : list read) (b : bedline) : row :=
  let '(c, lo, hi, rest) := b in
  match alg with
  | Count =>
      let d := count_depth (bases_count cut c lo hi reads) lo hi in
      (c, lo, hi, bin_name rest, d, count_log2 d)
  | Pileup =>
      let d := pileup_depth (bases_pileup cut c lo hi reads) lo hi in
      (c, lo, hi, bin_name rest, d, pileup_log2 d)
  end.

Definition coverage (alg : algo) (cut : Z) (reads : list read) (bins : list bedline) : list row :=
  map (row_of alg cut reads) bins.

(* to_chunks: consecutive pieces of k lines, the last one possibly shorter *)
Fixpoint chunks_fuel {A} (fuel k : nat) (l : list A) : list (list A) :=
  match fuel with
  | O => []
  | S f => match l with
           | [] => []
           | _ => firstn k l :: chunks_fuel f k (skipn k l)
           end
  end.

Definition chunks {A} (k : nat) (l : list A) : list (list A) := chunks_fuel (length l) k l.

(* pool.map over the chunks, results concatenated in order *)
Definition coverage_split (alg : algo) (cut : Z) (reads : list read) (parts : list (list bedline)) : list row :=
  concat (map (coverage alg cut reads) parts).

Definition coverage_chunks (k : nat) (alg : algo) (cut : Z) (reads : list read) (bins : list bedline) : list row :=
  coverage_split alg cut reads (chunks k bins).

End WithLog2.

(* ========================================================================== *)
(* Text layer of the pileup path: what `bedcov()` does with the text returned by
   samtools bedcov, and what `interval_coverages_pileup` makes of the table.

     columns = detect_bedcov_columns(raw)
     table = pd.read_csv(StringIO(raw), sep="\t", names=columns, usecols=columns,
                         dtype={"chromosome": "str", "gene": "str"}, keep_default_na=False)

   samtools writes, for every BED line, the line's own fields followed by one more
   tab-separated field, the number of covered bases.  pandas' tokenizer (oracle, but
   modelled at the granularity used here): records end at "\n" or "\r", empty records are
   skipped, fields are separated by `sep`; with the default quoting a field that STARTS
   with a double quote is a quoted field -- modelled only in its simple form
   "<text without quotes>", whose value is the inner text; any other field starting with
   a quote is outside the model (None).  Integer columns are canonical decimals. *)

Definition code_char (z : Z) : ascii := ascii_of_nat (Z.to_nat z).
Definition TABC : ascii := code_char BEDCOV_TAB_CODE.         (* firstline.count("\t") *)
Definition SEPC : ascii := code_char BEDCOV_SEP_CODE.         (* read_csv(sep="\t") *)
Definition EOLC : ascii := code_char BEDCOV_LINE_END_CODE.    (* text.index("\n") *)
Definition CRC : ascii := code_char 13.                       (* pandas also ends a record at "\r" *)
Definition QUOTEC : ascii := code_char 34.                    (* pandas' default quotechar *)

Definition is_char (a : ascii) (c : ascii) : bool := Ascii.eqb c a.
Definition is_eol (c : ascii) : bool := is_char EOLC c || is_char CRC c.

(* str.split on a character class: always at least one piece *)
Fixpoint split_chars (sepb : ascii -> bool) (cs : list ascii) : list (list ascii) :=
  match cs with
  | [] => [[]]
  | c :: t =>
      if sepb c then [] :: split_chars sepb t
      else match split_chars sepb t with
           | f :: r => (c :: f) :: r
           | [] => [[c]]
           end
  end.

Definition nonempty {A} (l : list A) : bool := match l with [] => false | _ => true end.

(* the records pandas sees: blank ones are skipped *)
Definition text_lines (cs : list ascii) : list (list ascii) := filter nonempty (split_chars is_eol cs).

(* text[: text.index(ch)] ; None = ValueError (substring not found) *)
Fixpoint before_char (ch : ascii) (cs : list ascii) : option (list ascii) :=
  match cs with
  | [] => None
  | c :: t => if Ascii.eqb c ch then Some [] else option_map (cons c) (before_char ch t)
  end.

Definition count_char (ch : ascii) (cs : list ascii) : Z := Z.of_nat (length (filter (Ascii.eqb ch) cs)).

Fixpoint lookup_cols (n : Z) (tbl : list (Z * list string)) : option (list string) :=
  match tbl with
  | [] => None
  | (k, cols) :: t => if n =? k then Some cols else lookup_cols n t
  end.

(* range(a, b) *)
Definition z_range (a b : Z) : list Z := map (fun i => a + Z.of_nat i) (seq 0 (Z.to_nat (b - a))).

(* [f"_{i}" for i in range(1, tabcount - 3)] *)
Definition filler_names (tabcount : Z) : list string :=
  map (fun i => (BEDCOV_FILLER_PREFIX ++ print_Z i)%string)
      (z_range BEDCOV_FILLER_FROM (tabcount - BEDCOV_FILLER_STOP_MINUS)).

Inductive detect_result :=
| DetectNoNewline                      (* text.index("\n") raises ValueError *)
| DetectBadLine                        (* fewer than 3 tabs: RuntimeError *)
| DetectCols (cols : list string).

Definition detect_bedcov_columns (text : list ascii) : detect_result :=
  match before_char EOLC text with
  | None => DetectNoNewline
  | Some first =>
      let tabcount := count_char TABC first in
      if tabcount <? BEDCOV_MIN_TABS then DetectBadLine
      else match lookup_cols tabcount BEDCOV_COLS_BY_TABS with
           | Some cols => DetectCols cols
           | None => DetectCols (BEDCOV_COLS_HEAD ++ filler_names tabcount ++ BEDCOV_COLS_TAIL)
           end
  end.

(* quoting = 3 is csv.QUOTE_NONE: fields verbatim *)
Definition unquote_field (quoting : Z) (f : list ascii) : option (list ascii) :=
  if quoting =? 3 then Some f
  else match f with
       | c :: t =>
           if is_char QUOTEC c then
             match rev t with
             | c' :: ri => if is_char QUOTEC c' && negb (existsb (is_char QUOTEC) ri) then Some (rev ri) else None
             | [] => None
             end
           else Some f
       | [] => Some f
       end.

(* column i of the names list holds field i of the record *)
Fixpoint assoc_field (name : string) (cols fields : list string) : option string :=
  match cols, fields with
  | c :: ct, f :: ft => if String.eqb c name then Some f else assoc_field name ct ft
  | _, _ => None
  end.

(* names stay text exactly when pandas is told so: dtype str for both name columns, no NA tokens *)
Definition names_verbatim : bool :=
  negb BEDCOV_KEEP_DEFAULT_NA && mem_string COL_CHROMOSOME BEDCOV_STR_COLUMNS && mem_string COL_GENE BEDCOV_STR_COLUMNS.
Definition as_name (s : string) : string := if names_verbatim then s else "<re-typed by pandas>"%string.

(* one parsed record: chromosome, start, end, gene (if the table has the column), basecount *)
Definition parsed := (string * Z * Z * option string * Z)%type.

Definition parse_fields (cols fields : list string) : option parsed :=
  if negb (length fields =? length cols)%nat then None
  else match assoc_field COL_CHROMOSOME cols fields, assoc_field COL_START cols fields,
             assoc_field COL_END cols fields, assoc_field COL_BASECOUNT cols fields with
       | Some c, Some s, Some e, Some b =>
           match parse_Z s, parse_Z e, parse_Z b with
           | Some lo, Some hi, Some n =>
               Some (as_name c, lo, hi, option_map as_name (assoc_field COL_GENE cols fields), n)
           | _, _, _ => None
           end
       | _, _, _, _ => None
       end.

Definition parse_line_q (quoting : Z) (cols : list string) (l : list ascii) : option parsed :=
  match all_some (map (unquote_field quoting) (split_chars (is_char SEPC) l)) with
  | Some fs => parse_fields cols (map unchars fs)
  | None => None
  end.

Definition parse_bedcov_q (quoting : Z) (text : string) : option (list parsed) :=
  match detect_bedcov_columns (chars text) with
  | DetectCols cols => all_some (map (parse_line_q quoting cols) (text_lines (chars text)))
  | _ => None
  end.

(* bedcov(): the table read from samtools' text *)
Definition parse_bedcov (text : string) : option (list parsed) := parse_bedcov_q BEDCOV_QUOTING text.

(* what samtools bedcov prints for one BED line and its base count *)
Fixpoint join_chars (sep : ascii) (fs : list (list ascii)) : list ascii :=
  match fs with
  | [] => []
  | [f] => f
  | f :: t => f ++ sep :: join_chars sep t
  end.

Definition bed_fields (b : bedline) : list string :=
  let '(c, lo, hi, rest) := b in c :: print_Z lo :: print_Z hi :: rest.

Definition bedcov_line (bn : bedline * Z) : list ascii :=
  join_chars SEPC (map chars (bed_fields (fst bn) ++ [print_Z (snd bn)])) ++ [EOLC].

Definition bedcov_text (bins : list bedline) (counts : list Z) : string :=
  unchars (concat (map bedcov_line (combine bins counts))).

(* parallel.to_chunks on the lines of the file: lines whose first character is "#" are
   dropped, the others are copied in order into pieces of chunk_size lines (the last one
   possibly shorter; no empty piece is handed out) *)
Definition keep_line (l : string) : bool :=
  match l with
  | String c _ => negb (String.eqb (String c EmptyString) CHUNK_COMMENT_PREFIX)
  | EmptyString => true
  end.

Definition to_chunks_lines (k : nat) (lines : list string) : list (list string) :=
  chunks k (filter keep_line lines).

(* ========================================================================== *)
(* Row order of the --count table: tabio.read_auto sorts the regions
   (GenomicArray.sort = Model/Chromsort.v sort_regions: chromosome key, start, end;
   stable), regions.by_chromosome() is a pandas groupby(sort=False) on the chromosome
   NAME: groups in order of first appearance, rows of a group in table order. *)

Definition bed_chrom (b : bedline) : string := let '(c, _, _, _) := b in c.
Definition bed_region (b : bedline) : string * Z * Z := let '(c, lo, hi, _) := b in (c, lo, hi).
Definition same_chrom (a b : bedline) : bool := String.eqb (bed_chrom a) (bed_chrom b).

Fixpoint group_fuel (fuel : nat) (l : list bedline) : list bedline :=
  match fuel with
  | O => []
  | S f => match l with
           | [] => []
           | x :: t => (x :: filter (same_chrom x) t) ++ group_fuel f (filter (fun y => negb (same_chrom x y)) t)
           end
  end.

Definition group_by_chrom (l : list bedline) : list bedline := group_fuel (length l) l.

Definition count_order (bins : list bedline) : list bedline := group_by_chrom (sort_regions bed_region bins).
Definition count_order_fast (bins : list bedline) : list bedline := group_by_chrom (sort_regions_fast bed_region bins).

Section WithLog2Text.
Variable log2o : Q -> Q.

(* interval_coverages_pileup after bedcov(): gene "-" when the column is absent,
   depth = basecount / span where span > 0, log2 where depth > 0 *)
Definition pileup_row_of_parsed (p : parsed) : row :=
  let '(c, lo, hi, g, n) := p in
  let d := pileup_depth n lo hi in
  (c, lo, hi, match g with Some g' => g' | None => MISSING_GENE_NAME end, d, pileup_log2 log2o d).

Definition pileup_table_of_text (text : string) : option (list row) :=
  option_map (map pileup_row_of_parsed) (parse_bedcov text).

(* the whole pileup path through text: every part (the file, or a chunk) goes through
   samtools (bedcov_text of the part's bins and their pileup base counts), is parsed and
   assembled; the tables are concatenated in order *)
Definition bedcov_of (cut : Z) (reads : list read) (bins : list bedline) : string :=
  bedcov_text bins (map (fun b : bedline => let '(c, lo, hi, _) := b in bases_pileup cut c lo hi reads) bins).

Definition pileup_via_text (cut : Z) (reads : list read) (parts : list (list bedline)) : option (list row) :=
  option_map (@concat row) (all_some (map (fun part => pileup_table_of_text (bedcov_of cut reads part)) parts)).

(* the --count table: rows in the order of the sorted, chromosome-grouped regions *)
Definition coverage_count_table (cut : Z) (reads : list read) (bins : list bedline) : list row :=
  coverage log2o Count cut reads (count_order bins).

(* the pileup table over a regions FILE (list of lines); `bed_of_line` is samtools' own
   BED line reader (None for the lines it skips) *)
Variable bed_of_line : string -> option bedline.

Definition bins_of_lines (ls : list string) : list bedline :=
  flat_map (fun l => match bed_of_line l with Some b => [b] | None => [] end) ls.

Definition pileup_file (cut : Z) (reads : list read) (lines : list string) : list row :=
  coverage log2o Pileup cut reads (bins_of_lines lines).

Definition pileup_file_chunked (k : nat) (cut : Z) (reads : list read) (lines : list string) : list row :=
  concat (map (fun piece => coverage log2o Pileup cut reads (bins_of_lines piece)) (to_chunks_lines k lines)).

End WithLog2Text.
