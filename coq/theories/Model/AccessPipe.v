(* Model of the exclusion step of cnvlib/access.py do_access on one sequence:
     for ex_fname in exclude_fnames: access_regions = access_regions.subtract(tabio.read(ex_fname, "bed3"))
     join_regions(access_regions, min_gap_size)
   composed from the interval model of C06 (Model/Intervals.subtract, proved base-exact in
   Proofs/IvSubtract.v) and the join model of Model/Access.v.  Regions are (lo, hi) pairs;
   the exclude tables are given as tabio.read leaves them (sorted by start).  No proofs here. *)
From CNV Require Import Base.Prelude Model.IvRow Model.Intervals Model.Access.

Definition to_rows (l : list (Z * Z)) : list (@row unit) := map (fun p => (fst p, snd p, tt)) l.
Definition of_rows (l : list (@row unit)) : list (Z * Z) := map (fun r => (lo r, hi r)) l.

Definition exclude_one (acc ex : list (Z * Z)) : list (Z * Z) :=
  of_rows (subtract (to_rows acc) (to_rows ex)).

Definition exclude_all (runs : list (Z * Z)) (excls : list (list (Z * Z))) : list (Z * Z) :=
  fold_left exclude_one excls runs.

Definition access_sequence (g : Z) (runs : list (Z * Z)) (excls : list (list (Z * Z))) : option (list (Z * Z)) :=
  join_regions g (exclude_all runs excls).

(* ---- the whole of do_access: several sequences, skip_noncanonical, exclude BEDs --------
     fa_regions = get_regions(fa_fname)
     if skip_noncanonical: fa_regions = drop_noncanonical_contigs(fa_regions)
     access_regions = GA.from_rows(fa_regions)
     for ex_fname in exclude_fnames:
         access_regions = access_regions.subtract(tabio.read(ex_fname, "bed3"))
     return GA.from_rows(join_regions(access_regions, min_gap_size))
   Tables are lists of (chromosome, start, end).  subtract and join_regions both work
   chromosome by chromosome in the order of first occurrence in the accessible table
   (`groupby("chromosome", sort=False)`); a chromosome that is only in an exclude file is
   never looked at, and a chromosome absent from an exclude file keeps its rows
   (`subtract_row k [] = [k]`).  tabio.read sorts the exclude rows by (chromosome key,
   start, end), so the rows of one chromosome arrive sorted by (start, end).
   `min_gap_size = min_gap_size or 0`.  A failed `assert gap > 0` on any chromosome fails
   the call (the generator is consumed by GA.from_rows). *)
From CNV Require Import Base.Str Model.AccessText.

Definition t_name (r : tagged) : string := fst (fst r).
Definition t_pair (r : tagged) : Z * Z := (snd (fst r), snd r).

(* the rows of chromosome c, in table order *)
Definition rows_of (c : string) (t : list tagged) : list (Z * Z) :=
  map t_pair (filter (fun r => String.eqb (t_name r) c) t).

(* chromosome names in order of first occurrence *)
Fixpoint uniq (l : list string) : list string :=
  match l with
  | [] => []
  | c :: t => c :: filter (fun d => negb (String.eqb d c)) (uniq t)
  end.

Definition sort_pairs (l : list (Z * Z)) : list (Z * Z) := of_rows (sort_rows (to_rows l)).

Definition drop_noncanonical (skip : bool) (t : list tagged) : list tagged :=
  if skip then filter (fun r => is_canonical_contig_name (t_name r)) t else t.

Definition gap_or_0 (g : option Z) : Z := match g with Some z => z | None => 0 end.

(* the exclude tables as chromosome c sees them *)
Definition excls_for (c : string) (excls : list (list tagged)) : list (list (Z * Z)) :=
  map (fun ex => sort_pairs (rows_of c ex)) excls.

Definition access_chrom (g : Z) (kept : list tagged) (excls : list (list tagged)) (c : string)
  : option (list tagged) :=
  match access_sequence g (rows_of c kept) (excls_for c excls) with
  | Some r => Some (tag c r)
  | None => None
  end.

Definition do_access (g : option Z) (skip : bool) (regions : list tagged) (excls : list (list tagged))
  : option (list tagged) :=
  let kept := drop_noncanonical skip regions in
  match all_some (map (access_chrom (gap_or_0 g) kept excls) (uniq (map t_name kept))) with
  | Some parts => Some (concat parts)
  | None => None
  end.

(* FASTA text in, table out *)
Definition do_access_text (g : option Z) (skip : bool) (txt : string) (excls : list (list tagged))
  : option (list tagged) :=
  match get_regions_text txt with
  | Some regions => do_access g skip regions excls
  | None => None
  end.
