(* Model of the exclusion step of cnvlib/access.py do_access on one sequence:
     for ex_fname in exclude_fnames: access_regions = access_regions.subtract(tabio.read(ex_fname, "bed3"))
     join_regions(access_regions, min_gap_size)
   composed from the interval model of C06 (Model/Intervals.subtract, proved base-exact in
   Proofs/IvSubtract.v) and the join model of Model/Access.v.  Regions are (lo, hi) pairs;
   the exclude tables are given as tabio.read leaves them (sorted by start).  No proofs here. *)
From CNV Require Import Base.Prelude Model.IvRow Model.Intervals Model.Access.

Definition to_rows (l : list (Z * Z)) : list (@row unit) := map (fun p => (fst p, snd p, tt)) l.
Definition of_rows (l : list (@row unit)) : list (Z * Z) := map (fun r => (lo r, hi r)) l.

Definition exclude_one (acc ex : list (Z * Z)) : list (Z * Z) :=
  of_rows (subtract (to_rows acc) (to_rows ex)).

Definition exclude_all (runs : list (Z * Z)) (excls : list (list (Z * Z))) : list (Z * Z) :=
  fold_left exclude_one excls runs.

Definition access_sequence (g : Z) (runs : list (Z * Z)) (excls : list (list (Z * Z))) : option (list (Z * Z)) :=
  join_regions g (exclude_all runs excls).
