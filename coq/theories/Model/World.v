(* C10: (1) the no-overwrite discipline of core.ensure_path on the family of
   names  p, p.1, p.2, ...  of one output path (index 0 = p itself, n > 0 = "p.n";
   other names are never touched by the code and are outside the state), and
   (2) a frame model of "results depend only on arguments": API calls as pure
   functions of caller-owned objects, with the only permitted side effects
   (reseeding the global generators, caching chromosome labels in meta). *)
From CNV Require Import Base.Prelude.

Section Files.
Context {C : Type}.

Definition fs := list (nat * C).          (* association list; first binding wins *)

Fixpoint lookup (n : nat) (f : fs) : option C :=
  match f with
  | [] => None
  | (k, c) :: t => if Nat.eqb k n then Some c else lookup n t
  end.

Fixpoint remove (n : nat) (f : fs) : fs :=
  match f with
  | [] => []
  | (k, c) :: t => if Nat.eqb k n then remove n t else (k, c) :: remove n t
  end.

Definition set (n : nat) (c : C) (f : fs) : fs := (n, c) :: remove n f.

(* while os.path.isfile(f"{fname}.{cnt}"): cnt += 1   -- with explicit fuel *)
Fixpoint first_free (fuel cnt : nat) (f : fs) : option nat :=
  match fuel with
  | O => None
  | S fuel' => match lookup cnt f with
               | None => Some cnt
               | Some _ => first_free fuel' (S cnt) f
               end
  end.

(* core.ensure_path on an existing directory: None = fuel exhausted (excluded by theorem) *)
Definition ensure_path (f : fs) : option fs :=
  match lookup 0 f with
  | None => Some f
  | Some c =>
      match first_free (S (length f)) 1 f with
      | Some n => Some (set n c (remove 0 f))
      | None => None
      end
  end.

(* ensure_path(p); open(p, "w").write(c) *)
Definition write_round (f : fs) (c : C) : option fs :=
  match ensure_path f with
  | Some f' => Some (set 0 c f')
  | None => None
  end.

Fixpoint write_rounds (f : fs) (cs : list C) : option fs :=
  match cs with
  | [] => Some f
  | c :: t => match write_round f c with Some f' => write_rounds f' t | None => None end
  end.

Definition names (f : fs) : list nat := map fst f.

End Files.

(* ---- frame model ------------------------------------------------------- *)
Section Frame.
Context {Obj : Type}.

Inductive rng := Arbitrary (token : Z) | Seeded (seed : Z).

Record op := {
  op_fun : list Obj -> Obj;      (* the result as a function of the argument objects *)
  op_stochastic : bool;          (* reseeds the global generators with the fixed seed *)
  op_caches : bool;              (* may add chr_x / chr_y label entries to an array's meta *)
}.

(* caller-owned objects: the value and the set of cached meta keys (abstractly: a flag) *)
Record world := {
  w_objs : list Obj;
  w_cache : list bool;
  w_np : rng;
  w_py : rng;
}.

Definition pick (ids : list nat) (objs : list Obj) (d : Obj) : list Obj :=
  map (fun i => nth i objs d) ids.

Definition step (seed : Z) (d : Obj) (w : world) (o : op) (ids : list nat) : world * Obj :=
  ({| w_objs := w_objs w;
      w_cache := if op_caches o
                 then map (fun '(i, b) => b || existsb (Nat.eqb i) ids)
                          (combine (seq 0 (length (w_cache w))) (w_cache w))
                 else w_cache w;
      w_np := if op_stochastic o then Seeded seed else w_np w;
      w_py := w_py w |},
   op_fun o (pick ids (w_objs w) d)).

(* external perturbation between calls: the harness sets the generators to arbitrary states *)
Definition perturb (w : world) (a b : Z) : world :=
  {| w_objs := w_objs w; w_cache := w_cache w; w_np := Arbitrary a; w_py := Arbitrary b |}.

Fixpoint run (seed : Z) (d : Obj) (w : world) (h : list (op * list nat * Z * Z)) : world * list Obj :=
  match h with
  | [] => (w, [])
  | (o, ids, a, b) :: t =>
      let s := step seed d (perturb w a b) o ids in
      let r := run seed d (fst s) t in
      (fst r, snd s :: snd r)
  end.

End Frame.
