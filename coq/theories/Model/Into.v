(* Model of intersect.into_ranges / GenomicArray.into_ranges and the default
   summary functions of skgenome/combiners.py (join_strings, first_of) and
   numpy.nanmedian.  The column is a function from row label to value; a hit is
   (label, value).  No proofs here. *)
From CNV Require Import Base.Prelude Model.Ranges.
From CNV Require Gen.RangeDefaults.

Section Into.
Context {V : Type}.

(* series2value: a summary function may fail (None), e.g. first_of's label lookup *)
Definition series2value (default : V) (f : list (Z * V) -> option V) (hits : list (Z * V))
  : option V :=
  match hits with
  | [] => Some default
  | [(_, v)] => Some v
  | _ => f hits
  end.

(* intersect.into_ranges: None models `return dest` (an empty destination table comes
   back as it is: no range, no value); an empty source gives the default everywhere;
   otherwise one value per bin *)
Definition into_ranges (source dest : list trow) (col : Z -> V) (default : V)
  (f : list (Z * V) -> option V) : option (list (option V)) :=
  match dest, source with
  | [], _ => None
  | _, [] => Some (map (fun _ => Some default) dest)
  | _, _ =>
      Some (map (fun sub => series2value default f (map (fun r => (r_id r, col (r_id r))) sub))
                (iter_slices source dest (imode_of_name RangeDefaults.into_slices_mode)
                             RangeDefaults.into_slices_keep_empty))
  end.

(* first_of(ser) is ser.iloc[0]: the first hit by position (None: IndexError on an
   empty series, which series2value never passes) *)
Definition first_of (hits : list (Z * V)) : option V :=
  match hits with
  | (_, v) :: _ => Some v
  | [] => None
  end.

(* make_const(value) *)
Definition const_of (v : V) (hits : list (Z * V)) : option V := Some v.

End Into.

(* join_strings: sep.join(pd.unique(series)) -- distinct values in order of first
   appearance (Ranges.distinct) *)
Definition join_strings (hits : list (Z * string)) : option string :=
  Some (String.concat RangeDefaults.join_sep (distinct (map snd hits))).

(* np.nanmedian over floats; NaN is None; all-NaN gives NaN *)
Fixpoint insertQ (x : Q) (l : list Q) : list Q :=
  match l with
  | [] => [x]
  | y :: t => if Qle_bool x y then x :: l else y :: insertQ x t
  end.

Definition sortQ (l : list Q) : list Q := fold_right insertQ [] l.

Fixpoint somes {A} (l : list (option A)) : list A :=
  match l with
  | [] => []
  | Some x :: t => x :: somes t
  | None :: t => somes t
  end.

Definition medianQ (l : list Q) : option Q :=
  let s := sortQ l in
  let n := length s in
  match n with
  | O => None
  | _ =>
      if Nat.odd n then nth_error s (n / 2)
      else match nth_error s (n / 2 - 1), nth_error s (n / 2) with
           | Some a, Some b => Some (Qred ((a + b) / 2))
           | _, _ => None
           end
  end.

Definition nanmedian (hits : list (Z * option Q)) : option (option Q) :=
  Some (medianQ (somes (map snd hits))).

(* ==== into_ranges, complete =========================================================
   The column holds dynamically typed cells; `summary_func` is None (choose by the type
   of the FIRST element of the source column: str -> join_strings, float -> np.nanmedian,
   anything else -> first_of), a callable, or any other value (-> make_const(value)).

       if summary_func is None:
           elem = source[src_col].iat[0]
           if isinstance(elem, (str, np.string_)):       summary_func = join_strings
           elif isinstance(elem, (float, np.float64)):   summary_func = np.nanmedian
           else:                                         summary_func = first_of
       elif not callable(summary_func):                  summary_func = make_const(summary_func)

   A summary applied to cells of the wrong type fails (None: TypeError), e.g. join_strings
   on an object column whose first element is a string and a later one is not. *)
Inductive icell :=
  | ICStr (s : string)
  | ICFloat (x : option Q)        (* None = NaN *)
  | ICInt (z : Z)
  | ICBool (b : bool).

Inductive isummary :=
  | ISNone
  | ISFunc (f : list (Z * icell) -> option icell)
  | ISConst (v : icell).

Definition cell_str (c : icell) : option string :=
  match c with ICStr s => Some s | _ => None end.

(* what np.nanmedian sees: floats as they are, integers and booleans as numbers *)
Definition cell_num (c : icell) : option (option Q) :=
  match c with
  | ICFloat x => Some x
  | ICInt z => Some (Some (inject_Z z))
  | ICBool b => Some (Some (if b then 1%Q else 0%Q))
  | ICStr _ => None
  end.

(* the type default, chosen by the first element of the column *)
Definition type_default (first : icell) (hits : list (Z * icell)) : option icell :=
  match first with
  | ICStr _ =>
      match all_some (map (fun h => cell_str (snd h)) hits) with
      | Some ss => Some (ICStr (String.concat RangeDefaults.join_sep (distinct ss)))
      | None => None
      end
  | ICFloat _ =>
      match all_some (map (fun h => cell_num (snd h)) hits) with
      | Some xs => Some (ICFloat (medianQ (somes xs)))
      | None => None
      end
  | _ => first_of hits
  end.

Definition pick_summary (first : icell) (s : isummary) : list (Z * icell) -> option icell :=
  match s with
  | ISNone => type_default first
  | ISFunc f => f
  | ISConst v => const_of v
  end.

(* intersect.into_ranges with every kind of summary_func *)
Definition into_ranges_full (source dest : list trow) (col : Z -> icell) (default : icell)
  (s : isummary) : option (list (option icell)) :=
  into_ranges source dest col default
              (match source with
               | [] => fun _ => None                       (* never reached: see into_ranges *)
               | x :: _ => pick_summary (col (r_id (snd x))) s
               end).

(* GenomicArray.into_ranges: a missing column gives the default for every range *)
Definition ga_into_ranges (has_column : bool) (source dest : list trow) (col : Z -> icell)
  (default : icell) (s : isummary) : option (list (option icell)) :=
  if has_column then into_ranges_full source dest col default s
  else Some (map (fun _ => Some default) dest).
