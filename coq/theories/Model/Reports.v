(* Model of the complete report tables of cnvlib/reports.py and CopyNumArray.squash_genes:
   - do_genemetrics end to end: sex guess (C15's Model/Sex.v guess_xx) when is_sample_female is None,
     shift_xx of bins and segments with the PAR-aware X filter (C15's Sex.shift_xx, reused as is),
     the rows of gene_metrics_by_gene / gene_metrics_by_segment in the order coded, the extra segment
     columns copied into the rows, the min_probes filter, the column header and its order, the
     ZeroDivisionError of an all-zero-weight gene (np.average);
   - squash_genes with every value column (summary function = oracle [est]), rows assembled
     positionally as the code does (as_rows(columns = self.data.columns));
   - the do_breaks table.
   Tables of the model carry the required columns chromosome, start, end, gene, log2 and depth,
   weight, probes (the bin table may lack probes; the segment table may lack depth / weight / probes
   and may carry any further numeric columns, which are NaN-able).  No proofs here. *)
From Coq Require Import Qabs.
From CNV Require Import Base.Prelude Base.Str Base.QNum Gen.Params Gen.GenesDefaults Model.Genes.
From CNV Require Model.Center Model.Sex.

Inductive cell := CS (s : string) | CZ (z : Z) | CQ (q : option Q).    (* CQ None is NaN *)
Definition table := (list string * list (list cell))%type.            (* header, rows *)

Definition COL_CHROM : string := nth 0 CNA_REQUIRED_COLUMNS ""%string.
Definition COL_START : string := nth 1 CNA_REQUIRED_COLUMNS ""%string.

(* ---- C15's bins ------------------------------------------------------------------------------ *)

Definition to_cbin (hd hw : bool) (b : bin) : Center.bin :=
  Center.mkBin (b_chr b) (b_start b) (b_end b) (b_gene b) (b_log2 b)
               (if hd then Some (b_depth b) else None) (if hw then Some (b_weight b) else None).

(* CopyNumArray.shift_xx: C15's model on the converted table, the shifted log2 written back *)
Definition shift_xx_full (hd hw hap : bool) (is_xx : option bool) (build : option Center.parb)
  (rows : list bin) : list bin :=
  map (fun bc => set_log2 (fst bc) (Center.b_log2 (snd bc)))
      (combine rows (Sex.shift_xx hap is_xx build (map (to_cbin hd hw) rows))).

(* ---- options, segments ------------------------------------------------------------------------ *)

Record gm_opts := mkOpts {
  o_threshold : Q; o_min_probes : Z; o_skip_low : bool;
  o_hap : bool;                       (* is_haploid_x_reference *)
  o_female : option bool;             (* is_sample_female; None = guess *)
  o_build : option Center.parb }.     (* diploid_parx_genome *)

(* a segment row: the core fields and the values of its other columns by name *)
Record seg := mkSeg { sg_bin : bin; sg_extra : list (string * option Q) }.

Fixpoint lookup_extra (c : string) (l : list (string * option Q)) : option Q :=
  match l with
  | [] => None
  | (k, v) :: t => if String.eqb c k then v else lookup_extra c t
  end.

(* ---- segments.by_chromosome(): groupby("chromosome", sort=False) on the segment table; the
        segments keep their extra columns ---------------------------------------------------- *)

Definition seg_chr (s : seg) : string := b_chr (sg_bin s).

Definition seg_groups (segs : list seg) : list (string * list seg) :=
  map (fun c => (c, filter (fun s => String.eqb (seg_chr s) c) segs)) (dedup (map seg_chr segs)).

Definition by_ranges_x (rows : list bin) (segs : list seg) : list (seg * list bin) :=
  let cm := by_chromosome rows in
  flat_map (fun cs =>
              match assoc_chrom (fst cs) cm with
              | Some crows => map (fun s => (s, seg_bins crows (sg_bin s))) (snd cs)
              | None => map (fun s => (s, [])) (snd cs)
              end)
           (seg_groups segs).

(* ---- column headers ---------------------------------------------------------------------------- *)

Definition append_new (cols : list string) (c : string) : list string :=
  if mem_string c cols then cols else cols ++ [c].

(* the keys group_by_genes assigns on a copy of the first row *)
Definition group_cols (cols : list string) : list string :=
  fold_left append_new [COL_END; COL_GENE; COL_LOG2; COL_PROBES] cols.

(* segment columns copied into the rows *)
Definition extra_cols (ccols scols : list string) : list string :=
  filter (fun c => negb (mem_string c ccols) && negb (mem_string c GM_EXTRA_EXCLUDED)) scols.

Definition seg_row_cols (ccols scols : list string) : list string :=
  let c1 := group_cols (ccols ++ extra_cols ccols scols) in
  let c2 := if mem_string COL_WEIGHT scols then append_new c1 COL_SEGMENT_WEIGHT else c1 in
  if mem_string COL_PROBES scols then append_new c2 COL_SEGMENT_PROBES else c2.

Definition gene_first (cols : list string) : list string :=
  COL_GENE :: filter (fun c => negb (String.eqb c COL_GENE)) cols.

(* ---- rows --------------------------------------------------------------------------------------- *)

Record frow := mkFrow { f_row : grow; f_extra : list (string * option Q) }.

Definition cell_of (r : frow) (c : string) : cell :=
  let g := f_row r in
  if String.eqb c COL_GENE then CS (r_gene g)
  else if String.eqb c COL_CHROM then CS (r_chr g)
  else if String.eqb c COL_START then CZ (r_start g)
  else if String.eqb c COL_END then CZ (r_end g)
  else if String.eqb c COL_LOG2 then CQ (r_log2 g)
  else if String.eqb c COL_DEPTH then CQ (Some (r_depth g))
  else if String.eqb c COL_WEIGHT then CQ (Some (r_weight g))
  else if String.eqb c COL_PROBES then CZ (r_probes g)
  else if String.eqb c COL_SEGMENT_WEIGHT then CQ (r_segw g)
  else if String.eqb c COL_SEGMENT_PROBES then match r_segp g with Some p => CZ p | None => CQ None end
  else CQ (lookup_extra c (f_extra r)).

Definition with_segment_x (hw hp : bool) (s : bin) (r : grow) : grow :=
  mkGrow (r_gene r) (r_chr r) (r_start r) (r_end r) (Some (b_log2 s))
         (r_depth r) (r_weight r) (r_probes r)
         (if hw then Some (b_weight s) else None) (if hp then Some (b_probes s) else None).

Definition seg_reaches (threshold : Q) (s : seg) : bool := Qle_bool threshold (Qabs (b_log2 (sg_bin s))).

Definition gene_frows (threshold : Q) (skip_low : bool) (rows : list bin) : list frow :=
  map (fun r => mkFrow r []) (gene_metrics_by_gene threshold skip_low rows).

Definition seg_frows (threshold : Q) (skip_low hw hp : bool) (xcols : list string)
  (rows : list bin) (segs : list seg) : list frow :=
  flat_map (fun ss =>
              if seg_reaches threshold (fst ss)
              then map (fun r => mkFrow (with_segment_x hw hp (sg_bin (fst ss)) r)
                                        (map (fun c => (c, lookup_extra c (sg_extra (fst ss)))) xcols))
                       (group_by_genes skip_low (snd ss))
              else [])
           (by_ranges_x rows segs).

(* np.average(rows["depth"], weights=rows["weight"]) raises ZeroDivisionError when the weights of a
   reported group sum to zero *)
Definition group_raises (gr : group) : bool :=
  negb (mem_string (fst gr) group_ignore) &&
  match snd gr with [] => false | _ :: _ => Qeq_bool (sumQ (map b_weight (snd gr))) 0 end.
Definition groups_raise (rows : list bin) : bool := existsb group_raises (by_gene IGNORE_GENE_NAMES rows).

Definition min_probes_filter (min_probes : Z) (rows : list frow) : list frow :=
  if min_probes =? 0 then rows else filter (fun r => min_probes <=? n_probes (f_row r)) rows.

Definition render (cols : list string) (rows : list frow) : table :=
  (cols, map (fun r => map (cell_of r) cols) rows).

Definition reseg (s : seg) (b : bin) : seg := mkSeg b (sg_extra s).

Section Full.
Variable gstat : Sex.mtable -> Q.     (* the G statistic scipy derives from Mood's contingency table (C15) *)

Definition guess_of (hd hw hap : bool) (build : option Center.parb) (rows : list bin) : option bool :=
  Sex.guess_xx gstat hap build (map (to_cbin hd hw) rows).

(* the sex the bins are shifted with, and the sex the segments are shifted with (shift_xx guesses
   again, on the segment table, when the first guess found no X bins) *)
Definition female_for_bins (o : gm_opts) (rows : list bin) : option bool :=
  match o_female o with Some f => Some f | None => guess_of true true (o_hap o) (o_build o) rows end.
Definition female_for_segs (o : gm_opts) (rows : list bin) (scols : list string) (sbins : list bin) : option bool :=
  match female_for_bins o rows with
  | Some f => Some f
  | None => guess_of (mem_string COL_DEPTH scols) (mem_string COL_WEIGHT scols) (o_hap o) (o_build o) sbins
  end.

Definition adjusted_bins (o : gm_opts) (rows : list bin) : list bin :=
  shift_xx_full true true (o_hap o) (female_for_bins o rows) (o_build o) rows.
Definition adjusted_segs (o : gm_opts) (rows : list bin) (scols : list string) (segs : list seg) : list seg :=
  map (fun sb => reseg (fst sb) (snd sb))
      (combine segs (shift_xx_full (mem_string COL_DEPTH scols) (mem_string COL_WEIGHT scols) (o_hap o)
                                   (female_for_segs o rows scols (map sg_bin segs)) (o_build o) (map sg_bin segs))).

(* the rows before the min_probes filter, in the order coded *)
Definition gm_body (ccols : list string) (rows : list bin) (segs : option (list string * list seg))
  (o : gm_opts) : list frow :=
  let rows' := adjusted_bins o rows in
  match segs with
  | Some (scols, (_ :: _) as sg) =>
      seg_frows (o_threshold o) (o_skip_low o) (mem_string COL_WEIGHT scols) (mem_string COL_PROBES scols)
                (extra_cols ccols scols) rows' (adjusted_segs o rows scols sg)
  | _ => gene_frows (o_threshold o) (o_skip_low o) rows'
  end.

Definition gm_raises (rows : list bin) (segs : option (list string * list seg)) (o : gm_opts) : bool :=
  let rows' := adjusted_bins o rows in
  match segs with
  | Some (scols, (_ :: _) as sg) =>
      existsb (fun ss => seg_reaches (o_threshold o) (fst ss) && groups_raise (snd ss))
              (by_ranges_x rows' (adjusted_segs o rows scols sg))
  | _ => groups_raise rows'
  end.

Definition gm_columns (ccols : list string) (segs : option (list string * list seg)) : list string :=
  match segs with
  | Some (scols, _ :: _) => gene_first (seg_row_cols ccols scols)
  | _ => gene_first (group_cols ccols)
  end.

(* None: ZeroDivisionError *)
Definition do_genemetrics_full (ccols : list string) (rows : list bin)
  (segs : option (list string * list seg)) (o : gm_opts) : option table :=
  if gm_raises rows segs o then None
  else match gm_body ccols rows segs o with
       | [] => Some (gene_first CNA_REQUIRED_COLUMNS, [])
       | (_ :: _) as fr => Some (render (gm_columns ccols segs) (min_probes_filter (o_min_probes o) fr))
       end.
End Full.

(* ---- squash_genes: all columns ------------------------------------------------------------------ *)

Definition bin_cell (b : bin) (c : string) : cell :=
  if String.eqb c COL_CHROM then CS (b_chr b)
  else if String.eqb c COL_START then CZ (b_start b)
  else if String.eqb c COL_END then CZ (b_end b)
  else if String.eqb c COL_GENE then CS (b_gene b)
  else if String.eqb c COL_LOG2 then CQ (Some (b_log2 b))
  else if String.eqb c COL_DEPTH then CQ (Some (b_depth b))
  else if String.eqb c COL_WEIGHT then CQ (Some (b_weight b))
  else if String.eqb c COL_PROBES then CZ (b_probes b)
  else CQ None.

Definition xfield_values (x : string) (rows : list bin) : list Q :=
  if String.eqb x COL_DEPTH then map b_depth rows
  else if String.eqb x COL_WEIGHT then map b_weight rows
  else [].

Section Squash.
Variable est : list Q -> Q.           (* summary_func (default descriptives.biweight_location) *)

(* squash_rows for a group of two or more rows: the values in the fixed order of the code *)
Definition squash_values (ccols : list string) (name : string) (b0 : bin) (rows : list bin) : list cell :=
  [CS (b_chr b0); CZ (b_start b0); CZ (b_end (last rows b0)); CS name; CQ (Some (est (map b_log2 rows)))]
  ++ flat_map (fun x => if mem_string x ccols then [CQ (Some (est (xfield_values x rows)))] else []) SQUASH_XFIELDS
  ++ (if mem_string COL_PROBES ccols then [CZ (sumZ (map b_probes rows))] else []).

Definition squash_group_full (ccols : list string) (squash_antitarget : bool) (gr : group) : list (list cell) :=
  match snd gr with
  | [] => []
  | b0 :: rest =>
      if mem_string (fst gr) ANTITARGET_ALIASES && negb squash_antitarget
      then map (fun b => map (bin_cell b) ccols) (snd gr)
      else match rest with
           | [] => [map (bin_cell b0) ccols]
           | _ :: _ => [squash_values ccols (fst gr) b0 (snd gr)]
           end
  end.

(* as_rows(outrows): the tuples are read positionally under the table's own header; a tuple of
   another length is an error (None) *)
Definition squash_genes_full (ccols : list string) (ignore : list string) (squash_antitarget : bool)
  (rows : list bin) : option table :=
  let out := flat_map (squash_group_full ccols squash_antitarget) (by_gene ignore rows) in
  if forallb (fun r => Nat.eqb (length r) (length ccols)) out then Some (ccols, out) else None.
End Squash.

(* ---- the do_breaks table ---------------------------------------------------------------------------- *)

Definition brow_cells (k : brow) : list cell :=
  [CS (k_gene k); CS (k_chr k); CZ (k_loc k); CQ (Some (k_change k)); CZ (k_left k); CZ (k_right k)].

Definition do_breaks_table (rows segs : list bin) (min_probes : Z) : table :=
  (BREAKS_COLUMNS, map brow_cells (do_breaks rows segs min_probes)).
