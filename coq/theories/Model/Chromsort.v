(* Model of skgenome/chromsort.py `sorter_chrom` on Coq strings and of the
   stable (key, start, end) sort of `GenomicArray.sort` (skgenome/gary.py):

     sort_key = chromosome.apply(sorter_chrom)
     data.assign(_sort_key_=sort_key)
         .sort_values(by=["_sort_key_", "start", "end"], kind="mergesort")

   sorter_chrom(label):
     chrom = label[3:] if label.lower().startswith("chr") else label
     if chrom in ("X", "Y"):   key = (1000, chrom)
     else:
       nums  = "".join(takewhile(str.isdigit, chrom)); chars = chrom[len(nums):]
       nums  = int(nums) if nums else 0
       if not chars:           key = (nums, "")
       elif len(chars) == 1:   key = (2000 + nums, chars)
       else:                   key = (3000 + nums, chars)

   Keys are Python tuples (int, str): compared by the integer, then by the
   string (lexicographic by code point = by byte for ASCII / UTF-8).
   No proofs here (see Proofs/ChromsortLemmas.v). *)
From CNV Require Import Base.Prelude Base.Str.

(* ---- sorter_chrom ------------------------------------------------------ *)

Definition chr_prefix : list ascii := ["c"; "h"; "r"]%char.

(* label[3:] if label.lower().startswith("chr") else label *)
Definition strip_chr (cs : list ascii) : list ascii :=
  if prefixb chr_prefix (lower cs) then skipn 3 cs else cs.

Fixpoint take_digits (cs : list ascii) : list ascii :=
  match cs with
  | c :: t => if is_digit c then c :: take_digits t else []
  | [] => []
  end.

Fixpoint drop_digits (cs : list ascii) : list ascii :=
  match cs with
  | c :: t => if is_digit c then drop_digits t else cs
  | [] => []
  end.

Definition digit_val (c : ascii) : Z := Z.of_nat (nat_of_ascii c) - 48.

(* int(nums) for a string of ASCII digits; 0 for the empty string *)
Definition digits_val (cs : list ascii) : Z :=
  fold_left (fun a c => 10 * a + digit_val c) cs 0.

Definition is_XY (cs : list ascii) : bool :=
  match cs with
  | [c] => Ascii.eqb c "X"%char || Ascii.eqb c "Y"%char
  | _ => false
  end.

Definition chrom_key_chars (label : list ascii) : Z * string :=
  let chrom := strip_chr label in
  if is_XY chrom then (1000, unchars chrom)
  else
    let n := digits_val (take_digits chrom) in
    match drop_digits chrom with
    | [] => (n, EmptyString)
    | [c] => (2000 + n, unchars [c])
    | rest => (3000 + n, unchars rest)
    end.

(* sorter_chrom *)
Definition chrom_key (label : string) : Z * string := chrom_key_chars (chars label).

(* ---- comparison of keys ------------------------------------------------- *)

(* Python tuple comparison (int, str) <= (int, str) *)
Definition ckey_compare (a b : Z * string) : comparison :=
  match Z.compare (fst a) (fst b) with
  | Eq => String.compare (snd a) (snd b)
  | c => c
  end.

Definition ckey_leb (a b : Z * string) : bool :=
  match ckey_compare a b with Gt => false | _ => true end.

Definition ckey_ltb (a b : Z * string) : bool :=
  match ckey_compare a b with Lt => true | _ => false end.

(* the row key of GenomicArray.sort: (sorter_chrom(chromosome), start, end) *)
Definition rkey : Type := (Z * string) * Z * Z.

Definition rkey_of (r : string * Z * Z) : rkey :=
  let '(c, s, e) := r in (chrom_key c, s, e).

Definition rkey_compare (a b : rkey) : comparison :=
  let '(ka, sa, ea) := a in
  let '(kb, sb, eb) := b in
  match ckey_compare ka kb with
  | Eq => match Z.compare sa sb with
          | Eq => Z.compare ea eb
          | c => c
          end
  | c => c
  end.

Definition rkey_leb (a b : rkey) : bool :=
  match rkey_compare a b with Gt => false | _ => true end.

(* ---- stable sort --------------------------------------------------------- *)

(* Stable insertion sort: [x] is placed before the first element it is <= to,
   so rows with equal keys keep their input order (mergesort / lexsort in the
   code; same function on lists for a total preorder). *)
Fixpoint insert_by {A} (leb : A -> A -> bool) (x : A) (l : list A) : list A :=
  match l with
  | [] => [x]
  | y :: t => if leb x y then x :: y :: t else y :: insert_by leb x t
  end.

Fixpoint stable_sort {A} (leb : A -> A -> bool) (l : list A) : list A :=
  match l with
  | [] => []
  | x :: t => insert_by leb x (stable_sort leb t)
  end.

(* rows of any type with a projection to (chromosome, start, end) *)
Definition region_leb {A} (proj : A -> string * Z * Z) (a b : A) : bool :=
  rkey_leb (rkey_of (proj a)) (rkey_of (proj b)).

(* GenomicArray.sort *)
Definition sort_regions {A} (proj : A -> string * Z * Z) (l : list A) : list A :=
  stable_sort (region_leb proj) l.

(* decorate-sort-undecorate variant computing each key once (same result,
   Proofs/ChromsortLemmas.v: sort_regions_fast_eq); use it in entries for speed. *)
Definition sort_regions_fast {A} (proj : A -> string * Z * Z) (l : list A) : list A :=
  map snd (stable_sort (fun a b => rkey_leb (fst a) (fst b))
             (map (fun x => (rkey_of (proj x), x)) l)).
