(* Field-level model of the skgenome.tabio readers and writers (C08).
   A line is the list of its tab-separated fields; a table row is
   (chromosome, start, end) plus the remaining fields as opaque text
   (labels; numeric columns are the tokens pandas prints / parses -- the
   %.6g / strtod step is on the code's side of the comparison).
   Every reader ends, as tabio.read does, with GenomicArray.sort
   (Model/Chromsort.v).  The +1/-1 literals are the generated offsets of
   Gen/Formats.v.  Column *order* (GenomicArray.sort_columns) is not modelled:
   rows are compared by column name.  No proofs here. *)
From CNV Require Import Base.Prelude Base.Str Model.Decimal Model.Chromsort Model.Sniff.
From CNV Require Import Gen.Formats.

Definition region : Type := string * Z * Z.
Definition line : Type := list string.
Definition row : Type := region * list string.          (* region, extra fields *)
Definition row_region (r : row) : string * Z * Z := fst r.

Definition sort_rows (t : list row) : list row := sort_regions row_region t.

Definition line_starts (p : string) (f : line) : bool := str_prefix p (fld 0 f).

(* ---- BED (bedio.py) --------------------------------------------------------- *)

(* track2track: an initial "browser " line is skipped, an initial track line is
   skipped, reading stops at the next track line *)
Fixpoint until_track (ls : list line) : list line :=
  match ls with
  | [] => []
  | f :: t => if line_starts "track" f then [] else f :: until_track t
  end.

Definition bed_body (ls : list line) : list line :=
  let l1 := match ls with
            | f :: t => if line_starts "browser " f then t else ls
            | [] => []
            end in
  match l1 with
  | [] => []
  | f :: t => (if line_starts "track" f then [] else [f]) ++ until_track t
  end.

(* _parse_line: chrom, int(start), int(end), gene (default '-'), strand (default '.') *)
Definition read_bed_line (f : line) : option row :=
  match f with
  | c :: s :: e :: rest =>
      match parse_Z s, parse_Z e with
      | Some s', Some e' =>
          Some ((c, s' + off_read_bed, e'),
                [nth 0 rest bed_default_gene; nth 2 rest bed_default_strand])
      | _, _ => None
      end
  | _ => None
  end.

Definition read_bed (ls : list line) : option (list row) :=
  option_map sort_rows (all_some (map read_bed_line (bed_body ls))).

(* read_bed3 / read_bed4: column selections of read_bed *)
Definition keep_extras (n : nat) (r : row) : row := (fst r, firstn n (snd r)).
Definition read_bed3 (ls : list line) : option (list row) :=
  option_map (fun t => sort_rows (map (keep_extras 0) t)) (all_some (map read_bed_line (bed_body ls))).
Definition read_bed4 (ls : list line) : option (list row) :=
  option_map (fun t => sort_rows (map (keep_extras 1) t)) (all_some (map read_bed_line (bed_body ls))).

Definition coord_fields (off : Z) (g : region) : line :=
  let '(c, s, e) := g in [c; print_Z (s + off); print_Z e].

(* write_bed3: chromosome, start, end *)
Definition bed3_line (r : row) : line := coord_fields off_write_bed3 (fst r).
Definition write_bed3 (t : list row) : list line := map bed3_line t.

(* write_bed4: + gene (first extra field; the harness passes the default '-'
   column when the table has no gene column, as write_bed4 fills it in) *)
Definition bed4_line (r : row) : line :=
  coord_fields off_write_bed4 (fst r) ++ [nth 0 (snd r) bed_default_gene].
Definition write_bed4 (t : list row) : list line := map bed4_line t.

(* ---- tab (tab.py): header row, arbitrary extra columns ------------------------ *)

Fixpoint index_of (x : string) (l : list string) (i : nat) : option nat :=
  match l with
  | [] => None
  | y :: t => if String.eqb x y then Some i else index_of x t (S i)
  end.

Fixpoint drop_idx {A} (skip : list nat) (l : list A) (i : nat) : list A :=
  match l with
  | [] => []
  | x :: t => if existsb (Nat.eqb i) skip then drop_idx skip t (S i) else x :: drop_idx skip t (S i)
  end.

Definition required_cols : list string := ["chromosome"; "start"; "end"]%string.

Definition tab_line (r : row) : line := coord_fields off_write_tab (fst r) ++ snd r.
Definition write_tab (header : list string) (t : list row) : list line :=
  (required_cols ++ header) :: map tab_line t.

Definition read_tab_row (ncol ic is_ ie : nat) (f : line) : option row :=
  if negb (length f =? ncol)%nat then None else
  match parse_Z (nth is_ f EmptyString), parse_Z (nth ie f EmptyString) with
  | Some s, Some e => Some ((nth ic f EmptyString, s + off_read_tab, e), drop_idx [ic; is_; ie] f 0)
  | _, _ => None
  end.

(* result: names of the extra columns (file order) and the sorted rows;
   an empty file is a blank table (EmptyDataError branch of tabio.read) *)
Definition read_tab (ls : list line) : option (list string * list row) :=
  match ls with
  | [] => Some ([], [])
  | h :: rows =>
      match index_of "chromosome" h 0, index_of "start" h 0, index_of "end" h 0 with
      | Some ic, Some is_, Some ie =>
          match all_some (map (read_tab_row (length h) ic is_ ie) rows) with
          | Some t => Some (drop_idx [ic; is_; ie] h 0, sort_rows t)
          | None => None
          end
      | _, _, _ => None
      end
  end.

(* ---- Picard interval list (picard.py) ----------------------------------------- *)

(* extras of an interval row: [gene; strand] *)
Definition interval_line (r : row) : line :=
  let '(c, s, e) := fst r in
  [c; print_Z (s + off_write_interval); print_Z e;
   nth 1 (snd r) interval_default_strand; nth 0 (snd r) interval_default_gene].
Definition write_interval (t : list row) : list line := map interval_line t.

Definition read_interval_line (f : line) : option row :=
  match f with
  | [c; s; e; strand; gene] =>
      match parse_Z s, parse_Z e with
      | Some s', Some e' =>
          Some ((c, s' + off_read_interval, e'),
                [if String.eqb gene "" then interval_default_gene else gene; strand])
      | _, _ => None
      end
  | _ => None
  end.

(* comment="@": SAM header lines are dropped *)
Definition read_interval (ls : list line) : option (list row) :=
  option_map sort_rows
    (all_some (map read_interval_line (filter (fun f => negb (line_starts "@" f)) ls))).

(* ---- chr:start-end text (textcoord.py + rangelabel.py) ------------------------- *)

Definition to_label (g : region) : string :=
  let '(c, s, e) := g in
  (c ++ ":" ++ print_Z (s + off_to_label) ++ "-" ++ print_Z e)%string.

(* write_text: one field per line; nothing but the label is written *)
Definition text_line (r : row) : line :=
  let '(c, s, e) := fst r in [to_label (c, s + off_write_text, e)].
Definition write_text (t : list row) : list line := map text_line t.

Definition read_text_line (s : string) : option row :=
  match parse_label s with
  | Some (Some c, Some st, Some en, g) =>
      Some ((c, st + off_read_text, en), [if String.eqb g "" then text_default_gene else g])
  | _ => None
  end.

(* text lines are not tab-split by the code: the fields are joined again *)
Fixpoint join_tab (f : line) : string :=
  match f with
  | [] => EmptyString
  | [x] => x
  | x :: t => (x ++ String (ascii_of_nat 9) (join_tab t))%string
  end.

Definition read_text (ls : list line) : option (list row) :=
  option_map sort_rows (all_some (map (fun f => read_text_line (join_tab f)) ls)).

(* ---- SEG (seg.py, export.export_seg, import-seg) -------------------------------- *)

Definition seg_header (probes : bool) : line :=
  ["ID"; "chrom"; "loc.start"; "loc.end"]%string
  ++ (if probes then ["num.mark"%string] else []) ++ ["seg.mean"%string].

(* extras of a segment row: [probes; log2] or [log2]; rows keep table order *)
Definition seg_line (sid : string) (r : row) : line :=
  let '(c, s, e) := fst r in sid :: c :: print_Z (s + off_write_seg) :: print_Z e :: snd r.
Definition write_seg_rows (sid : string) (t : list row) : list line := map (seg_line sid) t.

(* export_seg(..., chrom_ids=False): names written unchanged *)
Definition write_seg (probes : bool) (samples : list (string * list row)) : list line :=
  seg_header probes :: concat (map (fun sr => write_seg_rows (fst sr) (snd sr)) samples).

(* create_chrom_ids(first sample): i+1 for the i-th distinct name unless it already reads i+1 *)
Fixpoint distinct_names (seen : list string) (l : list string) : list string :=
  match l with
  | [] => []
  | x :: t => if mem_string x seen then distinct_names seen t else x :: distinct_names (x :: seen) t
  end.

Fixpoint chrom_ids_aux (names : list string) (i : Z) : list (string * string) :=
  match names with
  | [] => []
  | c :: t => (if String.eqb (print_Z i) c then [] else [(c, print_Z i)]) ++ chrom_ids_aux t (i + 1)
  end.

Definition create_chrom_ids (first : list row) : list (string * string) :=
  chrom_ids_aux (distinct_names [] (map (fun r => fst (fst (fst r))) first)) 1.

Fixpoint lookup (k : string) (m : list (string * string)) : string :=
  match m with
  | [] => k
  | (a, b) :: t => if String.eqb a k then b else lookup k t
  end.

(* tabio.write(..., "seg") / chrom_ids in (None, True): names replaced by integer ids *)
Definition write_seg_ids (probes : bool) (samples : list (string * list row)) : list line :=
  let ids := match samples with [] => [] | s :: _ => create_chrom_ids (snd s) end in
  seg_header probes ::
  concat (map (fun sr =>
                 write_seg_rows (fst sr)
                   (map (fun r => let '(c, s, e) := fst r in ((lookup c ids, s, e), snd r)) (snd sr)))
              samples).

(* parse_seg: lines without a tab before the header are skipped; the first line
   with tabs is the header and fixes 5 or 6 columns *)
Fixpoint seg_find_header (ls : list line) : option (nat * list line) :=
  match ls with
  | [] => None
  | f :: t => if (length f =? 1)%nat then seg_find_header t
              else if (length f =? 6)%nat || (length f =? 5)%nat then Some (length f, t) else None
  end.

Definition read_seg_line (ncol : nat) (f : line) : option (string * row) :=
  if negb (length f =? ncol)%nat then None else
  match f with
  | sid :: c :: s :: e :: rest =>
      match parse_Z s, parse_Z e with
      | Some s', Some e' => Some (sid, ((c, s' + off_read_seg, e'), rest ++ [seg_gene]))
      | _, _ => None
      end
  | _ => None
  end.

(* groupby(by="sample_id", sort=False): groups in order of first appearance *)
Fixpoint group_insert {A} (sid : string) (r : A) (groups : list (string * list A)) : list (string * list A) :=
  match groups with
  | [] => [(sid, [r])]
  | (k, rs) :: t => if String.eqb k sid then (k, rs ++ [r]) :: t else (k, rs) :: group_insert sid r t
  end.

Definition group_rows {A} (l : list (string * A)) : list (string * list A) :=
  fold_left (fun g p => group_insert (fst p) (snd p) g) l [].

(* parse_seg: samples in order of first appearance, rows in file order (unsorted);
   extras = file extras ++ [gene "-"] *)
Definition parse_seg (ls : list line) : option (list (string * list row)) :=
  match seg_find_header ls with
  | None => None
  | Some (ncol, body) => option_map group_rows (all_some (map (read_seg_line ncol) body))
  end.

(* import-seg followed by reading the written .cns (tab) files: every sample sorted *)
Definition import_seg (ls : list line) : option (list (string * list row)) :=
  option_map (map (fun sr => (fst sr, sort_rows (snd sr)))) (parse_seg ls).

(* tabio.read(f, "seg"): the first sample, sorted *)
Definition read_seg_first (ls : list line) : option (list row) :=
  match import_seg ls with
  | Some (s :: _) => Some (snd s)
  | _ => None
  end.

(* ---- readers without a writer in scope: GFF, VCF, Picard per-target ------------- *)

(* coordinates only; read_gff pre-sorts by (chromosome string, start, end) *)
Definition str_region_leb (a b : region) : bool :=
  let '(ca, sa, ea) := a in
  let '(cb, sb, eb) := b in
  match String.compare ca cb with
  | Lt => true
  | Gt => false
  | Eq => match Z.compare sa sb with Lt => true | Gt => false | Eq => (ea <=? eb) end
  end.

Definition read_gff_line (f : line) : option region :=
  match f with
  | [c; _; _; s; e; _; _; _; _] =>
      match parse_Z s, parse_Z e with
      | Some s', Some e' => Some (c, s' + off_read_gff, e')
      | _, _ => None
      end
  | _ => None
  end.

Definition read_gff (ls : list line) : option (list region) :=
  option_map (fun t => sort_regions (fun g => g) (stable_sort str_region_leb t))
    (all_some (map read_gff_line (filter (fun f => negb (line_starts "#" f)) ls))).

(* VCF data line -> (chromosome, 0-based start); vcfsimple readers *)
Definition read_vcf_line (off : Z) (f : line) : option (string * Z) :=
  match f with
  | c :: p :: _ => match parse_Z p with Some p' => Some (c, p' + off) | None => None end
  | _ => None
  end.

Definition read_vcf_starts (off : Z) (ls : list line) : option (list (string * Z)) :=
  all_some (map (read_vcf_line off) (filter (fun f => negb (line_starts "#" f)) ls)).

(* Picard CalculateHsMetrics per-target table: header row, then
   chrom start end length name %gc mean_coverage normalized_coverage *)
Definition read_picardhs_line (f : line) : option row :=
  match f with
  | c :: s :: e :: _ :: name :: _ =>
      match parse_Z s, parse_Z e with
      | Some s', Some e' => Some ((c, s' + off_read_picardhs, e'), [name])
      | _, _ => None
      end
  | _ => None
  end.

Definition read_picardhs (ls : list line) : option (list row) :=
  match ls with
  | [] => Some []
  | _ :: body => option_map sort_rows (all_some (map read_picardhs_line body))
  end.

(* write_picard_hs: coordinates, length and name (the float columns are not modelled) *)
Definition write_picardhs_coords (t : list row) : list line :=
  map (fun r => let '(c, s, e) := fst r in
                [c; print_Z (s + off_write_picardhs); print_Z e; print_Z (e - s);
                 nth 0 (snd r) EmptyString]) t.

(* ---- read_auto -------------------------------------------------------------------- *)

Inductive auto_result :=
| AutoRows (fmt : string) (t : list row)
| AutoTab (header : list string) (t : list row)
| AutoRegions (fmt : string) (t : list region)
| AutoUnsupported (fmt : string)
| AutoUnrecognized
| AutoParseError (fmt : string).

Definition read_auto (hint : option string) (ls : list line) : auto_result :=
  match sniff_lines hint ls with
  | None =>                                   (* blank file: read as bed3 *)
      match read_bed3 ls with Some t => AutoRows "bed3" t | None => AutoParseError "bed3" end
  | Some (Fmt name) =>
      if String.eqb name "bed" then
        match read_bed ls with Some t => AutoRows name t | None => AutoParseError name end
      else if String.eqb name "text" then
        match read_text ls with Some t => AutoRows name t | None => AutoParseError name end
      else if String.eqb name "interval" then
        match read_interval ls with Some t => AutoRows name t | None => AutoParseError name end
      else if String.eqb name "tab" then
        match read_tab ls with Some (h, t) => AutoTab h t | None => AutoParseError name end
      else if String.eqb name "gff" then
        match read_gff ls with Some t => AutoRegions name t | None => AutoParseError name end
      else AutoUnsupported name
  | Some _ => AutoUnrecognized
  end.
