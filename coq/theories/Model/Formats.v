(* Field-level model of the skgenome.tabio readers and writers (C08).
   A line is the list of its tab-separated fields; a table row is
   (chromosome, start, end) plus the remaining fields as opaque text
   (labels; numeric columns are the tokens pandas prints / parses -- the
   %.6g / strtod step is on the code's side of the comparison).
   Every reader ends, as tabio.read does, with GenomicArray.sort
   (Model/Chromsort.v).  The +1/-1 literals are the generated offsets of
   Gen/Formats.v.  Column *order* (GenomicArray.sort_columns) is not modelled:
   rows are compared by column name.  Second half of the file (extension): GFF gene labels,
   type filter and pre-sort; SEG read through a chromosome-name map; Picard per-target columns;
   VCF record ends.  No proofs here. *)
From CNV Require Import Base.Prelude Base.Str Model.Decimal Model.Chromsort Model.Sniff.
From CNV Require Import Gen.Formats.

Definition region : Type := string * Z * Z.
Definition line : Type := list string.
Definition row : Type := region * list string.          (* region, extra fields *)
Definition row_region (r : row) : string * Z * Z := fst r.

Definition sort_rows (t : list row) : list row := sort_regions row_region t.

Definition line_starts (p : string) (f : line) : bool := str_prefix p (fld 0 f).

(* ---- BED (bedio.py) --------------------------------------------------------- *)

(* track2track: an initial "browser " line is skipped, an initial track line is
   skipped, reading stops at the next track line *)
Fixpoint until_track (ls : list line) : list line :=
  match ls with
  | [] => []
  | f :: t => if line_starts "track" f then [] else f :: until_track t
  end.

Definition bed_body (ls : list line) : list line :=
  let l1 := match ls with
            | f :: t => if line_starts "browser " f then t else ls
            | [] => []
            end in
  match l1 with
  | [] => []
  | f :: t => (if line_starts "track" f then [] else [f]) ++ until_track t
  end.

(* str.rstrip(): trailing white space removed (Python's isspace on ASCII = Sniff.is_space) *)
Fixpoint drop_while {A} (p : A -> bool) (l : list A) : list A :=
  match l with
  | x :: t => if p x then drop_while p t else l
  | [] => []
  end.
Definition rstrip_ws (s : string) : string := unchars (rev (drop_while is_space (rev (chars s)))).

(* _parse_line: fields = line.split("\t", 6); chrom, int(start), int(end),
   gene = fields[3].rstrip() if len(fields) >= 4 else '-',
   strand = fields[5].rstrip() if len(fields) >= 6 else '.'.
   The column-count rule: 3 columns -> ('-', '.'), 4 or 5 -> (name, '.'), 6 and more ->
   (name, strand); score, thickStart/End, itemRgb and the block columns are never looked at. *)
Definition read_bed_line (f : line) : option row :=
  match f with
  | c :: s :: e :: rest =>
      match parse_Z s, parse_Z e with
      | Some s', Some e' =>
          Some ((c, s' + off_read_bed, e'),
                [rstrip_ws (nth 0 rest bed_default_gene); rstrip_ws (nth 2 rest bed_default_strand)])
      | _, _ => None
      end
  | _ => None
  end.

Definition read_bed (ls : list line) : option (list row) :=
  option_map sort_rows (all_some (map read_bed_line (bed_body ls))).

(* read_bed3 / read_bed4: column selections of read_bed *)
Definition keep_extras (n : nat) (r : row) : row := (fst r, firstn n (snd r)).
Definition read_bed3 (ls : list line) : option (list row) :=
  option_map (fun t => sort_rows (map (keep_extras 0) t)) (all_some (map read_bed_line (bed_body ls))).
Definition read_bed4 (ls : list line) : option (list row) :=
  option_map (fun t => sort_rows (map (keep_extras 1) t)) (all_some (map read_bed_line (bed_body ls))).

Definition coord_fields (off : Z) (g : region) : line :=
  let '(c, s, e) := g in [c; print_Z (s + off); print_Z e].

(* write_bed3: chromosome, start, end *)
Definition bed3_line (r : row) : line := coord_fields off_write_bed3 (fst r).
Definition write_bed3 (t : list row) : list line := map bed3_line t.

(* write_bed4: + gene (first extra field; the harness passes the default '-'
   column when the table has no gene column, as write_bed4 fills it in) *)
Definition bed4_line (r : row) : line :=
  coord_fields off_write_bed4 (fst r) ++ [nth 0 (snd r) bed_default_gene].
Definition write_bed4 (t : list row) : list line := map bed4_line t.

(* write_bed ("bed"): a 3-column frame goes through write_bed3, anything else is written
   as it is, every trailing column kept in table order *)
Definition bed_line (r : row) : line :=
  match snd r with
  | [] => bed3_line r
  | ex => coord_fields off_write_bed (fst r) ++ ex
  end.
Definition write_bed (t : list row) : list line := map bed_line t.

(* ---- tab (tab.py): header row, arbitrary extra columns ------------------------ *)

Fixpoint index_of (x : string) (l : list string) (i : nat) : option nat :=
  match l with
  | [] => None
  | y :: t => if String.eqb x y then Some i else index_of x t (S i)
  end.

Fixpoint drop_idx {A} (skip : list nat) (l : list A) (i : nat) : list A :=
  match l with
  | [] => []
  | x :: t => if existsb (Nat.eqb i) skip then drop_idx skip t (S i) else x :: drop_idx skip t (S i)
  end.

Definition required_cols : list string := ["chromosome"; "start"; "end"]%string.

Definition tab_line (r : row) : line := coord_fields off_write_tab (fst r) ++ snd r.
Definition write_tab (header : list string) (t : list row) : list line :=
  (required_cols ++ header) :: map tab_line t.

Definition read_tab_row (ncol ic is_ ie : nat) (f : line) : option row :=
  if negb (length f =? ncol)%nat then None else
  match parse_Z (nth is_ f EmptyString), parse_Z (nth ie f EmptyString) with
  | Some s, Some e => Some ((nth ic f EmptyString, s + off_read_tab, e), drop_idx [ic; is_; ie] f 0)
  | _, _ => None
  end.

(* result: names of the extra columns (file order) and the sorted rows;
   an empty file is a blank table (EmptyDataError branch of tabio.read) *)
Definition read_tab (ls : list line) : option (list string * list row) :=
  match ls with
  | [] => Some ([], [])
  | h :: rows =>
      match index_of "chromosome" h 0, index_of "start" h 0, index_of "end" h 0 with
      | Some ic, Some is_, Some ie =>
          match all_some (map (read_tab_row (length h) ic is_ ie) rows) with
          | Some t => Some (drop_idx [ic; is_; ie] h 0, sort_rows t)
          | None => None
          end
      | _, _, _ => None
      end
  end.

(* ---- Picard interval list (picard.py) ----------------------------------------- *)

(* extras of an interval row: [gene; strand] *)
Definition interval_line (r : row) : line :=
  let '(c, s, e) := fst r in
  [c; print_Z (s + off_write_interval); print_Z e;
   nth 1 (snd r) interval_default_strand; nth 0 (snd r) interval_default_gene].
Definition write_interval (t : list row) : list line := map interval_line t.

Definition read_interval_line (f : line) : option row :=
  match f with
  | [c; s; e; strand; gene] =>
      match parse_Z s, parse_Z e with
      | Some s', Some e' =>
          Some ((c, s' + off_read_interval, e'),
                [if String.eqb gene "" then interval_default_gene else gene; strand])
      | _, _ => None
      end
  | _ => None
  end.

(* comment="@": SAM header lines are dropped *)
Definition read_interval (ls : list line) : option (list row) :=
  option_map sort_rows
    (all_some (map read_interval_line (filter (fun f => negb (line_starts "@" f)) ls))).

(* ---- chr:start-end text (textcoord.py + rangelabel.py) ------------------------- *)

Definition to_label (g : region) : string :=
  let '(c, s, e) := g in
  (c ++ ":" ++ print_Z (s + off_to_label) ++ "-" ++ print_Z e)%string.

(* write_text: one field per line; nothing but the label is written *)
Definition text_line (r : row) : line :=
  let '(c, s, e) := fst r in [to_label (c, s + off_write_text, e)].
Definition write_text (t : list row) : list line := map text_line t.

Definition read_text_line (s : string) : option row :=
  match parse_label s with
  | Some (Some c, Some st, Some en, g) =>
      Some ((c, st + off_read_text, en), [if String.eqb g "" then text_default_gene else g])
  | _ => None
  end.

(* text lines are not tab-split by the code: the fields are joined again *)
Fixpoint join_tab (f : line) : string :=
  match f with
  | [] => EmptyString
  | [x] => x
  | x :: t => (x ++ String (ascii_of_nat 9) (join_tab t))%string
  end.

Definition read_text (ls : list line) : option (list row) :=
  option_map sort_rows (all_some (map (fun f => read_text_line (join_tab f)) ls)).

(* ---- SEG (seg.py, export.export_seg, import-seg) -------------------------------- *)

Definition seg_header (probes : bool) : line :=
  ["ID"; "chrom"; "loc.start"; "loc.end"]%string
  ++ (if probes then ["num.mark"%string] else []) ++ ["seg.mean"%string].

(* extras of a segment row: [probes; log2] or [log2]; rows keep table order *)
Definition seg_line (sid : string) (r : row) : line :=
  let '(c, s, e) := fst r in sid :: c :: print_Z (s + off_write_seg) :: print_Z e :: snd r.
Definition write_seg_rows (sid : string) (t : list row) : list line := map (seg_line sid) t.

(* export_seg(..., chrom_ids=False): names written unchanged *)
Definition write_seg (probes : bool) (samples : list (string * list row)) : list line :=
  seg_header probes :: concat (map (fun sr => write_seg_rows (fst sr) (snd sr)) samples).

(* create_chrom_ids(first sample): i+1 for the i-th distinct name unless it already reads i+1 *)
Fixpoint distinct_names (seen : list string) (l : list string) : list string :=
  match l with
  | [] => []
  | x :: t => if mem_string x seen then distinct_names seen t else x :: distinct_names (x :: seen) t
  end.

Fixpoint chrom_ids_aux (names : list string) (i : Z) : list (string * string) :=
  match names with
  | [] => []
  | c :: t => (if String.eqb (print_Z i) c then [] else [(c, print_Z i)]) ++ chrom_ids_aux t (i + 1)
  end.

Definition create_chrom_ids (first : list row) : list (string * string) :=
  chrom_ids_aux (distinct_names [] (map (fun r => fst (fst (fst r))) first)) 1.

Fixpoint lookup (k : string) (m : list (string * string)) : string :=
  match m with
  | [] => k
  | (a, b) :: t => if String.eqb a k then b else lookup k t
  end.

(* tabio.write(..., "seg") / chrom_ids in (None, True): names replaced by integer ids *)
Definition write_seg_ids (probes : bool) (samples : list (string * list row)) : list line :=
  let ids := match samples with [] => [] | s :: _ => create_chrom_ids (snd s) end in
  seg_header probes ::
  concat (map (fun sr =>
                 write_seg_rows (fst sr)
                   (map (fun r => let '(c, s, e) := fst r in ((lookup c ids, s, e), snd r)) (snd sr)))
              samples).

(* parse_seg: lines without a tab before the header are skipped; the first line
   with tabs is the header and fixes 5 or 6 columns *)
Fixpoint seg_find_header (ls : list line) : option (nat * list line) :=
  match ls with
  | [] => None
  | f :: t => if (length f =? 1)%nat then seg_find_header t
              else if (length f =? 6)%nat || (length f =? 5)%nat then Some (length f, t) else None
  end.

Definition read_seg_line (ncol : nat) (f : line) : option (string * row) :=
  if negb (length f =? ncol)%nat then None else
  match f with
  | sid :: c :: s :: e :: rest =>
      match parse_Z s, parse_Z e with
      | Some s', Some e' => Some (sid, ((c, s' + off_read_seg, e'), rest ++ [seg_gene]))
      | _, _ => None
      end
  | _ => None
  end.

(* groupby(by="sample_id", sort=False): groups in order of first appearance *)
Fixpoint group_insert {A} (sid : string) (r : A) (groups : list (string * list A)) : list (string * list A) :=
  match groups with
  | [] => [(sid, [r])]
  | (k, rs) :: t => if String.eqb k sid then (k, rs ++ [r]) :: t else (k, rs) :: group_insert sid r t
  end.

Definition group_rows {A} (l : list (string * A)) : list (string * list A) :=
  fold_left (fun g p => group_insert (fst p) (snd p) g) l [].

(* parse_seg: samples in order of first appearance, rows in file order (unsorted);
   extras = file extras ++ [gene "-"] *)
Definition parse_seg (ls : list line) : option (list (string * list row)) :=
  match seg_find_header ls with
  | None => None
  | Some (ncol, body) => option_map group_rows (all_some (map (read_seg_line ncol) body))
  end.

(* import-seg followed by reading the written .cns (tab) files: every sample sorted *)
Definition import_seg (ls : list line) : option (list (string * list row)) :=
  option_map (map (fun sr => (fst sr, sort_rows (snd sr)))) (parse_seg ls).

(* tabio.read(f, "seg"): the first sample, sorted *)
Definition read_seg_first (ls : list line) : option (list row) :=
  match import_seg ls with
  | Some (s :: _) => Some (snd s)
  | _ => None
  end.

(* ---- readers without a writer in scope: GFF, VCF, Picard per-target ------------- *)

(* coordinates only; read_gff pre-sorts by (chromosome string, start, end) *)
Definition str_region_leb (a b : region) : bool :=
  let '(ca, sa, ea) := a in
  let '(cb, sb, eb) := b in
  match String.compare ca cb with
  | Lt => true
  | Gt => false
  | Eq => match Z.compare sa sb with Lt => true | Gt => false | Eq => (ea <=? eb) end
  end.

Definition read_gff_line (f : line) : option region :=
  match f with
  | [c; _; _; s; e; _; _; _; _] =>
      match parse_Z s, parse_Z e with
      | Some s', Some e' => Some (c, s' + off_read_gff, e')
      | _, _ => None
      end
  | _ => None
  end.

Definition read_gff (ls : list line) : option (list region) :=
  option_map (fun t => sort_regions (fun g => g) (stable_sort str_region_leb t))
    (all_some (map read_gff_line (filter (fun f => negb (line_starts "#" f)) ls))).

(* VCF data line -> (chromosome, 0-based start); vcfsimple readers *)
Definition read_vcf_line (off : Z) (f : line) : option (string * Z) :=
  match f with
  | c :: p :: _ => match parse_Z p with Some p' => Some (c, p' + off) | None => None end
  | _ => None
  end.

Definition read_vcf_starts (off : Z) (ls : list line) : option (list (string * Z)) :=
  all_some (map (read_vcf_line off) (filter (fun f => negb (line_starts "#" f)) ls)).

(* Picard CalculateHsMetrics per-target table: header row, then
   chrom start end length name %gc mean_coverage normalized_coverage *)
Definition read_picardhs_line (f : line) : option row :=
  match f with
  | c :: s :: e :: _ :: name :: _ =>
      match parse_Z s, parse_Z e with
      | Some s', Some e' => Some ((c, s' + off_read_picardhs, e'), [name])
      | _, _ => None
      end
  | _ => None
  end.

Definition read_picardhs (ls : list line) : option (list row) :=
  match ls with
  | [] => Some []
  | _ :: body => option_map sort_rows (all_some (map read_picardhs_line body))
  end.

(* write_picard_hs: coordinates, length and name (the float columns are not modelled) *)
Definition write_picardhs_coords (t : list row) : list line :=
  map (fun r => let '(c, s, e) := fst r in
                [c; print_Z (s + off_write_picardhs); print_Z e; print_Z (e - s);
                 nth 0 (snd r) EmptyString]) t.

(* ---- read_auto -------------------------------------------------------------------- *)

Inductive auto_result :=
| AutoRows (fmt : string) (t : list row)
| AutoTab (header : list string) (t : list row)
| AutoRegions (fmt : string) (t : list region)
| AutoUnsupported (fmt : string)
| AutoUnrecognized
| AutoParseError (fmt : string).

Definition read_auto (hint : option string) (ls : list line) : auto_result :=
  match sniff_lines hint ls with
  | None =>                                   (* blank file: read as bed3 *)
      match read_bed3 ls with Some t => AutoRows "bed3" t | None => AutoParseError "bed3" end
  | Some (Fmt name) =>
      if String.eqb name "bed" then
        match read_bed ls with Some t => AutoRows name t | None => AutoParseError name end
      else if String.eqb name "text" then
        match read_text ls with Some t => AutoRows name t | None => AutoParseError name end
      else if String.eqb name "interval" then
        match read_interval ls with Some t => AutoRows name t | None => AutoParseError name end
      else if String.eqb name "tab" then
        match read_tab ls with Some (h, t) => AutoTab h t | None => AutoParseError name end
      else if String.eqb name "gff" then
        match read_gff ls with Some t => AutoRegions name t | None => AutoParseError name end
      else AutoUnsupported name
  | Some _ => AutoUnrecognized
  end.

(* ==================================================================================== *)
(* Extension: GFF gene labels / type filter, SEG with enumerated chromosome ids read back
   through a name map, Picard per-target columns, VCF record ends.                       *)

(* ---- GFF: gene label from the attribute column (gff.py) ---------------------------------
   rx = re.compile(tag + TAIL) with TAIL = Gen.Formats.pat_gff_gene, i.e. [= ] Q? (?P<gene>\S+?) Q? (;|$) where Q is the double quote;  attribute.str.extract(rx)[gene]
   i.e. re.search: leftmost start, alternatives of `tag` in order, greedy optional quote with
   backtracking, lazy \S+? up to the first place where an optional quote is followed by ';'
   or the end of the field.  `tag` is modelled as the list of its literal alternatives
   (Gen.Formats.gff_default_tags for the default '(Name|gene_id|gene_name|gene)'); '$' is
   the end of the field (fields carry no newline). *)

Definition dquote : ascii := ascii_of_nat 34.
Definition semicolon : ascii := ";"%char.

(* Q?(;|$) here, else one more \S and again *)
Fixpoint gff_gene_tail (acc : list ascii) (cs : list ascii) : option (list ascii) :=
  match cs with
  | [] => Some (rev acc)
  | c :: t =>
      if Ascii.eqb c dquote && (match t with [] => true | d :: _ => Ascii.eqb d semicolon end)
      then Some (rev acc)
      else if Ascii.eqb c semicolon then Some (rev acc)
      else if is_nonspace c then gff_gene_tail (c :: acc) t
      else None
  end.

(* (?P<gene>\S+?)Q?(;|$) : at least one non-space character *)
Definition gff_gene_body (cs : list ascii) : option (list ascii) :=
  match cs with
  | c :: t => if is_nonspace c then gff_gene_tail [c] t else None
  | [] => None
  end.

(* [= ]Q?... after the tag; the opening quote is tried first, then left to \S+? *)
Definition gff_after_tag (cs : list ascii) : option (list ascii) :=
  match cs with
  | sep :: r =>
      if Ascii.eqb sep "="%char || Ascii.eqb sep " "%char then
        match r with
        | q :: r' =>
            if Ascii.eqb q dquote then
              match gff_gene_body r' with Some g => Some g | None => gff_gene_body r end
            else gff_gene_body r
        | [] => None
        end
      else None
  | [] => None
  end.

Fixpoint strip_prefix (p cs : list ascii) : option (list ascii) :=
  match p, cs with
  | [], _ => Some cs
  | a :: p', b :: cs' => if Ascii.eqb a b then strip_prefix p' cs' else None
  | _ :: _, [] => None
  end.

Definition gff_try_tag (tg cs : list ascii) : option (list ascii) :=
  match strip_prefix tg cs with Some r => gff_after_tag r | None => None end.

(* the match anchored at the head of cs: first alternative that completes *)
Fixpoint gff_gene_at (tags : list (list ascii)) (cs : list ascii) : option (list ascii) :=
  match tags with
  | [] => None
  | tg :: more => match gff_try_tag tg cs with Some g => Some g | None => gff_gene_at more cs end
  end.

(* re.search: leftmost position with a match *)
Fixpoint gff_gene_search (tags : list (list ascii)) (cs : list ascii) : option (list ascii) :=
  match cs with
  | [] => gff_gene_at tags []
  | _ :: t => match gff_gene_at tags cs with Some g => Some g | None => gff_gene_search tags t end
  end.

(* gene column: the extracted group, '-' where nothing matches (fillna) *)
Definition gff_gene (tags : list string) (attr : string) : string :=
  match gff_gene_search (map chars tags) (chars attr) with
  | Some g => unchars g
  | None => gff_default_gene
  end.

(* extras of a GFF row: [gene; strand; type] *)
Definition read_gff_row (tags : list string) (f : line) : option row :=
  match f with
  | [c; _; ty; s; e; _; st; _; attr] =>
      match parse_Z s, parse_Z e with
      | Some s', Some e' => Some ((c, s' + off_read_gff, e'), [gff_gene tags attr; st; ty])
      | _, _ => None
      end
  | _ => None
  end.

Definition gff_type (r : row) : string := nth 2 (snd r) EmptyString.

(* sort_values(['chromosome', 'start', 'end']): plain string order of the names, stable *)
Definition gff_presort (t : list row) : list row :=
  stable_sort (fun a b => str_region_leb (fst a) (fst b)) t.

(* `if keep_type:` -- None and '' keep everything *)
Definition gff_keep (keep_type : option string) (r : row) : bool :=
  match keep_type with
  | None => true
  | Some ty => if String.eqb ty "" then true else String.eqb (gff_type r) ty
  end.

(* read_gff(infile, tag, keep_type) followed by GenomicArray.sort *)
Definition read_gff_full (tags : list string) (keep_type : option string) (ls : list line)
  : option (list row) :=
  option_map (fun t => sort_rows (filter (gff_keep keep_type) (gff_presort t)))
    (all_some (map (read_gff_row tags) (filter (fun f => negb (line_starts "#" f)) ls))).

(* ---- SEG read back through a chromosome-name map (import-seg -c / -p) -------------------- *)

Definition rename_chrom (f : string -> string) (r : row) : row :=
  let '(c, s, e) := fst r in ((f c, s, e), snd r).

(* parse_seg(infile, chrom_names, chrom_prefix): Series.replace(dict) maps whole values,
   all keys at once; then the prefix is prepended *)
Definition parse_seg_names (names : list (string * string)) (prefix : string) (ls : list line)
  : option (list (string * list row)) :=
  option_map (map (fun sr => (fst sr, map (rename_chrom (fun c => (prefix ++ lookup c names)%string)) (snd sr))))
    (parse_seg ls).

Definition import_seg_names (names : list (string * string)) (prefix : string) (ls : list line)
  : option (list (string * list row)) :=
  option_map (map (fun sr => (fst sr, sort_rows (snd sr)))) (parse_seg_names names prefix ls).

(* the map that undoes create_chrom_ids: the i-th distinct name of the first sample was
   written as i+1 (whether or not it already read i+1) *)
Fixpoint ids_inverse_aux (names : list string) (i : Z) : list (string * string) :=
  match names with
  | [] => []
  | c :: t => (print_Z i, c) :: ids_inverse_aux t (i + 1)
  end.

Definition first_names (first : list row) : list string :=
  distinct_names [] (map (fun r => fst (fst (fst r))) first).

Definition seg_ids_inverse (first : list row) : list (string * string) :=
  ids_inverse_aux (first_names first) 1.

(* ---- Picard per-target table, all columns: extras [name; %gc; mean_coverage; normalized] ---- *)
Definition read_picardhs_full_line (f : line) : option row :=
  match f with
  | [c; s; e; _; name; gc; cov; norm] =>
      match parse_Z s, parse_Z e with
      | Some s', Some e' => Some ((c, s' + off_read_picardhs, e'), [name; gc; cov; norm])
      | _, _ => None
      end
  | _ => None
  end.

Definition read_picardhs_full (ls : list line) : option (list row) :=
  match ls with
  | [] => Some []
  | _ :: body => option_map sort_rows (all_some (map read_picardhs_full_line body))
  end.

Definition picardhs_header : line :=
  ["chrom"; "start"; "end"; "length"; "name"; "%gc"; "mean_coverage"; "normalized_coverage"]%string.

(* ---- VCF record ends ------------------------------------------------------------------------ *)

Definition slen (s : string) : Z := Z.of_nat (String.length s).

(* the text after the first occurrence of p (str.find) *)
Fixpoint after_first (p cs : list ascii) : option (list ascii) :=
  match strip_prefix p cs with
  | Some r => Some r
  | None => match cs with [] => None | _ :: t => after_first p t end
  end.

Fixpoint take_until (c : ascii) (cs : list ascii) : list ascii :=
  match cs with
  | x :: t => if Ascii.eqb x c then [] else x :: take_until c t
  | [] => []
  end.

(* vcfsimple.parse_end_from_info: idx = info.find("END="); -1 if absent;
   int(text after it up to the next ';').  None = int() fails *)
Definition vcf_end_from_info (info : string) : option Z :=
  match after_first (chars vcf_end_key) (chars info) with
  | None => Some vcf_end_missing
  | Some r => parse_Z (unchars (take_until semicolon r))
  end.

(* vcfsimple.set_ends: where end == -1, end = start + max(0, len(alt) - len(ref)) *)
Definition vcf_simple_end (start : Z) (ref alt info : string) : option Z :=
  match vcf_end_from_info info with
  | Some e => Some (if e =? vcf_end_missing then start + Z.max vcf_end_clip (slen alt - slen ref) else e)
  | None => None
  end.

(* extras [ref; alt] *)
Definition read_vcf_simple_row (off : Z) (f : line) : option row :=
  match f with
  | c :: p :: _ :: ref :: alt :: _ :: _ :: info :: _ =>
      match parse_Z p with
      | Some p' =>
          match vcf_simple_end (p' + off) ref alt info with
          | Some e => Some ((c, p' + off, e), [ref; alt])
          | None => None
          end
      | None => None
      end
  | _ => None
  end.

Definition read_vcf_simple_rows (off : Z) (ls : list line) : option (list row) :=
  option_map sort_rows
    (all_some (map (read_vcf_simple_row off) (filter (fun f => negb (line_starts "#" f)) ls))).

(* vcfio._get_end(posn, alt, info): info["END"] if "END" in info else posn + len(alt).
   Whether the mapping record.info contains END is pysam's answer (an input of the model). *)
Definition vcfio_get_end (info_end : option Z) (posn : Z) (alt : string) : Z :=
  match info_end with Some e => e | None => posn + slen alt end.

Fixpoint split_on (c : ascii) (cur : list ascii) (cs : list ascii) : list (list ascii) :=
  match cs with
  | [] => [rev cur]
  | x :: t => if Ascii.eqb x c then rev cur :: split_on c [] t else split_on c (x :: cur) t
  end.

(* vcfio._parse_records: one row per ALT allele, '<NON_REF>' skipped, ALT '.' gives no row;
   start = record.start = POS - 1 (pysam) + the generated offset of _parse_records (0) *)
Definition read_vcfio_line (info_end : option Z) (f : line) : option (list row) :=
  match f with
  | c :: p :: _ :: ref :: alt :: _ =>
      match parse_Z p with
      | Some p' =>
          let start := p' - 1 + off_read_vcfio_after_pysam in
          if String.eqb alt "." then Some []
          else Some (map (fun a => ((c, start, vcfio_get_end info_end start a), [ref; a]))
                      (filter (fun a => negb (String.eqb a vcf_nonref))
                         (map unchars (split_on ","%char [] (chars alt)))))
      | None => None
      end
  | _ => None
  end.

(* lines paired with pysam's END answer *)
Definition read_vcfio (ls : list (option Z * line)) : option (list row) :=
  option_map (fun t => sort_rows (concat t))
    (all_some (map (fun p => read_vcfio_line (fst p) (snd p))
                 (filter (fun p => negb (line_starts "#" (snd p))) ls))).
