(* C17 -- model of cnvlib.segmetrics.do_segmetrics (make_ci_func, make_pi_func,
   calc_intervals, confidence_interval_bootstrap, _smooth_samples_by_weight) as the code
   is NOW.  Executable definitions only; lemmas are in Proofs/Segmetrics*.v.

   Granularity: a bin table (rows: chromosome, start, end, gene, log2, weight, optional
   depth) and a segment table in; one row of statistics per segment out.  NaN is [None].

   * The bins of a segment are selected by the C07 model of GenomicArray.iter_ranges_of
     (Model/Ranges.v: by_shared_chroms, idx_ranges, searchsorted ... on index labels);
     Proofs/Segmetrics.v shows that this is the plain "overlaps" filter on sorted tables.
   * The estimators of cnvlib/descriptives.py are C19's models (Model/Descriptives.v).
   * Statistics whose last step is a square root (stdev, bivar, sem) are modelled SQUARED
     (the harness compares squares).  Transcendental / external / random parts are
     oracles (record [oracles], one bundle per segment = what the library returned in
     that call); every theorem quantifies over them.
   * numpy's random draws enter twice: as seed-indexed oracles (record [oracles], used by
     do_segmetrics) and with the hidden global state made explicit ([rng], [ci_run],
     [calc_intervals_run]); Proofs/SegmetricsLib2.v shows the two agree, whatever state the
     process is in -- which is the reproducibility clause. *)
From CNV Require Import Base.Prelude Base.QNum Gen.Params Gen.SegmetricsDefaults Gen.DescDefaults
  Model.Ranges Model.Descriptives.
From Coq Require Import Qround Qabs.
Local Open Scope Q_scope.

(* ---- tables -------------------------------------------------------------- *)
Record bin := mkBin {
  b_chr : string; b_start : Z; b_end : Z; b_gene : string;
  b_log2 : Q; b_weight : Q; b_depth : option Q }.

Record seg := mkSeg {
  s_chr : string; s_start : Z; s_end : Z; s_gene : string;
  s_log2 : Q; s_probes : Z; s_weight : Q }.

(* a bin with its index label (position in the table the caller passed in; row filters
   such as drop_low_coverage keep the labels) *)
Definition tbin := (nat * bin)%type.
Definition tagged (bins : list bin) : list tbin := combine (seq 0 (length bins)) bins.

(* the coordinate view the range machinery of skgenome works on *)
Definition bin_trow (ib : tbin) : trow :=
  (b_chr (snd ib), mkRow (Z.of_nat (fst ib)) (b_start (snd ib)) (b_end (snd ib))).
Definition seg_trow (s : seg) : trow := (s_chr s, mkRow 0 (s_start s) (s_end s)).

(* ser[indices] / weights[ser.index]: look the selected index labels up again *)
Fixpoint find_bin (tb : list tbin) (id : Z) : option tbin :=
  match tb with
  | [] => None
  | ib :: t => if (Z.of_nat (fst ib) =? id)%Z then Some ib else find_bin t id
  end.
Definition rows_tbins (tb : list tbin) (rows : list row) : list tbin :=
  flat_map (fun r => match find_bin tb (r_id r) with Some ib => [ib] | None => [] end) rows.

(* cnarr.iter_ranges_of(segarr, "log2", mode, True): one selection per segment *)
Definition select_bins (m : qmode) (tb : list tbin) (segs : list seg) : list (list tbin) :=
  map (rows_tbins tb) (iter_ranges_of (map bin_trow tb) (map seg_trow segs) m true).

(* CopyNumArray.drop_low_coverage *)
Definition min_cvg : Q := Qred (NULL_LOG2_COVERAGE - MIN_REF_COVERAGE).
Definition is_low (b : bin) : bool :=
  qlt_b (b_log2 b) min_cvg ||
  match b_depth b with Some d => qeq_b d 0 | None => false end.
Definition drop_low_coverage (tb : list tbin) : list tbin :=
  filter (fun ib => negb (is_low (snd ib))) tb.

(* ---- moments ------------------------------------------------------------- *)
Definition sq_devs (l : list Q) : list Q :=
  let m := qmean l in map (fun x => qsq (qsub x m)) l.
(* population variance: np.std(Series) = Series.std(ddof=0), squared *)
Definition var_pop (l : list Q) : Q := qmean (sq_devs l).
(* sample variance, ddof = 1 *)
Definition var_ddof1 (l : list Q) : Q := qdiv (qsum (sq_devs l)) (qofnat (length l - 1)).

(* ---- location statistics on the bins' log2 ------------------------------- *)
Definition st_mean (a : list Q) : option Q :=
  match a with [] => None | _ => Some (qmean a) end.
Definition st_median (a : list Q) : option Q :=
  match a with [] => None | _ => Some (median a) end.

(* descriptives.modal_location; the KDE arg-max index is an oracle *)
Definition st_mode (kde_argmax : nat) (a : list Q) : option Q := modal_location_at a kde_argmax.

(* stats.ttest_1samp(a, 0.0)[1]: p-value of t = mean / sqrt(var1/n), two-sided,
   n-1 degrees of freedom; the Student-t tail is an oracle of (t^2, df).
   n < 2: NaN.  var1 = 0: t = +-inf (p = 0) or 0/0 (NaN). *)
Definition t_squared (a : list Q) : Q :=
  qdiv (qmul (qsq (qmean a)) (qofnat (length a))) (var_ddof1 a).
Definition st_pttest (tt : Q -> nat -> Q) (a : list Q) : option Q :=
  match a with
  | [] => None
  | [_] => None
  | _ => if qeq_b (var_ddof1 a) 0
         then (if qeq_b (qmean a) 0 then None else Some 0)
         else Some (tt (t_squared a) (length a - 1)%nat)
  end.

(* ---- spread statistics on the deviations d_i = log2_i - segment log2 ----- *)
Definition st_stdev_sq (d : list Q) : option Q :=
  match d with [] => None | _ => Some (var_pop d) end.

Definition st_mad (d : list Q) : option Q := median_absolute_deviation d MAD_SCALE_TO_SD.
(* mean_squared_error(a) after /repo 40f88ee: initial = None is not subtracted, the
   deviations are measured from zero: (a**2).mean()  (own definition: C19's mse_core
   follows the same repair on its own schedule) *)
Definition st_mse : list Q -> option Q :=
  on_array (Some MSE_DEFAULT) (fun a => Some (qmean (map qsq a))).
Definition st_iqr (d : list Q) : option Q := interquartile_range d.

(* biweight_midvariance SQUARED (c = 9, epsilon = 1e-3), located at biweight_location(a);
   the MAD fallback is taken when no masked deviation is non-zero ("if not w[mask].any()",
   /repo 2c65616); None also stands for the inf/NaN of a vanishing denominator *)
Definition bivar_masked (a : list Q) (initial : Q) : list (Q * Q) :=
  let d := sub_all initial a in
  let mad := median (abs_all d) in
  let scale := qmax2 (qmul BIVAR_C mad) BIVAR_EPS in
  let w := map (fun di => qdiv di scale) d in
  filter (fun p => qlt_b (qabs (snd p)) BIVAR_MASK_BOUND) (combine d w).
Definition bivar_num (dw : list (Q * Q)) : Q :=
  qsum (map (fun p => qmul (qsq (fst p)) (qpow (qsub 1 (qsq (snd p))) (Z.to_nat BIVAR_NUM_POW))) dw).
Definition bivar_den (dw : list (Q * Q)) : Q :=
  qsum (map (fun p => qmul (qsub 1 (qsq (snd p))) (qsub 1 (qmul BIVAR_DEN_COEF (qsq (snd p))))) dw).
Definition bivar_sq_at (a : list Q) (initial : Q) : option Q :=
  let dw := bivar_masked a initial in
  if forallb (fun p => qeq_b (snd p) 0) dw
  then Some (qsq (qmul (median (abs_all (sub_all initial a))) BIVAR_MAD_SCALE))
  else if qeq_b (bivar_den dw) 0 then None
  else Some (qdiv (qmul (qofnat (length dw)) (bivar_num dw)) (qsq (bivar_den dw))).
(* [loc] = biweight_location(a) as the library returned it: an oracle here (its exact
   iteration is C19's subject, Model/Descriptives.v biweight_location_core; iterating it in
   exact rationals squares the size of the numbers five times over) *)
Definition st_bivar_sq (loc : Q) : list Q -> option Q :=
  on_array (Some (qsq BIVAR_DEFAULT)) (fun a => bivar_sq_at a loc).

(* stats.sem: sqrt(var(ddof = 1) / n), squared *)
Definition st_sem_sq (d : list Q) : option Q :=
  match d with
  | [] => None
  | [_] => None
  | _ => Some (qdiv (var_ddof1 d) (qofnat (length d)))
  end.

(* ---- intervals ----------------------------------------------------------- *)
(* make_pi_func: np.percentile(ser, [100*alpha/2, 100*(1 - alpha/2)]) *)
Definition pi_pct_lo (alpha : Q) : Q := Qred (pi_hundred_lo * alpha / pi_two_lo).
Definition pi_pct_hi (alpha : Q) : Q := Qred (pi_hundred_hi * (pi_one_hi - alpha / pi_two_hi)).

Definition pi_func (alpha : Q) (vals : list Q) : option (Q * Q) :=
  match vals with
  | [] => None
  | _ => Some (percentile (pi_pct_lo alpha) vals, percentile (pi_pct_hi alpha) vals)
  end.

(* confidence_interval_bootstrap *)
Definition take (l : list Q) (idx : list nat) : list Q := map (fun i => nthq i l) idx.

Fixpoint map2 {A B C} (f : A -> B -> C) (l1 : list A) (l2 : list B) : list C :=
  match l1, l2 with
  | x :: t1, y :: t2 => f x y :: map2 f t1 t2
  | _, _ => []
  end.

(* un-smoothed: weighted mean of every resample (np.take(values, idx), np.take(weights, idx)) *)
Definition boot_means (vals wts : list Q) (idxm : list (list nat)) : list Q :=
  map (fun idx => wmean (take vals idx) (take wts idx)) idxm.

(* _smooth_samples_by_weight, one element: v + bw * np.sqrt(1 - w) * z, with bw = k ** (-1/4) and
   z one standard-normal draw; sqrt and bw are oracles *)
Definition smooth_elem (sqrtf : Q -> Q) (bw v w z : Q) : Q :=
  qadd v (qmul (qmul bw (sqrtf (qsub sm_one w))) z).
(* one resample (v, w) and the vector randn(k) drawn for it *)
Definition smooth_row (sqrtf : Q -> Q) (bw : Q) (v w z : list Q) : list Q :=
  map2 (fun vw zz => smooth_elem sqrtf bw (fst vw) (snd vw) zz) (combine v w) z.
(* smoothed: the weighted mean of every smoothed resample, weights unchanged *)
Definition boot_means_smoothed (sqrtf : Q -> Q) (bw : Q) (vals wts : list Q)
  (idxm : list (list nat)) (zs : list (list Q)) : list Q :=
  map2 (fun idx z => wmean (smooth_row sqrtf bw (take vals idx) (take wts idx) z) (take wts idx)) idxm zs.

(* "if bootstraps <= 2/alpha: bootstraps = int(ceil(2/alpha))"; q2a is the float 2/alpha *)
Definition n_boot (bootstraps : Z) (q2a : Q) : Z :=
  if qle_b (inject_Z bootstraps) q2a then Qceiling q2a else bootstraps.

Definition ci_pct_lo (alpha : Q) : Q := Qred (ci_hundred * (alpha / ci_two_lo)).
Definition ci_pct_hi (alpha : Q) : Q := Qred (ci_hundred * (ci_one_hi - alpha / ci_two_hi)).

(* what the libraries return while one segment is processed.  The random draws are functions
   of the SEED: [o_randint s k rows cols] is the matrix np.random.randint(0, k, size=(rows, cols))
   returns right after np.random.seed(s); [o_randn s k rows cols] the vectors randn(cols) drawn
   after that, one per row of the matrix. *)
Record oracles := mkOracles {
  o_kde : nat;                           (* argmax of the Gaussian KDE over the sorted values *)
  o_biloc : Q;                           (* descriptives.biweight_location of the deviations *)
  o_tt : Q -> nat -> Q;                  (* two-sided Student-t tail of (t^2, df) *)
  o_q2a : Q;                             (* the float 2/alpha *)
  o_randint : Z -> nat -> nat -> nat -> list (list nat);
  o_randn : Z -> nat -> nat -> nat -> list (list Q);
  o_bw : nat -> Q;                       (* k ** (-1/4) *)
  o_sqrt : Q -> Q                        (* np.sqrt *)
}.

(* the bootstrap distribution of the segment mean: [bootstraps] raised if too few, the index
   matrix of shape (bootstraps, k) drawn after seed(0xA5EED), one weighted mean per row *)
Definition ci_resamples (O : oracles) (boots : Z) (k : nat) : list (list nat) :=
  o_randint O ci_seed k (Z.to_nat (n_boot boots (o_q2a O))) k.
Definition ci_normals (O : oracles) (boots : Z) (k : nat) : list (list Q) :=
  o_randn O ci_seed k (Z.to_nat (n_boot boots (o_q2a O))) k.
Definition ci_dist (O : oracles) (boots : Z) (smoothed : bool) (vals wts : list Q) : list Q :=
  let k := length vals in
  if smoothed
  then boot_means_smoothed (o_sqrt O) (o_bw O k) vals wts (ci_resamples O boots k) (ci_normals O boots k)
  else boot_means vals wts (ci_resamples O boots k).

Definition ci_func (O : oracles) (alpha : Q) (bootstraps : Z) (smoothed : bool)
  (vals wts : list Q) : option (Q * Q) :=
  match vals with
  | [] => None
  | x :: _ =>
      if (Z.of_nat (length vals) <? ci_min_k)%Z then Some (x, x)
      else
        let dist := ci_dist O bootstraps smoothed vals wts in
        Some (percentile (ci_pct_lo alpha) dist, percentile (ci_pct_hi alpha) dist)
  end.

(* ---- the same with numpy's GLOBAL random state made explicit ------------------------------
   np.random.seed / randint / randn read and write one hidden state; [St] is that state, the
   three functions are what numpy does to it.  confidence_interval_bootstrap receives whatever
   state the process is in and returns the state it leaves behind. *)
Record rng (St : Type) := mkRng {
  g_seed : Z -> St;                                              (* np.random.seed(s) *)
  g_randint : St -> nat -> nat -> nat -> list (list nat) * St;   (* randint(0, k, size=(rows, cols)) *)
  g_randn : St -> nat -> list Q * St }.                          (* randn(n) *)
Arguments g_seed {St}. Arguments g_randint {St}. Arguments g_randn {St}.

(* one randn(n) per resample, in order *)
Fixpoint draw_randn {St} (G : rng St) (st : St) (n rows : nat) : list (list Q) * St :=
  match rows with
  | O => ([], st)
  | S r => let zs := g_randn G st n in
           let rest := draw_randn G (snd zs) n r in
           (fst zs :: fst rest, snd rest)
  end.

(* the seed-indexed oracles a generator [G] induces *)
Definition rng_randint {St} (G : rng St) (s : Z) (k rows cols : nat) : list (list nat) :=
  fst (g_randint G (g_seed G s) k rows cols).
Definition rng_randn {St} (G : rng St) (s : Z) (k rows cols : nat) : list (list Q) :=
  let m := g_randint G (g_seed G s) k rows cols in
  fst (draw_randn G (snd m) cols (length (fst m))).
Definition rng_oracles {St} (G : rng St) (O : oracles) : oracles :=
  mkOracles (o_kde O) (o_biloc O) (o_tt O) (o_q2a O) (rng_randint G) (rng_randn G) (o_bw O) (o_sqrt O).

Definition ci_run {St} (G : rng St) (O : oracles) (st : St) (alpha : Q) (bootstraps : Z)
  (smoothed : bool) (vals wts : list Q) : option (Q * Q) * St :=
  match vals with
  | [] => (None, st)                                   (* calc_intervals: "if len(ser):" *)
  | x :: _ =>
      let k := length vals in
      if (Z.of_nat k <? ci_min_k)%Z then (Some (x, x), st)
      else
        let st1 := g_seed G ci_seed in
        let m := g_randint G st1 k (Z.to_nat (n_boot bootstraps (o_q2a O))) k in
        if smoothed
        then let zs := draw_randn G (snd m) k (length (fst m)) in
             let dist := boot_means_smoothed (o_sqrt O) (o_bw O k) vals wts (fst m) (fst zs) in
             (Some (percentile (ci_pct_lo alpha) dist, percentile (ci_pct_hi alpha) dist), snd zs)
        else let dist := boot_means vals wts (fst m) in
             (Some (percentile (ci_pct_lo alpha) dist, percentile (ci_pct_hi alpha) dist), snd m)
  end.

(* calc_intervals(bins_log2s, weights, ci_func): one call per segment, the state handed on;
   a second do_segmetrics call in the same process simply continues the sequence *)
Fixpoint calc_intervals_run {St} (G : rng St) (O : oracles) (st : St) (alpha : Q) (bootstraps : Z)
  (smoothed : bool) (segs : list (list Q * list Q)) : list (option (Q * Q)) * St :=
  match segs with
  | [] => ([], st)
  | vw :: t => let r := ci_run G O st alpha bootstraps smoothed (fst vw) (snd vw) in
               let rest := calc_intervals_run G O (snd r) alpha bootstraps smoothed t in
               (fst r :: fst rest, snd rest)
  end.

(* ---- do_segmetrics ------------------------------------------------------- *)
Record config := mkConfig {
  c_loc : list string; c_spread : list string; c_ivl : list string;
  c_alpha : Q; c_boot : Z; c_smoothed : bool; c_skip_low : bool }.

Definition loc_stat (O : oracles) (name : string) : option (list Q -> option Q) :=
  if String.eqb name "mean" then Some st_mean
  else if String.eqb name "median" then Some st_median
  else if String.eqb name "mode" then Some (st_mode (o_kde O))
  else if String.eqb name "p_ttest" then Some (st_pttest (o_tt O))
  else None.

Definition spread_stat (O : oracles) (name : string) : option (list Q -> option Q) :=
  if String.eqb name "stdev" then Some st_stdev_sq
  else if String.eqb name "mad" then Some st_mad
  else if String.eqb name "mse" then Some st_mse
  else if String.eqb name "iqr" then Some st_iqr
  else if String.eqb name "bivar" then Some (st_bivar_sq (o_biloc O))
  else if String.eqb name "sem" then Some st_sem_sq
  else None.

Definition named_stats (tbl : string -> option (list Q -> option Q)) (names : list string)
  (arg : list Q) : list (string * option Q) :=
  concat (map (fun nm => match tbl nm with Some f => [(nm, f arg)] | None => [] end) names).

Definition pair_cols (lo hi : string) (r : option (Q * Q)) : list (string * option Q) :=
  match r with
  | Some (a, b) => [(lo, Some a); (hi, Some b)]
  | None => [(lo, None); (hi, None)]
  end.

Definition has (name : string) (l : list string) : bool := existsb (String.eqb name) l.

(* segarr[name] = values: a new column is appended, an existing one is overwritten in place *)
Fixpoint set_col (nm : string) (v : option Q) (cols : list (string * option Q))
  : list (string * option Q) :=
  match cols with
  | [] => [(nm, v)]
  | c :: t => if String.eqb (fst c) nm then (fst c, v) :: t else c :: set_col nm v t
  end.
Definition set_cols (new cols : list (string * option Q)) : list (string * option Q) :=
  fold_left (fun acc p => set_col (fst p) (snd p) acc) new cols.

(* the column assignments of one do_segmetrics call, in the order the code makes them *)
Definition row_assignments (O : oracles) (cfg : config) (seg_log2 : Q) (vals wts : list Q)
  : list (string * option Q) :=
  let devs := map (fun x => qsub x seg_log2) vals in
  named_stats (loc_stat O) (c_loc cfg) vals ++
  named_stats (spread_stat O) (c_spread cfg) devs ++
  (if has "ci" (c_ivl cfg)
   then pair_cols "ci_lo" "ci_hi" (ci_func O (c_alpha cfg) (c_boot cfg) (c_smoothed cfg) vals wts)
   else []) ++
  (if has "pi" (c_ivl cfg)
   then pair_cols "pi_lo" "pi_hi" (pi_func (c_alpha cfg) vals)
   else []).

(* one output row from the values / weights of the segment's bins *)
Definition row_of_values (O : oracles) (cfg : config) (seg_log2 : Q) (vals wts : list Q)
  : list (string * option Q) :=
  set_cols (row_assignments O cfg seg_log2 vals wts) [].

Definition row_of_bins (O : oracles) (cfg : config) (s : seg) (sb : list tbin)
  : list (string * option Q) :=
  row_of_values O cfg (s_log2 s) (map (fun ib => b_log2 (snd ib)) sb)
                                 (map (fun ib => b_weight (snd ib)) sb).

Definition used_bins (cfg : config) (tb : list tbin) : list tbin :=
  if c_skip_low cfg then drop_low_coverage tb else tb.

(* the bins each segment's statistics are computed on *)
Definition segmetrics_bins (cfg : config) (bins : list bin) (segs : list seg) : list (list tbin) :=
  select_bins QOuter (used_bins cfg (tagged bins)) segs.

(* the segment table comes back with its own columns, plus the new ones; [Os i] are the
   oracle values of segment number i *)
Definition do_segmetrics (Os : nat -> oracles) (cfg : config) (bins : list bin) (segs : list seg)
  : list (seg * list (string * option Q)) :=
  let sel := segmetrics_bins cfg bins segs in
  map (fun is => (snd is, row_of_bins (Os (fst is)) cfg (snd is) (nth (fst is) sel [])))
      (combine (seq 0 (length segs)) segs).
