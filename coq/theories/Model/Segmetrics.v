(* C17 -- model of cnvlib.segmetrics.do_segmetrics and of the descriptives it calls
   (cnvlib/descriptives.py: on_array, median_absolute_deviation, mean_squared_error,
   interquartile_range, biweight_location, biweight_midvariance, modal_location), as the
   code is NOW.  Executable definitions only; lemmas are in Proofs/Segmetrics.v.

   Granularity: a bin table (rows: chromosome, start, end, gene, log2, weight, optional
   depth) and a segment table in; one row of statistics per segment out.  NaN is [None].
   Statistics whose last step is a square root (stdev, bivar, sem) are modelled SQUARED
   (the harness compares squares / takes the root).  Transcendental / external / random
   parts are oracles (record [oracles]); every theorem quantifies over them. *)
From CNV Require Import Base.Prelude Base.QNum Gen.Params Gen.SegmetricsDefaults.
From Coq Require Import Qround Qabs.
Local Open Scope Q_scope.

(* ---- tables -------------------------------------------------------------- *)
Record bin := mkBin {
  b_chr : string; b_start : Z; b_end : Z; b_gene : string;
  b_log2 : Q; b_weight : Q; b_depth : option Q }.

Record seg := mkSeg {
  s_chr : string; s_start : Z; s_end : Z; s_gene : string;
  s_log2 : Q; s_probes : Z; s_weight : Q }.

(* iter_ranges_of(segarr, "log2", "outer", True): per chromosome,
   rows with end > segment start (end.searchsorted(start, 'right')) and
   start < segment end (start.searchsorted(end)); the searchsorted machinery is C07's *)
Definition overlaps (s : seg) (b : bin) : bool :=
  String.eqb (b_chr b) (s_chr s) && (s_start s <? b_end b)%Z && (b_start b <? s_end s)%Z.

Definition seg_bins (bins : list bin) (s : seg) : list bin := filter (overlaps s) bins.

(* CopyNumArray.drop_low_coverage *)
Definition min_cvg : Q := Qred (NULL_LOG2_COVERAGE - MIN_REF_COVERAGE).
Definition is_low (b : bin) : bool :=
  qlt_b (b_log2 b) min_cvg ||
  match b_depth b with Some d => qeq_b d 0 | None => false end.
Definition drop_low_coverage (bins : list bin) : list bin :=
  filter (fun b => negb (is_low b)) bins.

(* ---- the decorators ------------------------------------------------------ *)
(* descriptives.on_array(default): NaN on no value, a[0] / default on one value *)
Definition on_array (default : option Q) (f : list Q -> option Q) (a : list Q) : option Q :=
  match a with
  | [] => None
  | [x] => match default with None => Some x | Some d => Some d end
  | _ => f a
  end.

(* ---- moments ------------------------------------------------------------- *)
Definition sq_devs (l : list Q) : list Q :=
  let m := qmean l in map (fun x => qsq (qsub x m)) l.
(* population variance: pandas Series.std(ddof=0)^2 (np.std dispatches to it) *)
Definition var_pop (l : list Q) : Q := qmean (sq_devs l).
(* sample variance, ddof = 1 *)
Definition var_ddof1 (l : list Q) : Q := qdiv (qsum (sq_devs l)) (qofnat (length l - 1)).

(* ---- location statistics on the bins' log2 ------------------------------- *)
Definition st_mean (a : list Q) : option Q :=
  match a with [] => None | _ => Some (qmean a) end.
Definition st_median (a : list Q) : option Q :=
  match a with [] => None | _ => Some (median a) end.

(* modal_location: constant input returns the value; otherwise the sorted value
   at the argmax of the Gaussian KDE evaluated on the sorted values (oracle) *)
Definition st_mode (kde_argmax : list Q -> nat) : list Q -> option Q :=
  on_array None (fun a =>
    let s := qsort a in
    if qeq_b (nthq 0 s) (nthq (length s - 1) s) then Some (nthq 0 s)
    else Some (nthq (kde_argmax s) s)).

(* stats.ttest_1samp(a, 0.0)[1]: p-value of t = mean / sqrt(var1/n), two-sided,
   n-1 degrees of freedom; the Student-t tail is an oracle of (t^2, df).
   n < 2: NaN.  var1 = 0: t = +-inf (p = 0) or 0/0 (NaN). *)
Definition t_squared (a : list Q) : Q :=
  qdiv (qmul (qsq (qmean a)) (qofnat (length a))) (var_ddof1 a).
Definition st_pttest (tt : Q -> nat -> Q) (a : list Q) : option Q :=
  match a with
  | [] => None
  | [_] => None
  | _ => if qeq_b (var_ddof1 a) 0
         then (if qeq_b (qmean a) 0 then None else Some 0)
         else Some (tt (t_squared a) (length a - 1)%nat)
  end.

(* ---- spread statistics on the deviations d_i = log2_i - segment log2 ----- *)
Definition st_stdev_sq (d : list Q) : option Q :=
  match d with [] => None | _ => Some (var_pop d) end.

Definition st_mad : list Q -> option Q :=
  on_array (Some mad_single) (fun a =>
    let m := median a in
    Some (qmul (median (map (fun x => Qabs (qsub x m)) a)) mad_scale)).

(* mean_squared_error AS CODED: initial defaults to a.mean(), so this is the
   population variance of its argument ("if initial:" only skips a subtraction of 0) *)
Definition st_mse : list Q -> option Q :=
  on_array (Some mse_single) (fun a =>
    let initial := qmean a in
    Some (qmean (map (fun x => qsq (qsub x initial)) a))).

Definition st_iqr : list Q -> option Q :=
  on_array (Some iqr_single) (fun a =>
    Some (qsub (percentile iqr_pct_hi a) (percentile iqr_pct_lo a))).

Definition st_sem_sq (d : list Q) : option Q :=
  match d with
  | [] => None
  | [_] => None
  | _ => Some (qdiv (var_ddof1 d) (qofnat (length d)))
  end.

(* biweight_location (c = 6, epsilon = 1e-3, max_iter = 5), after fix d5abf9f *)
Definition masked (bound : Q) (dw : list (Q * Q)) : list (Q * Q) :=
  filter (fun p => qlt_b (Qabs (snd p)) bound) dw.

Definition biloc_iter (a : list Q) (initial : Q) : Q :=
  let d := map (fun x => qsub x initial) a in
  let mad := median (map Qabs d) in
  let scale := qmax2 biloc_eps (qmul biloc_c mad) in          (* max(c*mad, epsilon) *)
  let w := map (fun x => qdiv x scale) d in
  let dm := masked biloc_mask_bound (combine d w) in
  let w2 := map (fun p => qsq (qsub 1 (qsq (snd p)))) dm in
  let weightsum := qsum w2 in
  if qeq_b weightsum 0 then initial
  else qadd initial (qdiv (qdot (map fst dm) w2) weightsum).

Fixpoint biloc_loop (fuel : nat) (a : list Q) (initial : Q) : Q :=
  match fuel with
  | O => initial
  | S n =>
      let result := biloc_iter a initial in
      if qle_b (Qabs (qsub result initial)) biloc_eps then result
      else biloc_loop n a result
  end.

Definition biweight_location : list Q -> option Q :=
  on_array None (fun a => Some (biloc_loop (Z.to_nat biloc_max_iter) a (median a))).

Fixpoint qpow (x : Q) (n : nat) : Q :=
  match n with O => 1 | S k => qmul x (qpow x k) end.

(* biweight_midvariance SQUARED (c = 9, epsilon = 1e-3); None also stands for the
   inf/NaN of a vanishing denominator *)
Definition st_bivar_sq : list Q -> option Q :=
  on_array (Some (qsq bivar_single)) (fun a =>
    match biweight_location a with
    | None => None
    | Some initial =>
        let d := map (fun x => qsub x initial) a in
        let mad := median (map Qabs d) in
        let scale := qmax2 bivar_eps (qmul bivar_c mad) in
        let w := map (fun x => qdiv x scale) d in
        let dm := masked bivar_mask_bound (combine d w) in
        if qeq_b (qsum (map snd dm)) 0 then Some (qsq (qmul mad bivar_mad_scale))
        else
          let n := qofnat (length dm) in
          let num := qsum (map (fun p => qmul (qsq (fst p))
                             (qpow (qsub 1 (qsq (snd p))) (Z.to_nat bivar_num_pow))) dm) in
          let den := qsum (map (fun p => qmul (qsub 1 (qsq (snd p)))
                                              (qsub 1 (qmul bivar_five (qsq (snd p))))) dm) in
          if qeq_b den 0 then None
          else Some (qdiv (qmul n num) (qsq den))
    end).

(* ---- intervals ----------------------------------------------------------- *)
(* make_pi_func: np.percentile(ser, [100*alpha/2, 100*(1 - alpha/2)]) *)
Definition pi_pct_lo (alpha : Q) : Q := Qred (pi_hundred_lo * alpha / pi_two_lo).
Definition pi_pct_hi (alpha : Q) : Q := Qred (pi_hundred_hi * (pi_one_hi - alpha / pi_two_hi)).

Definition pi_func (alpha : Q) (vals : list Q) : option (Q * Q) :=
  match vals with
  | [] => None
  | _ => Some (percentile (pi_pct_lo alpha) vals, percentile (pi_pct_hi alpha) vals)
  end.

(* confidence_interval_bootstrap *)
Definition take (l : list Q) (idx : list nat) : list Q := map (fun i => nthq i l) idx.

Fixpoint map2 {A B C} (f : A -> B -> C) (l1 : list A) (l2 : list B) : list C :=
  match l1, l2 with
  | x :: t1, y :: t2 => f x y :: map2 f t1 t2
  | _, _ => []
  end.

(* un-smoothed: weighted mean of every resample *)
Definition boot_means (vals wts : list Q) (idxm : list (list nat)) : list Q :=
  map (fun idx => wmean (take vals idx) (take wts idx)) idxm.
(* smoothed: the resampled values plus the noise rows bw*sqrt(1-w)*randn(k) (oracle) *)
Definition boot_means_smoothed (vals wts : list Q) (idxm : list (list nat)) (noise : list (list Q))
  : list Q :=
  map2 (fun idx nz => wmean (map2 qadd (take vals idx) nz) (take wts idx)) idxm noise.

(* "if bootstraps <= 2/alpha: bootstraps = int(ceil(2/alpha))"; q2a is the float 2/alpha *)
Definition n_boot (bootstraps : Z) (q2a : Q) : Z :=
  if qle_b (inject_Z bootstraps) q2a then Qceiling q2a else bootstraps.

Definition ci_pct_lo (alpha : Q) : Q := Qred (ci_hundred * (alpha / ci_two_lo)).
Definition ci_pct_hi (alpha : Q) : Q := Qred (ci_hundred * (ci_one_hi - alpha / ci_two_hi)).

Record oracles := mkOracles {
  o_kde : list Q -> nat;                       (* argmax of the Gaussian KDE over the sorted values *)
  o_tt : Q -> nat -> Q;                        (* two-sided Student-t tail of (t^2, df) *)
  o_q2a : Q -> Q;                              (* the float 2/alpha *)
  o_idx : nat -> Z -> list (list nat);         (* seed(0xA5EED); randint(0, k, size=(bootstraps, k)) *)
  o_noise : list Q -> Z -> list (list Q)       (* smoothing noise rows drawn after the indices *)
}.

Definition ci_func (O : oracles) (alpha : Q) (bootstraps : Z) (smoothed : bool)
  (vals wts : list Q) : option (Q * Q) :=
  match vals with
  | [] => None
  | x :: _ =>
      if (Z.of_nat (length vals) <? ci_min_k)%Z then Some (x, x)
      else
        let nb := n_boot bootstraps (o_q2a O alpha) in
        let idxm := o_idx O (length vals) nb in
        let dist := if smoothed
                    then boot_means_smoothed vals wts idxm (o_noise O wts nb)
                    else boot_means vals wts idxm in
        Some (percentile (ci_pct_lo alpha) dist, percentile (ci_pct_hi alpha) dist)
  end.

(* ---- do_segmetrics ------------------------------------------------------- *)
Record config := mkConfig {
  c_loc : list string; c_spread : list string; c_ivl : list string;
  c_alpha : Q; c_boot : Z; c_smoothed : bool; c_skip_low : bool }.

Definition loc_stat (O : oracles) (name : string) : option (list Q -> option Q) :=
  if String.eqb name "mean" then Some st_mean
  else if String.eqb name "median" then Some st_median
  else if String.eqb name "mode" then Some (st_mode (o_kde O))
  else if String.eqb name "p_ttest" then Some (st_pttest (o_tt O))
  else None.

Definition spread_stat (name : string) : option (list Q -> option Q) :=
  if String.eqb name "stdev" then Some st_stdev_sq
  else if String.eqb name "mad" then Some st_mad
  else if String.eqb name "mse" then Some st_mse
  else if String.eqb name "iqr" then Some st_iqr
  else if String.eqb name "bivar" then Some st_bivar_sq
  else if String.eqb name "sem" then Some st_sem_sq
  else None.

Definition named_stats (tbl : string -> option (list Q -> option Q)) (names : list string)
  (arg : list Q) : list (string * option Q) :=
  concat (map (fun nm => match tbl nm with Some f => [(nm, f arg)] | None => [] end) names).

Definition pair_cols (lo hi : string) (r : option (Q * Q)) : list (string * option Q) :=
  match r with
  | Some (a, b) => [(lo, Some a); (hi, Some b)]
  | None => [(lo, None); (hi, None)]
  end.

Definition has (name : string) (l : list string) : bool := existsb (String.eqb name) l.

(* one output row from the values / weights of the segment's bins *)
Definition row_of_values (O : oracles) (cfg : config) (seg_log2 : Q) (vals wts : list Q)
  : list (string * option Q) :=
  let devs := map (fun x => qsub x seg_log2) vals in
  named_stats (loc_stat O) (c_loc cfg) vals ++
  named_stats spread_stat (c_spread cfg) devs ++
  (if has "ci" (c_ivl cfg)
   then pair_cols "ci_lo" "ci_hi" (ci_func O (c_alpha cfg) (c_boot cfg) (c_smoothed cfg) vals wts)
   else []) ++
  (if has "pi" (c_ivl cfg)
   then pair_cols "pi_lo" "pi_hi" (pi_func (c_alpha cfg) vals)
   else []).

Definition seg_row (O : oracles) (cfg : config) (bins : list bin) (s : seg)
  : list (string * option Q) :=
  let sb := seg_bins bins s in
  row_of_values O cfg (s_log2 s) (map b_log2 sb) (map b_weight sb).

Definition used_bins (cfg : config) (bins : list bin) : list bin :=
  if c_skip_low cfg then drop_low_coverage bins else bins.

(* the segment table comes back with its own columns, plus the new ones *)
Definition do_segmetrics (O : oracles) (cfg : config) (bins : list bin) (segs : list seg)
  : list (seg * list (string * option Q)) :=
  map (fun s => (s, seg_row O cfg (used_bins cfg bins) s)) segs.
