(* Model of cnvlib/segmentation/haar.py: the discrete core of HaarSeg over Q
   (exact arithmetic), mirroring the code loop for loop:
     HaarConv (unweighted / weighted running-sum recurrence with mirrored indices),
     FindLocalPeaks (plateau / "suspect" state machine), FDRThres, UnifyLevels,
     SegmentByPeaks, and the level loop + result table of haarSeg (rawI = None).
   Oracles (supplied by the harness from the same library the code calls, see
   DESIGN section 2): the per-level scale constants math.sqrt(2.0*h) and
   math.sqrt(h/2); the p-values 2*(1 - norm.cdf(sorted |peak values|, loc=sigma))
   of each level (the code passes its sigma estimate as the *location* of the cdf;
   this quirk lives at the supplier); and one float effect: whether
   fl(x0 + 1e-16) == x0 (the "no passing p-value" threshold is absorbed by the
   largest peak when that peak is >= 1 in magnitude).
   No proofs in this file. *)
From Coq Require Import QArith.Qabs.
From CNV Require Import Base.Prelude Gen.HaarDefaults.

(* ---------- small Q helpers (local; reduced after each operation) ---------- *)

Definition qnth (l : list Q) (i : Z) : Q := nth (Z.to_nat i) l 0%Q.

Fixpoint qsum (l : list Q) : Q :=
  match l with [] => 0%Q | x :: t => Qred (x + qsum t) end.

Fixpoint qmul2 (a b : list Q) : list Q :=
  match a, b with
  | x :: ta, y :: tb => Qred (x * y) :: qmul2 ta tb
  | _, _ => []
  end.

Definition Qltb (x y : Q) : bool := negb (Qle_bool y x).

Definition slice {A} (l : list A) (s e : Z) : list A :=
  firstn (Z.to_nat (e - s)) (skipn (Z.to_nat s) l).

(* insertion sorts: descending on Q, ascending on Z *)
Fixpoint insert_desc (x : Q) (l : list Q) : list Q :=
  match l with
  | [] => [x]
  | y :: t => if Qle_bool y x then x :: l else y :: insert_desc x t
  end.
Definition sort_desc (l : list Q) : list Q := fold_right insert_desc [] l.

Fixpoint zinsert (x : Z) (l : list Z) : list Z :=
  match l with
  | [] => [x]
  | y :: t => if x <=? y then x :: l else y :: zinsert x t
  end.
Definition zsort (l : list Z) : list Z := fold_right zinsert [] l.

(* pandas Series.median(): middle element, or the mean of the two middle ones *)
Definition qmedian (l : list Q) : Q :=
  let s := sort_desc l in
  let n := Zlength_nat s in
  if n =? 0 then 0%Q
  else if Z.odd n then qnth s (n / 2)
  else Qred ((qnth s (n / 2 - 1) + qnth s (n / 2)) / 2).

(* ---------- HaarConv ---------- *)

(* highEnd = k + h - 1; if highEnd >= n: highEnd = n - 1 - (highEnd - n) *)
Definition mirror_hi (n i : Z) : Z := if n <=? i then n - 1 - (i - n) else i.
(* lowEnd = k - h - 1; if lowEnd < 0: lowEnd = -lowEnd - 1 *)
Definition mirror_lo (i : Z) : Z := if i <? 0 then - i - 1 else i.

(* for k in range(1, n): result[k] = result[k-1] + signal[highEnd] + signal[lowEnd] - 2*signal[k-1]
   (`rest` only counts the iterations: it is the tail of the signal) *)
Fixpoint conv_u_loop (sg : list Q) (n h : Z) (rest : list Q) (k : Z) (prev : Q) : list Q :=
  match rest with
  | [] => []
  | _ :: t =>
      let cur := Qred (prev + qnth sg (mirror_hi n (k + h - 1)) + qnth sg (mirror_lo (k - h - 1))
                       - 2 * qnth sg (k - 1)) in
      cur :: conv_u_loop sg n h t (k + 1) cur
  end.

Fixpoint conv_w_loop (sg wt : list Q) (n h : Z) (scale : Q) (rest : list Q) (k : Z)
    (lowNN highNN lowW highW : Q) : list Q :=
  match rest with
  | [] => []
  | _ :: t =>
      let hi := mirror_hi n (k + h - 1) in
      let lo := mirror_lo (k - h - 1) in
      let skw := (qnth sg (k - 1) * qnth wt (k - 1))%Q in
      let lowNN' := Qred (lowNN + (qnth sg lo * qnth wt lo - skw)) in
      let highNN' := Qred (highNN + (qnth sg hi * qnth wt hi - skw)) in
      let lowW' := Qred (lowW + (qnth wt (k - 1) - qnth wt lo)) in
      let highW' := Qred (highW + (qnth wt hi - qnth wt (k - 1))) in
      Qred (scale * (lowNN' / lowW' + highNN' / highW'))
        :: conv_w_loop sg wt n h scale t (k + 1) lowNN' highNN' lowW' highW'
  end.

(* `scale` is math.sqrt(2.0*h) (a divisor) when weight is None and
   math.sqrt(h/2) (a factor) otherwise *)
Definition haar_conv (sg : list Q) (wt : option (list Q)) (h : Z) (scale : Q) : list Q :=
  let n := Zlength_nat sg in
  if n <? h then map (fun _ => 0%Q) sg
  else
    match sg with
    | [] => []
    | _ :: rest =>
        match wt with
        | None => 0%Q :: map (fun x => Qred (x / scale)) (conv_u_loop sg n h rest 1 0%Q)
        | Some w =>
            let hw := qsum (firstn (Z.to_nat h) w) in
            let hn := qsum (firstn (Z.to_nat h) (qmul2 w sg)) in
            0%Q :: conv_w_loop sg w n h scale rest 1 (Qred (- hn)) hn hw hw
        end
    end.

(* ---------- FindLocalPeaks ---------- *)

Definition flp_state := (option Z * option Z)%type.   (* maxSuspect, minSuspect *)

Definition flp_step (k : Z) (p c n : Q) (st : flp_state) : list Z * flp_state :=
  let '(maxS, minS) := st in
  if Qltb 0 c then
    if Qltb p c && Qltb n c then ([k], st)
    else if Qltb p c && Qeq_bool c n then ([], (Some k, minS))
    else if Qeq_bool c p && Qltb n c then
      match maxS with Some s => ([s], (None, minS)) | None => ([], st) end
    else if Qeq_bool c p && Qltb c n then ([], (None, minS))
    else ([], st)
  else if Qltb c 0 then
    if Qltb c p && Qltb c n then ([k], st)
    else if Qltb c p && Qeq_bool c n then ([], (maxS, Some k))
    else if Qeq_bool c p && Qltb c n then
      match minS with Some s => ([s], (maxS, None)) | None => ([], st) end
    else if Qeq_bool c p && Qltb n c then ([], (maxS, None))
    else ([], st)
  else ([], st).

(* for k in range(1, len(signal) - 1): sig_prev, sig_curr, sig_next = signal[k-1 : k+2] *)
Fixpoint flp_loop (l : list Q) (k : Z) (st : flp_state) : list Z :=
  match l with
  | p :: ((c :: n :: _) as t) =>
      let '(out, st') := flp_step k p c n st in
      out ++ flp_loop t (k + 1) st'
  | _ => []
  end.

Definition find_local_peaks (l : list Q) : list Z := flp_loop l 1 (None, None).

(* ---------- FDRThres ---------- *)

(* T = x_sorted[indices[-1]] for indices = nonzero(p <= m*q), m = (i+1)/M *)
Fixpoint fdr_scan (xs ps : list Q) (i M : Z) (q : Q) (best : option Q) : option Q :=
  match xs, ps with
  | x :: xt, p :: pt =>
      fdr_scan xt pt (i + 1) M q
        (if Qle_bool p (inject_Z (i + 1) / inject_Z M * q) then Some x else best)
  | _, _ => best
  end.

Definition fdr_thres (x : list Q) (q : Q) (pvals : list Q) (absorb : bool) : Q :=
  let M := Zlength_nat x in
  if M <? 2 then 0%Q
  else
    let xs := sort_desc (map Qabs x) in
    match fdr_scan xs pvals 0 M q None with
    | Some t => t
    | None => if absorb then hd 0%Q xs else Qred (hd 0%Q xs + haar_fdr_eps)
    end.

(* ---------- UnifyLevels ---------- *)

(* the inner `while addon_idx < len(addonLevel)` loop for one base element *)
Fixpoint unify_take (b w : Z) (addon : list Z) : list Z * list Z :=
  match addon with
  | [] => ([], [])
  | a :: t =>
      if a <? b - w then let '(out, rest) := unify_take b w t in (a :: out, rest)
      else if (b - w <=? a) && (a <=? b + w) then unify_take b w t
      else ([], addon)
  end.

Fixpoint unify_loop (base addon : list Z) (w : Z) : list Z * list Z :=
  match base with
  | [] => ([], addon)
  | b :: bt =>
      let '(out, rest) := unify_take b w addon in
      let '(out2, rest2) := unify_loop bt rest w in
      (out ++ b :: out2, rest2)
  end.

Fixpoint drop_le (pos : Z) (l : list Z) : list Z :=
  match l with
  | [] => []
  | a :: t => if a <=? pos then drop_le pos t else l
  end.

Definition unify_levels (base addon : list Z) (w : Z) : list Z :=
  match addon with
  | [] => base
  | _ =>
      let '(joined, rest) := unify_loop base addon w in
      let last_pos := match last_opt base with Some b => b + w | None => -1 end in
      zsort (joined ++ drop_le last_pos rest)
  end.

(* ---------- SegmentByPeaks ---------- *)

Definition seg_mean (data : list Q) (wt : option (list Q)) (s e : Z) : Q :=
  let d := slice data s e in
  let plain := Qred (qsum d / inject_Z (Zlength_nat d)) in
  match wt with
  | Some w =>
      let ws := slice w s e in
      if Qltb 0 (qsum ws) then Qred (qsum (qmul2 d ws) / qsum ws) else plain
  | None => plain
  end.

(* zip(np.insert(peaks, 0, 0), np.append(peaks, len(data))) *)
Fixpoint seg_bounds (prev : Z) (peaks : list Z) (n : Z) : list (Z * Z) :=
  match peaks with
  | [] => [(prev, n)]
  | p :: t => (prev, p) :: seg_bounds p t n
  end.

(* segs[s:e] = v *)
Fixpoint fill_from (segs : list Q) (i s e : Z) (v : Q) : list Q :=
  match segs with
  | [] => []
  | x :: t => (if (s <=? i) && (i <? e) then v else x) :: fill_from t (i + 1) s e v
  end.

Definition segment_by_peaks (data : list Q) (peaks : list Z) (wt : option (list Q)) : list Q :=
  fold_left (fun segs se => fill_from segs 0 (fst se) (snd se) (seg_mean data wt (fst se) (snd se)))
            (seg_bounds 0 peaks (Zlength_nat data)) (map (fun _ => 0%Q) data).

(* ---------- haarSeg ---------- *)

Definition haar_levels : list Z :=
  map (fun i => haar_start_level + Z.of_nat i) (seq 0 (Z.to_nat (haar_end_level + 1 - haar_start_level))).

(* peakSigmaEst = median(|HaarConv(I, None, 1)|) * 1.4826 ; sqrt2 is math.sqrt(2.0*1) *)
Definition peak_sigma_est (sg : list Q) (sqrt2 : Q) : Q :=
  Qred (qmedian (map Qabs (haar_conv sg None 1 sqrt2)) * haar_mad_scale).

Record haar_result := {
  hr_breaks : list Z;
  hr_start : list Z;
  hr_end : list Z;
  hr_size : list Z;
  hr_mean : list Q
}.

Section HaarSeg.
Variable scale_u : Z -> Q.        (* h |-> math.sqrt(2.0 * h) *)
Variable scale_w : Z -> Q.        (* h |-> math.sqrt(h / 2) *)
Variable pvals : Z -> list Q.     (* level |-> p-values of the sorted |peak values| *)
Variable absorb : Z -> bool.      (* level |-> fl(x0 + 1e-16) == x0 *)

Definition conv_level (sg : list Q) (wt : option (list Q)) (h : Z) : list Q :=
  haar_conv sg wt h (match wt with None => scale_u h | Some _ => scale_w h end).

Definition level_peaks (sg : list Q) (wt : option (list Q)) (level : Z) : list Z :=
  find_local_peaks (conv_level sg wt (2 ^ level)).

(* addonPeaks = extract(|convRes[peakLoc]| >= T, peakLoc) *)
Definition level_addon (sg : list Q) (wt : option (list Q)) (q : Q) (level : Z) : list Z :=
  let conv := conv_level sg wt (2 ^ level) in
  let peaks := find_local_peaks conv in
  let T := fdr_thres (map (qnth conv) peaks) q (pvals level) (absorb level) in
  filter (fun k => Qle_bool T (Qabs (qnth conv k))) peaks.

Definition haar_breakpoints_over (levels : list Z) (sg : list Q) (wt : option (list Q)) (q : Q) : list Z :=
  fold_left (fun bps level => unify_levels bps (level_addon sg wt q level) (2 ^ (level - 1)))
            levels [].

Definition haar_result_of (sg : list Q) (wt : option (list Q)) (bps : list Z) : haar_result :=
  let n := Zlength_nat sg in
  let segs := segment_by_peaks sg bps wt in
  let st := 0 :: bps in
  let ed := bps ++ [n] in
  {| hr_breaks := bps;
     hr_start := st;
     hr_end := map (fun e => e - 1) ed;
     hr_size := map (fun se => snd se - fst se) (combine st ed);
     hr_mean := map (qnth segs) st |}.

Definition haar_seg (sg : list Q) (wt : option (list Q)) (q : Q) : haar_result :=
  haar_result_of sg wt (haar_breakpoints_over haar_levels sg wt q).

End HaarSeg.

(* ---------- one_chrom / segment_haar: the table built from bin coordinates ---------- *)

Definition znth (l : list Z) (i : Z) : Z := nth (Z.to_nat i) l 0.

(* pd.DataFrame({"start": cnarr["start"].values.take(results["start"]),
                 "end": cnarr["end"].values.take(results["end"]),
                 "log2": results["mean"], "probes": results["size"]}) -- one row per segment:
   (start coordinate of the segment's first bin, end coordinate of its last bin, mean, bin count) *)
Fixpoint table_rows (starts ends : list Z) (st ed : list Z) (mn : list Q) (sz : list Z)
    : list (Z * Z * Q * Z) :=
  match st, ed, mn, sz with
  | s :: st', e :: ed', m :: mn', z :: sz' =>
      (znth starts s, znth ends e, m, z) :: table_rows starts ends st' ed' mn' sz'
  | _, _, _, _ => []
  end.

(* `sg` is cnarr.smooth_log2() of the arm (an oracle: scipy's Savitzky-Golay filter) *)
Definition one_chrom_table (starts ends : list Z) (r : haar_result) : list (Z * Z * Q * Z) :=
  table_rows starts ends (hr_start r) (hr_end r) (hr_mean r) (hr_size r).

(* segment_haar: pd.concat([one_chrom(arm) for arm in cnarr.by_arm()]) -- the arms' tables in order,
   each row tagged with the arm's chromosome name *)
Definition segment_haar_table {C} (arms : list (C * list (Z * Z * Q * Z))) : list (C * (Z * Z * Q * Z)) :=
  concat (map (fun ct => map (fun row => (fst ct, row)) (snd ct)) arms).

(* ---------- PulseConv (only used by haarSeg's rawI branch, which cnvkit never takes) ---------- *)

(* for k in range(pulseSize // 2, signalSize + pulseSize // 2 - 1):
     result[n] = result[n-1] + (signal[head] - signal[tail]) * pulseHeight   (mirrored head / tail) *)
Fixpoint pulse_loop (sg : list Q) (n p : Z) (ph : Q) (rest : list Q) (k : Z) (prev : Q) : list Q :=
  match rest with
  | [] => []
  | _ :: t =>
      let cur := Qred (prev + (qnth sg (mirror_hi n k) - qnth sg (mirror_lo (k - p))) * ph) in
      cur :: pulse_loop sg n p ph t (k + 1) cur
  end.

(* None = the code raises (pulseSize > signalSize: ValueError; pulseSize = 0: ZeroDivisionError) *)
Definition pulse_conv (sg : list Q) (p : Z) : option (list Q) :=
  let n := Zlength_nat sg in
  if (n <? p) || (p <? 1) then None
  else
    match sg with
    | [] => Some []
    | _ :: rest =>
        let ph := Qred (1 / inject_Z p) in
        let r0 := Qred ((qsum (firstn (Z.to_nat ((p + 1) / 2)) sg) + qsum (firstn (Z.to_nat (p / 2)) sg)) * ph) in
        Some (r0 :: pulse_loop sg n p ph rest (p / 2) r0)
    end.
