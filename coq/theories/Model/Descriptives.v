(* Model of cnvlib/descriptives.py as it is NOW (after the fix commits up to
   40f88ee): robust estimators of location and scale over exact
   rationals.  NaN is [None]; NaN stripping is done by [strip_nan] /
   [clean_weighted] exactly where the Python decorators do it.  Square roots
   are avoided: [biweight_midvariance_sq], [weighted_var] are the squares of
   what the code returns; [gapper_scale] takes the float sqrt(pi) as an oracle
   argument.  numpy's argsort (tie order of equal values is implementation
   defined) is an oracle too: the core [wmedian_sorted] works on an already
   arranged list of (value, weight) pairs; [weighted_median] uses a stable
   insertion sort, [weighted_median_ord] the permutation supplied by numpy. *)
From CNV Require Import Base.Prelude Base.QNum Gen.DescDefaults.
From Coq Require Import Qround Qabs.
Local Open Scope Q_scope.

(* ---- decorators ---------------------------------------------------------- *)
Definition strip_nan (l : list (option Q)) : list Q :=
  flat_map (fun o => match o with Some x => [x] | None => [] end) l.

Definition opt_default (default : option Q) (x : Q) : Q :=
  match default with None => x | Some d => d end.

(* on_array(default): [] -> NaN, one value -> that value / the default *)
Definition on_array (default : option Q) (f : list Q -> option Q) (a : list Q) : option Q :=
  match a with
  | [] => None
  | [x] => Some (opt_default default x)
  | _ => f a
  end.

(* on_weighted_array: drop cells where the value is NaN, NaN weights become 0 *)
Fixpoint clean_weighted (a w : list (option Q)) : list (Q * Q) :=
  match a, w with
  | Some x :: a', ow :: w' => (x, match ow with Some y => y | None => 0 end) :: clean_weighted a' w'
  | None :: a', _ :: w' => clean_weighted a' w'
  | _, _ => []
  end.

Definition on_weighted_array (default : option Q) (f : list (Q * Q) -> option Q)
  (ps : list (Q * Q)) : option Q :=
  match ps with
  | [] => None
  | [p] => Some (opt_default default (fst p))
  | _ => f ps
  end.

(* ---- biweight location ---------------------------------------------------- *)
Definition sub_all (c : Q) (a : list Q) : list Q := map (fun x => qsub x c) a.
Definition abs_all (a : list Q) : list Q := map qabs a.

(* the deviations that pass the mask [|u| < 1], paired with their biweights (1-u^2)^2 *)
Definition biloc_masked (c eps : Q) (a : list Q) (initial : Q) : list (Q * Q) :=
  let d := sub_all initial a in
  let mad := median (abs_all d) in
  let scale := qmax2 (qmul c mad) eps in
  let u := map (fun di => qdiv di scale) d in
  map (fun p => (fst p, qsq (qsub 1 (qsq (snd p)))))
      (filter (fun p => qlt_b (qabs (snd p)) BILOC_MASK_BOUND) (combine d u)).

Definition biloc_iter (c eps : Q) (a : list Q) (initial : Q) : Q :=
  let dw := biloc_masked c eps a initial in
  let weightsum := qsum (map snd dw) in
  if qeq_b weightsum 0 then initial
  else qadd initial (qdiv (qdot (map fst dw) (map snd dw)) weightsum).

Fixpoint biloc_loop (fuel : nat) (c eps : Q) (a : list Q) (initial last : Q) : Q :=
  match fuel with
  | O => last
  | S k =>
      let r := biloc_iter c eps a initial in
      if qle_b (qabs (qsub r initial)) eps then r else biloc_loop k c eps a r r
  end.

Definition biweight_location_core (a : list Q) (initial : option Q) : Q :=
  let i0 := match initial with Some i => i | None => median a end in
  biloc_loop (Z.to_nat BILOC_MAX_ITER) BILOC_C BILOC_EPS a i0 i0.

Definition biweight_location (a : list Q) (initial : option Q) : option Q :=
  on_array None (fun a => Some (biweight_location_core a initial)) a.

(* smallest distance of a decision of the loop to its boundary (float ambiguity) *)
Fixpoint biloc_margin (fuel : nat) (c eps : Q) (a : list Q) (initial : Q) (m : Q) : Q :=
  match fuel with
  | O => m
  | S k =>
      let dw := biloc_masked c eps a initial in
      let weightsum := qsum (map snd dw) in
      let m1 := if qeq_b weightsum 0 then m else qmin2 m weightsum in
      let r := biloc_iter c eps a initial in
      let m2 := qmin2 m1 (qabs (qsub (qabs (qsub r initial)) eps)) in
      if qle_b (qabs (qsub r initial)) eps then m2 else biloc_margin k c eps a r m2
  end.

(* the same loop replayed on externally supplied iterates (the code's own floats,
   observed through max_iter = 1): step k+1 starts from the supplied k-th iterate
   instead of the exact one, so the rationals stay small.  Returns the exact result
   of every step taken (the last one is the function's value) and the smallest
   distance of a stop decision to its boundary.  With exact iterates supplied it
   is [biloc_loop]. *)
Fixpoint biloc_chain (fuel : nat) (c eps : Q) (a : list Q) (initial : Q) (its : list Q) (m : Q)
  : list Q * Q :=
  match fuel with
  | O => ([], m)
  | S k =>
      let r := biloc_iter c eps a initial in
      let m' := qmin2 m (qabs (qsub (qabs (qsub r initial)) eps)) in
      if qle_b (qabs (qsub r initial)) eps then ([r], m')
      else
        let next := match its with r' :: _ => r' | [] => r end in
        let (rs, m'') := biloc_chain k c eps a next (tl its) m' in
        (r :: rs, m'')
  end.

(* ---- mode: the KDE arg-max index is an oracle ----------------------------- *)
Definition modal_core (a : list Q) (idx : nat) : Q :=
  let s := qsort a in
  let first := nthq 0 s in
  if qeq_b first (nthq (length s - 1) s) then first else nthq idx s.
Definition modal_location_at (a : list Q) (idx : nat) : option Q :=
  on_array None (fun a => Some (modal_core a idx)) a.

(* ---- weighted median ------------------------------------------------------ *)
(* first pair of maximal weight: a[weights.argmax()] *)
Fixpoint argmax_from (best : Q * Q) (ps : list (Q * Q)) : Q * Q :=
  match ps with
  | [] => best
  | p :: t => if qlt_b (snd best) (snd p) then argmax_from p t else argmax_from best t
  end.

(* cumulative sum, searchsorted(midpoint - tolerance) = first index whose
   cumulative weight reaches the midpoint up to the tolerance, then the tie test
   and the averaging rule *)
Fixpoint wmed_walk (mid tol acc : Q) (ps : list (Q * Q)) : Q :=
  match ps with
  | [] => 0
  | (v, w) :: rest =>
      let c := qadd acc w in
      if qle_b (qsub mid tol) c then
        match rest with
        | (v2, _) :: _ => if qle_b (qabs (qsub c mid)) tol then qdiv (qadd v v2) 2 else v
        | [] => v
        end
      else wmed_walk mid tol c rest
  end.

Definition wmed_tol (ps : list (Q * Q)) : Q :=
  qmul (qmul (qofnat (length ps)) WMEDIAN_TOL_EPS) (qsum (map snd ps)).

Definition wmedian_sorted (ps : list (Q * Q)) : Q :=
  let total := qsum (map snd ps) in
  let mid := qmul WMEDIAN_HALF total in
  if existsb (fun p => qlt_b mid (snd p)) ps then
    match ps with [] => 0 | p :: t => fst (argmax_from p t) end
  else wmed_walk mid (wmed_tol ps) 0 ps.

(* stable insertion sort of (value, weight) pairs by value *)
Fixpoint pins (p : Q * Q) (l : list (Q * Q)) : list (Q * Q) :=
  match l with
  | [] => [p]
  | q :: t => if qle_b (fst p) (fst q) then p :: l else q :: pins p t
  end.
Definition psort (l : list (Q * Q)) : list (Q * Q) := fold_right pins [] l.

Definition weighted_median_ps (ps : list (Q * Q)) : option Q :=
  on_weighted_array None (fun ps => Some (wmedian_sorted (psort ps))) ps.
Definition weighted_median (a w : list Q) : option Q := weighted_median_ps (combine a w).

(* arrangement by an externally supplied order (numpy's argsort): valid iff it is
   a permutation of 0..n-1 and the arranged values are non-decreasing *)
Definition arrange {A} (d : A) (ord : list nat) (l : list A) : list A := map (fun i => nth i l d) ord.

Fixpoint sorted_fst_b (l : list (Q * Q)) : bool :=
  match l with
  | p :: ((q :: _) as t) => qle_b (fst p) (fst q) && sorted_fst_b t
  | _ => true
  end.

Definition valid_order (ord : list nat) (n : nat) : bool :=
  Nat.eqb (length ord) n && forallb (fun i => existsb (Nat.eqb i) ord) (seq 0 n).

Definition arrange_pairs (ord : list nat) (ps : list (Q * Q)) : option (list (Q * Q)) :=
  if valid_order ord (length ps) then
    let r := arrange (0, 0) ord ps in
    if sorted_fst_b r then Some r else None
  else None.

(* None = the supplied order breaks its contract *)
Definition weighted_median_ord (ps : list (Q * Q)) (ord : list nat) : option (option Q) :=
  match ps with
  | [] => Some None
  | [p] => Some (Some (fst p))
  | _ => match arrange_pairs ord ps with
         | Some r => Some (Some (wmedian_sorted r))
         | None => None
         end
  end.

(* ---- scale estimators ----------------------------------------------------- *)
Definition mad_core (a : list Q) (scale_to_sd : bool) : Q :=
  let m := median a in
  let mad := median (abs_all (sub_all m a)) in
  if scale_to_sd then qmul mad MAD_SCALE else mad.
Definition median_absolute_deviation (a : list Q) (scale_to_sd : bool) : option Q :=
  on_array (Some MAD_DEFAULT) (fun a => Some (mad_core a scale_to_sd)) a.

Definition iqr_core (a : list Q) : Q := qsub (percentile IQR_HI a) (percentile IQR_LO a).
Definition interquartile_range (a : list Q) : option Q :=
  on_array (Some IQR_DEFAULT) (fun a => Some (iqr_core a)) a.

(* gaps between consecutive order statistics *)
Fixpoint diffs (s : list Q) : list Q :=
  match s with
  | x :: ((y :: _) as t) => qsub y x :: diffs t
  | _ => []
  end.
(* weights i*(n-i), i = 1..n-1 *)
Definition gapper_weights (n : nat) : list Q :=
  map (fun i => qofnat (i * (n - i))) (seq 1 (n - 1)).
Definition gapper_core (sqrt_pi : Q) (a : list Q) : Q :=
  let n := length a in
  qdiv (qmul (qdot (diffs (qsort a)) (gapper_weights n)) sqrt_pi) (qofnat (n * (n - 1))).
Definition gapper_scale (sqrt_pi : Q) (a : list Q) : option Q :=
  on_array (Some GAPPER_DEFAULT) (fun a => Some (gapper_core sqrt_pi a)) a.

(* |x_i - x_j| for i < j, in the code's order *)
Fixpoint pair_diffs (a : list Q) : list Q :=
  match a with
  | [] => []
  | x :: t => map (fun y => qabs (qsub x y)) t ++ pair_diffs t
  end.
Definition qn_scale (n : nat) : Q :=
  let z := Z.of_nat n in
  if (z <=? QN_SMALL_N)%Z then QN_SMALL_SCALE
  else if ((QN_MID_LO <? z) && (z <? QN_MID_HI))%Z then qadd QN_MID_BASE (qdiv QN_MID_NUM (qofnat n))
  else QN_LARGE_SCALE.
Definition qn_core (a : list Q) : Q :=
  qdiv (percentile QN_PCT (pair_diffs a)) (qn_scale (length a)).
Definition q_n (a : list Q) : option Q :=
  on_array (Some QN_DEFAULT) (fun a => Some (qn_core a)) a.

(* mean squared error: deviations from [initial] (default after fix 40f88ee: from
   zero; [if initial:] -- None and 0 are not subtracted, which is the same thing) *)
Definition mse_core (a : list Q) (initial : option Q) : Q :=
  let a' := match initial with
            | Some i => if qeq_b i 0 then a else sub_all i a
            | None => a
            end in
  qmean (map qsq a').
Definition mean_squared_error (a : list Q) (initial : option Q) : option Q :=
  on_array (Some MSE_DEFAULT) (fun a => Some (mse_core a initial)) a.

(* weighted variance = (weighted_std)^2; None when the weights sum to zero
   (numpy.average raises ZeroDivisionError) *)
Definition weighted_var_core (ps : list (Q * Q)) : option Q :=
  let a := map fst ps in let w := map snd ps in
  if qeq_b (qsum w) 0 then None
  else let m := wmean a w in Some (wmean (map (fun x => qsq (qsub x m)) a) w).

(* weighted MAD: both weighted medians on explicitly arranged pairs *)
Definition wmad_devs (m : Q) (ps : list (Q * Q)) : list (Q * Q) :=
  map (fun p => (qabs (qsub (fst p) m), snd p)) ps.
Definition wmad_scale (scale_to_sd : bool) (mad : Q) : Q :=
  if scale_to_sd then qmul mad WMAD_SCALE else mad.
(* inner calls go through the decorator again; lengths >= 2 here, so it is the identity *)
Definition weighted_mad_core (ps : list (Q * Q)) (scale_to_sd : bool) : Q :=
  let m := wmedian_sorted (psort ps) in
  wmad_scale scale_to_sd (wmedian_sorted (psort (wmad_devs m ps))).
Definition weighted_mad_ps (ps : list (Q * Q)) (scale_to_sd : bool) : option Q :=
  on_weighted_array (Some WMAD_DEFAULT) (fun ps => Some (weighted_mad_core ps scale_to_sd)) ps.
Definition weighted_mad_ord (ps : list (Q * Q)) (scale_to_sd : bool) (ord1 ord2 : list nat)
  : option (option Q) :=
  match ps with
  | [] => Some None
  | [p] => Some (Some WMAD_DEFAULT)
  | _ => match arrange_pairs ord1 ps with
         | Some r1 =>
             let m := wmedian_sorted r1 in
             match arrange_pairs ord2 (wmad_devs m ps) with
             | Some r2 => Some (Some (wmad_scale scale_to_sd (wmedian_sorted r2)))
             | None => None
             end
         | None => None
         end
  end.

(* ---- biweight midvariance (squared) --------------------------------------- *)
Fixpoint qpow (x : Q) (n : nat) : Q :=
  match n with O => 1 | S k => qmul x (qpow x k) end.

(* [bv_any]: some masked w is non-zero (the guard [not w[mask].any()] after fix
   2c65616); [bv_sum] is kept for the float-ambiguity report only *)
Record bivar_parts := { bv_any : bool; bv_sum : Q; bv_fallback : Q; bv_formula : Q; bv_margin : Q }.

Definition bivar_parts_of (c eps : Q) (a : list Q) (initial : Q) : bivar_parts :=
  let d := sub_all initial a in
  let mad := median (abs_all d) in
  let scale := qmax2 (qmul c mad) eps in
  let w := map (fun di => qdiv di scale) d in
  let dw := filter (fun p => qlt_b (qabs (snd p)) BIVAR_MASK_BOUND) (combine d w) in
  let n := qofnat (length dw) in
  let num := qmul n (qsum (map (fun p => qmul (qsq (fst p))
                                            (qpow (qsub 1 (qsq (snd p))) (Z.to_nat BIVAR_NUM_POW))) dw)) in
  let den := qsum (map (fun p => qmul (qsub 1 (qsq (snd p)))
                                      (qsub 1 (qmul BIVAR_DEN_COEF (qsq (snd p))))) dw) in
  {| bv_any := existsb (fun p => negb (qeq_b (snd p) 0)) dw;
     bv_sum := qsum (map snd dw);
     bv_fallback := qsq (qmul mad BIVAR_MAD_SCALE);
     bv_formula := qdiv num (qsq den);
     (* distance of the mask decision |w| < 1 to its boundary (the count n jumps there) *)
     bv_margin := fold_right qmin2 1 (map (fun wi => qabs (qsub (qabs wi) BIVAR_MASK_BOUND)) w) |}.

Definition bivar_initial (a : list Q) (initial : option Q) : Q :=
  match initial with Some i => i | None => biweight_location_core a None end.

Definition bivar_sq_core (a : list Q) (initial : option Q) : Q :=
  let p := bivar_parts_of BIVAR_C BIVAR_EPS a (bivar_initial a initial) in
  if bv_any p then bv_formula p else bv_fallback p.

Definition biweight_midvariance_sq (a : list Q) (initial : option Q) : option Q :=
  on_array (Some (qsq BIVAR_DEFAULT)) (fun a => Some (bivar_sq_core a initial)) a.
